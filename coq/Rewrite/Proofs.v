(* Rewrite/Proofs.v — theorems about the splice (apply_changes), the position-to-offset
   conversion, the source-list edits and the keyword-argument edits of the rewriter model. *)
From MV Require Import Base.Strs Base.LexFacts Syntax.Lexer Syntax.LexerFacts Rewrite.Splice Rewrite.Edits.
From Coq Require Import Lia Permutation.
Open Scope nat_scope.

(* ------------------------------------------------------------------ splice locality *)
Lemma splice_gen : forall es pre txt,
  asc_ok (length pre) (length pre + length txt) es ->
  fold_left apply_off (rev es) (pre ++ txt) = pre ++ splice (length pre) txt es.
Proof.
  induction es as [|[[s e] new] r IH]; intros pre txt H; [reflexivity|].
  cbn [asc_ok] in H. destruct H as (Hs & Hse & He & Hr).
  cbn [rev]. rewrite fold_left_app. cbn [fold_left].
  set (off := length pre) in *.
  assert (Hlen : length (pre ++ firstn (e - off) txt) = e).
  { rewrite app_length, firstn_length. fold off. lia. }
  replace (pre ++ txt) with ((pre ++ firstn (e - off) txt) ++ skipn (e - off) txt)
    by (rewrite <- app_assoc, firstn_skipn; reflexivity).
  rewrite IH.
  2:{ rewrite Hlen. rewrite skipn_length.
      replace (e + (length txt - (e - off))) with (off + length txt) by lia. exact Hr. }
  rewrite Hlen. unfold apply_off. cbn [splice].
  rewrite firstn_app, Hlen. replace (s - e) with 0 by lia. cbn [firstn]. rewrite app_nil_r.
  rewrite firstn_app. fold off. rewrite (firstn_all2 pre) by (fold off; lia).
  rewrite firstn_firstn. replace (Nat.min (s - off) (e - off)) with (s - off) by lia.
  rewrite skipn_app, Hlen. replace (e - e) with 0 by lia. cbn [skipn].
  rewrite (skipn_all2 (pre ++ firstn (e - off) txt)) by lia.
  cbn [app]. rewrite <- !app_assoc. reflexivity.
Qed.

(* For pairwise disjoint extents applied last-first, every character outside the extents is
   kept, in order, and each extent is replaced by its new text. *)
Theorem splice_local es text :
  asc_ok 0 (length text) es -> fold_left apply_off (rev es) text = splice 0 text es.
Proof. intros H. exact (splice_gen es [] text H). Qed.

(* what [splice] means, one extent at a time: the text before the first extent is untouched *)
Lemma splice_prefix s e new r text :
  asc_ok 0 (length text) ((s, e, new) :: r) ->
  firstn s (splice 0 text ((s, e, new) :: r)) = firstn s text.
Proof.
  intros (H0 & Hse & He & Hr). cbn [splice]. rewrite Nat.sub_0_r.
  rewrite firstn_app, firstn_firstn, Nat.min_id, firstn_length.
  replace (s - Nat.min s (length text)) with 0 by lia. cbn [firstn]. apply app_nil_r.
Qed.
(* with a single extent: prefix, new text, suffix *)
Lemma splice_one s e new text :
  splice 0 text [(s, e, new)] = firstn s text ++ new ++ skipn e text.
Proof. cbn [splice]. rewrite !Nat.sub_0_r. reflexivity. Qed.

(* ------------------------------------------------------------------ (line, column) -> offset *)
Definition cnt_nl (s : str) : nat := length (filter (fun c => N.eqb c 10) s).
Definition col_nat (s : str) : nat := span not_nl (rev s).

Lemma not_nl_spec c : not_nl c = negb (N.eqb c 10).
Proof. reflexivity. Qed.

Lemma span_snoc_stop (q : char -> bool) l c : q c = false -> span q (l ++ [c]) = span q l.
Proof.
  intros H. induction l as [|x l IH]; cbn; [now rewrite H|]. destruct (q x); [now rewrite IH | reflexivity].
Qed.
Lemma span_app_stops (q : char -> bool) l m : forallb q l = false -> span q (l ++ m) = span q l.
Proof.
  induction l as [|x l IH]; cbn; [discriminate|]. destruct (q x); cbn; [|reflexivity].
  intros H. now rewrite IH.
Qed.
Lemma col_cons_nl p : col_nat (10%N :: p) = col_nat p.
Proof. unfold col_nat. cbn [rev]. apply span_snoc_stop. reflexivity. Qed.

Lemma cnt_nl_rev_forallb p : cnt_nl p = 0 <-> forallb not_nl (rev p) = true.
Proof.
  unfold cnt_nl. rewrite forallb_forall. split.
  - intros H c Hc. apply in_rev in Hc. rewrite not_nl_spec.
    destruct (N.eqb c 10) eqn:E; [|reflexivity].
    assert (In c (filter (fun c => N.eqb c 10) p)) by (apply filter_In; auto).
    destruct (filter (fun c => N.eqb c 10) p); [contradiction | discriminate].
  - intros H. destruct (filter (fun c => N.eqb c 10) p) as [|c l] eqn:E; [reflexivity|].
    assert (Hc : In c (filter (fun c => N.eqb c 10) p)) by (rewrite E; left; reflexivity).
    apply filter_In in Hc. destruct Hc as [Hc1 Hc2]. apply in_rev in Hc1. apply H in Hc1.
    rewrite not_nl_spec, Hc2 in Hc1. discriminate.
Qed.

Lemma col_cons_other c p : N.eqb c 10 = false ->
  col_nat (c :: p) = if Nat.eqb (cnt_nl p) 0 then S (length p) else col_nat p.
Proof.
  intros Hc. unfold col_nat. cbn [rev].
  destruct (Nat.eqb (cnt_nl p) 0) eqn:E.
  - apply Nat.eqb_eq, cnt_nl_rev_forallb in E.
    rewrite span_app_all by exact E. rewrite rev_length.
    cbn [span]. rewrite not_nl_spec, Hc. cbn [negb]. rewrite Nat.add_1_r. reflexivity.
  - apply Nat.eqb_neq in E.
    assert (E' : forallb not_nl (rev p) = false).
    { destruct (forallb not_nl (rev p)) eqn:F; [|reflexivity]. apply cnt_nl_rev_forallb in F. contradiction. }
    apply span_app_stops. exact E'.
Qed.

Lemma nth_S_cons {A} k (a : A) l d : nth (S k) (a :: l) d = nth k l d.
Proof. reflexivity. Qed.

Lemma offset_gen : forall pre off rest,
  nth (cnt_nl pre) (off :: line_starts off (pre ++ rest)) 0 + col_nat pre = off + length pre.
Proof.
  induction pre as [|c p IH]; intros off rest.
  - cbn. lia.
  - cbn [app line_starts]. destruct (N.eqb c 10) eqn:Ec.
    + apply N.eqb_eq in Ec. subst c.
      change (cnt_nl (10%N :: p)) with (S (cnt_nl p)).
      rewrite nth_S_cons. rewrite col_cons_nl. rewrite IH. cbn [length]. lia.
    + assert (Ecn : cnt_nl (c :: p) = cnt_nl p) by (unfold cnt_nl; cbn [filter]; rewrite Ec; reflexivity).
      rewrite Ecn.
      rewrite col_cons_other by exact Ec.
      destruct (cnt_nl p) as [|k] eqn:Ek.
      * cbn. reflexivity.
      * cbn [Nat.eqb]. specialize (IH (S off) rest). rewrite nth_S_cons in IH.
        rewrite nth_S_cons. rewrite IH. cbn [length]. lia.
Qed.

(* The position the lexer records for the point after [pre] (line = 1 + newlines in pre,
   column = characters after the last newline; Syntax/LexerFacts.v) is converted by the
   '\n'-based line offsets to exactly that point, whatever the text contains. *)
Theorem extent_offset pre rest :
  pos_offset (line_offsets (pre ++ rest)) (N.to_nat (line_of pre)) (N.to_nat (col_of pre)) = length pre.
Proof.
  unfold pos_offset, line_offsets, line_of, col_of, count_nl, after_last_nl.
  rewrite N2Nat.inj_add, !Nat2N.id. change (N.to_nat 1) with 1.
  replace (1 + length (filter (fun c => (c =? c_nl)%N) pre) - 1) with (cnt_nl pre) by (unfold cnt_nl, c_nl; lia).
  change (span not_nl (rev pre)) with (col_nat pre).
  rewrite offset_gen. reflexivity.
Qed.

(* str.splitlines() disagrees with the lexer as soon as the text contains a form feed. *)
Theorem line_offsets_splitlines_refuted :
  exists pre rest,
    pos_offset (line_offsets_splitlines (pre ++ rest)) (N.to_nat (line_of pre)) (N.to_nat (col_of pre)) <> length pre.
Proof. exists [97; 12; 10]%N, [98]%N. vm_compute. discriminate. Qed.

(* ------------------------------------------------------------------ source lists *)
Lemma str_eqb_false a b : str_eqb a b = false <-> a <> b.
Proof.
  split.
  - intros H E. subst. rewrite str_eqb_refl in H. discriminate.
  - intros H. destruct (str_eqb a b) eqn:E; [|reflexivity]. apply str_eqb_eq in E. contradiction.
Qed.
Lemma str_mem_In x l : str_mem x l = true <-> In x l.
Proof.
  induction l as [|y l IH]; cbn; [split; [discriminate|contradiction]|].
  rewrite orb_true_iff, IH, str_eqb_eq. split; intros [H|H]; auto.
Qed.

Definition set_eq (a b : list str) : Prop := forall x, In x a <-> In x b.

Section SourceFacts.
  Variable sort : list str -> list str.
  Hypothesis sort_perm : forall l, Permutation (sort l) l.

  Lemma sort_In x l : In x (sort l) <-> In x l.
  Proof. split; apply Permutation_in; [apply sort_perm | apply Permutation_sym, sort_perm]. Qed.

  Lemma dedup_In x l : In x (dedup l) <-> In x l.
  Proof.
    induction l as [|y l IH]; [reflexivity|]. cbn [dedup].
    destruct (str_mem y l) eqn:E.
    - rewrite IH. apply str_mem_In in E. cbn. split; [auto|]. intros [->|H]; auto.
    - cbn. rewrite IH. reflexivity.
  Qed.

  Lemma add_new_In x : forall news old, In x (add_new old news) <-> In x old \/ In x news.
  Proof.
    induction news as [|f r IH]; intros old; cbn [add_new].
    - cbn. tauto.
    - destruct (str_mem f old) eqn:E.
      + rewrite IH. apply str_mem_In in E. cbn. split; [tauto|]. intros [H|[->|H]]; auto.
      + rewrite IH, in_app_iff. cbn. tauto.
  Qed.

  (* after 'add', the target has exactly its old sources and the requested ones *)
  Theorem add_src_spec old news x : In x (add_src sort old news) <-> In x old \/ In x news.
  Proof. unfold add_src. rewrite sort_In, add_new_In, dedup_In. reflexivity. Qed.

  (* a file the target already has is not added a second time *)
  Theorem add_src_existing old f : In f old -> add_src sort old [f] = sort old.
  Proof. intros H. unfold add_src. cbn. apply str_mem_In in H. rewrite H. reflexivity. Qed.

  Lemma remove_first_perm f : forall l, In f l -> Permutation l (f :: remove_first f l).
  Proof.
    induction l as [|y l IH]; intros H; [contradiction|]. cbn [remove_first].
    destruct (str_eqb y f) eqn:E.
    - apply str_eqb_eq in E. subst. reflexivity.
    - apply str_eqb_false in E. destruct H as [H|H]; [contradiction|].
      etransitivity; [apply perm_skip, IH, H | apply perm_swap].
  Qed.
  Lemma remove_first_notin f : forall l, ~ In f l -> remove_first f l = l.
  Proof.
    induction l as [|y l IH]; intros H; [reflexivity|]. cbn [remove_first].
    destruct (str_eqb y f) eqn:E.
    - apply str_eqb_eq in E. subst. exfalso. apply H. left. reflexivity.
    - f_equal. apply IH. intros H'. apply H. right. exact H'.
  Qed.

  (* adding a new file and removing it again gives back the original sources
     (as a multiset, hence as a set) *)
  Theorem rm_add_new old f : ~ In f old -> Permutation (rm_src sort (add_src sort old [f]) [f]) old.
  Proof.
    intros H. unfold rm_src, add_src. cbn [dedup str_mem add_new fold_left].
    assert (E : str_mem f old = false).
    { destruct (str_mem f old) eqn:E; [|reflexivity]. apply str_mem_In in E. contradiction. }
    rewrite E. etransitivity; [apply sort_perm|].
    assert (P : Permutation (sort (old ++ [f])) (f :: old)).
    { etransitivity; [apply sort_perm|]. apply Permutation_sym, Permutation_cons_append. }
    assert (I : In f (sort (old ++ [f]))) by (apply sort_In, in_app_iff; right; left; reflexivity).
    pose proof (remove_first_perm f _ I) as Q.
    apply Permutation_cons_inv with (a := f).
    etransitivity; [apply Permutation_sym, Q | exact P].
  Qed.
  Corollary rm_add_new_set old f : ~ In f old -> set_eq (rm_src sort (add_src sort old [f]) [f]) old.
  Proof.
    intros H x. pose proof (rm_add_new old f H) as P.
    split; apply Permutation_in; [exact P | apply Permutation_sym, P].
  Qed.

  Lemma remove_first_In_other f x : forall l, x <> f -> (In x (remove_first f l) <-> In x l).
  Proof.
    induction l as [|y l IH]; intros H; [reflexivity|]. cbn [remove_first].
    destruct (str_eqb y f) eqn:E.
    - apply str_eqb_eq in E. subst. cbn. split; [auto|]. intros [->|H']; [contradiction|auto].
    - cbn. rewrite IH by exact H. reflexivity.
  Qed.

  (* removing an existing file and adding it again keeps the source set *)
  Theorem add_rm_existing old f : In f old -> set_eq (add_src sort (rm_src sort old [f]) [f]) old.
  Proof.
    intros H x. rewrite add_src_spec. unfold rm_src. cbn [fold_left]. rewrite sort_In.
    destruct (list_eq_dec N.eq_dec x f) as [->|Hx].
    - cbn. split; [auto|]. intros _. right. left. reflexivity.
    - rewrite remove_first_In_other by exact Hx. cbn. split; [|auto].
      intros [H'|[H'|[]]]; [exact H' | subst; contradiction].
  Qed.

  (* 'rm' removes nothing but the requested files *)
  Theorem rm_src_others old gone x : ~ In x gone -> (In x (rm_src sort old gone) <-> In x old).
  Proof.
    intros H. unfold rm_src. rewrite sort_In. revert old.
    induction gone as [|f r IH]; intros old; [reflexivity|]. cbn [fold_left].
    rewrite IH by (intros H'; apply H; right; exact H').
    apply remove_first_In_other. intros ->. apply H. left. reflexivity.
  Qed.
End SourceFacts.

(* ------------------------------------------------------------------ keyword arguments *)
Section KwFacts.
  Variable V : Type.
  Implicit Types (d : kws V) (k : str).

  (* the other keyword arguments, with their values, in their order *)
  Definition kw_others k d : kws V := filter (fun kv => negb (str_eqb (fst kv) k)) d.

  Theorem kw_set_get k v d : kw_get k (kw_set k v d) = Some v.
  Proof.
    induction d as [|[k' v'] r IH]; cbn.
    - now rewrite str_eqb_refl.
    - destruct (str_eqb k' k) eqn:E; cbn; rewrite E; [reflexivity | exact IH].
  Qed.
  (* set touches no other keyword: values and order of all other arguments are kept *)
  Theorem kw_set_others k v d : kw_others k (kw_set k v d) = kw_others k d.
  Proof.
    unfold kw_others. induction d as [|[k' v'] r IH]; cbn [kw_set filter fst].
    - now rewrite str_eqb_refl.
    - destruct (str_eqb k' k) eqn:E; cbn [filter fst]; rewrite E; cbn [negb]; [reflexivity | now rewrite IH].
  Qed.
  Theorem kw_set_get_other k k' v d : k' <> k -> kw_get k' (kw_set k v d) = kw_get k' d.
  Proof.
    intros H. induction d as [|[k2 v2] r IH]; cbn.
    - assert (E : str_eqb k k' = false) by (apply str_eqb_false; congruence). now rewrite E.
    - destruct (str_eqb k2 k) eqn:E; cbn.
      + apply str_eqb_eq in E. subst k2.
        assert (E' : str_eqb k k' = false) by (apply str_eqb_false; congruence). now rewrite E'.
      + destruct (str_eqb k2 k'); [reflexivity | exact IH].
  Qed.
  (* a keyword that was present keeps its place *)
  Theorem kw_set_keys_present k v d : In k (kw_keys d) -> kw_keys (kw_set k v d) = kw_keys d.
  Proof.
    induction d as [|[k' v'] r IH]; cbn; [contradiction|].
    intros H. destruct (str_eqb k' k) eqn:E; cbn; [reflexivity|].
    f_equal. apply IH. destruct H as [H|H]; [|exact H]. subst. rewrite str_eqb_refl in E. discriminate.
  Qed.
  Theorem kw_set_keys_new k v d : ~ In k (kw_keys d) -> kw_keys (kw_set k v d) = kw_keys d ++ [k].
  Proof.
    induction d as [|[k' v'] r IH]; cbn; [reflexivity|].
    intros H. destruct (str_eqb k' k) eqn:E; cbn.
    - apply str_eqb_eq in E. subst. exfalso. apply H. left. reflexivity.
    - f_equal. apply IH. intros H'. apply H. right. exact H'.
  Qed.

  Theorem kw_del_get k d : NoDup (kw_keys d) -> kw_get k (kw_del k d) = None.
  Proof.
    induction d as [|[k' v'] r IH]; cbn; [reflexivity|].
    intros H. inversion H as [|? ? Hn Hd]; subst.
    destruct (str_eqb k' k) eqn:E; cbn.
    - apply str_eqb_eq in E. subst k'. clear - Hn.
      induction r as [|[k2 v2] r IH]; cbn; [reflexivity|].
      destruct (str_eqb k2 k) eqn:E.
      + apply str_eqb_eq in E. subst. exfalso. apply Hn. left. reflexivity.
      + apply IH. intros H. apply Hn. right. exact H.
    - rewrite E. apply IH. exact Hd.
  Qed.
  Theorem kw_del_others k d : kw_others k (kw_del k d) = kw_others k d.
  Proof.
    unfold kw_others. induction d as [|[k' v'] r IH]; cbn [kw_del filter fst]; [reflexivity|].
    destruct (str_eqb k' k) eqn:E; cbn [filter fst negb]; [reflexivity|]. rewrite E. cbn [negb]. now rewrite IH.
  Qed.
End KwFacts.

(* ------------------------------------------------------------------ default options *)
Definition keyed (keys : list str) (x : str) : bool := existsb (fun k => has_key k x) keys.

Lemma has_key_entry k v : has_key k (opt_entry k v) = true.
Proof. unfold has_key, opt_entry. replace (k ++ 61%N :: v) with ((k ++ [61%N]) ++ v) by (rewrite <- app_assoc; reflexivity). apply prefixb_app. Qed.

Lemma filter_idem {A} (f : A -> bool) l : filter f (filter f l) = filter f l.
Proof.
  induction l as [|x l IH]; [reflexivity|]. cbn [filter]. destruct (f x) eqn:E; [|exact IH].
  cbn [filter]. rewrite E. now rewrite IH.
Qed.

(* entries of other options are untouched, in their order *)
Theorem opts_set_others l kvs :
  filter (fun x => negb (keyed (map fst kvs) x)) (opts_set l kvs) = filter (fun x => negb (keyed (map fst kvs) x)) l.
Proof.
  unfold opts_set, opts_remove. rewrite filter_app.
  fold (keyed (map fst kvs)).
  assert (E : filter (fun x => negb (keyed (map fst kvs) x)) (map (fun kv => opt_entry (fst kv) (snd kv)) kvs) = []).
  { assert (G : forall keys (sub : list (str * str)), (forall kv, In kv sub -> In (fst kv) keys) ->
               filter (fun x => negb (keyed keys x)) (map (fun kv => opt_entry (fst kv) (snd kv)) sub) = []).
    { intros keys sub. induction sub as [|[k v] r IH]; intros H; [reflexivity|]. cbn [map filter fst snd].
      assert (K : keyed keys (opt_entry k v) = true).
      { unfold keyed. apply existsb_exists. exists k. split; [apply (H (k, v)); left; reflexivity | apply has_key_entry]. }
      rewrite K. cbn. apply IH. intros kv Hkv. apply H. right. exact Hkv. }
    apply G. intros kv Hkv. apply in_map. exact Hkv. }
  rewrite E, app_nil_r. apply filter_idem.
Qed.
(* every requested option is present with the requested value *)
Theorem opts_set_has l kvs k v : In (k, v) kvs -> In (opt_entry k v) (opts_set l kvs).
Proof.
  intros H. unfold opts_set. apply in_app_iff. right.
  apply (in_map (fun kv => opt_entry (fst kv) (snd kv)) kvs (k, v) H).
Qed.
(* and no other entry for a requested option survives *)
Theorem opts_set_exact l kvs x :
  In x (opts_set l kvs) -> keyed (map fst kvs) x = true ->
  In x (map (fun kv => opt_entry (fst kv) (snd kv)) kvs).
Proof.
  unfold opts_set, opts_remove. intros H K. apply in_app_iff in H. destruct H as [H|H]; [|exact H].
  apply filter_In in H. destruct H as [_ H]. fold (keyed (map fst kvs) x) in H. rewrite K in H. discriminate.
Qed.
Theorem opts_remove_gone l keys x : In x (opts_remove l keys) -> keyed keys x = false.
Proof.
  unfold opts_remove. intros H. apply filter_In in H. destruct H as [_ H].
  fold (keyed keys x) in H. destruct (keyed keys x); [discriminate | reflexivity].
Qed.

(* ------------------------------------------------------------------ outermost modified nodes *)
(* Rewriter.apply_changes splices only the modified nodes that are not inside another modified
   node.  For extents as the parser produces them (a laminar family: two extents are nested or
   one ends before the other starts; non-empty; distinct nodes have distinct extents) the
   extents that are kept are pairwise disjoint, every modified node is inside a kept one, and
   the splice therefore changes only text inside the kept extents. *)
Lemma pos_le_spec l1 c1 l2 c2 : pos_le l1 c1 l2 c2 = true <-> l1 < l2 \/ (l1 = l2 /\ c1 <= c2).
Proof.
  unfold pos_le. rewrite orb_true_iff, andb_true_iff, Nat.ltb_lt, Nat.eqb_eq, Nat.leb_le. tauto.
Qed.
Lemma pos_lt_spec a b : pos_lt a b = true <-> e_sl a < e_sl b \/ (e_sl a = e_sl b /\ e_sc a < e_sc b).
Proof.
  unfold pos_lt. rewrite orb_true_iff, andb_true_iff, !Nat.ltb_lt, Nat.eqb_eq. tauto.
Qed.
Lemma same_extent_spec a b : same_extent a b = true <->
  e_sl a = e_sl b /\ e_sc a = e_sc b /\ e_el a = e_el b /\ e_ec a = e_ec b.
Proof. unfold same_extent. rewrite !andb_true_iff, !Nat.eqb_eq. tauto. Qed.
Lemma is_inside_spec x y : is_inside x y = true <->
  same_extent x y = false /\ pos_le (e_sl y) (e_sc y) (e_sl x) (e_sc x) = true /\
  pos_le (e_el x) (e_ec x) (e_el y) (e_ec y) = true.
Proof. unfold is_inside. rewrite !andb_true_iff, negb_true_iff. tauto. Qed.

(* y ends before x starts *)
Definition ends_before (y x : edit) : Prop := pos_le (e_el y) (e_ec y) (e_sl x) (e_sc x) = true.
Definition nonempty (x : edit) : Prop :=
  pos_le (e_sl x) (e_sc x) (e_el x) (e_ec x) = true /\ ~ (e_sl x = e_el x /\ e_sc x = e_ec x).
Definition laminar (es : list edit) : Prop :=
  forall x y, In x es -> In y es ->
    x = y \/ is_inside x y = true \/ is_inside y x = true \/ ends_before x y \/ ends_before y x.

Ltac pos_unfold :=
  repeat match goal with
  | H : is_inside _ _ = true |- _ => apply is_inside_spec in H; destruct H as (? & ? & ?)
  | H : pos_le _ _ _ _ = true |- _ => apply pos_le_spec in H
  | H : ends_before _ _ |- _ => unfold ends_before in H
  | H : same_extent _ _ = false |- _ =>
      let E := fresh in assert (E : ~ (same_extent _ _ = true)) by (rewrite H; discriminate);
      rewrite same_extent_spec in E; clear H
  | H : nonempty _ |- _ => destruct H as [? ?]
  end.

Lemma is_inside_irrefl x : is_inside x x = false.
Proof.
  unfold is_inside. replace (same_extent x x) with true; [reflexivity|].
  symmetry. apply same_extent_spec. auto.
Qed.
Lemma is_inside_trans x y z : is_inside x y = true -> is_inside y z = true -> is_inside x z = true.
Proof.
  intros H1 H2. pos_unfold. apply is_inside_spec. split; [|split].
  - destruct (same_extent x z) eqn:E; [|reflexivity]. apply same_extent_spec in E. exfalso. lia.
  - apply pos_le_spec. lia.
  - apply pos_le_spec. lia.
Qed.
Lemma is_inside_asym x y : is_inside x y = true -> is_inside y x = true -> False.
Proof. intros H1 H2. pos_unfold. lia. Qed.

Definition containers (es : list edit) (x : edit) : list edit := filter (fun y => is_inside x y) es.

Lemma containers_shrink es x y : is_inside x y = true -> In y es ->
  length (containers es y) < length (containers es x).
Proof.
  intros Hxy Hy. unfold containers.
  induction es as [|z es IH]; [contradiction|]. cbn [filter].
  destruct (is_inside y z) eqn:Eyz.
  - rewrite (is_inside_trans x y z Hxy Eyz). cbn [length].
    destruct Hy as [->|Hy]; [rewrite is_inside_irrefl in Eyz; discriminate|]. specialize (IH Hy). lia.
  - destruct Hy as [<-|Hy].
    + rewrite Hxy. cbn [length].
      assert (forall l, length (filter (fun y0 => is_inside z y0) l) <= length (filter (fun y0 => is_inside x y0) l)).
      { induction l as [|w l IHl]; [cbn; lia|]. cbn [filter]. destruct (is_inside z w) eqn:E.
        - rewrite (is_inside_trans x z w Hxy E). cbn [length]. lia.
        - destruct (is_inside x w); cbn [length]; lia. }
      specialize (H es). lia.
    + specialize (IH Hy). destruct (is_inside x z); cbn [length]; lia.
Qed.

(* nothing is dropped: every modified node is a kept one or lies inside a kept one *)
Theorem outermost_covers es x : In x es ->
  exists y, In y (outermost es) /\ (x = y \/ is_inside x y = true).
Proof.
  remember (length (containers es x)) as n eqn:En. revert x En.
  induction n as [n IH] using lt_wf_ind. intros x En Hx.
  destruct (existsb (fun y => is_inside x y) es) eqn:E.
  - apply existsb_exists in E. destruct E as (y & Hy & Hxy).
    destruct (IH (length (containers es y)) ltac:(subst n; apply containers_shrink; assumption) y eq_refl Hy)
      as (z & Hz & Hyz).
    exists z. split; [exact Hz|]. right. destruct Hyz as [->|Hyz]; [exact Hxy | eapply is_inside_trans; eassumption].
  - exists x. split; [|left; reflexivity]. unfold outermost. apply filter_In. split; [exact Hx|]. now rewrite E.
Qed.

Lemma outermost_In es x : In x (outermost es) -> In x es /\ forall y, In y es -> is_inside x y = false.
Proof.
  unfold outermost. intros H. apply filter_In in H. destruct H as [H1 H2]. split; [exact H1|].
  intros y Hy. apply negb_true_iff in H2.
  destruct (is_inside x y) eqn:E; [|reflexivity].
  assert (existsb (fun y0 => is_inside x y0) es = true) by (apply existsb_exists; eauto). congruence.
Qed.

(* the kept extents are pairwise disjoint *)
Theorem outermost_disjoint es x y : laminar es ->
  In x (outermost es) -> In y (outermost es) -> x = y \/ ends_before x y \/ ends_before y x.
Proof.
  intros L Hx Hy. apply outermost_In in Hx, Hy. destruct Hx as [Hx Nx]. destruct Hy as [Hy Ny].
  destruct (L x y Hx Hy) as [E|[E|[E|[E|E]]]]; auto.
  - rewrite (Nx y Hy) in E. discriminate.
  - rewrite (Ny x Hx) in E. discriminate.
Qed.

(* ---- from pairwise disjoint extents, sorted as apply_changes sorts them, to the splice theorem ---- *)
Lemma insert_desc_In x a l : In x (insert_desc a l) <-> x = a \/ In x l.
Proof.
  induction l as [|y l IH]; cbn [insert_desc]; [cbn; intuition|].
  destruct (pos_lt y a); cbn [In]; [intuition|]. rewrite IH. intuition.
Qed.
Lemma sort_desc_In x l : In x (sort_desc l) <-> In x l.
Proof.
  induction l as [|a l IH]; [reflexivity|]. unfold sort_desc. cbn [fold_right].
  fold (sort_desc l). rewrite insert_desc_In, IH. cbn. intuition.
Qed.

(* descending: no element starts before a later one *)
Fixpoint desc (l : list edit) : Prop :=
  match l with [] => True | x :: r => (forall y, In y r -> pos_lt x y = false) /\ desc r end.
Lemma insert_desc_desc a l : desc l -> desc (insert_desc a l).
Proof.
  induction l as [|y l IH]; intros D; cbn [insert_desc].
  - cbn. split; [intros y []|exact I].
  - destruct D as [D1 D2]. destruct (pos_lt y a) eqn:E.
    + cbn [desc]. split; [|split; assumption].
      intros z [->|Hz].
      * destruct (pos_lt a z) eqn:F; [|reflexivity]. apply pos_lt_spec in E, F. lia.
      * destruct (pos_lt a z) eqn:F; [|reflexivity]. specialize (D1 z Hz).
        apply pos_lt_spec in E, F. assert (pos_lt y z = true) by (apply pos_lt_spec; lia). congruence.
    + cbn [desc]. split; [|apply IH; exact D2].
      intros z Hz. apply insert_desc_In in Hz. destruct Hz as [->|Hz]; [exact E | apply D1; exact Hz].
Qed.
Lemma sort_desc_desc l : desc (sort_desc l).
Proof.
  induction l as [|a l IH]; [exact I|]. unfold sort_desc. cbn [fold_right]. apply insert_desc_desc. exact IH.
Qed.

(* (line, column) positions are mapped to offsets monotonically *)
Definition monotone_on (offs : list nat) (es : list edit) : Prop :=
  forall x y, In x es -> In y es ->
    (ends_before x y -> pos_offset offs (e_el x) (e_ec x) <= pos_offset offs (e_sl y) (e_sc y)) /\
    pos_offset offs (e_sl x) (e_sc x) <= pos_offset offs (e_el x) (e_ec x).

Lemma desc_disjoint_asc offs len : forall l,
  desc l ->
  (forall x, In x l -> nonempty x) ->
  (forall x y, In x l -> In y l -> x = y \/ ends_before x y \/ ends_before y x) ->
  NoDup l ->
  monotone_on offs l ->
  (forall x, In x l -> pos_offset offs (e_el x) (e_ec x) <= len) ->
  forall bound, (forall x, In x l -> bound <= pos_offset offs (e_sl x) (e_sc x)) ->
  asc_ok bound len (rev (map (edit_off offs) l)) /\
  (forall x, In x l -> True).
Proof.
  intros l. split; [|auto]. revert bound H5.
  induction l as [|x r IH]; intros bound Hb; [exact I|].
  cbn [map rev].
  destruct H as [Dx Dr]. inversion H2 as [|? ? Nx Nr]; subst.
  (* every later element ends before x starts *)
  assert (B : forall y, In y r -> ends_before y x).
  { intros y Hy. destruct (H1 x y (or_introl eq_refl) (or_intror Hy)) as [E|[E|E]]; [subst; contradiction| |exact E].
    exfalso. specialize (Dx y Hy). pose proof (H0 x (or_introl eq_refl)) as Nex. pose proof (H0 y (or_intror Hy)) as Ney.
    assert (~ (pos_lt x y = true)) by (rewrite Dx; discriminate). rewrite pos_lt_spec in H.
    pos_unfold. lia. }
  assert (IHr : asc_ok bound len (rev (map (edit_off offs) r))).
  { apply IH; auto.
    - intros; apply H0; right; assumption.
    - intros; apply H1; right; assumption.
    - intros a b Ha Hb'. apply H3; right; assumption.
    - intros; apply H4; right; assumption.
    - intros; apply Hb; right; assumption. }
  (* append x at the end of an ascending list all of whose extents end before x starts *)
  assert (G : forall L b, asc_ok b len L ->
              (forall t, In t L -> snd (fst t) <= pos_offset offs (e_sl x) (e_sc x)) ->
              b <= pos_offset offs (e_sl x) (e_sc x) ->
              asc_ok b len (L ++ [edit_off offs x])).
  { induction L as [|[[s e] nw] L IHL]; intros b A HL Hb0.
    - cbn. destruct (H3 x x (or_introl eq_refl) (or_introl eq_refl)) as [_ M]. repeat split; auto.
      apply H4. left. reflexivity.
    - cbn [app asc_ok] in *. destruct A as (A1 & A2 & A3 & A4). repeat split; auto.
      apply IHL; auto. + intros t Ht. apply HL. right. exact Ht. + apply (HL (s, e, nw)). left. reflexivity. }
  apply G; [exact IHr | | apply Hb; left; reflexivity].
  intros t Ht. apply in_rev in Ht. apply in_map_iff in Ht. destruct Ht as (y & <- & Hy).
  cbn [edit_off fst snd]. destruct (H3 y x (or_intror Hy) (or_introl eq_refl)) as [M _]. apply M, B, Hy.
Qed.

(* Splicing the outermost modified extents, last one first, changes only the text inside them:
   the result is the text with exactly those extents replaced (splice), for every laminar family
   of non-empty, pairwise distinct extents whose positions denote offsets of the text. *)
Theorem splice_outermost_local text es :
  laminar es -> (forall x, In x es -> nonempty x) -> NoDup es ->
  monotone_on (line_offsets text) es ->
  (forall x, In x es -> pos_offset (line_offsets text) (e_el x) (e_ec x) <= length text) ->
  apply_edits text es =
  splice 0 text (rev (map (edit_off (line_offsets text)) (sort_desc (outermost es)))).
Proof.
  intros L NE ND M B. unfold apply_edits.
  set (offs := line_offsets text). set (l := sort_desc (outermost es)).
  assert (Hin : forall x, In x l -> In x (outermost es)) by (intros x; apply sort_desc_In).
  assert (Hes : forall x, In x l -> In x es) by (intros x Hx; apply Hin in Hx; apply outermost_In in Hx; tauto).
  assert (A : asc_ok 0 (length text) (rev (map (edit_off offs) l))).
  { apply (desc_disjoint_asc offs (length text) l).
    - apply sort_desc_desc.
    - intros x Hx. apply NE, Hes, Hx.
    - intros x y Hx Hy. apply (outermost_disjoint es); auto.
    - (* NoDup is kept by filter and by the insertion sort *)
      assert (NDo : NoDup (outermost es)) by (apply NoDup_filter; exact ND).
      unfold l. clear - NDo. induction (outermost es) as [|a r IH]; [constructor|].
      inversion NDo; subst. unfold sort_desc. cbn [fold_right]. fold (sort_desc r).
      specialize (IH H2). assert (Na : ~ In a (sort_desc r)) by (rewrite sort_desc_In; exact H1).
      clear - IH Na. induction (sort_desc r) as [|y s IHs]; cbn [insert_desc]; [constructor; [auto|constructor]|].
      destruct (pos_lt y a); [constructor; assumption|].
      inversion IH; subst. constructor.
      + rewrite insert_desc_In. intros [->|H]; [apply Na; left; reflexivity | contradiction].
      + apply IHs; [assumption | intros H; apply Na; right; exact H].
    - intros x y Hx Hy. apply M; apply Hes; assumption.
    - intros x Hx. apply B, Hes, Hx.
    - intros; lia. }
  rewrite <- (splice_local _ text A). rewrite rev_involutive.
  clearbody l offs. clear. revert text. induction l as [|x r IH]; intros t; [reflexivity|]. cbn [fold_left map]. apply IH.
Qed.

(* ------------------------------------------------------------------ removing an assigned target *)
Lemma firstn_app_exact {A} (a b : list A) : firstn (length a) (a ++ b) = a.
Proof. rewrite firstn_app, Nat.sub_diag, firstn_all. cbn. apply app_nil_r. Qed.
Lemma skipn_app_exact {A} (a b : list A) : skipn (length a) (a ++ b) = b.
Proof. rewrite skipn_app, Nat.sub_diag, skipn_all. reflexivity. Qed.
Lemma skipn_app3 {A} (a b c r : list A) : skipn (length a + length b + length c) ((a ++ b ++ c) ++ r) = r.
Proof.
  replace (length a + length b + length c) with (length (a ++ b ++ c)) by (rewrite !app_length; lia).
  apply skipn_app_exact.
Qed.
Lemma find_eq_app name r : (forall c, In c name -> c <> 61%N) -> find_eq (name ++ 61%N :: r) = length name.
Proof.
  induction name as [|c name IH]; intros H; [reflexivity|]. cbn [app find_eq length].
  assert (E : N.eqb c 61 = false) by (apply N.eqb_neq, H; left; reflexivity). rewrite E.
  f_equal. apply IH. intros d Hd. apply H. right. exact Hd.
Qed.
Lemma span_ws_app ws r : forallb is_ws ws = true ->
  match r with c :: _ => is_ws c = false | [] => True end -> span_ws (ws ++ r) = length ws.
Proof.
  induction ws as [|c ws IH]; intros H Hr.
  - destruct r as [|c r]; [reflexivity|]. cbn. now rewrite Hr.
  - cbn in H. apply andb_true_iff in H. destruct H as [H1 H2]. cbn [app span_ws length]. rewrite H1. f_equal. auto.
Qed.

(* rm_target of `name = value` removes exactly the statement and the white space after it:
   everything before the statement and everything from the next non-blank character on is kept. *)
Theorem rm_assign_exact (pre name ws1 value ws2 rest : list N) :
  (forall c, In c name -> c <> 61%N) -> forallb is_ws ws1 = true -> forallb is_ws ws2 = true ->
  match rest with c :: _ => is_ws c = false | [] => True end ->
  rm_assign (pre ++ name ++ 61%N :: ws1 ++ value ++ ws2 ++ rest)
            (length pre) (length (pre ++ name ++ 61%N :: ws1)) (length (pre ++ name ++ 61%N :: ws1) + length value)
  = pre ++ rest.
Proof.
  intros Hn H1 H2 Hr. unfold rm_assign. unfold str, char in *.
  set (head := pre ++ name ++ 61%N :: ws1).
  assert (E : pre ++ name ++ 61%N :: ws1 ++ value ++ ws2 ++ rest = head ++ value ++ ws2 ++ rest).
  { unfold head. rewrite <- ?app_assoc. cbn [app]. rewrite <- ?app_assoc. reflexivity. }
  rewrite E. rewrite firstn_app_exact.
  replace (length head + length value) with (length (head ++ value)) by apply app_length.
  rewrite (app_assoc head value), skipn_app_exact.
  assert (R1 : head ++ ws2 ++ rest = pre ++ (name ++ 61%N :: (ws1 ++ ws2) ++ rest)).
  { unfold head. rewrite <- ?app_assoc. cbn [app]. rewrite <- ?app_assoc. reflexivity. }
  rewrite R1. rewrite skipn_app_exact, firstn_app_exact.
  rewrite find_eq_app by exact Hn.
  replace (S (length name)) with (length (name ++ [61%N])) by (rewrite app_length; cbn; lia).
  replace (name ++ 61%N :: (ws1 ++ ws2) ++ rest) with ((name ++ [61%N]) ++ (ws1 ++ ws2) ++ rest)
    by (rewrite <- app_assoc; reflexivity).
  rewrite (skipn_app_exact (name ++ [61%N]) ((ws1 ++ ws2) ++ rest)).
  rewrite span_ws_app; [| rewrite forallb_app, H1, H2; reflexivity | exact Hr].
  replace (length pre + length (name ++ [61%N]) + length (ws1 ++ ws2))
    with (length (pre ++ (name ++ [61%N]) ++ (ws1 ++ ws2))) by (rewrite !app_length; lia).
  replace (pre ++ (name ++ [61%N]) ++ (ws1 ++ ws2) ++ rest) with ((pre ++ (name ++ [61%N]) ++ (ws1 ++ ws2)) ++ rest)
    by (rewrite <- !app_assoc; reflexivity).
  f_equal. apply (skipn_app3 pre (name ++ [61%N]) (ws1 ++ ws2) rest).
Qed.

(* ------------------------------------------------------------------ positions of prefixes are ordered like offsets *)
(* (l, c) is the position the lexer records for a point of the text (C02_token_positions) *)
Definition at_prefix (text : str) (l c : nat) : Prop :=
  exists pre rest, text = pre ++ rest /\ l = N.to_nat (line_of pre) /\ c = N.to_nat (col_of pre).

Lemma prefix_pos_strict (p d : str) : d <> [] ->
  pos_le (N.to_nat (line_of (p ++ d))) (N.to_nat (col_of (p ++ d))) (N.to_nat (line_of p)) (N.to_nat (col_of p)) = false.
Proof.
  intros Hd. destruct (pos_le _ _ _ _) eqn:E; [|reflexivity]. exfalso. apply pos_le_spec in E.
  unfold line_of in E. rewrite count_nl_app in E.
  destruct (N.eq_dec (count_nl d) 0) as [Z|NZ].
  - rewrite (col_of_app_nonl p d Z) in E. rewrite Z in E.
    assert (length d <> 0) by (destruct d; [contradiction | discriminate]). lia.
  - lia.
Qed.

Lemma prefix_pos_le text p1 r1 p2 r2 :
  text = p1 ++ r1 -> text = p2 ++ r2 ->
  pos_le (N.to_nat (line_of p1)) (N.to_nat (col_of p1)) (N.to_nat (line_of p2)) (N.to_nat (col_of p2)) = true ->
  length p1 <= length p2.
Proof.
  intros H1 H2 L. rewrite H1 in H2. apply app_eq_app in H2. destruct H2 as [d [[E _]|[E _]]].
  - subst p1. destruct d as [|c d]; [rewrite app_nil_r; lia|].
    rewrite prefix_pos_strict in L by discriminate. discriminate.
  - subst p2. rewrite app_length. lia.
Qed.

Lemma at_prefix_offset text l c : at_prefix text l c ->
  exists pre rest, text = pre ++ rest /\ l = N.to_nat (line_of pre) /\ c = N.to_nat (col_of pre) /\
                   pos_offset (line_offsets text) l c = length pre.
Proof.
  intros (pre & rest & -> & -> & ->). exists pre, rest. repeat split. apply extent_offset.
Qed.

(* extents whose end points are positions of the text are mapped to offsets monotonically *)
Theorem prefix_extents_monotone text es :
  (forall x, In x es -> at_prefix text (e_sl x) (e_sc x) /\ at_prefix text (e_el x) (e_ec x) /\ nonempty x) ->
  monotone_on (line_offsets text) es /\
  (forall x, In x es -> pos_offset (line_offsets text) (e_el x) (e_ec x) <= length text).
Proof.
  intros H. split.
  - intros x y Hx Hy. destruct (H x Hx) as (Sx & Ex & [Nx _]). destruct (H y Hy) as (Sy & _ & _).
    apply at_prefix_offset in Sx, Ex, Sy.
    destruct Sx as (p1 & r1 & T1 & L1 & C1 & O1). destruct Ex as (p2 & r2 & T2 & L2 & C2 & O2).
    destruct Sy as (p3 & r3 & T3 & L3 & C3 & O3). split.
    + intros B. unfold ends_before in B. rewrite O2, O3. rewrite L2, C2, L3, C3 in B.
      exact (prefix_pos_le text p2 r2 p3 r3 T2 T3 B).
    + rewrite O1, O2. rewrite L1, C1, L2, C2 in Nx. exact (prefix_pos_le text p1 r1 p2 r2 T1 T2 Nx).
  - intros x Hx. destruct (H x Hx) as (_ & Ex & _). apply at_prefix_offset in Ex.
    destruct Ex as (p2 & r2 & T2 & _ & _ & O2). rewrite O2, T2, app_length. lia.
Qed.

(* splice locality for the extents of real nodes: laminar, non-empty, distinct, with end points that
   are positions of the text *)
Theorem splice_outermost_nodes text es :
  laminar es -> NoDup es ->
  (forall x, In x es -> at_prefix text (e_sl x) (e_sc x) /\ at_prefix text (e_el x) (e_ec x) /\ nonempty x) ->
  apply_edits text es =
  splice 0 text (rev (map (edit_off (line_offsets text)) (sort_desc (outermost es)))).
Proof.
  intros L ND H. destruct (prefix_extents_monotone text es H) as [M B].
  apply splice_outermost_local; auto. intros x Hx. apply H, Hx.
Qed.

(* ------------------------------------------------------------------ command sequences *)
Inductive src_op := OpAdd (fs : list str) | OpRm (fs : list str).
Definition op_files (o : src_op) : list str := match o with OpAdd fs | OpRm fs => fs end.

Section Sequences.
  Variable sort : list str -> list str.
  Hypothesis sort_perm : forall l, Permutation (sort l) l.
  Definition apply_src (l : list str) (o : src_op) : list str :=
    match o with OpAdd fs => add_src sort l fs | OpRm fs => rm_src sort l fs end.

  (* any sequence of add / rm commands leaves every file it does not name exactly as it was:
     present iff it was present *)
  Theorem src_sequence_frame ops : forall old x,
    (forall o, In o ops -> ~ In x (op_files o)) ->
    (In x (fold_left apply_src ops old) <-> In x old).
  Proof.
    induction ops as [|o ops IH]; intros old x H; [reflexivity|]. cbn [fold_left].
    rewrite IH by (intros o' Ho'; apply H; right; exact Ho').
    assert (Hx : ~ In x (op_files o)) by (apply H; left; reflexivity).
    destruct o as [fs|fs]; cbn [apply_src op_files] in *.
    - rewrite (add_src_spec sort sort_perm). tauto.
    - apply (rm_src_others sort sort_perm). exact Hx.
  Qed.
End Sequences.

Inductive kw_op (V : Type) := KwSet (k : str) (v : V) | KwDel (k : str).
Arguments KwSet {V}. Arguments KwDel {V}.
Definition kw_op_key {V} (o : kw_op V) : str := match o with KwSet k _ | KwDel k => k end.
Definition apply_kw {V} (d : kws V) (o : kw_op V) : kws V :=
  match o with KwSet k v => kw_set k v d | KwDel k => kw_del k d end.

Lemma kw_others_comm {V} k k' (d : kws V) : kw_others V k (kw_others V k' d) = kw_others V k' (kw_others V k d).
Proof.
  unfold kw_others. induction d as [|[a v] d IH]; [reflexivity|]. cbn [filter fst].
  destruct (str_eqb a k') eqn:E1, (str_eqb a k) eqn:E2; cbn [negb filter fst]; rewrite ?E1, ?E2; cbn [negb]; congruence.
Qed.
Lemma kw_del_is_others {V} k (d : kws V) : NoDup (kw_keys d) -> kw_del k d = kw_others V k d.
Proof.
  unfold kw_others. induction d as [|[a v] d IH]; intros N; [reflexivity|]. cbn [kw_del filter fst].
  inversion N as [|? ? Na Nd]; subst. destruct (str_eqb a k) eqn:E; cbn [negb].
  - apply str_eqb_eq in E. subst a. clear - Na. induction d as [|[b w] d IH]; [reflexivity|]. cbn [filter fst].
    destruct (str_eqb b k) eqn:E.
    + apply str_eqb_eq in E. subst. exfalso. apply Na. left. reflexivity.
    + cbn [negb]. f_equal. apply IH. intros H. apply Na. right. exact H.
  - f_equal. apply IH. exact Nd.
Qed.

(* any sequence of kwargs set / delete commands leaves every keyword it does not address with its
   value and in its place relative to the other untouched keywords *)
Theorem kw_sequence_frame {V} (ops : list (kw_op V)) : forall (d : kws V) (ks : list str),
  (forall o, In o ops -> In (kw_op_key o) ks) ->
  fold_right (fun k acc => kw_others V k acc) (fold_left apply_kw ops d) ks =
  fold_right (fun k acc => kw_others V k acc) d ks.
Proof.
  induction ops as [|o ops IH]; intros d ks H; [reflexivity|]. cbn [fold_left].
  rewrite IH by (intros o' Ho'; apply H; right; exact Ho').
  assert (Hk : In (kw_op_key o) ks) by (apply H; left; reflexivity).
  assert (G : forall k d1 d2, In k ks -> kw_others V k d1 = kw_others V k d2 ->
            fold_right (fun k acc => kw_others V k acc) d1 ks = fold_right (fun k acc => kw_others V k acc) d2 ks).
  { clear. intros k d1 d2. induction ks as [|a ks IHk]; intros Hin E; [contradiction|]. cbn [fold_right].
    destruct Hin as [->|Hin].
    - (* move the filter for k inside *)
      assert (P : forall l dd, kw_others V k (fold_right (fun k0 acc => kw_others V k0 acc) dd l) =
                             fold_right (fun k0 acc => kw_others V k0 acc) (kw_others V k dd) l).
      { induction l as [|b l IHl]; intros dd; [reflexivity|]. cbn [fold_right]. rewrite kw_others_comm, IHl. reflexivity. }
      rewrite !P, E. reflexivity.
    - f_equal. apply IHk; assumption. }
  apply (G (kw_op_key o)); [exact Hk|].
  destruct o as [k v|k]; cbn [apply_kw kw_op_key].
  - apply kw_set_others.
  - apply kw_del_others.
Qed.

(* ------------------------------------------------------------------ get_relto *)
(* strings that pass through a files() call are relative to the build file of that call, whatever
   the directory of the target is ... *)
Theorem relto_through_call pre f rest :
  forallb (fun n => negb (pn_func n)) pre = true -> pn_func f = true ->
  relto [pre ++ f :: rest] = Some (pn_dir f).
Proof.
  intros Hp Hf. unfold relto. induction pre as [|n pre IH]; cbn [app find].
  - now rewrite Hf.
  - cbn in Hp. apply andb_true_iff in Hp. destruct Hp as [Hn Hp]. apply negb_true_iff in Hn. rewrite Hn. apply IH, Hp.
Qed.
(* ... plain strings (no call before the target on the path) are relative to the target's build file *)
Corollary relto_plain pre target :
  forallb (fun n => negb (pn_func n)) pre = true -> pn_func target = true ->
  relto [pre ++ [target]] = Some (pn_dir target).
Proof. intros. now apply relto_through_call. Qed.
