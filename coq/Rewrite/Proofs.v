(* Rewrite/Proofs.v — theorems about the splice (apply_changes), the position-to-offset
   conversion, the source-list edits and the keyword-argument edits of the rewriter model. *)
From MV Require Import Base.Strs Base.LexFacts Syntax.Lexer Syntax.LexerFacts Rewrite.Splice Rewrite.Edits.
From Coq Require Import Lia Permutation.
Open Scope nat_scope.

(* ------------------------------------------------------------------ splice locality *)
Lemma splice_gen : forall es pre txt,
  asc_ok (length pre) (length pre + length txt) es ->
  fold_left apply_off (rev es) (pre ++ txt) = pre ++ splice (length pre) txt es.
Proof.
  induction es as [|[[s e] new] r IH]; intros pre txt H; [reflexivity|].
  cbn [asc_ok] in H. destruct H as (Hs & Hse & He & Hr).
  cbn [rev]. rewrite fold_left_app. cbn [fold_left].
  set (off := length pre) in *.
  assert (Hlen : length (pre ++ firstn (e - off) txt) = e).
  { rewrite app_length, firstn_length. fold off. lia. }
  replace (pre ++ txt) with ((pre ++ firstn (e - off) txt) ++ skipn (e - off) txt)
    by (rewrite <- app_assoc, firstn_skipn; reflexivity).
  rewrite IH.
  2:{ rewrite Hlen. rewrite skipn_length.
      replace (e + (length txt - (e - off))) with (off + length txt) by lia. exact Hr. }
  rewrite Hlen. unfold apply_off. cbn [splice].
  rewrite firstn_app, Hlen. replace (s - e) with 0 by lia. cbn [firstn]. rewrite app_nil_r.
  rewrite firstn_app. fold off. rewrite (firstn_all2 pre) by (fold off; lia).
  rewrite firstn_firstn. replace (Nat.min (s - off) (e - off)) with (s - off) by lia.
  rewrite skipn_app, Hlen. replace (e - e) with 0 by lia. cbn [skipn].
  rewrite (skipn_all2 (pre ++ firstn (e - off) txt)) by lia.
  cbn [app]. rewrite <- !app_assoc. reflexivity.
Qed.

(* For pairwise disjoint extents applied last-first, every character outside the extents is
   kept, in order, and each extent is replaced by its new text. *)
Theorem splice_local es text :
  asc_ok 0 (length text) es -> fold_left apply_off (rev es) text = splice 0 text es.
Proof. intros H. exact (splice_gen es [] text H). Qed.

(* what [splice] means, one extent at a time: the text before the first extent is untouched *)
Lemma splice_prefix s e new r text :
  asc_ok 0 (length text) ((s, e, new) :: r) ->
  firstn s (splice 0 text ((s, e, new) :: r)) = firstn s text.
Proof.
  intros (H0 & Hse & He & Hr). cbn [splice]. rewrite Nat.sub_0_r.
  rewrite firstn_app, firstn_firstn, Nat.min_id, firstn_length.
  replace (s - Nat.min s (length text)) with 0 by lia. cbn [firstn]. apply app_nil_r.
Qed.
(* with a single extent: prefix, new text, suffix *)
Lemma splice_one s e new text :
  splice 0 text [(s, e, new)] = firstn s text ++ new ++ skipn e text.
Proof. cbn [splice]. rewrite !Nat.sub_0_r. reflexivity. Qed.

(* ------------------------------------------------------------------ (line, column) -> offset *)
Definition cnt_nl (s : str) : nat := length (filter (fun c => N.eqb c 10) s).
Definition col_nat (s : str) : nat := span not_nl (rev s).

Lemma not_nl_spec c : not_nl c = negb (N.eqb c 10).
Proof. reflexivity. Qed.

Lemma span_snoc_stop (q : char -> bool) l c : q c = false -> span q (l ++ [c]) = span q l.
Proof.
  intros H. induction l as [|x l IH]; cbn; [now rewrite H|]. destruct (q x); [now rewrite IH | reflexivity].
Qed.
Lemma span_app_stops (q : char -> bool) l m : forallb q l = false -> span q (l ++ m) = span q l.
Proof.
  induction l as [|x l IH]; cbn; [discriminate|]. destruct (q x); cbn; [|reflexivity].
  intros H. now rewrite IH.
Qed.
Lemma col_cons_nl p : col_nat (10%N :: p) = col_nat p.
Proof. unfold col_nat. cbn [rev]. apply span_snoc_stop. reflexivity. Qed.

Lemma cnt_nl_rev_forallb p : cnt_nl p = 0 <-> forallb not_nl (rev p) = true.
Proof.
  unfold cnt_nl. rewrite forallb_forall. split.
  - intros H c Hc. apply in_rev in Hc. rewrite not_nl_spec.
    destruct (N.eqb c 10) eqn:E; [|reflexivity].
    assert (In c (filter (fun c => N.eqb c 10) p)) by (apply filter_In; auto).
    destruct (filter (fun c => N.eqb c 10) p); [contradiction | discriminate].
  - intros H. destruct (filter (fun c => N.eqb c 10) p) as [|c l] eqn:E; [reflexivity|].
    assert (Hc : In c (filter (fun c => N.eqb c 10) p)) by (rewrite E; left; reflexivity).
    apply filter_In in Hc. destruct Hc as [Hc1 Hc2]. apply in_rev in Hc1. apply H in Hc1.
    rewrite not_nl_spec, Hc2 in Hc1. discriminate.
Qed.

Lemma col_cons_other c p : N.eqb c 10 = false ->
  col_nat (c :: p) = if Nat.eqb (cnt_nl p) 0 then S (length p) else col_nat p.
Proof.
  intros Hc. unfold col_nat. cbn [rev].
  destruct (Nat.eqb (cnt_nl p) 0) eqn:E.
  - apply Nat.eqb_eq, cnt_nl_rev_forallb in E.
    rewrite span_app_all by exact E. rewrite rev_length.
    cbn [span]. rewrite not_nl_spec, Hc. cbn [negb]. rewrite Nat.add_1_r. reflexivity.
  - apply Nat.eqb_neq in E.
    assert (E' : forallb not_nl (rev p) = false).
    { destruct (forallb not_nl (rev p)) eqn:F; [|reflexivity]. apply cnt_nl_rev_forallb in F. contradiction. }
    apply span_app_stops. exact E'.
Qed.

Lemma nth_S_cons {A} k (a : A) l d : nth (S k) (a :: l) d = nth k l d.
Proof. reflexivity. Qed.

Lemma offset_gen : forall pre off rest,
  nth (cnt_nl pre) (off :: line_starts off (pre ++ rest)) 0 + col_nat pre = off + length pre.
Proof.
  induction pre as [|c p IH]; intros off rest.
  - cbn. lia.
  - cbn [app line_starts]. destruct (N.eqb c 10) eqn:Ec.
    + apply N.eqb_eq in Ec. subst c.
      change (cnt_nl (10%N :: p)) with (S (cnt_nl p)).
      rewrite nth_S_cons. rewrite col_cons_nl. rewrite IH. cbn [length]. lia.
    + assert (Ecn : cnt_nl (c :: p) = cnt_nl p) by (unfold cnt_nl; cbn [filter]; rewrite Ec; reflexivity).
      rewrite Ecn.
      rewrite col_cons_other by exact Ec.
      destruct (cnt_nl p) as [|k] eqn:Ek.
      * cbn. reflexivity.
      * cbn [Nat.eqb]. specialize (IH (S off) rest). rewrite nth_S_cons in IH.
        rewrite nth_S_cons. rewrite IH. cbn [length]. lia.
Qed.

(* The position the lexer records for the point after [pre] (line = 1 + newlines in pre,
   column = characters after the last newline; Syntax/LexerFacts.v) is converted by the
   '\n'-based line offsets to exactly that point, whatever the text contains. *)
Theorem extent_offset pre rest :
  pos_offset (line_offsets (pre ++ rest)) (N.to_nat (line_of pre)) (N.to_nat (col_of pre)) = length pre.
Proof.
  unfold pos_offset, line_offsets, line_of, col_of, count_nl, after_last_nl.
  rewrite N2Nat.inj_add, !Nat2N.id. change (N.to_nat 1) with 1.
  replace (1 + length (filter (fun c => (c =? c_nl)%N) pre) - 1) with (cnt_nl pre) by (unfold cnt_nl, c_nl; lia).
  change (span not_nl (rev pre)) with (col_nat pre).
  rewrite offset_gen. reflexivity.
Qed.

(* str.splitlines() disagrees with the lexer as soon as the text contains a form feed. *)
Theorem line_offsets_splitlines_refuted :
  exists pre rest,
    pos_offset (line_offsets_splitlines (pre ++ rest)) (N.to_nat (line_of pre)) (N.to_nat (col_of pre)) <> length pre.
Proof. exists [97; 12; 10]%N, [98]%N. vm_compute. discriminate. Qed.

(* ------------------------------------------------------------------ source lists *)
Lemma str_eqb_false a b : str_eqb a b = false <-> a <> b.
Proof.
  split.
  - intros H E. subst. rewrite str_eqb_refl in H. discriminate.
  - intros H. destruct (str_eqb a b) eqn:E; [|reflexivity]. apply str_eqb_eq in E. contradiction.
Qed.
Lemma str_mem_In x l : str_mem x l = true <-> In x l.
Proof.
  induction l as [|y l IH]; cbn; [split; [discriminate|contradiction]|].
  rewrite orb_true_iff, IH, str_eqb_eq. split; intros [H|H]; auto.
Qed.

Definition set_eq (a b : list str) : Prop := forall x, In x a <-> In x b.

Section SourceFacts.
  Variable sort : list str -> list str.
  Hypothesis sort_perm : forall l, Permutation (sort l) l.

  Lemma sort_In x l : In x (sort l) <-> In x l.
  Proof. split; apply Permutation_in; [apply sort_perm | apply Permutation_sym, sort_perm]. Qed.

  Lemma dedup_In x l : In x (dedup l) <-> In x l.
  Proof.
    induction l as [|y l IH]; [reflexivity|]. cbn [dedup].
    destruct (str_mem y l) eqn:E.
    - rewrite IH. apply str_mem_In in E. cbn. split; [auto|]. intros [->|H]; auto.
    - cbn. rewrite IH. reflexivity.
  Qed.

  Lemma add_new_In x : forall news old, In x (add_new old news) <-> In x old \/ In x news.
  Proof.
    induction news as [|f r IH]; intros old; cbn [add_new].
    - cbn. tauto.
    - destruct (str_mem f old) eqn:E.
      + rewrite IH. apply str_mem_In in E. cbn. split; [tauto|]. intros [H|[->|H]]; auto.
      + rewrite IH, in_app_iff. cbn. tauto.
  Qed.

  (* after 'add', the target has exactly its old sources and the requested ones *)
  Theorem add_src_spec old news x : In x (add_src sort old news) <-> In x old \/ In x news.
  Proof. unfold add_src. rewrite sort_In, add_new_In, dedup_In. reflexivity. Qed.

  (* a file the target already has is not added a second time *)
  Theorem add_src_existing old f : In f old -> add_src sort old [f] = sort old.
  Proof. intros H. unfold add_src. cbn. apply str_mem_In in H. rewrite H. reflexivity. Qed.

  Lemma remove_first_perm f : forall l, In f l -> Permutation l (f :: remove_first f l).
  Proof.
    induction l as [|y l IH]; intros H; [contradiction|]. cbn [remove_first].
    destruct (str_eqb y f) eqn:E.
    - apply str_eqb_eq in E. subst. reflexivity.
    - apply str_eqb_false in E. destruct H as [H|H]; [contradiction|].
      etransitivity; [apply perm_skip, IH, H | apply perm_swap].
  Qed.
  Lemma remove_first_notin f : forall l, ~ In f l -> remove_first f l = l.
  Proof.
    induction l as [|y l IH]; intros H; [reflexivity|]. cbn [remove_first].
    destruct (str_eqb y f) eqn:E.
    - apply str_eqb_eq in E. subst. exfalso. apply H. left. reflexivity.
    - f_equal. apply IH. intros H'. apply H. right. exact H'.
  Qed.

  (* adding a new file and removing it again gives back the original sources
     (as a multiset, hence as a set) *)
  Theorem rm_add_new old f : ~ In f old -> Permutation (rm_src sort (add_src sort old [f]) [f]) old.
  Proof.
    intros H. unfold rm_src, add_src. cbn [dedup str_mem add_new fold_left].
    assert (E : str_mem f old = false).
    { destruct (str_mem f old) eqn:E; [|reflexivity]. apply str_mem_In in E. contradiction. }
    rewrite E. etransitivity; [apply sort_perm|].
    assert (P : Permutation (sort (old ++ [f])) (f :: old)).
    { etransitivity; [apply sort_perm|]. apply Permutation_sym, Permutation_cons_append. }
    assert (I : In f (sort (old ++ [f]))) by (apply sort_In, in_app_iff; right; left; reflexivity).
    pose proof (remove_first_perm f _ I) as Q.
    apply Permutation_cons_inv with (a := f).
    etransitivity; [apply Permutation_sym, Q | exact P].
  Qed.
  Corollary rm_add_new_set old f : ~ In f old -> set_eq (rm_src sort (add_src sort old [f]) [f]) old.
  Proof.
    intros H x. pose proof (rm_add_new old f H) as P.
    split; apply Permutation_in; [exact P | apply Permutation_sym, P].
  Qed.

  Lemma remove_first_In_other f x : forall l, x <> f -> (In x (remove_first f l) <-> In x l).
  Proof.
    induction l as [|y l IH]; intros H; [reflexivity|]. cbn [remove_first].
    destruct (str_eqb y f) eqn:E.
    - apply str_eqb_eq in E. subst. cbn. split; [auto|]. intros [->|H']; [contradiction|auto].
    - cbn. rewrite IH by exact H. reflexivity.
  Qed.

  (* removing an existing file and adding it again keeps the source set *)
  Theorem add_rm_existing old f : In f old -> set_eq (add_src sort (rm_src sort old [f]) [f]) old.
  Proof.
    intros H x. rewrite add_src_spec. unfold rm_src. cbn [fold_left]. rewrite sort_In.
    destruct (list_eq_dec N.eq_dec x f) as [->|Hx].
    - cbn. split; [auto|]. intros _. right. left. reflexivity.
    - rewrite remove_first_In_other by exact Hx. cbn. split; [|auto].
      intros [H'|[H'|[]]]; [exact H' | subst; contradiction].
  Qed.

  (* 'rm' removes nothing but the requested files *)
  Theorem rm_src_others old gone x : ~ In x gone -> (In x (rm_src sort old gone) <-> In x old).
  Proof.
    intros H. unfold rm_src. rewrite sort_In. revert old.
    induction gone as [|f r IH]; intros old; [reflexivity|]. cbn [fold_left].
    rewrite IH by (intros H'; apply H; right; exact H').
    apply remove_first_In_other. intros ->. apply H. left. reflexivity.
  Qed.
End SourceFacts.

(* ------------------------------------------------------------------ keyword arguments *)
Section KwFacts.
  Variable V : Type.
  Implicit Types (d : kws V) (k : str).

  (* the other keyword arguments, with their values, in their order *)
  Definition kw_others k d : kws V := filter (fun kv => negb (str_eqb (fst kv) k)) d.

  Theorem kw_set_get k v d : kw_get k (kw_set k v d) = Some v.
  Proof.
    induction d as [|[k' v'] r IH]; cbn.
    - now rewrite str_eqb_refl.
    - destruct (str_eqb k' k) eqn:E; cbn; rewrite E; [reflexivity | exact IH].
  Qed.
  (* set touches no other keyword: values and order of all other arguments are kept *)
  Theorem kw_set_others k v d : kw_others k (kw_set k v d) = kw_others k d.
  Proof.
    unfold kw_others. induction d as [|[k' v'] r IH]; cbn [kw_set filter fst].
    - now rewrite str_eqb_refl.
    - destruct (str_eqb k' k) eqn:E; cbn [filter fst]; rewrite E; cbn [negb]; [reflexivity | now rewrite IH].
  Qed.
  Theorem kw_set_get_other k k' v d : k' <> k -> kw_get k' (kw_set k v d) = kw_get k' d.
  Proof.
    intros H. induction d as [|[k2 v2] r IH]; cbn.
    - assert (E : str_eqb k k' = false) by (apply str_eqb_false; congruence). now rewrite E.
    - destruct (str_eqb k2 k) eqn:E; cbn.
      + apply str_eqb_eq in E. subst k2.
        assert (E' : str_eqb k k' = false) by (apply str_eqb_false; congruence). now rewrite E'.
      + destruct (str_eqb k2 k'); [reflexivity | exact IH].
  Qed.
  (* a keyword that was present keeps its place *)
  Theorem kw_set_keys_present k v d : In k (kw_keys d) -> kw_keys (kw_set k v d) = kw_keys d.
  Proof.
    induction d as [|[k' v'] r IH]; cbn; [contradiction|].
    intros H. destruct (str_eqb k' k) eqn:E; cbn; [reflexivity|].
    f_equal. apply IH. destruct H as [H|H]; [|exact H]. subst. rewrite str_eqb_refl in E. discriminate.
  Qed.
  Theorem kw_set_keys_new k v d : ~ In k (kw_keys d) -> kw_keys (kw_set k v d) = kw_keys d ++ [k].
  Proof.
    induction d as [|[k' v'] r IH]; cbn; [reflexivity|].
    intros H. destruct (str_eqb k' k) eqn:E; cbn.
    - apply str_eqb_eq in E. subst. exfalso. apply H. left. reflexivity.
    - f_equal. apply IH. intros H'. apply H. right. exact H'.
  Qed.

  Theorem kw_del_get k d : NoDup (kw_keys d) -> kw_get k (kw_del k d) = None.
  Proof.
    induction d as [|[k' v'] r IH]; cbn; [reflexivity|].
    intros H. inversion H as [|? ? Hn Hd]; subst.
    destruct (str_eqb k' k) eqn:E; cbn.
    - apply str_eqb_eq in E. subst k'. clear - Hn.
      induction r as [|[k2 v2] r IH]; cbn; [reflexivity|].
      destruct (str_eqb k2 k) eqn:E.
      + apply str_eqb_eq in E. subst. exfalso. apply Hn. left. reflexivity.
      + apply IH. intros H. apply Hn. right. exact H.
    - rewrite E. apply IH. exact Hd.
  Qed.
  Theorem kw_del_others k d : kw_others k (kw_del k d) = kw_others k d.
  Proof.
    unfold kw_others. induction d as [|[k' v'] r IH]; cbn [kw_del filter fst]; [reflexivity|].
    destruct (str_eqb k' k) eqn:E; cbn [filter fst negb]; [reflexivity|]. rewrite E. cbn [negb]. now rewrite IH.
  Qed.
End KwFacts.

(* ------------------------------------------------------------------ default options *)
Definition keyed (keys : list str) (x : str) : bool := existsb (fun k => has_key k x) keys.

Lemma has_key_entry k v : has_key k (opt_entry k v) = true.
Proof. unfold has_key, opt_entry. replace (k ++ 61%N :: v) with ((k ++ [61%N]) ++ v) by (rewrite <- app_assoc; reflexivity). apply prefixb_app. Qed.

Lemma filter_idem {A} (f : A -> bool) l : filter f (filter f l) = filter f l.
Proof.
  induction l as [|x l IH]; [reflexivity|]. cbn [filter]. destruct (f x) eqn:E; [|exact IH].
  cbn [filter]. rewrite E. now rewrite IH.
Qed.

(* entries of other options are untouched, in their order *)
Theorem opts_set_others l kvs :
  filter (fun x => negb (keyed (map fst kvs) x)) (opts_set l kvs) = filter (fun x => negb (keyed (map fst kvs) x)) l.
Proof.
  unfold opts_set, opts_remove. rewrite filter_app.
  fold (keyed (map fst kvs)).
  assert (E : filter (fun x => negb (keyed (map fst kvs) x)) (map (fun kv => opt_entry (fst kv) (snd kv)) kvs) = []).
  { assert (G : forall keys (sub : list (str * str)), (forall kv, In kv sub -> In (fst kv) keys) ->
               filter (fun x => negb (keyed keys x)) (map (fun kv => opt_entry (fst kv) (snd kv)) sub) = []).
    { intros keys sub. induction sub as [|[k v] r IH]; intros H; [reflexivity|]. cbn [map filter fst snd].
      assert (K : keyed keys (opt_entry k v) = true).
      { unfold keyed. apply existsb_exists. exists k. split; [apply (H (k, v)); left; reflexivity | apply has_key_entry]. }
      rewrite K. cbn. apply IH. intros kv Hkv. apply H. right. exact Hkv. }
    apply G. intros kv Hkv. apply in_map. exact Hkv. }
  rewrite E, app_nil_r. apply filter_idem.
Qed.
(* every requested option is present with the requested value *)
Theorem opts_set_has l kvs k v : In (k, v) kvs -> In (opt_entry k v) (opts_set l kvs).
Proof.
  intros H. unfold opts_set. apply in_app_iff. right.
  apply (in_map (fun kv => opt_entry (fst kv) (snd kv)) kvs (k, v) H).
Qed.
(* and no other entry for a requested option survives *)
Theorem opts_set_exact l kvs x :
  In x (opts_set l kvs) -> keyed (map fst kvs) x = true ->
  In x (map (fun kv => opt_entry (fst kv) (snd kv)) kvs).
Proof.
  unfold opts_set, opts_remove. intros H K. apply in_app_iff in H. destruct H as [H|H]; [|exact H].
  apply filter_In in H. destruct H as [_ H]. fold (keyed (map fst kvs) x) in H. rewrite K in H. discriminate.
Qed.
Theorem opts_remove_gone l keys x : In x (opts_remove l keys) -> keyed keys x = false.
Proof.
  unfold opts_remove. intros H. apply filter_In in H. destruct H as [_ H].
  fold (keyed keys x) in H. destruct (keyed keys x); [discriminate | reflexivity].
Qed.
