(* Rewrite/Edits.v — value-level model of what the rewriter commands do to the addressed
   argument list: source / extra-file lists (rewriter.py:648-871, 918-930: add_src_or_extra,
   rm_src_or_extra, the final sort) and keyword arguments (rewriter.py:516-639: process_kwargs
   with the MType* modifiers, and 474-514: process_default_options).  Which node of the
   build files carries the list is decided by the dataflow analysis and is not modelled.
   No proofs. *)
From MV Require Import Base.Strs.
Open Scope N_scope.

Section Sources.
  (* sorted(sources, key=pathname_sort_key): any function returning a permutation *)
  Variable sort : list str -> list str.

  Fixpoint dedup (l : list str) : list str :=
    match l with [] => [] | x :: r => if str_mem x r then dedup r else x :: dedup r end.

  (* add_src_or_extra: for every new file (each once) that the target does not have yet,
     append a string node; then sort the string members *)
  Fixpoint add_new (old : list str) (news : list str) : list str :=
    match news with
    | [] => old
    | f :: r => if str_mem f old then add_new old r else add_new (old ++ [f]) r
    end.
  Definition add_src (old news : list str) : list str := sort (add_new old (dedup news)).

  (* arg_node.arguments.remove(string_node): the first occurrence *)
  Fixpoint remove_first (f : str) (l : list str) : list str :=
    match l with [] => [] | x :: r => if str_eqb x f then r else x :: remove_first f r end.
  Definition rm_src (old gone : list str) : list str :=
    sort (fold_left (fun l f => remove_first f l) gone old).
End Sources.

(* ---- keyword arguments: a Python dict (insertion ordered) from names to values ---- *)
Section Kwargs.
  Variable V : Type.
  Definition kws := list (str * V).

  Fixpoint kw_get (k : str) (d : kws) : option V :=
    match d with [] => None | (k', v) :: r => if str_eqb k' k then Some v else kw_get k r end.
  (* kwargs[key] = value : in place if present, appended otherwise *)
  Fixpoint kw_set (k : str) (v : V) (d : kws) : kws :=
    match d with
    | [] => [(k, v)]
    | (k', v') :: r => if str_eqb k' k then (k', v) :: r else (k', v') :: kw_set k v r
    end.
  (* del kwargs[key] *)
  Fixpoint kw_del (k : str) (d : kws) : kws :=
    match d with [] => [] | (k', v') :: r => if str_eqb k' k then r else (k', v') :: kw_del k r end.
  Definition kw_keys (d : kws) : list str := map fst d.
End Kwargs.
Arguments kw_get {V}. Arguments kw_set {V}. Arguments kw_del {V}. Arguments kw_keys {V}.

(* MTypeStrList.add_value / remove_value on the list of string members *)
Definition list_add (l vals : list str) : list str := l ++ vals.
Definition list_remove (l vals : list str) : list str := filter (fun x => negb (str_mem x vals)) l.

(* process_default_options: remove every entry 'key=...' of the keys, then (for 'set') append
   'key=value' in sorted key order.  re.match(f'{key}=.*') on keys without regex
   metacharacters is "starts with key=". *)
Definition opt_entry (k v : str) : str := k ++ 61 :: v.
Definition has_key (k : str) (entry : str) : bool := prefixb (k ++ [61]) entry.
Definition opts_remove (l keys : list str) : list str :=
  filter (fun x => negb (existsb (fun k => has_key k x) keys)) l.
Definition opts_set (l : list str) (kvs : list (str * str)) : list str :=
  opts_remove l (map fst kvs) ++ map (fun kv => opt_entry (fst kv) (snd kv)) kvs.

(* ---- Rewriter.get_relto, rewriter.py:650-662: the directory the strings of a node are relative to.
   all_paths = the data-flow paths from the node to the target call; with more than one path the node
   is not used; otherwise it is the directory of the build file of the FIRST function call on the
   path - a files() call if the strings pass through one, else the target call itself (the last node). *)
Record pnode := mkPN { pn_func : bool; pn_dir : str }.
Definition relto (paths : list (list pnode)) : option str :=
  match paths with
  | [p] => match find pn_func p with Some n => Some (pn_dir n) | None => None end
  | _ => None
  end.
