(* Rewrite/Entry.v — entry points for the C17 correspondence: every function takes strings
   and returns one canonical string (JSON for trees; mirrored by harness/impl/c17.py). *)
From MV Require Import Base.Strs Syntax.Lexer Syntax.Parser Syntax.Yield Syntax.Render Syntax.AstPrint
  Rewrite.Splice Rewrite.Edits.
Open Scope N_scope.

Definition j_list (l : list str) : str := 91 :: join [44] l ++ [93].
Definition j_str (s : str) : str := j_list (map N_dec s).         (* a string = array of code points *)
Definition j_tag (s : string) : str := 34 :: s2l s ++ [34].
Definition j_bool (b : bool) : str := if b then [49] else [48].
Definition j_nat (n : nat) : str := N_dec (N.of_nat n).

Fixpoint j_expr (e : expr) : str :=
  match e with
  | EBool b => j_list [j_tag "b"; j_bool b]
  | EId s => j_list [j_tag "id"; j_str s]
  | ENum n => j_list [j_tag "n"; N_dec n]
  | EStr f m v => j_list [j_tag "s"; j_bool f; j_bool m; j_str v]
  | EParen x => j_list [j_tag "p"; j_expr x]
  | EArray a k => j_list [j_tag "arr"; j_list (j_l a); j_list (j_k k)]
  | EDict d => j_list [j_tag "dict"; j_list (j_d d)]
  | EFunc name a k => j_list [j_tag "f"; j_str name; j_list (j_l a); j_list (j_k k)]
  | EMethod obj name a k => j_list [j_tag "m"; j_expr obj; j_str name; j_list (j_l a); j_list (j_k k)]
  | EIndex obj idx => j_list [j_tag "x"; j_expr obj; j_expr idx]
  | ENot x => j_list [j_tag "not"; j_expr x]
  | ENeg x => j_list [j_tag "neg"; j_expr x]
  | EArith op l r => j_list [j_tag "ar"; 34 :: arith_text op ++ [34]; j_expr l; j_expr r]
  | ECmp op l r => j_list [j_tag "cmp"; 34 :: cmp_text op ++ [34]; j_expr l; j_expr r]
  | EAnd l r => j_list [j_tag "and"; j_expr l; j_expr r]
  | EOr l r => j_list [j_tag "or"; j_expr l; j_expr r]
  | ETern c t f => j_list [j_tag "t"; j_expr c; j_expr t; j_expr f]
  | ENonExpr => j_list [j_tag "?"]
  end
with j_l (a : elist) : list str :=
  match a with LNil => [] | LCons e r => j_expr e :: j_l r end
with j_k (k : kwlist) : list str :=
  match k with KNil => [] | KCons key v r => j_list [j_str key; j_expr v] :: j_k r end
with j_d (d : dlist) : list str :=
  match d with DNil => [] | DCons k v r => j_list [j_expr k; j_expr v] :: j_d r end.

(* extent of a node in code points: first and last significant token *)
Definition extent (n : node) : option (N * N) :=
  match yield n with
  | [] => None
  | t :: _ as ts =>
      let l := last ts t in Some (tstart t, tstart l + N.of_nat (length (ttext l)))
  end.
Definition j_extent (n : node) : list str :=
  match extent n with Some (a, b) => [N_dec a; N_dec b] | None => [[48]; [48]] end.

(* the simple statements of a file, in order, blocks flattened *)
Fixpoint j_stmt (n : node) : list str :=
  match n with
  | NEmpty _ => []
  | NAssign name _ v => [j_list (j_tag "assign" :: j_extent n ++ [j_str (ttext name); j_expr (abs v)])]
  | NPlusAssign name _ v => [j_list (j_tag "plusassign" :: j_extent n ++ [j_str (ttext name); j_expr (abs v)])]
  | NIf i _ => j_ifs i
  | NIfElse i _ _ b _ => j_ifs i ++ j_block b
  | NForeach _ _ _ _ items b _ => j_list (j_tag "foreach" :: j_extent items ++ [j_expr (abs items)]) :: j_block b
  | NContinue _ _ | NBreak _ _ => [j_list [j_tag "jump"; [48]; [48]]]
  | _ => [j_list (j_tag "expr" :: j_extent n ++ [j_expr (abs n)])]
  end
with j_block (b : block) : list str :=
  match b with BNil => [] | BLine n _ r => j_stmt n ++ j_block r end
with j_ifs (i : ifs) : list str :=
  match i with
  | INil => []
  | ICons _ c _ b r => j_list (j_tag "if" :: j_extent c ++ [j_expr (abs c)]) :: j_block b ++ j_ifs r
  end.

Definition j_kt (x : kt) : str := j_list [34 :: kind_name (fst x) ++ [34]; j_str (snd x)].

(* the first statement of an accepted file, as the node AstPrinter would be handed:
   the statement itself, with the name for an assignment *)
Fixpoint first_stmt (b : block) : option (option (str * bool) * node) :=
  match b with
  | BLine (NAssign name _ v) _ _ => Some (Some (ttext name, false), v)
  | BLine (NPlusAssign name _ v) _ _ => Some (Some (ttext name, true), v)
  | BLine n _ r => if is_empty n then first_stmt r else Some (None, n)
  | BNil => None
  end.
(* visit_AssignmentNode / visit_PlusAssignmentNode *)
Definition stmt_text (lvl : nat) (hd : option (str * bool)) (e : expr) : str :=
  match hd with
  | None => print_text lvl e
  | Some (name, plus) =>
      rev (out (pt lvl e (append (name ++ s2l (if plus then " += " else " = ")) lvl ps0)))
  end.

Definition kts_eqb (a b : list kt) : bool :=
  (Nat.eqb (length a) (length b)) &&
  forallb (fun p => kind_beq (fst (fst p)) (fst (snd p)) && str_eqb (snd (fst p)) (snd (snd p))) (combine a b).

(* structural equality through the canonical rendering *)
Definition expr_eqb (a b : expr) : bool := str_eqb (j_expr a) (j_expr b).

Definition check_expr (e : expr) : str :=
  let txt := print_text 0 e in
  let agree := match lex txt with
               | LOk ts => kts_eqb (map tkt (significant ts)) (ptoks e)
               | LErr _ _ => false
               end in
  let back := match parse (txt ++ [10]) with
              | Ok (BLine n _ _) => expr_eqb (strip_parens (abs n)) (strip_parens e)
              | _ => false
              end in
  bool_str (printable e) ++ bool_str agree ++ bool_str back.

(* CodeBlockNode.lines: empty lines are not recorded (mparser.py:codeblock) *)
Fixpoint nth_line (k : nat) (b : block) : option node :=
  match b with
  | BNil => None
  | BLine n _ r =>
      if is_empty n then nth_line k r
      else match k with O => Some n | S k' => nth_line k' r end
  end.
(* the node the rewriter re-prints for statement k: a function call or array literal,
   possibly the value of an assignment; extents as FunctionNode / ArrayNode record them *)
Definition node_edit (n : node) : option edit :=
  let target := match n with NAssign _ _ v => v | _ => n end in
  match target with
  | NFunc name _ _ _ rp =>
      Some (mkEdit (N.to_nat (tline name)) (N.to_nat (tcol name)) (N.to_nat (tline rp)) (N.to_nat (tcol rp + 1))
                   (strip (print_text 0 (abs target))))
  | NArray lb _ _ rb =>
      Some (mkEdit (N.to_nat (tline lb)) (N.to_nat (tcol lb)) (N.to_nat (tline rb)) (N.to_nat (tcol rb + 1))
                   (strip (print_text 0 (abs target))))
  | _ => None
  end.
Fixpoint split_on (c : char) (s : str) : list str :=
  match s with
  | [] => [[]]
  | x :: r => if x =? c then [] :: split_on c r
              else match split_on c r with h :: t => (x :: h) :: t | [] => [[x]] end
  end.
Definition nat_of (s : str) : nat := N.to_nat (digits_val s).
Fixpoint edits_of (l : list str) : list edit :=
  match l with
  | a :: b :: c :: d :: new :: r => mkEdit (nat_of a) (nat_of b) (nat_of c) (nat_of d) new :: edits_of r
  | _ => []
  end.
Fixpoint opt_all {A} (l : list (option A)) : option (list A) :=
  match l with
  | [] => Some []
  | Some x :: r => match opt_all r with Some t => Some (x :: t) | None => None end
  | None :: _ => None
  end.
Fixpoint pairs_of (l : list str) : list (str * str) :=
  match l with a :: b :: r => (a, b) :: pairs_of r | _ => [] end.

Definition run (fn : str) (args : list str) : str :=
  if str_eqb fn (s2l "stmts") then
    match args with
    | [code] => match parse code with
                | Ok b => j_list (j_block b)
                | Err _ => s2l "ERR" | Fuel => s2l "FUEL" end
    | _ => s2l "?" end
  else if str_eqb fn (s2l "print") then
    match args with
    | [code] => match parse code with
                | Ok b => match first_stmt b with
                          | Some (hd, n) => 79 :: stmt_text 0 hd (abs n)
                          | None => s2l "-" end
                | Err _ => s2l "ERR" | Fuel => s2l "FUEL" end
    | _ => s2l "?" end
  else if str_eqb fn (s2l "ptoks") then
    match args with
    | [code] => match parse code with
                | Ok b => match first_stmt b with
                          | Some (_, n) => j_list (map j_kt (ptoks (abs n)))
                          | None => s2l "-" end
                | Err _ => s2l "ERR" | Fuel => s2l "FUEL" end
    | _ => s2l "?" end
  else if str_eqb fn (s2l "check") then
    match args with
    | [code] => match parse code with
                | Ok b => match first_stmt b with
                          | Some (_, n) => check_expr (abs n)
                          | None => s2l "-" end
                | Err _ => s2l "ERR" | Fuel => s2l "FUEL" end
    | _ => s2l "?" end
  else if str_eqb fn (s2l "prec") then
    match args with
    | [code] => match parse code with
                | Ok b => match first_stmt b with
                          | Some (_, n) => j_nat (prec (abs n))
                          | None => s2l "-" end
                | Err _ => s2l "ERR" | Fuel => s2l "FUEL" end
    | _ => s2l "?" end
  else if str_eqb fn (s2l "decode") then
    match args with [raw] => decode 0 raw | _ => s2l "?" end
  else if str_eqb fn (s2l "escape") then
    match args with [v] => escape v | _ => s2l "?" end
  else if str_eqb fn (s2l "escrt") then
    (* printed literal read back: one string token, decoded to the value *)
    match args with
    | [v] => match lex (str_text false false v) with
             | LOk [t] => bool_str (kind_beq (tk t) KStr && negb (str_invalid t)) ++ str_value (tk t) (ttext t)
             | _ => s2l "-" end
    | _ => s2l "?" end
  else if str_eqb fn (s2l "numval") then
    match args with [t] => N_dec (num_value t) | _ => s2l "?" end
  else if str_eqb fn (s2l "offsets") then
    match args with [t] => join [44] (map j_nat (line_offsets t)) | _ => s2l "?" end
  else if str_eqb fn (s2l "offsets_splitlines") then
    match args with [t] => join [44] (map j_nat (line_offsets_splitlines t)) | _ => s2l "?" end
  else if str_eqb fn (s2l "splice") then
    match args with text :: es => apply_edits text (edits_of es) | _ => s2l "?" end
  else if str_eqb fn (s2l "reformat") then
    (* args: code, comma separated statement indexes *)
    match args with
    | [code; idx] =>
        match parse code with
        | Ok b =>
            match opt_all (map (fun i => match nth_line (nat_of i) b with
                                         | Some n => node_edit n | None => None end)
                               (match idx with [] => [] | _ => split_on 44 idx end)) with
            | Some es => 79 :: apply_edits code es
            | None => s2l "-" end
        | Err _ => s2l "ERR" | Fuel => s2l "FUEL" end
    | _ => s2l "?" end
  else if str_eqb fn (s2l "rm_assign") then
    (* args: code, index of an assignment whose value is a call or array literal: rm_target's removal *)
    match args with
    | [code; idx] =>
        match parse code with
        | Ok b =>
            match nth_line (nat_of idx) b with
            | Some (NAssign name _ v) =>
                match node_edit v with
                | Some e =>
                    let offs := line_offsets code in
                    79 :: rm_assign code (pos_offset offs (N.to_nat (tline name)) (N.to_nat (tcol name)))
                                    (pos_offset offs (e_sl e) (e_sc e)) (pos_offset offs (e_el e) (e_ec e))
                | None => s2l "-" end
            | _ => s2l "-" end
        | Err _ => s2l "ERR" | Fuel => s2l "FUEL" end
    | _ => s2l "?" end
  else if str_eqb fn (s2l "relto") then
    (* args: one string per path; nodes separated by code point 2; a node is 'F' or 'N' followed by its directory *)
    bool_str true ++
    match relto (map (fun p => map (fun n => match n with
                                             | c :: d => mkPN (c =? 70) d
                                             | [] => mkPN false [] end)
                                   (match p with [] => [] | _ => split_on 2 p end)) args) with
    | Some d => 83 :: d
    | None => [78]
    end
  else if str_eqb fn (s2l "add_src") then
    (* args: old members separated by code point 2, new files separated by 2 (unsorted result) *)
    match args with
    | [old; news] => join [2] (add_src (fun l => l) (match old with [] => [] | _ => split_on 2 old end)
                                        (match news with [] => [] | _ => split_on 2 news end))
    | _ => s2l "?" end
  else if str_eqb fn (s2l "rm_src") then
    match args with
    | [old; gone] => join [2] (rm_src (fun l => l) (match old with [] => [] | _ => split_on 2 old end)
                                       (match gone with [] => [] | _ => split_on 2 gone end))
    | _ => s2l "?" end
  else if str_eqb fn (s2l "opts_set") then
    match args with
    | old :: kvs => join [2] (opts_set (match old with [] => [] | _ => split_on 2 old end) (pairs_of kvs))
    | _ => s2l "?" end
  else if str_eqb fn (s2l "opts_del") then
    match args with
    | old :: ks => join [2] (opts_remove (match old with [] => [] | _ => split_on 2 old end) ks)
    | _ => s2l "?" end
  else s2l "?".
