(* Rewrite/Splice.v — executable model of Rewriter.apply_changes, mesonbuild/rewriter.py:982-1073:
   line offsets of the file, (line, column) -> offset, replacement of node extents by the
   re-printed text, last extent first.  The model follows the code AFTER the pending fix
   C17-rewriter-line-offsets (lines are separated by '\n' only, as in the lexer);
   [line_offsets_splitlines] is the shipped str.splitlines(True) variant.  No proofs. *)
From MV Require Import Base.Strs.
Open Scope N_scope.

(* offsets of the lines after the first one: rewriter.py:1024-1031 (m_lines = fdata.split('\n')) *)
Fixpoint line_starts (off : nat) (s : str) : list nat :=
  match s with
  | [] => []
  | c :: r => if c =? 10 then S off :: line_starts (S off) r else line_starts (S off) r
  end.
Definition line_offsets (s : str) : list nat := O :: line_starts O s.

(* str.splitlines(True) boundaries: \n \r \v \f FS GS RS NEL LS PS; "\r\n" is one boundary *)
Definition is_linebreak (c : char) : bool :=
  (c =? 10) || (c =? 13) || (c =? 11) || (c =? 12) || (c =? 28) || (c =? 29) || (c =? 30) ||
  (c =? 133) || (c =? 8232) || (c =? 8233).
Fixpoint splitlines_starts (off : nat) (s : str) : list nat :=
  match s with
  | [] => []
  | c :: r =>
      if (c =? 13) && (match r with d :: _ => d =? 10 | [] => false end) then splitlines_starts (S off) r
      else if is_linebreak c then
        match r with [] => [] | _ => S off :: splitlines_starts (S off) r end
      else splitlines_starts (S off) r
  end.
Definition line_offsets_splitlines (s : str) : list nat :=
  match s with [] => [] | _ => O :: splitlines_starts O s end.

(* start = offsets[lineno - 1] + colno   (rewriter.py:1044-1050) *)
Definition pos_offset (offs : list nat) (line col : nat) : nat := (nth (line - 1) offs O + col)%nat.

(* one work item: the extent (lineno, colno, end_lineno, end_colno) of the node and the
   replacement text ('' for action 'rm') *)
Record edit := mkEdit { e_sl : nat; e_sc : nat; e_el : nat; e_ec : nat; e_new : str }.

(* raw[:start] + str + raw[end:] *)
Definition apply_off (raw : str) (x : nat * nat * str) : str :=
  let '(s, e, new) := x in firstn s raw ++ new ++ skipn e raw.
Definition edit_off (offs : list nat) (e : edit) : nat * nat * str :=
  (pos_offset offs (e_sl e) (e_sc e), pos_offset offs (e_el e) (e_ec e), e_new e).

(* sorted(work_nodes, key=(lineno, colno), reverse=True): stable insertion, descending *)
Definition pos_lt (a b : edit) : bool :=
  (e_sl a <? e_sl b)%nat || ((e_sl a =? e_sl b)%nat && (e_sc a <? e_sc b)%nat).
Fixpoint insert_desc (x : edit) (l : list edit) : list edit :=
  match l with
  | [] => [x]
  | y :: r => if pos_lt y x then x :: l else y :: insert_desc x r
  end.
Definition sort_desc (l : list edit) : list edit := fold_right insert_desc [] l.

(* rewriter.py:apply_changes, is_inside / outermost (after the pending fix
   C17-rewriter-nested-modified-nodes): a modified node whose extent lies inside the extent
   of another modified node is re-printed with the outer one and is not spliced itself. *)
Definition pos_le (l1 c1 l2 c2 : nat) : bool := (l1 <? l2)%nat || ((l1 =? l2)%nat && (c1 <=? c2)%nat).
Definition same_extent (a b : edit) : bool :=
  (e_sl a =? e_sl b)%nat && (e_sc a =? e_sc b)%nat && (e_el a =? e_el b)%nat && (e_ec a =? e_ec b)%nat.
Definition is_inside (inner outer : edit) : bool :=
  negb (same_extent inner outer) &&
  pos_le (e_sl outer) (e_sc outer) (e_sl inner) (e_sc inner) &&
  pos_le (e_el inner) (e_ec inner) (e_el outer) (e_ec outer).
Definition outermost (es : list edit) : list edit :=
  filter (fun x => negb (existsb (fun y => is_inside x y) es)) es.

(* offsets are computed once from the unmodified file; items are applied last-first *)
Definition apply_edits (text : str) (es : list edit) : str :=
  let offs := line_offsets text in
  fold_left (fun raw e => apply_off raw (edit_off offs e)) (sort_desc (outermost es)) text.

(* remove_node for an AssignmentNode with action 'rm' (rm_target of an assigned target),
   rewriter.py:1040-1062 after the fix C17-rewriter-rm-target-last-statement: the value (a call or
   array literal, extent vs..ve) is removed first, then from the start of the statement the name,
   the '=' and the white space that follows are removed. *)
Definition is_ws (c : char) : bool := (c =? 32) || (c =? 10) || (c =? 9).
Fixpoint find_eq (s : str) : nat :=
  match s with [] => O | c :: r => if c =? 61 then O else S (find_eq r) end.
Fixpoint span_ws (s : str) : nat :=
  match s with c :: r => if is_ws c then S (span_ws r) else O | [] => O end.
Definition rm_assign (raw : str) (start vs ve : nat) : str :=
  let raw1 := firstn vs raw ++ skipn ve raw in
  let tail := skipn start raw1 in
  let k := S (find_eq tail) in
  let w := span_ws (skipn k tail) in
  firstn start raw1 ++ skipn (start + k + w) raw1.

(* The meaning: with extents given as offsets, ascending and pairwise disjoint, everything
   outside the extents is kept in order and each extent is replaced by its new text.
   [txt] is the text from offset [off] on. *)
Fixpoint splice (off : nat) (txt : str) (es : list (nat * nat * str)) : str :=
  match es with
  | [] => txt
  | (s, e, new) :: r => firstn (s - off) txt ++ new ++ splice e (skipn (e - off) txt) r
  end.
Fixpoint asc_ok (off : nat) (len : nat) (es : list (nat * nat * str)) : Prop :=
  match es with
  | [] => True
  | (s, e, _) :: r => (off <= s)%nat /\ (s <= e)%nat /\ (e <= len)%nat /\ asc_ok e len r
  end.
