(* Intro/Entry.v — entry points used by the correspondence check.  Every function takes its
   arguments as strings and renders its result to one canonical string.  Structure inside an
   argument: code point 1 separates the fields of a record, 2 terminates the items of a list,
   3 terminates the items of an outer / nested list, 4 separates the halves of a pair inside a
   list item.  The conventions are mirrored in harness/check_C15.py and harness/impl/c15.py. *)
From MV Require Import Base.Strs Intro.Path Intro.Model Intro.Spec Intro.Judge Intro.Options Intro.Tests.
Open Scope N_scope.

Definition fields (s : str) : list str := split_on 1 s.
(* terminator-based list: "" = [], "a<t>b<t>" = [a; b] *)
Definition unlist (t : char) (s : str) : list str := removelast (split_on t s).
Definition enlist (t : char) (l : list str) : str := concat (map (fun x => x ++ [t]) l).

Definition dec_opt (s : str) : option str :=
  match s with
  | 83 :: r => Some r          (* 'S' *)
  | _ => None                  (* 'N' *)
  end.
Definition enc_opt (o : option str) : str :=
  match o with Some v => 83 :: v | None => [78] end.
Definition dec_bool (s : str) : bool := match s with [84] => true | _ => false end.

Definition nth_f (n : nat) (l : list str) : str := nth n l [].

(* ------------------------------------------------------------------ InstallData *)
Definition dec_target (f : list str) : target_i :=
  mk_target (nth_f 0 f) (nth_f 1 f) (dec_opt (nth_f 2 f)) (nth_f 3 f) (dec_opt (nth_f 4 f)) (dec_bool (nth_f 5 f)).
Definition dec_base (f : list str) : base_i :=
  {| b_path := nth_f 0 f; b_install_path := nth_f 1 f; b_install_path_name := nth_f 2 f;
     b_subproject := nth_f 3 f; b_tag := dec_opt (nth_f 4 f); b_data_type := dec_opt (nth_f 5 f);
     b_excl_files := unlist 3 (nth_f 6 f); b_excl_dirs := unlist 3 (nth_f 7 f) |}.
Definition dec_symlink (f : list str) : symlink_i :=
  {| l_target := nth_f 0 f; l_name := nth_f 1 f; l_install_path := nth_f 2 f;
     l_subproject := nth_f 3 f; l_tag := dec_opt (nth_f 4 f) |}.
Definition dec_emptydir (f : list str) : emptydir_i :=
  {| e_path := nth_f 0 f; e_subproject := nth_f 1 f; e_tag := dec_opt (nth_f 2 f) |}.

Definition empty_data (hdr : str) : install_data :=
  let f := fields hdr in
  {| d_source_dir := nth_f 0 f; d_build_dir := nth_f 1 f; d_prefix := nth_f 2 f;
     d_targets := []; d_headers := []; d_man := []; d_emptydir := []; d_data := [];
     d_symlinks := []; d_subdirs := [] |}.

Definition add_entry (d : install_data) (e : str) : install_data :=
  match e with
  | k :: r =>
      let f := fields r in
      let upd ts hs ms es ds ls ss :=
        {| d_source_dir := d_source_dir d; d_build_dir := d_build_dir d; d_prefix := d_prefix d;
           d_targets := ts; d_headers := hs; d_man := ms; d_emptydir := es; d_data := ds;
           d_symlinks := ls; d_subdirs := ss |} in
      if k =? 84 then upd (d_targets d ++ [dec_target f]) (d_headers d) (d_man d) (d_emptydir d) (d_data d) (d_symlinks d) (d_subdirs d)
      else if k =? 72 then upd (d_targets d) (d_headers d ++ [dec_base f]) (d_man d) (d_emptydir d) (d_data d) (d_symlinks d) (d_subdirs d)
      else if k =? 77 then upd (d_targets d) (d_headers d) (d_man d ++ [dec_base f]) (d_emptydir d) (d_data d) (d_symlinks d) (d_subdirs d)
      else if k =? 69 then upd (d_targets d) (d_headers d) (d_man d) (d_emptydir d ++ [dec_emptydir f]) (d_data d) (d_symlinks d) (d_subdirs d)
      else if k =? 68 then upd (d_targets d) (d_headers d) (d_man d) (d_emptydir d) (d_data d ++ [dec_base f]) (d_symlinks d) (d_subdirs d)
      else if k =? 76 then upd (d_targets d) (d_headers d) (d_man d) (d_emptydir d) (d_data d) (d_symlinks d ++ [dec_symlink f]) (d_subdirs d)
      else if k =? 83 then upd (d_targets d) (d_headers d) (d_man d) (d_emptydir d) (d_data d) (d_symlinks d) (d_subdirs d ++ [dec_base f])
      else d
  | [] => d
  end.

Definition dec_data (hdr : str) (es : list str) : install_data := fold_left add_entry es (empty_data hdr).

Definition render_installed (l : dict str) : str :=
  enlist 2 (map (fun kv => fst kv ++ [1] ++ snd kv) l).

Definition render_plan (p : plan_t) : str :=
  enlist 2 (flat_map (fun sec =>
    map (fun ke => join [1] [fst sec; fst ke; pe_destination (snd ke); enc_opt (pe_tag (snd ke));
                            enc_opt (pe_subproject (snd ke)); bool_str (pe_is_subdir (snd ke));
                            enlist 3 (pe_excl_dirs (snd ke)); enlist 3 (pe_excl_files (snd ke))])
        (snd sec)) p).

Definition kind_char (k : akind) : str :=
  match k with
  | KSubdir => [83] | KTarget => [84] | KHeader => [72] | KMan => [77]
  | KEmptydir => [69] | KData => [68] | KSymlink => [76]
  end.
Definition render_actions (r : result (list action)) : str :=
  match r with
  | MesonErr _ => s2l "EXC:MesonException"
  | Ok l => enlist 2 (map (fun a => join [1] [kind_char (a_kind a); a_src a; a_dst a]) l)
  end.

Definition render_bases (l : list base_i) : str :=
  enlist 2 (map (fun i => join [1] [b_path i; b_install_path i; b_install_path_name i; b_subproject i;
                                    enc_opt (b_tag i); enc_opt (b_data_type i)]) l).

(* ------------------------------------------------------------------ generate_* *)
Definition no_guess (_ : str) : option str := None.

Definition dec_header (s : str) : header_b :=
  let f := fields s in
  {| hb_custom_install_dir := dec_opt (nth_f 0 f); hb_install_subdir := dec_opt (nth_f 1 f);
     hb_sources := unlist 3 (nth_f 2 f); hb_subproject := nth_f 3 f; hb_tag := dec_opt (nth_f 4 f) |}.
Definition dec_pair (s : str) : str * str :=
  match split_on 4 s with a :: b :: _ => (a, b) | [a] => (a, []) | [] => ([], []) end.
Definition dec_man (s : str) : man_b :=
  let f := fields s in
  {| mb_sources := map dec_pair (unlist 3 (nth_f 0 f)); mb_custom_install_dir := dec_opt (nth_f 1 f);
     mb_locale := dec_opt (nth_f 2 f); mb_subproject := nth_f 3 f; mb_tag := dec_opt (nth_f 4 f) |}.
Definition dec_datab (s : str) : data_b :=
  let f := fields s in
  {| db_install_dir := nth_f 0 f; db_install_dir_name := nth_f 1 f;
     db_sources := unlist 3 (nth_f 2 f); db_rename := unlist 3 (nth_f 3 f);
     db_subproject := nth_f 4 f; db_tag := dec_opt (nth_f 5 f); db_data_type := dec_opt (nth_f 6 f) |}.
Definition dec_subdirb (s : str) : subdir_b :=
  let f := fields s in
  {| sdb_from_dir := nth_f 0 f; sdb_source_subdir := nth_f 1 f; sdb_installable_subdir := nth_f 2 f;
     sdb_install_dir := nth_f 3 f; sdb_install_dir_name := nth_f 4 f;
     sdb_strip_directory := dec_bool (nth_f 5 f);
     sdb_excl_files := []; sdb_excl_dirs := [];
     sdb_subproject := nth_f 6 f; sdb_tag := dec_opt (nth_f 7 f) |}.
Definition dec_symlinkb (s : str) : symlink_b :=
  let f := fields s in
  {| sb_target := nth_f 0 f; sb_name := nth_f 1 f; sb_install_dir := nth_f 2 f;
     sb_subproject := nth_f 3 f; sb_tag := dec_opt (nth_f 4 f) |}.

(* ------------------------------------------------------------------ environment *)
Definition dec_dict (s : str) : dict str :=
  map (fun kv => match fields kv with k :: v :: _ => (k, v) | [k] => (k, []) | [] => ([], []) end) (unlist 2 s).
Definition dec_envop (s : str) : envop * str * list str * str :=
  let f := fields s in
  let op := match nth_f 0 f with
            | [97] => EnvAppend          (* a *)
            | [112] => EnvPrepend        (* p *)
            | _ => EnvSet
            end in
  (op, nth_f 1 f, unlist 3 (nth_f 3 f), nth_f 2 f).
Definition dec_envvars (unset : str) (ops : list str) : envvars :=
  {| ev_ops := map dec_envop ops; ev_unset := unlist 2 unset |}.
Definition mk_test (ev : envvars) : test_ser :=
  {| ts_name := []; ts_suite := []; ts_fname := []; ts_cmd_args := []; ts_env := ev;
     ts_workdir := None; ts_depends := []; ts_is_parallel := true; ts_priority := 0%Z; ts_timeout := 30%Z |}.

(* ------------------------------------------------------------------ judge *)
Definition dec_item (s : str) : item :=
  match split_first 1 s with
  | Some (a, b) => {| it_ord := unlist 2 a; it_set := unlist 2 b |}
  | None => {| it_ord := unlist 2 s; it_set := [] |}
  end.
Definition dec_items (s : str) : list item := map dec_item (unlist 3 s).
Definition dec_pairs (s : str) : list (str * str) := dec_dict s.
Definition dec_plan_obs (s : str) : plan_obs :=
  let f := fields s in
  {| po_kind := match nth_f 0 f with [68] => PDir | [76] => PLink | _ => PFile end;
     po_dest := nth_f 1 f; po_tag := dec_opt (nth_f 2 f) |}.
Definition dec_run (s : str) : run_obs :=
  let f := fields s in
  {| ro_tags := unlist 2 (nth_f 0 f); ro_files := unlist 2 (nth_f 1 f);
     ro_dirs := unlist 2 (nth_f 2 f); ro_links := unlist 2 (nth_f 3 f) |}.

(* ------------------------------------------------------------------ option store *)
Definition dec_okey (name sub : str) : okey := {| k_name := name; k_sub := dec_opt sub |}.
Definition dec_optobj (f : list str) : okey * optobj :=
  (dec_okey (nth_f 0 f) (nth_f 1 f),
   {| o_value := nth_f 2 f;
      o_parent := match dec_opt (nth_f 3 f) with
                  | Some p => let '(a, b) := dec_pair p in Some (dec_okey a b)
                  | None => None
                  end |}).
Definition dec_store (opts augs : str) : store :=
  {| s_options := map (fun x => dec_optobj (fields x)) (unlist 2 opts);
     s_augments := map (fun x => let f := fields x in (dec_okey (nth_f 0 f) (nth_f 1 f), nth_f 2 f)) (unlist 2 augs) |}.

(* ------------------------------------------------------------------ test serialisation *)
(* one argument per TestSerialisation, fields separated by 1:
   name, suite (list 3), fname (list 3), cmd_args (list 3), workdir (opt), timeout (opt), is_parallel,
   priority, protocol, depends (list 3), extra_paths (list 3), unset (list 3),
   operations (list 3 of  op 4 name 4 separator 4 values(list 5)) *)
Definition dec_envop4 (s : str) : envop * str * list str * str :=
  let f := split_on 4 s in
  let op := match nth_f 0 f with [97] => EnvAppend | [112] => EnvPrepend | _ => EnvSet end in
  (op, nth_f 1 f, unlist 5 (nth_f 3 f), nth_f 2 f).
Definition dec_tser (s : str) : tser :=
  let f := fields s in
  {| s_name := nth_f 0 f; s_suite := unlist 3 (nth_f 1 f); s_fname := unlist 3 (nth_f 2 f);
     s_cmd_args := unlist 3 (nth_f 3 f);
     s_env := {| ev_ops := map dec_envop4 (unlist 3 (nth_f 12 f)); ev_unset := unlist 3 (nth_f 11 f) |};
     s_workdir := dec_opt (nth_f 4 f); s_timeout := dec_opt (nth_f 5 f); s_is_parallel := dec_bool (nth_f 6 f);
     s_priority := nth_f 7 f; s_protocol := nth_f 8 f; s_depends := unlist 3 (nth_f 9 f);
     s_extra_paths := unlist 3 (nth_f 10 f) |}.
Definition render_tintro (e : tintro) : str :=
  join [1] [enlist 3 (i_cmd e); enlist 3 (map (fun kv => fst kv ++ [4] ++ snd kv) (i_env e)); i_name e;
            enc_opt (i_workdir e); enc_opt (i_timeout e); enlist 3 (i_suite e); bool_str (i_is_parallel e);
            i_priority e; i_protocol e; enlist 3 (i_depends e); enlist 3 (i_extra_paths e)].

Definition run (fn : str) (args : list str) : str :=
  if str_eqb fn (s2l "join") then
    match args with a :: ps => pjoin a ps | _ => s2l "?" end
  else if str_eqb fn (s2l "basename") then
    match args with [p] => basename p | _ => s2l "?" end
  else if str_eqb fn (s2l "comps") then
    match args with [p] => bool_str (isabs p) ++ [1] ++ enlist 2 (comps p) | _ => s2l "?" end
  else if str_eqb fn (s2l "destdir_join") then
    match args with [a; b] => destdir_join a b | _ => s2l "?" end
  else if str_eqb fn (s2l "gdp") then
    match args with [dd; prefix; p] => get_destdir_path dd (destdir_join dd prefix) p | _ => s2l "?" end
  else if str_eqb fn (s2l "replace") then
    match args with [o; n; s] => replace o n s | _ => s2l "?" end
  else if str_eqb fn (s2l "rstrip") then
    match args with [s] => rstrip_slash s | _ => s2l "?" end
  else if str_eqb fn (s2l "installed") then
    match args with hdr :: es => render_installed (list_installed (dec_data hdr es)) | _ => s2l "?" end
  else if str_eqb fn (s2l "plan") then
    match args with hdr :: es => render_plan (list_install_plan (dec_data hdr es)) | _ => s2l "?" end
  else if str_eqb fn (s2l "install") then
    (* opts = destdir(opt) 1 skip(list 3) 1 tags(list 3) 1 missing files(list 3) *)
    match args with
    | opts :: hdr :: es =>
        let f := fields opts in
        let missing := unlist 3 (nth_f 3 f) in
        render_actions (do_install (dec_opt (nth_f 0 f)) (unlist 3 (nth_f 1 f)) (unlist 3 (nth_f 2 f))
                                   (fun p => negb (str_mem p missing)) (dec_data hdr es))
    | _ => s2l "?" end
  else if str_eqb fn (s2l "genhdr") then
    match args with incroot :: hs => render_bases (gen_headers incroot (map dec_header hs)) | _ => s2l "?" end
  else if str_eqb fn (s2l "genman") then
    match args with manroot :: ms => render_bases (gen_man manroot (map dec_man ms)) | _ => s2l "?" end
  else if str_eqb fn (s2l "gendata") then
    render_bases (gen_data no_guess (map dec_datab args))
  else if str_eqb fn (s2l "gensubdir") then
    match args with prefix :: ss => render_bases (map (fun s => gen_subdir no_guess prefix (dec_subdirb s)) ss) | _ => s2l "?" end
  else if str_eqb fn (s2l "gensym") then
    enlist 2 (map (fun s => let l := gen_symlink no_guess (dec_symlinkb s) in
                            join [1] [l_target l; l_name l; l_install_path l; l_subproject l; enc_opt (l_tag l)]) args)
  else if str_eqb fn (s2l "getenv") then
    match args with base :: unset :: ops => render_installed (get_env (dec_envvars unset ops) (dec_dict base)) | _ => s2l "?" end
  else if str_eqb fn (s2l "mtestenv") then
    match args with base :: unset :: ops => render_installed (mtest_env (mk_test (dec_envvars unset ops)) (dec_dict base)) | _ => s2l "?" end
  else if str_eqb fn (s2l "suite") then
    match args with [suites; sels] => bool_str (test_in_suites (unlist 2 suites) (unlist 2 sels)) | _ => s2l "?" end
  else if str_eqb fn (s2l "testintro") then
    enlist 2 (map render_tintro (intro_tests (map dec_tser args)))
  else if str_eqb fn (s2l "reported") then
    (* what intro-buildoptions.json says option n is for (sub)project sp *)
    match args with [opts; augs; sp; n] => enc_opt (reported (list_buildoptions (dec_store opts augs)) sp n) | _ => s2l "?" end
  else if str_eqb fn (s2l "getopt") then
    (* what get_option(n) returns in (sub)project sp *)
    match args with [opts; augs; sp; n] => enc_opt (get_value_for (dec_store opts augs) {| k_name := n; k_sub := Some sp |}) | _ => s2l "?" end
  else if str_eqb fn (s2l "judge") then
    match args with
    | [it; wt; ite; wte; ib; wb; io; wo; ip; wr; ifs; wfs] =>
        let I := {| i_targets := dec_items it; i_tests := dec_items ite; i_benchmarks := dec_items ib;
                    i_opts := dec_pairs io; i_plan := map dec_plan_obs (unlist 2 ip); i_files := unlist 2 ifs |} in
        let W := {| w_targets := dec_items wt; w_tests := dec_items wte; w_benchmarks := dec_items wb;
                    w_opts := dec_pairs wo; w_runs := map dec_run (unlist 3 wr); w_files := unlist 2 wfs |} in
        concat (map bool_str (clauses I W))
    | _ => s2l "?" end
  else s2l "?".
