(* Intro/Spec.v — what C15 states, as a declarative relation between what the meson-info
   files SAY (intro) and what the other generated artefacts DO (world).  Both sides are
   abstract, already parsed artefacts:

     targets     an item per target: ordered output filenames + the set of consumed sources
     tests       an item per test: ordered argv (+ working directory) + the set of
                 environment bindings, suites and dependency outputs
     options     name -> value
     install     plan entries (kind, destination, tag) vs. what a run of the installer with a
                 given tag selection left in the staging directory
     files       the build-definition files

   No executable content here; the checker is Intro/Judge.v and JudgeProofs.v proves it
   sound and complete for [Agree]. *)
From Coq Require Import Permutation.
From MV Require Import Base.Strs Intro.Path.

Record item := { it_ord : list str; it_set : list str }.

(* same ordered part, same unordered part as a set *)
Definition item_equiv (a b : item) : Prop :=
  it_ord a = it_ord b /\ (forall x, In x (it_set a) <-> In x (it_set b)).

(* l1 and l2 are the same multiset up to R: a one-to-one pairing of R-related elements *)
Definition MultisetEq {A : Type} (R : A -> A -> Prop) (l1 l2 : list A) : Prop :=
  exists l', Permutation l2 l' /\ Forall2 R l1 l'.

Inductive pkind := PFile | PDir | PLink.
Record plan_obs := { po_kind : pkind; po_dest : str; po_tag : option str }.

(* one run of `meson install --destdir D [--tags t1,t2]`: the selection and what D contains
   afterwards (paths relative to D) *)
Record run_obs := { ro_tags : list str; ro_files : list str; ro_dirs : list str; ro_links : list str }.

Record intro := {
  i_targets : list item; i_tests : list item; i_benchmarks : list item;
  i_opts : list (str * str); i_plan : list plan_obs; i_files : list str }.
Record world := {
  w_targets : list item; w_tests : list item; w_benchmarks : list item;
  w_opts : list (str * str); w_runs : list run_obs; w_files : list str }.

(* two spellings of the same location: equal component lists ('' and '.' dropped) *)
Definition same_path (a b : str) : Prop := comps a = comps b.
(* b is a or lies below a *)
Definition under (a b : str) : Prop := exists rest, comps b = comps a ++ rest.
Definition names_path (p : str) (l : list str) : Prop := exists q, In q l /\ same_path p q.

(* minstall.should_install restricted to tags: no selection = everything *)
Definition selected (sel : list str) (e : plan_obs) : Prop :=
  sel = [] \/ exists t, po_tag e = Some t /\ In t sel.

Definition present (r : run_obs) (e : plan_obs) : Prop :=
  match po_kind e with
  | PFile => names_path (po_dest e) (ro_files r)
  | PDir => names_path (po_dest e) (ro_dirs r)
  | PLink => names_path (po_dest e) (ro_links r)
  end.

(* a file/link found in the staging directory is accounted for by a selected plan entry:
   it is the entry's destination, or it lies inside an installed subdirectory *)
Definition accounted (k : pkind) (plan : list plan_obs) (sel : list str) (f : str) : Prop :=
  exists e, In e plan /\ selected sel e /\
            ((po_kind e = k /\ same_path (po_dest e) f) \/ (po_kind e = PDir /\ under (po_dest e) f)).

Definition run_agrees (plan : list plan_obs) (r : run_obs) : Prop :=
  (forall e, In e plan -> selected (ro_tags r) e -> present r e) /\
  (forall f, In f (ro_files r) -> accounted PFile plan (ro_tags r) f) /\
  (forall f, In f (ro_links r) -> accounted PLink plan (ro_tags r) f).

(* the value intro-buildoptions.json reports for n is v, unambiguously *)
Definition reports (opts : list (str * str)) (n v : str) : Prop :=
  In (n, v) opts /\ forall v', In (n, v') opts -> v' = v.

Record Agree (I : intro) (W : world) : Prop := {
  (* every target has exactly the outputs build.ninja produces for it and the sources its
     compile statements consume *)
  ag_targets : MultisetEq item_equiv (i_targets I) (w_targets W);
  (* tests / benchmarks: command, arguments, environment, suites, dependencies *)
  ag_tests : MultisetEq item_equiv (i_tests I) (w_tests W);
  ag_benchmarks : MultisetEq item_equiv (i_benchmarks I) (w_benchmarks W);
  (* buildoptions reports the values get_option() returned *)
  ag_opts : forall n v, In (n, v) (w_opts W) -> reports (i_opts I) n v;
  (* install plan: everything installed is named with its destination and tag, and nothing
     that is not installed *)
  ag_install : forall r, In r (w_runs W) -> run_agrees (i_plan I) r;
  (* exactly the build-definition files that were read, each once *)
  ag_files : (forall f, In f (i_files I) <-> In f (w_files W)) /\ NoDup (i_files I) }.
