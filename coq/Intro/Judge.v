(* Intro/Judge.v — the executable judge for Spec.Agree (boolean checker, one function per
   clause).  No proofs here; soundness and completeness are in JudgeProofs.v. *)
From MV Require Import Base.Strs Intro.Path Intro.Spec.
Open Scope N_scope.

Fixpoint strs_eqb (a b : list str) : bool :=
  match a, b with
  | [], [] => true
  | x :: a', y :: b' => str_eqb x y && strs_eqb a' b'
  | _, _ => false
  end.

Definition subset_b (a b : list str) : bool := forallb (fun x => str_mem x b) a.
Definition seteq_b (a b : list str) : bool := subset_b a b && subset_b b a.

Definition item_eqb (a b : item) : bool :=
  strs_eqb (it_ord a) (it_ord b) && seteq_b (it_set a) (it_set b).

Section Match.
  Context {A : Type} (eqb : A -> A -> bool).
  (* remove the first element satisfying p *)
  Fixpoint remove_first (p : A -> bool) (l : list A) : option (list A) :=
    match l with
    | [] => None
    | y :: r => if p y then Some r
                else match remove_first p r with
                     | Some r' => Some (y :: r')
                     | None => None
                     end
    end.
  (* pair every element of l1 with a distinct eqb-equal element of l2; nothing left over *)
  Fixpoint match_all (l1 l2 : list A) : bool :=
    match l1 with
    | [] => match l2 with [] => true | _ => false end
    | x :: r => match remove_first (eqb x) l2 with
                | Some l2' => match_all r l2'
                | None => false
                end
    end.
End Match.

Definition pkind_eqb (a b : pkind) : bool :=
  match a, b with PFile, PFile | PDir, PDir | PLink, PLink => true | _, _ => false end.

Definition same_path_b (a b : str) : bool := strs_eqb (comps a) (comps b).
Fixpoint prefix_strs (p l : list str) : bool :=
  match p, l with
  | [], _ => true
  | x :: p', y :: l' => str_eqb x y && prefix_strs p' l'
  | _ :: _, [] => false
  end.
Definition under_b (a b : str) : bool := prefix_strs (comps a) (comps b).
Definition names_path_b (p : str) (l : list str) : bool := existsb (same_path_b p) l.

Definition selected_b (sel : list str) (e : plan_obs) : bool :=
  match sel with
  | [] => true
  | _ => match po_tag e with Some t => str_mem t sel | None => false end
  end.

Definition present_b (r : run_obs) (e : plan_obs) : bool :=
  match po_kind e with
  | PFile => names_path_b (po_dest e) (ro_files r)
  | PDir => names_path_b (po_dest e) (ro_dirs r)
  | PLink => names_path_b (po_dest e) (ro_links r)
  end.

Definition accounted_b (k : pkind) (plan : list plan_obs) (sel : list str) (f : str) : bool :=
  existsb (fun e => selected_b sel e &&
                    ((pkind_eqb (po_kind e) k && same_path_b (po_dest e) f) ||
                     (pkind_eqb (po_kind e) PDir && under_b (po_dest e) f))) plan.

Definition run_agrees_b (plan : list plan_obs) (r : run_obs) : bool :=
  forallb (fun e => negb (selected_b (ro_tags r) e) || present_b r e) plan &&
  forallb (accounted_b PFile plan (ro_tags r)) (ro_files r) &&
  forallb (accounted_b PLink plan (ro_tags r)) (ro_links r).

Definition reports_b (opts : list (str * str)) (n v : str) : bool :=
  existsb (fun nv => str_eqb (fst nv) n && str_eqb (snd nv) v) opts &&
  forallb (fun nv => negb (str_eqb (fst nv) n) || str_eqb (snd nv) v) opts.

Fixpoint nodup_b (l : list str) : bool :=
  match l with
  | [] => true
  | x :: r => negb (str_mem x r) && nodup_b r
  end.

(* one boolean per clause of Spec.Agree, in the order of the record *)
Definition clause_targets (I : intro) (W : world) : bool := match_all item_eqb (i_targets I) (w_targets W).
Definition clause_tests (I : intro) (W : world) : bool := match_all item_eqb (i_tests I) (w_tests W).
Definition clause_benchmarks (I : intro) (W : world) : bool := match_all item_eqb (i_benchmarks I) (w_benchmarks W).
Definition clause_opts (I : intro) (W : world) : bool :=
  forallb (fun nv => reports_b (i_opts I) (fst nv) (snd nv)) (w_opts W).
Definition clause_install (I : intro) (W : world) : bool := forallb (run_agrees_b (i_plan I)) (w_runs W).
Definition clause_files (I : intro) (W : world) : bool :=
  seteq_b (i_files I) (w_files W) && nodup_b (i_files I).

Definition clauses (I : intro) (W : world) : list bool :=
  [clause_targets I W; clause_tests I W; clause_benchmarks I W; clause_opts I W;
   clause_install I W; clause_files I W].

Definition agree_b (I : intro) (W : world) : bool := forallb (fun b => b) (clauses I W).
