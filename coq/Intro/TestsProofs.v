(* Intro/TestsProofs.v — intro-tests.json shows the serialised tests: same tests in the same
   order, every field taken from the serialisation; the environment shown has exactly the
   variables the test's operations touch, none of the unset ones. *)
From Coq Require Import Lia.
From MV Require Import Base.Strs Base.LexFacts Intro.Model Intro.Proofs Intro.Tests.
Open Scope N_scope.

Theorem intro_tests_length l : length (intro_tests l) = length l.
Proof. apply map_length. Qed.

(* the k-th entry is the image of the k-th serialised test, field by field *)
Theorem intro_tests_nth l k t :
  nth_error l k = Some t ->
  exists e, nth_error (intro_tests l) k = Some e /\
    i_cmd e = s_fname t ++ s_cmd_args t /\ i_name e = s_name t /\ i_workdir e = s_workdir t /\
    i_timeout e = s_timeout t /\ i_suite e = s_suite t /\ i_is_parallel e = s_is_parallel t /\
    i_priority e = s_priority t /\ i_protocol e = s_protocol t /\ i_depends e = s_depends t /\
    i_extra_paths e = s_extra_paths t /\ i_env e = get_env (s_env t) [].
Proof.
  intro H. exists (intro_of_test t). split.
  - unfold intro_tests. rewrite nth_error_map, H. reflexivity.
  - repeat split.
Qed.

(* --- the environment shown *)
Lemma dict_get_pop_other (d : dict str) k n : k <> n -> dict_get k (dict_pop n d) = dict_get k d.
Proof.
  intro Hne. induction d as [|[k0 v0] d IH]; simpl; [reflexivity|].
  destruct (str_eqb n k0) eqn:E.
  - apply str_eqb_eq in E. subst k0. destruct (str_eqb k n) eqn:E2; [apply str_eqb_eq in E2; contradiction | reflexivity].
  - simpl. destruct (str_eqb k k0); [reflexivity | exact IH].
Qed.

Lemma dict_get_pop_same (d : dict str) n : NoDup (map fst d) -> dict_get n (dict_pop n d) = None.
Proof.
  induction d as [|[k0 v0] d IH]; simpl; intro Hnd; [reflexivity|].
  inversion Hnd as [|x l Hnotin Hnd']; subst.
  destruct (str_eqb n k0) eqn:E.
  - apply str_eqb_eq in E. subst k0. apply dict_get_none. exact Hnotin.
  - simpl. rewrite E. apply IH. exact Hnd'.
Qed.

Lemma nodup_dict_pop (d : dict str) n : NoDup (map fst d) -> NoDup (map fst (dict_pop n d)).
Proof.
  induction d as [|[k0 v0] d IH]; simpl; intro Hnd; [constructor|].
  inversion Hnd as [|x l Hnotin Hnd']; subst.
  destruct (str_eqb n k0); [exact Hnd'|]. simpl. constructor; [|apply IH; exact Hnd'].
  intro Hin. apply Hnotin. clear -Hin. induction d as [|[k1 v1] d IH]; simpl in *; [contradiction|].
  destruct (str_eqb n k1); [right; exact Hin|]. destruct Hin as [H|H]; [left; exact H | right; apply IH; exact H].
Qed.

Lemma pops_get (l : list str) : forall (d : dict str) k,
  NoDup (map fst d) ->
  dict_get k (fold_left (fun e n => dict_pop n e) l d) = if str_mem k l then None else dict_get k d.
Proof.
  induction l as [|n l IH]; intros d k Hnd; simpl; [reflexivity|].
  rewrite IH by (apply nodup_dict_pop; exact Hnd).
  destruct (str_eqb k n) eqn:E; simpl.
  - apply str_eqb_eq in E. subst n. rewrite dict_get_pop_same by exact Hnd.
    destruct (str_mem k l); reflexivity.
  - rewrite dict_get_pop_other; [reflexivity|]. intro H. subst n. rewrite str_eqb_refl in E. discriminate.
Qed.

Lemma env_fold_keys ops : forall (e : dict str) k v,
  dict_get k (fold_left env_apply ops e) = Some v ->
  dict_get k e <> None \/ In k (map (fun o => snd (fst (fst o))) ops).
Proof.
  induction ops as [|o ops IH]; intros e k v H; simpl in *.
  - left. congruence.
  - destruct (IH _ _ _ H) as [H1|H1]; [|right; right; exact H1].
    destruct o as [[[op name] values] sep]. unfold env_apply in H1. rewrite dict_get_set in H1.
    destruct (str_eqb k name) eqn:E.
    + apply str_eqb_eq in E. subst. right. left. reflexivity.
    + left. exact H1.
Qed.

(* a variable shown in the entry is one the test's set/append/prepend operations name, and is
   not an unset one; an unset variable is never shown *)
Theorem intro_env_keys t k v :
  dict_get k (i_env (intro_of_test t)) = Some v ->
  In k (touched (s_env t)) /\ ~ In k (ev_unset (s_env t)).
Proof.
  unfold intro_of_test, get_env. simpl. intro H.
  rewrite pops_get in H by (apply env_fold_nodup; constructor).
  destruct (str_mem k (ev_unset (s_env t))) eqn:E; [discriminate|].
  split.
  - destruct (env_fold_keys _ _ _ _ H) as [H1|H1]; [simpl in H1; congruence | exact H1].
  - intro Hin. clear -E Hin. induction (ev_unset (s_env t)) as [|x l IH]; simpl in *; [contradiction|].
    apply orb_false_iff in E. destruct E as [E1 E2]. destruct Hin as [->|Hin]; [rewrite str_eqb_refl in E1; discriminate | auto].
Qed.
