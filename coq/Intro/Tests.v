(* Intro/Tests.v — the intro-tests.json / intro-benchmarks.json entry as a function of the
   TestSerialisation that `meson test` unpickles, all fields.  Executable, no proofs.
   mesonbuild/backend/backends.py:198-223  TestSerialisation
   mesonbuild/mintro.py:368-391            get_test_list
   Numbers (timeout, priority) are carried as their decimal spelling. *)
From MV Require Import Base.Strs Intro.Model.
Open Scope N_scope.

Record tser := {
  s_name : str; s_suite : list str; s_fname : list str; s_cmd_args : list str;
  s_env : envvars; s_workdir : option str; s_timeout : option str; s_is_parallel : bool;
  s_priority : str; s_protocol : str; s_depends : list str; s_extra_paths : list str }.

Record tintro := {
  i_cmd : list str; i_env : dict str; i_name : str; i_workdir : option str; i_timeout : option str;
  i_suite : list str; i_is_parallel : bool; i_priority : str; i_protocol : str;
  i_depends : list str; i_extra_paths : list str }.

(* mintro.py:370-390, one iteration (t.fname is always a list in a TestSerialisation; t.env is
   always an EnvironmentVariables) *)
Definition intro_of_test (t : tser) : tintro :=
  {| i_cmd := s_fname t ++ s_cmd_args t;                 (* :376 *)
     i_env := get_env (s_env t) [];                      (* :378 *)
     i_name := s_name t;                                 (* :381 *)
     i_workdir := s_workdir t;                           (* :382 *)
     i_timeout := s_timeout t;                           (* :383 *)
     i_suite := s_suite t;                               (* :384 *)
     i_is_parallel := s_is_parallel t;                   (* :385 *)
     i_priority := s_priority t;                         (* :386 *)
     i_protocol := s_protocol t;                         (* :387 str(t.protocol) *)
     i_depends := s_depends t;                           (* :388 *)
     i_extra_paths := s_extra_paths t |}.                (* :389 *)

Definition intro_tests (l : list tser) : list tintro := map intro_of_test l.
