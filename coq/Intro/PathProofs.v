(* Intro/PathProofs.v — facts about the path functions: what location (component list) the
   results of os.path.join / destdir_join / get_destdir_path name. *)
From Coq Require Import Lia.
From MV Require Import Base.Strs Base.LexFacts Intro.Path.
Open Scope N_scope.

(* ------------------------------------------------------------------ split_on *)
Lemma split_on_nonempty c s : exists h t, split_on c s = h :: t.
Proof.
  induction s as [|x s IH]; simpl; [eauto|].
  destruct (x =? c); [eauto|]. destruct IH as [h [t ->]]. eauto.
Qed.

Lemma split_on_app c a b : split_on c (a ++ c :: b) = split_on c a ++ split_on c b.
Proof.
  induction a as [|x a IH]; simpl.
  - rewrite N.eqb_refl. reflexivity.
  - destruct (x =? c); [rewrite IH; reflexivity|].
    rewrite IH. destruct (split_on_nonempty c a) as [h [t ->]]. reflexivity.
Qed.

Lemma split_on_noc c s : ~ In c s -> split_on c s = [s].
Proof.
  induction s as [|x s IH]; intro H; simpl; [reflexivity|].
  destruct (x =? c) eqn:E.
  - apply N.eqb_eq in E. exfalso. apply H. left. exact E.
  - rewrite IH; [reflexivity|]. intro Hin. apply H. right. exact Hin.
Qed.

Lemma split_on_pieces c s x : In x (split_on c s) -> ~ In c x.
Proof.
  revert x; induction s as [|y s IH]; intros x H; simpl in H.
  - destruct H as [<-|[]]. intros [].
  - destruct (y =? c) eqn:E.
    + destruct H as [<-|H]; [intros []|apply IH; exact H].
    + destruct (split_on_nonempty c s) as [h [t Hs]]. rewrite Hs in H, IH.
      destruct H as [<-|H].
      * intros [Hc|Hc]; [apply N.eqb_neq in E; congruence|].
        apply (IH h); [left; reflexivity | exact Hc].
      * apply IH. right. exact H.
Qed.

(* ------------------------------------------------------------------ comps *)
Definition keep (x : str) : bool := negb (is_nil x || is_dot x).
Lemma comps_unfold s : comps s = filter keep (split_on SLASH s).
Proof. reflexivity. Qed.

(* a clean component: what pathlib keeps *)
Definition clean (x : str) : Prop := ~ In SLASH x /\ keep x = true.

Lemma comps_clean s x : In x (comps s) -> clean x.
Proof.
  rewrite comps_unfold. intro H. apply filter_In in H. destruct H as [H1 H2].
  split; [eapply split_on_pieces; exact H1 | exact H2].
Qed.

Lemma comps_of_clean x : clean x -> comps x = [x].
Proof.
  intros [H1 H2]. rewrite comps_unfold, (split_on_noc _ _ H1). simpl. rewrite H2. reflexivity.
Qed.

Lemma clean_not_abs x : clean x -> isabs x = false.
Proof.
  intros [H1 _]. destruct x as [|c x]; [reflexivity|]. simpl.
  destruct (c =? SLASH) eqn:E; [|reflexivity].
  apply N.eqb_eq in E. exfalso. apply H1. left. exact E.
Qed.

Lemma comps_nil : comps [] = [].
Proof. reflexivity. Qed.

Lemma comps_app_slash a b : comps (a ++ SLASH :: b) = comps a ++ comps b.
Proof. rewrite !comps_unfold, split_on_app, filter_app. reflexivity. Qed.

Lemma comps_trailing_slash a : comps (a ++ [SLASH]) = comps a.
Proof. rewrite comps_app_slash, comps_nil, app_nil_r. reflexivity. Qed.

Lemma comps_leading_slash a : comps (SLASH :: a) = comps a.
Proof. change (SLASH :: a) with ([] ++ SLASH :: a). rewrite comps_app_slash. reflexivity. Qed.

Lemma ends_slash_inv a : ends_slash a = true -> exists a', a = a' ++ [SLASH].
Proof.
  induction a as [|x a IH]; intro H; [discriminate|].
  destruct a as [|y a].
  - simpl in H. apply N.eqb_eq in H. subst. exists []. reflexivity.
  - destruct (IH H) as [a' Ha]. exists (x :: a'). rewrite Ha. reflexivity.
Qed.

(* ------------------------------------------------------------------ os.path.join *)
Lemma join2_abs a b : isabs b = true -> join2 a b = b.
Proof. intro H. unfold join2. rewrite H. reflexivity. Qed.

Theorem comps_join2 a b : isabs b = false -> comps (join2 a b) = comps a ++ comps b.
Proof.
  intro H. unfold join2. rewrite H. destruct a as [|x a]; [reflexivity|].
  destruct (ends_slash (x :: a)) eqn:E.
  - destruct (ends_slash_inv _ E) as [a' ->]. rewrite <- app_assoc. simpl.
    rewrite comps_app_slash, comps_trailing_slash. reflexivity.
  - apply comps_app_slash.
Qed.

Lemma isabs_app a b : isabs a = true -> isabs (a ++ b) = true.
Proof. destruct a; [discriminate | simpl; auto]. Qed.

Lemma isabs_join2 a b : isabs a = true -> isabs (join2 a b) = true.
Proof.
  intro H. unfold join2. destruct (isabs b) eqn:E; [exact E|].
  destruct a as [|x a]; [discriminate|].
  destruct (ends_slash (x :: a)); apply isabs_app; exact H.
Qed.

Lemma isabs_join2_rel a b : isabs b = false -> a <> [] -> isabs (join2 a b) = isabs a.
Proof.
  intros H Ha. unfold join2. rewrite H. destruct a as [|x a]; [congruence|].
  destruct (ends_slash (x :: a)); reflexivity.
Qed.

Lemma basename_no_slash p : ~ In SLASH (basename p).
Proof.
  unfold basename. destruct (split_on_nonempty SLASH p) as [h [t E]].
  apply split_on_pieces with (s := p). rewrite E.
  assert (Hne : h :: t <> []) by discriminate.
  destruct (exists_last Hne) as [l' [a Hl]]. rewrite Hl. rewrite last_last.
  apply in_or_app. right. left. reflexivity.
Qed.

Lemma basename_not_abs p : isabs (basename p) = false.
Proof.
  pose proof (basename_no_slash p) as H. destruct (basename p) as [|c r]; [reflexivity|].
  simpl. destruct (c =? SLASH) eqn:E; [|reflexivity].
  apply N.eqb_eq in E. exfalso. apply H. left. exact E.
Qed.

(* pjoin with clean extra components *)
Lemma comps_pjoin_clean ps : forall d1, Forall clean ps -> comps (pjoin d1 ps) = comps d1 ++ ps.
Proof.
  unfold pjoin. induction ps as [|p ps IH]; intros d1 H; simpl.
  - rewrite app_nil_r. reflexivity.
  - inversion H as [|p' ps' Hp Hps]; subst.
    rewrite IH by exact Hps. rewrite comps_join2 by (apply clean_not_abs; exact Hp).
    rewrite (comps_of_clean _ Hp), <- app_assoc. reflexivity.
Qed.

Lemma isabs_pjoin ps : forall d1, isabs d1 = true -> isabs (pjoin d1 ps) = true.
Proof.
  unfold pjoin. induction ps as [|p ps IH]; intros d1 H; simpl; [exact H|].
  apply IH. apply isabs_join2. exact H.
Qed.

(* ------------------------------------------------------------------ pathlib *)
Lemma proot_cases s :
  (proot s = [] /\ isabs s = false) \/
  ((proot s = [SLASH] \/ proot s = [SLASH; SLASH]) /\ isabs s = true).
Proof.
  destruct s as [|c1 r1]; simpl; [left; auto|].
  destruct (c1 =? SLASH); [|left; auto]. right. split; [|reflexivity].
  destruct r1 as [|c2 r2]; [left; reflexivity|].
  destruct (c2 =? SLASH); [|left; reflexivity].
  destruct r2 as [|c3 r3]; [right; reflexivity|].
  destruct (c3 =? SLASH); [left|right]; reflexivity.
Qed.

Lemma join_cons2 sep (x y : str) t : join sep (x :: y :: t) = x ++ sep ++ join sep (y :: t).
Proof. reflexivity. Qed.

Lemma comps_join_clean t : Forall clean t -> comps (join [SLASH] t) = t.
Proof.
  induction t as [|x t IH]; intro H; [reflexivity|].
  inversion H as [|x' t' Hx Ht]; subst.
  destruct t as [|y t].
  - simpl. apply comps_of_clean. exact Hx.
  - rewrite join_cons2. change ([SLASH] ++ join [SLASH] (y :: t)) with (SLASH :: join [SLASH] (y :: t)).
    rewrite comps_app_slash, (comps_of_clean _ Hx), IH by exact Ht. reflexivity.
Qed.

Lemma comps_pp_str root t :
  (root = [] \/ root = [SLASH] \/ root = [SLASH; SLASH]) -> Forall clean t ->
  comps (pp_str root t) = t.
Proof.
  intros Hr Ht. unfold pp_str.
  destruct Hr as [Hr|[Hr|Hr]]; subst root.
  - destruct t as [|x t]; [reflexivity|]. cbn [app]. apply comps_join_clean. exact Ht.
  - cbn [app]. rewrite comps_leading_slash. apply comps_join_clean. exact Ht.
  - cbn [app]. rewrite !comps_leading_slash. apply comps_join_clean. exact Ht.
Qed.

Lemma isabs_pp_str root t : root <> [] -> isabs root = true -> isabs (pp_str root t) = true.
Proof.
  intros Hne H. unfold pp_str. destruct root as [|c r]; [congruence|].
  apply isabs_app. exact H.
Qed.

Lemma Forall_clean_comps s : Forall clean (comps s).
Proof. apply Forall_forall. intros x. apply comps_clean. Qed.

(* ------------------------------------------------------------------ destdir_join *)
Lemma destdir_join_nil d2 : destdir_join [] d2 = d2.
Proof. reflexivity. Qed.

Theorem comps_destdir_join d1 d2 :
  d1 <> [] -> isabs d2 = true -> comps (destdir_join d1 d2) = comps d1 ++ comps d2.
Proof.
  intros Hne Habs. unfold destdir_join. destruct d1 as [|c d1]; [congruence|].
  set (D := c :: d1).
  assert (Hp : parts_tl d2 = comps d2).
  { unfold parts_tl. destruct (proot_cases d2) as [[_ H]|[[H|H] _]]; [congruence | rewrite H | rewrite H]; reflexivity. }
  rewrite Hp.
  assert (Hroot : forall j, proot j = [] \/ proot j = [SLASH] \/ proot j = [SLASH; SLASH]).
  { intro j. destruct (proot_cases j) as [[H _]|[[H|H] _]]; auto. }
  rewrite comps_pp_str; [| apply Hroot | apply Forall_clean_comps].
  apply comps_pjoin_clean. apply Forall_clean_comps.
Qed.

Theorem isabs_destdir_join d1 d2 : isabs d1 = true -> isabs (destdir_join d1 d2) = true.
Proof.
  intro H. unfold destdir_join. destruct d1 as [|c d1]; [discriminate|].
  set (j := pjoin (c :: d1) (parts_tl d2)).
  assert (Hj : isabs j = true) by (apply isabs_pjoin; exact H).
  destruct (proot_cases j) as [[_ Hf]|[[Hr|Hr] _]]; [congruence | |];
    apply isabs_pp_str; rewrite Hr; try discriminate; reflexivity.
Qed.

(* ------------------------------------------------------------------ get_destdir_path *)
(* The location the installer writes to is the staging directory followed by the location
   os.path.join(prefix, path) names — for an absolute staging directory ... *)
Theorem comps_get_destdir_path destdir prefix p :
  destdir <> [] -> isabs prefix = true ->
  comps (get_destdir_path destdir (destdir_join destdir prefix) p) =
  comps destdir ++ comps (join2 prefix p).
Proof.
  intros Hne Hpre. unfold get_destdir_path. destruct (isabs p) eqn:E.
  - rewrite (join2_abs _ _ E). apply comps_destdir_join; assumption.
  - rewrite !comps_join2 by exact E. rewrite comps_destdir_join by assumption.
    rewrite app_assoc. reflexivity.
Qed.

(* ... and the very string os.path.join(prefix, path) when there is no staging directory *)
Theorem get_destdir_path_nodestdir prefix p :
  get_destdir_path [] (destdir_join [] prefix) p = join2 prefix p.
Proof.
  unfold get_destdir_path. rewrite !destdir_join_nil. destruct (isabs p) eqn:E; [|reflexivity].
  rewrite (join2_abs _ _ E). reflexivity.
Qed.

Theorem isabs_get_destdir_path destdir prefix p :
  isabs destdir = true -> isabs (get_destdir_path destdir (destdir_join destdir prefix) p) = true.
Proof.
  intro H. unfold get_destdir_path. destruct (isabs p) eqn:E.
  - apply isabs_destdir_join. exact H.
  - apply isabs_join2. apply isabs_destdir_join. exact H.
Qed.
