(* Intro/Model.v — transcription of the pure derivations that produce what
   intro-installed.json / intro-install_plan.json / intro-tests.json say, next to the
   derivations `meson install` / `meson test` perform on the SAME serialised objects
   (InstallData, TestSerialisation).  POSIX only.  Executable definitions, no proofs.

   mesonbuild/backend/backends.py:119-196   InstallData and its entry classes
   mesonbuild/backend/backends.py:1956-2057 generate_{header,man,emptydir,data,symlink,subdir}_install
   mesonbuild/mintro.py:53-113              list_installed, list_install_plan
   mesonbuild/mintro.py:368-391             get_test_list
   mesonbuild/minstall.py:277-282,389-396,548-575,638-705,754-808  the installer's destinations
   mesonbuild/utils/core.py:133-154         EnvironmentVariables.get_env
   mesonbuild/mtest.py:1559-1583,1803-1816  command and environment of a test run *)
From MV Require Import Base.Strs Intro.Path.
Open Scope N_scope.

(* ------------------------------------------------------------------ Python dict *)
(* insertion-ordered dict with str keys: assignment keeps the position of an existing key *)
Section Dict.
  Context {V : Type}.
  Definition dict := list (str * V).
  Fixpoint dict_set (k : str) (v : V) (d : dict) : dict :=
    match d with
    | [] => [(k, v)]
    | (k', v') :: r => if str_eqb k k' then (k, v) :: r else (k', v') :: dict_set k v r
    end.
  Fixpoint dict_get (k : str) (d : dict) : option V :=
    match d with
    | [] => None
    | (k', v') :: r => if str_eqb k k' then Some v' else dict_get k r
    end.
  Fixpoint dict_pop (k : str) (d : dict) : dict :=
    match d with
    | [] => []
    | (k', v') :: r => if str_eqb k k' then r else (k', v') :: dict_pop k r
    end.
  (* {k: v for (k, v) in l} / successive assignments *)
  Definition dict_of (l : list (str * V)) : dict :=
    fold_left (fun d kv => dict_set (fst kv) (snd kv) d) l [].
End Dict.
Arguments dict : clear implicits.

(* ------------------------------------------------------------------ InstallData *)
(* backends.py:141-160 TargetInstallData (fields the destination logic reads) *)
Record target_i := {
  t_fname : str; t_outdir : str; t_out_name : str;
  t_subproject : str; t_tag : option str; t_optional : bool }.

(* backends.py:157-160  __post_init__:
     if outdir_name is None: outdir_name = os.path.join('{prefix}', self.outdir)
     self.out_name = os.path.join(outdir_name, os.path.basename(self.fname)) *)
Definition mk_target (fname outdir : str) (outdir_name : option str)
           (subproject : str) (tag : option str) (optional : bool) : target_i :=
  let odn := match outdir_name with
             | None => join2 (s2l "{prefix}") outdir
             | Some n => n
             end in
  {| t_fname := fname; t_outdir := outdir; t_out_name := join2 odn (basename fname);
     t_subproject := subproject; t_tag := tag; t_optional := optional |}.

(* backends.py:169-195 InstallDataBase / SubdirInstallData *)
Record base_i := {
  b_path : str; b_install_path : str; b_install_path_name : str;
  b_subproject : str; b_tag : option str; b_data_type : option str;
  b_excl_files : list str; b_excl_dirs : list str }.

(* backends.py:180-186 InstallSymlinkData *)
Record symlink_i := {
  l_target : str; l_name : str; l_install_path : str; l_subproject : str; l_tag : option str }.

(* backends.py:162-167 InstallEmptyDir *)
Record emptydir_i := { e_path : str; e_subproject : str; e_tag : option str }.

(* backends.py:118-139 *)
Record install_data := {
  d_source_dir : str; d_build_dir : str; d_prefix : str;
  d_targets : list target_i; d_headers : list base_i; d_man : list base_i;
  d_emptydir : list emptydir_i; d_data : list base_i; d_symlinks : list symlink_i;
  d_subdirs : list base_i }.

(* ------------------------------------------------------------------ mintro.list_installed *)
(* mintro.py:53-70 — one dict, later assignments to the same key overwrite *)
Definition installed_target (d : install_data) (t : target_i) : str * str :=
  (join2 (d_build_dir d) (t_fname t),
   pjoin (d_prefix d) [t_outdir t; basename (t_fname t)]).            (* :57-58 *)
Definition installed_plain (d : install_data) (i : base_i) : str * str :=
  (b_path i, join2 (d_prefix d) (b_install_path i)).                   (* :60,64,66 *)
Definition installed_header (d : install_data) (i : base_i) : str * str :=
  (b_path i, pjoin (d_prefix d) [b_install_path i; basename (b_path i)]). (* :62 *)
Definition installed_symlink (d : install_data) (s : symlink_i) : str * str :=
  let b := basename (l_name s) in
  (b, pjoin (d_prefix d) [l_install_path s; b]).                       (* :68-69 *)

(* the assignments in program order *)
Definition installed_assignments (d : install_data) : list (str * str) :=
  map (installed_target d) (d_targets d) ++
  map (installed_plain d) (d_data d) ++
  map (installed_header d) (d_headers d) ++
  map (installed_plain d) (d_man d) ++
  map (installed_plain d) (d_subdirs d) ++
  map (installed_symlink d) (d_symlinks d).

Definition list_installed (d : install_data) : dict str :=
  dict_of (installed_assignments d).

(* ------------------------------------------------------------------ mintro.list_install_plan *)
Record plan_entry := {
  pe_destination : str; pe_tag : option str; pe_subproject : option str;
  pe_is_subdir : bool; pe_excl_dirs : list str; pe_excl_files : list str }.

(* `x or None` *)
Definition or_none (o : option str) : option str :=
  match o with Some [] => None | _ => o end.
Definition str_or_none (s : str) : option str :=
  match s with [] => None | _ => Some s end.

(* mintro.py:75-84 *)
Definition plan_target (d : install_data) (t : target_i) : str * plan_entry :=
  (join2 (d_build_dir d) (t_fname t),
   {| pe_destination := t_out_name t; pe_tag := or_none (t_tag t);
      pe_subproject := str_or_none (t_subproject t);
      pe_is_subdir := false; pe_excl_dirs := []; pe_excl_files := [] |}).

(* mintro.py:93-111, one iteration of the inner loop; key = 'data' | 'man' | 'headers' |
   'install_subdirs' *)
Definition KEY_HEADERS := s2l "headers".
Definition KEY_SUBDIRS := s2l "install_subdirs".
Definition plan_section (key : str) (i : base_i) : str :=
  match b_data_type i with                    (* data.data_type or key *)
  | None | Some [] => key
  | Some t => t
  end.
Definition plan_item (key : str) (i : base_i) : str * plan_entry :=
  let ipn := if str_eqb key KEY_HEADERS
             then join2 (b_install_path_name i) (basename (b_path i))   (* :96-97 *)
             else b_install_path_name i in
  let sub := str_eqb key KEY_SUBDIRS in
  (b_path i,
   {| pe_destination := ipn; pe_tag := or_none (b_tag i);
      pe_subproject := str_or_none (b_subproject i);
      pe_is_subdir := sub;
      pe_excl_dirs := if sub then b_excl_dirs i else [];
      pe_excl_files := if sub then b_excl_files i else [] |}).

Definition plan_t := dict (dict plan_entry).

(* plan[data_type] = plan.get(data_type, {}); plan[data_type][data.path] = entry *)
Definition plan_add (key : str) (p : plan_t) (i : base_i) : plan_t :=
  let sec := plan_section key i in
  let cur := match dict_get sec p with Some c => c | None => [] end in
  let '(k, e) := plan_item key i in
  dict_set sec (dict_set k e cur) p.

Definition list_install_plan (d : install_data) : plan_t :=
  let p0 : plan_t := [(s2l "targets", dict_of (map (plan_target d) (d_targets d)))] in
  let p1 := fold_left (plan_add (s2l "data")) (d_data d) p0 in
  let p2 := fold_left (plan_add (s2l "man")) (d_man d) p1 in
  let p3 := fold_left (plan_add KEY_HEADERS) (d_headers d) p2 in
  fold_left (plan_add KEY_SUBDIRS) (d_subdirs d) p3.

(* ------------------------------------------------------------------ minstall: destinations *)
Inductive akind := KSubdir | KTarget | KHeader | KMan | KEmptydir | KData | KSymlink.
(* a_id is a ghost field: the key under which mintro.list_installed files the same InstallData
   entry (mintro.py:57,60,62,64,66,68); a_src / a_dst are what the installer copies from / to *)
Record action := { a_kind : akind; a_id : str; a_src : str; a_dst : str }.

Inductive result (A : Type) := Ok (a : A) | MesonErr (what : str).
Arguments Ok {A} a.
Arguments MesonErr {A} what.

(* minstall.py:389-396 should_install *)
Definition should_install (skip tags : list str) (subproject : str) (tag : option str) : bool :=
  if negb (is_nil subproject) && (str_mem subproject skip || str_mem [42] skip) then false
  else match tags with
       | [] => true
       | _ => match tag with
              | None => false                 (* None not in self.tags *)
              | Some t => str_mem t tags
              end
       end.

Section Installer.
  (* what the run is given: --destdir (already defaulted from $DESTDIR), --skip-subprojects,
     --tags, and which target files exist in the build directory *)
  Variable destdir_opt : option str.
  Variable skip tags : list str.
  Variable file_exists : str -> bool.
  Variable d : install_data.

  (* minstall.py:551-560 *)
  Definition eff_destdir : str :=
    match destdir_opt with
    | None | Some [] => []
    | Some dd => if isabs dd then dd else join2 (d_build_dir d) dd
    end.
  Definition fullprefix : str := destdir_join eff_destdir (d_prefix d).
  Definition gdp (p : str) : str := get_destdir_path eff_destdir fullprefix p.

  Definition sel_base (i : base_i) : bool := should_install skip tags (b_subproject i) (b_tag i).

  (* :638-647 *)
  Definition act_subdirs : list action :=
    map (fun i => {| a_kind := KSubdir; a_id := b_path i; a_src := b_path i; a_dst := gdp (b_install_path i) |})
        (filter sel_base (d_subdirs d)).
  (* :649-658 *)
  Definition act_data : list action :=
    map (fun i => {| a_kind := KData; a_id := b_path i; a_src := b_path i; a_dst := gdp (b_install_path i) |})
        (filter sel_base (d_data d)).
  (* :670-679 *)
  Definition act_man : list action :=
    map (fun i => {| a_kind := KMan; a_id := b_path i; a_src := b_path i; a_dst := gdp (b_install_path i) |})
        (filter sel_base (d_man d)).
  (* :694-705  outfilename = os.path.join(get_destdir_path(install_path), basename(path)) *)
  Definition act_headers : list action :=
    map (fun i => {| a_kind := KHeader; a_id := b_path i; a_src := b_path i;
                     a_dst := join2 (gdp (b_install_path i)) (basename (b_path i)) |})
        (filter sel_base (d_headers d)).
  (* :681-692 *)
  Definition act_emptydirs : list action :=
    map (fun e => {| a_kind := KEmptydir; a_id := e_path e; a_src := []; a_dst := gdp (e_path e) |})
        (filter (fun e => should_install skip tags (e_subproject e) (e_tag e)) (d_emptydir d)).
  (* :660-668  full_link_name = get_destdir_path(s.name) *)
  Definition act_symlinks : list action :=
    map (fun s => {| a_kind := KSymlink; a_id := basename (l_name s); a_src := l_target s; a_dst := gdp (l_name s) |})
        (filter (fun s => should_install skip tags (l_subproject s) (l_tag s)) (d_symlinks d)).

  (* :754-769 (regular files; check_for_stampfile is the identity unless the file is an
     empty .so/.dll/.a/.lib — Rust, not modelled; directory outputs not modelled) *)
  Fixpoint act_targets (ts : list target_i) : result (list action) :=
    match ts with
    | [] => Ok []
    | t :: r =>
        if negb (should_install skip tags (t_subproject t) (t_tag t)) then act_targets r
        else if negb (file_exists (t_fname t)) then
          if t_optional t then act_targets r                       (* :758-761 *)
          else MesonErr (s2l "File could not be found")            (* :762-763 *)
        else match act_targets r with
             | MesonErr w => MesonErr w
             | Ok l => Ok ({| a_kind := KTarget; a_id := join2 (d_build_dir d) (t_fname t); a_src := t_fname t;
                              a_dst := join2 (gdp (t_outdir t)) (basename (t_fname t)) |} :: l)
             end
    end.

  (* :567-574 order of the passes *)
  Definition do_install : result (list action) :=
    match act_targets (d_targets d) with
    | MesonErr w => MesonErr w
    | Ok ts => Ok (act_subdirs ++ ts ++ act_headers ++ act_man ++ act_emptydirs ++ act_data ++ act_symlinks)
    end.
End Installer.

(* ------------------------------------------------------------------ backends.generate_*_install *)
Section Generate.
  (* guess_install_tag (backends.py:1788-1816) is a function of the destination only; the
     derivations below are parametric in it *)
  Variable guess_tag1 : str -> option str.             (* guess_install_tag(fname) *)

  (* `a or b` on Optional[str] *)
  Definition opt_or (a b : option str) : option str :=
    match a with None | Some [] => b | _ => a end.

  (* --- headers, backends.py:1956-1977 *)
  Record header_b := {
    hb_custom_install_dir : option str; hb_install_subdir : option str;
    hb_sources : list str;                 (* f.absolute_path(srcdir, builddir) *)
    hb_subproject : str; hb_tag : option str }.
  Definition gen_header (incroot : str) (h : header_b) : list base_i :=
    let '(outdir, outdir_name) :=
      match hb_custom_install_dir h with
      | Some c => (c, c)
      | None =>
          match hb_install_subdir h with
          | None => (incroot, s2l "{includedir}")
          | Some sd => (join2 incroot sd, join2 (s2l "{includedir}") sd)
          end
      end in
    map (fun f => {| b_path := f; b_install_path := outdir; b_install_path_name := outdir_name;
                     b_subproject := hb_subproject h;
                     (* build.py:219-221 Headers.__post_init__: install_tag None -> 'devel' *)
                     b_tag := match hb_tag h with None => Some (s2l "devel") | x => x end;
                     b_data_type := None;
                     b_excl_files := []; b_excl_dirs := [] |}) (hb_sources h).
  Definition gen_headers (incroot : str) (hs : list header_b) : list base_i :=
    flat_map (gen_header incroot) hs.

  (* --- man pages, backends.py:1979-2000 *)
  Record man_b := {
    mb_sources : list (str * str);         (* (f.fname, f.absolute_path(...)) *)
    mb_custom_install_dir : option str; mb_locale : option str;
    mb_subproject : str; mb_tag : option str }.
  Definition MANDIR := s2l "{mandir}".
  Definition has_locale (m : man_b) : option str :=
    match mb_locale m with None | Some [] => None | Some l => Some l end.
  Definition gen_man1 (manroot : str) (m : man_b) (f : str * str) : base_i :=
    let '(fname, srcabs) := f in
    let num := last (split_on 46 fname) [] in                      (* f.split('.')[-1] *)
    let subdir :=
      match mb_custom_install_dir m with
      | Some c => c
      | None =>
          match has_locale m with
          | Some l => pjoin MANDIR [l; s2l "man" ++ num]
          | None => join2 MANDIR (s2l "man" ++ num)
          end
      end in
    let fname' := match has_locale m with
                  | Some l => replace (46 :: l) [] fname           (* fname.replace('.'+locale, '') *)
                  | None => fname
                  end in
    let dstname := join2 subdir (basename fname') in
    let dstabs := replace MANDIR manroot dstname in
    {| b_path := srcabs; b_install_path := dstabs; b_install_path_name := dstname;
       b_subproject := mb_subproject m;
       b_tag := match opt_or (mb_tag m) (Some (s2l "man")) with x => x end;
       b_data_type := None; b_excl_files := []; b_excl_dirs := [] |}.
  Definition gen_man (manroot : str) (ms : list man_b) : list base_i :=
    flat_map (fun m => map (gen_man1 manroot m) (mb_sources m)) ms.

  (* --- data, backends.py:2012-2028 *)
  Record data_b := {
    db_install_dir : str; db_install_dir_name : str;
    db_sources : list str; db_rename : list str;
    db_subproject : str; db_tag : option str; db_data_type : option str }.
  Definition gen_data1 (de : data_b) (sr : str * str) : base_i :=
    let '(src, dst_name) := sr in
    let dst_abs := join2 (db_install_dir de) dst_name in
    let dstdir_name := join2 (db_install_dir_name de) dst_name in
    {| b_path := src; b_install_path := dst_abs; b_install_path_name := dstdir_name;
       b_subproject := db_subproject de; b_tag := opt_or (db_tag de) (guess_tag1 dst_abs);
       b_data_type := db_data_type de; b_excl_files := []; b_excl_dirs := [] |}.
  Definition gen_data (ds : list data_b) : list base_i :=
    flat_map (fun de => map (gen_data1 de) (combine (db_sources de) (db_rename de))) ds.

  (* --- symlinks, backends.py:2030-2038 *)
  Record symlink_b := {
    sb_target : str; sb_name : str; sb_install_dir : str; sb_subproject : str; sb_tag : option str }.
  Definition gen_symlink (l : symlink_b) : symlink_i :=
    let name_abs := join2 (sb_install_dir l) (sb_name l) in
    {| l_target := sb_target l; l_name := name_abs; l_install_path := sb_install_dir l;
       l_subproject := sb_subproject l; l_tag := opt_or (sb_tag l) (guess_tag1 name_abs) |}.

  (* --- emptydirs, backends.py:2002-2010 *)
  Definition gen_emptydir (path subproject : str) (tag : option str) : emptydir_i :=
    {| e_path := path; e_subproject := subproject; e_tag := opt_or tag (guess_tag1 path) |}.

  (* --- install_subdir, backends.py:2040-2061 *)
  Record subdir_b := {
    sdb_from_dir : str;                       (* source dir or build dir *)
    sdb_source_subdir : str; sdb_installable_subdir : str;
    sdb_install_dir : str; sdb_install_dir_name : str; sdb_strip_directory : bool;
    sdb_excl_files : list str; sdb_excl_dirs : list str;
    sdb_subproject : str; sdb_tag : option str }.
  Definition gen_subdir (prefix : str) (sd : subdir_b) : base_i :=
    let src_dir := rstrip_slash (pjoin (sdb_from_dir sd) [sdb_source_subdir sd; sdb_installable_subdir sd]) in
    let dst_dir := join2 prefix (sdb_install_dir sd) in
    let dst_name := if str_eqb (sdb_install_dir sd) (sdb_install_dir_name sd)
                    then join2 (s2l "{prefix}") (sdb_install_dir sd)
                    else sdb_install_dir_name sd in
    let '(dst_dir, dst_name) :=
      if sdb_strip_directory sd then (dst_dir, dst_name)
      else (join2 dst_dir (basename src_dir), join2 dst_name (basename src_dir)) in
    {| b_path := src_dir; b_install_path := dst_dir; b_install_path_name := dst_name;
       b_subproject := sdb_subproject sd;
       b_tag := opt_or (sdb_tag sd) (guess_tag1 (join2 (sdb_install_dir sd) (s2l "dummy")));
       b_data_type := None;
       b_excl_files := sdb_excl_files sd; b_excl_dirs := sdb_excl_dirs sd |}.
End Generate.

(* ------------------------------------------------------------------ tests *)
(* utils/core.py:133-154 *)
Inductive envop := EnvSet | EnvAppend | EnvPrepend.
Record envvars := { ev_ops : list (envop * str * list str * str); ev_unset : list str }.

Definition env_apply (env : dict str) (o : envop * str * list str * str) : dict str :=
  let '(op, name, values, sep) := o in
  let curr := dict_get name env in                         (* default_value is None *)
  let v := match op with
           | EnvSet => join sep values
           | EnvAppend => join sep (match curr with None => values | Some c => c :: values end)
           | EnvPrepend => join sep (match curr with None => values | Some c => values ++ [c] end)
           end in
  dict_set name v env.

Definition get_env (ev : envvars) (full_env : dict str) : dict str :=
  fold_left (fun e n => dict_pop n e) (ev_unset ev) (fold_left env_apply (ev_ops ev) full_env).

(* dict.update *)
Definition dict_update (a b : dict str) : dict str :=
  fold_left (fun d kv => dict_set (fst kv) (snd kv) d) b a.

(* backends.py:198-223 TestSerialisation (fields read by get_test_list and by mtest) *)
Record test_ser := {
  ts_name : str; ts_suite : list str; ts_fname : list str; ts_cmd_args : list str;
  ts_env : envvars; ts_workdir : option str; ts_depends : list str;
  ts_is_parallel : bool; ts_priority : Z; ts_timeout : Z }.

(* mintro.py:368-391 *)
Record test_intro := {
  ti_cmd : list str; ti_env : dict str; ti_name : str; ti_workdir : option str;
  ti_suite : list str; ti_depends : list str; ti_is_parallel : bool; ti_priority : Z;
  ti_timeout : Z }.
Definition get_test_list1 (t : test_ser) : test_intro :=
  {| ti_cmd := ts_fname t ++ ts_cmd_args t;                 (* :376 *)
     ti_env := get_env (ts_env t) [];                       (* :378 t.env.get_env({}) *)
     ti_name := ts_name t; ti_workdir := ts_workdir t; ti_suite := ts_suite t;
     ti_depends := ts_depends t; ti_is_parallel := ts_is_parallel t;
     ti_priority := ts_priority t; ti_timeout := ts_timeout t |}.
Definition get_test_list (l : list test_ser) : list test_intro := map get_test_list1 l.

(* mtest.py:1803-1816 + 1559-1583, native build, no wrapper, no --test-args, no --setup:
     env = os.environ.copy(); test_env = test.env.get_env(env); env.update(test_env)
     env['MESON_TEST_ITERATION'] = '1';  cmd = test.fname + test.cmd_args *)
Definition mtest_env (t : test_ser) (os_environ : dict str) : dict str :=
  dict_set (s2l "MESON_TEST_ITERATION") [49]
           (dict_update os_environ (get_env (ts_env t) os_environ)).
Definition mtest_cmd (t : test_ser) : list str := ts_fname t ++ ts_cmd_args t.

(* mtest.py:1949-1981 split_suite_string / test_in_suites *)
Fixpoint split_first (c : char) (s : str) : option (str * str) :=
  match s with
  | [] => None
  | x :: r => if x =? c then Some ([], r)
              else match split_first c r with
                   | Some (a, b) => Some (x :: a, b)
                   | None => None
                   end
  end.
(* suite.split(':', 1) when ':' in suite, else (suite, '') *)
Definition split_suite (s : str) : str * str :=
  match split_first 58 s with
  | Some ab => ab
  | None => (s, [])
  end.
Definition suite_matches (sel prjst : str) : bool :=
  let '(pm, sm) := split_suite sel in
  let '(prj, st) := split_suite prjst in
  if is_nil sm then str_eqb pm prj || str_eqb pm st
  else if is_nil pm then str_eqb st sm
  else str_eqb prj pm && str_eqb st sm.
Definition test_in_suites (suite : list str) (sels : list str) : bool :=
  existsb (fun sel => existsb (suite_matches sel) suite) sels.
