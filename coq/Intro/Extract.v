(* Extraction of the C15 model and judge.  Only the ExtrOcamlBasic directives are used. *)
From Coq Require Extraction.
From Coq Require Import ExtrOcamlBasic.
From MV Require Import Intro.Entry.
Extraction "../extract/C15/model.ml" Intro.Entry.run.
