(* Intro/Proofs.v — the introspection derivations and the installer / test runner derive the
   same things from the same serialised objects.  All statements are for every InstallData /
   TestSerialisation (no bound). *)
From Coq Require Import Lia.
From MV Require Import Base.Strs Base.LexFacts Intro.Path Intro.PathProofs Intro.Model.
Open Scope N_scope.

(* ------------------------------------------------------------------ dict facts *)
Section DictFacts.
  Context {V : Type}.
  Implicit Types (d : dict V) (k : str) (v : V).

  Lemma dict_get_set k k' v d :
    dict_get k (dict_set k' v d) = if str_eqb k k' then Some v else dict_get k d.
  Proof.
    induction d as [|[k0 v0] d IH]; simpl.
    - reflexivity.
    - destruct (str_eqb k' k0) eqn:E; simpl.
      + apply str_eqb_eq in E. subst k0. destruct (str_eqb k k'); reflexivity.
      + destruct (str_eqb k k0) eqn:E2.
        * apply str_eqb_eq in E2. subst k0.
          destruct (str_eqb k k') eqn:E3; [|reflexivity].
          apply str_eqb_eq in E3. subst k'. rewrite str_eqb_refl in E. discriminate.
        * exact IH.
  Qed.

  Lemma in_dict_set k v k' v' d : In (k, v) (dict_set k' v' d) -> (k, v) = (k', v') \/ In (k, v) d.
  Proof.
    induction d as [|[k0 v0] d IH]; simpl; intro H.
    - destruct H as [H|[]]. left. symmetry. exact H.
    - destruct (str_eqb k' k0).
      + destruct H as [H|H]; [left; symmetry; exact H | right; right; exact H].
      + destruct H as [H|H]; [right; left; exact H|].
        destruct (IH H) as [H'|H']; [left; exact H' | right; right; exact H'].
  Qed.

  Lemma keys_dict_set k' v' d x : In x (map fst (dict_set k' v' d)) <-> x = k' \/ In x (map fst d).
  Proof.
    induction d as [|[k0 v0] d IH]; simpl.
    - split; [intros [H|[]]; left; symmetry; exact H | intros [H|[]]; left; symmetry; exact H].
    - destruct (str_eqb k' k0) eqn:E; simpl.
      + apply str_eqb_eq in E. subst k0. split; [intros [H|H]; auto | intros [H|[H|H]]; auto].
      + rewrite IH. split; [intros [H|[H|H]]; auto | intros [H|[H|H]]; auto].
  Qed.

  Lemma dict_set_fresh k v d : ~ In k (map fst d) -> dict_set k v d = d ++ [(k, v)].
  Proof.
    induction d as [|[k0 v0] d IH]; simpl; intro H; [reflexivity|].
    destruct (str_eqb k k0) eqn:E.
    - apply str_eqb_eq in E. subst. exfalso. apply H. left. reflexivity.
    - rewrite IH; [reflexivity|]. intro Hin. apply H. right. exact Hin.
  Qed.

  Definition dict_fold (l : list (str * V)) (acc : dict V) : dict V :=
    fold_left (fun d kv => dict_set (fst kv) (snd kv) d) l acc.

  Lemma in_dict_fold l : forall acc k v, In (k, v) (dict_fold l acc) -> In (k, v) acc \/ In (k, v) l.
  Proof.
    induction l as [|[k0 v0] l IH]; intros acc k v H; simpl in H; [left; exact H|].
    destruct (IH _ _ _ H) as [H'|H']; [|right; right; exact H'].
    simpl in H'. destruct (in_dict_set _ _ _ _ _ H') as [E|E]; [right; left; symmetry; exact E | left; exact E].
  Qed.

  Lemma keys_dict_fold l : forall acc x,
      In x (map fst (dict_fold l acc)) <-> In x (map fst acc) \/ In x (map fst l).
  Proof.
    induction l as [|[k0 v0] l IH]; intros acc x; simpl.
    - tauto.
    - unfold dict_fold in IH. rewrite IH. simpl. rewrite keys_dict_set. split.
      + intros [[H|H]|H]; auto.
      + intros [H|[H|H]]; auto.
  Qed.

  Lemma dict_fold_nodup l : forall acc,
      NoDup (map fst l) -> (forall x, In x (map fst l) -> ~ In x (map fst acc)) ->
      dict_fold l acc = acc ++ l.
  Proof.
    induction l as [|[k0 v0] l IH]; intros acc Hnd Hdis; simpl.
    - rewrite app_nil_r. reflexivity.
    - simpl in Hnd. inversion Hnd as [|k0' l' Hnotin Hnd']; subst.
      rewrite dict_set_fresh by (apply Hdis; left; reflexivity).
      unfold dict_fold in IH. rewrite IH.
      + rewrite <- app_assoc. reflexivity.
      + exact Hnd'.
      + intros x Hx Hin. rewrite map_app in Hin. apply in_app_or in Hin. destruct Hin as [Hin|Hin].
        * apply (Hdis x); [right; exact Hx | exact Hin].
        * simpl in Hin. destruct Hin as [<-|[]]. contradiction.
  Qed.

  Theorem in_dict_of (l : list (str * V)) k v : In (k, v) (dict_of l) -> In (k, v) l.
  Proof.
    intro H. destruct (in_dict_fold l [] k v H) as [[]|H']. exact H'.
  Qed.

  Theorem dict_of_nodup (l : list (str * V)) : NoDup (map fst l) -> dict_of l = l.
  Proof.
    intro H. unfold dict_of. change (dict_fold l [] = l). rewrite dict_fold_nodup; auto.
  Qed.

  Theorem keys_dict_of (l : list (str * V)) x : In x (map fst (dict_of l)) <-> In x (map fst l).
  Proof.
    unfold dict_of. change (In x (map fst (dict_fold l [])) <-> In x (map fst l)).
    rewrite keys_dict_fold. simpl. tauto.
  Qed.
End DictFacts.

(* ------------------------------------------------------------------ staged locations *)
(* [actual] (what the installer writes to) is the location [final] (what intro-installed.json
   says) inside the staging directory [dd]; dd = "" is an install to the real prefix *)
Definition staged (dd final actual : str) : Prop := comps actual = comps dd ++ comps final.

Section Staging.
  Variable destdir_opt : option str.
  Variable d : install_data.
  Hypothesis prefix_abs : isabs (d_prefix d) = true.

  Let dd := eff_destdir destdir_opt d.
  Let G := gdp destdir_opt d.

  Lemma gdp_staged p : staged dd (join2 (d_prefix d) p) (G p).
  Proof.
    unfold staged, G, gdp, fullprefix. fold dd. destruct dd as [|c r] eqn:E.
    - rewrite get_destdir_path_nodestdir. reflexivity.
    - apply comps_get_destdir_path; [discriminate | exact prefix_abs].
  Qed.

  Lemma gdp_nodestdir p : dd = [] -> G p = join2 (d_prefix d) p.
  Proof.
    intro E. unfold G, gdp, fullprefix. fold dd. rewrite E. apply get_destdir_path_nodestdir.
  Qed.

  (* data, man pages, subdirectories: mintro.py:60,64,66 vs minstall.py:654,675,643 *)
  Theorem plain_staged (i : base_i) :
    staged dd (snd (installed_plain d i)) (G (b_install_path i)).
  Proof. apply gdp_staged. Qed.

  (* headers: mintro.py:62 vs minstall.py:698-701 *)
  Theorem header_staged (i : base_i) :
    staged dd (snd (installed_header d i)) (join2 (G (b_install_path i)) (basename (b_path i))).
  Proof.
    unfold staged. simpl. unfold pjoin. simpl.
    rewrite !comps_join2 by apply basename_not_abs.
    rewrite gdp_staged, app_assoc. reflexivity.
  Qed.

  (* targets: mintro.py:57-58 vs minstall.py:767-768 *)
  Theorem target_staged (t : target_i) :
    staged dd (snd (installed_target d t)) (join2 (G (t_outdir t)) (basename (t_fname t))).
  Proof.
    unfold staged. simpl. unfold pjoin. simpl.
    rewrite !comps_join2 by apply basename_not_abs.
    rewrite gdp_staged, app_assoc. reflexivity.
  Qed.

  (* symlinks: mintro.py:68-69 vs minstall.py:665, for entries whose name is
     join(install_path, <file name>) — what generate_symlink_install and the shared-library
     aliases produce (gen_symlink_wf below) *)
  Definition symlink_wf (s : symlink_i) : Prop :=
    l_name s = join2 (l_install_path s) (basename (l_name s)).

  Lemma comps_join2_assoc a b c :
    isabs c = false -> comps (join2 a (join2 b c)) = comps (join2 (join2 a b) c).
  Proof.
    intro Hc. destruct (isabs b) eqn:Hb.
    - rewrite (join2_abs a b Hb). rewrite (join2_abs a (join2 b c)); [reflexivity|].
      apply isabs_join2. exact Hb.
    - rewrite (comps_join2 (join2 a b) c Hc), (comps_join2 a b Hb).
      destruct b as [|y b].
      + assert (E : join2 [] c = c) by (unfold join2; rewrite Hc; reflexivity).
        rewrite E, (comps_join2 a c Hc), comps_nil, app_nil_r. reflexivity.
      + assert (Hr : isabs (join2 (y :: b) c) = false).
        { rewrite isabs_join2_rel; [exact Hb | exact Hc | discriminate]. }
        rewrite (comps_join2 a _ Hr), (comps_join2 _ c Hc), app_assoc. reflexivity.
  Qed.

  Theorem symlink_staged (s : symlink_i) :
    symlink_wf s -> staged dd (snd (installed_symlink d s)) (G (l_name s)).
  Proof.
    intro Hwf. unfold symlink_wf in Hwf. pose proof (gdp_staged (l_name s)) as Hg. unfold staged in *. rewrite Hg. f_equal.
    simpl. unfold pjoin. simpl.
    rewrite Hwf at 1. apply comps_join2_assoc. apply basename_not_abs.
  Qed.

  (* without a staging directory the installer writes to the very string intro-installed.json
     shows (data, man, subdirs, headers, targets) *)
  Theorem plain_exact (i : base_i) : dd = [] -> G (b_install_path i) = snd (installed_plain d i).
  Proof. intro E. rewrite (gdp_nodestdir _ E). reflexivity. Qed.
  Theorem header_exact (i : base_i) :
    dd = [] -> join2 (G (b_install_path i)) (basename (b_path i)) = snd (installed_header d i).
  Proof. intro E. rewrite (gdp_nodestdir _ E). reflexivity. Qed.
  Theorem target_exact (t : target_i) :
    dd = [] -> join2 (G (t_outdir t)) (basename (t_fname t)) = snd (installed_target d t).
  Proof. intro E. rewrite (gdp_nodestdir _ E). reflexivity. Qed.
End Staging.

(* ------------------------------------------------------------------ named <-> installed *)
Definition all_exist (file_exists : str -> bool) (d : install_data) : Prop :=
  forall t, In t (d_targets d) -> file_exists (t_fname t) = true.

Lemma should_install_all sp tag : should_install [] [] sp tag = true.
Proof. unfold should_install. simpl. rewrite andb_false_r. reflexivity. Qed.

Lemma filter_true {A} (f : A -> bool) l : (forall x, f x = true) -> filter f l = l.
Proof.
  intro H. induction l as [|x l IH]; simpl; [reflexivity|]. rewrite H, IH. reflexivity.
Qed.

Section Unfiltered.
  Variable destdir_opt : option str.
  Variable file_exists : str -> bool.
  Variable d : install_data.

  Let G := gdp destdir_opt d.
  Definition target_action (t : target_i) : action :=
    {| a_kind := KTarget; a_id := join2 (d_build_dir d) (t_fname t); a_src := t_fname t; a_dst := join2 (G (t_outdir t)) (basename (t_fname t)) |}.

  Lemma act_targets_all ts :
    (forall t, In t ts -> file_exists (t_fname t) = true) ->
    act_targets destdir_opt [] [] file_exists d ts = Ok (map target_action ts).
  Proof.
    induction ts as [|t ts IH]; intro H; simpl; [reflexivity|].
    rewrite should_install_all. simpl. rewrite (H t (or_introl eq_refl)). simpl.
    rewrite IH by (intros t' Ht'; apply H; right; exact Ht'). reflexivity.
  Qed.

  Lemma do_install_all :
    all_exist file_exists d ->
    do_install destdir_opt [] [] file_exists d =
    Ok (map (fun i => {| a_kind := KSubdir; a_id := b_path i; a_src := b_path i; a_dst := G (b_install_path i) |}) (d_subdirs d) ++
        map target_action (d_targets d) ++
        map (fun i => {| a_kind := KHeader; a_id := b_path i; a_src := b_path i;
                         a_dst := join2 (G (b_install_path i)) (basename (b_path i)) |}) (d_headers d) ++
        map (fun i => {| a_kind := KMan; a_id := b_path i; a_src := b_path i; a_dst := G (b_install_path i) |}) (d_man d) ++
        map (fun e => {| a_kind := KEmptydir; a_id := e_path e; a_src := []; a_dst := G (e_path e) |}) (d_emptydir d) ++
        map (fun i => {| a_kind := KData; a_id := b_path i; a_src := b_path i; a_dst := G (b_install_path i) |}) (d_data d) ++
        map (fun s => {| a_kind := KSymlink; a_id := basename (l_name s); a_src := l_target s; a_dst := G (l_name s) |}) (d_symlinks d)).
  Proof.
    intro H. unfold do_install. rewrite act_targets_all by exact H.
    unfold act_subdirs, act_headers, act_man, act_emptydirs, act_data, act_symlinks, sel_base.
    rewrite !filter_true by (intros; apply should_install_all). reflexivity.
  Qed.
End Unfiltered.

Definition symlinks_wf (d : install_data) : Prop := forall s, In s (d_symlinks d) -> symlink_wf s.


(* ------------------------------------------------------------------ named <-> installed *)
Section NamedInstalled.
  Variable destdir_opt : option str.
  Variable file_exists : str -> bool.
  Variable d : install_data.
  Hypothesis prefix_abs : isabs (d_prefix d) = true.
  Hypothesis sym_wf : symlinks_wf d.
  Hypothesis built : all_exist file_exists d.

  Let dd := eff_destdir destdir_opt d.
  Let G := gdp destdir_opt d.

  (* every assignment of list_installed next to the installer action for the same entry *)
  Definition entry_pairs : list ((str * str) * action) :=
    map (fun t => (installed_target d t, target_action destdir_opt d t)) (d_targets d) ++
    map (fun i => (installed_plain d i,
                   {| a_kind := KData; a_id := b_path i; a_src := b_path i; a_dst := G (b_install_path i) |})) (d_data d) ++
    map (fun i => (installed_header d i,
                   {| a_kind := KHeader; a_id := b_path i; a_src := b_path i;
                      a_dst := join2 (G (b_install_path i)) (basename (b_path i)) |})) (d_headers d) ++
    map (fun i => (installed_plain d i,
                   {| a_kind := KMan; a_id := b_path i; a_src := b_path i; a_dst := G (b_install_path i) |})) (d_man d) ++
    map (fun i => (installed_plain d i,
                   {| a_kind := KSubdir; a_id := b_path i; a_src := b_path i; a_dst := G (b_install_path i) |})) (d_subdirs d) ++
    map (fun s => (installed_symlink d s,
                   {| a_kind := KSymlink; a_id := basename (l_name s); a_src := l_target s; a_dst := G (l_name s) |})) (d_symlinks d).

  Lemma entry_pairs_fst : map fst entry_pairs = installed_assignments d.
  Proof.
    unfold entry_pairs, installed_assignments. rewrite !map_app, !map_map. simpl.
    repeat (f_equal; try (apply map_ext; intros; reflexivity)).
  Qed.

  Lemma entry_pairs_ok kv a :
    In (kv, a) entry_pairs -> a_id a = fst kv /\ a_kind a <> KEmptydir /\ staged dd (snd kv) (a_dst a).
  Proof.
    unfold entry_pairs. rewrite !in_app_iff, !in_map_iff.
    intros [[t [E Ht]]|[[i [E Hi]]|[[i [E Hi]]|[[i [E Hi]]|[[i [E Hi]]|[s [E Hs]]]]]]];
      inversion E; subst; clear E; simpl; (split; [reflexivity|]); (split; [discriminate|]).
    - apply target_staged. exact prefix_abs.
    - apply plain_staged. exact prefix_abs.
    - apply header_staged. exact prefix_abs.
    - apply plain_staged. exact prefix_abs.
    - apply plain_staged. exact prefix_abs.
    - apply symlink_staged; [exact prefix_abs | apply sym_wf; exact Hs].
  Qed.

  Lemma entry_pairs_snd acts :
    do_install destdir_opt [] [] file_exists d = Ok acts ->
    forall a, In a (map snd entry_pairs) <-> (In a acts /\ a_kind a <> KEmptydir).
  Proof.
    intros H a. rewrite (do_install_all destdir_opt file_exists d built) in H.
    inversion H; subst acts; clear H.
    unfold entry_pairs. rewrite !map_app, !map_map. simpl. rewrite !in_app_iff, !in_map_iff.
    fold G. split.
    - intros [[t [E Ht]]|[[i [E Hi]]|[[i [E Hi]]|[[i [E Hi]]|[[i [E Hi]]|[s [E Hs]]]]]]];
        subst a; (split; [|discriminate]).
      + right; left. exists t. split; [reflexivity | exact Ht].
      + do 5 right; left. exists i. split; [reflexivity | exact Hi].
      + do 2 right; left. exists i. split; [reflexivity | exact Hi].
      + do 3 right; left. exists i. split; [reflexivity | exact Hi].
      + left. exists i. split; [reflexivity | exact Hi].
      + do 6 right. exists s. split; [reflexivity | exact Hs].
    - intros [[[i [E Hi]]|[[t [E Ht]]|[[i [E Hi]]|[[i [E Hi]]|[[e [E He]]|[[i [E Hi]]|[s [E Hs]]]]]]]] Hk];
        subst a.
      + do 4 right; left. exists i. split; [reflexivity | exact Hi].
      + left. exists t. split; [reflexivity | exact Ht].
      + do 2 right; left. exists i. split; [reflexivity | exact Hi].
      + do 3 right; left. exists i. split; [reflexivity | exact Hi].
      + exfalso. apply Hk. reflexivity.
      + right; left. exists i. split; [reflexivity | exact Hi].
      + do 5 right. exists s. split; [reflexivity | exact Hs].
  Qed.

  (* "and nothing that is not installed": whatever intro-installed.json names, the installer
     puts exactly there (inside the staging directory) *)
  Theorem named_is_installed acts k v :
    do_install destdir_opt [] [] file_exists d = Ok acts ->
    In (k, v) (list_installed d) ->
    exists a, In a acts /\ a_kind a <> KEmptydir /\ a_id a = k /\ staged dd v (a_dst a).
  Proof.
    intros Hacts Hin. apply in_dict_of in Hin. rewrite <- entry_pairs_fst in Hin.
    apply in_map_iff in Hin. destruct Hin as [[kv a] [E Hp]]. simpl in E. subst kv.
    destruct (entry_pairs_ok _ _ Hp) as [Hid [Hk Hst]]. simpl in Hid, Hst.
    exists a. split; [|auto].
    apply (entry_pairs_snd acts Hacts a). apply in_map_iff. exists ((k, v), a). auto.
  Qed.

  (* "name every installed target, header, man page, data file and subdirectory": holds when
     no two entries share a key ... *)
  Theorem installed_is_named_partial acts a :
    NoDup (map fst (installed_assignments d)) ->
    do_install destdir_opt [] [] file_exists d = Ok acts ->
    In a acts -> a_kind a <> KEmptydir ->
    exists v, In (a_id a, v) (list_installed d) /\ staged dd v (a_dst a).
  Proof.
    intros Hnd Hacts Hin Hk.
    assert (Hs : In a (map snd entry_pairs)) by (apply (entry_pairs_snd acts Hacts a); auto).
    apply in_map_iff in Hs. destruct Hs as [[[k v] a'] [E Hp]]. simpl in E. subst a'.
    destruct (entry_pairs_ok _ _ Hp) as [Hid [_ Hst]]. simpl in Hid, Hst.
    exists v. split; [|exact Hst].
    unfold list_installed. rewrite (dict_of_nodup _ Hnd). rewrite <- entry_pairs_fst.
    apply in_map_iff. exists ((k, v), a). rewrite Hid. auto.
  Qed.
End NamedInstalled.

(* ... and fails otherwise: intro-installed.json is keyed by source path, so a file installed
   to two places is named once *)
Definition dup_data (n : str) : base_i :=
  {| b_path := s2l "/s/d0.txt"; b_install_path := n; b_install_path_name := n;
     b_subproject := []; b_tag := None; b_data_type := None; b_excl_files := []; b_excl_dirs := [] |}.
Definition witness_dup : install_data :=
  {| d_source_dir := s2l "/s"; d_build_dir := s2l "/b"; d_prefix := s2l "/usr";
     d_targets := []; d_headers := []; d_man := []; d_emptydir := [];
     d_data := [dup_data (s2l "share/a/d0.txt"); dup_data (s2l "share/b/d0.txt")];
     d_symlinks := []; d_subdirs := [] |}.

Theorem installed_is_named_refuted :
  exists d acts a,
    isabs (d_prefix d) = true /\ symlinks_wf d /\
    do_install None [] [] (fun _ => true) d = Ok acts /\ In a acts /\ a_kind a = KData /\
    forall v, In (a_id a, v) (list_installed d) -> ~ staged [] v (a_dst a).
Proof.
  exists witness_dup.
  eexists. exists {| a_kind := KData; a_id := s2l "/s/d0.txt"; a_src := s2l "/s/d0.txt"; a_dst := s2l "/usr/share/a/d0.txt" |}.
  split; [reflexivity|]. split; [intros s []|]. split; [vm_compute; reflexivity|].
  split; [left; reflexivity|]. split; [reflexivity|].
  intros v Hin. vm_compute in Hin. destruct Hin as [Hin|[]]. inversion Hin; subst v.
  unfold staged. vm_compute. discriminate.
Qed.

(* ------------------------------------------------------------------ tags *)
Theorem should_install_tags sel sp tag :
  sel <> [] -> (should_install [] sel sp tag = true <-> exists t, tag = Some t /\ In t sel).
Proof.
  intro Hne. unfold should_install. simpl. rewrite andb_false_r.
  destruct sel as [|s sel]; [congruence|]. destruct tag as [t|].
  - split.
    + intro H. exists t. split; [reflexivity|].
      simpl in H. apply orb_true_iff in H. destruct H as [H|H].
      * left. apply str_eqb_eq in H. congruence.
      * right. clear -H. induction sel as [|y sel IH]; simpl in *; [discriminate|].
        apply orb_true_iff in H. destruct H as [H|H]; [left; apply str_eqb_eq in H; congruence | right; auto].
    + intros [t' [E H]]. inversion E; subst t'. clear E.
      revert H. generalize (s :: sel). intro l. induction l as [|y l IH]; simpl; [intros []|].
      intros [->|H]; [rewrite str_eqb_refl; reflexivity | rewrite IH by exact H; apply orb_true_r].
  - split; [discriminate | intros [t [E _]]; discriminate].
Qed.

(* the tag intro-install_plan.json shows is the tag `meson install --tags` selects on *)
Theorem plan_tag_is_installer_tag key i sel :
  sel <> [] -> b_tag i <> Some [] ->
  (should_install [] sel (b_subproject i) (b_tag i) = true <->
   exists t, pe_tag (snd (plan_item key i)) = Some t /\ In t sel).
Proof.
  intros Hne Ht. rewrite (should_install_tags sel _ _ Hne).
  unfold plan_item. simpl. destruct (b_tag i) as [[|c r]|]; simpl; [exfalso; apply Ht; reflexivity | tauto | tauto].
Qed.

Theorem plan_target_tag_is_installer_tag d t sel :
  sel <> [] -> t_tag t <> Some [] ->
  (should_install [] sel (t_subproject t) (t_tag t) = true <->
   exists g, pe_tag (snd (plan_target d t)) = Some g /\ In g sel).
Proof.
  intros Hne Ht. rewrite (should_install_tags sel _ _ Hne).
  unfold plan_target. simpl. destruct (t_tag t) as [[|c r]|]; simpl; [exfalso; apply Ht; reflexivity | tauto | tauto].
Qed.

(* a selection only removes actions *)
Lemma act_targets_incl destdir_opt skip tags fe d ts : forall l l0,
  act_targets destdir_opt skip tags fe d ts = Ok l ->
  act_targets destdir_opt [] [] fe d ts = Ok l0 -> incl l l0.
Proof.
  induction ts as [|t ts IH]; intros l l0 H H0; simpl in *.
  - inversion H; subst. intros x [].
  - rewrite should_install_all in H0. simpl in H0.
    destruct (fe (t_fname t)) eqn:Ef; simpl in H0.
    + destruct (act_targets destdir_opt [] [] fe d ts) as [l0'|] eqn:E0; [|discriminate].
      inversion H0; subst l0. clear H0.
      destruct (should_install skip tags (t_subproject t) (t_tag t)); simpl in H.
      * simpl in H.
        destruct (act_targets destdir_opt skip tags fe d ts) as [l'|] eqn:E1; [|discriminate].
        inversion H; subst l. intros x [<-|Hx]; [left; reflexivity | right; exact (IH _ _ eq_refl eq_refl x Hx)].
      * intros x Hx. right. exact (IH _ _ H eq_refl x Hx).
    + destruct (t_optional t); [|discriminate].
      destruct (should_install skip tags (t_subproject t) (t_tag t)); simpl in H.
      * simpl in H. exact (IH _ _ H H0).
      * exact (IH _ _ H H0).
Qed.

Lemma incl_map_filter {A B} (f : A -> B) p q l :
  (forall x, q x = true) -> incl (map f (filter p l)) (map f (filter q l)).
Proof.
  intros Hq x Hx. apply in_map_iff in Hx. destruct Hx as [y [E Hy]]. apply filter_In in Hy.
  apply in_map_iff. exists y. split; [exact E|]. apply filter_In. split; [apply Hy | apply Hq].
Qed.

Theorem selection_only_removes destdir_opt skip tags fe d acts acts0 :
  do_install destdir_opt skip tags fe d = Ok acts ->
  do_install destdir_opt [] [] fe d = Ok acts0 -> incl acts acts0.
Proof.
  unfold do_install. intros H H0.
  destruct (act_targets destdir_opt skip tags fe d (d_targets d)) as [ts|] eqn:E; [|discriminate].
  destruct (act_targets destdir_opt [] [] fe d (d_targets d)) as [ts0|] eqn:E0; [|discriminate].
  inversion H; subst acts. inversion H0; subst acts0. clear H H0.
  pose proof (act_targets_incl _ _ _ _ _ _ _ _ E E0) as Ht.
  unfold act_subdirs, act_headers, act_man, act_emptydirs, act_data, act_symlinks, sel_base.
  repeat (apply incl_app_app; [try exact Ht; try (apply incl_map_filter; intros; apply should_install_all)|]);
    try (apply incl_map_filter; intros; apply should_install_all).
Qed.

(* ------------------------------------------------------------------ plan keys *)
Definition plan_keys (p : plan_t) : list str := flat_map (fun s => map fst (snd s)) p.

Lemma plan_add_unfold key p i :
  plan_add key p i =
  dict_set (plan_section key i)
           (dict_set (b_path i) (snd (plan_item key i))
                     (match dict_get (plan_section key i) p with Some c => c | None => [] end)) p.
Proof. reflexivity. Qed.

Lemma plan_add_keys key i x : forall p,
  In x (plan_keys (plan_add key p i)) <-> x = b_path i \/ In x (plan_keys p).
Proof.
  intro p. rewrite plan_add_unfold.
  generalize (plan_section key i) as sec. generalize (snd (plan_item key i)) as e. intros e sec.
  induction p as [|[s0 c0] p IH]; simpl.
  - split; [intros [H|[]]; left; symmetry; exact H | intros [H|[]]; left; symmetry; exact H].
  - destruct (str_eqb sec s0) eqn:E; simpl.
    + rewrite !in_app_iff, keys_dict_set. tauto.
    + rewrite !in_app_iff. unfold plan_keys in IH. rewrite IH. tauto.
Qed.

Lemma plan_fold_keys key l x : forall p,
  In x (plan_keys (fold_left (plan_add key) l p)) <-> In x (map b_path l) \/ In x (plan_keys p).
Proof.
  induction l as [|i l IH]; intro p; simpl; [tauto|].
  rewrite IH, plan_add_keys. split; [intros [H|[H|H]]; auto | intros [[H|H]|H]; auto].
Qed.

(* intro-install_plan.json and intro-installed.json name the same sources (the latter also
   lists symlinks, by link name) *)
Theorem plan_names_what_installed_names d x :
  In x (map fst (list_installed d)) <->
  In x (plan_keys (list_install_plan d)) \/ In x (map (fun s => basename (l_name s)) (d_symlinks d)).
Proof.
  unfold list_installed. rewrite keys_dict_of. unfold installed_assignments.
  rewrite !map_app, !map_map, !in_app_iff. simpl.
  unfold list_install_plan. rewrite !plan_fold_keys. simpl. rewrite app_nil_r.
  rewrite keys_dict_of, map_map. simpl.
  assert (E : forall (l : list base_i), map (fun x0 => b_path x0) l = map b_path l) by reflexivity.
  rewrite !E. tauto.
Qed.

(* ------------------------------------------------------------------ placeholders *)
(* a plan destination is a path whose first component may be a placeholder {name}; it denotes
   the location obtained by putting the directory's value in its place *)
Arguments join2 : simpl never.
Arguments s2l : simpl never.
Arguments comps : simpl never.
Arguments basename : simpl never.
Arguments str_eqb : simpl never.

Definition resolve_first (ph val : str) (cs : list str) : list str :=
  match cs with
  | c :: r => if str_eqb c ph then comps val ++ r else cs
  | [] => []
  end.

Lemma comps_ph_join ph x : clean ph -> isabs x = false -> comps (join2 ph x) = ph :: comps x.
Proof. intros Hc Hx. rewrite (comps_join2 _ _ Hx), (comps_of_clean _ Hc). reflexivity. Qed.

Lemma clean_includedir : clean (s2l "{includedir}").
Proof. split; [vm_compute; intuition discriminate | reflexivity]. Qed.
Lemma clean_prefix_ph : clean (s2l "{prefix}").
Proof. split; [vm_compute; intuition discriminate | reflexivity]. Qed.

(* headers installed under includedir (backends.py:1963-1971): the plan destination with
   {includedir} resolved is the location intro-installed.json shows *)
Theorem header_plan_resolves d incroot h i :
  hb_custom_install_dir h = None ->
  (forall sd, hb_install_subdir h = Some sd -> isabs sd = false) ->
  In i (gen_header incroot h) ->
  resolve_first (s2l "{includedir}") (join2 (d_prefix d) incroot)
                (comps (pe_destination (snd (plan_item KEY_HEADERS i)))) =
  comps (snd (installed_header d i)).
Proof.
  intros Hc Hsd Hin. unfold gen_header in Hin. rewrite Hc in Hin.
  unfold plan_item. simpl. rewrite !(comps_join2 _ (basename (b_path i))) by apply basename_not_abs.
  destruct (hb_install_subdir h) as [sd|] eqn:Es.
  - apply in_map_iff in Hin. destruct Hin as [f [<- _]]. simpl.
    specialize (Hsd sd eq_refl).
    rewrite (comps_ph_join _ _ clean_includedir Hsd). simpl.
    rewrite comps_join2_assoc by exact Hsd. rewrite (comps_join2 _ sd Hsd), <- app_assoc. reflexivity.
  - apply in_map_iff in Hin. destruct Hin as [f [<- _]]. simpl.
    reflexivity.
Qed.

(* headers with install_dir: the plan destination is the directory as given; relative to the
   prefix it is the location intro-installed.json shows *)
Theorem header_plan_custom d incroot h i c :
  hb_custom_install_dir h = Some c -> In i (gen_header incroot h) ->
  comps (join2 (d_prefix d) (pe_destination (snd (plan_item KEY_HEADERS i)))) =
  comps (snd (installed_header d i)).
Proof.
  intros Hc Hin. unfold gen_header in Hin. rewrite Hc in Hin.
  apply in_map_iff in Hin. destruct Hin as [f [<- _]].
  unfold plan_item. simpl.
  apply comps_join2_assoc. apply basename_not_abs.
Qed.

(* targets with the default "{prefix}/<outdir>" name (TargetInstallData.__post_init__) *)
Theorem target_plan_resolves d fname outdir sp tag opt :
  isabs outdir = false ->
  let t := mk_target fname outdir None sp tag opt in
  resolve_first (s2l "{prefix}") (d_prefix d) (comps (pe_destination (snd (plan_target d t)))) =
  comps (snd (installed_target d t)).
Proof.
  intros Ho t. unfold t, mk_target, plan_target. simpl. unfold pjoin. simpl.
  rewrite !(comps_join2 _ (basename fname)) by apply basename_not_abs.
  rewrite (comps_ph_join _ _ clean_prefix_ph Ho). simpl.
  rewrite (comps_join2 _ outdir Ho), <- app_assoc. reflexivity.
Qed.

(* ------------------------------------------------------------------ symlink names *)
Lemma basename_join2_name dir name : ~ In SLASH name -> basename (join2 dir name) = name.
Proof.
  intro Hn.
  assert (Hb : basename name = name) by (unfold basename; rewrite (split_on_noc _ _ Hn); reflexivity).
  assert (Hs : forall a, basename (a ++ SLASH :: name) = name).
  { intro a. unfold basename. rewrite split_on_app, (split_on_noc _ _ Hn).
    rewrite last_last. reflexivity. }
  assert (Hrel : isabs name = false).
  { destruct name as [|c r]; [reflexivity|]. simpl. destruct (c =? SLASH) eqn:E; [|reflexivity].
    apply N.eqb_eq in E. exfalso. apply Hn. left. exact E. }
  unfold join2. rewrite Hrel. destruct dir as [|x dir]; [exact Hb|].
  destruct (ends_slash (x :: dir)) eqn:E.
  - destruct (ends_slash_inv _ E) as [a' ->]. rewrite <- app_assoc. apply Hs.
  - apply Hs.
Qed.

(* generate_symlink_install (and the alias code, which builds the same shape) produces
   entries satisfying the side condition of symlink_staged; SymlinkData.__post_init__
   (build.py:3627-3630) rejects names with a path separator *)
Theorem gen_symlink_wf guess l : ~ In SLASH (sb_name l) -> symlink_wf (gen_symlink guess l).
Proof.
  intro H. unfold symlink_wf, gen_symlink. simpl. rewrite (basename_join2_name _ _ H). reflexivity.
Qed.

(* ------------------------------------------------------------------ tests *)
(* the command line intro-tests.json shows is the one mtest executes *)
Theorem test_cmd_agrees t : ti_cmd (get_test_list1 t) = mtest_cmd t.
Proof. reflexivity. Qed.

Lemma dict_get_none {V} (d : dict V) k : ~ In k (map fst d) -> dict_get k d = None.
Proof.
  induction d as [|[k0 v0] d IH]; simpl; intro H; [reflexivity|].
  destruct (str_eqb k k0) eqn:E.
  - apply str_eqb_eq in E. subst. exfalso. apply H. left. reflexivity.
  - apply IH. intro Hin. apply H. right. exact Hin.
Qed.

Lemma nodup_dict_set {V} (d : dict V) k v : NoDup (map fst d) -> NoDup (map fst (dict_set k v d)).
Proof.
  induction d as [|[k0 v0] d IH]; simpl; intro H.
  - constructor; [intros [] | constructor].
  - inversion H as [|x l Hnotin Hnd]; subst.
    destruct (str_eqb k k0) eqn:E; simpl.
    + apply str_eqb_eq in E. subst k0. constructor; assumption.
    + constructor; [|apply IH; exact Hnd].
      intro Hin. apply keys_dict_set in Hin. destruct Hin as [Hin|Hin]; [|contradiction].
      subst k0. rewrite str_eqb_refl in E. discriminate.
Qed.

Lemma dict_get_update (b : dict str) : forall (a : dict str) k,
  NoDup (map fst b) ->
  dict_get k (dict_update a b) = match dict_get k b with Some v => Some v | None => dict_get k a end.
Proof.
  unfold dict_update. induction b as [|[k0 v0] b IH]; intros a k Hnd; simpl; [reflexivity|].
  simpl in Hnd. inversion Hnd as [|x l Hnotin Hnd']; subst.
  rewrite IH by exact Hnd'. rewrite dict_get_set.
  destruct (str_eqb k k0) eqn:E; [|reflexivity].
  apply str_eqb_eq in E. subst k0. rewrite (dict_get_none b k Hnotin). reflexivity.
Qed.

Definition touched (ev : envvars) : list str := map (fun o => snd (fst (fst o))) (ev_ops ev).

Lemma env_apply_nodup e o : NoDup (map fst e) -> NoDup (map fst (env_apply e o)).
Proof. destruct o as [[[op name] values] sep]. simpl. apply nodup_dict_set. Qed.

Lemma env_fold_nodup ops : forall e, NoDup (map fst e) -> NoDup (map fst (fold_left env_apply ops e)).
Proof.
  induction ops as [|o ops IH]; intros e H; simpl; [exact H|]. apply IH. apply env_apply_nodup. exact H.
Qed.

(* running the operations on the real environment and on the empty one (what mintro does)
   gives the same bindings for the variables the operations touch, provided the real
   environment does not already define them *)
Lemma env_fold_inv (base : dict str) ops : forall e1 e2,
  (forall k, dict_get k e1 = match dict_get k e2 with Some v => Some v | None => dict_get k base end) ->
  (forall o, In o ops -> dict_get (snd (fst (fst o))) base = None) ->
  forall k, dict_get k (fold_left env_apply ops e1) =
            match dict_get k (fold_left env_apply ops e2) with Some v => Some v | None => dict_get k base end.
Proof.
  induction ops as [|o ops IH]; intros e1 e2 Hinv Hbase k; simpl; [apply Hinv|].
  apply IH; [|intros o' Ho'; apply Hbase; right; exact Ho'].
  intro k'. destruct o as [[[op name] values] sep].
  assert (Hcur : dict_get name e1 = dict_get name e2).
  { rewrite Hinv. destruct (dict_get name e2); [reflexivity|].
    apply (Hbase (op, name, values, sep)). left. reflexivity. }
  unfold env_apply. rewrite Hcur. rewrite !dict_get_set.
  destruct (str_eqb k' name); [reflexivity | apply Hinv].
Qed.

(* intro-tests.json lists the environment `meson test` uses: every variable it shows has that
   value in the test's environment, and every other variable is inherited unchanged *)
Theorem test_env_agrees t (os_environ : dict str) k :
  NoDup (map fst os_environ) ->
  ev_unset (ts_env t) = [] ->
  (forall n, In n (touched (ts_env t)) -> dict_get n os_environ = None) ->
  k <> s2l "MESON_TEST_ITERATION" ->
  dict_get k (mtest_env t os_environ) =
  match dict_get k (ti_env (get_test_list1 t)) with
  | Some v => Some v
  | None => dict_get k os_environ
  end.
Proof.
  intros Hnd Hun Htouch Hk. unfold mtest_env. rewrite dict_get_set.
  destruct (str_eqb k (s2l "MESON_TEST_ITERATION")) eqn:E; [apply str_eqb_eq in E; contradiction|].
  unfold get_test_list1, get_env. simpl. rewrite Hun. simpl.
  rewrite dict_get_update by (apply env_fold_nodup; exact Hnd).
  assert (H := env_fold_inv os_environ (ev_ops (ts_env t)) os_environ []).
  rewrite H.
  - destruct (dict_get k (fold_left env_apply (ev_ops (ts_env t)) [])); [reflexivity|].
    destruct (dict_get k os_environ); reflexivity.
  - intro k'. reflexivity.
  - intros o Ho. apply Htouch. unfold touched.
    apply (in_map (fun o0 => snd (fst (fst o0)))). exact Ho.
Qed.

(* ------------------------------------------------------------------ more placeholder facts *)
(* man pages (backends.py:1996-2000): the installed path IS the plan name with every
   {mandir} replaced by the mandir option *)
Theorem man_plan_resolves manroot m f :
  b_install_path (gen_man1 manroot m f) = replace MANDIR manroot (b_install_path_name (gen_man1 manroot m f)).
Proof. destruct f as [fname srcabs]. reflexivity. Qed.

(* install_subdir with a literal relative install_dir (backends.py:2046-2056): the plan name is
   {prefix}/<dir>[/<basename>] and resolves to the installed directory *)
Theorem subdir_plan_resolves guess prefix sd :
  isabs prefix = true ->
  sdb_install_dir sd = sdb_install_dir_name sd -> isabs (sdb_install_dir sd) = false ->
  let i := gen_subdir guess prefix sd in
  resolve_first (s2l "{prefix}") prefix (comps (b_install_path_name i)) = comps (b_install_path i).
Proof.
  intros Hp He Hrel i. unfold i, gen_subdir. rewrite <- He, str_eqb_refl.
  set (src_dir := rstrip_slash _).
  destruct (sdb_strip_directory sd); simpl.
  - rewrite (comps_ph_join _ _ clean_prefix_ph Hrel). unfold resolve_first. rewrite str_eqb_refl.
    rewrite (comps_join2 _ _ Hrel). reflexivity.
  - rewrite !(comps_join2 _ (basename src_dir)) by apply basename_not_abs.
    rewrite (comps_ph_join _ _ clean_prefix_ph Hrel). cbn [app]. unfold resolve_first. rewrite str_eqb_refl.
    rewrite (comps_join2 _ _ Hrel), <- app_assoc. reflexivity.
Qed.
