(* Intro/OptionsProofs.v — intro-buildoptions.json (as a function of the option store, including
   per-subproject overrides and yielding options) reports what get_option() returns. *)
From Coq Require Import Lia.
From MV Require Import Base.Strs Base.LexFacts Intro.Options.
Open Scope N_scope.

Lemma osub_eqb_eq a b : osub_eqb a b = true <-> a = b.
Proof.
  destruct a as [x|], b as [y|]; simpl; try (split; [discriminate | intro H; discriminate]).
  - rewrite str_eqb_eq. split; [intros ->; reflexivity | intro H; inversion H; reflexivity].
  - split; reflexivity.
Qed.

Lemma okey_eqb_eq a b : okey_eqb a b = true <-> a = b.
Proof.
  unfold okey_eqb. rewrite andb_true_iff, str_eqb_eq, osub_eqb_eq.
  destruct a as [n1 s1], b as [n2 s2]; simpl. split.
  - intros [-> ->]. reflexivity.
  - intro H. inversion H. auto.
Qed.

Lemma iname_eqb_eq a b : iname_eqb a b = true <-> a = b.
Proof.
  unfold iname_eqb. rewrite andb_true_iff, str_eqb_eq, osub_eqb_eq.
  destruct a as [s1 n1], b as [s2 n2]; simpl. split.
  - intros [-> ->]. reflexivity.
  - intro H. inversion H. auto.
Qed.

Lemma iname_eqb_refl a : iname_eqb a a = true.
Proof. apply iname_eqb_eq. reflexivity. Qed.

Lemma iname_eqb_neq a b : a <> b -> iname_eqb a b = false.
Proof. intro H. destruct (iname_eqb a b) eqn:E; [apply iname_eqb_eq in E; contradiction | reflexivity]. Qed.

Lemma kget_in {V} k (l : list (okey * V)) v : kget k l = Some v -> In (k, v) l.
Proof.
  induction l as [|[k0 v0] l IH]; simpl; [discriminate|].
  destruct (okey_eqb k k0) eqn:E.
  - apply okey_eqb_eq in E. subst. intro H. inversion H. left. reflexivity.
  - intro H. right. apply IH. exact H.
Qed.

Lemma kget_none_notin {V} k (l : list (okey * V)) : kget k l = None -> ~ In k (map fst l).
Proof.
  induction l as [|[k0 v0] l IH]; simpl; [intros _ []|].
  destruct (okey_eqb k k0) eqn:E; [discriminate|].
  intros H [H1|H1].
  - subst k0. assert (okey_eqb k k = true) by (apply okey_eqb_eq; reflexivity). congruence.
  - exact (IH H H1).
Qed.

Lemma iget_app i a b : iget i (a ++ b) = match iget i a with Some v => Some v | None => iget i b end.
Proof.
  induction a as [|[i0 v0] a IH]; simpl; [reflexivity|].
  destruct (iname_eqb i i0); [reflexivity | exact IH].
Qed.

Section Listing.
  Variable s : store.
  Definition opt_entry (ko : okey * optobj) : list (iname * str) :=
    match own_value s (snd ko) with
    | Some v => [(introname (fst ko), v)]
    | None => []
    end.

  (* no listed option is named i *)
  Lemma iget_options_none i (l : list (okey * optobj)) :
    (forall k', In k' (map fst l) -> introname k' <> i) -> iget i (flat_map opt_entry l) = None.
  Proof.
    induction l as [|[k0 o0] l IH]; intro H; simpl; [reflexivity|].
    rewrite iget_app. unfold opt_entry at 1. simpl.
    destruct (own_value s o0) as [v0|]; simpl.
    - rewrite iname_eqb_neq; [apply IH; intros k' Hk'; apply H; right; exact Hk'|].
      intro E. apply (H k0); [left; reflexivity | symmetry; exact E].
    - apply IH. intros k' Hk'. apply H. right. exact Hk'.
  Qed.

  (* the option object stored under k is listed under introname k with its (yield-aware) value *)
  Lemma iget_options_some k o v (l : list (okey * optobj)) :
    kget k l = Some o -> own_value s o = Some v ->
    (forall k', In k' (map fst l) -> introname k' = introname k -> k' = k) ->
    iget (introname k) (flat_map opt_entry l) = Some v.
  Proof.
    induction l as [|[k0 o0] l IH]; intros Hget Hown Hinj; simpl in *; [discriminate|].
    rewrite iget_app. unfold opt_entry at 1. simpl.
    destruct (okey_eqb k k0) eqn:E.
    - apply okey_eqb_eq in E. subst k0. inversion Hget; subst o0. rewrite Hown. simpl.
      rewrite iname_eqb_refl. reflexivity.
    - assert (Hne : introname k <> introname k0).
      { intro Ei. assert (k0 = k) by (apply Hinj; [left; reflexivity | symmetry; exact Ei]).
        subst k0. assert (okey_eqb k k = true) by (apply okey_eqb_eq; reflexivity). congruence. }
      destruct (own_value s o0) as [v0|]; simpl.
      + rewrite (iname_eqb_neq _ _ Hne). apply IH; [exact Hget | exact Hown|].
        intros k' Hk'. apply Hinj. right. exact Hk'.
      + apply IH; [exact Hget | exact Hown|]. intros k' Hk'. apply Hinj. right. exact Hk'.
  Qed.

  Lemma iget_augments_none i (l : list (okey * str)) :
    (forall k', In k' (map fst l) -> introname k' <> i) ->
    iget i (map (fun kv => (introname (fst kv), snd kv)) l) = None.
  Proof.
    induction l as [|[k0 v0] l IH]; intro H; simpl; [reflexivity|].
    rewrite iname_eqb_neq.
    - apply IH. intros k' Hk'. apply H. right. exact Hk'.
    - intro E. apply (H k0); [left; reflexivity | symmetry; exact E].
  Qed.

  Lemma iget_augments_some k v (l : list (okey * str)) :
    kget k l = Some v ->
    (forall k', In k' (map fst l) -> introname k' = introname k -> k' = k) ->
    iget (introname k) (map (fun kv => (introname (fst kv), snd kv)) l) = Some v.
  Proof.
    induction l as [|[k0 v0] l IH]; intros Hget Hinj; simpl in *; [discriminate|].
    destruct (okey_eqb k k0) eqn:E.
    - apply okey_eqb_eq in E. subst k0. inversion Hget; subst v0. rewrite iname_eqb_refl. reflexivity.
    - rewrite iname_eqb_neq.
      + apply IH; [exact Hget|]. intros k' Hk'. apply Hinj. right. exact Hk'.
      + intro Ei. assert (k0 = k) by (apply Hinj; [left; reflexivity | symmetry; exact Ei]).
        subst k0. assert (okey_eqb k k = true) by (apply okey_eqb_eq; reflexivity). congruence.
  Qed.
End Listing.

(* what OptionStore maintains (options.py:1048-1056 set_option, :906-928 add_project_option,
   :1192-1203 is_reserved_name): *)
Record wf_store (s : store) : Prop := {
  (* an override is for a named subproject and only exists when there is no option object
     under that very key *)
  wf_aug_sub : forall k, In k (map fst (s_augments s)) -> exists sp, k_sub k = Some sp /\ sp <> [];
  wf_aug_fresh : forall k, In k (map fst (s_augments s)) -> kget k (s_options s) = None;
  (* a top-level project option never has the name of a system option *)
  wf_top_distinct : forall n o, kget {| k_name := n; k_sub := Some [] |} (s_options s) = Some o ->
                                kget {| k_name := n; k_sub := None |} (s_options s) = None }.

Lemma introname_sub k sp : sp <> [] -> k_sub k = Some sp -> introname k = (Some sp, k_name k).
Proof. intros Hne E. unfold introname. rewrite E. destruct sp; [congruence | reflexivity]. Qed.

(* names listed under (Some sp, n) come from the key (n, Some sp) only *)
Lemma introname_qualified k sp n : introname k = (Some sp, n) -> k = {| k_name := n; k_sub := Some sp |}.
Proof.
  destruct k as [kn ks]. unfold introname. simpl. destruct ks as [[|c r]|]; intro H; inversion H. reflexivity.
Qed.
Lemma introname_bare k n :
  introname k = (None, n) -> k = {| k_name := n; k_sub := None |} \/ k = {| k_name := n; k_sub := Some [] |}.
Proof.
  destruct k as [kn ks]. unfold introname. simpl. destruct ks as [[|c r]|]; intro H; inversion H; auto.
Qed.

(* THE theorem: for every option store, every (sub)project sp and every option name n, if
   get_option(n) evaluated in sp returns v then intro-buildoptions.json reports v for (sp, n) *)
Theorem buildoptions_report_get_option s sp n v :
  wf_store s ->
  get_value_for s {| k_name := n; k_sub := Some sp |} = Some v ->
  reported (list_buildoptions s) sp n = Some v.
Proof.
  intros [Hsub Hfresh Htop] Hget. unfold get_value_for, resolve_option in Hget. simpl in Hget.
  set (k := {| k_name := n; k_sub := Some sp |}) in *.
  set (kg := {| k_name := n; k_sub := None |}) in *.
  unfold reported, list_buildoptions.
  fold (opt_entry s). change (fun ko : okey * optobj => match own_value s (snd ko) with
                               | Some v0 => [(introname (fst ko), v0)] | None => [] end) with (opt_entry s).
  (* the global entry, used in several branches *)
  assert (Hglobal : forall o, kget k (s_options s) = None -> kget kg (s_options s) = Some o -> own_value s o = Some v ->
                    iget (None, n) (flat_map (opt_entry s) (s_options s)) = Some v).
  { intros o Hk Hkg Hown. change (None, n) with (introname kg).
    apply (iget_options_some s kg o v _ Hkg Hown).
    intros k' Hk' E. destruct (introname_bare _ _ E) as [E'|E']; subst k'; [reflexivity|].
    exfalso. destruct (kget {| k_name := n; k_sub := Some [] |} (s_options s)) as [o'|] eqn:E2.
    - pose proof (Htop n o' E2) as Hn. fold kg in Hn. rewrite Hn in Hkg. discriminate.
    - apply (kget_none_notin _ _ E2). exact Hk'. }
  destruct sp as [|c r].
  - (* the top-level project *)
    assert (Haug : kget k (s_augments s) = None).
    { destruct (kget k (s_augments s)) as [v0|] eqn:E; [|reflexivity].
      apply kget_in in E. destruct (Hsub k (in_map fst _ _ E)) as [sp' [E1 E2]]. simpl in E1. inversion E1. congruence. }
    rewrite Haug in Hget. rewrite iget_app.
    destruct (kget k (s_options s)) as [o|] eqn:Ek.
    + change (None, n) with (introname k).
      rewrite (iget_options_some s k o v _ Ek Hget); [reflexivity|].
      intros k' Hk' E. destruct (introname_bare _ _ E) as [E'|E']; subst k'; [|reflexivity].
      exfalso. assert (Hn : kget kg (s_options s) = None) by (apply (Htop n o Ek)).
      apply (kget_none_notin _ _ Hn). exact Hk'.
    + destruct (kget kg (s_options s)) as [o|] eqn:Ekg; [|discriminate].
      rewrite (Hglobal o eq_refl eq_refl Hget). reflexivity.
  - (* a subproject *)
    set (sp := c :: r) in *.
    assert (Hik : introname k = (Some sp, n)) by reflexivity.
    rewrite !iget_app.
    destruct (kget k (s_augments s)) as [v0|] eqn:Eaug.
    + (* overridden for this subproject *)
      assert (Hnone : kget k (s_options s) = None).
      { apply Hfresh. apply kget_in in Eaug. exact (in_map fst _ _ Eaug). }
      rewrite Hnone in Hget. destruct (kget kg (s_options s)) as [o|]; [|discriminate].
      inversion Hget; subst v0.
      rewrite (iget_options_none s (Some sp, n)).
      * change (Some sp, n) with (introname k). rewrite (iget_augments_some k v _ Eaug); [reflexivity|].
        intros k' _ E. rewrite Hik in E. apply introname_qualified. exact E.
      * intros k' Hk' E. apply introname_qualified in E. subst k'.
        apply (kget_none_notin _ _ Hnone). exact Hk'.
    + destruct (kget k (s_options s)) as [o|] eqn:Ek.
      * (* the subproject's own option object *)
        change (Some sp, n) with (introname k). rewrite (iget_options_some s k o v _ Ek Hget); [reflexivity|].
        intros k' _ E. rewrite Hik in E. apply introname_qualified. exact E.
      * destruct (kget kg (s_options s)) as [o|] eqn:Ekg; [|discriminate].
        rewrite (iget_options_none s (Some sp, n)).
        -- rewrite (iget_augments_none (Some sp, n)).
           ++ rewrite (Hglobal o eq_refl eq_refl Hget). reflexivity.
           ++ intros k' Hk' E. apply introname_qualified in E. subst k'.
              apply (kget_none_notin _ _ Eaug). exact Hk'.
        -- intros k' Hk' E. apply introname_qualified in E. subst k'.
           apply (kget_none_notin _ _ Ek). exact Hk'.
Qed.

(* the structured name is recoverable from the string that appears in the file, as long as
   option and subproject names contain no colon (OptionKey.from_string splits at the colon) *)
Definition no_colon (x : str) : Prop := ~ In 58 x.

Lemma render_split a b c d :
  no_colon a -> no_colon c -> a ++ 58 :: b = c ++ 58 :: d -> a = c /\ b = d.
Proof.
  revert c. induction a as [|x a IH]; intros c Ha Hc H.
  - destruct c as [|y c]; simpl in H.
    + inversion H. auto.
    + inversion H; subst. exfalso. apply Hc. left. reflexivity.
  - destruct c as [|y c]; simpl in H.
    + inversion H; subst. exfalso. apply Ha. left. reflexivity.
    + inversion H; subst.
      destruct (IH c) as [E1 E2]; [intro Hin; apply Ha; right; exact Hin | intro Hin; apply Hc; right; exact Hin | assumption|].
      subst. auto.
Qed.

Theorem render_iname_inj i j :
  no_colon (snd i) -> no_colon (snd j) ->
  (forall sp, fst i = Some sp -> no_colon sp) -> (forall sp, fst j = Some sp -> no_colon sp) ->
  render_iname i = render_iname j -> i = j.
Proof.
  destruct i as [[si|] ni], j as [[sj|] nj]; unfold render_iname; simpl; intros Hni Hnj Hsi Hsj H.
  - destruct (render_split si ni sj nj (Hsi si eq_refl) (Hsj sj eq_refl) H) as [-> ->]. reflexivity.
  - exfalso. apply Hnj. rewrite <- H. apply in_or_app. right. left. reflexivity.
  - exfalso. apply Hni. rewrite H. apply in_or_app. right. left. reflexivity.
  - subst. reflexivity.
Qed.
