(* Intro/JudgeProofs.v — the judge decides Spec.Agree: soundness and completeness. *)
From Coq Require Import Permutation Lia.
From MV Require Import Base.Strs Base.LexFacts Intro.Path Intro.Spec Intro.Judge.

(* ------------------------------------------------------------------ strings and sets *)
Lemma strs_eqb_eq a b : strs_eqb a b = true <-> a = b.
Proof.
  revert b; induction a as [|x a IH]; intros [|y b]; simpl; split; intro H; try discriminate; try reflexivity.
  - apply andb_true_iff in H. destruct H as [H1 H2]. apply str_eqb_eq in H1. apply IH in H2. congruence.
  - inversion H; subst. rewrite str_eqb_refl. simpl. apply IH. reflexivity.
Qed.

Lemma str_mem_In x l : str_mem x l = true <-> In x l.
Proof.
  induction l as [|y l IH]; simpl; [split; [discriminate | tauto]|].
  rewrite orb_true_iff, IH, str_eqb_eq. split; intros [H|H]; auto.
Qed.

Lemma subset_b_spec a b : subset_b a b = true <-> (forall x, In x a -> In x b).
Proof.
  unfold subset_b. rewrite forallb_forall. split; intros H x Hx.
  - apply str_mem_In. apply H. exact Hx.
  - apply str_mem_In. apply H. exact Hx.
Qed.

Lemma seteq_b_spec a b : seteq_b a b = true <-> (forall x, In x a <-> In x b).
Proof.
  unfold seteq_b. rewrite andb_true_iff, !subset_b_spec. split.
  - intros [H1 H2] x. split; auto.
  - intros H. split; intros x Hx; apply H; exact Hx.
Qed.

Lemma item_eqb_spec a b : item_eqb a b = true <-> item_equiv a b.
Proof.
  unfold item_eqb, item_equiv. rewrite andb_true_iff, strs_eqb_eq, seteq_b_spec. tauto.
Qed.

Lemma item_equiv_refl a : item_equiv a a.
Proof. split; [reflexivity | tauto]. Qed.
Lemma item_equiv_sym a b : item_equiv a b -> item_equiv b a.
Proof. intros [H1 H2]. split; [congruence | intro x; symmetry; apply H2]. Qed.
Lemma item_equiv_trans a b c : item_equiv a b -> item_equiv b c -> item_equiv a c.
Proof.
  intros [H1 H2] [H3 H4]. split; [congruence|]. intro x. rewrite H2. apply H4.
Qed.

(* ------------------------------------------------------------------ multiset matching *)
Section MatchFacts.
  Context {A : Type} (R : A -> A -> Prop) (eqb : A -> A -> bool).
  Hypothesis eqb_spec : forall a b, eqb a b = true <-> R a b.
  Hypothesis R_sym : forall a b, R a b -> R b a.
  Hypothesis R_trans : forall a b c, R a b -> R b c -> R a c.

  Lemma remove_first_some (p : A -> bool) (l l' : list A) :
    remove_first p l = Some l' -> exists y, p y = true /\ Permutation l (y :: l').
  Proof.
    revert l'; induction l as [|z l IH]; intros l' H; simpl in H; [discriminate|].
    destruct (p z) eqn:E.
    - inversion H; subst. exists z. split; [exact E | apply Permutation_refl].
    - destruct (remove_first p l) as [r'|] eqn:E2; [|discriminate].
      inversion H; subst. destruct (IH r' eq_refl) as [y [Hy HP]].
      exists y. split; [exact Hy|].
      apply perm_trans with (z :: y :: r'); [apply perm_skip; exact HP | apply perm_swap].
  Qed.

  Lemma remove_first_none (p : A -> bool) (l : list A) : remove_first p l = None -> forall y, In y l -> p y = false.
  Proof.
    induction l as [|z l IH]; intros H y Hy; simpl in *; [contradiction|].
    destruct (p z) eqn:E; [discriminate|].
    destruct (remove_first p l) eqn:E2; [discriminate|].
    destruct Hy as [->|Hy]; [exact E | apply IH; auto].
  Qed.

  Theorem match_all_sound (l1 : list A) : forall l2, match_all eqb l1 l2 = true -> MultisetEq R l1 l2.
  Proof.
    induction l1 as [|x r IH]; intros l2 H; simpl in H.
    - destruct l2; [|discriminate]. exists []. split; constructor.
    - destruct (remove_first (eqb x) l2) as [l2'|] eqn:E; [|discriminate].
      destruct (remove_first_some _ _ _ E) as [y [Hy HP]].
      destruct (IH _ H) as [l'' [HP2 HF]].
      exists (y :: l''). split.
      + apply perm_trans with (y :: l2'); [exact HP | apply perm_skip; exact HP2].
      + constructor; [apply eqb_spec; exact Hy | exact HF].
  Qed.

  Lemma Forall2_app_inv_r' (l : list A) a b :
    Forall2 R l (a ++ b) -> exists la lb, l = la ++ lb /\ Forall2 R la a /\ Forall2 R lb b.
  Proof.
    revert l; induction a as [|y a IH]; intros l H; simpl in H.
    - exists [], l. repeat split; [constructor | exact H].
    - inversion H as [|x y' lx ly Hxy Hrest]; subst.
      destruct (IH _ Hrest) as [la [lb [-> [Ha Hb]]]].
      exists (x :: la), lb. repeat split; [constructor; assumption | exact Hb].
  Qed.

  Theorem match_all_complete (l1 : list A) : forall l2, MultisetEq R l1 l2 -> match_all eqb l1 l2 = true.
  Proof.
    induction l1 as [|x r IH]; intros l2 [l' [HP HF]].
    - inversion HF; subst. apply Permutation_sym, Permutation_nil in HP. subst. reflexivity.
    - inversion HF as [|x' y r' l'r Hxy Hrest]; subst. simpl.
      destruct (remove_first (eqb x) l2) as [l2'|] eqn:E.
      + destruct (remove_first_some _ _ _ E) as [z [Hz HPz]].
        apply eqb_spec in Hz. apply IH.
        assert (Hin : In z (y :: l'r)).
        { apply Permutation_in with (l := l2); [exact HP|].
          apply Permutation_in with (l := z :: l2'); [apply Permutation_sym; exact HPz | left; reflexivity]. }
        assert (HP' : Permutation (z :: l2') (y :: l'r)).
        { apply perm_trans with l2; [apply Permutation_sym; exact HPz | exact HP]. }
        destruct Hin as [Heq | Hin].
        * subst z. exists l'r. split; [eapply Permutation_cons_inv; exact HP' | exact Hrest].
        * destruct (in_split _ _ Hin) as [a [b ->]].
          destruct (Forall2_app_inv_r' _ _ _ Hrest) as [la [lb [-> [Ha Hb]]]].
          inversion Hb as [|ri z' lb' b' Hriz Hb']; subst.
          exists (a ++ y :: b). split.
          -- apply Permutation_cons_inv with (a := z).
             apply perm_trans with (y :: a ++ z :: b); [exact HP'|].
             apply perm_trans with (y :: z :: a ++ b).
             { apply perm_skip. apply Permutation_sym, Permutation_middle. }
             apply perm_trans with (z :: y :: a ++ b); [apply perm_swap|].
             apply perm_skip. apply Permutation_middle.
          -- apply Forall2_app; [exact Ha|]. constructor; [|exact Hb'].
             apply R_trans with z; [exact Hriz|]. apply R_trans with x; [apply R_sym; exact Hz | exact Hxy].
      + exfalso.
        assert (Hy : In y l2).
        { apply Permutation_in with (l := y :: l'r); [apply Permutation_sym; exact HP | left; reflexivity]. }
        pose proof (remove_first_none _ _ E y Hy) as Hn.
        apply eqb_spec in Hxy. congruence.
  Qed.
End MatchFacts.

Theorem items_match_spec l1 l2 : match_all item_eqb l1 l2 = true <-> MultisetEq item_equiv l1 l2.
Proof.
  split.
  - apply match_all_sound. apply item_eqb_spec.
  - apply match_all_complete; [apply item_eqb_spec | apply item_equiv_sym | apply item_equiv_trans].
Qed.

(* ------------------------------------------------------------------ paths *)
Lemma same_path_b_spec a b : same_path_b a b = true <-> same_path a b.
Proof. unfold same_path_b, same_path. apply strs_eqb_eq. Qed.

Lemma prefix_strs_spec p l : prefix_strs p l = true <-> exists r, l = p ++ r.
Proof.
  revert l; induction p as [|x p IH]; intros l; simpl.
  - split; [intros _; exists l; reflexivity | reflexivity].
  - destruct l as [|y l]; [split; [discriminate | intros [r H]; discriminate]|].
    rewrite andb_true_iff, str_eqb_eq, IH. split.
    + intros [-> [r ->]]. exists r. reflexivity.
    + intros [r H]. inversion H; subst. split; [reflexivity | exists r; reflexivity].
Qed.

Lemma under_b_spec a b : under_b a b = true <-> under a b.
Proof. unfold under_b, under. apply prefix_strs_spec. Qed.

Lemma names_path_b_spec p l : names_path_b p l = true <-> names_path p l.
Proof.
  unfold names_path_b, names_path. rewrite existsb_exists. split.
  - intros [q [Hq H]]. exists q. split; [exact Hq | apply same_path_b_spec; exact H].
  - intros [q [Hq H]]. exists q. split; [exact Hq | apply same_path_b_spec; exact H].
Qed.

Lemma pkind_eqb_spec a b : pkind_eqb a b = true <-> a = b.
Proof. destruct a, b; simpl; split; intro H; try discriminate; reflexivity. Qed.

Lemma selected_b_spec sel e : selected_b sel e = true <-> selected sel e.
Proof.
  unfold selected_b, selected. destruct sel as [|s sel].
  - split; [intros _; left; reflexivity | reflexivity].
  - destruct (po_tag e) as [t|].
    + rewrite str_mem_In. split.
      * intro H. right. exists t. split; [reflexivity | exact H].
      * intros [H | [t' [Ht H]]]; [discriminate | inversion Ht; subst; exact H].
    + split; [discriminate | intros [H | [t' [Ht _]]]; discriminate].
Qed.

Lemma present_b_spec r e : present_b r e = true <-> present r e.
Proof. unfold present_b, present. destruct (po_kind e); apply names_path_b_spec. Qed.

Lemma accounted_b_spec k plan sel f : accounted_b k plan sel f = true <-> accounted k plan sel f.
Proof.
  unfold accounted_b, accounted. rewrite existsb_exists. split.
  - intros [e [He H]]. exists e. apply andb_true_iff in H. destruct H as [Hs H].
    split; [exact He|]. split; [apply selected_b_spec; exact Hs|].
    apply orb_true_iff in H. destruct H as [H|H]; apply andb_true_iff in H; destruct H as [H1 H2].
    + left. split; [apply pkind_eqb_spec; exact H1 | apply same_path_b_spec; exact H2].
    + right. split; [apply pkind_eqb_spec; exact H1 | apply under_b_spec; exact H2].
  - intros [e [He [Hs H]]]. exists e. split; [exact He|].
    apply andb_true_iff. split; [apply selected_b_spec; exact Hs|].
    apply orb_true_iff. destruct H as [[H1 H2]|[H1 H2]]; [left|right]; apply andb_true_iff; split.
    + apply pkind_eqb_spec; exact H1.
    + apply same_path_b_spec; exact H2.
    + apply pkind_eqb_spec; exact H1.
    + apply under_b_spec; exact H2.
Qed.

Theorem run_agrees_b_spec plan r : run_agrees_b plan r = true <-> run_agrees plan r.
Proof.
  unfold run_agrees_b, run_agrees. rewrite !andb_true_iff, !forallb_forall. split.
  - intros [[H1 H2] H3]. split; [|split].
    + intros e He Hs. apply present_b_spec. specialize (H1 e He).
      apply orb_true_iff in H1. destruct H1 as [H1|H1]; [|exact H1].
      apply selected_b_spec in Hs. rewrite Hs in H1. discriminate.
    + intros f Hf. apply accounted_b_spec. apply H2. exact Hf.
    + intros f Hf. apply accounted_b_spec. apply H3. exact Hf.
  - intros [H1 [H2 H3]]. split; [split|].
    + intros e He. destruct (selected_b (ro_tags r) e) eqn:E; [|reflexivity]. simpl.
      apply present_b_spec. apply H1; [exact He | apply selected_b_spec; exact E].
    + intros f Hf. apply accounted_b_spec. apply H2. exact Hf.
    + intros f Hf. apply accounted_b_spec. apply H3. exact Hf.
Qed.

(* ------------------------------------------------------------------ options, files *)
Lemma reports_b_spec opts n v : reports_b opts n v = true <-> reports opts n v.
Proof.
  unfold reports_b, reports. rewrite andb_true_iff, existsb_exists, forallb_forall. split.
  - intros [[[n' v'] [Hin H]] Hall]. simpl in H. apply andb_true_iff in H. destruct H as [Hn Hv].
    apply str_eqb_eq in Hn. apply str_eqb_eq in Hv. subst. split; [exact Hin|].
    intros v' Hv'. specialize (Hall (n, v') Hv'). simpl in Hall. rewrite str_eqb_refl in Hall.
    simpl in Hall. apply str_eqb_eq in Hall. exact Hall.
  - intros [Hin Hall]. split.
    + exists (n, v). split; [exact Hin|]. simpl. rewrite !str_eqb_refl. reflexivity.
    + intros [n' v'] H'. simpl. destruct (str_eqb n' n) eqn:E; [|reflexivity]. simpl.
      apply str_eqb_eq in E. subst. apply str_eqb_eq. apply Hall. exact H'.
Qed.

Lemma nodup_b_spec l : nodup_b l = true <-> NoDup l.
Proof.
  induction l as [|x l IH]; simpl.
  - split; [constructor | reflexivity].
  - rewrite andb_true_iff, negb_true_iff, IH. split.
    + intros [H1 H2]. constructor; [|exact H2]. intro Hin. apply str_mem_In in Hin. congruence.
    + intro H. inversion H; subst. split; [|assumption].
      destruct (str_mem x l) eqn:E; [|reflexivity]. apply str_mem_In in E. contradiction.
Qed.

(* ------------------------------------------------------------------ the judge *)
Theorem agree_b_sound I W : agree_b I W = true -> Agree I W.
Proof.
  unfold agree_b, clauses. simpl. rewrite !andb_true_iff.
  intros [H1 [H2 [H3 [H4 [H5 [H6 _]]]]]]. constructor.
  - apply items_match_spec. exact H1.
  - apply items_match_spec. exact H2.
  - apply items_match_spec. exact H3.
  - intros n v Hin. unfold clause_opts in H4. rewrite forallb_forall in H4.
    apply reports_b_spec. exact (H4 (n, v) Hin).
  - intros r Hr. unfold clause_install in H5. rewrite forallb_forall in H5.
    apply run_agrees_b_spec. exact (H5 r Hr).
  - unfold clause_files in H6. apply andb_true_iff in H6. destruct H6 as [Ha Hb].
    split; [apply seteq_b_spec; exact Ha | apply nodup_b_spec; exact Hb].
Qed.

Theorem agree_b_complete I W : Agree I W -> agree_b I W = true.
Proof.
  intros [H1 H2 H3 H4 H5 [H6 H7]]. unfold agree_b, clauses. simpl. rewrite !andb_true_iff.
  repeat split.
  - apply items_match_spec. exact H1.
  - apply items_match_spec. exact H2.
  - apply items_match_spec. exact H3.
  - unfold clause_opts. apply forallb_forall. intros [n v] Hin. apply reports_b_spec. apply H4. exact Hin.
  - unfold clause_install. apply forallb_forall. intros r Hr. apply run_agrees_b_spec. apply H5. exact Hr.
  - unfold clause_files. apply andb_true_iff. split; [apply seteq_b_spec; exact H6 | apply nodup_b_spec; exact H7].
Qed.

Theorem agree_b_spec I W : agree_b I W = true <-> Agree I W.
Proof. split; [apply agree_b_sound | apply agree_b_complete]. Qed.

(* when the judge says no, one of the clause bits is false, and that clause of the
   specification fails: the bit vector is a faithful diagnosis *)
Theorem clause_bits_faithful I W :
  (clause_targets I W = true <-> MultisetEq item_equiv (i_targets I) (w_targets W)) /\
  (clause_tests I W = true <-> MultisetEq item_equiv (i_tests I) (w_tests W)) /\
  (clause_benchmarks I W = true <-> MultisetEq item_equiv (i_benchmarks I) (w_benchmarks W)) /\
  (clause_opts I W = true <-> forall n v, In (n, v) (w_opts W) -> reports (i_opts I) n v) /\
  (clause_install I W = true <-> forall r, In r (w_runs W) -> run_agrees (i_plan I) r) /\
  (clause_files I W = true <-> (forall f, In f (i_files I) <-> In f (w_files W)) /\ NoDup (i_files I)).
Proof.
  split; [apply items_match_spec|]. split; [apply items_match_spec|]. split; [apply items_match_spec|].
  split; [|split].
  - unfold clause_opts. rewrite forallb_forall. split.
    + intros H n v Hin. apply reports_b_spec. exact (H (n, v) Hin).
    + intros H [n v] Hin. apply reports_b_spec. apply H. exact Hin.
  - unfold clause_install. rewrite forallb_forall. split.
    + intros H r Hr. apply run_agrees_b_spec. exact (H r Hr).
    + intros H r Hr. apply run_agrees_b_spec. apply H. exact Hr.
  - unfold clause_files. rewrite andb_true_iff, seteq_b_spec, nodup_b_spec. tauto.
Qed.
