(* Intro/Path.v — the POSIX path functions that mintro.py, backends.py and minstall.py
   use when they derive installation destinations (Python 3.12 posixpath / pathlib,
   POSIX flavour only).  Executable definitions, no proofs. *)
From MV Require Import Base.Strs.
Open Scope N_scope.

Definition SLASH : char := 47.

(* posixpath.isabs: s.startswith('/')  (mesonlib path_has_root on POSIX is os.path.isabs,
   utils/platform.py:134) *)
Definition isabs (s : str) : bool :=
  match s with c :: _ => c =? SLASH | [] => false end.

(* s.endswith('/') *)
Fixpoint ends_slash (s : str) : bool :=
  match s with
  | [] => false
  | [c] => c =? SLASH
  | _ :: r => ends_slash r
  end.

(* one step of posixpath.join(a, b):
     if b.startswith(sep): path = b
     elif not path or path.endswith(sep): path += b
     else: path += sep + b *)
Definition join2 (a b : str) : str :=
  if isabs b then b
  else match a with
       | [] => b
       | _ => if ends_slash a then a ++ b else a ++ SLASH :: b
       end.

(* posixpath.join(a, *p) *)
Definition pjoin (a : str) (p : list str) : str := fold_left join2 p a.

(* s.split(c): never the empty list *)
Fixpoint split_on (c : char) (s : str) : list str :=
  match s with
  | [] => [[]]
  | x :: r =>
      let l := split_on c r in
      if x =? c then [] :: l
      else match l with
           | h :: t => (x :: h) :: t
           | [] => [[x]]
           end
  end.

(* posixpath.basename: p[p.rfind('/')+1:] *)
Definition basename (p : str) : str := last (split_on SLASH p) [].

Definition is_dot (s : str) : bool := match s with [46] => true | _ => false end.
Definition is_nil (s : str) : bool := match s with [] => true | _ => false end.

(* pathlib (3.12) _parse_path: [x for x in rel.split(sep) if x and x != '.'] — the
   components a path names, without the root *)
Definition comps (s : str) : list str :=
  filter (fun x => negb (is_nil x || is_dot x)) (split_on SLASH s).

(* posixpath.splitroot: '' | '/' | '//' (exactly two leading slashes are kept) *)
Definition proot (s : str) : str :=
  match s with
  | c1 :: r1 =>
      if c1 =? SLASH then
        match r1 with
        | c2 :: r2 =>
            if c2 =? SLASH then
              match r2 with
              | c3 :: _ => if c3 =? SLASH then [SLASH] else [SLASH; SLASH]
              | [] => [SLASH; SLASH]
              end
            else [SLASH]
        | [] => [SLASH]
        end
      else []
  | [] => []
  end.

(* str(PurePosixPath(s)): root + '/'.join(tail) or '.' *)
Definition pp_str (root : str) (tail : list str) : str :=
  match root, tail with
  | [], [] => [46]
  | _, _ => root ++ join [SLASH] tail
  end.

(* PurePath(d2).parts[1:] — parts is (root,)+tail for a rooted path and tail otherwise, so
   for a relative d2 the FIRST COMPONENT is what gets dropped *)
Definition parts_tl (d2 : str) : list str :=
  match proot d2 with
  | [] => tl (comps d2)
  | _ => comps d2
  end.

(* mesonbuild/scripts/__init__.py:6-10
     def destdir_join(d1, d2):
         if not d1: return d2
         return str(PurePath(d1, *PurePath(d2).parts[1:]))
   PurePath(a, *ps) parses posixpath.join(a, *ps) (pathlib 3.12 _load_parts). *)
Definition destdir_join (d1 d2 : str) : str :=
  match d1 with
  | [] => d2
  | _ => let j := pjoin d1 (parts_tl d2) in pp_str (proot j) (comps j)
  end.

(* minstall.py:277-282 get_destdir_path *)
Definition get_destdir_path (destdir fullprefix path : str) : str :=
  if isabs path then destdir_join destdir path
  else join2 fullprefix path.

(* str.replace(old, new) for a non-empty old (used by generate_man_install); fuel = length *)
Fixpoint replace_fuel (fuel : nat) (old new s : str) : str :=
  match fuel with
  | O => s
  | S f =>
      match s with
      | [] => []
      | c :: r =>
          if prefixb old s then new ++ replace_fuel f old new (drop (length old) s)
          else c :: replace_fuel f old new r
      end
  end.
Definition replace (old new s : str) : str :=
  match old with
  | [] => s   (* not used with an empty pattern *)
  | _ => replace_fuel (S (length s)) old new s
  end.

(* str.rstrip('/') *)
Definition rstrip_slash (s : str) : str :=
  rev ((fix go (l : str) : str :=
          match l with c :: r => if c =? SLASH then go r else l | [] => [] end) (rev s)).
