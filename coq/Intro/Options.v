(* Intro/Options.v — intro-buildoptions.json as a function of the option store, next to what
   get_option() returns.  Executable definitions, no proofs.

   mesonbuild/options.py:838-866   OptionStore.resolve_option / get_option_and_value_for
   mesonbuild/options.py:231-237   OptionKey.__str__
   mesonbuild/mintro.py:217-300    _list_buildoptions (names and values; sections, ordering,
                                   types, choices and descriptions are not modelled)
   with pending/C15-buildoptions-yielding.diff applied (a yielding subproject option is listed
   with its parent's value).  Build-machine keys are not modelled. *)
From MV Require Import Base.Strs.
Open Scope N_scope.

(* OptionKey(name, subproject): None = a non-project ("system") option, Some "" = an option of
   the top-level project, Some sp = an option (or an override) for subproject sp *)
Record okey := { k_name : str; k_sub : option str }.

Definition osub_eqb (a b : option str) : bool :=
  match a, b with
  | None, None => true
  | Some x, Some y => str_eqb x y
  | _, _ => false
  end.
Definition okey_eqb (a b : okey) : bool := str_eqb (k_name a) (k_name b) && osub_eqb (k_sub a) (k_sub b).

(* a UserOption: its value (rendered) and, when it yields, the key of its parent *)
Record optobj := { o_value : str; o_parent : option okey }.

Record store := { s_options : list (okey * optobj); s_augments : list (okey * str) }.

Fixpoint kget {V : Type} (k : okey) (l : list (okey * V)) : option V :=
  match l with
  | [] => None
  | (k', v) :: r => if okey_eqb k k' then Some v else kget k r
  end.

(* options.py:838-853 resolve_option: the option object itself, else the system option of the
   same name (KeyError = None) *)
Definition resolve_option (s : store) (k : okey) : option optobj :=
  match kget k (s_options s) with
  | Some o => Some o
  | None => kget {| k_name := k_name k; k_sub := None |} (s_options s)
  end.

(* the value an option object contributes: its parent's when it yields (options.py:862-863) *)
Definition own_value (s : store) (o : optobj) : option str :=
  match o_parent o with
  | Some pk => match kget pk (s_options s) with Some p => Some (o_value p) | None => None end
  | None => Some (o_value o)
  end.

(* options.py:855-866 get_option_and_value_for = what get_option(name) returns in subproject sp
   (key = OptionKey(name, sp)) *)
Definition get_value_for (s : store) (k : okey) : option str :=
  match resolve_option s k with
  | None => None
  | Some o =>
      match kget k (s_augments s) with
      | Some v => Some v
      | None => own_value s o
      end
  end.

(* the name under which an entry is listed, structured: (subproject qualifier, name);
   mintro.py:289-293 project_option_key_to_introname drops the '' of top-level project options *)
Definition iname := (option str * str)%type.
Definition introname (k : okey) : iname :=
  match k_sub k with
  | None | Some [] => (None, k_name k)
  | Some sp => (Some sp, k_name k)
  end.
(* str(key) of the listed key *)
Definition render_iname (i : iname) : str :=
  match fst i with
  | None => snd i
  | Some sp => sp ++ 58 :: snd i
  end.

(* mintro.py:229-236, 252-258: every option object with its (yield-aware) value, then every
   per-subproject override with the overriding value *)
Definition list_buildoptions (s : store) : list (iname * str) :=
  flat_map (fun ko => match own_value s (snd ko) with
                      | Some v => [(introname (fst ko), v)]
                      | None => []
                      end) (s_options s) ++
  map (fun kv => (introname (fst kv), snd kv)) (s_augments s).

Definition iname_eqb (a b : iname) : bool := osub_eqb (fst a) (fst b) && str_eqb (snd a) (snd b).
Fixpoint iget (i : iname) (l : list (iname * str)) : option str :=
  match l with
  | [] => None
  | (i', v) :: r => if iname_eqb i i' then Some v else iget i r
  end.

(* how a reader of intro-buildoptions.json finds the value of option n as seen by (sub)project
   sp: the entry `sp:n` if there is one, else the entry `n` *)
Definition reported (entries : list (iname * str)) (sp n : str) : option str :=
  match sp with
  | [] => iget (None, n) entries
  | _ => match iget (Some sp, n) entries with
         | Some v => Some v
         | None => iget (None, n) entries
         end
  end.
