(* Props/C09.v — the property theorems of C09, and nothing else.

   C09: if a command that mutates a build directory (setup, setup --reconfigure, setup --wipe,
   configure) is killed at any instant, the directory remains usable: re-running `meson setup`
   (with --reconfigure when it was already configured) succeeds without manual repair, no state
   file is left unreadable for that run, and afterwards every option has either its value from
   before the interrupted command or the value that command was setting — never anything else.

   e : env            the parameters of the model (which files the backend writes, how many
                      write() calls a file takes, ...); [fixed e] = the tree as it is in /repo
                      (cmd_line.txt written atomically, --wipe keeps it in place, configure
                      writes cmd_line.txt before coredata.dat)
   w : world          what lies outside the build directory: the defaults the project declares
                      and the option values in the machine file — it may differ from event to event
   h : list event     a directory history from the empty directory: commands that ran to their
                      end ([Ran w c]) and commands killed on entry to their (k+1)-th mutation
                      ([Killed w c k]), each in its own world; [meson_event] excludes external damage
   crash e w k c st   the directory after the first k file-system mutations of command c
   recover e w st     the follow-up `meson setup [--reconfigure]` on st: (outcome, directory after)
   reported e w st    the option store that follow-up reports *)
From MV Require Import Base.Strs Crash.Model Crash.Proofs.

(* "re-running `meson setup` ... succeeds without manual repair" — for every history (earlier
   kills and edits of the project included), every command, every kill index *)
Theorem C09_followup_succeeds : forall e h w c k,
  fixed e -> forallb meson_event h = true ->
  fst (recover e w (crash e w k c (run_history e h))) = Done.
Proof. exact recover_succeeds. Qed.
Print Assumptions C09_followup_succeeds.

(* "no state file is left unreadable for that run": coredata.dat and cmd_line.txt are never torn,
   whatever was killed wherever ... *)
Theorem C09_coredata_and_cmdline_never_torn : forall e h,
  fixed e -> forallb meson_event h = true ->
  (run_history e h Core = Absent \/ exists s, run_history e h Core = Whole (CStore s)) /\
  (run_history e h Cmd = Absent \/ exists r nf, run_history e h Cmd = Whole (CRec r nf)).
Proof. exact history_Inv. Qed.
Print Assumptions C09_coredata_and_cmdline_never_torn.

(* ... and after the follow-up every state file (coredata.dat, build.dat, cmd_line.txt,
   build.ninja, the backend's .dat files, the intro files) is whole *)
Theorem C09_no_state_file_left_unreadable : forall e h w c k f,
  fixed e -> forallb meson_event h = true -> In f (state_files e) ->
  whole (snd (recover e w (crash e w k c (run_history e h))) f) = true.
Proof. exact recover_leaves_state_files_whole. Qed.
Print Assumptions C09_no_state_file_left_unreadable.

(* "every option has either its value from before the interrupted command or the value that
   command was setting": full strength on every directory whose earlier commands ran to
   completion in the present world — all histories, all four commands (with or without a machine
   file, --clearcache), all -D lists, all directory listings, all kill indices.
   (old / new / observed = what the follow-up reports on the untouched directory / after the
   completed command / after the killed command.) *)
Theorem C09_old_or_new : forall e w h c k,
  fixed e -> completed_in w h ->
  exists vo vn vk,
    reported e w (run_history e h) = Some vo /\
    reported e w (exec e w c (run_history e h)) = Some vn /\
    reported e w (crash e w k c (run_history e h)) = Some vk /\
    forall key, vk key = vo key \/ vk key = vn key.
Proof. exact old_or_new_completed_histories. Qed.
Print Assumptions C09_old_or_new.

(* the same on ANY directory — left behind by killed commands, with the project's declared defaults
   and the machine file edited arbitrarily between the commands: true under the guard, which is
   `true` for setup, setup --reconfigure and configure, and for `setup --wipe` demands that, for the
   keys the wipe is given a NEW source for (its -D settings; the machine file if it is given only
   now), coredata.dat holds what cmd_line.txt and the present world reproduce *)
Theorem C09_old_or_new_any_history_partial : forall e h w c k,
  fixed e -> forallb meson_event h = true -> guard w c (run_history e h) = true ->
  old_or_new e w (run_history e h) c k.
Proof. exact old_or_new_guarded. Qed.
Print Assumptions C09_old_or_new_any_history_partial.

(* ... and false without it, (1) after an earlier kill: configure -Dk0=2 killed between its two
   renames, then setup --wipe -Dk0=3 killed after coredata.dat is deleted: the follow-up reports k0=2 *)
Theorem C09_old_or_new_after_kills_refuted :
  exists e h w c k, fixed e /\ forallb meson_event h = true /\ ~ old_or_new e w (run_history e h) c k.
Proof.
  exists e_fixed, h_killed_configure, w0, (Wipe [(0, 3)] false [Core])%N, 1%nat.
  exact (conj fixed_e_fixed after_kills_wipe_refuted).
Qed.
Print Assumptions C09_old_or_new_after_kills_refuted.

(* (2) without any kill, after the project's declared default was edited: setup; default of k0 0 -> 5;
   setup --wipe -Dk0=3 killed after coredata.dat is deleted: the follow-up reports k0=5 *)
Theorem C09_old_or_new_after_edit_refuted :
  exists e h w w' c k, fixed e /\ completed_in w h /\ ~ old_or_new e w' (run_history e h) c k.
Proof.
  exists e_fixed, [Ran w0 (Setup [] false)], w0, w_edited, (Wipe [(0, 3)] false [Core])%N, 1%nat.
  exact (conj fixed_e_fixed after_edit_wipe_refuted).
Qed.
Print Assumptions C09_old_or_new_after_edit_refuted.

(* a candidate repair that does NOT help: `meson configure` writing coredata.dat before cmd_line.txt —
   the same two kills then leave coredata.dat ahead of the record and the wipe window reports the value
   from before the configure *)
Theorem C09_configure_coredata_first_refuted :
  run_history e_corefirst h_killed_configure_corefirst Cmd = Whole (CRec [(0, 1)]%N false) /\
  ~ old_or_new e_corefirst w0 (run_history e_corefirst h_killed_configure_corefirst) (Wipe [(0, 3)]%N false [Core]) 1.
Proof. exact corefirst_does_not_help. Qed.
Print Assumptions C09_configure_coredata_first_refuted.

(* the behaviour BEFORE the fixes violates the property (crash index as witness):
   cmd_line.txt written in place — configure killed at mutation 1: the follow-up dies with a Python error *)
Theorem C09_cmdline_in_place_refuted :
  fst (recover e_inplace w0 (crash e_inplace w0 1 (Configure [(0, 2)]%N false)
                                (run_history e_inplace [Ran w0 (Setup [(0, 1)]%N false)]))) = PyErr.
Proof. exact inplace_cmdline_refuted. Qed.
Print Assumptions C09_cmdline_in_place_refuted.

(* --wipe keeping cmd_line.txt only in a temporary directory — killed at mutation 4: the option is lost *)
Theorem C09_wipe_tempdir_refuted :
  ~ old_or_new e_tmpwipe w0 (run_history e_tmpwipe [Ran w0 (Setup [(0, 1)]%N false)]) (Wipe [] false [Core; Cmd]) 4.
Proof. exact tmpdir_wipe_refuted. Qed.
Print Assumptions C09_wipe_tempdir_refuted.
