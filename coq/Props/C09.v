(* Props/C09.v — the property theorems of C09, and nothing else.

   C09: if a command that mutates a build directory (setup, setup --reconfigure, setup --wipe,
   configure) is killed at any instant, the directory remains usable: re-running `meson setup`
   (with --reconfigure when it was already configured) succeeds without manual repair, no state
   file is left unreadable for that run, and afterwards every option has either its value from
   before the interrupted command or the value that command was setting — never anything else.

   e : env            the parameters of the model (which files the backend writes, how many
                      write() calls a file takes, ...); [fixed e] = the tree with
                      pending/C09-cmdline-atomic-write.diff and pending/C09-wipe-keep-cmdline.diff
   h : list event     a directory history from the empty directory: commands that ran to their
                      end ([Ran c]) and commands killed on entry to their (k+1)-th mutation
                      ([Killed c k]); [meson_event] excludes external damage
   crash e k c st     the directory after the first k file-system mutations of command c
   recover e st       the follow-up `meson setup [--reconfigure]` on st: (outcome, directory after)
   reported e st      the option store that follow-up reports *)
From MV Require Import Base.Strs Crash.Model Crash.Proofs.

(* "re-running `meson setup` ... succeeds without manual repair" — for every history (earlier
   kills included), every command, every kill index *)
Theorem C09_followup_succeeds : forall e h c k,
  fixed e -> forallb meson_event h = true ->
  fst (recover e (crash e k c (run_history e h))) = Done.
Proof. exact recover_succeeds. Qed.
Print Assumptions C09_followup_succeeds.

(* "no state file is left unreadable for that run": coredata.dat and cmd_line.txt are never torn,
   whatever was killed wherever ... *)
Theorem C09_coredata_and_cmdline_never_torn : forall e h,
  fixed e -> forallb meson_event h = true ->
  (run_history e h Core = Absent \/ exists l, run_history e h Core = Whole (CStore l)) /\
  (run_history e h Cmd = Absent \/ exists r, run_history e h Cmd = Whole (CRec r)).
Proof. exact history_Inv. Qed.
Print Assumptions C09_coredata_and_cmdline_never_torn.

(* ... and after the follow-up every state file (coredata.dat, build.dat, cmd_line.txt,
   build.ninja, the backend's .dat files, the intro files) is whole *)
Theorem C09_no_state_file_left_unreadable : forall e h c k f,
  fixed e -> forallb meson_event h = true -> In f (state_files e) ->
  whole (snd (recover e (crash e k c (run_history e h))) f) = true.
Proof. exact recover_leaves_state_files_whole. Qed.
Print Assumptions C09_no_state_file_left_unreadable.

(* "every option has either its value from before the interrupted command or the value that
   command was setting": full strength on every directory whose earlier commands ran to
   completion — all histories, all four commands, all -D lists, all directory listings, all kill
   indices.  (old / new / observed = what the follow-up reports on the untouched directory / after
   the completed command / after the killed command.) *)
Theorem C09_old_or_new : forall e h c k,
  fixed e -> forallb completed h = true ->
  exists vo vn vk,
    reported e (run_history e h) = Some vo /\
    reported e (exec e c (run_history e h)) = Some vn /\
    reported e (crash e k c (run_history e h)) = Some vk /\
    forall key, value vk key = value vo key \/ value vk key = value vn key.
Proof. exact old_or_new_completed_histories. Qed.
Print Assumptions C09_old_or_new.

(* the same on directories that earlier KILLED commands left behind: true under the guard
   (always true except for `setup --wipe -Dk=v` when coredata.dat and cmd_line.txt disagree on k) *)
Theorem C09_old_or_new_after_kills_partial : forall e h c k,
  fixed e -> forallb meson_event h = true -> guard c (run_history e h) = true ->
  old_or_new e (run_history e h) c k.
Proof. exact old_or_new_guarded. Qed.
Print Assumptions C09_old_or_new_after_kills_partial.

(* ... and false without it: configure -Dk0=2 killed between its two renames, then
   setup --wipe -Dk0=3 killed after coredata.dat is deleted: the follow-up reports k0=2 *)
Theorem C09_old_or_new_after_kills_refuted :
  exists e h c k, fixed e /\ forallb meson_event h = true /\ ~ old_or_new e (run_history e h) c k.
Proof.
  exists e_fixed, h_killed_configure, (Wipe [(0, 3)] [Core])%N, 1%nat.
  exact (conj fixed_e_fixed after_kills_wipe_refuted).
Qed.
Print Assumptions C09_old_or_new_after_kills_refuted.

(* the behaviour BEFORE the pending fixes violates the property (crash index as witness):
   cmd_line.txt written in place — configure killed at mutation 1: the follow-up dies with a Python error *)
Theorem C09_cmdline_in_place_refuted :
  fst (recover e_inplace (crash e_inplace 1 (Configure [(0, 2)]%N)
                                (run_history e_inplace [Ran (Setup [(0, 1)]%N)]))) = PyErr.
Proof. exact inplace_cmdline_refuted. Qed.
Print Assumptions C09_cmdline_in_place_refuted.

(* --wipe keeping cmd_line.txt only in a temporary directory — killed at mutation 4: the option is lost *)
Theorem C09_wipe_tempdir_refuted :
  ~ old_or_new e_tmpwipe (run_history e_tmpwipe [Ran (Setup [(0, 1)]%N)]) (Wipe [] [Core; Cmd]) 4.
Proof. exact tmpdir_wipe_refuted. Qed.
Print Assumptions C09_wipe_tempdir_refuted.
