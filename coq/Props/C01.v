(* Props/C01.v — the property theorems of C01 (build definitions evaluate exactly as the
   language reference prescribes), about the formal reference coq/Eval/{Values,Ops,Methods,Interp}.v
   on the parser model coq/Syntax/Parser.v, and nothing else. *)
From MV Require Import Base.Strs Syntax.Lexer Syntax.Parser
  Eval.Values Eval.Ops Eval.Methods Eval.Interp Eval.Laws Eval.Control Eval.Frame Eval.Shape Eval.Fuel.
From Coq Require Import ZArith Sorting.Sorted Sorting.Permutation.

(* ---- "documented precedence and associativity (comparisons do not chain, unary operators do
   not stack, a ternary inside a ternary is rejected)": every accepted text parses to a tree in
   which each operator's operands sit at the documented ladder level, at every depth *)
Theorem C01_precedence_shape : forall s b, parse s = Ok b -> wfb_block b = true.
Proof. exact parse_shape. Qed.
Print Assumptions C01_precedence_shape.

Theorem C01_precedence_shape_tokens : forall fuel st b,
  tern st = false -> parse_tokens fuel st = Ok b -> wfb_block b = true.
Proof. exact parse_tokens_shape. Qed.
Print Assumptions C01_precedence_shape_tokens.

(* what the shape means, operator by operator *)
Theorem C01_comparisons_do_not_chain : forall l op r,
  wfb (NCmp l op r) = true -> (5 <= lvl l)%nat /\ (5 <= lvl r)%nat.
Proof. exact wfb_cmp_no_chain. Qed.
Print Assumptions C01_comparisons_do_not_chain.

Theorem C01_unary_operators_do_not_stack : forall op p e,
  wfb (NNot op p e) = true \/ wfb (NUMinus op p e) = true -> (8 <= lvl e)%nat.
Proof. exact wfb_unary_no_stack. Qed.
Print Assumptions C01_unary_operators_do_not_stack.

Theorem C01_no_ternary_inside_ternary : forall c q t colon f,
  wfb (NTernary c q t colon f) = true -> nt t = true /\ nt f = true.
Proof. exact wfb_ternary_not_nested. Qed.
Print Assumptions C01_no_ternary_inside_ternary.

Theorem C01_arithmetic_left_associative : forall l op r,
  wfb (NArith l op r) = true ->
  (lvl (NArith l op r) <= lvl l)%nat /\ (lvl (NArith l op r) < lvl r)%nat.
Proof. exact wfb_left_assoc. Qed.
Print Assumptions C01_arithmetic_left_associative.

Theorem C01_and_binds_tighter_than_or : forall l op r,
  (wfb (NAnd l op r) = true -> (3 <= lvl l)%nat /\ (4 <= lvl r)%nat) /\
  (wfb (NOr l op r) = true -> (2 <= lvl l)%nat /\ (3 <= lvl r)%nat).
Proof. exact wfb_and_or. Qed.
Print Assumptions C01_and_binds_tighter_than_or.

(* ---- "short-circuit and/or": the right operand is not evaluated (result and state are those
   after the left operand, whatever the right operand is, even if it would fail) *)
Theorem C01_and_short_circuit : forall files ev l op r st st',
  ev l (set_cur (npos (NAnd l op r)) st) = Val (Some (VBool false)) st' ->
  step files ev (NAnd l op r) st = Val (Some (VBool false)) st'.
Proof. exact and_short. Qed.
Print Assumptions C01_and_short_circuit.

Theorem C01_or_short_circuit : forall files ev l op r st st',
  ev l (set_cur (npos (NOr l op r)) st) = Val (Some (VBool true)) st' ->
  step files ev (NOr l op r) st = Val (Some (VBool true)) st'.
Proof. exact or_short. Qed.
Print Assumptions C01_or_short_circuit.

Theorem C01_and_evaluates_right_when_left_true : forall files ev l op r st st',
  ev l (set_cur (npos (NAnd l op r)) st) = Val (Some (VBool true)) st' ->
  step files ev (NAnd l op r) st =
  obind (ev r st') (fun rv st => need rv st (fun y => truth y st (fun c => Val (Some (VBool c)) st))).
Proof. exact and_long. Qed.
Print Assumptions C01_and_evaluates_right_when_left_true.

Theorem C01_or_evaluates_right_when_left_false : forall files ev l op r st st',
  ev l (set_cur (npos (NOr l op r)) st) = Val (Some (VBool false)) st' ->
  step files ev (NOr l op r) st =
  obind (ev r st') (fun rv st => need rv st (fun y => truth y st (fun c => Val (Some (VBool c)) st))).
Proof. exact or_long. Qed.
Print Assumptions C01_or_evaluates_right_when_left_false.

Theorem C01_logic_takes_booleans_only : forall files ev l op r st st' v,
  ev l (set_cur (npos (NAnd l op r)) st) = Val (Some v) st' -> (forall b, v <> VBool b) ->
  step files ev (NAnd l op r) st = Fail EMeson None st'.
Proof. exact and_needs_bool. Qed.
Print Assumptions C01_logic_takes_booleans_only.

Theorem C01_ternary_evaluates_one_branch : forall files ev c q t colon f st st',
  (ev c (set_cur (npos (NTernary c q t colon f)) st) = Val (Some (VBool true)) st' ->
   step files ev (NTernary c q t colon f) st = ev t st') /\
  (ev c (set_cur (npos (NTernary c q t colon f)) st) = Val (Some (VBool false)) st' ->
   step files ev (NTernary c q t colon f) st = ev f st').
Proof. exact ternary_one_branch. Qed.
Print Assumptions C01_ternary_evaluates_one_branch.

Theorem C01_if_elif_lazy : forall ev kw c eol b rest els st st',
  (ev c st = Val (Some (VBool true)) st' ->
   eval_ifs ev (ICons kw c eol b rest) els st = eval_block ev b st') /\
  (ev c st = Val (Some (VBool false)) st' ->
   eval_ifs ev (ICons kw c eol b rest) els st = eval_ifs ev rest els st').
Proof. exact if_lazy. Qed.
Print Assumptions C01_if_elif_lazy.

(* ---- "floor integer division and modulo" *)
Theorem C01_floor_division_modulo : forall a b : Z, b <> 0%Z ->
  exists q r,
    operator_call (VInt a) OpDiv (Some (VInt b)) = POk (VInt q) /\
    operator_call (VInt a) OpMod (Some (VInt b)) = POk (VInt r) /\
    (a = b * q + r)%Z /\
    ((0 < b)%Z -> (0 <= r < b)%Z) /\ ((b < 0)%Z -> (b < r <= 0)%Z).
Proof. exact int_div_mod. Qed.
Print Assumptions C01_floor_division_modulo.

Theorem C01_quotient_is_floor : forall a b q : Z, (0 < b)%Z ->
  operator_call (VInt a) OpDiv (Some (VInt b)) = POk (VInt q) -> (b * q <= a < b * (q + 1))%Z.
Proof. exact int_div_floor. Qed.
Print Assumptions C01_quotient_is_floor.

Theorem C01_division_by_zero_fails : forall a : Z,
  operator_call (VInt a) OpDiv (Some (VInt 0%Z)) = PInvalid /\
  operator_call (VInt a) OpMod (Some (VInt 0%Z)) = PInvalid.
Proof. exact int_div_zero. Qed.
Print Assumptions C01_division_by_zero_fails.

(* ---- "strict typing with no implicit conversion": outside the operator table every operator /
   operand-type pair is a meson error; inside it the only failures are value errors *)
Theorem C01_strict_typing : forall a op b,
  allowed true (type_of a) op (type_of b) = false -> operator_call a op (Some b) = PInvalid.
Proof. exact outside_table_is_error. Qed.
Print Assumptions C01_strict_typing.

Theorem C01_typed_operators_succeed : forall a op b,
  allowed true (type_of a) op (type_of b) = true -> value_error a op b = false ->
  (exists r, operator_call a op (Some b) = POk r) \/ operator_call a op (Some b) = POom.
Proof. exact inside_table_succeeds. Qed.
Print Assumptions C01_typed_operators_succeed.

Theorem C01_unary_operators_typed : forall a op,
  match op with OpNot | OpBool | OpUMinus => True | _ => False end ->
  (exists r, operator_call a op None = POk r) <->
  match op, type_of a with
  | OpNot, TBool | OpBool, TBool | OpUMinus, TInt => True
  | _, _ => False
  end.
Proof. exact unary_table. Qed.
Print Assumptions C01_unary_operators_typed.

Theorem C01_equality_needs_equal_types : forall a op b r,
  is_eq op = true -> operator_call a op (Some b) = POk r ->
  type_of a = type_of b \/ (type_of a = TInt /\ type_of b = TBool).
Proof. exact equality_same_type. Qed.
Print Assumptions C01_equality_needs_equal_types.

Theorem C01_operators_never_fail_internally : forall a op b, operator_call a op b <> PCrash.
Proof. exact operators_never_crash. Qed.
Print Assumptions C01_operators_never_fail_internally.

(* The table above accepts a bool where an int operand is expected (as the implementation does,
   with a FeatureBroken notice; recorded finding C01:bool-accepted-as-int).  The strict table
   (no such conversion) differs from it exactly in those cells ... *)
Theorem C01_strict_typing_partial : forall a op b,
  allowed true a op b = (allowed false a op b || leak_case a op b)%bool.
Proof. exact strict_table_partial. Qed.
Print Assumptions C01_strict_typing_partial.
(* ... and is violated by the faithful model (1 + true = 2) *)
Theorem C01_strict_typing_refuted :
  exists a op b r, allowed false (type_of a) op (type_of b) = false /\ operator_call a op (Some b) = POk r.
Proof. exact strict_table_refuted. Qed.
Print Assumptions C01_strict_typing_refuted.

(* ---- "sorted dict.keys()" *)
Theorem C01_dict_keys_sorted : forall d,
  exists ks, dict_method d (s2l "keys") [] [] = POk (vstrs ks) /\
             Sorted sle ks /\ Permutation (map fst d) ks.
Proof. exact dict_keys_sorted. Qed.
Print Assumptions C01_dict_keys_sorted.

(* ---- "negative indexing" and bounds *)
Theorem C01_negative_index : forall (l : list value) k,
  (1 <= k <= zlen l)%Z -> py_index l (- k) = py_index l (zlen l - k).
Proof. exact (@py_index_negative value). Qed.
Print Assumptions C01_negative_index.

Theorem C01_index_bounds : forall (l : list value) i,
  operator_call (VArr l) OpIndex (Some (VInt i)) = PInvalid <-> (i < - zlen l \/ zlen l <= i)%Z.
Proof. exact array_index_bounds. Qed.
Print Assumptions C01_index_bounds.

Theorem C01_index_nonnegative : forall (l : list value) i,
  (0 <= i < zlen l)%Z -> py_index l i = nth_error l (Z.to_nat i).
Proof. exact (@py_index_nonneg value). Qed.
Print Assumptions C01_index_nonnegative.

Theorem C01_string_index : forall s i,
  operator_call (VStr s) OpIndex (Some (VInt i)) =
  match py_index s i with Some c => POk (VStr [c]) | None => PInvalid end.
Proof. exact string_index. Qed.
Print Assumptions C01_string_index.

(* ---- "escape decoding in '...' but not in '''...'''" *)
Theorem C01_multiline_strings_are_raw : forall t,
  is_multiline (tk t) = true -> str_value t = Some (body_of (tk t) (ttext t)).
Proof. exact multiline_raw. Qed.
Print Assumptions C01_multiline_strings_are_raw.

Theorem C01_strings_without_backslash_are_literal : forall s,
  no_backslash s = true -> decode_escapes s = Some s.
Proof. exact decode_plain. Qed.
Print Assumptions C01_strings_without_backslash_are_literal.

Theorem C01_escape_table :
  decode_escapes (s2l "a\nb") = Some [97; 10; 98]%N /\
  decode_escapes (s2l "\t\\\'") = Some [9; 92; 39]%N /\
  decode_escapes (s2l "\a\b\f\r\v") = Some [7; 8; 12; 13; 11]%N /\
  decode_escapes (s2l "\x41\101\7\u00e9\U0001F600") = Some [65; 65; 7; 233; 128512]%N /\
  decode_escapes (s2l "\q\8\x4\u12") = Some (s2l "\q\8\x4\u12") /\
  decode_escapes (s2l "\1234") = Some [83; 52]%N /\
  decode_escapes (s2l "\\n") = Some [92; 110]%N.
Proof. exact decode_table. Qed.
Print Assumptions C01_escape_table.

(* ---- "Values are immutable: no operation on one name ever changes the value seen through
   another": a statement leaves every variable it does not assign unchanged, on every path *)
Theorem C01_immutability_frame : forall x files fuel n st,
  safe is_dyn x n = true ->
  opost (fun st' => lookup x (vars st') = lookup x (vars st)) (eval files fuel n st).
Proof. exact frame. Qed.
Print Assumptions C01_immutability_frame.

Theorem C01_immutability_frame_block : forall x files fuel b st,
  safe_block is_dyn x b = true ->
  opost (fun st' => lookup x (vars st') = lookup x (vars st)) (eval_block (eval files fuel) b st).
Proof. exact frame_block. Qed.
Print Assumptions C01_immutability_frame_block.

(* ... also through subdir(), to any depth: if no build file of the project assigns x or calls
   set_variable / unset_variable, no statement with the same property changes x *)
Theorem C01_immutability_frame_project : forall x files fuel n st,
  project_safe x files -> safe is_dyn2 x n = true ->
  opost (fun st' => lookup x (vars st') = lookup x (vars st)) (eval files fuel n st).
Proof. exact frame_project. Qed.
Print Assumptions C01_immutability_frame_project.

(* ... and set_variable / unset_variable write exactly the name they are given *)
Theorem C01_set_variable_writes_its_name_only : forall x ev files name v kw st,
  str_eqb x name = false ->
  opost (fun st' => lookup x (vars st') = lookup x (vars st))
        (call_function ev files (s2l "set_variable") [VStr name; v] kw st).
Proof. exact set_variable_frame. Qed.
Print Assumptions C01_set_variable_writes_its_name_only.

Theorem C01_unset_variable_removes_its_name_only : forall x ev files name kw st,
  str_eqb x name = false ->
  opost (fun st' => lookup x (vars st') = lookup x (vars st))
        (call_function ev files (s2l "unset_variable") [VStr name] kw st).
Proof. exact unset_variable_frame. Qed.
Print Assumptions C01_unset_variable_removes_its_name_only.

(* ---- "foreach over arrays, dictionaries and range() with break/continue": the loop runs over
   the items of the value the iterable had at loop entry *)
Theorem C01_foreach_over_snapshot : forall files ev fe v1 cv2 colon items b endfe st st1 v tsize its,
  ev items (set_cur (npos (NForeach fe v1 cv2 colon items b endfe)) st) = Val (Some v) st1 ->
  iter_items v = Some (tsize, its) ->
  let names := ttext v1 :: match cv2 with Some (_, v2) => [ttext v2] | None => [] end in
  length names = tsize ->
  step files ev (NForeach fe v1 cv2 colon items b endfe) st =
  obind (foreach_loop ev names b its st1) (fun _ st => Val None st).
Proof. exact foreach_snapshot. Qed.
Print Assumptions C01_foreach_over_snapshot.

Theorem C01_foreach_iteration : forall ev names b it rest st st1,
  bind_vars names it st = Val tt st1 ->
  foreach_loop ev names b (it :: rest) st =
  match eval_block ev b st1 with
  | Val _ st2 => foreach_loop ev names b rest st2
  | Cont _ st2 => foreach_loop ev names b rest st2
  | Brk _ st2 => Val tt st2
  | r => r
  end.
Proof. exact foreach_step. Qed.
Print Assumptions C01_foreach_iteration.

(* ---- "subdir() - whose file runs as if written in place, sharing all variables" *)
Theorem C01_subdir_runs_in_place : forall files ev d st code b,
  contains_sub (s2l "..") d = false -> d <> [] -> prefixb [47%N] d = false ->
  ((Nat.eqb (length (sdir st)) 0) && (str_eqb d (s2l "subprojects") || prefixb (s2l "meson-") d))%bool = false ->
  clean_path d = true ->
  let sub := match sdir st with [] => d | p => p ++ 47%N :: d end in
  str_mem sub (visited st) = false ->
  lookup (build_file sub) files = Some code ->
  parse code = Ok b ->
  do_subdir ev files d st =
  obind (map_state (set_sdir (sdir st)) (eval_block ev b (set_sdir sub (set_visited (sub :: visited st) st))))
        (fun _ st => Val None st).
Proof. exact subdir_in_place. Qed.
Print Assumptions C01_subdir_runs_in_place.

(* ---- "subproject(), whose variables are reachable only through get_variable()" *)
Theorem C01_subproject_isolated : forall files ev name st v st',
  do_subproject ev files name st = Val v st' ->
  v = Some (VSub name) /\ vars st' = vars st /\ depth st' = depth st /\ sdir st' = sdir st /\
  visited st' = visited st /\ has_key name (subs st') = true.
Proof. exact subproject_isolated. Qed.
Print Assumptions C01_subproject_isolated.

Theorem C01_subproject_starts_empty : forall dir stk o sb, vars (fresh_state dir stk o sb) = [].
Proof. exact subproject_fresh. Qed.
Print Assumptions C01_subproject_starts_empty.

Theorem C01_identifier_reads_own_store : forall files ev t st,
  is_builtin (ttext t) = false ->
  step files ev (NId t) st =
  match lookup (ttext t) (vars st) with
  | Some v => Val (Some v) (set_cur (tpos t) st)
  | None => Fail EMeson None (set_cur (tpos t) st)
  end.
Proof. exact id_reads_own_vars. Qed.
Print Assumptions C01_identifier_reads_own_store.

Theorem C01_subproject_get_variable : forall sp n st svars,
  lookup sp (subs st) = Some svars ->
  sub_method sp (s2l "get_variable") [VStr n] [] st =
  match lookup n svars with Some v => Val (Some v) st | None => Fail EMeson None st end.
Proof. exact sub_get_variable. Qed.
Print Assumptions C01_subproject_get_variable.

(* ---- evaluation is a function of the build files; more fuel never changes a result *)
Theorem C01_fuel_monotone : forall files f k n st r,
  eval files f n st = r -> r <> OutOfFuel -> eval files (f + k) n st = r.
Proof. exact eval_mono. Qed.
Print Assumptions C01_fuel_monotone.

Theorem C01_run_fuel_monotone : forall files f k r,
  run_root files f = r -> r <> OutOfFuel -> run_root files (f + k) = r.
Proof. exact run_root_mono. Qed.
Print Assumptions C01_run_fuel_monotone.

(* fuel is only a bound on the nesting depth: for statements that enter no other build file
   (no subdir() / subproject()) any fuel above the height of the tree is enough - loops cost none *)
Theorem C01_fuel_suffices : forall files fuel n st,
  (hgt n < fuel)%nat -> local n = true -> eval files fuel n st <> OutOfFuel.
Proof. exact fuel_suffices. Qed.
Print Assumptions C01_fuel_suffices.

Theorem C01_run_fuel_suffices : forall files fuel code b n rest,
  lookup (build_file []) files = Some code -> parse code = Ok b -> first_stmt b = Some (n, rest) ->
  local_block rest = true -> (hgt_block rest < fuel)%nat -> run_root files fuel <> OutOfFuel.
Proof. exact run_fuel_suffices. Qed.
Print Assumptions C01_run_fuel_suffices.

Theorem C01_deterministic : forall files f r1 r2, run_root files f = r1 -> run_root files f = r2 -> r1 = r2.
Proof. exact run_deterministic. Qed.
Print Assumptions C01_deterministic.

(* ---- integers print in decimal up to CPython's 4300-digit limit; beyond it the faithful model
   (like the implementation) ends in an internal error: recorded finding
   C01:internal-error:ValueError:int-str-limit *)
Theorem C01_int_rendering_partial : forall z,
  printable z = true -> stringify false (VInt z) = POk (Strs.Z_dec z).
Proof. exact int_render_partial. Qed.
Print Assumptions C01_int_rendering_partial.
Theorem C01_int_rendering_guard : forall z, printable z = true <-> (Z.abs z < 10 ^ 4300)%Z.
Proof. exact printable_spec. Qed.
Print Assumptions C01_int_rendering_guard.
Theorem C01_int_rendering_refuted : exists z, stringify false (VInt z) = PCrash.
Proof. exact int_render_refuted. Qed.
Print Assumptions C01_int_rendering_refuted.
