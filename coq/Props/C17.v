(* Props/C17.v — the property theorems of C17 (rewriter edits are local and keep everything
   else meaning the same), about the models coq/Syntax/AstPrint.v (AstPrinter, after the pending
   fixes C17-printer-parentheses, -escape, -trailing-blanks) and coq/Rewrite/{Splice,Edits}.v (Rewriter.apply_changes after
   C17-rewriter-line-offsets, source-list and keyword edits), read back by the parser model
   of C02 (coq/Syntax/{Lexer,Parser}.v). *)
From MV Require Import Base.Strs Syntax.Lexer Syntax.Parser Syntax.LexerFacts Syntax.ParserMono
  Syntax.AstPrint Syntax.EscapeFacts Syntax.NumFacts Syntax.RoundTrip Syntax.RoundTripFuel Syntax.ParserDet Syntax.StripMeaning Syntax.Shipped
  Rewrite.Splice Rewrite.Edits Rewrite.Proofs.
From Coq Require Import Permutation.

(* "every other argument of a re-printed statement still evaluates to the value it had before -
   operator grouping ... preserved": for EVERY expression tree the parser can produce at all
   (printable: no ternary inside the branches of a ternary, integer literals Python can hold),
   with or without ParenthesizedNodes, the tokens AstPrinter emits for it are read back by the
   parser as the same tree up to redundant parentheses - as a whole statement ... *)
Theorem C17_print_parse_roundtrip : forall ep e ts,
  printable e = true -> map tkt ts = ptoks e ->
  exists nd, strip_parens (abs nd) = strip_parens e /\
    exists n0, forall n, n0 <= n -> parse_tokens n (mkP ts None ep false) = Ok (BLine nd None BNil).
Proof. exact print_parse_statement. Qed.
Print Assumptions C17_print_parse_roundtrip.

(* ... and in every operand position (argument of a call, element of an array, value of a
   keyword, index), whatever follows it, also inside a ternary branch. *)
Theorem C17_print_parse_operand : forall ep e ts rest tn,
  printable e = true -> (tn = true -> no_tern e = true) ->
  map tkt ts = ptoks e -> stopk 1 (hdk rest) = true ->
  exists nd, strip_parens (abs nd) = strip_parens e /\
    exists n0, forall n, n0 <= n ->
      p_e1 (P n) (mkP (ts ++ rest) None ep tn) = Ok (nd, mkP rest None ep tn).
Proof. exact print_parse_operand. Qed.
Print Assumptions C17_print_parse_operand.

(* With the parenthesization AS SHIPPED (only under arithmetic nodes; pending fix
   C17-printer-parentheses) the statement is false: `not (a and b)` is read back as `(not a) and b`. *)
Theorem C17_shipped_parentheses_refuted :
  exists e, printable e = true /\
    forall nd, reparse0 e = Ok (BLine nd None BNil) -> strip_parens (abs nd) <> strip_parens e.
Proof. exact shipped_parentheses_refuted. Qed.
Print Assumptions C17_shipped_parentheses_refuted.

(* What equality up to redundant parentheses means: equal values under every evaluator defined
   by structural recursion in which a parenthesized node has the value of its inner node. *)
Theorem C17_same_tree_same_value :
  forall (V VL VK VD : Type) fbool fid fnum fstr farr fdict ffunc fmeth fidx fnot fneg far fcmp fand forr ftern fnon
         lnil lcons knil kcons dnil dcons e1 e2,
  strip_parens e1 = strip_parens e2 ->
  ev V VL VK VD fbool fid fnum fstr farr fdict ffunc fmeth fidx fnot fneg far fcmp fand forr ftern fnon
     lnil lcons knil kcons dnil dcons e1 =
  ev V VL VK VD fbool fid fnum fstr farr fdict ffunc fmeth fidx fnot fneg far fcmp fand forr ftern fnon
     lnil lcons knil kcons dnil dcons e2.
Proof. exact strip_equal_eval. Qed.
Print Assumptions C17_same_tree_same_value.

(* The parser's fuel is only a recursion bound: more fuel never changes an accepted result
   (so "for all n >= n0" above is the same as "for some n"). *)
Theorem C17_parser_fuel_monotone : forall n m, n <= m -> le_p (P n) (P m).
Proof. exact P_mono. Qed.
Print Assumptions C17_parser_fuel_monotone.

(* "string contents ... preserved": decoding the literal AstPrinter writes gives back the value,
   for every string (quotes, backslashes, newlines, any code point) ... *)
Theorem C17_escape_roundtrip : forall v, decode 0 (escape v) = v.
Proof. exact decode_escape. Qed.
Print Assumptions C17_escape_roundtrip.
(* ... which is false for the escape table AS SHIPPED (' mapped to itself; pending fix
   C17-printer-escape): the literal written for  it's  is not one string token. *)
Theorem C17_shipped_escape_refuted :
  exists v, lex (c_sq :: escape0 v ++ [c_sq]) <> LOk [mkTok KStr (c_sq :: escape0 v ++ [c_sq]) 1 0 0].
Proof. exact shipped_escape_refuted. Qed.
Print Assumptions C17_shipped_escape_refuted.
(* ... for all four kinds of string literal the value of the printed token is the value printed
   and the parser accepts its escapes ... *)
Theorem C17_string_value : forall f m v, str_value (str_kind f m) (str_text f m v) = v.
Proof. exact str_value_text. Qed.
Print Assumptions C17_string_value.
(* ... and the lexer reads the printed single-quoted literal as exactly one 'string' token,
   whatever follows it except another quote (the printer puts ',', ')', ']', ' ' or a newline there). *)
Theorem C17_string_literal_lexes : forall v rest,
  hd_not_sq rest ->
  first_match (str_text false false v ++ rest) = Some (RK KStr, length (str_text false false v)).
Proof. exact printed_string_first_match. Qed.
Print Assumptions C17_string_literal_lexes.
(* integer literals: NumberNode(str(v)).value = v *)
Theorem C17_number_roundtrip : forall n, num_value (N_dec n) = n.
Proof. exact num_value_dec. Qed.
Print Assumptions C17_number_roundtrip.

(* "Every statement other than the edited one is textually unchanged": replacing pairwise
   disjoint extents, last extent first, keeps every character outside the extents, in order,
   and puts each new text exactly where its extent was. *)
Theorem C17_splice_local : forall es text,
  asc_ok 0 (length text) es -> fold_left apply_off (rev es) text = splice 0 text es.
Proof. exact splice_local. Qed.
Print Assumptions C17_splice_local.
(* The (line, column) the lexer records for a point of the text (C02_token_positions) is
   converted to exactly that point by the '\n'-based line offsets, for every text ... *)
Theorem C17_extent_offset : forall pre rest,
  pos_offset (line_offsets (pre ++ rest)) (N.to_nat (line_of pre)) (N.to_nat (col_of pre)) = length pre.
Proof. exact extent_offset. Qed.
Print Assumptions C17_extent_offset.
(* ... which is false for str.splitlines() (the shipped code; pending fix C17-rewriter-line-offsets). *)
Theorem C17_line_offsets_splitlines_refuted :
  exists pre rest,
    pos_offset (line_offsets_splitlines (pre ++ rest)) (N.to_nat (line_of pre)) (N.to_nat (col_of pre)) <> length pre.
Proof. exact line_offsets_splitlines_refuted. Qed.
Print Assumptions C17_line_offsets_splitlines_refuted.

(* "the addressed target ... has exactly the requested new value": after 'add' the sources are
   the old ones and the requested ones, nothing else (for every sort that permutes) ... *)
Theorem C17_add_src_exact : forall sort, (forall l, Permutation (sort l) l) ->
  forall old news x, In x (add_src sort old news) <-> In x old \/ In x news.
Proof. exact add_src_spec. Qed.
Print Assumptions C17_add_src_exact.
(* ... 'rm' removes nothing but the requested files ... *)
Theorem C17_rm_src_others : forall sort, (forall l, Permutation (sort l) l) ->
  forall old gone x, ~ In x gone -> (In x (rm_src sort old gone) <-> In x old).
Proof. exact rm_src_others. Qed.
Print Assumptions C17_rm_src_others.
(* "adding then removing a new file restores the original source set" (even as a multiset) ... *)
Theorem C17_add_then_rm_restores : forall sort, (forall l, Permutation (sort l) l) ->
  forall old f, ~ In f old -> Permutation (rm_src sort (add_src sort old [f]) [f]) old.
Proof. exact rm_add_new. Qed.
Print Assumptions C17_add_then_rm_restores.
(* ... "removing then adding an existing one keeps it". *)
Theorem C17_rm_then_add_keeps : forall sort, (forall l, Permutation (sort l) l) ->
  forall old f, In f old -> set_eq (add_src sort (rm_src sort old [f]) [f]) old.
Proof. exact add_rm_existing. Qed.
Print Assumptions C17_rm_then_add_keeps.

(* kwargs set / delete: the addressed keyword gets the value, every other keyword argument keeps
   its value and its place ("argument order ... preserved"). *)
Theorem C17_kw_set_value : forall V k (v : V) d, kw_get k (kw_set k v d) = Some v.
Proof. exact kw_set_get. Qed.
Print Assumptions C17_kw_set_value.
Theorem C17_kw_set_others : forall V k (v : V) d, kw_others V k (kw_set k v d) = kw_others V k d.
Proof. exact kw_set_others. Qed.
Print Assumptions C17_kw_set_others.
Theorem C17_kw_del_gone : forall V k (d : kws V), NoDup (kw_keys d) -> kw_get k (kw_del k d) = None.
Proof. exact kw_del_get. Qed.
Print Assumptions C17_kw_del_gone.
Theorem C17_kw_del_others : forall V k (d : kws V), kw_others V k (kw_del k d) = kw_others V k d.
Proof. exact kw_del_others. Qed.
Print Assumptions C17_kw_del_others.

(* default-options set: every requested option is present with its value, no older entry for it
   survives, the entries of all other options are untouched and keep their order. *)
Theorem C17_opts_set_present : forall l kvs k v, In (k, v) kvs -> In (opt_entry k v) (opts_set l kvs).
Proof. exact opts_set_has. Qed.
Print Assumptions C17_opts_set_present.
Theorem C17_opts_set_exact : forall l kvs x,
  In x (opts_set l kvs) -> keyed (map fst kvs) x = true -> In x (map (fun kv => opt_entry (fst kv) (snd kv)) kvs).
Proof. exact opts_set_exact. Qed.
Print Assumptions C17_opts_set_exact.
Theorem C17_opts_set_others : forall l kvs,
  filter (fun x => negb (keyed (map fst kvs) x)) (opts_set l kvs) = filter (fun x => negb (keyed (map fst kvs) x)) l.
Proof. exact opts_set_others. Qed.
Print Assumptions C17_opts_set_others.
Theorem C17_opts_delete_gone : forall l keys x, In x (opts_remove l keys) -> keyed keys x = false.
Proof. exact opts_remove_gone. Qed.
Print Assumptions C17_opts_delete_gone.

(* Nested modified nodes (a call and an array inside it): apply_changes splices only the
   outermost ones.  Nothing is dropped - every modified node is a kept one or lies inside a kept
   one, which is re-printed as a whole ... *)
Theorem C17_outermost_covers : forall es x, In x es ->
  exists y, In y (outermost es) /\ (x = y \/ is_inside x y = true).
Proof. exact outermost_covers. Qed.
Print Assumptions C17_outermost_covers.
(* ... the kept extents of a laminar family (nested or disjoint, as node extents are) are pairwise
   disjoint ... *)
Theorem C17_outermost_disjoint : forall es x y, laminar es ->
  In x (outermost es) -> In y (outermost es) -> x = y \/ ends_before x y \/ ends_before y x.
Proof. exact outermost_disjoint. Qed.
Print Assumptions C17_outermost_disjoint.
(* ... and so the whole of apply_changes' replacement step, filter and descending sort included,
   changes only text inside the kept extents: it equals [splice] (C17_splice_local). *)
Theorem C17_splice_outermost_local : forall text es,
  laminar es -> (forall x, In x es -> nonempty x) -> NoDup es ->
  monotone_on (line_offsets text) es ->
  (forall x, In x es -> pos_offset (line_offsets text) (e_el x) (e_ec x) <= length text) ->
  apply_edits text es =
  splice 0 text (rev (map (edit_off (line_offsets text)) (sort_desc (outermost es)))).
Proof. exact splice_outermost_local. Qed.
Print Assumptions C17_splice_outermost_local.

(* rm_target of an assigned target `name = call(...)`: exactly the statement and the white space
   after it are removed - the text before it and everything from the next non-blank character
   on is kept, also when nothing follows (the former IndexError). *)
Theorem C17_rm_assign_exact : forall (pre name ws1 value ws2 rest : list N),
  (forall c, In c name -> c <> 61%N) -> forallb is_ws ws1 = true -> forallb is_ws ws2 = true ->
  match rest with c :: _ => is_ws c = false | [] => True end ->
  rm_assign (pre ++ name ++ 61%N :: ws1 ++ value ++ ws2 ++ rest)
            (length pre) (length (pre ++ name ++ 61%N :: ws1)) (length (pre ++ name ++ 61%N :: ws1) + length value)
  = pre ++ rest.
Proof. exact rm_assign_exact. Qed.
Print Assumptions C17_rm_assign_exact.

(* For the extents of real nodes the premises about offsets are theorems: positions the lexer
   records are ordered like the offsets they denote (with C17_extent_offset), so for every
   laminar family of distinct, non-empty extents whose end points are positions of the text
   the replacement step of apply_changes changes only text inside the outermost extents. *)
Theorem C17_splice_outermost_nodes : forall text es,
  laminar es -> NoDup es ->
  (forall x, In x es -> at_prefix text (e_sl x) (e_sc x) /\ at_prefix text (e_el x) (e_ec x) /\ nonempty x) ->
  apply_edits text es =
  splice 0 text (rev (map (edit_off (line_offsets text)) (sort_desc (outermost es)))).
Proof. exact splice_outermost_nodes. Qed.
Print Assumptions C17_splice_outermost_nodes.

(* "all rewriter commands and short command sequences": for EVERY sequence of add / rm commands a
   file none of them names is a source afterwards iff it was one before ... *)
Theorem C17_src_sequence_frame : forall sort, (forall l, Permutation (sort l) l) ->
  forall ops old x, (forall o, In o ops -> ~ In x (op_files o)) ->
  (In x (fold_left (apply_src sort) ops old) <-> In x old).
Proof. exact src_sequence_frame. Qed.
Print Assumptions C17_src_sequence_frame.
(* ... and for every sequence of kwargs set / delete commands the keyword arguments they do not
   address keep their values and their order. *)
Theorem C17_kw_sequence_frame : forall V (ops : list (kw_op V)) (d : kws V) (ks : list str),
  (forall o, In o ops -> In (kw_op_key o) ks) ->
  fold_right (fun k acc => kw_others V k acc) (fold_left apply_kw ops d) ks =
  fold_right (fun k acc => kw_others V k acc) d ks.
Proof. intros V. exact (@kw_sequence_frame V). Qed.
Print Assumptions C17_kw_sequence_frame.

(* Which build file the strings of a source list are relative to (Rewriter.get_relto): strings that
   pass through a files() call belong to the directory of that call's build file, whatever the
   directory of the target is; plain strings belong to the directory of the target's build file. *)
Theorem C17_relto_through_call : forall pre f rest,
  forallb (fun n => negb (pn_func n)) pre = true -> pn_func f = true ->
  relto [pre ++ f :: rest] = Some (pn_dir f).
Proof. exact relto_through_call. Qed.
Print Assumptions C17_relto_through_call.
Theorem C17_relto_plain : forall pre target,
  forallb (fun n => negb (pn_func n)) pre = true -> pn_func target = true ->
  relto [pre ++ [target]] = Some (pn_dir target).
Proof. exact relto_plain. Qed.
Print Assumptions C17_relto_plain.

(* The round trip at the fuel [parse] really uses (30 * tokens + 60): with C02_parser_total's fuel
   bound and the determinacy of the parser in its fuel, "for all sufficiently large fuel" in
   C17_print_parse_roundtrip becomes "for the parser as it runs". *)
Theorem C17_print_parse_roundtrip_fuel : forall ep e ts,
  printable e = true -> map tkt ts = ptoks e ->
  exists nd, strip_parens (abs nd) = strip_parens e /\
    forall n, n >= parser_fuel (length ts) -> parse_tokens n (mkP ts None ep false) = Ok (BLine nd None BNil).
Proof. exact RoundTripFuel.print_parse_statement_fuel. Qed.
Print Assumptions C17_print_parse_roundtrip_fuel.
(* a tree or a located rejection does not depend on the fuel *)
Theorem C17_parser_fuel_deterministic : forall n m st,
  n <= m -> parse_tokens n st <> Fuel -> parse_tokens m st = parse_tokens n st.
Proof. exact ParserDet.parse_tokens_det. Qed.
Print Assumptions C17_parser_fuel_deterministic.
