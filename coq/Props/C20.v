(* Props/C20.v — the property theorems of C20, and nothing else.
   Models: Cargo/SemVer.v, Cargo/Req.v, Cargo/Cfg.v (mesonbuild/cargo/version.py and
   cfg.py with the four pending/C20-*.diff patches applied); declarative side:
   Cargo/Spec.v.  V s is SemVer(s)._v. *)
From MV Require Import Base.Strs Cargo.SemVer Cargo.Req Cargo.Cfg Cargo.Spec
  Cargo.SemVerProofs Cargo.ReqProofs Cargo.ParseProofs Cargo.ReqStrProofs Cargo.CfgProofs Cargo.PreProofs Cargo.GlueProofs Cargo.ApiProofs.

(* "For every Cargo requirement (bare/caret, tilde, wildcard, =, <, <=, >, >=, comma
   lists, partial versions) and every release version, acceptance equals the rule of
   Cargo's semver matcher, with the two deviations the project pins in its own tests"
   — for every printed requirement [ol ++ pr_req l ++ ot] (any blanks, any digit
   strings, any number of comma-separated pieces incl. `*`) and every release version
   text, cargo_parse(req)(version) = Spec.cargo_matches. *)
Theorem C20_requirement_is_cargo_rule : forall ol ot l pv,
  all_space ol = true -> all_space ot = true -> forallb wf_piece l = true -> edges_ok l ->
  wf_pversion pv = true -> ppre pv = [] ->
  req_matches (ol ++ pr_req l ++ ot) (pr_version pv) = cargo_matches (comps_of l) (version_of pv).
Proof. exact req_matches_release. Qed.
Print Assumptions C20_requirement_is_cargo_rule.

(* the same at the level of the constraint list cargo_parse builds, for all numbers:
   the bounds produced for one comparator hold iff Cargo's rule (with the deviations:
   partial = / > padded with zero, all-zero caret means < 1.0.0) accepts *)
Theorem C20_constraints_are_cargo_rule : forall c v,
  wf_comparator c = true -> vpre v = [] ->
  holds (vvec v) (constraints_of (rop_of (c_op c)) (csem c)) = matches_comp c v.
Proof. exact constraints_match. Qed.
Print Assumptions C20_constraints_are_cargo_rule.

(* split() on a printed requirement yields exactly its comparators, and SemVer() of a
   printed partial version is the comparator's vector and specified_count *)
Theorem C20_split_printed : forall ol ot l,
  all_space ol = true -> all_space ot = true -> forallb wf_piece l = true -> edges_ok l ->
  req_split (ol ++ pr_req l ++ ot) = flat_map part_of l.
Proof. exact req_split_printed. Qed.
Print Assumptions C20_split_printed.
Theorem C20_semver_of_partial : forall p, wf_pcomp p = true ->
  semver_of_str (pr_partial p) = csem (comparator_of p).
Proof. exact semver_of_partial. Qed.
Print Assumptions C20_semver_of_partial.

(* "Versions order per SemVer section 11 (pre-releases below their release, numeric
   identifiers below alphanumeric, build metadata ignored)" *)
(* ... the comparison is a total order on ALL version strings *)
Theorem C20_order_trichotomy : forall a b : str,
  (bop_apply BLt (V a) (V b) = true /\ bop_apply BEq (V a) (V b) = false /\ bop_apply BGt (V a) (V b) = false) \/
  (bop_apply BLt (V a) (V b) = false /\ bop_apply BEq (V a) (V b) = true /\ bop_apply BGt (V a) (V b) = false) \/
  (bop_apply BLt (V a) (V b) = false /\ bop_apply BEq (V a) (V b) = false /\ bop_apply BGt (V a) (V b) = true).
Proof. intros; exact (sv_trichotomy (V a) (V b)). Qed.
Print Assumptions C20_order_trichotomy.
Theorem C20_order_lt_trans : forall a b c : str,
  bop_apply BLt (V a) (V b) = true -> bop_apply BLt (V b) (V c) = true -> bop_apply BLt (V a) (V c) = true.
Proof. intros a b c; exact (sv_lt_trans (V a) (V b) (V c)). Qed.
Print Assumptions C20_order_lt_trans.
Theorem C20_order_le_trans : forall a b c : str,
  bop_apply BLe (V a) (V b) = true -> bop_apply BLe (V b) (V c) = true -> bop_apply BLe (V a) (V c) = true.
Proof. intros a b c; exact (sv_le_trans (V a) (V b) (V c)). Qed.
Print Assumptions C20_order_le_trans.
Theorem C20_order_le_total : forall a b : str,
  bop_apply BLe (V a) (V b) = true \/ bop_apply BLe (V b) (V a) = true.
Proof. intros; exact (sv_le_total (V a) (V b)). Qed.
Print Assumptions C20_order_le_total.
Theorem C20_order_le_antisym : forall a b : str,
  bop_apply BLe (V a) (V b) = true -> bop_apply BLe (V b) (V a) = true -> bop_apply BEq (V a) (V b) = true.
Proof. intros a b H1 H2. apply sv_eq_is_equal. exact (sv_le_antisym (V a) (V b) H1 H2). Qed.
Print Assumptions C20_order_le_antisym.
Theorem C20_order_operators_consistent : forall a b : str,
  bop_apply BLe (V a) (V b) = bop_apply BLt (V a) (V b) || bop_apply BEq (V a) (V b) /\
  bop_apply BGe (V a) (V b) = bop_apply BGt (V a) (V b) || bop_apply BEq (V a) (V b) /\
  bop_apply BNe (V a) (V b) = negb (bop_apply BEq (V a) (V b)) /\
  bop_apply BLt (V a) (V b) = bop_apply BGt (V b) (V a) /\
  bop_apply BLe (V a) (V b) = bop_apply BGe (V b) (V a).
Proof.
  intros a b.
  exact (conj (sv_le_is_lt_or_eq _ _) (conj (sv_ge_is_gt_or_eq _ _) (conj (sv_ne_is_not_eq _ _)
         (conj (sv_lt_gt_swap _ _) (sv_le_ge_swap _ _))))).
Qed.
Print Assumptions C20_order_operators_consistent.
(* ... __cmp is the lexicographic order with ints below strs and longer above prefix *)
Theorem C20_cmp_is_lexicographic : forall k a b, sv_cmp k a b = k_of k (vcmp a b).
Proof. exact sv_cmp_lex. Qed.
Print Assumptions C20_cmp_is_lexicographic.

(* ... and it is the section 11 precedence of the structured versions.  At full
   strength (every SemVer-valid version) the statement is FALSE for the code as it is:
   1.0.0-alpha.1b < 1.0.0-alpha.2 (recorded finding C20:prerelease-ident-split) *)
Theorem C20_semver_precedence_refuted : exists p q,
  valid_pversion p = true /\ valid_pversion q = true /\
  bop_apply BLt (V (pr_version p)) (V (pr_version q)) <> b_of BLt (prec_cmp (version_of p) (version_of q)).
Proof. exact semver_order_refuted. Qed.
Print Assumptions C20_semver_precedence_refuted.
(* the strongest true guard: identifiers after a '.' are numeric or start with a
   letter or '-' (wf_pversion; the first identifier is unrestricted) *)
Theorem C20_semver_precedence_partial : forall o p q,
  wf_pversion p = true -> wf_pversion q = true ->
  bop_apply o (V (pr_version p)) (V (pr_version q)) = b_of o (prec_cmp (version_of p) (version_of q)).
Proof. exact semver_order_printed. Qed.
Print Assumptions C20_semver_precedence_partial.
Theorem C20_semver_parse_partial : forall p, wf_pversion p = true ->
  semver_of_str (pr_version p) = mkSemVer (vvec (version_of p)) 3.
Proof. exact semver_of_printed. Qed.
Print Assumptions C20_semver_parse_partial.
Theorem C20_build_metadata_ignored_partial : forall p b, wf_pversion p = true ->
  semver_of_str (pr_version (mkPV (pmaj p) (pmin p) (ppat p) (ppre p) b)) = semver_of_str (pr_version p).
Proof. exact build_metadata_ignored. Qed.
Print Assumptions C20_build_metadata_ignored_partial.
Theorem C20_prerelease_below_release_partial : forall p, wf_pversion p = true -> ppre p <> [] ->
  bop_apply BLt (V (pr_version p)) (V (pr_version (mkPV (pmaj p) (pmin p) (ppat p) [] (pbuild p)))) = true.
Proof. exact prerelease_below_release. Qed.
Print Assumptions C20_prerelease_below_release_partial.

(* "a pre-release never satisfies a requirement that names no pre-release" — for ALL
   requirement strings and ALL version strings *)
Theorem C20_prerelease_gate : forall req ver : str,
  has_prerelease (semver_of_str ver) = true ->
  existsb (fun p => has_prerelease (semver_of_str (snd p))) (req_split req) = false ->
  req_matches req ver = false.
Proof. exact prerelease_gate. Qed.
Print Assumptions C20_prerelease_gate.
Theorem C20_prerelease_gate_printed : forall ol ot l pv,
  all_space ol = true -> all_space ot = true -> forallb wf_piece l = true -> edges_ok l ->
  wf_pversion pv = true -> ppre pv <> [] -> names_prerelease (comps_of l) = false ->
  req_matches (ol ++ pr_req l ++ ot) (pr_version pv) = false.
Proof. exact req_gate_printed. Qed.
Print Assumptions C20_prerelease_gate_printed.

(* "every cfg() expression evaluates to the Boolean value of its all/any/not/name/
   name="value" structure against the given configuration" — any nesting depth, any
   blanks a (around '=' and after ',') and b (inside parentheses) *)
Theorem C20_cfg_eval : forall a b e d,
  all_space a = true -> all_space b = true -> wf_atoms e = true ->
  eval_cfg (s2l "cfg(" ++ pr_cfg a b e ++ [41]) d = Ok (sem e d).
Proof. exact eval_cfg_printed. Qed.
Print Assumptions C20_cfg_eval.

(* "and malformed expressions are rejected with a MesonException rather than
   mis-evaluated": the parser accepts a token list only if it is the canonical token
   list of the expression it returns; whatever eval_cfg evaluates lexes to such a list
   and the answer is that expression's meaning; the only other outcome is
   MesonException (the model never runs out of fuel); an unbalanced quote is rejected *)
Theorem C20_cfg_parser_sound : forall ts e, parse ts = ParseOk e -> ts = tokens_of e.
Proof. exact parse_sound. Qed.
Print Assumptions C20_cfg_parser_sound.
Theorem C20_cfg_parser_complete : forall e, parse (tokens_of e) = ParseOk e.
Proof. exact parse_complete. Qed.
Print Assumptions C20_cfg_parser_complete.
Theorem C20_cfg_accepts_only_expressions : forall raw d bv,
  prefixb (s2l "cfg(") raw && suffixb [c_rp] raw = true ->
  eval_cfg raw d = Ok bv ->
  exists e, lexer (slice_4_m1 raw) = Some (tokens_of e) /\ bv = sem e d.
Proof. exact eval_cfg_accepts_only_expressions. Qed.
Print Assumptions C20_cfg_accepts_only_expressions.
Theorem C20_cfg_total : forall raw d, eval_cfg raw d <> OutOfFuel.
Proof. exact eval_cfg_total. Qed.
Print Assumptions C20_cfg_total.
Theorem C20_cfg_unbalanced_quote_rejected : forall raw d,
  prefixb (s2l "cfg(") raw && suffixb [c_rp] raw = true ->
  quotes_odd (slice_4_m1 raw) false = true -> eval_cfg raw d = MesonErr.
Proof. exact odd_quotes_rejected. Qed.
Print Assumptions C20_cfg_unbalanced_quote_rejected.

(* ---- extension: pre-release versions against requirements that name a pre-release ---- *)
(* for EVERY printed requirement and EVERY printed version (release or pre-release)
   cargo_parse(req)(version) is: every comparator's section-11 bounds hold, and a
   pre-release needs some comparator that names a pre-release (Spec.meson_matches) *)
Theorem C20_requirement_all_versions_partial : forall ol ot l pv,
  all_space ol = true -> all_space ot = true -> forallb wf_piece l = true -> edges_ok l ->
  wf_pversion pv = true ->
  req_matches (ol ++ pr_req l ++ ot) (pr_version pv) = meson_matches (comps_of l) (version_of pv).
Proof. exact PreProofs.req_matches_all. Qed.
Print Assumptions C20_requirement_all_versions_partial.
Theorem C20_constraints_all_versions : forall c v, wf_comparator c = true ->
  holds (vvec v) (constraints_of (rop_of (c_op c)) (csem c)) = meson_comp c v.
Proof. exact PreProofs.constraints_all_versions. Qed.
Print Assumptions C20_constraints_all_versions.
(* on releases those bounds are Cargo's rule *)
Theorem C20_bounds_are_cargo_rule_on_releases : forall c v, wf_comparator c = true -> vpre v = [] ->
  meson_comp c v = matches_comp c v.
Proof. exact PreProofs.meson_comp_release. Qed.
Print Assumptions C20_bounds_are_cargo_rule_on_releases.
(* "acceptance equals Cargo's matcher" extended to pre-release versions is FALSE in both
   directions: meson's gate is weaker than Cargo's same-major.minor.patch rule ... *)
Theorem C20_prerelease_cargo_refuted_meson_accepts : exists req v,
  forallb wf_comparator req = true /\ forallb is_full req = true /\
  meson_matches req v = true /\ cargo_matches req v = false /\
  req_matches (s2l ">=1.0.0-alpha") (s2l "2.0.0-beta") = true.
Proof. exact PreProofs.meson_not_cargo_on_prerelease. Qed.
Print Assumptions C20_prerelease_cargo_refuted_meson_accepts.
(* ... and Cargo's partial caret/tilde ignore the version's pre-release where meson's
   bounds do not *)
Theorem C20_prerelease_cargo_refuted_cargo_accepts : exists req v,
  forallb wf_comparator req = true /\
  cargo_matches req v = true /\ meson_matches req v = false /\
  req_matches (s2l "^1.2, >=1.2.0-alpha") (s2l "1.2.0-alpha") = false.
Proof. exact PreProofs.cargo_not_meson_on_prerelease. Qed.
Print Assumptions C20_prerelease_cargo_refuted_cargo_accepts.
(* the strongest true relation: with comparators that spell out major.minor.patch,
   every version Cargo accepts (release or pre-release) is accepted by meson *)
Theorem C20_prerelease_cargo_partial : forall req v,
  forallb wf_comparator req = true -> forallb is_full req = true ->
  cargo_matches req v = true -> meson_matches req v = true.
Proof. exact PreProofs.cargo_implies_meson. Qed.
Print Assumptions C20_prerelease_cargo_partial.

(* ---- extension: the callers (manifest.py:735-740, interpreter.py:520-530, 701-719) ---- *)
(* CargoLock._versions sorts newest first (a permutation of the lock entries) and
   Interpreter._resolve_package returns the most recent entry the requirement accepts,
   None exactly when no entry is accepted — for all requirement and version strings *)
Theorem C20_lock_versions_sorted : forall l,
  Permutation.Permutation (sort_desc l) l /\
  Sorted.StronglySorted (fun a b => bop_apply BLt (V a) (V b) = false) (sort_desc l).
Proof. intro l. split; [apply GlueProofs.sort_desc_perm | apply GlueProofs.sort_desc_sorted]. Qed.
Print Assumptions C20_lock_versions_sorted.
Theorem C20_resolve_most_recent : forall req l v, resolve_package req l = Some v ->
  In v l /\ req_matches req v = true /\
  forall w, In w l -> req_matches req w = true -> bop_apply BLt (V v) (V w) = false.
Proof. exact GlueProofs.resolve_most_recent. Qed.
Print Assumptions C20_resolve_most_recent.
Theorem C20_resolve_none : forall req l, resolve_package req l = None ->
  forall w, In w l -> req_matches req w = false.
Proof. exact GlueProofs.resolve_none. Qed.
Print Assumptions C20_resolve_none.
(* _get_cfgs builds a dict: eval_cfg sees the LAST value rustc printed for a key *)
Theorem C20_cfg_dict_keeps_last : forall k ps, lookup k (dict_of ps) = GlueProofs.last_value k ps None.
Proof. exact GlueProofs.lookup_dict_of. Qed.
Print Assumptions C20_cfg_dict_keeps_last.
(* "name = value holds iff rustc printed that pair" is FALSE for the code as it is
   (target_feature="sse" followed by target_feature="sse2"): finding C20:cfg-multivalued-key *)
Theorem C20_cfg_pairs_refuted : exists lines n v,
  In (n, v) (map split_cfg lines) /\
  match get_cfgs lines [] with Some d => eval_ir (Equal n v) d | None => true end = false.
Proof. exact GlueProofs.cfg_pair_test_refuted. Qed.
Print Assumptions C20_cfg_pairs_refuted.
(* true when the key is single-valued *)
Theorem C20_cfg_pairs_partial : forall n v ps,
  (forall v', In (n, v') ps -> v' = v) -> In (n, v) ps -> eval_ir (Equal n v) (dict_of ps) = true.
Proof. exact GlueProofs.cfg_pair_test_partial. Qed.
Print Assumptions C20_cfg_pairs_partial.

(* ---- extension: version.api (names of the generated subprojects) ---- *)
(* x.y.z -> x, 0.x.y -> 0.x, 0.0.x -> 0 for the text of every comparator ... *)
Theorem C20_api_of_partial : forall p, wf_pcomp p = true -> api_of (pr_partial p) = ApiOk (ApiProofs.api_class p).
Proof. exact ApiProofs.api_of_partial. Qed.
Print Assumptions C20_api_of_partial.
(* ... and for every printed requirement: the common class of its lower-bound
   comparators, '' without one, MesonException when they disagree *)
Theorem C20_api_printed : forall ol ot l,
  all_space ol = true -> all_space ot = true -> forallb wf_piece l = true -> edges_ok l ->
  api (ol ++ pr_req l ++ ot) =
  match ApiProofs.classes l [] with [] => ApiOk [] | [a] => ApiOk a | _ => ApiMesonErr end.
Proof. exact ApiProofs.api_printed. Qed.
Print Assumptions C20_api_printed.

(* ---- a manifest Dependency object (accepts_version / api caches, update_version) ---- *)
(* whatever was read or updated before, a read is answered by the requirement of the
   last update_version (or the initial one): acceptance is the rule of the requirement
   in force *)
Theorem C20_dependency_reads_by_requirement_in_force : forall req ops o x,
  dep_read (GlueProofs.last_update req ops) o = Some x ->
  dep_run req (ops ++ [o]) = dep_run req ops ++ [x].
Proof. exact GlueProofs.dep_reads_by_requirement_in_force. Qed.
Print Assumptions C20_dependency_reads_by_requirement_in_force.

(* ---- sequences of Interpreter._get_cfgs calls on one interpreter / one caching compiler ---- *)
(* the configuration a (machine, subproject) gets is rustc's lines plus its own --cfg
   flags, independent of every call made before it *)
Theorem C20_get_cfgs_calls_independent : forall flagsof lines calls,
  gc_session (mkG lines []) (map (GlueProofs.with_flags flagsof) calls) =
  map (fun c => match get_cfgs lines (flagsof (fst c)) with
                | Some d => Some (eval_cfg (snd c) d) | None => None end) calls.
Proof. intros. apply GlueProofs.session_independent. apply GlueProofs.good_init. Qed.
Print Assumptions C20_get_cfgs_calls_independent.

(* ---- the consumer of eval_cfg: Interpreter._prepare_package over a sequence of machines ---- *)
(* the machine prepared first requires the unconditional dependencies plus exactly the
   target tables whose condition holds for it ... *)
Theorem C20_prepare_first_machine_partial : forall targets cfg_of base h,
  GlueProofs.all_evaluate targets (cfg_of h) ->
  fst (prepare_package targets cfg_of (mkP base []) h) = Some (GlueProofs.merged targets (cfg_of h) base).
Proof. exact GlueProofs.prepare_first_machine. Qed.
Print Assumptions C20_prepare_first_machine_partial.
(* ... a machine prepared later also gets the other machine's tables (the merge goes into
   the one dict of the package): finding C20:target-deps-leak-across-machines *)
Theorem C20_prepare_per_machine_refuted : exists targets cfg_of base,
  GlueProofs.cond_holds (cfg_of false) (s2l "cfg(windows)", [s2l "winapi"]) = false /\
  In (s2l "cfg(windows)", [s2l "winapi"]) targets /\
  match prepare_session targets cfg_of (mkP base []) [true; false] with
  | [_; Some l] => str_mem (s2l "winapi") l
  | _ => false
  end = true.
Proof. exact GlueProofs.prepare_leak_refuted. Qed.
Print Assumptions C20_prepare_per_machine_refuted.
