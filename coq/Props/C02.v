(* Props/C02.v — property theorems of C02 (filled in as proofs land). *)
From MV Require Import Base.Strs Syntax.Lexer Syntax.Parser Syntax.Yield.
