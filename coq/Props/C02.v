(* Props/C02.v — the property theorems of C02 (parsing is total, lossless and
   position-accurate), about the model coq/Syntax/{Lexer,Parser}.v of mesonbuild/mparser.py. *)
From MV Require Import Base.Strs Syntax.Lexer Syntax.Parser Syntax.Yield
  Syntax.LexerFacts Syntax.ParserFacts.

(* Lossless lexing: the texts of the tokens of an accepted input concatenate to the input. *)
Theorem C02_lex_lossless : forall s ts, lex s = LOk ts -> concat (map ttext ts) = s.
Proof. exact lex_lossless. Qed.
Print Assumptions C02_lex_lossless.

(* Position accuracy of tokens: each token records the line (1 + newlines before it), the
   column (characters since the last newline) and the offset of the point where it starts. *)
Theorem C02_token_positions : forall s ts, lex s = LOk ts -> positions_ok [] ts.
Proof. exact lex_positions. Qed.
Print Assumptions C02_token_positions.

(* A lexing error is located at the point where lexing stopped, inside the text: what was
   consumed is a prefix of the text and the reported line/column is that prefix's end. *)
Theorem C02_lex_error_located : forall s ts l c,
  lex_prefix (length s) s init_lst = (ts, Some (l, c)) ->
  exists rest, rest <> [] /\ s = concat (map ttext ts) ++ rest /\
               l = line_of (concat (map ttext ts)) /\ c = col_of (concat (map ttext ts)).
Proof.
  intros s ts l c H.
  exact (lex_prefix_error (length s) s init_lst [] ts l c (le_n _) Inv_init H).
Qed.
Print Assumptions C02_lex_error_located.

(* No token is empty (the lexer always makes progress; its fuel never runs out). *)
Theorem C02_tokens_nonempty : forall fuel s st ts e,
  lex_prefix fuel s st = (ts, e) -> Forall (fun t => ttext t <> []) ts.
Proof. exact lex_prefix_nonempty. Qed.
Print Assumptions C02_tokens_nonempty.

(* Token conservation: the tree of an accepted token stream lists exactly the stream —
   no token is dropped, duplicated or moved (for every fuel, every state). *)
Theorem C02_token_conservation : forall fuel st b,
  Forall (fun t => tk t <> KEof) (toks st) ->
  parse_tokens fuel st = Ok b -> toks st = yield_block b.
Proof. exact parse_tokens_conserves. Qed.
Print Assumptions C02_token_conservation.

(* An input on which the lexer fails is never accepted. *)
Theorem C02_no_accept_after_lex_error : forall fuel st b,
  Forall (fun t => tk t <> KEof) (toks st) -> toks st <> [] ->
  parse_tokens fuel st = Ok b -> lexerr st = None.
Proof. exact parse_tokens_needs_whole_lex. Qed.
Print Assumptions C02_no_accept_after_lex_error.

(* Text to tree: an accepted text was lexed completely, its token texts concatenate to it
   byte for byte, every token has its true position, and the tree contains exactly its
   significant tokens in order (whitespace and comments are the remaining tokens). *)
Theorem C02_parse_lossless : forall s b,
  parse s = Ok b ->
  exists ts, lex s = LOk ts /\ concat (map ttext ts) = s /\ positions_ok [] ts /\
             significant ts = yield_block b.
Proof. exact parse_lossless. Qed.
Print Assumptions C02_parse_lossless.

(* RawPrinter emits positional arguments before keyword arguments; that is the source
   order whenever no positional argument follows a keyword argument ... *)
Theorem C02_raw_order_partial : forall a, args_order_ok a = true -> raw_order a = a.
Proof. exact raw_order_id. Qed.
Print Assumptions C02_raw_order_partial.
(* ... and the unguarded statement is false for the shipped parser (known finding
   C02:not-lossless:keyword-argument-before-positional). *)
Theorem C02_raw_order_refuted :
  exists b, parse (s2l "f(a: 1, b)") = Ok b /\ order_ok_block b = false.
Proof. exact order_error_accepted. Qed.
Print Assumptions C02_raw_order_refuted.

(* Extents.  mparser.py records for a function call the position of its name token and
   (line, column + 1) of its ')' token, for an array literal the position of '[' and
   (line, column + 1) of ']'.  For ANY run of consecutive tokens first..last of an accepted
   text: the position recorded in [first] is the point where the run's text starts ... *)
From MV Require Import Syntax.ExtentFacts.
Theorem C02_extent_start : forall s pre first rest post,
  lex s = LOk (pre ++ (first :: rest) ++ post) ->
  let P := texts pre in
  s = P ++ texts (first :: rest) ++ texts post /\
  tline first = line_of P /\ tcol first = col_of P /\ tstart first = N.of_nat (length P).
Proof. exact run_start. Qed.
Print Assumptions C02_extent_start.
(* ... (line, column + 1) of a one-character closing token is the point where it ends ... *)
Theorem C02_extent_end : forall s pre mid last post c,
  lex s = LOk (pre ++ (mid ++ [last]) ++ post) -> ttext last = [c] -> c <> c_nl ->
  let E := texts pre ++ texts (mid ++ [last]) in
  s = E ++ texts post /\ line_of E = tline last /\ col_of E = tcol last + 1.
Proof. exact run_end. Qed.
Print Assumptions C02_extent_end.
(* ... and a (line, column) pair denotes at most one point of the text, so the two recorded
   positions delimit exactly the text of the run (what source-editing tools splice on). *)
Theorem C02_point_unique : forall p1 d : str,
  line_of p1 = line_of (p1 ++ d) -> col_of p1 = col_of (p1 ++ d) -> d = [].
Proof. exact point_unique. Qed.
Print Assumptions C02_point_unique.

(* Located rejections.  Every ParseException raised while parsing a token stream carries the
   position of one of its tokens, of the end of input, or of the lexer error ... *)
From MV Require Import Syntax.ErrPos.
Theorem C02_parser_error_is_a_known_position : forall fuel st p,
  parse_tokens fuel st = Err p -> PS st p.
Proof. exact parse_tokens_error_located. Qed.
Print Assumptions C02_parser_error_is_a_known_position.
(* ... hence every rejected text carries a line/column that denotes a point inside the text
   (the end of a prefix, or for the end-of-input error the start of the last token plus its
   length), or (0,0) for a byte-order mark. *)
Theorem C02_rejection_located : forall s p,
  parse s = Err p -> located s p \/ (p = (0, 0) /\ exists r, s = c_bom :: r).
Proof. exact parse_error_located. Qed.
Print Assumptions C02_rejection_located.

(* Totality.  "Every input text is either rejected with a located syntax error ... or parsed":
   the model's recursive descent runs on explicit fuel (30 per significant token + 60), and the
   out-of-fuel answer is unreachable - 13 per unread token + 13 already suffice for every
   parser state (Syntax/FuelFacts.v: potential 13 * unread + rank of the function) ... *)
From MV Require Import Syntax.FuelFacts.
Theorem C02_parser_fuel_sufficient : forall st n,
  (n >= 30 * length (toks st) + 60)%nat -> parse_tokens n st <> Fuel.
Proof. exact parse_tokens_enough_fuel. Qed.
Print Assumptions C02_parser_fuel_sufficient.
(* ... so [parse] never answers Fuel.  Together with C02_rejection_located (an Err answer
   carries a position inside the text) this makes the model's parse total: for every text the
   answer is a located rejection or a tree. *)
Theorem C02_parser_total : forall s, parse s <> Fuel.
Proof. exact parse_never_fuel. Qed.
Print Assumptions C02_parser_total.
(* Lexer + parser: every text is rejected with a position or parsed. *)
Theorem C02_rejected_or_parsed : forall s,
  (exists p, parse s = Err p) \/ (exists b, parse s = Ok b).
Proof. exact parse_total. Qed.
Print Assumptions C02_rejected_or_parsed.

(* Full-fidelity printing.  "... or parsed into a tree whose full-fidelity printing reproduces the
   text byte for byte - no token of an accepted file is silently dropped and no internal Python
   error ever escapes".  Syntax/Trivia.v models which node every whitespace / comment / eol token
   is attached to (Parser.getsym's current_ws, create_node, CodeBlockNode.pre_whitespaces /
   append_whitespaces, the 'not in' case, the leftovers at the end of a block) and
   Syntax/RawPrint.v the order in which RawPrinter (a FullAstVisitor) emits symbols, children and
   whitespaces.  For EVERY text that the parser accepts, the whitespace bookkeeping succeeds (the
   only internal error it could raise, the AttributeError of the 'not in' case, is unreachable:
   the lexer never puts an 'in' token directly after a 'not' token); and if no argument list of
   the tree has a positional argument after a keyword argument, printing the trivia-annotated tree
   gives back the text, byte for byte ... *)
From MV Require Import Syntax.Trivia Syntax.RawPrint Syntax.RawPrintFacts.
Theorem C02_trivia_total : forall s b,
  parse s = Ok b ->
  exists tb, parse_with_trivia s = TOk tb /\ (order_ok_block b = true -> raw_print tb = s).
Proof. exact trivia_total. Qed.
Print Assumptions C02_trivia_total.
Theorem C02_print_parse_identity : forall s b tb,
  parse s = Ok b -> order_ok_block b = true -> parse_with_trivia s = TOk tb -> raw_print tb = s.
Proof. exact print_parse_identity. Qed.
Print Assumptions C02_print_parse_identity.
(* ... every text is rejected with the parser's position or has a trivia-annotated tree (the
   model never answers with an internal error or out-of-fuel) ... *)
Theorem C02_parse_with_trivia_outcomes : forall s,
  (exists p, parse s = Err p /\ parse_with_trivia s = TErr p) \/
  (exists b tb, parse s = Ok b /\ parse_with_trivia s = TOk tb).
Proof. exact parse_with_trivia_outcomes. Qed.
Print Assumptions C02_parse_with_trivia_outcomes.
(* ... and the unguarded identity is false for the shipped code (known finding
   C02:not-lossless:keyword-argument-before-positional: `f(a: 1, b)` is printed as `f(b, a: 1)`). *)
Theorem C02_print_parse_identity_refuted :
  exists s tb, parse_with_trivia s = TOk tb /\ raw_print tb <> s.
Proof. exact print_parse_identity_refuted. Qed.
Print Assumptions C02_print_parse_identity_refuted.
