(* Props/C19.v — the property theorems of C19, and nothing else.
   Versions are strings; V s is the component tuple Version(s)._v. *)
From MV Require Import Base.Strs Version.Model Version.Proofs.

Definition V (s : str) : ver := tokenize s.

(* for any two version strings exactly one of <, ==, > holds *)
Theorem C19_trichotomy : forall a b : str,
  (vop OpLt (V a) (V b) = true /\ vop OpEq (V a) (V b) = false /\ vop OpGt (V a) (V b) = false) \/
  (vop OpLt (V a) (V b) = false /\ vop OpEq (V a) (V b) = true /\ vop OpGt (V a) (V b) = false) \/
  (vop OpLt (V a) (V b) = false /\ vop OpEq (V a) (V b) = false /\ vop OpGt (V a) (V b) = true).
Proof. intros; exact (trichotomy (V a) (V b)). Qed.
Print Assumptions C19_trichotomy.

(* the relations are transitive *)
Theorem C19_lt_trans : forall a b c : str,
  vop OpLt (V a) (V b) = true -> vop OpLt (V b) (V c) = true -> vop OpLt (V a) (V c) = true.
Proof. intros a b c; exact (lt_trans (V a) (V b) (V c)). Qed.
Print Assumptions C19_lt_trans.
Theorem C19_le_trans : forall a b c : str,
  vop OpLe (V a) (V b) = true -> vop OpLe (V b) (V c) = true -> vop OpLe (V a) (V c) = true.
Proof. intros a b c; exact (le_trans (V a) (V b) (V c)). Qed.
Print Assumptions C19_le_trans.
Theorem C19_eq_trans : forall a b c : str,
  vop OpEq (V a) (V b) = true -> vop OpEq (V b) (V c) = true -> vop OpEq (V a) (V c) = true.
Proof. intros a b c; exact (eq_trans (V a) (V b) (V c)). Qed.
Print Assumptions C19_eq_trans.

(* ... and mutually consistent *)
Theorem C19_le_is_lt_or_eq : forall a b : str,
  vop OpLe (V a) (V b) = vop OpLt (V a) (V b) || vop OpEq (V a) (V b).
Proof. intros; exact (le_is_lt_or_eq (V a) (V b)). Qed.
Print Assumptions C19_le_is_lt_or_eq.
Theorem C19_ge_is_gt_or_eq : forall a b : str,
  vop OpGe (V a) (V b) = vop OpGt (V a) (V b) || vop OpEq (V a) (V b).
Proof. intros; exact (ge_is_gt_or_eq (V a) (V b)). Qed.
Print Assumptions C19_ge_is_gt_or_eq.
Theorem C19_lt_gt_swap : forall a b : str, vop OpLt (V a) (V b) = vop OpGt (V b) (V a).
Proof. intros; exact (lt_gt_swap (V a) (V b)). Qed.
Print Assumptions C19_lt_gt_swap.
Theorem C19_le_ge_swap : forall a b : str, vop OpLe (V a) (V b) = vop OpGe (V b) (V a).
Proof. intros; exact (le_ge_swap (V a) (V b)). Qed.
Print Assumptions C19_le_ge_swap.
Theorem C19_ne_is_not_eq : forall a b : str, vop OpNe (V a) (V b) = negb (vop OpEq (V a) (V b)).
Proof. intros; exact (ne_is_not_eq (V a) (V b)). Qed.
Print Assumptions C19_ne_is_not_eq.
Theorem C19_le_total : forall a b : str, vop OpLe (V a) (V b) = true \/ vop OpLe (V b) (V a) = true.
Proof. intros; exact (le_total (V a) (V b)). Qed.
Print Assumptions C19_le_total.

(* equal versions hash equally (hash is a function of the component tuple) *)
Theorem C19_eq_same_hash_key : forall a b : str, vop OpEq (V a) (V b) = true -> V a = V b.
Proof. intros a b; exact (eq_same_key (V a) (V b)). Qed.
Print Assumptions C19_eq_same_hash_key.

(* numeric components compare numerically and rank above alphabetic ones; a
   longer version with an equal prefix is greater *)
Theorem C19_numeric_numerically : forall p x y a b,
  (x < y)%N -> vop OpLt (p ++ CNum x :: a) (p ++ CNum y :: b) = true.
Proof. exact numeric_numerically. Qed.
Print Assumptions C19_numeric_numerically.
Theorem C19_numeric_above_alpha : forall p s n a b,
  vop OpLt (p ++ CAlpha s :: a) (p ++ CNum n :: b) = true.
Proof. exact numeric_above_alpha. Qed.
Print Assumptions C19_numeric_above_alpha.
Theorem C19_longer_is_greater : forall a x r, vop OpLt a (a ++ x :: r) = true.
Proof. exact longer_is_greater. Qed.
Print Assumptions C19_longer_is_greater.
Theorem C19_tokenize_dotted : forall dss,
  Forall (fun ds => all_digits ds /\ ds <> []) dss ->
  V (dotted dss) = map (fun ds => CNum (digits_val ds)) dss.
Proof. exact tokenize_dotted. Qed.
Print Assumptions C19_tokenize_dotted.

(* version_compare with any operator agrees with that order *)
Theorem C19_version_compare_agrees : forall sp o v w,
  In (sp, o) spellings -> no_op_prefix w = true ->
  version_compare v (sp ++ w) = vop o (V v) (V (strip w)).
Proof. exact version_compare_agrees. Qed.
Print Assumptions C19_version_compare_agrees.

(* a constraint list holds iff each constraint holds *)
Theorem C19_compare_many : forall v cs,
  compare_many_ok v cs = forallb (version_compare v) cs /\
  snd (compare_many v cs) = filter (version_compare v) cs /\
  fst (compare_many v cs) = filter (fun c => negb (version_compare v c)) cs.
Proof. intros; split; [apply compare_many_ok_iff | apply compare_many_found]. Qed.
Print Assumptions C19_compare_many.

(* a version lies in intersect(a,b) iff it lies in both *)
Theorem C19_intersect : forall a b x,
  contains (intersect a b) x = contains a x && contains b x.
Proof. exact intersect_spec. Qed.
Print Assumptions C19_intersect.

(* the range built from a list of checks contains every version satisfying all
   the checks and no version violating one of its non-!= checks *)
Theorem C19_check_to_range_sound : forall checks start x,
  contains start x = true -> forallb (sat x) checks = true ->
  contains (check_to_range checks start) x = true.
Proof. exact check_to_range_sound. Qed.
Print Assumptions C19_check_to_range_sound.
Theorem C19_check_to_range_complete : forall checks start x,
  contains (check_to_range checks start) x = true ->
  contains start x = true /\ forallb (fun c => is_ne_check c || sat x c) checks = true.
Proof. exact check_to_range_complete. Qed.
Print Assumptions C19_check_to_range_complete.

(* always() answers true/false only if every/no version in the range satisfies
   the inner condition *)
Theorem C19_always_true : forall a inner,
  always a inner = Some true -> forall x, contains a x = true -> contains inner x = true.
Proof. exact always_true_sound. Qed.
Print Assumptions C19_always_true.
Theorem C19_always_false : forall a inner,
  always a inner = Some false -> forall x, contains a x = true -> contains inner x = false.
Proof. exact always_false_sound. Qed.
Print Assumptions C19_always_false.
