(* Props/C19.v — the property theorems of C19, and nothing else.
   Versions are strings; V s is the component tuple Version(s)._v. *)
From MV Require Import Base.Strs Version.Model Version.Feature Version.Search Version.FeatureProofs Version.SearchProofs Version.Proofs.

Definition V (s : str) : ver := tokenize s.

(* for any two version strings exactly one of <, ==, > holds *)
Theorem C19_trichotomy : forall a b : str,
  (vop OpLt (V a) (V b) = true /\ vop OpEq (V a) (V b) = false /\ vop OpGt (V a) (V b) = false) \/
  (vop OpLt (V a) (V b) = false /\ vop OpEq (V a) (V b) = true /\ vop OpGt (V a) (V b) = false) \/
  (vop OpLt (V a) (V b) = false /\ vop OpEq (V a) (V b) = false /\ vop OpGt (V a) (V b) = true).
Proof. intros; exact (trichotomy (V a) (V b)). Qed.
Print Assumptions C19_trichotomy.

(* the relations are transitive *)
Theorem C19_lt_trans : forall a b c : str,
  vop OpLt (V a) (V b) = true -> vop OpLt (V b) (V c) = true -> vop OpLt (V a) (V c) = true.
Proof. intros a b c; exact (lt_trans (V a) (V b) (V c)). Qed.
Print Assumptions C19_lt_trans.
Theorem C19_le_trans : forall a b c : str,
  vop OpLe (V a) (V b) = true -> vop OpLe (V b) (V c) = true -> vop OpLe (V a) (V c) = true.
Proof. intros a b c; exact (le_trans (V a) (V b) (V c)). Qed.
Print Assumptions C19_le_trans.
Theorem C19_eq_trans : forall a b c : str,
  vop OpEq (V a) (V b) = true -> vop OpEq (V b) (V c) = true -> vop OpEq (V a) (V c) = true.
Proof. intros a b c; exact (eq_trans (V a) (V b) (V c)). Qed.
Print Assumptions C19_eq_trans.

(* ... and mutually consistent *)
Theorem C19_le_is_lt_or_eq : forall a b : str,
  vop OpLe (V a) (V b) = vop OpLt (V a) (V b) || vop OpEq (V a) (V b).
Proof. intros; exact (le_is_lt_or_eq (V a) (V b)). Qed.
Print Assumptions C19_le_is_lt_or_eq.
Theorem C19_ge_is_gt_or_eq : forall a b : str,
  vop OpGe (V a) (V b) = vop OpGt (V a) (V b) || vop OpEq (V a) (V b).
Proof. intros; exact (ge_is_gt_or_eq (V a) (V b)). Qed.
Print Assumptions C19_ge_is_gt_or_eq.
Theorem C19_lt_gt_swap : forall a b : str, vop OpLt (V a) (V b) = vop OpGt (V b) (V a).
Proof. intros; exact (lt_gt_swap (V a) (V b)). Qed.
Print Assumptions C19_lt_gt_swap.
Theorem C19_le_ge_swap : forall a b : str, vop OpLe (V a) (V b) = vop OpGe (V b) (V a).
Proof. intros; exact (le_ge_swap (V a) (V b)). Qed.
Print Assumptions C19_le_ge_swap.
Theorem C19_ne_is_not_eq : forall a b : str, vop OpNe (V a) (V b) = negb (vop OpEq (V a) (V b)).
Proof. intros; exact (ne_is_not_eq (V a) (V b)). Qed.
Print Assumptions C19_ne_is_not_eq.
Theorem C19_le_total : forall a b : str, vop OpLe (V a) (V b) = true \/ vop OpLe (V b) (V a) = true.
Proof. intros; exact (le_total (V a) (V b)). Qed.
Print Assumptions C19_le_total.

(* equal versions hash equally (hash is a function of the component tuple) *)
Theorem C19_eq_same_hash_key : forall a b : str, vop OpEq (V a) (V b) = true -> V a = V b.
Proof. intros a b; exact (eq_same_key (V a) (V b)). Qed.
Print Assumptions C19_eq_same_hash_key.

(* numeric components compare numerically and rank above alphabetic ones; a
   longer version with an equal prefix is greater *)
Theorem C19_numeric_numerically : forall p x y a b,
  (x < y)%N -> vop OpLt (p ++ CNum x :: a) (p ++ CNum y :: b) = true.
Proof. exact numeric_numerically. Qed.
Print Assumptions C19_numeric_numerically.
Theorem C19_numeric_above_alpha : forall p s n a b,
  vop OpLt (p ++ CAlpha s :: a) (p ++ CNum n :: b) = true.
Proof. exact numeric_above_alpha. Qed.
Print Assumptions C19_numeric_above_alpha.
Theorem C19_longer_is_greater : forall a x r, vop OpLt a (a ++ x :: r) = true.
Proof. exact longer_is_greater. Qed.
Print Assumptions C19_longer_is_greater.
(* (digits = every Unicode decimal digit, valued by int(); all_digits, udigits_val) *)
Theorem C19_tokenize_dotted : forall dss,
  Forall (fun ds => all_digits ds /\ ds <> []) dss ->
  V (dotted dss) = map (fun ds => CNum (udigits_val ds)) dss.
Proof. exact tokenize_dotted. Qed.
Print Assumptions C19_tokenize_dotted.
(* the same three rules on raw strings: b is empty or ends with a separator, the
   runs that follow are maximal *)
Theorem C19_str_numeric_numerically : forall b ds1 ds2 r1 r2,
  ends_sep b = true -> ds1 <> [] -> ds2 <> [] -> all_digits ds1 -> all_digits ds2 ->
  not_digit_start r1 -> not_digit_start r2 -> (udigits_val ds1 < udigits_val ds2)%N ->
  vop OpLt (V (b ++ ds1 ++ r1)) (V (b ++ ds2 ++ r2)) = true.
Proof. exact str_numeric_numerically. Qed.
Print Assumptions C19_str_numeric_numerically.
Theorem C19_str_numeric_above_alpha : forall b al ds r1 r2,
  ends_sep b = true -> al <> [] -> ds <> [] -> all_alpha al -> all_digits ds ->
  not_alpha_start r1 -> not_digit_start r2 ->
  vop OpLt (V (b ++ al ++ r1)) (V (b ++ ds ++ r2)) = true.
Proof. exact str_numeric_above_alpha. Qed.
Print Assumptions C19_str_numeric_above_alpha.
Theorem C19_str_longer_is_greater : forall a c q,
  is_sep c = true -> V q <> [] -> vop OpLt (V a) (V (a ++ c :: q)) = true.
Proof. exact str_longer_is_greater. Qed.
Print Assumptions C19_str_longer_is_greater.
(* the digit class: values below ten; the ASCII digits keep their value; an ASCII
   letter is never a digit *)
Theorem C19_digit_class : forall c,
  (udigit_val c < 10)%N /\
  (is_digit c = true -> is_udigit c = true /\ udigit_val c = digit_val c) /\
  (is_alpha c = true -> is_udigit c = false).
Proof. intro c. split; [apply udigit_val_lt | split; [apply ascii_digit_udigit | apply alpha_not_udigit]]. Qed.
Print Assumptions C19_digit_class.
(* Version(s) is defined (no ValueError from int()) unless s has a run of more
   than 4300 decimal digits; then it raises: known finding C19:int-max-str-digits *)
Theorem C19_version_init_raises_iff : forall s,
  version_init s = None <->
  exists pre ds post, s = pre ++ ds ++ post /\ all_digits ds /\ (int_max_str_digits < length ds)%nat.
Proof. exact version_init_raises_iff. Qed.
Print Assumptions C19_version_init_raises_iff.
Theorem C19_version_init_defined : forall s,
  (length s <= int_max_str_digits)%nat -> version_init s = Some (V s).
Proof. exact version_init_short. Qed.
Print Assumptions C19_version_init_defined.

(* version_compare with any operator agrees with that order *)
Theorem C19_version_compare_agrees : forall sp o v w,
  In (sp, o) spellings -> no_op_prefix w = true ->
  version_compare v (sp ++ w) = vop o (V v) (V (strip w)).
Proof. exact version_compare_agrees. Qed.
Print Assumptions C19_version_compare_agrees.

(* ... for every constraint string, no guard: the operator and version text are
   those _version_extract_cmpop finds *)
Theorem C19_version_compare_any : forall v c,
  version_compare v c = vop (fst (extract_cmpop c)) (V v) (V (snd (extract_cmpop c))).
Proof. intros. unfold version_compare, V. destruct (extract_cmpop c). reflexivity. Qed.
Print Assumptions C19_version_compare_any.

(* a constraint list holds iff each constraint holds *)
Theorem C19_compare_many : forall v cs,
  compare_many_ok v cs = forallb (version_compare v) cs /\
  snd (compare_many v cs) = filter (version_compare v) cs /\
  fst (compare_many v cs) = filter (fun c => negb (version_compare v c)) cs.
Proof. intros; split; [apply compare_many_ok_iff | apply compare_many_found]. Qed.
Print Assumptions C19_compare_many.

(* a version lies in intersect(a,b) iff it lies in both *)
Theorem C19_intersect : forall a b x,
  contains (intersect a b) x = contains a x && contains b x.
Proof. exact intersect_spec. Qed.
Print Assumptions C19_intersect.

(* the range built from a list of checks contains every version satisfying all
   the checks and no version violating one of its non-!= checks *)
Theorem C19_check_to_range_sound : forall checks start x,
  contains start x = true -> forallb (sat x) checks = true ->
  contains (check_to_range checks start) x = true.
Proof. exact check_to_range_sound. Qed.
Print Assumptions C19_check_to_range_sound.
Theorem C19_check_to_range_complete : forall checks start x,
  contains (check_to_range checks start) x = true ->
  contains start x = true /\ forallb (fun c => is_ne_check c || sat x c) checks = true.
Proof. exact check_to_range_complete. Qed.
Print Assumptions C19_check_to_range_complete.

(* always() answers true/false only if every/no version in the range satisfies
   the inner condition *)
Theorem C19_always_true : forall a inner,
  always a inner = Some true -> forall x, contains a x = true -> contains inner x = true.
Proof. exact always_true_sound. Qed.
Print Assumptions C19_always_true.
Theorem C19_always_false : forall a inner,
  always a inner = Some false -> forall x, contains a x = true -> contains inner x = false.
Proof. exact always_false_sound. Qed.
Print Assumptions C19_always_false.

(* ------------------------------------------------------------------ *)
(* The callers: FeatureNew / FeatureDeprecated (decorators.py) on the target range
   built from project(meson_version:) and nested version_compare conditions. *)

(* version_compare_condition_with_min answers True only if every admitted version
   is >= the minimum - for every range *)
Theorem C19_cwm_sound : forall r fv x,
  cwm_range r fv = true -> contains r x = true -> vop OpGe x (V fv) = true.
Proof. exact cwm_sound. Qed.
Print Assumptions C19_cwm_sound.
(* ... and exactly then when the range has a least element (closed admitted lower
   bound, or none and the empty version admitted, or flagged empty) *)
Theorem C19_cwm_exact_partial : forall r fv, exact_guard r fv = true ->
  (cwm_range r fv = true <-> forall x, contains r x = true -> vop OpGe x (V fv) = true).
Proof. exact cwm_exact. Qed.
Print Assumptions C19_cwm_exact_partial.
Theorem C19_cwm_complete_refuted :
  exists r fv, (forall x, contains r x = true -> vop OpGe x (V fv) = true) /\ cwm_range r fv = false.
Proof. exact cwm_complete_refuted. Qed.
Print Assumptions C19_cwm_complete_refuted.
(* the gap that matters: an exclusive lower bound.  Every version string above "1" is
   >= "1A", so '>1' admits only versions >= '1A', yet FeatureNew('x', '1A') would warn *)
Theorem C19_cwm_open_min_gap :
  exists pv fv, (forall s, contains (project_range pv) (V s) = true -> vop OpGe (V s) (V fv) = true)
                /\ cwm_range (project_range pv) fv = false.
Proof. exact cwm_open_min_gap. Qed.
Print Assumptions C19_cwm_open_min_gap.
Example C19_exact_guard_satisfiable :
  exact_guard (project_range (s2l ">=0.46")) (s2l "0.47") = true.
Proof. vm_compute. reflexivity. Qed.
(* the target range admits every version satisfying pv and the enclosing conditions,
   and nothing violating a non-!= one *)
Theorem C19_nested_range : forall pv conds x,
  (sat x pv = true -> Forall (fun cs => forallb (sat x) cs = true) conds ->
   contains (nested_range pv conds) x = true) /\
  (contains (nested_range pv conds) x = true ->
   (is_ne_check pv || sat x pv) = true /\
   Forall (fun cs => forallb (fun c => is_ne_check c || sat x c) cs = true) conds).
Proof. intros. split; [apply nested_range_sound | apply nested_range_complete]. Qed.
Print Assumptions C19_nested_range.
(* use(): the usage warning is printed iff there is a target (or the class is
   unconditional), check_version fails on the normalised version and the
   (version, name, location) key is new *)
Theorem C19_use_warns_iff : forall k major tv reg name ver loc,
  snd (use k major tv reg name ver loc) = true <->
  (tv <> TgNone \/ k = FBroken) /\
  check_version k major tv (feature_norm ver) = false /\
  registered reg ver name loc = false.
Proof. exact use_warns_iff. Qed.
Print Assumptions C19_use_warns_iff.
(* the normalised version is the given one without trailing zero components, hence <= it *)
Theorem C19_feature_norm : forall fv,
  (exists k, V fv = V (feature_norm fv) ++ repeat (CNum 0) k) /\
  vop OpLe (V (feature_norm fv)) (V fv) = true.
Proof. intro fv. split; [apply feature_norm_tokens | apply feature_norm_le]. Qed.
Print Assumptions C19_feature_norm.
(* a FeatureNew notice is suppressed only if every version admitted by the
   project's meson_version constraint (and the enclosing conditions) is >= v *)
Theorem C19_feature_new_suppressed_sound : forall major pv conds reg name ver loc x,
  registered reg ver name loc = false ->
  snd (use FNew major (TgRange (nested_range pv conds)) reg name ver loc) = false ->
  sat x pv = true -> Forall (fun cs => forallb (sat x) cs = true) conds ->
  vop OpGe x (V (feature_norm ver)) = true.
Proof. exact feature_new_suppressed_sound. Qed.
Print Assumptions C19_feature_new_suppressed_sound.
(* ... and for meson_version '>=W' exactly then: warned iff v > W, and accepted iff
   every version satisfying '>=W' is >= v *)
Theorem C19_feature_new_ge_exact : forall major w name ver loc, no_op_prefix w = true ->
  snd (use FNew major (TgRange (project_range (c_gt :: c_eq :: w))) [] name ver loc)
    = vop OpGt (V (feature_norm ver)) (V (strip w)) /\
  (snd (use FNew major (TgRange (project_range (c_gt :: c_eq :: w))) [] name ver loc) = false <->
   forall x, sat x (c_gt :: c_eq :: w) = true -> vop OpGe x (V (feature_norm ver)) = true).
Proof.
  intros major w name ver loc Hw. split; [apply feature_new_ge_warns_iff; exact Hw|].
  assert (E : snd (use FNew major (TgRange (project_range (c_gt :: c_eq :: w))) [] name ver loc)
              = negb (cwm_range (project_range (c_gt :: c_eq :: w)) (feature_norm ver))).
  { apply eq_true_iff_eq. rewrite use_warns_iff. cbn [check_version registered]. rewrite negb_true_iff.
    split; [intros (_ & H & _); exact H | intro H; repeat split; auto; left; discriminate]. }
  rewrite E, negb_false_iff. exact (proj2 (feature_new_ge_exact w (feature_norm ver) Hw)).
Qed.
Print Assumptions C19_feature_new_ge_exact.
(* a FeatureDeprecated warning is printed only if every admitted version has the deprecation *)
Theorem C19_feature_deprecated_warns_sound : forall major pv conds reg name ver loc x,
  snd (use FDeprecated major (TgRange (nested_range pv conds)) reg name ver loc) = true ->
  sat x pv = true -> Forall (fun cs => forallb (sat x) cs = true) conds ->
  vop OpGe x (V (feature_norm ver)) = true.
Proof. exact feature_deprecated_warns_sound. Qed.
Print Assumptions C19_feature_deprecated_warns_sound.
(* report(): with the version normalised as use() does (pending repair) the heading
   agrees with the usage warning; as written it does not *)
Theorem C19_report_consistent_with_use : forall k major tv reg name ver loc,
  registered reg ver name loc = false -> (tv <> TgNone \/ k = FBroken) ->
  snd (use k major tv reg name ver loc) = negb (report_notice k major tv ver).
Proof. exact report_consistent_with_use. Qed.
Print Assumptions C19_report_consistent_with_use.
Theorem C19_report_asis_inconsistent :
  exists k major tv name ver loc,
    snd (use k major tv [] name ver loc) = true /\ report_notice_asis k major tv ver = true.
Proof. exact report_asis_inconsistent. Qed.
Print Assumptions C19_report_asis_inconsistent.

(* ------------------------------------------------------------------ *)
(* search_version (universal.py:1207-1247): the version text that is then compared *)

(* it returns 'unknown version' or a piece of the text *)
Theorem C19_search_version_substring : forall t,
  search_version t = unknown_version \/ exists pre post, t = pre ++ search_version t ++ post.
Proof. exact search_version_substring. Qed.
Print Assumptions C19_search_version_substring.
(* when the first expression matches somewhere the result is its leftmost match:
   a one- or two-digit run not preceded by a digit or period, one or more ".digits"
   groups, optionally "-alnum", followed by a blank or the end of the text *)
Theorem C19_search_version_first_match : forall t m, search1 None t = Some m ->
  search_version t = m /\ sv1_shape m /\
  exists pre post, t = pre ++ m ++ post /\ lookbehind_ok (prev_of None pre) = true /\
    at_space_or_end post = true /\
    forall p1 r1, t = p1 ++ r1 -> (length p1 < length pre)%nat -> sv1_at (prev_of None p1) r1 = None.
Proof. exact search_version_first_match. Qed.
Print Assumptions C19_search_version_first_match.
(* a dotted version d.d(.d)* with a one- or two-digit head standing on its own
   (no digit before it, not directly after a period, a blank or the end after it)
   is found exactly, and (C19_tokenize_dotted) parses to its numbers *)
Theorem C19_search_version_dotted : forall pre ds0 ds1 dss post,
  forallb (fun c => negb (is_udigit c)) pre = true -> lookbehind_ok (prev_of None pre) = true ->
  runs_ok (ds0 :: ds1 :: dss) -> (length ds0 <= 2)%nat -> at_space_or_end post = true ->
  search_version (pre ++ dotted (ds0 :: ds1 :: dss) ++ post) = dotted (ds0 :: ds1 :: dss).
Proof. exact search_version_dotted. Qed.
Print Assumptions C19_search_version_dotted.
