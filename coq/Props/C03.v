(* Props/C03.v — the property theorems of C03, and nothing else.
   Encoders (model of meson): shlex_quote, ninja_quote, gcc_rsp_quote, write_elems
   (NinjaBuildElement.write), command_str (NinjaRule), escape_extra_args, bs_norm,
   as_meson_exe (Backend.as_meson_exe_cmdline).  Decoders (reference semantics):
   ninja_eval, sh_tokens (/bin/sh), gcc_rsp_args (gcc @file), run_route. *)
From MV Require Import Base.Strs Quote.Sh Quote.Ninja Quote.Rsp Quote.Rule Quote.Spec Quote.Templ Quote.Proofs.

(* "arrives in the executed process's argv unchanged - same bytes, same count, same relative
   order - whatever it contains": the shell layer, for ALL argument lists (no guard at all:
   spaces, quotes, $, #, ;, globs, non-ASCII, newlines) *)
Theorem C03_shell_roundtrip : forall args : list str,
  sh_tokens (join_args args) = ShOk (map W args).
Proof. exact sh_join_args_roundtrip. Qed.
Print Assumptions C03_shell_roundtrip.

(* the ninja layer: $-escaping is undone by ninja's evaluation, in every variable environment *)
Theorem C03_ninja_value_roundtrip : forall (env : list (str * str)) (t : str),
  nclean t = true ->
  exists q, ninja_quote false t = QOk q /\ ninja_eval env q = NOk t.
Proof. exact ninja_var_roundtrip. Qed.
Print Assumptions C03_ninja_value_roundtrip.

(* "run directly by ninja": the line NinjaBuildElement.write emits for ANY element list that
   contains no newline / carriage return, evaluated by ninja and split by /bin/sh, is the list
   itself; "an element that is exactly && separates commands" (tok_of) and nothing else ever
   becomes an operator or is lost (the result is ShOk: no metacharacter is ever exposed).
   _partial: the guard excludes newline/CR, see C03_command_elements_newline_refuted. *)
Theorem C03_command_elements_roundtrip_partial : forall (env : list (str * str)) (elems : list str),
  forallb nclean elems = true ->
  exists line, write_elems QfShell true elems = QOk line /\
               ninja_sh env line = Some (map tok_of elems).
Proof. exact command_elements_roundtrip. Qed.
Print Assumptions C03_command_elements_roundtrip_partial.

Theorem C03_andand_only_operator : forall a : str, tok_of a = AndAnd <-> a = andand.
Proof. exact tok_of_andand_iff. Qed.
Print Assumptions C03_andand_only_operator.

(* "through a response file": same for statements that use a GCC-syntax response file *)
Theorem C03_response_file_roundtrip_partial : forall (env : list (str * str)) (elems : list str),
  forallb nclean elems = true ->
  exists line content, write_elems QfRsp true elems = QOk line /\
                       ninja_eval env line = NOk content /\
                       gcc_rsp_args content = elems.
Proof. exact rsp_elements_roundtrip. Qed.
Print Assumptions C03_response_file_roundtrip_partial.

(* gcc_rsp_quote alone is inverted by GCC's reader for ALL strings (newlines included) *)
Theorem C03_gcc_rsp_quote_roundtrip : forall args : list str,
  gcc_rsp_args (join [32] (map gcc_rsp_quote args)) = args.
Proof. exact gcc_rsp_quote_roundtrip. Qed.
Print Assumptions C03_gcc_rsp_quote_roundtrip.

(* the faithful model refutes the full-strength statement for lists that a ninja variable has
   to carry (compiler / linker arguments): a newline is rejected by the writer ... *)
Theorem C03_command_elements_newline_refuted :
  exists elems, write_elems QfShell true elems = QErr /\ write_elems QfRsp true elems = QErr.
Proof. exact command_elements_newline_refuted. Qed.
Print Assumptions C03_command_elements_newline_refuted.

(* ... and what cannot be carried is always rejected, never written mangled *)
Theorem C03_unrepresentable_rejected : forall (qf : qfun) (sq : bool) (elems : list str),
  forallb nclean elems = false -> write_elems qf sq elems = QErr.
Proof. exact command_elements_reject. Qed.
Print Assumptions C03_unrepresentable_rejected.

(* NinjaRule's quoting classes: a rule command made of literal words (Quoting.both; && is
   Quoting.notShell) and $VAR references (Quoting.none) expands, after ninja and /bin/sh, to the
   literals and - in place of each reference - the tokens of the variable's value *)
Theorem C03_rule_command_tokens : forall (env : list (str * str)) (items : list citem) (vals : str -> list tok),
  forallb citem_ok items = true ->
  (forall n, In (CVar n) items -> sh_tokens (lookup env n) = ShOk (vals n)) ->
  exists cs, command_str (map citem_ritem items) [] = QOk cs /\
             ninja_sh env cs =
               Some (concat (map (fun it => match it with CLit s => [tok_of s] | CVar n => vals n end) items)).
Proof. exact rule_command_tokens. Qed.
Print Assumptions C03_rule_command_tokens.

(* compiler / linker / custom statements end to end: whenever the statement's variables were
   written by NinjaBuildElement.write (i.e. were not rejected), the command the rule expands to
   consists of the rule's words and, for each $VAR, exactly the element list stored under VAR *)
Theorem C03_edge_command_argv : forall (fenv env : list (str * str)) (items : list citem) (elems : str -> list str),
  forallb citem_ok items = true ->
  (forall n, In (CVar n) items ->
     exists line, write_elems QfShell true (elems n) = QOk line /\ ninja_eval fenv line = NOk (lookup env n)) ->
  exists cs, command_str (map citem_ritem items) [] = QOk cs /\
             ninja_sh env cs =
               Some (concat (map (fun it => match it with CLit s => [tok_of s] | CVar n => map tok_of (elems n) end) items)).
Proof. exact edge_command_argv. Qed.
Print Assumptions C03_edge_command_argv.

(* the same through a response file: what GCC reads from rspfile_content is the rule's literal
   words and, for each $VAR, exactly the element list stored under VAR *)
Theorem C03_rsp_rule_content_args : forall (fenv env : list (str * str)) (items : list citem) (elems : str -> list str),
  forallb citem_ok items = true ->
  (forall n, In (CVar n) items ->
     exists line, write_elems QfRsp true (elems n) = QOk line /\ ninja_eval fenv line = NOk (lookup env n)) ->
  exists cs content, rspfile_content (map citem_ritem items) = QOk cs /\
                     ninja_eval env cs = NOk content /\
                     gcc_rsp_args content =
                       concat (map (fun it => match it with CLit s => [s] | CVar n => elems n end) items).
Proof. exact rsp_rule_content_args. Qed.
Print Assumptions C03_rsp_rule_content_args.

(* "backslashes inside a per-target -D//D compile argument are doubled so that a C string
   literal receives them literally"; every other element is unchanged; same count and order *)
Theorem C03_define_backslash_rule : forall args : list str,
  Forall2 (fun a o => if is_define a then o = dbl_bs a /\ c_unescape_bs o = a else o = a)
          args (escape_extra_args args).
Proof. exact escape_extra_args_spec. Qed.
Print Assumptions C03_define_backslash_rule.

(* "backslashes in custom-target commands become /": exactly that, character by character *)
Theorem C03_backslash_normalisation : forall s : str,
  Forall2 (fun c d => d = if N.eqb c 92 then 47%N else c) s (bs_norm s).
Proof. exact bs_norm_spec. Qed.
Print Assumptions C03_backslash_normalisation.

(* "with capture/feed/env, or through meson's pickled exe wrapper": an argument or environment
   value containing a newline (or CR) always takes the pickled route ... *)
Theorem C03_newline_takes_pickled_route : forall x : exe_in,
  existsb has_nl (x_exe_cmd x ++ x_args x) = true \/
  existsb has_nl (map env_assign (env_dict (x_env x))) = true ->
  exists p, as_meson_exe x = RPickle p.
Proof. exact exe_newline_pickled. Qed.
Print Assumptions C03_newline_takes_pickled_route.

(* ... so ninja_quote's rejection is unreachable for custom_target / run_target / generator
   commands, whatever the arguments and environment values contain *)
Theorem C03_custom_command_representable : forall x : exe_in,
  exe_guard x = true -> forallb nclean (route_cmdline x (as_meson_exe x)) = true.
Proof. exact exe_cmdline_clean. Qed.
Print Assumptions C03_custom_command_representable.

(* ... and the process that is finally started - directly by /bin/sh, through env(1), through
   `meson --internal exe --capture/--feed`, or from the pickle - gets exactly the specified argv,
   environment assignments, capture and feed: for ALL argument strings and environment values
   (the guard constrains only program/file names, option values, env NAMES and the absence of
   the && element, which is the established exception) *)
Theorem C03_custom_command_argv : forall x : exe_in,
  run_guard x = true ->
  run_route x (as_meson_exe x) =
    Ran (env_dict (x_env x)) (x_workdir x) (x_capture x) (x_feed x) (x_exe_cmd x ++ x_args x).
Proof. exact custom_command_argv. Qed.
Print Assumptions C03_custom_command_argv.

(* ---------------------------------------------------------------- extension round *)

(* the _RSP rule's own command line `<command words> @$out.rsp`: after ninja and /bin/sh the
   compiler gets the command words followed by the single word @<out>.rsp *)
Theorem C03_rsp_command_tokens : forall (env : list (str * str)) (items : list citem) (vals : str -> list tok),
  forallb citem_ok items = true ->
  (forall n, In (CVar n) items -> sh_tokens (lookup env n) = ShOk (vals n)) ->
  forallb sh_safe (lookup env s_out) = true ->
  exists cs, rsp_command (map citem_ritem items) = QOk cs /\
             ninja_sh env cs =
               Some (concat (map (fun it => match it with CLit s => [tok_of s] | CVar n => vals n end) items)
                     ++ [W (64%N :: lookup env s_out ++ s_dot_rsp)]).
Proof. exact rsp_command_tokens. Qed.
Print Assumptions C03_rsp_command_tokens.

(* "through a response file", whole path: command line by ninja + /bin/sh, rspfile_content by
   ninja, @file expansion by GCC: the compiler's arguments are the command words, then the
   rule's argument words and, for each $VAR, exactly the element list stored under VAR *)
Theorem C03_rsp_statement_argv : forall (fenv env : list (str * str)) (cmdw : list str) (aitems : list citem) (elems : str -> list str),
  forallb citem_ok (map CLit cmdw) = true -> no_andand cmdw = true ->
  forallb citem_ok aitems = true ->
  (forall n, In (CVar n) aitems ->
     exists line, write_elems QfRsp true (elems n) = QOk line /\ ninja_eval fenv line = NOk (lookup env n)) ->
  forallb sh_safe (lookup env s_out) = true ->
  forallb (fun a => negb (str_eqb a (64%N :: lookup env s_out ++ s_dot_rsp))) cmdw = true ->
  exists cs cc content argv,
    rsp_command (map citem_ritem (map CLit cmdw)) = QOk cs /\
    rspfile_content (map citem_ritem aitems) = QOk cc /\
    ninja_eval env cc = NOk content /\
    option_map split_cmds (ninja_sh env cs) = Some [argv] /\
    expand_at (lookup env s_out ++ s_dot_rsp) content argv =
      cmdw ++ concat (map (fun it => match it with CLit s => [s] | CVar n => elems n end) aitems).
Proof. exact rsp_statement_argv. Qed.
Print Assumptions C03_rsp_statement_argv.

(* build lines (ninja's path mode): a list of output / input / dependency names written on the
   `build` line is read back by ninja as exactly that list, up to the terminator ... *)
Theorem C03_path_list_roundtrip : forall (ps : list str) (tail : str),
  forallb pathok ps = true -> tail_ok tail ->
  ninja_paths (qpaths ps ++ tail) = POk ps tail /\ ninja_paths (qpaths ps ++ 32%N :: tail) = POk ps tail.
Proof. intros ps tail H T. split; [apply path_list_roundtrip | apply path_list_roundtrip_blank]; assumption. Qed.
Print Assumptions C03_path_list_roundtrip.

(* ... and the `build` line NinjaBuildElement.write emits is made of exactly such lists, of the
   names with their backslashes turned into slashes (the established build-line rewrite) *)
Theorem C03_build_line_form : forall (outs imp : list str) (rule : str) (ins deps ords : list str),
  forallb pathok outs = true -> forallb pathok imp = true -> forallb pathok ins = true ->
  forallb pathok deps = true -> forallb pathok ords = true ->
  build_line outs imp rule ins deps ords =
    QOk (s2l "build " ++ qpaths (map bs_slash outs) ++ seg (s2l " | ") imp ++ s2l ": " ++ bs_slash rule ++ [32%N] ++
         qpaths (map bs_slash ins) ++ seg (s2l " | ") deps ++ seg (s2l " || ") ords ++ [10%N]).
Proof. exact build_line_form. Qed.
Print Assumptions C03_build_line_form.

(* "The only rewrites are the established ones: @TEMPLATE@ placeholders are substituted ...":
   substitute_values leaves every command without an @ untouched (same strings, count, order),
   for every template dictionary, and never raises on it *)
Theorem C03_template_identity : forall (cmd : list str) (d : tdict),
  keys_at d = true -> forallb no_at cmd = true -> substitute_values cmd d = SOk cmd.
Proof. exact substitute_values_identity. Qed.
Print Assumptions C03_template_identity.

(* ... so eval_custom_target_command does the backslash normalisation and nothing else to it *)
Theorem C03_custom_command_only_rewrites : forall (sr br cs : str) (d : tdict) (cmd : list str),
  keys_at d = true -> forallb no_at cmd = true ->
  eval_custom_cmd sr br cs d cmd = SOk (map bs_norm cmd).
Proof. exact eval_custom_cmd_plain. Qed.
Print Assumptions C03_custom_command_only_rewrites.

(* an element that is exactly @INPUT@ / @OUTPUT@ is replaced in place by all the files *)
Theorem C03_list_template_in_place : forall (d : tdict) (k : str) (l : list str),
  tlookup d k = Some (TList l) ->
  forall a b a' b', sub_cmd d a = Some a' -> sub_cmd d b = Some b' ->
  sub_cmd d (a ++ k :: b) = Some (a' ++ l ++ b').
Proof. exact sub_cmd_list_template. Qed.
Print Assumptions C03_list_template_in_place.

(* a placeholder inside a string is replaced by its value and the value is not rescanned *)
Theorem C03_placeholder_not_rescanned : forall (d : tdict) (k v r : str),
  k <> [] -> try_keys d (k ++ r) = Some (TStr v, length k) ->
  sub_go d O (k ++ r) = option_map (app v) (sub_go d O r).
Proof. exact sub_go_placeholder. Qed.
Print Assumptions C03_placeholder_not_rescanned.

(* "or to a test()": no quoting layer; the arguments are passed as they are, contiguous and in
   order, behind the (wrapper +) test program and before --test-args *)
Theorem C03_test_args_unchanged : forall w f a t : list str,
  test_cmdline w f a t = (w ++ f) ++ a ++ t /\ (w = [] -> t = [] -> test_cmdline w f a t = f ++ a).
Proof. exact test_cmdline_args. Qed.
Print Assumptions C03_test_args_unchanged.

(* leftmost-key-match semantics of the placeholder scan: every occurrence of a template key at a
   position that is not inside an earlier key match is replaced, whatever precedes it - an
   unknown @WORD@ in front (`owner@HOST@INPUT@`) cannot hide it *)
Theorem C03_placeholder_leftmost_match : forall (d : tdict) (p k v r : str),
  k <> [] -> key_free_before d p (k ++ r) ->
  try_keys d (k ++ r) = Some (TStr v, length k) ->
  sub_go d O (p ++ k ++ r) = option_map (fun t => p ++ v ++ t) (sub_go d O r).
Proof. exact sub_go_leftmost. Qed.
Print Assumptions C03_placeholder_leftmost_match.

Theorem C03_placeholder_leftmost_match_list : forall (d : tdict) (p k x r : str),
  k <> [] -> key_free_before d p (k ++ r) ->
  try_keys d (k ++ r) = Some (TList [x], length k) ->
  sub_go d O (p ++ k ++ r) = option_map (fun t => p ++ x ++ t) (sub_go d O r).
Proof. exact sub_go_leftmost_list. Qed.
Print Assumptions C03_placeholder_leftmost_match_list.
