(* Props/C08.v — the property theorems of C08, and nothing else.
   Model: Options/Lifecycle.v (the build directory = coredata.dat + cmd_line.txt +
   intro-buildoptions.json; commands setup / configure -D -U / setup --reconfigure /
   setup --wipe / option-file edits; early and late injected failures).
   [reachable pj w]: w is the state after some history of well-formed commands starting
   from an empty build directory.  [get_value_for] is what get_option() returns. *)
From MV Require Import Base.Strs Options.Kinds Options.Lifecycle Options.LcFacts
  Options.LifecycleProofs Options.LcWitness Options.LcHistory.

(* ---- "Across any sequence of setup, configure -D, configure -U, setup --reconfigure,
   setup --wipe and edits of the option file ...": the invariant of ALL histories *)
Theorem C08_every_history_is_well_formed : forall pj fs0 h,
  wf_files fs0 -> Forall wf_cmd h ->
  Forall (fun wo => wf_world (fst wo)) (run_hist pj (mkW fs0 empty_dir) h).
Proof. intros pj fs0 h F C. apply history_wf; [split; [exact F | apply wf_empty_dir] | exact C]. Qed.
Print Assumptions C08_every_history_is_well_formed.

(* after every history: every stored value is valid for its option's current type /
   choices / range, and every option can be read (no internal error) *)
Theorem C08_values_valid_and_readable : forall pj w c k o,
  reachable pj w -> cd (wdir w) = Some c -> dget (options (cstore c)) k = Some o ->
  satisfies (okind o) (oval o) = true /\ exists v, get_value_for (cstore c) k = Ok v.
Proof. exact reachable_values_valid. Qed.
Print Assumptions C08_values_valid_and_readable.

(* ---- "a configure or reconfigure that fails leaves every persisted value exactly as it was" *)
Theorem C08_failed_configure_is_identity : forall fs b args b',
  configure fs b args = (b', Failed) -> b' = b.
Proof. exact configure_failed_identity. Qed.
Print Assumptions C08_failed_configure_is_identity.

Theorem C08_failed_setup_of_configured_dir_is_identity : forall pj fs b d b',
  cd b <> None -> setup pj fs b d = (b', Failed) -> b' = b.
Proof. exact setup_configured_failed_identity. Qed.
Print Assumptions C08_failed_setup_of_configured_dir_is_identity.

Theorem C08_failed_reconfigure_keeps_coredata : forall pj fs b d b',
  cd b <> None -> reconfigure pj fs b d = (b', Failed) -> cd b' = cd b.
Proof. exact reconfigure_failed_coredata. Qed.
Print Assumptions C08_failed_reconfigure_keeps_coredata.

(* full identity holds unless the failure comes after cmd_line.txt / the intro files were
   written (a failing postconf script): known finding, witness below *)
Theorem C08_failed_reconfigure_is_identity_partial : forall pj fs b d b',
  cd b <> None -> reconfigure_late pj fs b d = false ->
  reconfigure pj fs b d = (b', Failed) -> b' = b.
Proof. exact reconfigure_failed_identity_partial. Qed.
Print Assumptions C08_failed_reconfigure_is_identity_partial.

Theorem C08_failed_reconfigure_is_identity_refuted : exists pj w d,
  reachable pj w /\ cd (wdir w) <> None /\
  snd (step pj w (Reconfigure d)) = Failed /\
  cl (wdir (fst (step pj w (Reconfigure d)))) <> cl (wdir w).
Proof.
  exists pj0, w1, d_lateS. split; [exact reach_w1|].
  destruct late_failure_witness as [A [B [_ [C D]]]]. split; [exact A|]. split; [exact B|].
  rewrite C, D. discriminate.
Qed.
Print Assumptions C08_failed_reconfigure_is_identity_refuted.

Theorem C08_failed_first_configuration_leaves_no_coredata : forall pj fs b d b',
  cd b = None -> first_configure pj fs b d = (b', Failed) -> cd b' = None.
Proof. exact first_configure_failed. Qed.
Print Assumptions C08_failed_first_configuration_leaves_no_coredata.

(* ---- "every option keeps the value it has - the last one the user gave it ... until the
   user changes it": one `meson configure` (no option-file edit pending) *)
Theorem C08_configure_gives_the_last_value : forall fs b args b' c k v,
  wf_dir b -> cd b = Some c -> seen c = fs ->
  NoDup (map fst args) -> Forall cli_key (map fst args) ->
  configure fs b args = (b', Done) -> In (k, Some v) args ->
  exists c' kd nv, cd b' = Some c' /\ kind_at (cstore c) (target (cstore c) k) = Some kd /\
    validate kd (PStr v) = Ok nv /\ get_value_for (cstore c') (target (cstore c) k) = Ok nv.
Proof. exact configure_sets. Qed.
Print Assumptions C08_configure_gives_the_last_value.

Theorem C08_configure_keeps_every_other_option : forall fs b args b' c q,
  wf_dir b -> cd b = Some c -> seen c = fs -> args <> [] ->
  configure fs b args = (b', Done) -> (forall r, In r (reads q) -> untouched args r) ->
  exists c', cd b' = Some c' /\ get_value_for (cstore c') q = get_value_for (cstore c) q.
Proof. exact configure_keeps. Qed.
Print Assumptions C08_configure_keeps_every_other_option.

Theorem C08_configure_records_the_command_line : forall fs b args b',
  args <> [] -> configure fs b args = (b', Done) ->
  cl b' = Some (update_cmd_line (cl_or_empty b) args).
Proof. exact configure_records. Qed.
Print Assumptions C08_configure_records_the_command_line.

(* the same over whole histories of configure commands (succeeding or failing, no option-file
   edit): an option no command names keeps its value; an option has the last value a
   successful command gave it *)
Theorem C08_configure_history_keeps : forall fs cmds b q, wf_files fs -> synced fs b ->
  (forall a r, In a cmds -> In r (reads q) -> untouched a r) ->
  eff_dir (run_confs fs b cmds) q = eff_dir b q.
Proof. intros fs cmds b q. exact (configure_history_keeps fs cmds b q). Qed.
Print Assumptions C08_configure_history_keeps.

Theorem C08_configure_history_last_value : forall fs pre a post b k v,
  wf_files fs -> synced fs b ->
  NoDup (map fst a) -> Forall cli_key (map fst a) -> In (k, Some v) a ->
  snd (configure fs (run_confs fs b pre) a) = Done ->
  forall c1, cd (run_confs fs b pre) = Some c1 ->
  (forall a' r, In a' post -> In r (reads (target (cstore c1) k)) -> untouched a' r) ->
  exists kd nv, kind_at (cstore c1) (target (cstore c1) k) = Some kd /\ validate kd (PStr v) = Ok nv /\
    eff_dir (run_confs fs b (pre ++ a :: post)) (target (cstore c1) k) = Ok nv.
Proof. exact configure_history_last_value. Qed.
Print Assumptions C08_configure_history_last_value.

(* ---- "dropping an override returns the subproject to the inherited value" *)
Theorem C08_dropping_an_override_inherits : forall fs b args b' c k,
  wf_dir b -> cd b = Some c -> seen c = fs ->
  NoDup (map fst args) -> Forall cli_key (map fst args) ->
  configure fs b args = (b', Done) -> In (k, None) args ->
  dmem (augments (cstore c)) k || dmem (options (cstore c)) k = true ->
  exists c', cd b' = Some c' /\
    dget (augments (cstore c')) k = None /\
    (dget (augments (cstore c)) k <> None ->
       get_value_for (cstore c') k = get_value_for (cstore c') (no_sub k)) /\
    (forall o, dget (augments (cstore c)) k = None -> dget (options (cstore c)) k = Some o ->
       (oparent o = true -> get_value_for (cstore c') k = get_value_for (cstore c') (as_root k)) /\
       (oparent o = false -> get_value_for (cstore c') k = Ok (oval o))).
Proof. exact configure_drop_override. Qed.
Print Assumptions C08_dropping_an_override_inherits.

(* ---- "a new option gets its default, a removed one vanishes" *)
Theorem C08_edit_declared_options_exactly : forall s ds sub s',
  wf_store s -> wf_decls ds -> update_project_options s ds sub = Ok s' ->
  forall q, ksub q = Some sub -> dmem (options s') q = decl_mem (kname q) ds.
Proof. exact upo_declared_exactly. Qed.
Print Assumptions C08_edit_declared_options_exactly.

Theorem C08_new_option_gets_its_default : forall s ds sub s' d,
  wf_store s -> wf_decls ds -> In d ds ->
  update_project_options s ds sub = Ok s' -> dget (options s) (pkey sub d) = None ->
  exists o', dget (options s') (pkey sub d) = Some o' /\ okind o' = dkind d /\ oval o' = ddef d.
Proof. exact upo_new_default. Qed.
Print Assumptions C08_new_option_gets_its_default.

(* ---- "a changed choice list keeps the old value when still valid and otherwise falls
   back to the new default" (an unchanged declaration keeps the value) *)
Theorem C08_changed_choices : forall s ds sub s' d old,
  wf_store s -> wf_decls ds -> In d ds ->
  update_project_options s ds sub = Ok s' -> dget (options s) (pkey sub d) = Some old ->
  same_class (okind old) (dkind d) = true ->
  exists o', dget (options s') (pkey sub d) = Some o' /\
    if choices_differ (okind old) (dkind d)
    then okind o' = dkind d /\ oval o' = (if satisfies (dkind d) (oval old) then oval old else ddef d)
    else okind o' = okind old /\ oval o' = oval old.
Proof. exact upo_choices. Qed.
Print Assumptions C08_changed_choices.

(* an edit of one project's option file leaves the options of the other project, the global
   options and every override as they are *)
Theorem C08_edit_leaves_other_projects_alone : forall s ds sub s' q,
  wf_store s -> wf_decls ds -> update_project_options s ds sub = Ok s' -> ksub q <> Some sub ->
  option_map (fun o => (okind o, oval o)) (dget (options s') q) =
  option_map (fun o => (okind o, oval o)) (dget (options s) q) /\ augments s' = augments s.
Proof. exact upo_frame. Qed.
Print Assumptions C08_edit_leaves_other_projects_alone.

(* after a successful reconfigure / first setup / --wipe the build directory holds exactly
   the options the option files declare now *)
Theorem C08_reconfigure_option_set : forall pj fs b d b' c',
  wf_dir b -> wf_files fs -> reconfigure pj fs b d = (b', Done) -> cd b' = Some c' ->
  options_match (cstore c') fs.
Proof. exact reconfigure_option_set. Qed.
Print Assumptions C08_reconfigure_option_set.

Theorem C08_first_configuration_option_set : forall pj fs b d b' c',
  wf_files fs -> first_configure pj fs b d = (b', Done) -> cd b' = Some c' ->
  options_match (cstore c') fs.
Proof. exact first_configure_option_set. Qed.
Print Assumptions C08_first_configuration_option_set.

(* ... and over ALL histories: in every reachable build directory the stored options are
   exactly the global options plus the options declared by the two option files as
   coredata.dat last loaded them *)
Theorem C08_every_reachable_directory_holds_the_declared_options : forall pj w c,
  reachable pj w -> cd (wdir w) = Some c -> options_match (cstore c) (seen c).
Proof. intros pj w c R C. exact (reachable_options_match pj w R c C). Qed.
Print Assumptions C08_every_reachable_directory_holds_the_declared_options.

(* "a removed one vanishes" at command level, also when the removed option is still recorded
   in cmd_line.txt: a reconfigure that is asked nothing succeeds whenever the build files
   evaluate (whatever is recorded), and -U of a recorded key that is no option any more drops
   the record and nothing else *)
Theorem C08_reconfigure_ignores_stale_records : forall pj fs b c c2,
  cd b = Some c ->
  run_build pj fs false (cstore c) (cl_or_empty b) = Ok (c2, false) ->
  reconfigure pj fs b [] = (mkB (Some c2) (Some (cl_or_empty b)) (Some (cstore c2)), Done).
Proof. exact reconfigure_empty_succeeds. Qed.
Print Assumptions C08_reconfigure_ignores_stale_records.

Theorem C08_drop_stale_record : forall fs b c k,
  cd b = Some c -> seen c = fs ->
  dmem (augments (cstore c)) k = false -> dmem (options (cstore c)) k = false ->
  dmem (cl_or_empty b) k = true ->
  configure fs b [(k, None)] = (mkB (cd b) (Some (dpop (cl_or_empty b) k)) (intro b), Done).
Proof. exact configure_drop_stale_record. Qed.
Print Assumptions C08_drop_stale_record.

(* ---- "--wipe re-derives the configuration from the recorded command lines plus current
   defaults": the result is a function of cmd_line.txt, the given options, the current
   option files and the project's defaults only; it is the first configuration of a
   directory that holds nothing but cmd_line.txt; it records old record + given options *)
Theorem C08_wipe_depends_on_the_record_only : forall pj fs b1 b2 d,
  cl b1 = cl b2 -> wipe pj fs b1 d = wipe pj fs b2 d.
Proof. exact wipe_depends_on_record_only. Qed.
Print Assumptions C08_wipe_depends_on_the_record_only.

Theorem C08_wipe_is_a_first_setup_with_the_record : forall pj fs b d,
  wipe pj fs b d = setup pj fs (mkB None (cl b) None) d.
Proof. exact wipe_is_fresh_setup. Qed.
Print Assumptions C08_wipe_is_a_first_setup_with_the_record.

Theorem C08_first_configuration_records : forall pj fs b d b',
  first_configure pj fs b d = (b', Done) ->
  cl b' = Some (strip_vals (dupdate (cl_or_empty b) d)) /\
  exists c, cd b' = Some c /\ intro b' = Some (cstore c) /\ seen c = fs /\
    run_build pj fs true init_store (dupdate (cl_or_empty b) d) = Ok (c, false).
Proof. exact first_configure_record. Qed.
Print Assumptions C08_first_configuration_records.

(* known finding: the record does not preserve blanks at the ends of a value (cmd_line.txt is
   read back through configparser), so --wipe configures the stripped value *)
Theorem C08_record_is_faithful_refuted : exists pj w k v v',
  reachable pj w /\ eff w k = Ok v /\ snd (step pj w (Wipe [])) = Done /\
  eff (fst (step pj w (Wipe []))) k = Ok v' /\ v <> v' /\ cl (wdir w) <> None.
Proof.
  exists pj0, w4, kSroot, (PStr (s2l " x")), (PStr (s2l "x")).
  destruct blank_value_witness as [A [B [C D]]]. split.
  - exists fsA, hist4. split; [apply wf_fsA|]. split; [repeat constructor | reflexivity].
  - repeat split; try assumption; [discriminate | rewrite B; discriminate].
Qed.
Print Assumptions C08_record_is_faithful_refuted.

(* ... and is exact otherwise: a successful configure records -D (stripped) and deletes -U, a
   first configuration / --wipe records old record + given options (C08_configure_records_the_
   command_line, C08_first_configuration_records); strip is the identity on values without
   blanks at the ends *)
Theorem C08_record_is_faithful_partial : forall fs b k v b',
  strip v = v -> configure fs b [(k, Some v)] = (b', Done) ->
  cl b' = Some (dset (cl_or_empty b) k v).
Proof.
  intros fs b k v b' S H. rewrite (configure_records fs b [(k, Some v)] b'); [|discriminate|exact H].
  cbn. rewrite S. reflexivity.
Qed.
Print Assumptions C08_record_is_faithful_partial.

(* the corner the source's own TODO names: -U of a subproject option that does not yield
   keeps its value but deletes the record, so a later --wipe returns it to the default *)
Theorem C08_wipe_preserves_values_refuted : exists pj w k v v',
  reachable pj w /\ eff w k = Ok v /\ snd (step pj w (Wipe [])) = Done /\
  eff (fst (step pj w (Wipe []))) k = Ok v' /\ v <> v'.
Proof.
  exists pj0, w3, kQ, (PStr (s2l "user")), (PStr (s2l "qd")).
  destruct wipe_after_drop_witness as [A [B C]]. split.
  - exists fsA, hist3. split; [apply wf_fsA|]. split; [repeat constructor | reflexivity].
  - repeat split; try assumption. discriminate.
Qed.
Print Assumptions C08_wipe_preserves_values_refuted.

(* editing the option files does not touch the build directory *)
Theorem C08_edit_is_external : forall pj w fs, wdir (fst (step pj w (Edit fs))) = wdir w.
Proof. intros; reflexivity. Qed.
Print Assumptions C08_edit_is_external.
