(* Props/C10.v — the property theorems of C10, and nothing else.
   Models: Deps/Lookup.v (dependencyfallbacks.py & co.), Deps/Wrap.v (wrap.py _resolve);
   specification of the fallback policy: Deps/Policy.v. *)
From MV Require Import Base.Strs Deps.Lookup Deps.Policy Deps.Wrap Deps.Proofs Deps.ProofsMulti Deps.WrapProofs.

(* "dependency() returns what the documented policy prescribes for every combination of
   circumstances": in every interpreter state a configuration can reach (any sequence of
   meson.override_dependency / subproject() / dependency() calls from a fresh build
   directory), for every system table, wrap set, subproject set, wrap_mode,
   force_fallback_for, name, version constraint list, required, allow_fallback and
   fallback, the model of dependencyfallbacks.py answers exactly what Deps/Policy.policy
   says: override wins; configured fallback subproject; forced fallback without
   consulting the system; system when present and matching; fallback subproject unless
   wrap_mode=nofallback; otherwise error when required, not-found when optional. *)
Theorem C10_lookup_follows_policy : forall w o st n kw,
  reach w o st -> n <> [] -> fallback_named kw ->
  fst (lookup w o st [n] kw) = policy w o st n kw.
Proof. exact lookup_follows_policy. Qed.
Print Assumptions C10_lookup_follows_policy.

(* ... and for dependency('a', 'b', ...) with any number of names (also none: dependency('')):
   the first overridden name wins; else the configured fallback subproject; else, unless
   forced, the first name the system has in a matching version; else the fallback
   subproject unless wrap_mode=nofallback; else error / not-found (Deps/Policy.policyN). *)
Theorem C10_lookup_follows_policy_any_names : forall w o st names kw,
  reach w o st -> fallback_named kw ->
  fst (lookup w o st names kw) = policyN w o st names kw.
Proof. exact lookup_follows_policyN. Qed.
Print Assumptions C10_lookup_follows_policy_any_names.

(* "Once one of the names has been found, all other names are added into the cache so
   subsequent calls for any of those names return the same value" (dependency.yaml): after a
   successful lookup every name of the call is overridden, hence answered by policy step 1 *)
Theorem C10_found_names_all_overridden : forall w o st names kw d st1,
  lookup w o st names kw = (OFound d, st1) ->
  forall n, In n names -> n <> [] -> assoc (ident (k_static kw) n) (s_over st1) <> None.
Proof. exact found_names_all_overridden. Qed.
Print Assumptions C10_found_names_all_overridden.

(* Identifiers are (name, static): a fallback subproject that registers its dependency with
   meson.override_dependency(n, d) is found by the dependency() call that configured it - for
   every `static:` of the call and every default_library set globally, per subproject or in
   default_options (the subproject is configured with the default_library that `static:`
   forces, so the override lands under the identifier that is looked up). *)
Theorem C10_fallback_override_found : forall w o st n kw s var sd k v,
  reach w o st -> n <> [] -> bad_name n = false -> fallback_named kw ->
  fallback_of w o st n kw = FbSub s var -> s <> [] ->
  assoc s (s_subs st) = None ->
  (forall sk, assoc (ident sk n) (s_over st) = None) ->
  (forced o n s = true \/
   (system_dep w n (k_version kw) = None /\ is_nofallback (o_wrap_mode o) = false)) ->
  assoc s (w_subs w) = Some sd -> sd_fails sd = false ->
  sd_overrides sd = [(n, None, Found k v)] ->
  check_version (k_version kw) v = true ->
  fst (lookup w o st [n] kw) = OFound (Found k v).
Proof. exact fallback_override_found. Qed.
Print Assumptions C10_fallback_override_found.

(* "Repeated lookups with the same arguments within one configuration return the same
   dependency": after a dependency() call - any number of names, any keyword arguments -
   that did not abort the configuration, any number of identical calls return the same
   dependency object, provided pkg-config never reports the literal version "undefined"
   (see _refuted). *)
Theorem C10_repeat_lookup_same_partial : forall w o st names kw r st1,
  reach w o st -> sys_defined w ->
  lookup w o st names kw = (r, st1) -> r <> OErr ->
  forall k, again w o st1 names kw k = repeat r k.
Proof. exact repeat_lookup_same_names. Qed.
Print Assumptions C10_repeat_lookup_same_partial.

(* ... and the guard is needed: a system dependency whose version string is "undefined"
   is found by the first dependency('foo', version: '!=1', required: false) and
   not found by the second. *)
Theorem C10_repeat_lookup_same_refuted :
  exists w o st names kw r st1,
    reach w o st /\ lookup w o st names kw = (r, st1) /\ r <> OErr /\
    fst (lookup w o st1 names kw) <> r.
Proof. exact repeat_lookup_refuted. Qed.
Print Assumptions C10_repeat_lookup_same_refuted.

(* "A wrap source or patch archive whose SHA-256 differs from the recorded hash is never
   unpacked or used - from a URL, fallback URL, the package cache or packagefiles": every
   byte string that reaches unpack_archive (directly or through the temp-dir retry) hashes
   to the recorded value; for every digest function, wrap, location contents, archive
   table, initial tree and fault plan. *)
Theorem C10_unpacked_only_if_verified : forall digest e d c1 c2 r s',
  resolve digest e (fresh d c1 c2) = (r, s') ->
  forall w b, (In (EUnpack w b) (m_trace s') -> verified digest e w b) /\
              (In (EUnpackTmp b) (m_trace s') -> verified digest e WPatch b).
Proof. exact unpacked_only_if_verified. Qed.
Print Assumptions C10_unpacked_only_if_verified.

(* "nothing is fetched under wrap_mode=nodownload" *)
Theorem C10_nodownload_never_fetches : forall digest e d c1 c2 r s',
  e_nodownload e = true -> resolve digest e (fresh d c1 c2) = (r, s') ->
  forall w fb, ~ In (EFetch w fb) (m_trace s').
Proof. exact nodownload_never_fetches. Qed.
Print Assumptions C10_nodownload_never_fetches.

(* "a failed patch/diff step removes the freshly unpacked directory": a failure at any
   step of fetch -> verify -> unpack -> patch -> diff, injected or natural, leaves no
   directory behind *)
Theorem C10_failed_preparation_removes_directory : forall digest e c1 c2 x s1,
  prepare digest e (fresh DAbsent c1 c2) = (RRaise x, s1) ->
  fst (resolve digest e (fresh DAbsent c1 c2)) = RRaise x /\
  m_dir (snd (resolve digest e (fresh DAbsent c1 c2))) = DAbsent.
Proof. exact failed_preparation_removes_directory. Qed.
Print Assumptions C10_failed_preparation_removes_directory.

(* "so that no later run accepts a half-prepared subproject": after any sequence of
   earlier runs (each with its own faults, URL contents, cache contents, wrap_mode), a
   run that returns the subproject returns a completely prepared tree *)
Theorem C10_never_accepts_half_prepared : forall digest e0 runs e c1 c2 s',
  Forall (fun r => same_def (fst (fst r)) e0) runs -> same_def e e0 ->
  resolve digest e (fresh (dir_after digest runs DAbsent) c1 c2) = (ROk tt, s') ->
  exists t, m_dir s' = DDir t /\ complete e0 t /\ t_build t = true.
Proof. exact never_accepts_half_prepared. Qed.
Print Assumptions C10_never_accepts_half_prepared.

(* the same statement fails for _resolve as it was before the fix
   (pending/C10-partial-unpack-left-behind): a fault in the unpack step *)
Theorem C10_unfixed_resolve_refuted :
  exists e1 e2 s1 s2 t,
    same_def e1 e2 /\
    resolve_unfixed (fun b => b) e1 (fresh DAbsent None None) = (RRaise XWrap, s1) /\
    resolve_unfixed (fun b => b) e2 (fresh (m_dir s1) (m_cache_src s1) (m_cache_patch s1)) = (ROk tt, s2) /\
    m_dir s2 = DDir t /\ t_src t = FPartial.
Proof. exact unfixed_resolve_accepts_half_prepared. Qed.
Print Assumptions C10_unfixed_resolve_refuted.

(* an existing subproject directory with its build file is used untouched *)
Theorem C10_existing_directory_untouched : forall digest e t c1 c2,
  t_build t = true -> resolve digest e (fresh (DDir t) c1 c2) = (ROk tt, fresh (DDir t) c1 c2).
Proof. exact existing_directory_untouched. Qed.
Print Assumptions C10_existing_directory_untouched.
