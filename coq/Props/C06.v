(* Props/C06.v — the property theorems of C06, and nothing else.
   "Configuring the same sources with the same options and tools always produces
    byte-identical generated text ..., independent of Python hash randomisation, the order of
    environment variables, directory-listing order and the build directory's history.
    Re-running configuration when nothing changed leaves build.ninja's content identical and
    does not touch (mtime included) any configure-time output whose content is unchanged."
   A Python set is its iteration order (a list); "independent of hash randomisation" is
   invariance under every permutation of that list. *)
From Coq Require Import Permutation.
From MV Require Import Base.Strs FS.Replace Determ.Model Determ.DepFile Determ.PkgConfig Determ.Proofs Determ.ReplaceProofs Determ.DepFileProofs Determ.PkgConfigProofs.

(* ---- byte-identical generated text, independent of set iteration order ---- *)

(* sorted() of a set of strings does not depend on the iteration order *)
Theorem C06_sorted_order_independent : forall l l' : list str,
  Permutation l l' -> sorted_strs l = sorted_strs l'.
Proof. exact sorted_strs_perm. Qed.
Print Assumptions C06_sorted_order_independent.

(* build.ninja: a build statement is the same text for every iteration order of its deps and
   order-only deps sets (ninjabackend.py:395-399) *)
Theorem C06_ninja_build_line_order_independent :
  forall (outs imp : list str) (rule : str) (ins deps deps' od od' : list str),
  Permutation deps deps' -> Permutation od od' ->
  ninja_build_line outs imp rule ins deps od = ninja_build_line outs imp rule ins deps' od'.
Proof. exact ninja_build_line_perm. Qed.
Print Assumptions C06_ninja_build_line_order_independent.

(* ... hence so is any sequence of build statements (NinjaBuild.write) *)
Theorem C06_ninja_statements_order_independent : forall es es' : list nelem,
  Forall2 same_elem es es' -> ninja_statements es = ninja_statements es'.
Proof. exact ninja_statements_perm. Qed.
Print Assumptions C06_ninja_statements_order_independent.

(* configure_file(depfile:): the transitive dependencies that become build-definition files
   (build.ninja regeneration statement, intro-buildsystem_files.json) are exactly the sorted,
   duplicate-free successors of the nodes reachable from the output (depfile.py:69-83) ... *)
Theorem C06_depfile_dependencies_spec : forall df fuel name R,
  get_all_dependencies fuel df name = Some R ->
  (forall x, In x R <-> exists n, reach df name n /\ succ df n x)
  /\ NoDup R /\ Sorted.StronglySorted (le str_ltb) R.
Proof. exact get_all_dependencies_spec. Qed.
Print Assumptions C06_depfile_dependencies_spec.

(* ... hence independent of the iteration order of every deps set (and of the fuel) *)
Theorem C06_depfile_dependencies_order_independent : forall df df' fuel fuel' name R R',
  same_depfile df df' ->
  get_all_dependencies fuel df name = Some R -> get_all_dependencies fuel' df' name = Some R' -> R = R'.
Proof. exact get_all_dependencies_order_independent. Qed.
Print Assumptions C06_depfile_dependencies_order_independent.

(* generated pkg-config files: the Requires / Requires.private lines do not depend on the
   iteration order of any version_reqs set (pkgconfig.py:337-345, 583-587) *)
Theorem C06_pkgconfig_requires_order_independent : forall vr vr' pub priv,
  same_depfile vr vr' -> requires_lines vr pub priv = requires_lines vr' pub priv.
Proof. exact requires_lines_order_independent. Qed.
Print Assumptions C06_pkgconfig_requires_order_independent.

(* ... and the duplicate removal behind Requires / Libs / Cflags only asks its `exclude` set for
   membership (pkgconfig.py:347-412, string items) *)
Theorem C06_pkgconfig_remove_dups_order_independent : forall whole whole' l,
  Permutation whole whole' -> remove_dups whole l = remove_dups whole' l.
Proof. exact remove_dups_order_independent. Qed.
Print Assumptions C06_pkgconfig_remove_dups_order_independent.

Theorem C06_pkgconfig_requires_deduplicated : forall whole l,
  let r := remove_dups whole l in
  NoDup (pub_reqs r) /\ (forall x, In x (pub_reqs r) <-> In x (pub_reqs l) /\ ~ In x whole)
  /\ (forall x, In x (pub_reqs r) -> ~ In x (priv_reqs r)).
Proof. exact remove_dups_requires_disjoint. Qed.
Print Assumptions C06_pkgconfig_requires_deduplicated.

(* exe-wrapper pickle names: the digest pre-image, hence the command line in build.ninja, does
   not depend on the order in which the environment dict was filled (backends.py:809-827) *)
Theorem C06_exe_digest_order_independent :
  forall (env env' : list (str * str)) (cmd wd cap feed : str),
  Permutation env env' -> NoDup (map fst env) ->
  exe_digest_preimage env cmd wd cap feed = exe_digest_preimage env' cmd wd cap feed.
Proof. exact exe_digest_preimage_perm. Qed.
Print Assumptions C06_exe_digest_order_independent.

(* OrderedSet / unique_list: the order is the first-insertion order and nothing else *)
Theorem C06_ordered_set_is_first_insertion_order : forall it : list str,
  oset_update it [] = unique_list it /\ NoDup (unique_list it) /\ (forall x, In x (unique_list it) <-> In x it).
Proof. intro it. exact (conj (oset_update_is_unique_list it) (conj (unique_list_nodup it) (unique_list_in it))). Qed.
Print Assumptions C06_ordered_set_is_first_insertion_order.

Theorem C06_unique_list_keeps_duplicate_free_input : forall l : list str, NoDup l -> unique_list l = l.
Proof. exact unique_list_id. Qed.
Print Assumptions C06_unique_list_keeps_duplicate_free_input.

(* OrderedSet operations that take a Python set as argument ignore its iteration order *)
Theorem C06_ordered_set_difference_order_independent : forall (s o o' : list str),
  Permutation o o' -> oset_difference s o = oset_difference s o'.
Proof. exact oset_difference_perm. Qed.
Print Assumptions C06_ordered_set_difference_order_independent.

Theorem C06_ordered_set_difference_update_order_independent : forall (it it' : list str),
  Permutation it it' -> forall s, oset_difference_update it s = oset_difference_update it' s.
Proof. exact oset_difference_update_perm. Qed.
Print Assumptions C06_ordered_set_difference_update_order_independent.

(* intro-buildoptions.json: the 'base' section produced from a compiler's base_options SET
   (coredata.py:435-441 -> mintro.py:239-272), with the loop of pending/C06-base-options-order.diff *)
Theorem C06_base_options_order_independent :
  forall (table : list str) (sub : str) (l l' : list str) (st : store),
  Permutation l l' -> base_writer table sub l st = base_writer table sub l' st.
Proof. exact base_writer_perm. Qed.
Print Assumptions C06_base_options_order_independent.

(* ... which the loop as found in the pinned tree does not satisfy (the check reports it on the
   real implementation until the fix is applied) *)
Theorem C06_base_options_asfound_refuted :
  exists table sub l l' st, Permutation l l' /\ NoDup l /\
    base_writer_asfound table sub l st <> base_writer_asfound table sub l' st.
Proof. exact base_writer_asfound_refuted. Qed.
Print Assumptions C06_base_options_asfound_refuted.

(* intro-tests.json: 'depends' after pending/C06-test-depends-order.diff is the first-insertion
   order of (depends, executable, target arguments); as found it is a set's iteration order *)
Theorem C06_test_depends_is_insertion_order : forall inserted : list str,
  test_depends inserted = unique_list inserted.
Proof. exact test_depends_spec. Qed.
Print Assumptions C06_test_depends_is_insertion_order.

Theorem C06_test_depends_asfound_refuted :
  exists l l', Permutation l l' /\ NoDup l /\ test_depends_asfound l <> test_depends_asfound l'.
Proof. exact test_depends_asfound_refuted. Qed.
Print Assumptions C06_test_depends_asfound_refuted.

(* intro-targets.json: names of anonymous dependencies are per-run uuids (known finding):
   refuted in general, true when every dependency of the target is named *)
Theorem C06_dependency_names_refuted : exists deps n1 n2, dep_names deps n1 <> dep_names deps n2.
Proof. exact dep_names_refuted. Qed.
Print Assumptions C06_dependency_names_refuted.

Theorem C06_dependency_names_partial : forall deps, all_named deps = true ->
  forall n1 n2, dep_names deps n1 = dep_names deps n2.
Proof. exact dep_names_partial. Qed.
Print Assumptions C06_dependency_names_partial.

(* ---- unchanged outputs are not touched ---- *)

(* replace_if_different, equal content: the file (content and mtime) is untouched, the
   temporary is removed, nothing else changes *)
Theorem C06_replace_if_different_equal : forall dst tmp s f1 f2,
  dst <> tmp -> fs_lookup dst s = Some f1 -> fs_lookup tmp s = Some f2 -> fdata f1 = fdata f2 ->
  exists s', replace_if_different dst tmp s = Ok s'
    /\ fs_lookup dst s' = Some f1 /\ fs_lookup tmp s' = None /\ fnow s' = fnow s
    /\ forall p, p <> tmp -> fs_lookup p s' = fs_lookup p s.
Proof. exact rid_equal. Qed.
Print Assumptions C06_replace_if_different_equal.

(* replace_if_different, different content or no destination: replaced by the temporary *)
Theorem C06_replace_if_different_different : forall dst tmp s f2,
  dst <> tmp -> fs_lookup tmp s = Some f2 ->
  (fs_lookup dst s = None \/ exists f1, fs_lookup dst s = Some f1 /\ fdata f1 <> fdata f2) ->
  exists s', replace_if_different dst tmp s = Ok s'
    /\ fs_lookup dst s' = Some f2 /\ fs_lookup tmp s' = None /\ fnow s' = fnow s
    /\ forall p, p <> tmp -> p <> dst -> fs_lookup p s' = fs_lookup p s.
Proof. exact rid_different. Qed.
Print Assumptions C06_replace_if_different_different.

(* configure_file family (write dst~, then replace_if_different) *)
Theorem C06_configure_output_unchanged_untouched : forall dst c s f,
  fs_lookup dst s = Some f -> fdata f = c ->
  exists s', conf_write dst c s = Ok s'
    /\ fs_lookup dst s' = Some f /\ fs_lookup (tilde dst) s' = None
    /\ forall p, p <> tilde dst -> fs_lookup p s' = fs_lookup p s.
Proof. exact conf_write_unchanged. Qed.
Print Assumptions C06_configure_output_unchanged_untouched.

Theorem C06_configure_output_changed_replaced : forall dst c s,
  (fs_lookup dst s = None \/ exists f, fs_lookup dst s = Some f /\ fdata f <> c) ->
  exists s', conf_write dst c s = Ok s'
    /\ fs_lookup dst s' = Some (mkfile c (fnow s)) /\ fs_lookup (tilde dst) s' = None
    /\ forall p, p <> tilde dst -> p <> dst -> fs_lookup p s' = fs_lookup p s.
Proof. exact conf_write_changed. Qed.
Print Assumptions C06_configure_output_changed_replaced.

(* re-running configuration when nothing changed is the identity on (content, mtime) of every
   output and of every other non-temporary path; no temporary is left *)
Theorem C06_reconfigure_identity : forall (outs : list (str * str)) (s : fs),
  NoDup (map fst outs) -> tilde_free (map fst outs) ->
  exists s1 s2, configure outs s = Ok s1 /\ configure outs s1 = Ok s2
    /\ (forall p, (forall d, In d (map fst outs) -> p <> tilde d) -> fs_lookup p s2 = fs_lookup p s1)
    /\ (forall d, In d (map fst outs) -> fs_lookup d s2 = fs_lookup d s1)
    /\ (forall d, In d (map fst outs) -> fs_lookup (tilde d) s2 = None).
Proof. exact reconfigure_identity. Qed.
Print Assumptions C06_reconfigure_identity.

(* ... for any number of further no-change reconfigurations *)
Theorem C06_reconfigure_history_identity : forall (outs : list (str * str)) (s : fs),
  NoDup (map fst outs) -> tilde_free (map fst outs) ->
  exists s1, configure outs s = Ok s1 /\ forall n, exists sn, configure_n n outs s1 = Ok sn
    /\ (forall p, (forall d, In d (map fst outs) -> p <> tilde d) -> fs_lookup p sn = fs_lookup p s1)
    /\ (forall d, In d (map fst outs) -> fs_lookup d sn = fs_lookup d s1).
Proof. exact reconfigure_history_identity. Qed.
Print Assumptions C06_reconfigure_history_identity.

(* the content of every configure output is independent of the build directory's history *)
Theorem C06_configure_content_history_independent : forall (outs : list (str * str)) (s s' : fs),
  NoDup (map fst outs) -> tilde_free (map fst outs) ->
  exists t t', configure outs s = Ok t /\ configure outs s' = Ok t'
    /\ forall d c, In (d, c) outs ->
         option_map fdata (fs_lookup d t) = Some c /\ option_map fdata (fs_lookup d t') = Some c.
Proof. exact configure_content_history_independent. Qed.
Print Assumptions C06_configure_content_history_independent.

(* build.ninja: written to a temporary, then os.replace: content is exactly the generated
   text whatever the directory's history; the temporary is gone; at every intermediate state
   build.ninja is the complete old or the complete new file *)
Theorem C06_build_ninja_content_history_independent : forall dst c s s',
  exists t t', ninja_write dst c s = Ok t /\ ninja_write dst c s' = Ok t'
    /\ option_map fdata (fs_lookup dst t) = Some c /\ option_map fdata (fs_lookup dst t') = Some c.
Proof. exact ninja_write_content. Qed.
Print Assumptions C06_build_ninja_content_history_independent.

Theorem C06_build_ninja_replaced_atomically : forall dst c s st,
  In st (ninja_write_trace dst c s) ->
  fs_lookup dst st = fs_lookup dst s \/ fs_lookup dst st = Some (mkfile c (fnow s)).
Proof. exact ninja_write_atomic. Qed.
Print Assumptions C06_build_ninja_replaced_atomically.

Theorem C06_build_ninja_temporary_removed : forall dst c s,
  exists s', ninja_write dst c s = Ok s'
    /\ fs_lookup dst s' = Some (mkfile c (fnow s)) /\ fs_lookup (tilde dst) s' = None
    /\ forall p, p <> tilde dst -> p <> dst -> fs_lookup p s' = fs_lookup p s.
Proof. exact ninja_write_post. Qed.
Print Assumptions C06_build_ninja_temporary_removed.

(* meson-info/intro-*.json: each file ends up with exactly its content, tmp_dump.json is gone *)
Theorem C06_intro_files_written : forall dir items s,
  NoDup (map fst items) -> ~ In (intro_tmp dir) (map fst items) ->
  exists s', intro_write dir items s = Ok s'
    /\ (forall out c, In (out, c) items -> option_map fdata (fs_lookup out s') = Some c)
    /\ (items <> [] -> fs_lookup (intro_tmp dir) s' = None)
    /\ (forall p, p <> intro_tmp dir -> ~ In p (map fst items) -> fs_lookup p s' = fs_lookup p s).
Proof. exact intro_write_post. Qed.
Print Assumptions C06_intro_files_written.
