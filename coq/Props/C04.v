(* Props/C04.v — the property theorems of C04, and nothing else.
   C04 — The generated Ninja manifest is well-formed and closed.

   [check m files need_all need_test] is the extracted judge that the harness runs on
   every build.ninja (parsed by Graph/Manifest.v); [files] are the paths that exist
   after configuration, [need_all]/[need_test] the outputs of the build-by-default
   targets / of the targets tests run or depend on.  [run_and_write fixed ops] is the
   model of NinjaBuild.add_rule/add_build/check_outputs/write ([fixed = true]: with the
   pending C04 patches applied; [false]: the code as it stands).  [testlike_targets fixed]
   is get_testlike_targets, the inputs generate_ending gives meson-test-prereq. *)
From MV Require Import Base.Strs Graph.Manifest Graph.Check Graph.Spec Graph.Proofs
                       Graph.Mech Graph.MechProofs Graph.Ending Graph.EndingProofs
                       Graph.NoCycle Graph.Quote Graph.QuoteProofs Graph.Unity Graph.UnityProofs Graph.Glue Graph.GlueProofs.
From Coq Require Import Relations.

(* "build.ninja is a valid Ninja manifest in which every build statement uses a defined
   rule, no path is produced by two statements, the dependency graph is acyclic, and
   every explicit, implicit or order-only input either exists after configuration or is
   the output of another statement.  Every target that is built by default, and every
   target a test runs or depends on, is reachable from `all` respectively
   `meson-test-prereq`": the judge says yes exactly when this holds. *)
Theorem C04_check_sound : forall m files need_all need_test,
  check m files need_all need_test = [] -> WellFormed m files need_all need_test.
Proof. intros m f a t H. exact (proj1 (check_sound_complete m f a t) H). Qed.
Print Assumptions C04_check_sound.

Theorem C04_check_complete : forall m files need_all need_test,
  WellFormed m files need_all need_test -> check m files need_all need_test = [].
Proof. intros m f a t H. exact (proj2 (check_sound_complete m f a t) H). Qed.
Print Assumptions C04_check_complete.

(* a failure names a genuine offender: the duplicated rule, the statement with the
   undefined rule, the path produced twice, a path on or above a dependency cycle, the
   input that neither exists nor is produced, the unreachable target *)
Theorem C04_offender_genuine : forall m files need_all need_test e,
  In e (check m files need_all need_test) ->
  match e with
  | EDupRule r => (In r (rule_names m) /\ ~ NoDup (rule_names m)) \/ (r = phony /\ In phony (rule_names m))
  | EUndefRule o r => exists b, In b (m_builds m) /\ first_out b = o /\ b_rule b = r /\
                                r <> phony /\ ~ In r (rule_names m)
  | EDupOutput p => In p (all_outs m) /\ ~ NoDup (all_outs m)
  | ECycle p => In p (all_outs m) /\ ~ Acc (dep_of (m_builds m)) p
  | EMissing o q => exists b, In b (m_builds m) /\ first_out b = o /\ In q (ins_of b) /\
                              ~ In q files /\ ~ In q (all_outs m)
  | EBadDefault d => In d (m_defaults m) /\ ~ In d (all_outs m ++ all_ins m)
  | EUnreach root p => (root = root_all /\ In p need_all \/ root = root_test /\ In p need_test) /\
                       ~ Reach (m_builds m) root p
  end.
Proof. exact check_offender_genuine. Qed.
Print Assumptions C04_offender_genuine.

(* "the dependency graph is acyclic": a manifest that passes has no path that depends
   on itself through any chain of statements *)
Theorem C04_pass_no_cycle : forall m files need_all need_test,
  check m files need_all need_test = [] ->
  forall p, ~ clos_trans str (dep_of (m_builds m)) p p.
Proof.
  intros m f a t H. exact (acyclic_no_cycle (m_builds m) (wf_acyclic m f a t (C04_check_sound m f a t H))).
Qed.
Print Assumptions C04_pass_no_cycle.

(* the acyclicity and reachability procedures are exact on their own *)
Theorem C04_acyclicity_decided : forall bs, cyclic_paths bs = [] <-> Acyclic bs.
Proof. exact cyclic_paths_nil. Qed.
Print Assumptions C04_acyclicity_decided.

Theorem C04_reachability_decided : forall bs root p, In p (reach_set bs root) <-> Reach bs root p.
Proof. exact reach_set_spec. Qed.
Print Assumptions C04_reachability_decided.

(* "no path is produced by two statements" — the mechanism (check_outputs at add_build,
   raised at write): for EVERY sequence of add_rule/add_build, if write does not raise,
   explicit and implicit outputs are pairwise distinct over the whole manifest ... *)
Theorem C04_mechanism_outputs_unique : forall ops rs es,
  run_and_write true ops = MOk (rs, es) ->
  NoDup (concat (map (fun e => e_outs e ++ e_iouts e) es)).
Proof. exact mech_outputs_unique. Qed.
Print Assumptions C04_mechanism_outputs_unique.

(* ... "and two targets whose outputs would collide are rejected at configure time
   instead": a sequence in which two statements (or one statement twice) name the same
   output never gets a manifest written *)
Theorem C04_mechanism_collision_rejected : forall ops rs es,
  run_and_write true ops = MOk (rs, es) -> NoDup (concat (map op_outputs ops)).
Proof. exact mech_collision_rejected. Qed.
Print Assumptions C04_mechanism_collision_rejected.

(* the code as it stands (before pending/C04-implicit-outputs-unchecked.diff) does not
   have this property: check_outputs ignores implicit outputs (DESIGN section 4 (j)) *)
Theorem C04_mechanism_outputs_unique_refuted :
  exists ops rs es, run_and_write false ops = MOk (rs, es) /\
                    ~ NoDup (concat (map (fun e => e_outs e ++ e_iouts e) es)).
Proof. exact mech_outputs_unique_refuted. Qed.
Print Assumptions C04_mechanism_outputs_unique_refuted.

(* what it does guarantee: explicit outputs are distinct; all outputs when no statement
   has implicit outputs *)
Theorem C04_mechanism_explicit_outputs_unique_partial : forall ops rs es,
  run_and_write false ops = MOk (rs, es) -> NoDup (concat (map e_outs es)).
Proof. exact mech_explicit_outputs_unique_partial. Qed.
Print Assumptions C04_mechanism_explicit_outputs_unique_partial.

Theorem C04_mechanism_outputs_unique_partial : forall ops rs es,
  no_implicit ops = true ->
  run_and_write false ops = MOk (rs, es) ->
  NoDup (concat (map (fun e => e_outs e ++ e_iouts e) es)).
Proof. exact mech_outputs_unique_partial. Qed.
Print Assumptions C04_mechanism_outputs_unique_partial.

(* "every build statement uses a defined rule" — the mechanism: whatever write lets
   through uses only rules that are written, and no rule is written twice *)
Theorem C04_mechanism_rules_defined : forall fixed ops rs es,
  run_and_write fixed ops = MOk (rs, es) ->
  NoDup rs /\ ~ In phony rs /\ forall e, In e es -> e_rule e = phony \/ In (e_rule e) rs.
Proof. exact mech_rules_defined. Qed.
Print Assumptions C04_mechanism_rules_defined.

(* "a valid Ninja manifest": after pending/C04-pipe-in-path.diff no name the Ninja lexer
   cannot represent in a build line ('|', newline) is ever written *)
Theorem C04_mechanism_names_representable : forall ops rs es,
  run_and_write true ops = MOk (rs, es) ->
  forall e n, In e es -> In n (elem_names e) -> has_pipe n = false /\ has_nl n = false.
Proof. exact mech_names_representable. Qed.
Print Assumptions C04_mechanism_names_representable.

(* mechanism and judge agree: what write lets through passes the judge's rule and
   uniqueness checks *)
Theorem C04_mechanism_passes_judge : forall ops rs es,
  run_and_write true ops = MOk (rs, es) ->
  let m := mech_manifest rs es in
  chk_rules m = [] /\ chk_defined m = [] /\ chk_unique m = [].
Proof. exact mech_written_manifest. Qed.
Print Assumptions C04_mechanism_passes_judge.

(* forbidden target names: a name validate_forbidden_targets accepts in the root of the
   build directory is none of the outputs the backend produces there itself *)
Theorem C04_accepted_name_not_reserved : forall n,
  name_rejected n true = false ->
  ~ In n backend_root_outputs /\ prefixb (s2l "meson-internal__") n = false.
Proof. exact accepted_name_not_reserved. Qed.
Print Assumptions C04_accepted_name_not_reserved.

(* "every target a test runs or depends on is reachable from meson-test-prereq" — the
   aggregate: every target the test serialisation records for a test (its program, its
   arguments, its depends, programs found through meson.override_find_program unwrapped)
   is one of get_testlike_targets() after pending/C04-test-prereq-local-program.diff ... *)
Theorem C04_test_prereq_covers_tests : forall ts t id,
  In t ts -> In id (serial_depends t) -> In id (testlike_targets true ts).
Proof. exact testlike_covers_serialisation. Qed.
Print Assumptions C04_test_prereq_covers_tests.

(* ... the code as it stands misses an overridden program (LocalProgram) ... *)
Theorem C04_test_prereq_covers_tests_refuted :
  exists ts t id, In t ts /\ In id (serial_depends t) /\ ~ In id (testlike_targets false ts).
Proof. exact testlike_covers_serialisation_refuted. Qed.
Print Assumptions C04_test_prereq_covers_tests_refuted.

(* ... and is right when no test runs, or is given, such a program *)
Theorem C04_test_prereq_covers_tests_partial : forall ts t id,
  no_local_program ts = true ->
  In t ts -> In id (serial_depends t) -> In id (testlike_targets false ts).
Proof. exact testlike_covers_serialisation_partial. Qed.
Print Assumptions C04_test_prereq_covers_tests_partial.

(* a manifest containing the aggregate statements of generate_ending reaches the first
   output of every build-by-default target from `all`, and of every target a test runs
   or depends on from `meson-test-prereq` *)
Theorem C04_all_reaches_default_targets : forall bs ts t,
  In (ending_all ts) bs -> In t ts -> g_bbd t = true -> Reach bs root_all (g_first t).
Proof. exact ending_all_reaches. Qed.
Print Assumptions C04_all_reaches_default_targets.

Theorem C04_test_prereq_reaches_test_targets : forall bs ts tests t id p,
  In (ending_test_prereq true ts tests) bs ->
  In t tests -> In id (serial_depends t) -> In p (first_of ts id) ->
  Reach bs root_test p.
Proof. exact ending_test_prereq_reaches. Qed.
Print Assumptions C04_test_prereq_reaches_test_targets.

(* "the dependency graph is acyclic": the well-foundedness the judge decides is, for the
   graph of a manifest, exactly the absence of a path that depends on itself *)
Theorem C04_acyclic_iff_no_cycle : forall bs,
  Acyclic bs <-> forall p, ~ clos_trans str (dep_of bs) p p.
Proof. exact acyclic_iff_no_cycle. Qed.
Print Assumptions C04_acyclic_iff_no_cycle.

(* "build.ninja is a valid Ninja manifest": the build line NinjaBuildElement.write
   assembles (ninja_quote on every name) is read back by the reference reader as the
   statement with exactly these names (lexically canonicalised as ninja does) — for ALL
   name lists whose names are non-empty and free of newline, '|' and NUL, i.e. for
   everything write lets through after pending/C04-pipe-in-path.diff ... *)
Theorem C04_build_line_roundtrip : forall fenv bvars outs iouts rule ins deps oos,
  outs <> [] -> rule <> [] -> forallb is_ident rule = true ->
  forallb name_ok outs = true -> forallb name_ok iouts = true -> forallb name_ok ins = true ->
  forallb name_ok deps = true -> forallb name_ok oos = true ->
  exists toks,
    classify (s2l "build" ++ build_line_rest outs iouts rule ins deps oos) = LBuild toks /\
    mk_build fenv toks bvars =
    Ok (mkBuild (map canon_path outs) (map canon_path iouts) rule (map canon_path ins)
                (map canon_path deps) (map canon_path oos) [] bvars).
Proof. exact build_line_roundtrip. Qed.
Print Assumptions C04_build_line_roundtrip.

Theorem C04_quoted_names_roundtrip : forall ps,
  forallb name_ok ps = true -> lex_paths (quote_names ps) = Ok (map mkT ps).
Proof. exact quote_names_roundtrip. Qed.
Print Assumptions C04_quoted_names_roundtrip.

(* ... and the guard is needed: a name containing '|' is read back as something else *)
Theorem C04_quoted_names_roundtrip_refuted :
  exists ps, lex_paths (quote_names ps) <> Ok (map mkT ps).
Proof. exact quote_names_roundtrip_refuted. Qed.
Print Assumptions C04_quoted_names_roundtrip_refuted.

(* known finding C04-unity-extracted-objects (pending/C04-unity-extracted-objects.md): for
   a unity target, extract_all_objects() (both_libraries, objects:) chunks a source list
   that differs from the one that is compiled, so it can name an object no statement
   produces — "every ... input either exists after configuration or is the output of
   another statement" fails for such a project.  A source listed twice: *)
Theorem C04_unity_extracted_objects_refuted :
  exists srcs size, 2 <= size /\ exists o, In o (extracted_objects srcs size) /\ ~ In o (compiled_objects srcs size).
Proof. exact extracted_are_compiled_refuted. Qed.
Print Assumptions C04_unity_extracted_objects_refuted.

(* an assembly source (which cannot join a unity file) next to C sources: *)
Theorem C04_unity_extracted_objects_refuted_asm :
  exists srcs size, 2 <= size /\ NoDup (map fst srcs) /\
    exists o, In o (extracted_objects srcs size) /\ ~ In o (compiled_objects srcs size).
Proof. exact extracted_are_compiled_refuted_asm. Qed.
Print Assumptions C04_unity_extracted_objects_refuted_asm.

(* what does hold: distinct sources that can all join a unity file *)
Theorem C04_unity_extracted_objects_partial : forall srcs size,
  NoDup (map fst srcs) -> forallb snd srcs = true ->
  extracted_objects srcs size = compiled_objects srcs size.
Proof. exact extracted_are_compiled_partial. Qed.
Print Assumptions C04_unity_extracted_objects_partial.

(* ---- references emitted by the statement generator name what is produced (Graph/Glue.v) ---- *)

(* a dependency of an alias / run target on a run target names the statement of that run
   target (build_run_target_name, with the subproject prefix) after
   pending/C04-run-target-dep-in-subproject.diff ... *)
Theorem C04_run_target_dep_named : forall d, run_dep_ref true d = run_target_name d.
Proof. intro d. exact (run_dep_named true d eq_refl). Qed.
Print Assumptions C04_run_target_dep_named.

(* ... the code as it stands names "<name>" for a run target of a subproject, whose
   statement is "<subproject>@@<name>"; it is right in the main project *)
Theorem C04_run_target_dep_named_refuted : exists d, run_dep_ref false d <> run_target_name d.
Proof. exact run_dep_named_refuted. Qed.
Print Assumptions C04_run_target_dep_named_refuted.

Theorem C04_run_target_dep_named_partial : forall d, rt_sub d = [] -> run_dep_ref false d = run_target_name d.
Proof. exact run_dep_named_partial. Qed.
Print Assumptions C04_run_target_dep_named_partial.

(* compiler.preprocess(): after pending/C04-preprocess-flat-layout.diff a user of a
   preprocessed source reads exactly the path the preprocessor statement produces, for
   every layout and every (normalised) subdir, and the headers of depends: are referred
   to where they are produced ... *)
Theorem C04_preprocess_output_read_where_produced : forall flat subdir name o,
  forallb plain_comp subdir = true -> plain_comp (name ++ s2l ".p") = true -> plain_comp o = true ->
  pp_consumed true flat subdir name o = pp_produced flat subdir name o.
Proof. exact pp_consumed_is_produced. Qed.
Print Assumptions C04_preprocess_output_read_where_produced.

Theorem C04_preprocess_depends_header_where_produced : forall flat depsubdir o,
  hdr_ref true flat depsubdir o = hdr_produced flat depsubdir o.
Proof. exact hdr_ref_is_produced. Qed.
Print Assumptions C04_preprocess_depends_header_where_produced.

(* ... the code as it stands doubles the directory (root, --layout=flat) and looks for the
   header in the source subdir; it is right with the default layout *)
Theorem C04_preprocess_output_read_where_produced_refuted :
  exists flat subdir name o, forallb plain_comp subdir = true /\
    pp_consumed false flat subdir name o <> pp_produced flat subdir name o.
Proof. exact pp_consumed_is_produced_refuted. Qed.
Print Assumptions C04_preprocess_output_read_where_produced_refuted.

Theorem C04_preprocess_output_read_where_produced_partial : forall subdir name o,
  forallb plain_comp subdir = true -> plain_comp (name ++ s2l ".p") = true -> plain_comp o = true ->
  pp_consumed false false subdir name o = pp_produced false subdir name o.
Proof. exact pp_consumed_is_produced_partial. Qed.
Print Assumptions C04_preprocess_output_read_where_produced_partial.

Theorem C04_preprocess_depends_header_refuted :
  exists flat depsubdir o, hdr_ref false flat depsubdir o <> hdr_produced flat depsubdir o.
Proof. exact hdr_ref_is_produced_refuted. Qed.
Print Assumptions C04_preprocess_depends_header_refuted.

(* dyndeps: every depscan.json a depaccumulate statement reads (its own, those of linked
   targets that use dyndeps, those of Fortran targets whose objects it takes) is produced
   by a depscan statement *)
Theorem C04_depaccumulate_inputs_produced : forall ts self linked extracted,
  dyndep_consistent ts = true -> d_dyndeps self = true ->
  In self ts -> incl linked ts -> incl extracted ts ->
  forall q, In q (depaccumulate_inputs self linked extracted) -> In q (produced_jsons ts).
Proof. exact depaccumulate_inputs_produced. Qed.
Print Assumptions C04_depaccumulate_inputs_produced.

(* with pending/C04-unity-extracted-objects.diff extract_all_objects() of a unity target
   names exactly the objects that are compiled, for every source list and unity_size *)
Theorem C04_unity_extracted_objects_fixed : forall srcs size o,
  In o (extracted_objects_fixed srcs size) <-> In o (compiled_objects srcs size).
Proof. exact extracted_fixed_are_compiled. Qed.
Print Assumptions C04_unity_extracted_objects_fixed.
