(* Props/C07.v — the property theorems of C07, and nothing else.
   Model: Options/{Kinds,Store,Init}.v (transcription of mesonbuild/options.py).
   res = Ok | Err (an exception); pv = str | bool | int | list of str. *)
From MV Require Import Base.Strs Options.Kinds Options.Store Options.Init Options.Spec
                       Options.Proofs Options.Precedence Options.SubMerge Options.SubApply Options.Final
                       Options.Buildtype Options.TopProject Options.YieldInv
                       Options.Extensions Options.MachineFile Options.MachineFileProofs.

(* ---- "A value violating an option's type, choices or range is always rejected
        and a stored value always satisfies them." *)

(* validate_value is exactly: coerce the raw value to the option's type (denotes),
   then check choices / range (satisfies) *)
Theorem C07_validate_is_type_then_choices_range : forall k v,
  validate k v = (do t <- denotes k v; if satisfies k t then Ok t else Err EMeson).
Proof. exact validate_spec. Qed.
Print Assumptions C07_validate_is_type_then_choices_range.

Theorem C07_accepted_value_satisfies : forall k v v',
  validate k v = Ok v' -> satisfies k v' = true.
Proof. exact validate_sound. Qed.
Print Assumptions C07_accepted_value_satisfies.

(* a value of the wrong type (denotes fails) or violating choices/range is rejected *)
Theorem C07_violating_value_rejected : forall k v,
  (forall t, denotes k v = Ok t -> satisfies k t = false) -> exists e, validate k v = Err e.
Proof. exact validate_rejects. Qed.
Print Assumptions C07_violating_value_rejected.

Theorem C07_valid_value_accepted_unchanged : forall k v,
  satisfies k v = true -> validate k v = Ok v.
Proof. exact validate_typed. Qed.
Print Assumptions C07_valid_value_accepted_unchanged.

(* for EVERY sequence of store operations (adding system / compiler / module /
   project options, set_option, set_user_option, both initialisers, reads) starting
   from init_builtins() or from an empty store, every stored value satisfies its
   option's type, choices and range *)
Theorem C07_stored_values_always_valid : forall cross libdir s0 ops s' out e,
  init_builtins cross libdir = Ok s0 ->
  run_ops s0 ops [] = (s', out, e) ->
  Forall (fun entry => satisfies (okind (snd entry)) (ovalue (snd entry)) = true) (options s').
Proof.
  intros cross libdir s0 ops s' out e H0 H.
  exact (run_ops_ok ops s0 [] s' out e (init_builtins_ok cross libdir s0 H0) H).
Qed.
Print Assumptions C07_stored_values_always_valid.

Theorem C07_stored_values_always_valid_from_empty : forall cross ops s' out e,
  run_ops (empty_store cross) ops [] = (s', out, e) ->
  Forall (fun entry => satisfies (okind (snd entry)) (ovalue (snd entry)) = true) (options s').
Proof.
  intros cross ops s' out e H. exact (run_ops_ok ops _ [] s' out e (empty_store_ok cross) H).
Qed.
Print Assumptions C07_stored_values_always_valid_from_empty.

(* an initialisation that succeeds applied only values accepted by their options;
   equivalently one rejected value makes the whole call raise *)
Theorem C07_top_level_rejects_invalid_value : forall f s pdo cmd mf s1 pdo' cmd' mf' k v t e,
  first_handle_prefix s pdo cmd mf = Ok (s1, pdo', cmd', mf') ->
  pfx_okb s1 = true -> forallb (good_entryb s1) (pdo' ++ mf' ++ cmd') = true ->
  In (k, v) (pdo' ++ mf' ++ cmd') ->
  native_skip s1 k = false -> sub_truthy k = false -> target s1 k = Some t ->
  canon s1 t v = Err e ->
  forall s', initialize_from_top_level_project_call (S f) s pdo cmd mf <> Ok s'.
Proof.
  intros f s pdo cmd mf s1 pdo' cmd' mf' k v t e Hf Hp Hg.
  exact (top_rejects_invalid f s pdo cmd mf s1 pdo' cmd' mf' k v t e Hf
           (pfx_okb_sound _ Hp) (good_entryb_sound _ _ Hg)).
Qed.
Print Assumptions C07_top_level_rejects_invalid_value.

Theorem C07_canonical_value_satisfies_option : forall s t v v3,
  canon s t v = Ok v3 ->
  exists rk o, resolve_option s t = Ok (rk, o) /\ satisfies (okind o) v3 = true.
Proof. exact canon_valid. Qed.
Print Assumptions C07_canonical_value_satisfies_option.

(* ---- "The effective value of an option in the top-level project is the one from the
        highest-priority source that sets it: command line, then machine file, then
        project(default_options), then the declared default"
   s1 = the store after the prefix was handled; pdo'/mf'/cmd' = the three sources
   without their prefix entries; the guard good_entryb excludes entries named
   buildtype / prefix and options renamed by `deprecated: 'other'` (their cross-option
   effects are the subject of the buildtype / prefix theorems below); the sources may
   contain ANY number of other options.  dlast d q = the value d binds to q. *)
Theorem C07_top_level_precedence : forall f s pdo cmd mf s1 pdo' cmd' mf' s' q v0,
  first_handle_prefix s pdo cmd mf = Ok (s1, pdo', cmd', mf') ->
  initialize_from_top_level_project_call (S f) s pdo cmd mf = Ok s' ->
  pfx_okb s1 = true -> forallb (good_entryb s1) (pdo' ++ mf' ++ cmd') = true ->
  kmach q = Host -> ksub q = None -> is_project_option s1 q = false ->
  oslot s1 q = Some (v0, false) -> aslot s1 q = None ->
  get_value_for s' q =
    match resolve_top (dlast cmd' q) (dlast mf' q) (dlast pdo' q) with
    | Some v => canon s1 q v
    | None => Ok v0
    end.
Proof.
  intros f s pdo cmd mf s1 pdo' cmd' mf' s' q v0 Hf Hi Hp Hg.
  exact (top_precedence_global f s pdo cmd mf s1 pdo' cmd' mf' s' q v0 Hf Hi
           (pfx_okb_sound _ Hp) (good_entryb_sound _ _ Hg)).
Qed.
Print Assumptions C07_top_level_precedence.

(* the same for an option of the top-level project itself (key ":name"; the sources may
   spell it "name" or ":name") *)
Theorem C07_top_level_precedence_project_option : forall f s pdo cmd mf s1 pdo' cmd' mf' s' q v0,
  first_handle_prefix s pdo cmd mf = Ok (s1, pdo', cmd', mf') ->
  initialize_from_top_level_project_call (S f) s pdo cmd mf = Ok s' ->
  pfx_okb s1 = true -> forallb (good_entryb s1) (pdo' ++ mf' ++ cmd') = true ->
  kmach q = Host -> ksub q = Some [] ->
  dmem (options s1) (no_sub q) = false -> accept_as_pending_option (no_sub q) true = false ->
  oslot s1 q = Some (v0, false) -> aslot s1 q = None ->
  get_value_for s' q =
    match resolve_top (dlast_by (spelled q) cmd' None) (dlast_by (spelled q) mf' None)
                      (dlast_by (spelled q) pdo' None) with
    | Some v => canon s1 q v
    | None => Ok v0
    end.
Proof.
  intros f s pdo cmd mf s1 pdo' cmd' mf' s' q v0 Hf Hi Hp Hg.
  exact (top_precedence_project f s pdo cmd mf s1 pdo' cmd' mf' s' q v0 Hf Hi
           (pfx_okb_sound _ Hp) (good_entryb_sound _ _ Hg)).
Qed.
Print Assumptions C07_top_level_precedence_project_option.

Theorem C07_dict_lookup_is_last_binding : forall d q, uniq_keys d = true -> dlast d q = dget d q.
Proof. exact dlast_dget. Qed.
Print Assumptions C07_dict_lookup_is_last_binding.

(* ---- "for a subproject the documented eight-step order holds"
   The five merge passes compute, for EVERY option q = sub:name and EVERY content of
   the five dictionaries, the winner of the documented order; FromTop means "the value
   the top-level project resolved" (steps 1, 3, 4 or no source at all). *)
Theorem C07_subproject_eight_step_order : forall s sub q spcall pdo cmd mf merged,
  ksub q = Some sub ->
  is_project_option s (as_root q) = false ->
  merge_sub s sub spcall pdo cmd mf = Ok merged ->
  merged_scoped merged q =
    match resolve_sub
            None                                                   (* 1 parent default_options  opt *)
            (option_map FromSub (dlast pdo (no_sub q)))            (* 2 subproject's default_options opt *)
            (top_marker (dlast mf (no_sub q)))                     (* 3 machine file  opt *)
            (top_marker (dlast cmd (no_sub q)))                    (* 4 command line  opt *)
            (option_map FromSub (dlast (pending_sub s) q))         (* 5 parent default_options  sub:opt *)
            (option_map FromSub (dlast spcall (no_sub q)))         (* 6 subproject(default_options:) opt *)
            (option_map FromSub (dlast mf q))                      (* 7 machine file  sub:opt *)
            (option_map FromSub (dlast cmd q))                     (* 8 command line  sub:opt *)
    with
    | Some x => x
    | None => FromTop
    end.
Proof. exact merge_sub_eight_steps. Qed.
Print Assumptions C07_subproject_eight_step_order.

(* a top-level PROJECT option of the same name shields the subproject from global
   `opt=value` on the command line / in the machine file (they name that option) *)
Theorem C07_subproject_same_name_as_top_project_option : forall s sub q spcall pdo cmd mf merged,
  ksub q = Some sub ->
  is_project_option s (as_root q) = true ->
  merge_sub s sub spcall pdo cmd mf = Ok merged ->
  dget merged q =
    first_defined [dlast cmd q; dlast mf q; dlast spcall (no_sub q); dlast (pending_sub s) q; dlast pdo (no_sub q)].
Proof. exact merge_sub_same_name_as_top_option. Qed.
Print Assumptions C07_subproject_same_name_as_top_project_option.

(* the merged value becomes the subproject's effective value (first initialisation of
   the subproject); without one the subproject sees the top-level value v0 *)
Theorem C07_subproject_value_of_global_option : forall f s sub spcall pdo cmd mf s' merged q v0,
  initialize_from_subproject_call (S f) s sub spcall pdo cmd mf = Ok s' ->
  merge_sub s sub spcall pdo cmd mf = Ok merged ->
  pfx_okb s = true -> forallb (sub_entry_okb sub s) merged = true ->
  ksub q = Some sub -> kmach q = Host ->
  dmem (options s) q = false -> is_project_option s q = false ->
  aslot s q = None ->
  oslot s (no_sub q) = Some (v0, false) ->
  get_value_for s' q =
    match merged_scoped merged q with
    | FromSub v => canon s q v
    | FromTop => Ok v0
    end.
Proof.
  intros f s sub spcall pdo cmd mf s' merged q v0 Hi Hm Hp Hg.
  exact (sub_value_of_global_option f s sub spcall pdo cmd mf s' merged q v0 Hi Hm
           (pfx_okb_sound _ Hp) (sub_entry_okb_sound _ _ _ Hg)).
Qed.
Print Assumptions C07_subproject_value_of_global_option.

Theorem C07_subproject_value_of_project_option : forall f s sub spcall pdo cmd mf s' merged q,
  initialize_from_subproject_call (S f) s sub spcall pdo cmd mf = Ok s' ->
  merge_sub s sub spcall pdo cmd mf = Ok merged ->
  pfx_okb s = true -> forallb (sub_entry_okb sub s) merged = true ->
  ksub q = Some sub -> kmach q = Host ->
  dmem (options s) q = true -> aslot s q = None ->
  forall v, dget merged q = Some v ->
  exists v3, canon s q v = Ok v3 /\ get_value_for s' q = Ok v3.
Proof.
  intros f s sub spcall pdo cmd mf s' merged q Hi Hm Hp Hg Hq Hh.
  exact (sub_value_of_project_option f s sub spcall pdo cmd mf s' merged q sub Hi Hm
           (pfx_okb_sound _ Hp) (sub_entry_okb_sound _ _ _ Hg) Hq Hh Hq).
Qed.
Print Assumptions C07_subproject_value_of_project_option.

Theorem C07_subproject_project_option_without_source : forall f s sub spcall pdo cmd mf s' merged q v0,
  initialize_from_subproject_call (S f) s sub spcall pdo cmd mf = Ok s' ->
  merge_sub s sub spcall pdo cmd mf = Ok merged ->
  pfx_okb s = true -> forallb (sub_entry_okb sub s) merged = true ->
  ksub q = Some sub -> kmach q = Host ->
  oslot s q = Some (v0, false) -> aslot s q = None ->
  dget merged q = None ->
  get_value_for s' q = Ok v0.
Proof.
  intros f s sub spcall pdo cmd mf s' merged q v0 Hi Hm Hp Hg.
  exact (sub_project_option_untouched f s sub spcall pdo cmd mf s' merged q v0 Hi Hm
           (pfx_okb_sound _ Hp) (sub_entry_okb_sound _ _ _ Hg)).
Qed.
Print Assumptions C07_subproject_project_option_without_source.

(* ---- "a yielding option takes the parent's value" *)
Theorem C07_yielding_option_takes_parent_value : forall s q su o pk p,
  kmach q = Host -> ksub q = Some su ->
  dget (options s) q = Some o -> oyield o = true -> oparent o = Some pk ->
  dget (options s) pk = Some p -> dget (augments s) q = None ->
  get_value_for s q = Ok (ovalue p).
Proof. exact yielding_takes_parent. Qed.
Print Assumptions C07_yielding_option_takes_parent_value.

Theorem C07_yield_established_by_add_project_option : forall s k o s',
  kmach k = Host -> oparent o = None -> add_project_option s k o = Ok s' ->
  exists o', dget (options s') k = Some o' /\ ovalue o' = ovalue o /\ okind o' = okind o /\
    oparent o' = yield_parent s k o /\
    oyield o' = match yield_parent s k o with Some _ => true | None => false end.
Proof. exact yield_setup. Qed.
Print Assumptions C07_yield_established_by_add_project_option.

(* a parent link always points to an existing option of the SAME class (options.py:918
   `type(parent_option) is type(valobj)`; a feature option is not a parent for a combo
   option although UserFeatureOption subclasses UserComboOption) — after every sequence
   of store operations *)
Theorem C07_yield_parent_has_same_type : forall cross libdir s0 ops s' out e,
  init_builtins cross libdir = Ok s0 ->
  run_ops s0 ops [] = (s', out, e) ->
  forall k o pk, dget (options s') k = Some o -> oparent o = Some pk ->
    exists p, dget (options s') pk = Some p /\ same_class (okind p) (okind o) = true.
Proof.
  intros cross libdir s0 ops s' out e H0 H.
  exact (run_ops_ywf ops s0 [] s' out e (init_builtins_ywf cross libdir s0 H0) H).
Qed.
Print Assumptions C07_yield_parent_has_same_type.

(* the effective value of a key without augment: the option's own stored value, or for a
   yielding option the stored value of its same-class parent; it satisfies the option
   object it is stored in *)
Theorem C07_effective_value_characterised : forall s q v,
  store_ok s -> yield_wf s ->
  get_value_for s q = Ok v -> dget (augments s) (ensure_key s q) = None ->
  exists rk o, resolve_option s (ensure_key s q) = Ok (rk, o) /\
    ((oyield o = false /\ v = ovalue o /\ satisfies (okind o) v = true) \/
     (oyield o = true /\ exists pk p, oparent o = Some pk /\ dget (options s) pk = Some p /\
        v = ovalue p /\ satisfies (okind p) v = true /\ same_class (okind p) (okind o) = true)).
Proof. exact effective_value_characterised. Qed.
Print Assumptions C07_effective_value_characterised.

(* "always valid" does NOT extend to the value a yielding option shows: same class, wider
   range in the parent (known finding C07:yielding-value-outside-own-choices, reproduced on
   the implementation by the check) *)
Theorem C07_effective_value_valid_refuted :
  exists s0 s' out e o v,
    init_builtins false (s2l "lib") = Ok s0 /\
    run_ops s0 witness_ops [] = (s', out, e) /\ e = None /\
    dget (options s') yopt_sub = Some o /\
    get_value_for s' yopt_sub = Ok v /\
    satisfies (okind o) (ovalue o) = true /\
    satisfies (okind o) v = false.
Proof. exact effective_value_valid_refuted. Qed.
Print Assumptions C07_effective_value_valid_refuted.

Theorem C07_effective_value_valid_partial : forall s q v rk o,
  store_ok s -> yield_wf s ->
  get_value_for s q = Ok v -> dget (augments s) (ensure_key s q) = None ->
  resolve_option s (ensure_key s q) = Ok (rk, o) -> oyield o = false ->
  satisfies (okind o) v = true.
Proof. exact effective_value_valid_partial. Qed.
Print Assumptions C07_effective_value_valid_partial.

(* ---- "prefix-dependent directory defaults follow the prefix" *)
Theorem C07_prefix_source_order : forall s pdo cmd mf s1 pdo' cmd' mf',
  first_handle_prefix s pdo cmd mf = Ok (s1, pdo', cmd', mf') ->
  match resolve_top (last_prefix cmd None) (dget mf prefix_key) (last_prefix pdo None) with
  | Some (PStr p) => hard_reset_from_prefix s p = Ok s1
  | Some _ => False
  | None => s1 = s
  end.
Proof. exact prefix_source_order. Qed.
Print Assumptions C07_prefix_source_order.

Theorem C07_prefix_dependent_defaults_follow_prefix : forall s p0 s' n mapping,
  hard_reset_from_prefix s p0 = Ok s' -> In (n, mapping) NOPREFIX ->
  exists p o v' op vp,
    sanitize_prefix p0 = Ok p /\
    dget (options s) (nopref_key n) = Some o /\
    validate (okind o) (match sassoc mapping p with Some x => PStr x | None => odefault o end) = Ok v' /\
    dget (options s') (nopref_key n) = Some (with_value o v') /\
    validate (okind op) (PStr p) = Ok vp /\
    dget (options s') prefix_key = Some (with_value op vp).
Proof. exact prefix_dependent_defaults. Qed.
Print Assumptions C07_prefix_dependent_defaults_follow_prefix.

(* ---- "`buildtype` sets `debug`/`optimization` unless they are given explicitly"
   set_option(buildtype, v) (first invocation) is the write of buildtype followed -- when the
   VALUE changed (old <> new) and is not 'custom' -- by the writes of debug and optimization
   with the DEFAULT_DEPENDENTS values; apply_wr_o / apply_wr_a describe the slots after each
   write.  The returned flag is `changed or unsaved` (unsaved: the option was yielding, or
   the subproject had no override of its own yet). *)
Theorem C07_buildtype_sets_debug_and_optimization : forall f s k v s' ch,
  kmach k = Host -> kname k = bt_name -> pfx_ok s ->
  (forall rk o, resolve_option s k = Ok (rk, o) -> not_dname o = true) ->
  (forall rk o, resolve_option s (debug_of k) = Ok (rk, o) -> not_dname o = true) ->
  (forall rk o, resolve_option s (optimization_of k) = Ok (rk, o) -> not_dname o = true) ->
  set_option (S (S f)) s k v true = Ok (s', ch) ->
  exists v3 rk o s2 old unsaved,
    canon s k v = Ok v3 /\ resolve_for_set s k = Ok (rk, o) /\
    store_value s k rk v3 = Ok (s2, old, unsaved) /\
    ch = negb (pv_eqb old v3) || unsaved /\ R s s' /\
    ((pv_eqb old v3 = true \/ v3 = PStr (s2l "custom")) /\
       (forall x, oslot s' x = apply_wr_o (set_wr s k v) (oslot s) x) /\
       (forall x, aslot s' x = apply_wr_a (set_wr s k v) (aslot s) x)
     \/
     exists b optimization debug,
       pv_eqb old v3 = false /\ v3 = PStr b /\ sassoc DEFAULT_DEPENDENTS b = Some (optimization, debug) /\
       (forall x, oslot s' x =
          apply_wr_o (set_wr s (optimization_of k) (PStr optimization))
            (apply_wr_o (set_wr s (debug_of k) (PBool debug))
               (apply_wr_o (set_wr s k v) (oslot s))) x) /\
       (forall x, aslot s' x =
          apply_wr_a (set_wr s (optimization_of k) (PStr optimization))
            (apply_wr_a (set_wr s (debug_of k) (PBool debug))
               (apply_wr_a (set_wr s k v) (aslot s))) x)).
Proof. exact buildtype_expansion. Qed.
Print Assumptions C07_buildtype_sets_debug_and_optimization.

(* buildtype processed first, then the other entries: an explicit debug / optimization
   among them wins, otherwise the value left by the buildtype expansion stays *)
Theorem C07_explicit_value_after_buildtype_wins : forall f s k vb rest s',
  kmach k = Host -> ksub k = None -> kname k = bt_name -> dmem (options s) k = true ->
  pfx_ok s ->
  (forall rk o, resolve_option s k = Ok (rk, o) -> not_dname o = true) ->
  (forall rk o, resolve_option s (debug_of k) = Ok (rk, o) -> not_dname o = true) ->
  (forall rk o, resolve_option s (optimization_of k) = Ok (rk, o) -> not_dname o = true) ->
  Forall (good_entry s) rest ->
  top_mc_loop (S (S f)) s ((k, vb) :: rest) = Ok s' ->
  exists sB ch,
    set_option (S (S f)) s k vb true = Ok (sB, ch) /\ R s sB /\
    forall q v0,
      kmach q = Host -> ksub q = None -> is_project_option s q = false ->
      oslot sB q = Some (v0, false) -> aslot sB q = None ->
      get_value_for s' q =
        match dlast rest q with
        | Some x => canon s q x
        | None => Ok v0
        end.
Proof. exact buildtype_then_explicit. Qed.
Print Assumptions C07_explicit_value_after_buildtype_wins.

(* ---- buildtype on the command line is processed before debug / optimization *)
Theorem C07_cmdline_buildtype_first : forall cmd,
  uniq_keys cmd = true ->
  (forall k, dget (reorder_buildtype cmd) k = dget cmd k) /\
  (forall v, dget cmd buildtype_key = Some v ->
     exists rest, reorder_buildtype cmd = (buildtype_key, v) :: rest /\ dget rest buildtype_key = None) /\
  (dget cmd buildtype_key = None -> reorder_buildtype cmd = cmd).
Proof. exact reorder_buildtype_spec. Qed.
Print Assumptions C07_cmdline_buildtype_first.

(* ---- read-only options (backend, vsenv): after the first invocation the value cannot change *)
Theorem C07_readonly_option_cannot_change : forall f s k v s' ch rk o,
  plain_name k = true ->
  (forall rk o, resolve_option s k = Ok (rk, o) -> not_dname o = true) ->
  resolve_for_set s k = Ok (rk, o) -> oreadonly o = true ->
  set_option (S f) s k v false = Ok (s', ch) ->
  exists v3 s2 old u, canon s k v = Ok v3 /\ store_value s k rk v3 = Ok (s2, old, u) /\ pv_eqb old v3 = true.
Proof. exact readonly_value_cannot_change. Qed.
Print Assumptions C07_readonly_option_cannot_change.

Theorem C07_readonly_change_is_rejected : forall f s k v rk o v3 s2 old u,
  plain_name k = true ->
  (forall rk o, resolve_option s k = Ok (rk, o) -> not_dname o = true) ->
  resolve_for_set s k = Ok (rk, o) -> oreadonly o = true ->
  canon s k v = Ok v3 -> store_value s k rk v3 = Ok (s2, old, u) -> pv_eqb old v3 = false ->
  set_option (S f) s k v false = Err EMeson.
Proof. exact readonly_change_is_rejected. Qed.
Print Assumptions C07_readonly_change_is_rejected.

(* ---- a per-subproject value that exists before the subproject is initialised keeps priority *)
Theorem C07_subproject_existing_override_kept : forall f s sub spcall pdo cmd mf s' merged q a,
  initialize_from_subproject_call (S f) s sub spcall pdo cmd mf = Ok s' ->
  merge_sub s sub spcall pdo cmd mf = Ok merged ->
  pfx_okb s = true -> forallb (sub_entry_okb sub s) merged = true ->
  ksub q = Some sub -> kmach q = Host ->
  dmem (options s) q = false -> is_project_option s q = false ->
  dmem (options s) (no_sub q) = true ->
  aslot s q = Some a ->
  get_value_for s' q = Ok a.
Proof.
  intros f s sub spcall pdo cmd mf s' merged q a Hi Hm Hp Hg.
  exact (sub_existing_augment_kept f s sub spcall pdo cmd mf s' merged q a Hi Hm
           (pfx_okb_sound _ Hp) (sub_entry_okb_sound _ _ _ Hg)).
Qed.
Print Assumptions C07_subproject_existing_override_kept.

(* ---- "native and cross": in a native build build-machine keys read the host value, setting
   them is ignored, and the top-level initialisation behaves as if every build-machine entry
   had been removed from its sources (arbitrary sources, no guard) *)
Theorem C07_native_build_key_reads_host : forall s k,
  is_cross s = false -> get_value_for s k = get_value_for s (as_host k).
Proof. exact native_build_reads_host. Qed.
Print Assumptions C07_native_build_key_reads_host.

Theorem C07_native_build_key_set_ignored : forall fuel s k v first,
  is_cross s = false -> is_for_build k = true -> set_user_option fuel s k v first = Ok (s, false).
Proof. exact native_build_set_ignored. Qed.
Print Assumptions C07_native_build_key_set_ignored.

Theorem C07_native_top_level_ignores_build_entries : forall fuel l s,
  is_cross s = false ->
  top_pdo_loop fuel s l = top_pdo_loop fuel s (host_only l) /\
  top_mc_loop fuel s l = top_mc_loop fuel s (host_only l).
Proof. exact native_top_loops_ignore_build. Qed.
Print Assumptions C07_native_top_level_ignores_build_entries.

(* ---- "prefix-dependent directory defaults follow the prefix", through the whole top-level
   initialisation: prefix from the highest-priority source; a directory option that no source
   names holds the table value for that prefix (or its declared default); an explicit value
   wins with the usual priority *)
Theorem C07_top_level_directory_follows_prefix : forall f s pdo cmd mf s1 pdo' cmd' mf' s' n mapping p0 o,
  first_handle_prefix s pdo cmd mf = Ok (s1, pdo', cmd', mf') ->
  resolve_top (last_prefix cmd None) (dget mf prefix_key) (last_prefix pdo None) = Some (PStr p0) ->
  initialize_from_top_level_project_call (S f) s pdo cmd mf = Ok s' ->
  pfx_okb s1 = true -> forallb (good_entryb s1) (pdo' ++ mf' ++ cmd') = true ->
  In (n, mapping) NOPREFIX ->
  dget (options s) (nopref_key n) = Some o -> oyield o = false ->
  is_project_option s1 (nopref_key n) = false -> aslot s1 (nopref_key n) = None ->
  exists p v',
    sanitize_prefix p0 = Ok p /\
    validate (okind o) (match sassoc mapping p with Some x => PStr x | None => odefault o end) = Ok v' /\
    get_value_for s' (nopref_key n) =
      match resolve_top (dlast cmd' (nopref_key n)) (dlast mf' (nopref_key n)) (dlast pdo' (nopref_key n)) with
      | Some v => canon s1 (nopref_key n) v
      | None => Ok v'
      end.
Proof.
  intros f s pdo cmd mf s1 pdo' cmd' mf' s' n mapping p0 o Hf Hpre Hi Hp Hg.
  exact (top_level_dir_follows_prefix f s pdo cmd mf s1 pdo' cmd' mf' s' n mapping p0 o Hf Hpre Hi
           (pfx_okb_sound _ Hp) (good_entryb_sound _ _ Hg)).
Qed.
Print Assumptions C07_top_level_directory_follows_prefix.

(* ---- an option renamed with `deprecated: 'other-name'`: setting it sets the option it was
   renamed to (sanitised value) and then itself *)
Theorem C07_deprecated_name_sets_both_options : forall f s k v n rk o s' ch,
  kmach k = Host -> plain_name k = true -> pfx_ok s ->
  resolve_for_set s k = Ok (rk, o) -> odepr o = DName n ->
  (forall rk' o', resolve_option s (evolve_name k n) = Ok (rk', o') -> not_dname o' = true) ->
  plain_name (evolve_name k n) = true ->
  set_option (S (S f)) s k v true = Ok (s', ch) ->
  exists v1,
    sanitize_value s k v = Ok v1 /\ R s s' /\
    (forall x, oslot s' x = apply_wr_o (set_wr s k v) (apply_wr_o (set_wr s (evolve_name k n) v1) (oslot s)) x) /\
    (forall x, aslot s' x = apply_wr_a (set_wr s k v) (apply_wr_a (set_wr s (evolve_name k n) v1) (aslot s)) x).
Proof. exact deprecated_name_sets_both. Qed.
Print Assumptions C07_deprecated_name_sets_both_options.

(* ---- machine files: from entry text, section and file to the option key
   (OptionKey.from_string, Environment.mfilestr2key, _load_machine_file_options, Environment.__init__) *)
Theorem C07_machine_file_key : forall s sp m k,
  mfilestr2key s sp m = Ok k ->
  exists k0, from_string s = Ok k0 /\ sub_truthy k0 = false /\
    kname k = kname k0 /\
    ksub k = (if str_truthy sp then sp else ksub k0) /\
    kmach k = (match m with Build => Build | Host => kmach k0 end).
Proof. exact mfilestr2key_spec. Qed.
Print Assumptions C07_machine_file_key.

(* an entry of a [sub:built-in options] / [sub:project options] section is stored under a key
   that carries subproject sub and the written name; its machine is build exactly when the file
   is read for the build machine (the native file of a cross build) or the text says build. *)
Theorem C07_machine_file_sub_section_entry_key : forall m cfg res k v,
  load_sections [] m cfg = Ok res -> dget res k = Some v ->
  exists name values subp sect s k0,
    In (name, values) cfg /\
    (match split_first_colon name [] with Some (a, b) => (a, b) | None => ([], name) end) = (subp, sect) /\
    In (s, v) values /\ from_string s = Ok k0 /\
    kname k = kname k0 /\
    (subp <> [] -> ksub k = Some subp) /\
    kmach k = (match m with Build => Build | Host => kmach k0 end).
Proof. exact sub_section_entry_key. Qed.
Print Assumptions C07_machine_file_sub_section_entry_key.

Theorem C07_native_file_in_cross_build_gives_build_keys : forall cfg res,
  load_machine_file_options [] cfg Build = Ok res -> Forall (fun e => kmach (fst e) = Build) res.
Proof. exact native_file_in_cross_build_gives_build_keys. Qed.
Print Assumptions C07_native_file_in_cross_build_gives_build_keys.

(* ... and of those only per-machine options survive in Environment.options *)
Theorem C07_machine_file_build_values_only_for_per_machine_options : forall c n x d,
  env_options c n x = Ok d ->
  Forall (fun e => kmach (fst e) = Build -> is_per_machine_option (fst e) = true) d.
Proof. exact env_options_build_keys_are_per_machine. Qed.
Print Assumptions C07_machine_file_build_values_only_for_per_machine_options.
