(* Props/C14.v — the property theorems of C14, and nothing else.
   "For every template text and configuration data, configure_file processing replaces exactly
    the documented placeholders ... with the data's values rendered as documented ..., reports
    every undefined name, and copies every other byte (including line endings) unchanged; in the
    meson format a substituted value is never scanned again for placeholders.  A header generated
    without a template defines exactly the keys of the data, once each, in sorted order."
   Templates are segment lists (Subst/Spec.v); render_all is the template text, expand_all what the
   property says it must become, missing the undefined names.  The model is of the behaviour with the
   C14 fixes applied: cmake-splice-advance and cmakedefine-indent (in /repo), and the pending
   pending/C14-mesondefine-value-rescanned.diff and pending/C14-define-line-eol.diff. *)
From MV Require Import Base.Strs Subst.Data Subst.Meson Subst.CMake Subst.Conf Subst.Header Subst.Spec.
From MV Require Import Subst.ProofsMeson Subst.ProofsCMake Subst.ProofsConf Subst.ProofsHeader.
From Coq Require Import Sorting.Permutation Sorting.Sorted.

(* ---- meson format: @VAR@ with \@ escapes ---- *)

(* replaces exactly the placeholders - each by its value, verbatim - copies everything else, and
   reports exactly the undefined names: for ALL well-formed segment lists and ALL data (values may
   look like placeholders; they are output as they are, i.e. never scanned again) *)
Theorem C14_meson_exact_replacement : forall (d : conf) (l : list seg),
  wf_segs l = true -> subst_meson d (render_all l) = (expand_all d l, missing d l).
Proof. exact meson_segments. Qed.
Print Assumptions C14_meson_exact_replacement.

(* ... and every template text is such a rendering, so the theorem above is about every input *)
Theorem C14_meson_every_text_is_segments : forall s : str,
  exists l, wf_segs l = true /\ render_all l = s.
Proof. exact segments_complete. Qed.
Print Assumptions C14_meson_every_text_is_segments.

(* "copies every other byte (including line endings) unchanged": text without '@' and '\' *)
Theorem C14_meson_plain_text_unchanged : forall (d : conf) (s : str),
  forallb plain_char s = true -> subst_meson d s = (s, []).
Proof. exact meson_identity_plain. Qed.
Print Assumptions C14_meson_plain_text_unchanged.

(* "a substituted value is never scanned again for placeholders" *)
Theorem C14_meson_value_never_rescanned : forall (d : conf) l1 v l2 val,
  wf_segs (l1 ++ Var v :: l2) = true -> lookup d v = Some val ->
  fst (subst_meson d (render_all (l1 ++ Var v :: l2))) = expand_all d l1 ++ py_str val ++ expand_all d l2.
Proof. exact meson_value_verbatim. Qed.
Print Assumptions C14_meson_value_never_rescanned.

(* "reports every undefined name" - and only those *)
Theorem C14_meson_undefined_names_reported : forall (d : conf) l,
  wf_segs l = true ->
  forall x, In x (snd (subst_meson d (render_all l))) <-> (In (Var x) l /\ lookup d x = None).
Proof. exact meson_missing_exact. Qed.
Print Assumptions C14_meson_undefined_names_reported.

(* ---- files: lines and line endings ---- *)

(* reading the template into lines loses no byte *)
Theorem C14_readlines_lossless : forall s : str, concat (readlines s) = s.
Proof. exact readlines_lossless. Qed.
Print Assumptions C14_readlines_lossless.

(* a whole template in the meson format: ordinary lines (segment lists, their CR / LF / CRLF
   terminators being ordinary Lit characters) and #mesondefine lines in any spacing and with any
   terminator: every line keeps its own line ending (mline_out: form ++ eol; LF when there is none) *)
Theorem C14_meson_file : forall (d : conf) (mls : list mline),
  forallb mline_wf mls = true ->
  do_conf_str_meson d (map mline_text mls)
  = Ok (mk_out (map (mline_out d) mls) (concat (map (mline_missing d) mls))
               (is_nil d && forallb (mline_quiet d) mls)).
Proof. exact conf_meson_file. Qed.
Print Assumptions C14_meson_file.

(* a file without '@', '\' and '#' comes out byte for byte, whatever its line endings *)
Theorem C14_meson_file_identity : forall (d : conf) (text : str),
  forallb inert_char text = true -> do_conf_text FMeson d text = Ok (text, [], is_nil d).
Proof. exact conf_text_meson_identity. Qed.
Print Assumptions C14_meson_file_identity.

(* ---- #mesondefine VAR ---- *)

(* the documented forms for booleans, integers and undefined names, for every spacing *)
Theorem C14_mesondefine_forms : forall (d : conf) (lead mid name trail : str),
  blank lead = true -> blank mid = true -> mid <> [] -> token name = true -> blank trail = true ->
  is_str_value d name = false ->
  do_define_meson d (define_line lead mid name trail) = Ok (define_text d name ++ [10]).
Proof. exact mesondefine_forms. Qed.
Print Assumptions C14_mesondefine_forms.

(* string values: "#define NAME value" for EVERY value (it may contain '@', '\' or whole
   placeholders: it is written as it is, never scanned); only blanks at the end of the value are
   dropped (the line is .strip()ped) *)
Theorem C14_mesondefine_string : forall (d : conf) (lead mid name trail v : str),
  blank lead = true -> blank mid = true -> mid <> [] -> token name = true -> blank trail = true ->
  lookup d name = Some (VStr v) ->
  do_define_meson d (define_line lead mid name trail)
  = Ok (s2l "#define " ++ name ++ rstrip (32 :: v) ++ [10]).
Proof. exact mesondefine_string. Qed.
Print Assumptions C14_mesondefine_string.

Theorem C14_mesondefine_string_verbatim : forall (d : conf) (lead mid name trail v : str) (z : char),
  blank lead = true -> blank mid = true -> mid <> [] -> token name = true -> blank trail = true ->
  lookup d name = Some (VStr (v ++ [z])) -> is_space z = false ->
  do_define_meson d (define_line lead mid name trail) = Ok (define_text d name ++ [10]).
Proof. exact mesondefine_string_verbatim. Qed.
Print Assumptions C14_mesondefine_string_verbatim.

(* ---- cmake formats: @VAR@, ${VAR}, #cmakedefine[01] ---- *)

(* processing terminates for every text and all data (self-referential values included) *)
Theorem C14_cmake_terminates : forall (at_only : bool) (d : conf) (line : str),
  subst_cmake at_only d line <> OutOfFuel.
Proof. exact subst_cmake_terminates. Qed.
Print Assumptions C14_cmake_terminates.
Theorem C14_processing_terminates : forall f (d : conf) (text : str), do_conf_text f d text <> OutOfFuel.
Proof. exact do_conf_text_total. Qed.
Print Assumptions C14_processing_terminates.

(* exact replacement for ALL data: values verbatim (never rescanned), nothing after a value
   skipped, nested ${..${..}..} references evaluated inside out (CNested; cseg_ok: every nested
   reference computes a variable name), undefined names reported *)
Theorem C14_cmake_exact_replacement : forall (at_only : bool) (d : conf) (l : list cseg),
  wf_csegs at_only l = true -> forallb (cseg_ok d) l = true ->
  subst_cmake at_only d (crender_all l) = Ok (cexpand_all d l, cmissing d l).
Proof. exact cmake_segments. Qed.
Print Assumptions C14_cmake_exact_replacement.

(* the text between "${" and "}" alone: the scanner computes exactly the inside-out value *)
Theorem C14_cmake_nested_expression : forall (d : conf) (e : nexpr) (fuel : nat),
  wf_nexpr e = true -> (length (nrender e) < fuel)%nat ->
  cm_scan fuel false d (nrender e) = of_opt (neval d e).
Proof. exact cm_scan_nexpr. Qed.
Print Assumptions C14_cmake_nested_expression.

(* the error cases, after ANY well-formed prefix: a nested reference that does not compute a
   variable name, and a "${" the bracket matcher rejects, raise a MesonException ... *)
Theorem C14_cmake_bad_nested_name_is_error : forall (d : conf) (l : list cseg) (e : nexpr) (after : str),
  wf_tail false l (crender (CNested e) ++ after) = true -> forallb (cseg_ok d) l = true ->
  wf_nexpr e = true -> nvalue d e = None ->
  subst_cmake false d (crender_all l ++ crender (CNested e) ++ after) = MesonErr.
Proof. exact cmake_bad_nested_name. Qed.
Print Assumptions C14_cmake_bad_nested_name_is_error.
Theorem C14_cmake_bad_brackets_is_error : forall (d : conf) (l : list cseg) (t : str),
  wf_tail false l (36 :: 123 :: t)%N = true -> forallb (cseg_ok d) l = true ->
  brackets 0 t = None ->
  subst_cmake false d (crender_all l ++ 36 :: 123 :: t)%N = MesonErr.
Proof. exact cmake_bad_brackets. Qed.
Print Assumptions C14_cmake_bad_brackets_is_error.
(* ... the matcher rejects a "${" that is never closed, and an invalid character after name characters *)
Theorem C14_cmake_unterminated_rejected : forall (t : str) (cnt : nat),
  forallb (fun c => negb (N.eqb c 125)) t = true -> brackets cnt t = None.
Proof. intros t cnt. exact (brackets_unterminated (length t) t cnt (le_n _)). Qed.
Print Assumptions C14_cmake_unterminated_rejected.
Theorem C14_cmake_invalid_char_rejected : forall (cnt : nat) (s : str) (c : char) (t : str),
  forallb cm_valid s = true -> bad_in_braces c t = true -> brackets cnt (s ++ c :: t) = None.
Proof. exact brackets_invalid_char. Qed.
Print Assumptions C14_cmake_invalid_char_rejected.

Theorem C14_cmake_plain_text_unchanged : forall (at_only : bool) (d : conf) (s : str),
  forallb (fun c => negb (N.eqb c 64) && (at_only || negb (N.eqb c 36))) s = true ->
  subst_cmake at_only d s = Ok (s, []).
Proof. exact cmake_identity_plain. Qed.
Print Assumptions C14_cmake_plain_text_unchanged.

Theorem C14_cmake_file : forall (at_only : bool) (d : conf) (ls : list (list cseg)),
  forallb (wf_csegs at_only) ls = true ->
  forallb (forallb (cseg_ok d)) ls = true ->
  forallb ordinary_cmake (map crender_all ls) = true ->
  do_conf_str_cmake at_only d (map crender_all ls)
  = Ok (mk_out (map (cexpand_all d) ls) (concat (map (cmissing d) ls))
               (is_nil d && forallb (fun l => is_nil (cmissing d l)) ls)).
Proof. exact conf_cmake_segments. Qed.
Print Assumptions C14_cmake_file.

Theorem C14_cmakedefine_forms : forall (at_only : bool) (d : conf) (lead gap mid name trail : str),
  blank lead = true -> blank gap = true -> blank mid = true -> mid <> [] ->
  token name = true -> blank trail = true -> forallb cm_inert name = true ->
  contains (s2l "cmakedefine01") (cmdefine_line lead gap (s2l "cmakedefine") mid name trail) = false ->
  do_define_cmake at_only d (cmdefine_line lead gap (s2l "cmakedefine") mid name trail)
  = Ok (match lookup d name with
        | Some v => if truthy v then s2l "#define " ++ name ++ [10] else undef_comment name
        | None => undef_comment name
        end).
Proof. exact cmakedefine_forms. Qed.
Print Assumptions C14_cmakedefine_forms.

Theorem C14_cmakedefine01_forms : forall (at_only : bool) (d : conf) (lead gap mid name trail : str),
  blank lead = true -> blank gap = true -> blank mid = true -> mid <> [] ->
  token name = true -> blank trail = true -> forallb cm_inert name = true ->
  do_define_cmake at_only d (cmdefine_line lead gap (s2l "cmakedefine01") mid name trail)
  = Ok (s2l "#define " ++ name ++ [32] ++
        (match lookup d name with Some v => if truthy v then [49] else [48] | None => [48] end) ++ [10]).
Proof. exact cmakedefine01_forms. Qed.
Print Assumptions C14_cmakedefine01_forms.

(* ---- a header generated without a template ---- *)

(* "defines exactly the keys of the data, once each, in sorted order": the header is the prelude,
   one entry per item of the data (a permutation of the data), keys strictly increasing, epilogue *)
Theorem C14_header_exact : forall (f : hfmt) (macro : str) (d : conf),
  NoDup (keys d) ->
  exists es : list entry,
    Permutation es d /\ StronglySorted str_lt (map fst es) /\
    dump_header f macro d = prelude f macro ++ concat (map (entry_text f) es) ++ epilogue f macro.
Proof. exact header_exact. Qed.
Print Assumptions C14_header_exact.

(* the entry of a key, by the kind of its value *)
Theorem C14_header_entry_forms : forall (f : hfmt) (k : str) (v : value),
  header_entry f k v [] =
  match v with
  | VBool true => hprefix f :: s2l "define " ++ k ++ [10; 10]
  | VBool false => hprefix f :: s2l "undef " ++ k ++ [10; 10]
  | VInt z => hprefix f :: s2l "define " ++ k ++ [32] ++ Z_dec z ++ [10; 10]
  | VStr s => hprefix f :: s2l "define " ++ k ++ [32] ++ s ++ [10; 10]
  end.
Proof. exact header_entry_forms. Qed.
Print Assumptions C14_header_entry_forms.
Theorem C14_header_entry_description : forall (f : hfmt) (k : str) (v : value) (desc : str),
  desc <> [] -> header_entry f k v desc = format_desc f desc ++ header_entry f k v [].
Proof. exact header_entry_desc. Qed.
Print Assumptions C14_header_entry_description.

(* ---- the formats of the generated header: include guard, nasm, json ---- *)

(* output_format 'c' with macro_name M: entries between "#ifndef M / #define M" and "#endif" *)
Theorem C14_header_guard : forall (macro : str) (d : conf),
  macro <> [] ->
  dump_header HC macro d
  = c_prelude (s2l "#ifndef " ++ macro ++ [10] ++ s2l "#define " ++ macro)
    ++ concat (map (header_key HC d) (sorted_keys d)) ++ s2l "#endif" ++ [10].
Proof. exact header_guard_c. Qed.
Print Assumptions C14_header_guard.
Theorem C14_header_pragma_once : forall d : conf,
  dump_header HC [] d = c_prelude (s2l "#pragma once") ++ concat (map (header_key HC d) (sorted_keys d)).
Proof. exact header_pragma_once. Qed.
Print Assumptions C14_header_pragma_once.
Theorem C14_header_nasm_no_guard : forall (macro : str) (d : conf),
  dump_header HNasm macro d = nasm_prelude ++ concat (map (header_key HNasm d) (sorted_keys d)).
Proof. exact header_nasm_no_guard. Qed.
Print Assumptions C14_header_nasm_no_guard.

(* output_format 'json': one object with exactly the items of the data, once each, keys strictly
   increasing; every string printable ASCII (escaped as json.encoder does) *)
Theorem C14_header_json_exact : forall d : conf,
  NoDup (keys d) ->
  exists es : list entry,
    Permutation es d /\ StronglySorted str_lt (map fst es) /\
    dump_json d = (123 :: join [44; 32] (map json_entry es) ++ [125])%N.
Proof. exact json_exact. Qed.
Print Assumptions C14_header_json_exact.
Theorem C14_header_json_strings_ascii : forall s : str, forallb printable (json_str s) = true.
Proof. exact json_str_printable. Qed.
Print Assumptions C14_header_json_strings_ascii.

(* ---- #cmakedefine VAR tok ... (get_cmake_define) ---- *)
Theorem C14_cmakedefine_tokens : forall (at_only : bool) (d : conf) (lead gap mid name : str)
    (toks : list (str * str)) (trail : str) (v : value),
  blank lead = true -> blank gap = true -> blank mid = true -> mid <> [] ->
  token name = true -> forallb piece_ok toks = true -> blank trail = true ->
  contains (s2l "cmakedefine01") (cmdefine_line_toks lead gap mid name toks trail) = false ->
  lookup d name = Some v -> truthy v = true ->
  do_define_cmake at_only d (cmdefine_line_toks lead gap mid name toks trail)
  = match subst_cmake at_only d
            (strip (s2l "#define " ++ name ++ [32]%N ++ cm_define_value d (map snd toks)) ++ [10]%N) with
    | Ok (o, _) => Ok o
    | MesonErr => MesonErr | PyErr c => PyErr c | OutOfFuel => OutOfFuel
    end.
Proof. exact cmakedefine_tokens. Qed.
Print Assumptions C14_cmakedefine_tokens.
Theorem C14_cmakedefine_tokens_plain : forall (at_only : bool) (d : conf) (lead gap mid name : str)
    (toks : list (str * str)) (trail : str) (v : value) (val : str) (z : char),
  blank lead = true -> blank gap = true -> blank mid = true -> mid <> [] ->
  token name = true -> forallb piece_ok toks = true -> blank trail = true ->
  contains (s2l "cmakedefine01") (cmdefine_line_toks lead gap mid name toks trail) = false ->
  lookup d name = Some v -> truthy v = true ->
  cm_define_value d (map snd toks) = val ++ [z] -> is_space z = false ->
  forallb cm_inert (name ++ val ++ [z]) = true ->
  do_define_cmake at_only d (cmdefine_line_toks lead gap mid name toks trail)
  = Ok (s2l "#define " ++ name ++ [32]%N ++ val ++ [z] ++ [10]%N).
Proof. exact cmakedefine_tokens_plain. Qed.
Print Assumptions C14_cmakedefine_tokens_plain.
