(* Props/C11.v — the property theorems of C11, and nothing else.
   do_install o pl f = (f', log, r): `meson install` with command line o on install.dat pl and
   filesystem f ends in filesystem f' with install-log.txt = log and result r (Ok or an error).
   Locations are lists of component names from the root; D = cleanp (effective_destdir o pl). *)
From MV Require Import Base.Strs Install.Tree Install.TreeFacts Install.Model Install.Spec Install.Proofs Install.Contain
  Install.Log Install.InvSteps Install.LogThm Install.Uninstall Install.Exact.

(* "`meson install` writes only beneath $DESTDIR": for every plan without '..' in a destination,
   every initial filesystem, every option set, success or failure: a location that changes is under
   DESTDIR, or is a missing ancestor of DESTDIR that gets created as a directory *)
Theorem C11_containment_partial : forall o pl f f' lg r,
  wf_plan o pl = true -> do_install o pl f = (f', lg, r) ->
  forall q, lookup f' q = lookup f q \/ is_prefix (cleanp (effective_destdir o pl)) q \/
            (lookup f q = None /\ (exists m, lookup f' q = Some (NDir m)) /\ is_prefix q (cleanp (effective_destdir o pl))).
Proof. exact containment_partial. Qed.
Print Assumptions C11_containment_partial.

(* without the guard it is false: install_dir '../../x' leaves DESTDIR (known finding C11:dotdot-escape) *)
Theorem C11_containment_refuted :
  exists o pl f f' lg r q,
    do_install o pl f = (f', lg, r) /\ lookup f q = None /\ lookup f' q <> None /\
    ~ is_prefix (cleanp (effective_destdir o pl)) q /\ ~ is_prefix q (cleanp (effective_destdir o pl)).
Proof. exact containment_refuted. Qed.
Print Assumptions C11_containment_refuted.

Example C11_guard_satisfiable :
  wf_plan (mkOpts false false None [] [[]; s2l "d"] 18)
          (mkPlan [[]; s2l "usr"] (Some 18) [[]; s2l "b"] [] []
                  [mkFitem KHeader (SReg 420 1 (s2l "dg")) (s2l "h.h") [s2l "include"; s2l "p q"] None [] None false] []
                  [mkEitem [s2l "var"; s2l "e "] (Some 448) [] None]
                  [mkFitem KData (SReg 493 1 (s2l "dg")) (s2l "a") [[]; s2l "etc"; s2l "a"] (Some 420) [] (Some (s2l "doc")) false]
                  [mkLitem (s2l "a") [s2l "share"; s2l "l"] [s2l "share"] [] None]) = true.
Proof. exact wf_plan_example. Qed.

(* "creates exactly ... that the install rules specify ... restricted to the requested --tags /
   skipped subprojects", first half: nothing beyond the destinations of the selected rules
   (planned_of filters by should_install and by the exclude lists) is created or altered *)
Theorem C11_exact_no_extras_partial : forall o pl f f' lg r,
  wf_plan o pl = true -> do_install o pl f = (f', lg, r) ->
  forall q, lookup f' q = lookup f q \/ In q (planned_of o pl) \/
            (lookup f q = None /\ (exists m, lookup f' q = Some (NDir m)) /\ exists w, In w (planned_of o pl) /\ is_prefix q w).
Proof. exact no_extras_partial. Qed.
Print Assumptions C11_exact_no_extras_partial.

(* "... creates exactly the files ... at exactly the specified destinations ... with the declared
   install_mode or else default permissions masked by install_umask", second half, for file rules
   (install_data / install_headers / install_man / installed targets): after a successful real
   installation without --only-changed, the destination of a selected rule that no other selected rule
   names holds the source's content (digest d) and time stamp t, with mode final_mode = the declared
   permissions, else (0777 if the source is executable else 0666) & ~install_umask, else the source's
   mode when install_umask is 'preserve' *)
Theorem C11_exact_planned_file_present_partial : forall o pl f f' lg i m t d,
  wf_plan o pl = true -> o_dry o = false -> o_only_changed o = false ->
  In i (all_fitems pl) -> should_install (mk_cfg o pl) (fi_sub i) (fi_tag i) = true -> fi_src i = SReg m t d ->
  others_avoid o pl i (cleanp (fitem_outname (effective_destdir o pl) (destdir_join (effective_destdir o pl) (p_prefix pl)) i)) ->
  do_install o pl f = (f', lg, Ok tt) ->
  lookup f' (cleanp (fitem_outname (effective_destdir o pl) (destdir_join (effective_destdir o pl) (p_prefix pl)) i))
  = Some (NFile (final_mode (p_umask pl) (fi_mode i) m) t d).
Proof. exact planned_file_present_partial. Qed.
Print Assumptions C11_exact_planned_file_present_partial.

(* "`--dry-run` writes nothing": for every plan (no guard), filesystem and outcome *)
Theorem C11_dry_run_writes_nothing : forall o pl f f' lg r,
  o_dry o = true -> do_install o pl f = (f', lg, r) -> forall q, lookup f' q = lookup f q.
Proof. exact dry_run_noop. Qed.
Print Assumptions C11_dry_run_writes_nothing.

(* "The install log names everything that was created": after a successful real installation every
   location either does not exist, or is exactly as before, or differs from before in its permission
   bits only, or is named by a line of the log.  Guard wf_plan_strict: as wf_plan and no '.' component,
   absolute prefix, DESTDIR absolute or unset; wf_fs: the initial filesystem is a tree *)
Theorem C11_log_names_everything_created_partial : forall o pl f f' lg,
  wf_plan_strict o pl = true -> o_dry o = false -> wf_fs f ->
  do_install o pl f = (f', lg, Ok tt) ->
  forall q, lookup f' q = None \/ lookup f' q = lookup f q \/ mode_only (lookup f q) (lookup f' q) \/ In q (logged lg).
Proof. exact log_complete_partial. Qed.
Print Assumptions C11_log_names_everything_created_partial.

(* ... and everything the log names exists afterwards *)
Theorem C11_log_names_only_existing_partial : forall o pl f f' lg,
  wf_plan_strict o pl = true -> o_dry o = false -> wf_fs f ->
  do_install o pl f = (f', lg, Ok tt) ->
  forall q, In q (logged lg) -> lookup f' q <> None.
Proof. exact log_sound_partial. Qed.
Print Assumptions C11_log_names_only_existing_partial.

(* without the guard: '..' makes the installer create directories that the log does not name *)
Theorem C11_log_names_everything_refuted :
  exists o pl f f' lg q,
    do_install o pl f = (f', lg, Ok tt) /\ lookup f q = None /\ lookup f' q <> None /\
    ~ In q (flat_map (fun l => match l with LPath p => [cleanp (normpath p)] | _ => [] end) lg).
Proof. exact log_complete_refuted. Qed.
Print Assumptions C11_log_names_everything_refuted.

(* "so that uninstall removes exactly that and nothing else": the uninstall script (with the pending
   fix C11-uninstall-strip, i.e. reading each line verbatim) run to completion on the log of a
   successful installation removes every location the log names and leaves every other location as
   the installation left it *)
Theorem C11_uninstall_removes_exactly_the_log_partial : forall o pl f f' lg f'',
  wf_plan_strict o pl = true -> o_dry o = false -> wf_fs f ->
  do_install o pl f = (f', lg, Ok tt) ->
  do_uninstall f' lg = (f'', Ok tt) ->
  (forall q, In q (logged lg) -> lookup f'' q = None) /\
  (forall q, ~ In q (logged lg) -> lookup f'' q = lookup f' q).
Proof. exact uninstall_removes_log_partial. Qed.
Print Assumptions C11_uninstall_removes_exactly_the_log_partial.

(* ... and that completion is guaranteed: on the log of a successful installation the uninstall
   script never stops early (in the model: never meets a symbolic link inside a path) *)
Theorem C11_uninstall_runs_to_completion_partial : forall o pl f f' lg,
  wf_plan_strict o pl = true -> o_dry o = false -> wf_fs f ->
  do_install o pl f = (f', lg, Ok tt) ->
  exists f'', do_uninstall f' lg = (f'', Ok tt).
Proof. exact uninstall_completes_partial. Qed.
Print Assumptions C11_uninstall_runs_to_completion_partial.

(* reversible: install followed by uninstall leaves nothing that was not there before, and what is
   left is what was there before up to permission bits *)
Theorem C11_uninstall_inverse_partial : forall o pl f f' lg f'',
  wf_plan_strict o pl = true -> o_dry o = false -> wf_fs f ->
  do_install o pl f = (f', lg, Ok tt) ->
  do_uninstall f' lg = (f'', Ok tt) ->
  forall q, lookup f'' q = None \/ lookup f'' q = lookup f q \/ mode_only (lookup f q) (lookup f'' q).
Proof. exact uninstall_inverse_partial. Qed.
Print Assumptions C11_uninstall_inverse_partial.

Example C11_strict_guard_satisfiable :
  wf_plan_strict (mkOpts false false None [] [[]; s2l "d"] 18)
          (mkPlan [[]; s2l "usr"] (Some 18) [[]; s2l "b"] [] []
                  [mkFitem KHeader (SReg 420 1 (s2l "dg")) (s2l "h.h") [s2l "include"; s2l "p q"] None [] None false] []
                  [mkEitem [s2l "var"; s2l "e "] (Some 448) [] None]
                  [mkFitem KData (SReg 493 1 (s2l "dg")) (s2l "a") [[]; s2l "etc"; s2l "a"] (Some 420) [] (Some (s2l "doc")) false]
                  [mkLitem (s2l "a") [s2l "share"; s2l "l"] [s2l "share"] [] None]) = true
  /\ wf_fs [([s2l "d"], NDir 493)].
Proof. exact strict_guard_example. Qed.

(* "installing twice gives the same tree as installing once", for the destinations of file rules: a
   second successful installation leaves every such destination exactly as the first one left it
   (content, time stamp and mode).  Directory modes, links and the absence of new directories on
   reinstall are explored by the correspondence (oracle clause not_idempotent), not proved *)
Theorem C11_reinstall_same_files_partial : forall o pl f f1 lg1 f2 lg2 i m t d,
  wf_plan o pl = true -> o_dry o = false -> o_only_changed o = false ->
  In i (all_fitems pl) -> should_install (mk_cfg o pl) (fi_sub i) (fi_tag i) = true -> fi_src i = SReg m t d ->
  others_avoid o pl i (cleanp (fitem_outname (effective_destdir o pl) (destdir_join (effective_destdir o pl) (p_prefix pl)) i)) ->
  do_install o pl f = (f1, lg1, Ok tt) -> do_install o pl f1 = (f2, lg2, Ok tt) ->
  lookup f2 (cleanp (fitem_outname (effective_destdir o pl) (destdir_join (effective_destdir o pl) (p_prefix pl)) i))
  = lookup f1 (cleanp (fitem_outname (effective_destdir o pl) (destdir_join (effective_destdir o pl) (p_prefix pl)) i)).
Proof. exact reinstall_same_files_partial. Qed.
Print Assumptions C11_reinstall_same_files_partial.

Example C11_unique_destination_guard_satisfiable :
  let o := mkOpts false false None [] [[]; s2l "d"] 18 in
  let i := mkFitem KData (SReg 493 1 (s2l "dg")) (s2l "a") [[]; s2l "etc"; s2l "a"] (Some 420) [] (Some (s2l "doc")) false in
  let pl := mkPlan [[]; s2l "usr"] (Some 18) [[]; s2l "b"] [] []
                  [mkFitem KHeader (SReg 420 1 (s2l "dg")) (s2l "h.h") [s2l "include"; s2l "p q"] None [] None false] []
                  [mkEitem [s2l "var"; s2l "e "] (Some 448) [] None] [i]
                  [mkLitem (s2l "a") [s2l "share"; s2l "l"] [s2l "share"] [] None] in
  others_avoid o pl i (cleanp (fitem_outname (effective_destdir o pl) (destdir_join (effective_destdir o pl) (p_prefix pl)) i)).
Proof. exact others_avoid_example. Qed.

(* the three uninstall statements in one, with completion as a conclusion instead of a hypothesis *)
Theorem C11_uninstall_total_partial : forall o pl f f' lg,
  wf_plan_strict o pl = true -> o_dry o = false -> wf_fs f ->
  do_install o pl f = (f', lg, Ok tt) ->
  exists f'', do_uninstall f' lg = (f'', Ok tt) /\
    (forall q, In q (logged lg) -> lookup f'' q = None) /\
    (forall q, ~ In q (logged lg) -> lookup f'' q = lookup f' q) /\
    (forall q, lookup f'' q = None \/ lookup f'' q = lookup f q \/ mode_only (lookup f q) (lookup f'' q)).
Proof. exact uninstall_total_partial. Qed.
Print Assumptions C11_uninstall_total_partial.

(* with the pending fix C11-symlink-write-through the model covers a symbolic link that is in the way of a
   file rule (it used to be outside the model): all theorems above quantify over such trees too; this
   instance shows the run succeeds, the link is replaced and its target is not touched *)
Example C11_link_in_the_way_is_replaced :
  let o := mkOpts false false None [] [[]; s2l "d"] 18 in
  let i := mkFitem KData (SReg 420 7 (s2l "dg")) (s2l "a") [s2l "share"; s2l "a"] None [] None false in
  let pl := mkPlan [[]; s2l "usr"] (Some 18) [[]; s2l "b"] [] [] [] [] [] [i] [] in
  let f := [([s2l "d"], NDir 493); ([s2l "d"; s2l "usr"], NDir 493); ([s2l "d"; s2l "usr"; s2l "share"], NDir 493);
            ([s2l "d"; s2l "usr"; s2l "share"; s2l "a"], NLink (s2l "/etc/passwd"))] in
  exists f' lg, do_install o pl f = (f', lg, Ok tt) /\
    lookup f' [s2l "d"; s2l "usr"; s2l "share"; s2l "a"] = Some (NFile 420 7 (s2l "dg")) /\
    lookup f' [s2l "etc"; s2l "passwd"] = None.
Proof. exact link_in_the_way_replaced. Qed.

(* containment lifted to histories: after ANY sequence of `meson install` runs into the same DESTDIR
   (reinstall, --only-changed, --tags, --skip-subprojects, --dry-run, succeeding or failing), a location
   that is neither under DESTDIR nor an ancestor of DESTDIR is exactly as it was *)
Theorem C11_containment_all_histories_partial : forall pl os D f,
  (forall o, In o os -> wf_plan o pl = true /\ cleanp (effective_destdir o pl) = D) ->
  forall q, ~ is_prefix D q -> ~ is_prefix q D -> lookup (run_installs pl os f) q = lookup f q.
Proof. exact installs_contained_partial. Qed.
Print Assumptions C11_containment_all_histories_partial.

(* "an excluded directory / file is never installed, whatever exists at the destination": planned_of contains,
   for an install_subdir rule, only the entries of walk steps that are not below an excluded directory and the
   files that are not excluded (Contain.excluded_entries_no_dests); for EVERY initial filesystem - the
   destination directory may already exist through another rule, an earlier installation, or beforehand - a
   location that is neither such a destination nor an ancestor of one is exactly as it was, for any outcome *)
Theorem C11_excluded_never_installed_partial : forall o pl f f' lg r,
  wf_plan o pl = true -> do_install o pl f = (f', lg, r) ->
  forall q, ~ In q (planned_of o pl) -> (forall w, In w (planned_of o pl) -> ~ is_prefix q w) ->
            lookup f' q = lookup f q.
Proof. exact unplanned_untouched_partial. Qed.
Print Assumptions C11_excluded_never_installed_partial.

(* containment extended to permission bits: outside DESTDIR (and its ancestors) no mode changes either *)
Theorem C11_containment_modes_partial : forall o pl f f' lg r,
  wf_plan o pl = true -> do_install o pl f = (f', lg, r) ->
  forall q, ~ is_prefix (cleanp (effective_destdir o pl)) q -> ~ is_prefix q (cleanp (effective_destdir o pl)) ->
            node_mode (lookup f' q) = node_mode (lookup f q).
Proof. exact containment_modes_partial. Qed.
Print Assumptions C11_containment_modes_partial.

(* "installing a link never changes its target": set_mode (install_mode or the umask default, through
   set_chmod's fallback) on a path that is a symbolic link leaves the whole filesystem unchanged *)
Theorem C11_set_mode_on_link_changes_nothing : forall c p mode s s' r t,
  nodd p = true -> lookup (s_fs s) (cleanp p) = Some (NLink t) ->
  set_mode c p mode s = (s', r) -> s_fs s' = s_fs s.
Proof. exact set_mode_on_link_changes_nothing. Qed.
Print Assumptions C11_set_mode_on_link_changes_nothing.
