(* Props/C13.v — the property theorems of C13, and nothing else.
   Model of the class: Arglist/Model.v + Ops.v (run_ops); its eager meaning on a plain
   list: Arglist/Eager.v (eager_iadd, erun).  cd = _can_dedup, sp = _should_prepend. *)
From MV Require Import Base.Strs Arglist.Model Arglist.Tables Arglist.Ops Arglist.Eager Arglist.Proofs
  Arglist.ToNative Arglist.Backend Arglist.Seq.

(* "However a compile or link command line is assembled - ... added in any number of
   increments, with reads and copies in between - the result equals the simple eager
   meaning": for EVERY classification (K carries cd, sp, the compiler configuration), every
   initial list and every sequence of operations, each answer of the lazy class (and the
   final list) is the answer of the eager reference. *)
Theorem C13_lazy_equals_eager : forall (K : cfg) (ini : list str) (ops : list op),
  run_ops K (init ini) ops = erun K ini ops.
Proof. exact lazy_equals_eager. Qed.
Print Assumptions C13_lazy_equals_eager.

(* the fast path of flush_pre_post (taken when needs_override_check is False) is legal in
   every reachable state: then no pending entry is override-type *)
Theorem C13_fast_path_legal : forall (K : cfg) (ini : list str) (ops : list op),
  let s := final_state K (init ini) ops in
  chk s = false -> forall a, In a (pre s ++ post s) -> is_ov (c_cd K) a = false.
Proof. exact fast_path_legal. Qed.
Print Assumptions C13_fast_path_legal.

(* "So no argument is lost or invented" *)
Theorem C13_nothing_lost_or_invented : forall cd sp (x : str) (l b : list str),
  In x (eager_iadd cd sp l b) <-> In x l \/ In x b.
Proof. exact eager_iadd_In. Qed.
Print Assumptions C13_nothing_lost_or_invented.

(* "every batch of -I/-L arguments goes, in its own order, in front of everything added
   earlier, all other arguments follow in the order added" - when nothing is repeated *)
Theorem C13_fresh_batch_placement : forall cd sp (l b : list str), NoDup (l ++ b) ->
  eager_iadd cd sp l b = filter sp b ++ l ++ filter (fun a => negb (sp a)) b.
Proof. exact fresh_batch_placement. Qed.
Print Assumptions C13_fresh_batch_placement.

(* ... and in general: in front of the first occurrence of a prepended argument y of the batch
   stand only prepended arguments the batch lists before it, so y precedes everything added
   earlier; "of identical override-type arguments only the highest-precedence occurrence
   survives (the front-most for -I/-L ...)" *)
Theorem C13_prepend_position : forall cd sp (l b1 : list str) (y : str) (b2 : list str),
  sp y = true -> is_unique cd y = false -> ~ In y b1 ->
  exists X S, eager_iadd cd sp l (b1 ++ y :: b2) = X ++ y :: S
              /\ (forall x, In x X -> In x b1 /\ sp x = true)
              /\ ~ In y X
              /\ (is_ov cd y = true -> ~ In y S).
Proof. exact prepend_position. Qed.
Print Assumptions C13_prepend_position.

(* "... (the last for -D/-U/-isystem)"; "for duplicated settings the later-added one takes
   effect": behind the last occurrence of an appended argument y of the batch stand only
   appended arguments the batch adds after it *)
Theorem C13_append_position : forall cd sp (l b1 : list str) (y : str) (b2 : list str),
  sp y = false -> is_unique cd y = false -> ~ In y b2 ->
  exists X S, eager_iadd cd sp l (b1 ++ y :: b2) = X ++ y :: S
              /\ (forall x, In x S -> In x b2 /\ sp x = false)
              /\ ~ In y S
              /\ (is_ov cd y = true -> ~ In y X).
Proof. exact append_position. Qed.
Print Assumptions C13_append_position.

(* "a repeat of a once-only argument (-lfoo, a library file, -pthread ...) is dropped" *)
Theorem C13_once_only_repeat_dropped : forall cd sp (l b : list str) (a : str),
  is_unique cd a = true -> sp a = false ->
  count a (eager_iadd cd sp l b) =
  if str_mem a l then count a l else if str_mem a b then 1%nat else 0%nat.
Proof. exact unique_once. Qed.
Print Assumptions C13_once_only_repeat_dropped.

(* "arguments that cannot be de-duplicated keep their relative order and multiplicity" -
   for every table in which such arguments are not prepended ... *)
Theorem C13_nodedup_order_multiplicity : forall cd sp (l b : list str),
  (forall a, is_nodedup cd a = true -> sp a = false) ->
  filter (is_nodedup cd) (eager_iadd cd sp l b) = filter (is_nodedup cd) l ++ filter (is_nodedup cd) b.
Proof. exact nodedup_order. Qed.
Print Assumptions C13_nodedup_order_multiplicity.
(* ... which the CLike tables are (with the pending fix for bare prefixes) *)
Theorem C13_clike_nodedup_order_multiplicity : forall (l b : list str),
  filter (is_nodedup clike_cd) (eager_iadd clike_cd clike_sp l b) =
  filter (is_nodedup clike_cd) l ++ filter (is_nodedup clike_cd) b.
Proof. exact clike_nodedup_order. Qed.
Print Assumptions C13_clike_nodedup_order_multiplicity.

(* the contract of the CLike tables (clike.py:51-70 + arglist.py:201-237): for every
   non-empty remainder x :: r *)
Theorem C13_tables_I_L_prepend_override : forall x r,
  (clike_cd (s2l "-I" ++ x :: r) = OVERRIDDEN /\ clike_sp (s2l "-I" ++ x :: r) = true) /\
  (clike_cd (s2l "-L" ++ x :: r) = OVERRIDDEN /\ clike_sp (s2l "-L" ++ x :: r) = true).
Proof. intros x r. exact (conj (clike_I x r) (clike_L x r)). Qed.
Print Assumptions C13_tables_I_L_prepend_override.
Theorem C13_tables_D_U_isystem_append_override : forall x r,
  (clike_cd (s2l "-D" ++ x :: r) = OVERRIDDEN /\ clike_sp (s2l "-D" ++ x :: r) = false) /\
  (clike_cd (s2l "-U" ++ x :: r) = OVERRIDDEN /\ clike_sp (s2l "-U" ++ x :: r) = false) /\
  (clike_cd (s2l "-isystem" ++ x :: r) = OVERRIDDEN /\ clike_sp (s2l "-isystem" ++ x :: r) = false).
Proof. intros x r. exact (conj (clike_D x r) (conj (clike_U x r) (clike_isystem x r))). Qed.
Print Assumptions C13_tables_D_U_isystem_append_override.
Theorem C13_tables_bare_prefix_untouched :
  forall a, In a (map s2l ["-I"; "-L"; "-D"; "-U"; "-isystem"; "-l"]%string) ->
            clike_cd a = NO_DEDUP /\ clike_sp a = false.
Proof. exact clike_bare. Qed.
Print Assumptions C13_tables_bare_prefix_untouched.
Theorem C13_tables_l_once_only : forall x r,
  clike_cd (s2l "-l" ++ x :: r) = UNIQUE /\ clike_sp (s2l "-l" ++ x :: r) = false.
Proof. exact clike_l. Qed.
Print Assumptions C13_tables_l_once_only.
Theorem C13_tables_once_only_words :
  forall a, In a (map s2l ["-c"; "-S"; "-E"; "-pipe"; "-pthread"; "-Wl,--export-dynamic"]%string) ->
            clike_cd a = UNIQUE /\ clike_sp a = false.
Proof. exact clike_once_args. Qed.
Print Assumptions C13_tables_once_only_words.
Theorem C13_tables_library_file_once_only : forall a,
  ends_any (dedup1_suffixes clike_tables) a = true ->
  starts_any (dedup2_prefixes clike_tables) a = false ->
  str_mem a (dedup1_prefixes clike_tables) = false ->
  clike_cd a = UNIQUE.
Proof. exact clike_libfile. Qed.
Print Assumptions C13_tables_library_file_once_only.
(* only override-type arguments are ever moved to the front; in particular never a
   once-only one (so the lookup asymmetry of arglist.py:303 cannot show) *)
Theorem C13_tables_prepend_only_override : forall a, clike_sp a = true -> clike_cd a = OVERRIDDEN.
Proof. exact clike_prepend_only_override. Qed.
Print Assumptions C13_tables_prepend_only_override.
Theorem C13_tables_unique_not_prepend : forall a, clike_cd a = UNIQUE -> clike_sp a = false.
Proof. exact clike_unique_not_prepend. Qed.
Print Assumptions C13_tables_unique_not_prepend.

(* to_native (clike.py:72-123): the two group markers are the only inserted elements,
   everything else keeps its order; default-dir stripping only removes elements *)
Theorem C13_to_native_groups_only_insert : forall l : list str,
  add_groups l = l \/
  exists A B C, l = A ++ B ++ C /\ add_groups l = A ++ start_group :: B ++ end_group :: C.
Proof. exact add_groups_only_inserts. Qed.
Print Assumptions C13_to_native_groups_only_insert.
Theorem C13_to_native_strip_only_removes : forall (dd l : list str), subseq (fst (strip_default dd l)) l.
Proof. exact strip_default_only_removes. Qed.
Print Assumptions C13_to_native_strip_only_removes.

(* to_native, default include dirs (clike.py:102-120), EXACTLY: with default dirs dd the index
   machinery never raises and returns Eager.strip_spec: an element is dropped iff it is
   -isystem<dir> / -isystem=<dir> of a default directory, a bare -isystem whose operand is
   one, or that operand; every other element stays, in order *)
Theorem C13_to_native_strip_exact : forall (dd l : list str),
  strip_default dd l = (match dd with [] => l | _ => strip_spec (map realpath dd) l false end, true).
Proof. exact strip_default_exact. Qed.
Print Assumptions C13_to_native_strip_exact.
Theorem C13_to_native_never_raises : forall clike gnu dd l, snd (tn_list clike gnu dd l) = true.
Proof. exact tn_list_total. Qed.
Print Assumptions C13_to_native_never_raises.
Theorem C13_strip_leaves_non_isystem : forall rd l,
  (forall e, In e l -> prefixb isystem e = false) -> strip_spec rd l false = l.
Proof. exact strip_spec_no_isystem. Qed.
Print Assumptions C13_strip_leaves_non_isystem.
Theorem C13_strip_joined_form : forall rd x p r, x <> 61%N ->
  strip_spec rd ((isystem ++ x :: p) :: r) false =
  if str_mem (realpath (x :: p)) rd then strip_spec rd r false else (isystem ++ x :: p) :: strip_spec rd r false.
Proof. exact strip_spec_joined. Qed.
Print Assumptions C13_strip_joined_form.
Theorem C13_strip_bare_form : forall rd d r, prefixb isystem d = false ->
  strip_spec rd (isystem :: d :: r) false =
  if str_mem (realpath d) rd then strip_spec rd r false else isystem :: d :: strip_spec rd r false.
Proof. exact strip_spec_bare. Qed.
Print Assumptions C13_strip_bare_form.

(* the clauses over ANY NUMBER of increments (x = C(l); x += b1; ...; x += bn; list(x)) *)
Theorem C13_increments_lazy_is_eager : forall K l bs,
  run_ops K (init l) (map OIadd bs) = repeat ONone (length bs) ++ [OList (eager_iadds (c_cd K) (c_sp K) l bs)].
Proof. exact lazy_iadds. Qed.
Print Assumptions C13_increments_lazy_is_eager.
Theorem C13_increments_nothing_lost_or_invented : forall cd sp x bs l,
  In x (eager_iadds cd sp l bs) <-> In x l \/ exists b, In b bs /\ In x b.
Proof. exact iadds_In. Qed.
Print Assumptions C13_increments_nothing_lost_or_invented.
Theorem C13_increments_nodedup_order : forall cd sp bs,
  (forall a, is_nodedup cd a = true -> sp a = false) -> forall l,
  filter (is_nodedup cd) (eager_iadds cd sp l bs) = filter (is_nodedup cd) l ++ flat_map (filter (is_nodedup cd)) bs.
Proof. exact iadds_nodedup_order. Qed.
Print Assumptions C13_increments_nodedup_order.
(* "for duplicated settings the later-added one takes effect": after any earlier increments, an
   override-type appended y added by some increment and by no later one survives once, and
   behind it stand only appended arguments added after it *)
Theorem C13_later_added_takes_effect_append : forall cd sp l before b1 y b2 later,
  sp y = false -> is_ov cd y = true -> ~ In y b2 -> (forall b, In b later -> ~ In y b) ->
  exists X S, eager_iadds cd sp l (before ++ (b1 ++ y :: b2) :: later) = X ++ y :: S
    /\ ~ In y X /\ ~ In y S
    /\ (forall x, In x S -> sp x = false /\ (In x b2 \/ exists b, In b later /\ In x b)).
Proof. exact later_added_takes_effect_append. Qed.
Print Assumptions C13_later_added_takes_effect_append.
(* ... and a prepended y (-I/-L): in front of it stand only prepended arguments listed before
   it in its batch or added by a later increment *)
Theorem C13_later_added_takes_effect_prepend : forall cd sp l before b1 y b2 later,
  sp y = true -> is_ov cd y = true -> ~ In y b1 -> (forall b, In b later -> ~ In y b) ->
  exists X S, eager_iadds cd sp l (before ++ (b1 ++ y :: b2) :: later) = X ++ y :: S
    /\ ~ In y X /\ ~ In y S
    /\ (forall x, In x X -> sp x = true /\ (In x b1 \/ exists b, In b later /\ In x b)).
Proof. exact later_added_takes_effect_prepend. Qed.
Print Assumptions C13_later_added_takes_effect_prepend.

(* the order in which the Ninja backend adds the sources (Arglist/Backend.v: target_increments,
   transcribed from backends.py:1023-1134 and ninjabackend.py:3134-3222): what the lazy class
   returns for it is the eager meaning ... *)
Theorem C13_backend_lazy_equals_eager : forall cd sp T, compile_args_lazy cd sp T = compile_args cd sp T.
Proof. exact compile_args_lazy_eager. Qed.
Print Assumptions C13_backend_lazy_equals_eager.
(* ... and a -D/-U of the per-target c_args takes effect over every option, project, global,
   environment, dependency and include source *)
Theorem C13_backend_target_args_take_effect : forall cd sp T b1 y b2,
  sp y = false -> is_ov cd y = true -> t_targs T = b1 ++ y :: b2 -> ~ In y b2 ->
  ~ In y (t_srcinc T) -> ~ In y (t_bldinc T) -> ~ In y (t_privinc T) ->
  exists X S, compile_args cd sp T = X ++ y :: S /\ ~ In y X /\ ~ In y S
              /\ (forall x, In x S -> sp x = false /\
                    (In x b2 \/ In x (t_srcinc T) \/ In x (t_bldinc T) \/ In x (t_privinc T))).
Proof. exact target_args_take_effect. Qed.
Print Assumptions C13_backend_target_args_take_effect.

(* ... a -I/-L of the per-target c_args is searched before every directory added earlier, in
   particular before the custom target output dirs (t_custom; ninjabackend.py:3145-3148 adds them
   "before target-specific include directories") ... *)
Theorem C13_backend_target_include_args_take_effect : forall cd sp T b1 y b2,
  sp y = true -> is_ov cd y = true -> t_targs T = b1 ++ y :: b2 -> ~ In y b1 ->
  ~ In y (t_srcinc T) -> ~ In y (t_bldinc T) -> ~ In y (t_privinc T) ->
  exists X S, compile_args cd sp T = X ++ y :: S /\ ~ In y X /\ ~ In y S
              /\ (forall x, In x X -> sp x = true /\
                    (In x b1 \/ In x (t_srcinc T) \/ In x (t_bldinc T) \/ In x (t_privinc T))).
Proof. exact target_include_args_take_effect. Qed.
Print Assumptions C13_backend_target_include_args_take_effect.
(* ... and so is every directory that an increment AFTER the custom-target-dir increment adds
   (the include_directories loop): no custom target dir gets in front of it *)
Theorem C13_backend_custom_dirs_behind_later_includes : forall cd sp T before b1 y b2 later,
  target_increments T = (basic_increments T ++ [t_show_dep T; t_custom T]) ++ before ++ (b1 ++ y :: b2) :: later ->
  sp y = true -> is_ov cd y = true -> ~ In y b1 -> (forall b, In b later -> ~ In y b) ->
  exists X S, eager_iadds cd sp [] (target_increments T) = X ++ y :: S /\ ~ In y X /\ ~ In y S
              /\ (forall x, In x X -> sp x = true /\ (In x b1 \/ exists b, In b later /\ In x b)).
Proof. exact custom_dirs_behind_later_includes. Qed.
Print Assumptions C13_backend_custom_dirs_behind_later_includes.

(* ---- the code as shipped in b8a063f, before pending/C13-*.diff -------------------------
   _should_prepend as shipped moves the bare word "-I"/"-L" to the front, away from its
   operand: the order clause is false for it ... *)
Theorem C13_bare_prefix_refuted :
  exists l b, filter (is_nodedup clike_cd) (eager_iadd clike_cd (should_prepend_prefix_only clike_tables) l b)
              <> filter (is_nodedup clike_cd) l ++ filter (is_nodedup clike_cd) b.
Proof. exact bare_prefix_refuted. Qed.
Print Assumptions C13_bare_prefix_refuted.
(* ... and the shipped rule agrees with the fixed one on every batch without a bare prefix *)
Theorem C13_bare_prefix_partial : forall l b,
  (forall a, In a b -> str_mem a (prepend_prefixes clike_tables) = false) ->
  eager_iadd clike_cd (should_prepend_prefix_only clike_tables) l b = eager_iadd clike_cd clike_sp l b.
Proof. exact bare_prefix_partial. Qed.
Print Assumptions C13_bare_prefix_partial.
(* __len__ as shipped counts pending entries: not the length of the list read next ... *)
Theorem C13_len_unflushed_refuted :
  exists b, let s := iadd clike_cd clike_sp (init []) b in len_unflushed s <> length (abs clike_cd s).
Proof. exact len_unflushed_refuted. Qed.
Print Assumptions C13_len_unflushed_refuted.
(* ... it is an upper bound, exact when nothing is pending *)
Theorem C13_len_unflushed_partial : forall cd (s : st),
  (length (abs cd s) <= len_unflushed s)%nat /\
  (pre s = [] -> post s = [] -> len_unflushed s = length (abs cd s)).
Proof. intros cd s. exact (conj (len_unflushed_ge cd s) (len_unflushed_partial cd s)). Qed.
Print Assumptions C13_len_unflushed_partial.
(* __eq__ as shipped compares with the other operand's stale container ... *)
Theorem C13_eq_other_unflushed_refuted :
  exists l b0 b, eq_other_unflushed clike_cfg (init l) b0 b <> str_list_eqb l (eager_iadd clike_cd clike_sp b0 b).
Proof. exact eq_other_unflushed_refuted. Qed.
Print Assumptions C13_eq_other_unflushed_refuted.
(* ... right when the other operand has nothing pending *)
Theorem C13_eq_other_unflushed_partial : forall l b0,
  eq_other_unflushed clike_cfg (init l) b0 [] = str_list_eqb l (eager_iadd clike_cd clike_sp b0 []).
Proof. exact eq_other_unflushed_partial. Qed.
Print Assumptions C13_eq_other_unflushed_partial.
(* the stripping loop as shipped (reversed(bad_idx_list), an index can be listed twice) loses an
   argument / raises IndexError ... *)
Theorem C13_strip_shipped_refuted :
  ((exists dd l, fst (strip_default_shipped dd l) <> strip_spec (map realpath dd) l false) /\
   (exists dd l, snd (strip_default_shipped dd l) = false))%type.
Proof. exact strip_shipped_refuted. Qed.
Print Assumptions C13_strip_shipped_refuted.
(* ... and is right whenever the index list is already strictly increasing *)
Theorem C13_strip_shipped_partial : forall dd l,
  nat_list_eqb (rev (bad_idx (map realpath dd) l 0)) (sorted_set_desc (bad_idx (map realpath dd) l 0)) = true ->
  strip_default_shipped dd l = strip_default dd l.
Proof. exact strip_shipped_partial. Qed.
Print Assumptions C13_strip_shipped_partial.
