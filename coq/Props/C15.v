(* Props/C15.v — the property theorems of C15, and nothing else.

   C15 is relational and per project: "what the meson-info files say == what the other
   generated files do".  Two things are proved here, for all inputs:
   (1) the JUDGE the check uses for that comparison decides the declarative relation
       Spec.Agree (one clause per clause of the property text) — sound and complete;
   (2) the pure derivations meson shares between introspection and execution agree:
       what list_installed / list_install_plan derive from an InstallData names exactly the
       destinations (and tags) minstall derives from the same InstallData, and what
       get_test_list derives from a TestSerialisation is the command / environment mtest
       uses.
   That a given project's files satisfy Agree is established per project by the check
   (explored, not proved). *)
From Coq Require Import Permutation.
From MV Require Import Base.Strs Intro.Path Intro.PathProofs Intro.Model Intro.Spec Intro.Judge
     Intro.JudgeProofs Intro.Proofs Intro.Options Intro.OptionsProofs Intro.Tests Intro.TestsProofs.

(* ---- the judge: "the meson-info files agree with the generated build" ------------------ *)
(* The checker accepts exactly the (intro, world) pairs related by Agree: every target has
   exactly the outputs build.ninja produces and the sources its compile statements consume;
   tests and benchmarks list the command, arguments, environment, suites and dependencies
   meson test uses; buildoptions reports the values get_option() returned; the install plan
   names every installed file/subdirectory with destination and tag and nothing else; the
   build-system file list is exactly the set of files read. *)
Theorem C15_judge_sound : forall I W, agree_b I W = true -> Agree I W.
Proof. exact agree_b_sound. Qed.
Print Assumptions C15_judge_sound.

Theorem C15_judge_complete : forall I W, Agree I W -> agree_b I W = true.
Proof. exact agree_b_complete. Qed.
Print Assumptions C15_judge_complete.

(* each verdict bit is equivalent to its clause, so a rejected pair comes with the clause of
   the property that fails ("the first disagreeing field") *)
Theorem C15_judge_bits_faithful : forall I W,
  (clause_targets I W = true <-> MultisetEq item_equiv (i_targets I) (w_targets W)) /\
  (clause_tests I W = true <-> MultisetEq item_equiv (i_tests I) (w_tests W)) /\
  (clause_benchmarks I W = true <-> MultisetEq item_equiv (i_benchmarks I) (w_benchmarks W)) /\
  (clause_opts I W = true <-> forall n v, In (n, v) (w_opts W) -> reports (i_opts I) n v) /\
  (clause_install I W = true <-> forall r, In r (w_runs W) -> run_agrees (i_plan I) r) /\
  (clause_files I W = true <-> (forall f, In f (i_files I) <-> In f (w_files W)) /\ NoDup (i_files I)).
Proof. exact clause_bits_faithful. Qed.
Print Assumptions C15_judge_bits_faithful.

(* ---- install plan / installed: destinations -------------------------------------------- *)
(* get_destdir_path(destdir, destdir_join(destdir, prefix), p) is the location
   os.path.join(prefix, p) inside the staging directory — the core of every clause below *)
Theorem C15_destdir_path_location : forall destdir prefix p,
  destdir <> [] -> isabs prefix = true ->
  comps (get_destdir_path destdir (destdir_join destdir prefix) p) =
  comps destdir ++ comps (join2 prefix p).
Proof. exact comps_get_destdir_path. Qed.
Print Assumptions C15_destdir_path_location.

Theorem C15_destdir_path_nodestdir : forall prefix p,
  get_destdir_path [] (destdir_join [] prefix) p = join2 prefix p.
Proof. exact get_destdir_path_nodestdir. Qed.
Print Assumptions C15_destdir_path_nodestdir.

(* "... and nothing that is not installed": for every InstallData with an absolute prefix,
   every (source, destination) pair of intro-installed.json corresponds to an action of the
   installer (targets, headers, man pages, data files, subdirectories, symlinks) on the same
   entry, writing to that destination inside the staging directory *)
Theorem C15_named_is_installed : forall destdir_opt file_exists d acts k v,
  isabs (d_prefix d) = true -> symlinks_wf d -> all_exist file_exists d ->
  do_install destdir_opt [] [] file_exists d = Ok acts ->
  In (k, v) (list_installed d) ->
  exists a, In a acts /\ a_kind a <> KEmptydir /\ a_id a = k /\
            staged (eff_destdir destdir_opt d) v (a_dst a).
Proof. intros; eapply named_is_installed; eassumption. Qed.
Print Assumptions C15_named_is_installed.

(* "name every installed target, header, man page, data file and subdirectory with the
   destination meson install uses": true when no two entries share a source path ... *)
Theorem C15_installed_is_named_partial : forall destdir_opt file_exists d acts a,
  isabs (d_prefix d) = true -> symlinks_wf d -> all_exist file_exists d ->
  NoDup (map fst (installed_assignments d)) ->
  do_install destdir_opt [] [] file_exists d = Ok acts ->
  In a acts -> a_kind a <> KEmptydir ->
  exists v, In (a_id a, v) (list_installed d) /\ staged (eff_destdir destdir_opt d) v (a_dst a).
Proof. intros; eapply installed_is_named_partial; eassumption. Qed.
Print Assumptions C15_installed_is_named_partial.

(* ... and false in general (known finding C15:install:source-installed-twice): the
   JSON files are keyed by source path, so one source installed to two places is named once *)
Theorem C15_installed_is_named_refuted :
  exists d acts a,
    isabs (d_prefix d) = true /\ symlinks_wf d /\
    do_install None [] [] (fun _ => true) d = Ok acts /\ In a acts /\ a_kind a = KData /\
    forall v, In (a_id a, v) (list_installed d) -> ~ staged [] v (a_dst a).
Proof. exact installed_is_named_refuted. Qed.
Print Assumptions C15_installed_is_named_refuted.

(* the side condition on symlinks is what generate_symlink_install produces *)
Theorem C15_generated_symlinks_wf : forall guess l,
  ~ In SLASH (sb_name l) -> symlink_wf (gen_symlink guess l).
Proof. exact gen_symlink_wf. Qed.
Print Assumptions C15_generated_symlinks_wf.

(* without a staging directory the installer writes to the very strings the file shows *)
Theorem C15_installed_exact_nodestdir : forall destdir_opt d,
  eff_destdir destdir_opt d = [] ->
  (forall i, gdp destdir_opt d (b_install_path i) = snd (installed_plain d i)) /\
  (forall i, join2 (gdp destdir_opt d (b_install_path i)) (basename (b_path i)) = snd (installed_header d i)) /\
  (forall t, join2 (gdp destdir_opt d (t_outdir t)) (basename (t_fname t)) = snd (installed_target d t)).
Proof.
  intros dd d E. split; [|split]; intros x.
  - apply plain_exact; exact E.
  - apply header_exact; exact E.
  - apply target_exact; exact E.
Qed.
Print Assumptions C15_installed_exact_nodestdir.

(* intro-install_plan.json and intro-installed.json name the same sources *)
Theorem C15_plan_and_installed_same_sources : forall d x,
  In x (map fst (list_installed d)) <->
  In x (plan_keys (list_install_plan d)) \/ In x (map (fun s => basename (l_name s)) (d_symlinks d)).
Proof. exact plan_names_what_installed_names. Qed.
Print Assumptions C15_plan_and_installed_same_sources.

(* ---- install plan: tags ------------------------------------------------------------------ *)
(* "... and tag meson install uses": `meson install --tags sel` installs an entry iff the
   tag the plan shows for it is in sel *)
Theorem C15_plan_tag_is_installer_tag : forall key i sel,
  sel <> [] -> b_tag i <> Some [] ->
  (should_install [] sel (b_subproject i) (b_tag i) = true <->
   exists t, pe_tag (snd (plan_item key i)) = Some t /\ In t sel).
Proof. exact plan_tag_is_installer_tag. Qed.
Print Assumptions C15_plan_tag_is_installer_tag.

Theorem C15_plan_target_tag_is_installer_tag : forall d t sel,
  sel <> [] -> t_tag t <> Some [] ->
  (should_install [] sel (t_subproject t) (t_tag t) = true <->
   exists g, pe_tag (snd (plan_target d t)) = Some g /\ In g sel).
Proof. exact plan_target_tag_is_installer_tag. Qed.
Print Assumptions C15_plan_target_tag_is_installer_tag.

Theorem C15_selection_only_removes : forall destdir_opt skip tags fe d acts acts0,
  do_install destdir_opt skip tags fe d = Ok acts ->
  do_install destdir_opt [] [] fe d = Ok acts0 -> incl acts acts0.
Proof. exact selection_only_removes. Qed.
Print Assumptions C15_selection_only_removes.

(* ---- install plan: placeholder destinations ---------------------------------------------- *)
Theorem C15_header_plan_resolves : forall d incroot h i,
  hb_custom_install_dir h = None ->
  (forall sd, hb_install_subdir h = Some sd -> isabs sd = false) ->
  In i (gen_header incroot h) ->
  resolve_first (s2l "{includedir}") (join2 (d_prefix d) incroot)
                (comps (pe_destination (snd (plan_item KEY_HEADERS i)))) =
  comps (snd (installed_header d i)).
Proof. exact header_plan_resolves. Qed.
Print Assumptions C15_header_plan_resolves.

Theorem C15_header_plan_custom : forall d incroot h i c,
  hb_custom_install_dir h = Some c -> In i (gen_header incroot h) ->
  comps (join2 (d_prefix d) (pe_destination (snd (plan_item KEY_HEADERS i)))) =
  comps (snd (installed_header d i)).
Proof. exact header_plan_custom. Qed.
Print Assumptions C15_header_plan_custom.

Theorem C15_target_plan_resolves : forall d fname outdir sp tag opt,
  isabs outdir = false ->
  let t := mk_target fname outdir None sp tag opt in
  resolve_first (s2l "{prefix}") (d_prefix d) (comps (pe_destination (snd (plan_target d t)))) =
  comps (snd (installed_target d t)).
Proof. exact target_plan_resolves. Qed.
Print Assumptions C15_target_plan_resolves.

Theorem C15_man_plan_resolves : forall manroot m f,
  b_install_path (gen_man1 manroot m f) = replace MANDIR manroot (b_install_path_name (gen_man1 manroot m f)).
Proof. exact man_plan_resolves. Qed.
Print Assumptions C15_man_plan_resolves.

Theorem C15_subdir_plan_resolves : forall guess prefix sd,
  isabs prefix = true ->
  sdb_install_dir sd = sdb_install_dir_name sd -> isabs (sdb_install_dir sd) = false ->
  let i := gen_subdir guess prefix sd in
  resolve_first (s2l "{prefix}") prefix (comps (b_install_path_name i)) = comps (b_install_path i).
Proof. exact subdir_plan_resolves. Qed.
Print Assumptions C15_subdir_plan_resolves.

(* ---- buildoptions ------------------------------------------------------------------------ *)
(* "intro-buildoptions.json reports the values get_option() returned": for EVERY option store
   (system options, project options of any subproject incl. yielding ones, per-subproject
   overrides), every (sub)project sp and every option name n: if get_option(n) evaluated in sp
   returns v, the listing derived from the same store reports v for (sp, n) — the entry
   `sp:n` when there is one, else the entry `n`.  (Models _list_buildoptions with
   pending/C15-buildoptions-yielding.diff applied.) *)
Theorem C15_buildoptions_report_get_option : forall s sp n v,
  wf_store s ->
  get_value_for s {| k_name := n; k_sub := Some sp |} = Some v ->
  reported (list_buildoptions s) sp n = Some v.
Proof. exact buildoptions_report_get_option. Qed.
Print Assumptions C15_buildoptions_report_get_option.

(* the name printed in the file determines the (subproject, option) pair *)
Theorem C15_buildoptions_names_unambiguous : forall i j,
  no_colon (snd i) -> no_colon (snd j) ->
  (forall sp, fst i = Some sp -> no_colon sp) -> (forall sp, fst j = Some sp -> no_colon sp) ->
  render_iname i = render_iname j -> i = j.
Proof. exact render_iname_inj. Qed.
Print Assumptions C15_buildoptions_names_unambiguous.

(* ---- tests ----------------------------------------------------------------------------- *)
(* intro-tests.json / intro-benchmarks.json list the command and arguments meson test uses *)
Theorem C15_test_cmd_agrees : forall t, ti_cmd (get_test_list1 t) = mtest_cmd t.
Proof. exact test_cmd_agrees. Qed.
Print Assumptions C15_test_cmd_agrees.

(* ... and the environment: each variable shown has that value in the test's environment, all
   others are inherited (for set/append/prepend operations on variables the invoking
   environment does not define; unset() is not covered) *)
Theorem C15_test_env_agrees : forall t (os_environ : dict str) k,
  NoDup (map fst os_environ) ->
  ev_unset (ts_env t) = [] ->
  (forall n, In n (touched (ts_env t)) -> dict_get n os_environ = None) ->
  k <> s2l "MESON_TEST_ITERATION" ->
  dict_get k (mtest_env t os_environ) =
  match dict_get k (ti_env (get_test_list1 t)) with
  | Some v => Some v
  | None => dict_get k os_environ
  end.
Proof. exact test_env_agrees. Qed.
Print Assumptions C15_test_env_agrees.

(* intro-tests.json / intro-benchmarks.json ARE the serialised tests `meson test` loads: as many
   entries, in the same order, every field (command = fname ++ cmd_args, name, workdir,
   timeout, suites, is_parallel, priority, protocol, depends, extra_paths) taken from the
   TestSerialisation, the environment being its operations evaluated on the empty environment *)
Theorem C15_intro_tests_are_the_serialised_tests : forall l k t,
  nth_error l k = Some t ->
  exists e, nth_error (intro_tests l) k = Some e /\
    i_cmd e = s_fname t ++ s_cmd_args t /\ i_name e = s_name t /\ i_workdir e = s_workdir t /\
    i_timeout e = s_timeout t /\ i_suite e = s_suite t /\ i_is_parallel e = s_is_parallel t /\
    i_priority e = s_priority t /\ i_protocol e = s_protocol t /\ i_depends e = s_depends t /\
    i_extra_paths e = s_extra_paths t /\ i_env e = get_env (s_env t) [].
Proof. exact intro_tests_nth. Qed.
Print Assumptions C15_intro_tests_are_the_serialised_tests.

Theorem C15_intro_tests_length : forall l, length (intro_tests l) = length l.
Proof. exact intro_tests_length. Qed.
Print Assumptions C15_intro_tests_length.

(* the environment shown names only variables the test's operations set/append/prepend and
   never an unset() one *)
Theorem C15_intro_env_keys : forall t k v,
  dict_get k (i_env (intro_of_test t)) = Some v ->
  In k (touched (s_env t)) /\ ~ In k (ev_unset (s_env t)).
Proof. exact intro_env_keys. Qed.
Print Assumptions C15_intro_env_keys.
