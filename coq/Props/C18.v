(* Props/C18.v — the property theorems of C18 (TAP streams are interpreted per the
   TAP specification), and nothing else.  `parse lines` is list(TAPParser().parse(lines)),
   `verdict rc xf evs` the result TestRunTAP reports for the whole test. *)
From Coq Require Import Permutation.
From MV Require Import Base.Strs Tap.Lines Tap.Machine Tap.Verdict Tap.Spec Tap.Proofs Tap.WellFormed Tap.Render Tap.Reference.
Open Scope N_scope.

(* "each ok / not ok line yields one subtest with the right number, name and
   directive-adjusted status (SKIP; TODO giving expected-fail or unexpected-pass)":
   for every parser state and every line that is looked at as TAP.  line_number: the number
   written, or previous + 1 when none is written or (fix C18-int-max-str-digits) when the written
   one has more than 100 digits, in which case an Error event is produced as well *)
Theorem C18_test_line_one_subtest : forall s l s' e,
  main_line s l = Ok (s', e) ->
  match line_class l with
  | Some (LTest ok num name dir) =>
      let n := line_number (last_test s) num in
      tests_of e = [(n, strip name, spec_status ok (dir_of dir), spec_explanation dir)] /\
      last_test s' = n /\ num_tests s' = num_tests s + 1 /\ st s' = AfterTest /\
      (num_big num = true -> In (EError KBig) e)
  | _ => tests_of e = [] /\ last_test s' = last_test s /\ num_tests s' = num_tests s
  end.
Proof. exact test_line_subtest. Qed.
Print Assumptions C18_test_line_one_subtest.

(* ... and for every stream as a whole: the subtests reported are exactly the test lines outside
   YAML blocks (ref_tests: a reference reading of the stream that knows only about TAP 13's
   "a YAML block may follow a test line" and nothing about plans, counters or errors), in order *)
Theorem C18_subtests_are_the_test_lines : forall lines evs,
  parse lines = Ok evs -> tests_of evs = ref_tests ref_init lines.
Proof. exact subtests_are_the_test_lines. Qed.
Print Assumptions C18_subtests_are_the_test_lines.
Example C18_reference_example :
  ref_tests ref_init [s2l "TAP version 13"; s2l "ok 1 # SKIP x"; s2l "  ---"; s2l "  ok 2"; s2l "  ..."; s2l "1..1"]
  = [(1, [], SKIP, Some (s2l "x"))].
Proof. exact ref_tests_example. Qed.

(* the directive word the regexes deliver is always SKIP... or TODO (so the table above is
   total), subtests carry one of the five TAP results, and the parser never reports an
   "invalid directive" *)
Theorem C18_directives_and_results : forall lines evs,
  parse lines = Ok evs -> Forall event_sane evs.
Proof. exact events_sane. Qed.
Print Assumptions C18_directives_and_results.

(* ... and the line regexes read a test line written in the usual layout
   ("[not ]ok [N ]name[ # SKIP|TODO[ why]]", any digits N, any name without '#' that does not
   begin with a blank or a digit, any explanation on one line) back as what was written *)
Theorem C18_render_test_roundtrip : forall ok num name dir,
  num_text_ok num -> name_ok name -> dir_text_ok dir ->
  exists name', strip name' = strip name /\
    classify (render_test ok num name dir) = LTest ok num name' (dir_groups dir).
Proof. exact classify_render_test. Qed.
Print Assumptions C18_render_test_roundtrip.
Theorem C18_render_test_subtest : forall s ok num name dir s' e,
  num_text_ok num -> name_ok name -> dir_text_ok dir ->
  let l := render_test ok num name dir in
  rstrip l = l ->
  main_line s l = Ok (s', e) ->
  tests_of e = [(line_number (last_test s) num,
                 strip name,
                 spec_status ok (match dir with Some (d, _, _) => Some d | None => None end),
                 match dir with Some (_, _, expl) => if nonempty expl then Some (strip expl) else None | None => None end)].
Proof. exact render_test_subtest. Qed.
Print Assumptions C18_render_test_subtest.
Theorem C18_render_plan_roundtrip : forall ds dir,
  all_digits ds = true -> ds <> [] -> dir_text_ok dir ->
  classify (render_plan ds dir) = LPlan ds (dir_groups dir).
Proof. exact classify_render_plan. Qed.
Print Assumptions C18_render_plan_roundtrip.
Theorem C18_render_bail_roundtrip : forall msg,
  no_lf msg = true -> starts_nonblank msg = true -> classify (s2l "Bail out! " ++ msg) = LBail msg.
Proof. exact classify_render_bail. Qed.
Print Assumptions C18_render_bail_roundtrip.
Theorem C18_render_version_roundtrip : forall ds,
  all_digits ds = true -> ds <> [] -> classify (s2l "TAP version " ++ ds) = LVersion ds.
Proof. exact classify_render_version. Qed.
Print Assumptions C18_render_version_roundtrip.
Theorem C18_diagnostic_line : forall text : str, line_class (35 :: text) = None.
Proof. exact line_class_diag. Qed.
Print Assumptions C18_diagnostic_line.

(* "diagnostics ... after a test are ignored" *)
Theorem C18_diagnostics_ignored : forall s l s' e,
  st s <> Yaml -> yaml_start l = None -> line_class l = None ->
  parse_line s l = Ok (s', e) -> e = [] /\ ctr s' = ctr s /\ version s' = version s.
Proof. exact diagnostic_ignored. Qed.
Print Assumptions C18_diagnostics_ignored.

(* "... and YAML blocks after a test are ignored" (TAP 13): no event, counters and plan
   untouched, back in the main state *)
Theorem C18_yaml_block_ignored : forall s l0 ind body lend,
  st s = AfterTest -> 13 <= version s -> yaml_start l0 = Some ind ->
  Forall (yaml_body_line ind) body -> yaml_end lend = true ->
  exists s', run_lines s (l0 :: body ++ [lend]) = Ok (s', []) /\
             ctr s' = ctr s /\ st s' = Main /\ version s' = version s /\
             lineno s' = lineno s + N.of_nat (length body) + 2.
Proof. exact yaml_block_ignored. Qed.
Print Assumptions C18_yaml_block_ignored.
Theorem C18_after_test_is_main : forall s l,
  st s = AfterTest -> (yaml_start l = None \/ version s < 13) ->
  parse_line s l = parse_line (set_st s Main) l.
Proof. exact after_test_is_main. Qed.
Print Assumptions C18_after_test_is_main.

(* conversely a well-formed stream (tests numbered 1..k in order, explicitly or not; one plan
   before the first or after the last test, or none; diagnostics and blank lines anywhere; with
   "TAP version 13" first also YAML blocks after tests) is reported without any Error, Bailout
   or UnknownLine event *)
Theorem C18_well_formed_clean : forall lines,
  wf false 0 None lines -> exists evs, parse lines = Ok evs /\ clean evs.
Proof. exact well_formed_clean. Qed.
Print Assumptions C18_well_formed_clean.
Theorem C18_well_formed_clean_v13 : forall v ds lines,
  line_class v = Some (LVersion ds) -> yaml_start v = None -> too_long ds = false -> 13 <= digits_val ds ->
  wf true 0 None lines -> exists evs, parse (v :: lines) = Ok evs /\ clean evs.
Proof. exact well_formed_clean_v13. Qed.
Print Assumptions C18_well_formed_clean_v13.
Example C18_well_formed_inhabited_v13 :
  wf true 0 None [s2l "1..2"; s2l "ok 1 - a"; s2l "  ---"; s2l "  x: y"; s2l "  ..."; s2l "# diag";
                  s2l "not ok 2 b # TODO later"; s2l ""].
Proof. exact wf_example_v13. Qed.
Example C18_well_formed_inhabited_v12 :
  wf false 0 None [s2l "ok"; s2l "ok 2 second # SKIP no libfoo"; s2l "1..2"; s2l "# done"].
Proof. exact wf_example_v12. Qed.

(* "a plan/count mismatch ... produce[s] an error/bail-out event": for every stream *)
Theorem C18_plan_count_mismatch : forall lines evs p,
  parse lines = Ok evs -> In (EPlan p) evs -> count_tests evs <> p_num p -> faulty evs = true.
Proof. exact plan_count_mismatch. Qed.
Print Assumptions C18_plan_count_mismatch.

(* "duplicate or missing numbers ... produce an error/bail-out event": for every stream, whenever
   the numbers of the subtests are not exactly 1..k in some order.  (Proved for the parser WITH
   the fix pending/C18-numbering-undetected.diff, which tracks the set of numbers seen; the
   unpatched parser lets 1,1,3 through, and the check reports that as a violation until the
   fix is applied.) *)
Theorem C18_duplicate_missing_numbers : forall lines evs,
  parse lines = Ok evs ->
  ~ Permutation (numbers evs) (iota 1 (length (numbers evs))) -> faulty evs = true.
Proof. exact numbering_full. Qed.
Print Assumptions C18_duplicate_missing_numbers.
(* special cases that also hold for the unpatched parser: highest number <> number of subtests, *)
Theorem C18_highest_number_differs : forall lines evs,
  parse lines = Ok evs -> maxnum evs <> count_tests evs -> faulty evs = true.
Proof. exact numbering_partial. Qed.
Print Assumptions C18_highest_number_differs.
(* and hence every gap when the numbers come in increasing order from 1 or above *)
Theorem C18_missing_numbers_increasing : forall lines evs,
  parse lines = Ok evs -> incr_from 1 (numbers evs) ->
  numbers evs <> iota 1 (length (numbers evs)) -> faulty evs = true.
Proof. exact numbering_increasing. Qed.
Print Assumptions C18_missing_numbers_increasing.
Example C18_increasing_guard_satisfiable : incr_from 1 [1; 2; 4] /\ [1; 2; 4] <> iota 1 3.
Proof. split; [simpl; repeat split; discriminate|discriminate]. Qed.

(* "a number beyond the plan": for every stream, wherever the plan line is *)
Theorem C18_number_beyond_plan : forall lines evs p n nm r ex,
  parse lines = Ok evs -> In (EPlan p) evs -> In (ETest n nm r ex) evs -> p_num p < n ->
  faulty evs = true.
Proof. exact number_beyond_plan. Qed.
Print Assumptions C18_number_beyond_plan.

(* "a test after a late plan" *)
Theorem C18_test_after_late_plan : forall lines evs a p b,
  parse lines = Ok evs -> evs = a ++ EPlan p :: b -> has_test a = true -> has_test b = true ->
  has_error evs = true.
Proof. exact test_after_late_plan. Qed.
Print Assumptions C18_test_after_late_plan.

(* "a second plan": at most one Plan event, and in EVERY stream a second line of plan syntax
   gives an error; the only condition is that the two lines are not themselves part of a YAML
   block (swallowed: read off the reference reading of the stream, Tap/Reference.v) *)
Theorem C18_single_plan_event : forall lines evs, parse lines = Ok evs -> (count_plans evs <= 1)%nat.
Proof. exact single_plan_event. Qed.
Print Assumptions C18_single_plan_event.
Theorem C18_second_plan : forall l1 x l2 y l3 d1 r1 d2 r2 evs,
  swallowed (ref_run ref_init l1) x = false ->
  swallowed (ref_run ref_init (l1 ++ x :: l2)) y = false ->
  line_class x = Some (LPlan d1 r1) -> line_class y = Some (LPlan d2 r2) ->
  parse (l1 ++ x :: l2 ++ y :: l3) = Ok evs ->
  In (EError KPlan2) evs \/ (too_long d1 = true /\ In (EError KBig) evs).
Proof. exact second_plan_reported_all. Qed.
Print Assumptions C18_second_plan.

(* "an unterminated YAML block": at the end of the stream, or broken by a line that neither
   continues nor ends it *)
Theorem C18_unterminated_yaml_eof : forall lines s e evs,
  run_lines init lines = Ok (s, e) -> st s = Yaml -> parse lines = Ok evs -> In (EError KYaml) evs.
Proof. exact unterminated_yaml_eof. Qed.
Print Assumptions C18_unterminated_yaml_eof.
Theorem C18_unterminated_yaml_line : forall s l s' e,
  st s = Yaml -> yaml_end l = false -> prefixb (yaml_indent s) l = false ->
  parse_line s l = Ok (s', e) -> exists e', e = EError KYaml :: e'.
Proof. exact yaml_block_broken. Qed.
Print Assumptions C18_unterminated_yaml_line.

(* "a misplaced version line": every stream, every version line outside YAML blocks *)
Theorem C18_version_line : forall l1 x l2 ds evs,
  swallowed (ref_run ref_init l1) x = false -> line_class x = Some (LVersion ds) ->
  parse (l1 ++ x :: l2) = Ok evs ->
  (l1 <> [] -> In (EError KVerPos) evs) /\
  (l1 = [] -> too_long ds = true -> In (EError KBig) evs) /\
  (l1 = [] -> too_long ds = false -> digits_val ds < 13 -> In (EError KVerLow) evs) /\
  (l1 = [] -> too_long ds = false -> 13 <= digits_val ds -> In (EVersion (digits_val ds)) evs).
Proof. exact version_line_all. Qed.
Print Assumptions C18_version_line.

(* "or `Bail out!`": every stream, every Bail out! line outside YAML blocks *)
Theorem C18_bail_out : forall l1 x l2 m evs,
  swallowed (ref_run ref_init l1) x = false -> line_class x = Some (LBail m) ->
  parse (l1 ++ x :: l2) = Ok evs -> In (EBail m) evs.
Proof. exact bail_out_reported_all. Qed.
Print Assumptions C18_bail_out.
Example C18_swallowed_example :
  swallowed (ref_run ref_init [s2l "TAP version 13"; s2l "ok 1"; s2l "  ---"]) (s2l "  Bail out!") = true /\
  swallowed (ref_run ref_init [s2l "TAP version 13"; s2l "ok 1"; s2l "  ---"; s2l "  ..."]) (s2l "Bail out!") = false.
Proof. exact swallowed_example. Qed.

(* "No input makes the parser raise".  Proved for the parser WITH the fix
   pending/C18-int-max-str-digits.diff (a number of more than 100 digits is never converted: it
   yields an Error event), for every stream whatever its lines are; the one remaining guard is on
   the NUMBER of lines (fewer than 10^4299), because the end-of-stream message formats the highest
   test number and counting up from a 100-digit number would need that many unnumbered test lines
   to reach the 4300 digits CPython refuses to print.  The unpatched parser raises ValueError on a
   4301-digit number; the check reports that as a violation when run with VERIF_C18_BIGNUM=1. *)
Theorem C18_no_raise : forall lines, few_lines lines -> exists evs, parse lines = Ok evs.
Proof. exact no_raise. Qed.
Print Assumptions C18_no_raise.
Example C18_no_raise_guard_example : few_lines [s2l "ok " ++ repeat 57 4301; s2l "1..1"].
Proof. exact few_lines_example. Qed.
Theorem C18_only_value_error : forall lines c, parse lines = PyErr c -> c = ValueError.
Proof. exact only_value_error. Qed.
Print Assumptions C18_only_value_error.

(* "a TAP test as a whole is reported bad iff some subtest failed or unexpectedly passed,
   an error or bail-out event occurred, or the program exited non-zero" (test not marked
   should_fail) *)
Theorem C18_verdict : forall lines evs rc,
  parse lines = Ok evs ->
  is_bad (verdict rc false evs) = existsb bad_subtest (results evs) || faulty evs || negb (Z.eqb rc 0).
Proof. exact verdict_bad_subtests. Qed.
Print Assumptions C18_verdict.

(* the same for a test marked should_fail, and the reported result in closed form for both: the
   LAST event among {Error, Bailout, failing/unexpectedly passing subtest} decides (last_res) *)
Theorem C18_verdict_closed_form : forall rc xf evs,
  verdict rc xf evs =
  match last_res evs with
  | Some ERROR => ERROR
  | Some _ => if xf then EXPECTEDFAIL else FAIL
  | None =>
      if all_skipped evs then (if negb (Z.eqb rc 0) then ERROR else SKIP)
      else if negb (Z.eqb rc 0) then ERROR else if xf then UNEXPECTEDPASS else OK
  end.
Proof. exact verdict_closed_form. Qed.
Print Assumptions C18_verdict_closed_form.
Theorem C18_verdict_should_fail : forall evs rc,
  is_bad (verdict rc true evs) =
  match last_res evs with
  | Some ERROR => true
  | Some _ => false
  | None => negb (Z.eqb rc 0) || negb (all_skipped evs)
  end.
Proof. exact verdict_should_fail. Qed.
Print Assumptions C18_verdict_should_fail.

(* the whole run (parser + TestRunTAP.parse, which formats f'subtest {number}' for unnamed
   subtests) always reports a result, under the same guard *)
Theorem C18_whole_run_no_raise : forall lines rc xf,
  few_lines lines -> exists r, run_verdict rc xf lines = Ok r.
Proof. exact run_verdict_total. Qed.
Print Assumptions C18_whole_run_no_raise.
