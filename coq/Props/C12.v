(* Props/C12.v — the property theorems of C12, and nothing else.

   A *trace* is a list of labels (Sched.label) that the transition system of
   Mtest/Sched.v (the transcription of TestHarness._run_tests) can execute from its
   initial state: [run c (init c) ls = Some s].  Every theorem below that mentions
   [ls] holds for ALL traces, i.e. for every interleaving the scheduler can produce,
   and for every prefix of it.  [starts ls] are the ids of the tests started in ls,
   [ends ls] the (id, result) pairs reported, [active ls []] the tests running after ls. *)
From MV Require Import Base.Strs Mtest.Classify Mtest.Sched Mtest.Select Mtest.Spec
  Mtest.ClassifyProofs Mtest.SchedProofs Mtest.SelectProofs Mtest.Proofs Mtest.SpecProofs Mtest.ShrinkProofs.
From Coq Require Import ZArith Arith List Permutation Sorting.Sorted.
Import ListNotations.
Open Scope nat_scope.

(* "starts every selected test ... at most once" — in every trace, cut short or not *)
Theorem C12_starts_at_most_once : forall c ls s,
  run c (init c) ls = Some s -> NoDup (starts ls).
Proof. exact starts_at_most_once. Qed.
Print Assumptions C12_starts_at_most_once.

(* only selected tests (runner ids below the number of runners) are started *)
Theorem C12_only_selected_start : forall c ls s i,
  run c (init c) ls = Some s -> In i (starts ls) -> i < nrun c.
Proof. exact starts_are_runners. Qed.
Print Assumptions C12_only_selected_start.

(* "starts every selected test exactly once per repetition (at most once when the run is
   cut short by --maxfail or by a failure under --repeat)": when the run has ended and
   neither maxfail was reached nor (repeat > 1 and a failure happened), every runner
   (= test x repetition) was started exactly once and has a result *)
Theorem C12_all_started_exactly_once_unless_cut_short : forall c ls s,
  run c (init c) ls = Some s -> terminal c s = true -> ~ cut_short c ls ->
  forall i, i < nrun c -> count_occ Nat.eq_dec (starts ls) i = 1 /\ In i (map fst (ends ls)).
Proof. exact all_started_unless_cut_short. Qed.
Print Assumptions C12_all_started_exactly_once_unless_cut_short.

(* each started test is reported at most once, and only started tests are reported *)
Theorem C12_results_at_most_once : forall c ls s, run c (init c) ls = Some s ->
  NoDup (map fst (ends ls)) /\ forall i, In i (map fst (ends ls)) -> In i (starts ls).
Proof. exact results_at_most_once. Qed.
Print Assumptions C12_results_at_most_once.

(* the scheduler cannot get stuck before the end, for every command line that is accepted:
   a non-positive -j/--num-processes is refused at option parsing (nothing runs); a positive
   one, or none — whatever MESON_TESTTHREADS / MESON_NUM_PROCESSES hold, determine_worker_count
   gives at least 1 — is accepted, and from then on some transition is always enabled until
   the run has ended.  Every trace has at most 4 * runners steps, so the run ends. *)
Theorem C12_nonpositive_jobs_rejected : forall tp rep n a b cpus mf, (n <= 0)%Z ->
  cli_cfg tp rep (Some n) a b cpus mf = Rejected.
Proof. exact cli_rejects_nonpositive. Qed.
Print Assumptions C12_nonpositive_jobs_rejected.
Theorem C12_positive_or_default_jobs_accepted : forall tp rep opt a b cpus mf,
  (match opt with Some n => (1 <= n)%Z | None => True end) ->
  exists c, cli_cfg tp rep opt a b cpus mf = Accepted c.
Proof. exact cli_accepts. Qed.
Print Assumptions C12_positive_or_default_jobs_accepted.
Theorem C12_scheduler_never_stuck : forall tp rep opt a b cpus mf c,
  cli_cfg tp rep opt a b cpus mf = Accepted c ->
  forall ls s, run c (init c) ls = Some s -> terminal c s = true \/ exists l s', exec c s l = Some s'.
Proof. exact cli_never_stuck. Qed.
Print Assumptions C12_scheduler_never_stuck.
Theorem C12_default_jobs_positive : forall a b cpus, 1 <= determine_worker_count a b cpus.
Proof. exact worker_count_positive. Qed.
Print Assumptions C12_default_jobs_positive.
Theorem C12_scheduler_terminates : forall c ls s,
  run c (init c) ls = Some s -> length ls <= 4 * nrun c.
Proof. exact run_length_bound. Qed.
Print Assumptions C12_scheduler_terminates.

(* "never runs a test declared non-parallel while any other test is running" *)
Theorem C12_serial_isolation : forall c ls s i, run c (init c) ls = Some s ->
  In i (active ls []) -> par c i = false -> active ls [] = [i].
Proof. exact serial_isolation. Qed.
Print Assumptions C12_serial_isolation.

(* ... for the configuration the command line produces: a test declared
   is_parallel:false runs alone in every repetition, whatever --num-processes is *)
Theorem C12_declared_serial_runs_alone : forall tp rep np mf ls s i,
  run (mk_cfg tp rep np mf) (init (mk_cfg tp rep np mf)) ls = Some s ->
  In i (active ls []) -> nth (i mod length tp) tp true = false -> active ls [] = [i].
Proof. exact declared_serial_runs_alone. Qed.
Print Assumptions C12_declared_serial_runs_alone.

(* "never has more tests running than the requested number of jobs" *)
Theorem C12_job_bound : forall c ls s,
  run c (init c) ls = Some s -> length (active ls []) <= c_jobs c.
Proof. exact job_bound. Qed.
Print Assumptions C12_job_bound.
Theorem C12_requested_job_bound : forall tp rep np mf ls s,
  run (mk_cfg tp rep np mf) (init (mk_cfg tp rep np mf)) ls = Some s -> length (active ls []) <= np.
Proof. exact requested_job_bound. Qed.
Print Assumptions C12_requested_job_bound.

(* after maxfail is reached / a failure under --repeat, nothing new is started *)
Theorem C12_no_start_after_stop : forall c s i, stopf c s = true -> exec c s (LStart i) = None.
Proof. exact no_start_after_stop. Qed.
Print Assumptions C12_no_start_after_stop.

(* the trace checker used on observed event sequences is sound and complete for the
   transition system: it accepts exactly the observable projections of its traces,
   and [complete_run] exactly those of finished runs *)
Theorem C12_admissible_sound_complete : forall c tr,
  admissible c tr = true <-> exists ls s, run c (init c) ls = Some s /\ visible ls = tr.
Proof. exact admissible_iff. Qed.
Print Assumptions C12_admissible_sound_complete.
Theorem C12_complete_run_sound_complete : forall c tr, 1 <= c_jobs c ->
  (complete_run c tr = true <->
   exists ls s, run c (init c) ls = Some s /\ visible ls = tr /\ terminal c s = true).
Proof. exact complete_run_iff. Qed.
Print Assumptions C12_complete_run_sound_complete.

(* "classified by the documented rule (exit 0 OK, 77 SKIP, 99 ERROR, any other status FAIL,
   inverted to EXPECTEDFAIL/UNEXPECTEDPASS by should_fail" *)
Theorem C12_classification_documented : forall p should_fail evs rc,
  p = PExitcode \/ p = PGtest ->
  classify p should_fail 0%Z evs WExited rc =
    if (rc =? 0)%Z then (if should_fail then UNEXPECTEDPASS else OK)
    else if (rc =? 77)%Z then SKIP
    else if (rc =? 99)%Z then ERROR
    else (if should_fail then EXPECTEDFAIL else FAIL).
Proof. exact classify_exit_documented. Qed.
Print Assumptions C12_classification_documented.

(* "TIMEOUT when the limit passes and the test is then terminated" — for every protocol,
   output, exit status and should_fail; a cancelled test is INTERRUPT *)
Theorem C12_classification_timeout : forall p sf e evs rc, classify p sf e evs WTimedOut rc = TIMEOUT.
Proof. exact classify_timeout. Qed.
Print Assumptions C12_classification_timeout.
Theorem C12_classification_cancelled : forall p sf e evs rc, classify p sf e evs WCancelled rc = INTERRUPT.
Proof. exact classify_cancelled. Qed.
Print Assumptions C12_classification_cancelled.
Theorem C12_classification_exit_range : forall p sf e evs rc,
  p = PExitcode \/ p = PGtest ->
  let r := classify p sf e evs WExited rc in
  r <> TIMEOUT /\ r <> INTERRUPT /\ r <> IGNORED /\
  (sf = true -> r <> OK /\ r <> FAIL) /\ (sf = false -> r <> UNEXPECTEDPASS /\ r <> EXPECTEDFAIL).
Proof. exact classify_exit_range. Qed.
Print Assumptions C12_classification_exit_range.

(* "the printed totals and testlog.json equal the tally of those classifications";
   `Fail:` is FAIL + ERROR + INTERRUPT (mtest.py:1827) *)
Theorem C12_totals_are_tally : forall rs,
  let t := tally rs in
  n_ok t = cnt OK rs /\ n_expfail t = cnt EXPECTEDFAIL rs /\
  n_fail t = cnt FAIL rs + cnt ERROR rs + cnt INTERRUPT rs /\
  n_unexppass t = cnt UNEXPECTEDPASS rs /\ n_skip t = cnt SKIP rs /\
  n_ignored t = cnt IGNORED rs /\ n_timeout t = cnt TIMEOUT rs.
Proof. exact totals_are_tally. Qed.
Print Assumptions C12_totals_are_tally.
Theorem C12_totals_sum : forall rs,
  let t := tally rs in
  n_ok t + n_expfail t + n_fail t + n_unexppass t + n_skip t + n_ignored t + n_timeout t = length rs.
Proof. exact totals_sum. Qed.
Print Assumptions C12_totals_sum.
Theorem C12_summary_lines : forall c k n,
  In (k, n) (summary_lines c) <->
  (k, n) = (0, n_ok c) \/ (k, n) = (2, n_fail c) \/
  (0 < n /\ ((k, n) = (1, n_expfail c) \/ (k, n) = (3, n_unexppass c) \/ (k, n) = (4, n_skip c) \/
             (k, n) = (5, n_ignored c) \/ (k, n) = (6, n_timeout c))).
Proof. exact summary_lines_spec. Qed.
Print Assumptions C12_summary_lines.

(* "the exit status is non-zero iff some test failed, errored, timed out or unexpectedly
   passed": for any list of results with INTERRUPT counted as a failure ... *)
Theorem C12_exit_status_iff_bad : forall rs,
  exit_status (tally rs) <> 0 <-> exists r, In r rs /\ is_bad r = true.
Proof. exact exit_status_iff. Qed.
Print Assumptions C12_exit_status_iff_bad.
(* ... and for the results of any trace of the scheduler exactly as the property says,
   because an INTERRUPT is only ever reported after a genuine bad result *)
Theorem C12_exit_status_of_a_run : forall c ls s, run c (init c) ls = Some s ->
  (exit_status (tally (map snd (ends ls))) <> 0 <->
   exists i r, In (i, r) (ends ls) /\ (r = FAIL \/ r = ERROR \/ r = TIMEOUT \/ r = UNEXPECTEDPASS)).
Proof. exact exit_status_run. Qed.
Print Assumptions C12_exit_status_of_a_run.

(* "--slice i/n over i = 1..n partitions the selected tests" *)
Theorem C12_slice_partition : forall A (l : list A) n, 0 < n ->
  Permutation (concat (map (fun i => slice l i n) (seq 1 n))) l.
Proof. exact slice_partition. Qed.
Print Assumptions C12_slice_partition.
Theorem C12_slice_elements : forall A (l : list A) i n q, 0 < n -> 1 <= i ->
  nth_error (slice l i n) q = nth_error l (i - 1 + q * n).
Proof. exact slice_nth. Qed.
Print Assumptions C12_slice_elements.
Theorem C12_slices_disjoint_by_index : forall i i' n q q', 1 <= i <= n -> 1 <= i' <= n ->
  i - 1 + q * n = i' - 1 + q' * n -> i = i'.
Proof. exact slice_index_disjoint. Qed.
Print Assumptions C12_slices_disjoint_by_index.
Theorem C12_get_tests_slices_partition : forall o tests sel n,
  get_tests (no_slice o) tests = SelOk sel -> 0 < n -> n <= length sel ->
  exists parts, Forall2 (fun i p => get_tests (with_slice o i n) tests = SelOk p) (seq 1 n) parts /\
                Permutation (concat parts) sel.
Proof. exact get_tests_slices_partition. Qed.
Print Assumptions C12_get_tests_slices_partition.

(* the order in which tests are handed to the scheduler: a stable sort by descending priority *)
Theorem C12_serialisation_order : forall A (l : list (Z * A)),
  Permutation (psort l) l /\ StronglySorted desc (psort l) /\
  forall p, filter (fun y => (fst y =? p)%Z) (psort l) = filter (fun y => (fst y =? p)%Z) l.
Proof. exact psort_spec. Qed.
Print Assumptions C12_serialisation_order.

(* the same traces, stated without main loop and semaphore queue: a test may start iff it is
   selected, not started before, a slot is free, no stop flag is up, every earlier
   non-parallel runner has reported and (if it is non-parallel) every earlier runner has
   (Mtest/Spec.v); the checker accepts exactly the traces of that specification *)
Theorem C12_observable_specification : forall c tr,
  admissible c tr = true <-> exists v, vrun c vinit tr = Some v.
Proof. exact admissible_spec. Qed.
Print Assumptions C12_observable_specification.
Theorem C12_start_order : forall c ls s i, run c (init c) (ls ++ [LStart i]) = Some s ->
  (forall j, j < i -> par c j = false -> In j (map fst (ends ls))) /\
  (par c i = false -> forall j, j < i -> In j (map fst (ends ls))).
Proof. exact start_order. Qed.
Print Assumptions C12_start_order.

(* the check of the event log written by the test programs raises no false alarm: whatever
   trace the scheduler produces under c, its log — results erased, starts logged later and
   ends logged earlier than they happen (any sequence of shrinking swaps) — is accepted
   under the lax configuration (stop rules off) *)
Theorem C12_lax_closed_under_shrinking : forall c pre a b post, is_lax c -> shrink_swap a b ->
  admissible c (pre ++ a :: b :: post) = true -> admissible c (pre ++ b :: a :: post) = true.
Proof. exact lax_shrink_closed. Qed.
Print Assumptions C12_lax_closed_under_shrinking.
Theorem C12_log_check_sound : forall c ls s log, run c (init c) ls = Some s ->
  shrinks (map erase (visible ls)) log -> admissible (lax c) log = true.
Proof. exact log_check_sound. Qed.
Print Assumptions C12_log_check_sound.

(* test-name arguments (meson test NAME... with fnmatch `*`/`?` and `subproject:` prefixes),
   --suite / --no-suite / --exclude: the first-match loop of tests_from_args yields exactly
   the tests matched by SOME argument; the selection is a subsequence of the defined tests,
   so a test matched by several arguments is selected — hence started — once *)
Theorem C12_name_arguments_first_match : forall pats ts,
  tests_from_args pats ts = filter (fun t => existsb (arg_matches t) pats) ts.
Proof. exact tests_from_args_filter. Qed.
Print Assumptions C12_name_arguments_first_match.
Theorem C12_selection_is_subsequence : forall o tests l, get_tests o tests = SelOk l -> subseq l tests.
Proof. exact get_tests_subseq. Qed.
Print Assumptions C12_selection_is_subsequence.
Theorem C12_selection_no_duplicates : forall o tests l,
  NoDup (map tkey tests) -> get_tests o tests = SelOk l -> NoDup (map tkey l).
Proof. exact get_tests_no_duplicates. Qed.
Print Assumptions C12_selection_no_duplicates.
Theorem C12_selection_exact : forall o tests l, get_tests (no_slice o) tests = SelOk l ->
  forall t, In t l <->
    In t tests /\ test_suitable o t = true /\
    (o_args o = [] \/ exists a, In a (o_args o) /\ arg_matches t (arg_pattern a) = true).
Proof. exact get_tests_exact. Qed.
Print Assumptions C12_selection_exact.
