(* Base/Strs.v — characters are Unicode code points (N), strings are lists.
   No proofs of properties here beyond what models need to be executable;
   lemmas live in Base/StrsFacts.v. *)
From Coq Require Export Ascii String.
From Coq Require Export NArith ZArith Bool List.
Export ListNotations.
(* List is imported after String so that length/concat/++ are the list ones. *)
Open Scope N_scope.

Definition char := N.
Definition str := list char.

(* Coq string literal -> str, for readable models: (s2l "abc"). *)
Fixpoint s2l (s : string) : str :=
  match s with
  | EmptyString => []
  | String a r => N_of_ascii a :: s2l r
  end.

Definition ch (a : ascii) : char := N_of_ascii a.

Fixpoint str_eqb (a b : str) : bool :=
  match a, b with
  | [], [] => true
  | x :: a', y :: b' => N.eqb x y && str_eqb a' b'
  | _, _ => false
  end.

(* Generic lexicographic three-way comparison (Python tuple / str comparison). *)
Fixpoint lex_cmp {A : Type} (cmp : A -> A -> comparison) (a b : list A) : comparison :=
  match a, b with
  | [], [] => Eq
  | [], _ :: _ => Lt
  | _ :: _, [] => Gt
  | x :: a', y :: b' =>
      match cmp x y with
      | Eq => lex_cmp cmp a' b'
      | c => c
      end
  end.

(* Lexicographic comparison by code point (Python str comparison). *)
Definition str_cmp (a b : str) : comparison := lex_cmp N.compare a b.

Fixpoint prefixb (p s : str) : bool :=
  match p, s with
  | [], _ => true
  | x :: p', y :: s' => N.eqb x y && prefixb p' s'
  | _ :: _, [] => false
  end.

Definition suffixb (p s : str) : bool := prefixb (rev p) (rev s).

Fixpoint drop (n : nat) (s : str) : str :=
  match n, s with
  | O, _ => s
  | S n', [] => []
  | S n', _ :: r => drop n' r
  end.

Fixpoint memb (c : char) (l : list char) : bool :=
  match l with
  | [] => false
  | x :: r => N.eqb c x || memb c r
  end.

Fixpoint str_mem (s : str) (l : list str) : bool :=
  match l with
  | [] => false
  | x :: r => str_eqb s x || str_mem s r
  end.

(* ASCII character classes. *)
Definition is_digit (c : char) : bool := (48 <=? c) && (c <=? 57).
Definition is_lower (c : char) : bool := (97 <=? c) && (c <=? 122).
Definition is_upper (c : char) : bool := (65 <=? c) && (c <=? 90).
Definition is_alpha (c : char) : bool := is_lower c || is_upper c.
Definition is_alnum (c : char) : bool := is_alpha c || is_digit c.
Definition digit_val (c : char) : N := c - 48.

(* Python str.isspace()/strip() for ASCII plus the listed extra code points:
   \t \n \v \f \r FS GS RS US space, NEL(0x85), NBSP(0xa0), and the Unicode
   Zs/Zl/Zp blanks. *)
Definition is_space (c : char) : bool :=
  ((9 <=? c) && (c <=? 13)) || ((28 <=? c) && (c <=? 32)) ||
  (c =? 133) || (c =? 160) || (c =? 5760) ||
  ((8192 <=? c) && (c <=? 8202)) || (c =? 8232) || (c =? 8233) ||
  (c =? 8239) || (c =? 8287) || (c =? 12288).

Fixpoint lstrip (s : str) : str :=
  match s with
  | c :: r => if is_space c then lstrip r else s
  | [] => []
  end.
Definition rstrip (s : str) : str := rev (lstrip (rev s)).
Definition strip (s : str) : str := rstrip (lstrip s).

(* Rendering of numbers (used for canonical output of model entry points). *)
Fixpoint N_dec_fuel (fuel : nat) (n : N) (acc : str) : str :=
  match fuel with
  | O => acc
  | S f =>
      let d := 48 + N.modulo n 10 in
      let q := N.div n 10 in
      if q =? 0 then d :: acc else N_dec_fuel f q (d :: acc)
  end.
Definition N_dec (n : N) : str := N_dec_fuel (S (N.size_nat n)) n [].

Definition Z_dec (z : Z) : str :=
  match z with
  | Z0 => [48]
  | Zpos p => N_dec (Npos p)
  | Zneg p => 45 :: N_dec (Npos p)
  end.

Definition bool_str (b : bool) : str := if b then [84] else [70]. (* T / F *)

Fixpoint join (sep : str) (l : list str) : str :=
  match l with
  | [] => []
  | [x] => x
  | x :: r => x ++ sep ++ join sep r
  end.

(* digits -> N (Python int() of an ASCII digit run) *)
Definition digits_val (s : str) : N :=
  fold_left (fun a c => a * 10 + digit_val c) s 0.
