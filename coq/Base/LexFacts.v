(* Base/LexFacts.v — order facts about lex_cmp, str_cmp, str_eqb. *)
From MV Require Import Base.Strs.
From Coq Require Import Lia.

Section Lex.
  Context {A : Type} (cmp : A -> A -> comparison).
  Hypothesis cmp_eq : forall a b, cmp a b = Eq -> a = b.
  Hypothesis cmp_refl : forall a, cmp a a = Eq.
  Hypothesis cmp_antisym : forall a b, cmp b a = CompOpp (cmp a b).
  Hypothesis cmp_trans : forall a b c, cmp a b = Lt -> cmp b c = Lt -> cmp a c = Lt.

  Lemma lex_refl : forall a, lex_cmp cmp a a = Eq.
  Proof. induction a as [|x a IH]; simpl; [reflexivity|]. rewrite cmp_refl. exact IH. Qed.

  Lemma lex_eq : forall a b, lex_cmp cmp a b = Eq -> a = b.
  Proof.
    induction a as [|x a IH]; intros [|y b] H; simpl in H; try discriminate; [reflexivity|].
    destruct (cmp x y) eqn:E; try discriminate.
    apply cmp_eq in E. subst. f_equal. apply IH. exact H.
  Qed.

  Lemma lex_antisym : forall a b, lex_cmp cmp b a = CompOpp (lex_cmp cmp a b).
  Proof.
    induction a as [|x a IH]; intros [|y b]; simpl; try reflexivity.
    rewrite (cmp_antisym x y). destruct (cmp x y); simpl; auto.
  Qed.

  Lemma lex_trans : forall a b c,
      lex_cmp cmp a b = Lt -> lex_cmp cmp b c = Lt -> lex_cmp cmp a c = Lt.
  Proof.
    induction a as [|x a IH]; intros [|y b] [|z c] H1 H2; simpl in *; try discriminate; try reflexivity.
    destruct (cmp x y) eqn:E1; try discriminate.
    - apply cmp_eq in E1. subst y.
      destruct (cmp x z) eqn:E2; try discriminate; [|reflexivity].
      eapply IH; eassumption.
    - destruct (cmp y z) eqn:E2; try discriminate.
      + apply cmp_eq in E2. subst z. rewrite E1. reflexivity.
      + rewrite (cmp_trans _ _ _ E1 E2). reflexivity.
  Qed.

  (* a proper extension of a list is greater *)
  Lemma lex_prefix_lt : forall a x r, lex_cmp cmp a (a ++ x :: r) = Lt.
  Proof. induction a as [|y a IH]; intros; simpl; [reflexivity|]. rewrite cmp_refl. apply IH. Qed.

  (* first differing component decides *)
  Lemma lex_first_diff : forall p x y a b,
      cmp x y <> Eq -> lex_cmp cmp (p ++ x :: a) (p ++ y :: b) = cmp x y.
  Proof.
    induction p as [|z p IH]; intros; simpl.
    - destruct (cmp x y); congruence.
    - rewrite cmp_refl. apply IH. assumption.
  Qed.
End Lex.

Lemma Ncmp_antisym : forall a b : N, N.compare b a = CompOpp (N.compare a b).
Proof. intros. apply N.compare_antisym. Qed.
Lemma Ncmp_trans : forall a b c : N, N.compare a b = Lt -> N.compare b c = Lt -> N.compare a c = Lt.
Proof. intros a b c. rewrite !N.compare_lt_iff. lia. Qed.

Lemma str_cmp_refl a : str_cmp a a = Eq.
Proof. apply lex_refl. apply N.compare_refl. Qed.
Lemma str_cmp_eq a b : str_cmp a b = Eq -> a = b.
Proof. apply lex_eq. apply N.compare_eq. Qed.
Lemma str_cmp_antisym a b : str_cmp b a = CompOpp (str_cmp a b).
Proof. apply lex_antisym. apply Ncmp_antisym. Qed.
Lemma str_cmp_trans a b c : str_cmp a b = Lt -> str_cmp b c = Lt -> str_cmp a c = Lt.
Proof. apply lex_trans; [apply N.compare_eq | apply Ncmp_trans]. Qed.

Lemma str_eqb_eq a b : str_eqb a b = true <-> a = b.
Proof.
  revert b; induction a as [|x a IH]; intros [|y b]; simpl; split; intro H; try discriminate; try reflexivity.
  - apply andb_true_iff in H. destruct H as [H1 H2]. apply N.eqb_eq in H1. apply IH in H2. congruence.
  - inversion H; subst. rewrite N.eqb_refl. simpl. apply IH. reflexivity.
Qed.
Lemma str_eqb_refl a : str_eqb a a = true.
Proof. apply str_eqb_eq. reflexivity. Qed.

Lemma prefixb_app p s : prefixb p (p ++ s) = true.
Proof. induction p as [|x p IH]; simpl; [reflexivity|]. rewrite N.eqb_refl. exact IH. Qed.
Lemma prefixb_spec p s : prefixb p s = true <-> exists r, s = p ++ r.
Proof.
  revert s; induction p as [|x p IH]; intros s; simpl.
  - split; [intros _; exists s; reflexivity | reflexivity].
  - destruct s as [|y s]; [split; [discriminate | intros [r H]; discriminate]|].
    rewrite andb_true_iff, N.eqb_eq, IH. split.
    + intros [-> [r ->]]. exists r. reflexivity.
    + intros [r H]. inversion H; subst. split; [reflexivity | exists r; reflexivity].
Qed.
Lemma drop_app p s : drop (length p) (p ++ s) = s.
Proof. induction p as [|x p IH]; simpl; [destruct s; reflexivity|exact IH]. Qed.
