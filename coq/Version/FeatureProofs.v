(* Version/FeatureProofs.v — theorems about the FeatureNew/FeatureDeprecated glue
   (Version/Feature.v) on top of the range algebra (Version/Proofs.v). *)
From MV Require Import Base.Strs Base.LexFacts Version.Model Version.Proofs Version.Feature.
From Coq Require Import Lia.
Open Scope N_scope.

(* ------------------------------------------------------------------ *)
(* version_compare_condition_with_min                                   *)

(* answering True is sound for every range: all admitted versions are >= minimum *)
Theorem cwm_sound r fv x :
  cwm_range r fv = true -> contains r x = true -> vop OpGe x (tokenize fv) = true.
Proof.
  unfold cwm_range. intros Hc Hx. apply contains_spec in Hx. destruct Hx as [He [Hlo _]].
  destruct (rmin r) as [m|] eqn:Em; [|congruence].
  apply vop_iff in Hc. simpl in Hc. apply vop_iff. simpl.
  unfold lo_ok in Hlo. destruct (rmin_eq r); VT.order.
Qed.

Lemma ge_nil v : vop OpGe [] v = true -> v = [].
Proof. destruct v as [|c v]; [reflexivity|]. vm_compute. discriminate. Qed.

(* the range has a least element the answer can be read from: a closed lower
   bound that is itself admitted, or no lower bound with the empty version
   admitted (and a non-trivial minimum), or the range is flagged empty *)
Definition exact_guard (r : range) (fv : str) : bool :=
  match rmin r with
  | Some m => rmin_eq r && contains r m
  | None => rempty r || (contains r [] && negb (veq (tokenize fv) []))
  end.

Theorem cwm_exact r fv : exact_guard r fv = true ->
  (cwm_range r fv = true <-> forall x, contains r x = true -> vop OpGe x (tokenize fv) = true).
Proof.
  intro G. split; [intros H x; apply cwm_sound; exact H|].
  intro H. unfold exact_guard, cwm_range in *. destruct (rmin r) as [m|].
  - apply andb_true_iff in G. destruct G as [_ Gm]. specialize (H m Gm).
    rewrite le_ge_swap. exact H.
  - destruct (rempty r); [reflexivity|]. simpl in G.
    apply andb_true_iff in G. destruct G as [G1 G2]. specialize (H [] G1).
    apply ge_nil in H. rewrite H in G2. discriminate.
Qed.

(* without the guard the converse fails: "< 0" admits only versions >= the
   empty version, yet the answer is False *)
Theorem cwm_complete_refuted :
  exists r fv, (forall x, contains r x = true -> vop OpGe x (tokenize fv) = true)
               /\ cwm_range r fv = false.
Proof.
  exists (check_to_range [s2l "<0"] range_any), [].
  split; [|vm_compute; reflexivity].
  intros x _. apply vop_iff. simpl. apply ver_le_iff. destruct x; vm_compute; discriminate.
Qed.

(* The substantial gap: an exclusive lower bound.  Every parsed version above "1"
   is >= "1A" (the least alphabetic component is "A"), so all versions admitted by
   '>1' are >= '1A', yet the answer for minimum '1A' is False. *)
Definition comp_wf (c : comp) : Prop :=
  match c with CNum _ => True | CAlpha a => a <> [] /\ forallb is_alpha a = true end.
Definition st_wf (st : tstate) : Prop :=
  match st with TAlpha r => r <> [] /\ forallb is_alpha r = true | _ => True end.
Lemma forallb_rev (p : char -> bool) l : forallb p l = true -> forallb p (rev l) = true.
Proof.
  intro H. apply forallb_forall. intros x Hx. apply in_rev in Hx.
  exact (proj1 (forallb_forall p l) H x Hx).
Qed.
Lemma tflush_wf st : st_wf st -> Forall comp_wf (tflush st).
Proof.
  destruct st as [|a|r]; simpl; intro H; repeat constructor.
  - destruct H as [H _]. intro E. apply H. destruct r; [reflexivity|].
    simpl in E. destruct (rev r); discriminate.
  - apply forallb_rev. apply H.
Qed.
(* alphabetic components of a parsed version are non-empty runs of ASCII letters *)
Lemma tok_wf s : forall st, st_wf st -> Forall comp_wf (tok s st).
Proof.
  induction s as [|c r IH]; intros st Hst; [apply tflush_wf; exact Hst|].
  cbn [tok]. destruct (is_udigit c).
  - destruct st as [|a|ra]; cbv iota beta.
    + apply Forall_app. split; [constructor | apply IH; exact I].
    + apply IH. exact I.
    + apply Forall_app. split; [apply tflush_wf; exact Hst | apply IH; exact I].
  - destruct (is_alpha c) eqn:Ea.
    + assert (W : forall ra, st_wf (TAlpha ra) -> st_wf (TAlpha (c :: ra))).
      { intros ra [_ H2]. split; [discriminate|]. simpl. rewrite Ea. exact H2. }
      destruct st as [|a|ra]; cbv iota beta.
      * apply Forall_app. split; [constructor|]. apply IH. split; [discriminate|]. simpl. rewrite Ea. reflexivity.
      * apply Forall_app. split; [apply tflush_wf; exact I|]. apply IH. split; [discriminate|]. simpl. rewrite Ea. reflexivity.
      * apply IH. apply W. exact Hst.
    + apply Forall_app. split; [apply tflush_wf; exact Hst | apply IH; exact I].
Qed.
Lemma alpha_ge_A c : is_alpha c = true -> 65 <= c.
Proof.
  unfold is_alpha, is_lower, is_upper. intro H. apply orb_true_iff in H.
  destruct H as [H|H]; apply andb_true_iff in H; destruct H as [H _]; apply N.leb_le in H; lia.
Qed.
Lemma above_one_ge_1A x : Forall comp_wf x ->
  vop OpGt x [CNum 1] = true -> vop OpGe x [CNum 1; CAlpha [65]] = true.
Proof.
  intros W H. unfold vop in *. unfold vcompare in *.
  destruct x as [|c x]; [discriminate|].
  cbn [lex_cmp] in *. destruct c as [n|a]; cbn [comp_cmp] in *; [|discriminate].
  destruct (N.compare n 1) eqn:E; [|discriminate|reflexivity].
  destruct x as [|c' x]; [discriminate|]. cbn [lex_cmp].
  destruct c' as [n'|a]; cbn [comp_cmp]; [reflexivity|].
  inversion W as [|? ? _ W']; subst. inversion W' as [|? ? Hw _]; subst. simpl in Hw. destruct Hw as [Hne Hal].
  destruct a as [|a0 a]; [congruence|]. simpl in Hal. apply andb_true_iff in Hal. destruct Hal as [Ha _].
  apply alpha_ge_A in Ha. unfold str_cmp. cbn [lex_cmp].
  destruct (N.compare a0 65) eqn:E2.
  - destruct a; [destruct x; reflexivity | reflexivity].
  - change (a0 < 65) in E2. lia.
  - reflexivity.
Qed.
Theorem cwm_open_min_gap :
  exists pv fv, (forall s, contains (project_range pv) (tokenize s) = true ->
                           vop OpGe (tokenize s) (tokenize fv) = true)
                /\ cwm_range (project_range pv) fv = false.
Proof.
  exists (s2l ">1"), (s2l "1A"). split; [|vm_compute; reflexivity].
  intros s Hc. change (tokenize (s2l "1A")) with [CNum 1; CAlpha [65]].
  apply above_one_ge_1A; [apply tok_wf; exact I|].
  change (project_range (s2l ">1")) with (mkRange (Some [CNum 1]) false None false false) in Hc.
  unfold contains in Hc. cbn [rempty rmin rmin_eq rmax] in Hc.
  destruct (vop OpLe (tokenize s) [CNum 1]) eqn:E; [discriminate|].
  apply vopF in E. simpl in E. apply vop_iff. simpl.
  destruct (VO.lt_total (tokenize s) [CNum 1]) as [L|[L|L]]; [| |exact L]; exfalso; apply E; VT.order.
Qed.

(* ------------------------------------------------------------------ *)
(* the ranges meson builds                                              *)

Lemma project_range_ge w : no_op_prefix w = true ->
  project_range (c_gt :: c_eq :: w) = mkRange (Some (tokenize (strip w))) true None false false.
Proof.
  intro Hw. unfold project_range, check_to_range. cbn [fold_left]. unfold check_step.
  change (c_gt :: c_eq :: w) with ([c_gt; c_eq] ++ w).
  rewrite (extract_cmpop_spelling [c_gt; c_eq] OpGe w); [reflexivity | simpl; auto | exact Hw].
Qed.

(* project(meson_version: '>=W') : FeatureNew(v) is accepted iff v <= W, iff every
   version satisfying the constraint is >= v *)
Theorem feature_new_ge_exact w fv : no_op_prefix w = true ->
  let tv := project_range (c_gt :: c_eq :: w) in
  cwm_range tv fv = vop OpLe (tokenize fv) (tokenize (strip w)) /\
  (cwm_range tv fv = true <->
   forall x, sat x (c_gt :: c_eq :: w) = true -> vop OpGe x (tokenize fv) = true).
Proof.
  intros Hw tv. unfold tv. rewrite (project_range_ge w Hw). split; [reflexivity|].
  assert (Hsat : forall x, sat x (c_gt :: c_eq :: w) = vop OpGe x (tokenize (strip w))).
  { intro x. unfold sat. change (c_gt :: c_eq :: w) with ([c_gt; c_eq] ++ w).
    rewrite (extract_cmpop_spelling [c_gt; c_eq] OpGe w); [reflexivity | simpl; auto | exact Hw]. }
  unfold cwm_range. cbn [rmin]. split.
  - intros H x Hx. rewrite Hsat in Hx. apply vop_iff in H. apply vop_iff in Hx. apply vop_iff.
    simpl in *. VT.order.
  - intro H. rewrite le_ge_swap. apply H. rewrite Hsat. rewrite <- le_ge_swap. apply Proofs.le_refl.
Qed.

Lemma contains_fold_isect conds x : forall start,
  contains start x = true ->
  Forall (fun cs => forallb (sat x) cs = true) conds ->
  contains (fold_left (fun r cs => intersect r (check_to_range cs range_any)) conds start) x = true.
Proof.
  induction conds as [|cs r IH]; intros start Hs Hc; simpl; [exact Hs|].
  inversion Hc as [|? ? H1 H2]; subst. apply IH; [|exact H2].
  rewrite intersect_spec, Hs. simpl. apply check_to_range_sound; [apply contains_any | exact H1].
Qed.
Lemma fold_isect_contains conds x : forall start,
  contains (fold_left (fun r cs => intersect r (check_to_range cs range_any)) conds start) x = true ->
  contains start x = true /\
  Forall (fun cs => forallb (fun c => is_ne_check c || sat x c) cs = true) conds.
Proof.
  induction conds as [|cs r IH]; intros start H; simpl in *; [auto|].
  apply IH in H. destruct H as [H1 H2]. rewrite intersect_spec in H1.
  apply andb_true_iff in H1. destruct H1 as [Ha Hb]. split; [exact Ha|].
  constructor; [|exact H2]. apply check_to_range_complete in Hb. apply Hb.
Qed.

(* every version satisfying the project constraint and all enclosing conditions
   lies in the target range ... *)
Theorem nested_range_sound pv conds x :
  sat x pv = true -> Forall (fun cs => forallb (sat x) cs = true) conds ->
  contains (nested_range pv conds) x = true.
Proof.
  intros Hp Hc. unfold nested_range. apply contains_fold_isect; [|exact Hc].
  unfold project_range. apply check_to_range_sound; [apply contains_any|]. simpl. rewrite Hp. reflexivity.
Qed.
(* ... and the target range holds nothing that violates one of the non-!= constraints *)
Theorem nested_range_complete pv conds x :
  contains (nested_range pv conds) x = true ->
  (is_ne_check pv || sat x pv) = true /\
  Forall (fun cs => forallb (fun c => is_ne_check c || sat x c) cs = true) conds.
Proof.
  unfold nested_range, project_range. intro H. apply fold_isect_contains in H. destruct H as [H1 H2].
  split; [|exact H2]. apply check_to_range_complete in H1. destruct H1 as [_ H1]. simpl in H1.
  rewrite andb_true_r in H1. exact H1.
Qed.

(* ------------------------------------------------------------------ *)
(* feature_version normalisation                                        *)

Fixpoint dot0s (k : nat) : str := match k with O => [] | S k => 46 :: 48 :: dot0s k end.

Lemma dot0s_snoc k : dot0s k ++ [46; 48] = dot0s (S k).
Proof. induction k as [|k IH]; [reflexivity|]. simpl in *. rewrite IH. reflexivity. Qed.
Lemma strip_dot0_rev_spec n : forall r, (length r <= n)%nat ->
  exists k, rev r = rev (strip_dot0_rev r) ++ dot0s k.
Proof.
  induction n as [|n IH]; intros r Hl.
  - destruct r; [|simpl in Hl; lia]. exists O. reflexivity.
  - destruct r as [|a [|b r']]; try (exists O; simpl; rewrite ?app_nil_r; reflexivity).
    cbn [strip_dot0_rev]. destruct ((a =? 48) && (b =? 46)) eqn:E.
    + apply andb_true_iff in E. destruct E as [Ea Eb]. apply N.eqb_eq in Ea. apply N.eqb_eq in Eb. subst.
      destruct (IH r') as [k Hk]; [simpl in Hl; lia|]. exists (S k).
      simpl rev. rewrite Hk. rewrite <- !app_assoc. f_equal. apply dot0s_snoc.
    + exists O. rewrite app_nil_r. reflexivity.
Qed.
Lemma feature_norm_spec fv : exists k, fv = feature_norm fv ++ dot0s k.
Proof.
  unfold feature_norm. destruct (strip_dot0_rev_spec (length (rev fv)) (rev fv) (le_n _)) as [k Hk].
  rewrite rev_involutive in Hk. exists k. exact Hk.
Qed.
Lemma tokenize_dot0s k : forall p, tokenize (p ++ dot0s k) = tokenize p ++ repeat (CNum 0) k.
Proof.
  induction k as [|k IH]; intro p; simpl; [rewrite !app_nil_r; reflexivity|].
  rewrite (tokenize_app_sep p 46 _ dot_is_sep). f_equal.
  change (48 :: dot0s k) with ([48] ++ dot0s k).
  rewrite tokenize_digits_cons; [|discriminate|reflexivity|destruct k; simpl; [exact I|vm_compute; reflexivity]].
  specialize (IH []). simpl in IH. rewrite IH. reflexivity.
Qed.
(* the version use() compares is the given one without its trailing zero components *)
Theorem feature_norm_tokens fv :
  exists k, tokenize fv = tokenize (feature_norm fv) ++ repeat (CNum 0) k.
Proof.
  destruct (feature_norm_spec fv) as [k Hk]. exists k. rewrite Hk at 1. apply tokenize_dot0s.
Qed.
Theorem feature_norm_le fv : vop OpLe (tokenize (feature_norm fv)) (tokenize fv) = true.
Proof.
  destruct (feature_norm_tokens fv) as [[|k] Hk]; rewrite Hk; simpl.
  - rewrite app_nil_r. apply Proofs.le_refl.
  - rewrite le_is_lt_or_eq, longer_is_greater. reflexivity.
Qed.

(* ------------------------------------------------------------------ *)
(* use(): when is the usage warning printed                             *)

Theorem use_warns_iff k major tv reg name ver loc :
  snd (use k major tv reg name ver loc) = true <->
  (tv <> TgNone \/ k = FBroken) /\
  check_version k major tv (feature_norm ver) = false /\
  registered reg ver name loc = false.
Proof.
  unfold use. split.
  - destruct tv, k; cbn [unconditional emit_notice negb andb]; rewrite ?andb_true_r, ?andb_false_r;
      try (simpl; discriminate);
      repeat match goal with |- context [if ?c then _ else _] => destruct c eqn:? end;
      simpl; intro; try discriminate; repeat split; auto; try (left; discriminate).
  - intros ([Ht|Hk] & Hc & Hr).
    + destruct tv; [congruence| |]; destruct k; cbn [unconditional emit_notice negb]; rewrite Hc, Hr; reflexivity.
    + subst k. destruct tv; cbn [unconditional emit_notice negb]; rewrite Hc, Hr; reflexivity.
Qed.

(* End to end, FeatureNew: inside nested version_compare conditions of a project
   with meson_version pv, if no usage warning is printed for a not yet registered
   feature, every meson version that satisfies pv and the enclosing conditions is
   >= the (normalised) feature version. *)
Theorem feature_new_suppressed_sound major pv conds reg name ver loc x :
  registered reg ver name loc = false ->
  snd (use FNew major (TgRange (nested_range pv conds)) reg name ver loc) = false ->
  sat x pv = true -> Forall (fun cs => forallb (sat x) cs = true) conds ->
  vop OpGe x (tokenize (feature_norm ver)) = true.
Proof.
  intros Hr Hu Hp Hc.
  destruct (check_version FNew major (TgRange (nested_range pv conds)) (feature_norm ver)) eqn:E.
  - simpl in E. eapply cwm_sound; [exact E|]. apply nested_range_sound; assumption.
  - assert (W : snd (use FNew major (TgRange (nested_range pv conds)) reg name ver loc) = true).
    { apply use_warns_iff. repeat split; auto. left. discriminate. }
    congruence.
Qed.
(* FeatureDeprecated: the deprecation warning is printed only if every admitted
   version already has the deprecation *)
Theorem feature_deprecated_warns_sound major pv conds reg name ver loc x :
  snd (use FDeprecated major (TgRange (nested_range pv conds)) reg name ver loc) = true ->
  sat x pv = true -> Forall (fun cs => forallb (sat x) cs = true) conds ->
  vop OpGe x (tokenize (feature_norm ver)) = true.
Proof.
  intros Hu Hp Hc. apply use_warns_iff in Hu. destruct Hu as (_ & E & _).
  simpl in E. apply negb_false_iff in E.
  eapply cwm_sound; [exact E|]. apply nested_range_sound; assumption.
Qed.
(* project(meson_version: '>=W'), top level: the FeatureNew warning is printed iff
   the feature version (normalised) is > W, iff some admitted version lacks it *)
Theorem feature_new_ge_warns_iff major w name ver loc : no_op_prefix w = true ->
  snd (use FNew major (TgRange (project_range (c_gt :: c_eq :: w))) [] name ver loc) =
  vop OpGt (tokenize (feature_norm ver)) (tokenize (strip w)).
Proof.
  intro Hw. apply eq_true_iff_eq. rewrite use_warns_iff. cbn [check_version registered].
  destruct (feature_new_ge_exact w (feature_norm ver) Hw) as [-> _].
  split.
  - intros (_ & H & _). apply vopF in H. simpl in H. apply vop_iff. simpl.
    destruct (VO.lt_total (tokenize (strip w)) (tokenize (feature_norm ver))) as [L|[L|L]]; [exact L| |];
      exfalso; apply H; VT.order.
  - intro H. apply vop_iff in H. simpl in H. repeat split; [left; discriminate|].
    destruct (vop OpLe _ _) eqn:E; [|reflexivity]. apply vop_iff in E. simpl in E. exfalso. VT.order.
Qed.

(* report(): with the version normalised as in use(), a feature whose usage
   warning was printed is listed under the warning heading, and one recorded
   for a notice only is listed under the notice heading ... *)
Theorem report_consistent_with_use k major tv reg name ver loc :
  registered reg ver name loc = false -> (tv <> TgNone \/ k = FBroken) ->
  snd (use k major tv reg name ver loc) = negb (report_notice k major tv ver).
Proof.
  intros Hr Ht. unfold report_notice. apply eq_true_iff_eq. rewrite use_warns_iff, negb_true_iff. tauto.
Qed.
(* ... which the code as written does not guarantee: '>=0.46' and a feature
   deprecated in '0.46.0' print the usage warning and list it as future-deprecated *)
Theorem report_asis_inconsistent :
  exists k major tv name ver loc,
    snd (use k major tv [] name ver loc) = true /\ report_notice_asis k major tv ver = true.
Proof.
  exists FDeprecated, (s2l "1"), (TgRange (project_range (s2l ">=0.46"))), (s2l "f"), (s2l "0.46.0"), [].
  vm_compute. auto.
Qed.
