(* Version/Unicode.v — the character classes Python's `re` and `int()` use on str
   patterns, as tables over code points.  No proofs in this file.

   `\d` (sre category UNI_DIGIT = Py_UNICODE_ISDECIMAL) matches every code point of
   general category Nd; int() maps each of them to its decimal value
   (Py_UNICODE_TODECIMAL), independently per character, so digits of different
   scripts may be mixed inside one run ('1' followed by ARABIC-INDIC ONE is 11).
   In Unicode 15.0 (CPython 3.12) Nd is 68 blocks of ten consecutive code points
   valued 0..9 in order (the mathematical digits 1D7CE..1D7FF are five such blocks).
   harness/check_C19.py sweeps all 0x110000 code points against the running
   interpreter's re/int on every run, so a Python with another Unicode version is
   reported as a broken correspondence rather than silently trusted. *)
From MV Require Export Base.Strs.
Open Scope N_scope.

Definition udigit_blocks : list N :=
  [48; 1632; 1776; 1984; 2406; 2534; 2662; 2790; 2918; 3046; 3174; 3302; 3430; 3558;
   3664; 3792; 3872; 4160; 4240; 6112; 6160; 6470; 6608; 6784; 6800; 6992; 7088; 7232;
   7248; 42528; 43216; 43264; 43472; 43504; 43600; 44016; 65296; 66720; 68912; 69734;
   69872; 69942; 70096; 70384; 70736; 70864; 71248; 71360; 71472; 71904; 72016; 72784;
   73040; 73120; 73552; 92768; 92864; 93008; 120782; 120792; 120802; 120812; 120822;
   123200; 123632; 124144; 125264; 130032].

(* decimal value of [c] if it lies in one of the blocks *)
Fixpoint ublock (c : char) (l : list N) : option N :=
  match l with
  | [] => None
  | b :: r => if (b <=? c) && (c <? b + 10) then Some (c - b) else ublock c r
  end.

Definition udigit (c : char) : option N := ublock c udigit_blocks.
Definition is_udigit (c : char) : bool :=
  match udigit c with Some _ => true | None => false end.
Definition udigit_val (c : char) : N :=
  match udigit c with Some v => v | None => 0 end.

(* int() of a run of decimal digits *)
Definition udigits_val (s : str) : N :=
  fold_left (fun a c => a * 10 + udigit_val c) s 0.
