(* Version/Feature.v — the callers of the range algebra: FeatureNew /
   FeatureDeprecated / FeatureBroken (mesonbuild/interpreterbase/decorators.py:656-880)
   and the way project(meson_version:) and `if meson.version().version_compare(...)`
   blocks build the target range (interpreter.py:546-549, interpreterbase.py:319-331,
   primitives/string.py:212-233).  No proofs in this file. *)
From MV Require Export Version.Model.
Open Scope N_scope.

(* decorators.py:668-669
     while self.feature_version.endswith('.0'): self.feature_version = self.feature_version[:-2]
   on the reversed string: drop leading "0." pairs *)
Fixpoint strip_dot0_rev (r : str) : str :=
  match r with
  | a :: t => match t with
              | b :: r' => if (a =? 48) && (b =? 46) then strip_dot0_rev r' else r
              | [] => r
              end
  | [] => r
  end.
Definition feature_norm (fv : str) : str := rev (strip_dot0_rev (rev fv)).

(* MesonVersionTarget = Range | NoProjectVersion | None (project() not evaluated yet) *)
Inductive target := TgNone | TgNoVersion | TgRange (r : range).

Inductive fkind := FNew | FDeprecated | FBroken.
Definition unconditional (k : fkind) : bool := match k with FBroken => true | _ => false end.
Definition emit_notice (k : fkind) : bool := match k with FDeprecated => true | _ => false end.

(* check_version of the three classes (decorators.py:773-781, 817-824, 866-868);
   [major] is coredata.version.split('.')[0] *)
Definition check_version (k : fkind) (major : str) (tv : target) (fv : str) : bool :=
  match k with
  | FNew =>
      match tv with
      | TgRange r => cwm_range r fv
      | _ => version_compare fv (c_lt :: major ++ [46; 48])
      end
  | FDeprecated =>
      match tv with
      | TgRange r => negb (cwm_range r fv)
      | _ => false
      end
  | FBroken => false
  end.

(* feature_registry[subproject] of one class: (feature_version_for_msg, (name, location))
   in registration order *)
Definition registry := list (str * (str * str)).
Fixpoint registered (reg : registry) (ver name loc : str) : bool :=
  match reg with
  | [] => false
  | (v, (n, l)) :: r => (str_eqb v ver && str_eqb n name && str_eqb l loc) || registered r ver name loc
  end.

(* FeatureCheckBase.use : decorators.py:691-717.  Result: new registry, and whether
   log_usage_warning was called. *)
Definition use (k : fkind) (major : str) (tv : target) (reg : registry) (name ver loc : str)
  : registry * bool :=
  let fv := feature_norm ver in
  match tv, unconditional k with
  | TgNone, false => (reg, false)
  | _, _ =>
      if check_version k major tv fv && negb (emit_notice k) then (reg, false)
      else if registered reg ver name loc then (reg, false)
      else
        let reg' := reg ++ [(ver, (name, loc))] in
        if check_version k major tv fv then (reg', false) else (reg', true)
  end.

(* FeatureCheckBase.report : decorators.py:719-737 sorts a registered version under the
   notice (true) or the warning (false) heading.  As written it passes the version as
   registered (feature_version_for_msg), not the normalised one use() compared:
   [report_notice_asis]; pending/C19-report-version-normalisation.diff normalises it:
   [report_notice]. *)
Definition report_notice_asis (k : fkind) (major : str) (tv : target) (ver : str) : bool :=
  check_version k major tv ver.
Definition report_notice (k : fkind) (major : str) (tv : target) (ver : str) : bool :=
  check_version k major tv (feature_norm ver).

(* The target range inside nested `if meson.version().version_compare(cs...)` blocks:
   handle_meson_version stores version_check_to_range([pv]); evaluate_if replaces it,
   for the duration of the block, by prev.intersect(version_check_to_range(cs)). *)
Definition project_range (pv : str) : range := check_to_range [pv] range_any.
Definition nested_range (pv : str) (conds : list (list str)) : range :=
  fold_left (fun r cs => intersect r (check_to_range cs range_any)) conds (project_range pv).
(* the "Conditional on version ... always evaluates to" warning of evaluate_if *)
Definition conditional_always (prev : range) (cs : list str) : option bool :=
  always prev (check_to_range cs range_any).
