(* Version/Search.v — search_version : mesonbuild/utils/universal.py:1207-1247.
   No proofs in this file.

   Two regular expressions are tried in turn with re.search (leftmost match, Python's
   backtracking order).  For both, at a given start position the first attempt of the
   backtracking matcher (every quantifier at its greedy maximum) is the only one that
   can succeed: whenever a quantifier gives back a character, the next pattern element
   would have to match the character given back - a decimal digit, an ASCII
   alphanumeric, '.' or '-' - where the pattern asks for '.', for '-', or for
   end/whitespace.  The model therefore takes the greedy maximum everywhere; the
   correspondence runs it against the real `re` on texts built from near misses.

   regex 1 (re.VERBOSE):  (?<!(\d|\.)) ( \d{1,2} (\.\d+)+ (-[a-zA-Z0-9]+)? ) (?!\S)
   regex 2:               (\d{1,4}\.\d{1,4}\.?\d{0,4})
   \d = Unicode decimal digit, \S = not str.isspace(), [a-zA-Z0-9] = ASCII. *)
From MV Require Export Version.Model.
Open Scope N_scope.

(* p* greedy *)
Fixpoint span (p : char -> bool) (s : str) : str * str :=
  match s with
  | c :: r => if p c then let '(a, b) := span p r in (c :: a, b) else ([], s)
  | [] => ([], [])
  end.
(* p{0,n} greedy *)
Fixpoint take_upto (n : nat) (p : char -> bool) (s : str) : str * str :=
  match n, s with
  | S n', c :: r => if p c then let '(a, b) := take_upto n' p r in (c :: a, b) else ([], s)
  | _, _ => ([], s)
  end.

Definition next_is_digit (s : str) : bool := match s with d :: _ => is_udigit d | [] => false end.

(* (\.\d+)* greedy; [indig]: the previous character was a digit of a group *)
Fixpoint dot_groups (indig : bool) (s : str) : str * str :=
  match s with
  | [] => ([], [])
  | c :: r =>
      if indig && is_udigit c then let '(m, t) := dot_groups true r in (c :: m, t)
      else if (c =? 46) && next_is_digit r then let '(m, t) := dot_groups true r in (c :: m, t)
      else ([], s)
  end.

(* (-[a-zA-Z0-9]+)? greedy *)
Definition hyphen_suffix (t : str) : str * str :=
  match t with
  | c :: t' =>
      if c =? 45 then
        let '(al, u) := span is_alnum t' in
        match al with [] => ([], t) | _ => (c :: al, u) end
      else ([], t)
  | [] => ([], t)
  end.

(* (?!\S) *)
Definition at_space_or_end (s : str) : bool := match s with [] => true | c :: _ => is_space c end.
(* (?<!(\d|\.)) ; None = start of the text *)
Definition lookbehind_ok (prev : option char) : bool :=
  match prev with None => true | Some p => negb (is_udigit p || (p =? 46)) end.

(* regex 1 anchored at the current position *)
Definition sv1_at (prev : option char) (s : str) : option str :=
  if lookbehind_ok prev then
    let '(d, r) := take_upto 2 is_udigit s in
    match d with
    | [] => None
    | _ =>
        let '(g, t) := dot_groups false r in
        match g with
        | [] => None
        | _ =>
            let '(suf, u) := hyphen_suffix t in
            if at_space_or_end u then Some (d ++ g ++ suf) else None
        end
    end
  else None.

Fixpoint search1 (prev : option char) (s : str) : option str :=
  match sv1_at prev s with
  | Some m => Some m
  | None => match s with [] => None | c :: r => search1 (Some c) r end
  end.

(* regex 2 anchored at the current position *)
Definition sv2_at (s : str) : option str :=
  let '(a, r) := take_upto 4 is_udigit s in
  match a with
  | [] => None
  | _ =>
      match r with
      | c :: r1 =>
          if c =? 46 then
            let '(b, r2) := take_upto 4 is_udigit r1 in
            match b with
            | [] => None
            | _ =>
                let '(dot, r3) := match r2 with
                                  | c2 :: r3 => if c2 =? 46 then ([c2], r3) else ([], r2)
                                  | [] => ([], r2)
                                  end in
                let '(e, _) := take_upto 4 is_udigit r3 in
                Some (a ++ c :: b ++ dot ++ e)
            end
          else None
      | [] => None
      end
  end.

Fixpoint search2 (s : str) : option str :=
  match sv2_at s with
  | Some m => Some m
  | None => match s with [] => None | _ :: r => search2 r end
  end.

Definition unknown_version : str := s2l "unknown version".

Definition search_version (text : str) : str :=
  match search1 None text with
  | Some m => m
  | None => match search2 text with Some m => m | None => unknown_version end
  end.
