(* Version/SearchProofs.v — what search_version (Version/Search.v) returns. *)
From MV Require Import Base.Strs Base.LexFacts Version.Model Version.Search Version.Proofs.
From Coq Require Import Lia.
Open Scope N_scope.

(* ------------------------------------------------------------------ *)
(* the scanners split their input                                       *)

Lemma span_app p s : fst (span p s) ++ snd (span p s) = s /\ forallb p (fst (span p s)) = true.
Proof.
  induction s as [|c r [IH1 IH2]]; simpl; [auto|].
  destruct (p c) eqn:E; [|auto]. destruct (span p r) as [a b]. simpl in *. rewrite IH1, E, IH2. auto.
Qed.
Lemma take_upto_app n p : forall s,
  fst (take_upto n p s) ++ snd (take_upto n p s) = s /\
  forallb p (fst (take_upto n p s)) = true /\ (length (fst (take_upto n p s)) <= n)%nat.
Proof.
  induction n as [|n IH]; intro s; [simpl; auto|].
  destruct s as [|c r]; simpl; [auto with arith|].
  destruct (p c) eqn:E; [|simpl; auto with arith].
  destruct (IH r) as (H1 & H2 & H3). destruct (take_upto n p r) as [a b]. simpl in *.
  rewrite H1, E, H2. repeat split; auto. lia.
Qed.
Definition dotdig (c : char) : bool := is_udigit c || (c =? 46).
Lemma dot_groups_app s : forall b,
  fst (dot_groups b s) ++ snd (dot_groups b s) = s /\ forallb dotdig (fst (dot_groups b s)) = true.
Proof.
  induction s as [|c r IH]; intro b; simpl; [auto|].
  destruct (b && is_udigit c) eqn:E1.
  - destruct (IH true) as [H1 H2]. destruct (dot_groups true r) as [m t]. simpl in *. rewrite H1.
    apply andb_true_iff in E1. destruct E1 as [_ E1]. unfold dotdig at 1. rewrite E1. auto.
  - destruct ((c =? 46) && next_is_digit r) eqn:E2; [|simpl; auto].
    destruct (IH true) as [H1 H2]. destruct (dot_groups true r) as [m t]. simpl in *. rewrite H1.
    apply andb_true_iff in E2. destruct E2 as [E2 _]. unfold dotdig at 1. rewrite E2, orb_true_r. auto.
Qed.
(* a non-empty result of the group scanner entered from outside a digit run starts
   with a period followed by a digit *)
Lemma dot_groups_head s g t : dot_groups false s = (g, t) -> g <> [] ->
  exists d g', g = 46 :: d :: g' /\ is_udigit d = true.
Proof.
  destruct s as [|c r]; simpl; [intros H; inversion H; congruence|].
  destruct ((c =? 46) && next_is_digit r) eqn:E; [|intros H; inversion H; congruence].
  apply andb_true_iff in E. destruct E as [E1 E2]. apply N.eqb_eq in E1. subst c.
  destruct r as [|d r']; [discriminate|]. simpl in E2.
  cbn [dot_groups]. rewrite E2. cbn [andb].
  destruct (dot_groups true r') as [m u]. intros H _. inversion H; subst. eauto.
Qed.
Lemma hyphen_suffix_app t :
  fst (hyphen_suffix t) ++ snd (hyphen_suffix t) = t /\
  (fst (hyphen_suffix t) = [] \/
   exists al, fst (hyphen_suffix t) = 45 :: al /\ al <> [] /\ forallb is_alnum al = true).
Proof.
  unfold hyphen_suffix. destruct t as [|c t']; [simpl; auto|].
  destruct (c =? 45) eqn:E; [|simpl; auto]. apply N.eqb_eq in E. subst c.
  destruct (span_app is_alnum t') as [H1 H2]. destruct (span is_alnum t') as [al u]. simpl in *.
  destruct al as [|a al]; [simpl; auto|]. simpl fst. simpl snd. split; [simpl; rewrite <- H1; reflexivity|].
  right. exists (a :: al). repeat split; [discriminate | exact H2].
Qed.

(* ------------------------------------------------------------------ *)
(* shape of a match of the first expression                             *)

Definition sv1_shape (m : str) : Prop :=
  exists d g suf,
    m = d ++ g ++ suf /\ d <> [] /\ all_digits d /\ (length d <= 2)%nat /\
    (exists c g', g = 46 :: c :: g' /\ is_udigit c = true) /\ forallb dotdig g = true /\
    (suf = [] \/ exists al, suf = 45 :: al /\ al <> [] /\ forallb is_alnum al = true).

Theorem sv1_at_spec prev s m : sv1_at prev s = Some m ->
  lookbehind_ok prev = true /\ sv1_shape m /\
  exists rest, s = m ++ rest /\ at_space_or_end rest = true.
Proof.
  unfold sv1_at. destruct (lookbehind_ok prev); [|discriminate]. intro H. split; [reflexivity|].
  destruct (take_upto_app 2 is_udigit s) as (T1 & T2 & T3).
  destruct (take_upto 2 is_udigit s) as [d r]. simpl in *.
  destruct d as [|d0 d]; [discriminate|].
  destruct (dot_groups_app r false) as (G1 & G2). destruct (dot_groups false r) as [g t] eqn:EG. simpl in *.
  destruct g as [|g0 g]; [discriminate|].
  destruct (hyphen_suffix_app t) as (S1 & S2). destruct (hyphen_suffix t) as [suf u]. simpl in *.
  destruct (at_space_or_end u) eqn:EU; [|discriminate]. inversion H; subst m. clear H.
  split.
  - exists (d0 :: d), (g0 :: g), suf. repeat split; auto; try discriminate.
    eapply dot_groups_head; [exact EG | discriminate].
  - exists u. split; [|exact EU]. rewrite <- T1, <- G1, <- S1. simpl. rewrite <- ?app_assoc. simpl. rewrite <- ?app_assoc. reflexivity.
Qed.

(* ------------------------------------------------------------------ *)
(* search: the leftmost position with a match                           *)

Fixpoint prev_of (prev : option char) (pre : str) : option char :=
  match pre with [] => prev | c :: p => prev_of (Some c) p end.

Theorem search1_first s : forall prev m, search1 prev s = Some m ->
  exists pre rest, s = pre ++ rest /\ sv1_at (prev_of prev pre) rest = Some m /\
    forall p1 r1, s = p1 ++ r1 -> (length p1 < length pre)%nat -> sv1_at (prev_of prev p1) r1 = None.
Proof.
  induction s as [|c r IH]; intros prev m; cbn [search1].
  - destruct (sv1_at prev []) eqn:E; [|discriminate]. intro H. inversion H; subst.
    exists [], []. repeat split; auto. intros p1 r1 _ Hl. simpl in Hl. lia.
  - destruct (sv1_at prev (c :: r)) eqn:E.
    + intro H. inversion H; subst. exists [], (c :: r). repeat split; auto. intros p1 r1 _ Hl. simpl in Hl. lia.
    + intro H. destruct (IH _ _ H) as (pre & rest & -> & Hm & Hmin).
      exists (c :: pre), rest. repeat split; auto.
      intros p1 r1 Hs Hl. destruct p1 as [|c' p1]; [simpl in *; subst; exact E|].
      simpl in Hs. inversion Hs; subst. apply Hmin; [assumption | simpl in Hl; lia].
Qed.
Lemma search1_none s : forall prev, search1 prev s = None ->
  forall p1 r1, s = p1 ++ r1 -> sv1_at (prev_of prev p1) r1 = None.
Proof.
  induction s as [|c r IH]; intros prev; cbn [search1].
  - destruct (sv1_at prev []) eqn:E; [discriminate|]. intros _ p1 r1 Hs.
    destruct p1; [|discriminate]. simpl in *. subst. exact E.
  - destruct (sv1_at prev (c :: r)) eqn:E; [discriminate|]. intros H p1 r1 Hs.
    destruct p1 as [|c' p1]; [simpl in *; subst; exact E|].
    simpl in Hs. inversion Hs; subst. apply (IH _ H). reflexivity.
Qed.

Lemma sv2_at_prefix s m : sv2_at s = Some m ->
  (exists rest, s = m ++ rest) /\
  exists a b e, m = a ++ 46 :: b ++ e /\ a <> [] /\ b <> [] /\ all_digits a /\ all_digits b /\
                (length a <= 4)%nat /\ (length b <= 4)%nat.
Proof.
  unfold sv2_at.
  destruct (take_upto_app 4 is_udigit s) as (A1 & A2 & A3). destruct (take_upto 4 is_udigit s) as [a r]. cbn [fst snd] in *.
  destruct a as [|a0 a]; [discriminate|].
  destruct r as [|c r1]; [discriminate|]. destruct (c =? 46) eqn:Ec; [|discriminate]. apply N.eqb_eq in Ec. subst c.
  destruct (take_upto_app 4 is_udigit r1) as (B1 & B2 & B3). destruct (take_upto 4 is_udigit r1) as [b r2]. cbn [fst snd] in *.
  destruct b as [|b0 b]; [discriminate|].
  set (dr := match r2 with c2 :: r3 => if c2 =? 46 then ([c2], r3) else ([], r2) | [] => ([], r2) end).
  assert (D : fst dr ++ snd dr = r2).
  { unfold dr. destruct r2 as [|c2 r3]; [reflexivity|]. destruct (c2 =? 46); reflexivity. }
  destruct dr as [dot r3]. cbn [fst snd] in D.
  destruct (take_upto_app 4 is_udigit r3) as (E1 & _). destruct (take_upto 4 is_udigit r3) as [e r4]. cbn [fst snd] in *.
  intro H. inversion H; subst m. split.
  - exists r4. rewrite <- A1, <- B1, <- D, <- E1. simpl. rewrite <- !app_assoc. simpl. rewrite <- !app_assoc. reflexivity.
  - exists (a0 :: a), (b0 :: b), (dot ++ e). repeat split; auto; discriminate.
Qed.
Lemma search2_sub s : forall m, search2 s = Some m -> exists pre post, s = pre ++ m ++ post.
Proof.
  induction s as [|c r IH]; intro m; cbn [search2].
  - destruct (sv2_at []) eqn:E; [|discriminate]. intro H. inversion H; subst.
    apply sv2_at_prefix in E. destruct E as [[rest Hr] _]. exists [], rest. exact Hr.
  - destruct (sv2_at (c :: r)) eqn:E.
    + intro H. inversion H; subst. apply sv2_at_prefix in E. destruct E as [[rest Hr] _]. exists [], rest. exact Hr.
    + intro H. destruct (IH _ H) as (pre & post & ->). exists (c :: pre), post. reflexivity.
Qed.

(* search_version returns 'unknown version' or a piece of the text *)
Theorem search_version_substring t :
  search_version t = unknown_version \/ exists pre post, t = pre ++ search_version t ++ post.
Proof.
  unfold search_version. destruct (search1 None t) as [m|] eqn:E1.
  - right. destruct (search1_first _ _ _ E1) as (pre & rest & -> & Hm & _).
    apply sv1_at_spec in Hm. destruct Hm as (_ & _ & post & -> & _). exists pre, post. reflexivity.
  - destruct (search2 t) as [m|] eqn:E2; [|left; reflexivity]. right. apply search2_sub. exact E2.
Qed.

(* when the first expression matches anywhere, the result is its leftmost match:
   a one- or two-digit run not preceded by a digit or period, one or more
   ".digits" groups, an optional "-alnum" suffix, followed by a blank or the end *)
Theorem search_version_first_match t m : search1 None t = Some m ->
  search_version t = m /\ sv1_shape m /\
  exists pre post, t = pre ++ m ++ post /\ lookbehind_ok (prev_of None pre) = true /\
    at_space_or_end post = true /\
    forall p1 r1, t = p1 ++ r1 -> (length p1 < length pre)%nat -> sv1_at (prev_of None p1) r1 = None.
Proof.
  intro E. unfold search_version. rewrite E. split; [reflexivity|].
  destruct (search1_first _ _ _ E) as (pre & rest & -> & Hm & Hmin).
  apply sv1_at_spec in Hm. destruct Hm as (Hb & Hs & post & -> & Hp).
  split; [exact Hs|]. exists pre, post. auto.
Qed.

(* ------------------------------------------------------------------ *)
(* completeness on clean input: a dotted version standing on its own    *)

Definition tenl : list N := map N.of_nat (seq 0 10).
Lemma blocks_no_space :
  forallb (fun b => forallb (fun k => negb (is_space (b + k))) tenl) udigit_blocks = true.
Proof. vm_compute. reflexivity. Qed.
Lemma space_not_udigit c : is_space c = true -> is_udigit c = false.
Proof.
  intro Hs. unfold is_udigit, udigit. destruct (ublock c udigit_blocks) as [v|] eqn:E; [|reflexivity].
  apply ublock_range in E. destruct E as (b & Hin & H1 & H2 & _).
  pose proof (proj1 (forallb_forall _ _) blocks_no_space b Hin) as Hb. cbv beta in Hb.
  assert (Hk : In (c - b) tenl).
  { unfold tenl. apply in_map_iff. exists (N.to_nat (c - b)). split; [apply N2Nat.id|]. apply in_seq. lia. }
  pose proof (proj1 (forallb_forall _ _) Hb _ Hk) as Hc. cbv beta in Hc.
  replace (b + (c - b)) with c in Hc by lia. rewrite Hs in Hc. discriminate.
Qed.

Lemma take_upto_exact n ds t : all_digits ds -> (length ds <= n)%nat -> not_digit_start t ->
  take_upto n is_udigit (ds ++ t) = (ds, t).
Proof.
  unfold all_digits. revert n. induction ds as [|d ds IH]; intros n Hd Hl Ht.
  - simpl. destruct n; [reflexivity|]. destruct t as [|c t]; [reflexivity|]. simpl in Ht. simpl. rewrite Ht. reflexivity.
  - simpl in *. apply andb_true_iff in Hd. destruct Hd as [Hd1 Hd2].
    destruct n; [lia|]. simpl. rewrite Hd1. rewrite IH; [reflexivity | assumption | lia | assumption].
Qed.
Lemma dot_groups_digits ds t : all_digits ds ->
  dot_groups true (ds ++ t) = (ds ++ fst (dot_groups true t), snd (dot_groups true t)).
Proof.
  unfold all_digits. induction ds as [|d ds IH]; intro Hd; simpl.
  - destruct (dot_groups true t); reflexivity.
  - simpl in Hd. apply andb_true_iff in Hd. destruct Hd as [Hd1 Hd2]. rewrite Hd1. simpl.
    rewrite IH by assumption. reflexivity.
Qed.
Lemma dot_groups_stop post : at_space_or_end post = true -> dot_groups true post = ([], post).
Proof.
  destruct post as [|c t]; [reflexivity|]. simpl. intro Hs. rewrite (space_not_udigit c Hs).
  destruct (c =? 46) eqn:E; [|reflexivity]. apply N.eqb_eq in E. subst c. vm_compute in Hs. discriminate.
Qed.
Definition runs_ok (dss : list str) := Forall (fun ds => all_digits ds /\ ds <> []) dss.
Lemma dotted_starts_digit ds dss post : runs_ok (ds :: dss) -> next_is_digit (dotted (ds :: dss) ++ post) = true.
Proof.
  intro H. inversion H as [|? ? [Hd Hne] _]; subst. destruct ds as [|d ds]; [congruence|].
  unfold all_digits in Hd. simpl in Hd. apply andb_true_iff in Hd. destruct Hd as [Hd _].
  destruct dss; simpl; exact Hd.
Qed.
Lemma dot_groups_dotted post : at_space_or_end post = true -> forall dss b, dss <> [] -> runs_ok dss ->
  dot_groups b (46 :: dotted dss ++ post) = (46 :: dotted dss, post).
Proof.
  intro Hp. induction dss as [|ds r IH]; intros b Hne Hr; [congruence|].
  cbn [dot_groups]. replace (is_udigit 46) with false by (vm_compute; reflexivity). rewrite andb_false_r.
  rewrite N.eqb_refl, (dotted_starts_digit ds r post Hr). cbn [andb].
  inversion Hr as [|? ? [Hd Hn] Hr']; subst.
  destruct r as [|ds2 r].
  - simpl dotted. rewrite (dot_groups_digits ds post Hd), (dot_groups_stop post Hp). simpl. rewrite app_nil_r. reflexivity.
  - change (dotted (ds :: ds2 :: r)) with (ds ++ 46 :: dotted (ds2 :: r)). rewrite <- app_assoc.
    change ((46 :: dotted (ds2 :: r)) ++ post) with (46 :: dotted (ds2 :: r) ++ post).
    rewrite (dot_groups_digits ds _ Hd). rewrite (IH true); [reflexivity | discriminate | assumption].
Qed.
Lemma hyphen_suffix_stop post : at_space_or_end post = true -> hyphen_suffix post = ([], post).
Proof.
  destruct post as [|c t]; [reflexivity|]. simpl. intro Hs.
  destruct (c =? 45) eqn:E; [|reflexivity]. apply N.eqb_eq in E. subst c. vm_compute in Hs. discriminate.
Qed.

Lemma sv1_at_dotted prev ds0 ds1 dss post :
  lookbehind_ok prev = true -> runs_ok (ds0 :: ds1 :: dss) -> (length ds0 <= 2)%nat ->
  at_space_or_end post = true ->
  sv1_at prev (dotted (ds0 :: ds1 :: dss) ++ post) = Some (dotted (ds0 :: ds1 :: dss)).
Proof.
  intros Hb Hr Hl Hp. unfold sv1_at. rewrite Hb.
  inversion Hr as [|? ? [Hd Hn] Hr']; subst.
  change (dotted (ds0 :: ds1 :: dss)) with (ds0 ++ 46 :: dotted (ds1 :: dss)). rewrite <- app_assoc.
  change ((46 :: dotted (ds1 :: dss)) ++ post) with (46 :: dotted (ds1 :: dss) ++ post).
  rewrite (take_upto_exact 2 ds0 _ Hd Hl); [|vm_compute; reflexivity]. cbv beta iota.
  destruct ds0 as [|d0 ds0]; [congruence|]. cbv beta iota.
  rewrite (dot_groups_dotted post Hp (ds1 :: dss) false); [|discriminate|assumption]. cbv beta iota.
  rewrite (hyphen_suffix_stop post Hp). cbv beta iota. rewrite Hp, app_nil_r. reflexivity.
Qed.
Lemma search1_skip pre t : forallb (fun c => negb (is_udigit c)) pre = true ->
  forall prev, search1 prev (pre ++ t) = search1 (prev_of prev pre) t.
Proof.
  induction pre as [|c p IH]; intros Hn prev; [reflexivity|].
  simpl in Hn. apply andb_true_iff in Hn. destruct Hn as [Hc Hn]. apply negb_true_iff in Hc.
  simpl app. cbn [search1 prev_of].
  assert (E : sv1_at prev (c :: p ++ t) = None).
  { unfold sv1_at. destruct (lookbehind_ok prev); [|reflexivity]. simpl. rewrite Hc. reflexivity. }
  rewrite E. apply IH. exact Hn.
Qed.

(* a text whose first digit starts "d.d(.d)*" with a one- or two-digit head, not
   directly after a period and followed by a blank or the end, yields exactly that *)
Theorem search_version_dotted pre ds0 ds1 dss post :
  forallb (fun c => negb (is_udigit c)) pre = true -> lookbehind_ok (prev_of None pre) = true ->
  runs_ok (ds0 :: ds1 :: dss) -> (length ds0 <= 2)%nat -> at_space_or_end post = true ->
  search_version (pre ++ dotted (ds0 :: ds1 :: dss) ++ post) = dotted (ds0 :: ds1 :: dss).
Proof.
  intros Hpre Hb Hr Hl Hp. unfold search_version. rewrite (search1_skip pre _ Hpre None).
  assert (E : search1 (prev_of None pre) (dotted (ds0 :: ds1 :: dss) ++ post) = Some (dotted (ds0 :: ds1 :: dss))).
  { pose proof (sv1_at_dotted _ ds0 ds1 dss post Hb Hr Hl Hp) as S.
    destruct (dotted (ds0 :: ds1 :: dss) ++ post); cbn [search1]; rewrite S; reflexivity. }
  rewrite E. reflexivity.
Qed.

Example ex_search_gcc :
  search_version (s2l "(Sourcery CodeBench Lite 2014.05-29) 4.8.3 20140320 (prerelease)") = s2l "4.8.3"
  /\ search_version (s2l "blah 2020.01.100 foo") = s2l "2020.01.100"
  /\ search_version (s2l "clang version 14.0.0-1ubuntu1 ") = s2l "14.0.0-1ubuntu1"
  /\ search_version (s2l "none") = unknown_version.
Proof. vm_compute. auto. Qed.
