(* Version/Model.v — executable model of mesonbuild/utils/universal.py:968-1205
   (Version, _version_extract_cmpop, version_compare, version_compare_many,
   Range, version_check_to_range, version_compare_condition_with_min).
   No proofs in this file. *)
From MV Require Export Base.Strs Version.Unicode.
Open Scope N_scope.

(* universal.py:968  _VERSION_TOK_RE = (\d+)|([a-zA-Z]+) ; Version.__init__
   \d is every Unicode decimal digit and int() takes each digit's decimal value
   (Version/Unicode.v); [a-zA-Z] is ASCII only. *)
Inductive comp := CNum (n : N) | CAlpha (s : str).
Definition ver := list comp.

Inductive tstate := TNone | TNum (acc : N) | TAlpha (racc : str).

Definition tflush (st : tstate) : list comp :=
  match st with
  | TNone => []
  | TNum a => [CNum a]
  | TAlpha r => [CAlpha (rev r)]
  end.

Fixpoint tok (s : str) (st : tstate) : list comp :=
  match s with
  | [] => tflush st
  | c :: r =>
      if is_udigit c then
        match st with
        | TNum a => tok r (TNum (a * 10 + udigit_val c))
        | _ => tflush st ++ tok r (TNum (udigit_val c))
        end
      else if is_alpha c then
        match st with
        | TAlpha a => tok r (TAlpha (c :: a))
        | _ => tflush st ++ tok r (TAlpha [c])
        end
      else tflush st ++ tok r TNone
  end.

Definition tokenize (s : str) : ver := tok s TNone.

(* int(m.group(1)) raises ValueError when the digit run has more than
   sys.get_int_max_str_digits() = 4300 characters (CPython >= 3.11; every character
   of the run counts, leading zeros included).  [run_over lim s cur]: some maximal
   digit run of s (the first one continuing a run of [cur] digits) is longer than lim. *)
Definition int_max_str_digits : nat := 4300.
Fixpoint run_over (lim : nat) (s : str) (cur : nat) : bool :=
  match s with
  | [] => false
  | c :: r =>
      if is_udigit c then (if Nat.ltb lim (S cur) then true else run_over lim r (S cur))
      else run_over lim r O
  end.
(* Version(s): None = ValueError, otherwise the component tuple _v *)
Definition version_init (s : str) : option ver :=
  if run_over int_max_str_digits s O then None else Some (tokenize s).

(* Version.__cmp : universal.py:1025-1041, as a three-way comparison.
   "sort a non-digit sequence before a digit sequence": comparator(ours_is_int,
   theirs_is_int) on Python bools, False < True. *)
Definition comp_cmp (a b : comp) : comparison :=
  match a, b with
  | CNum x, CNum y => N.compare x y
  | CAlpha x, CAlpha y => str_cmp x y
  | CNum _, CAlpha _ => Gt
  | CAlpha _, CNum _ => Lt
  end.

Definition vcompare (a b : ver) : comparison := lex_cmp comp_cmp a b.

(* Version.__eq__/__ne__ go through tuple equality of _v. *)
Definition comp_eqb (a b : comp) : bool :=
  match a, b with
  | CNum x, CNum y => N.eqb x y
  | CAlpha x, CAlpha y => str_eqb x y
  | _, _ => false
  end.
Fixpoint veq (a b : ver) : bool :=
  match a, b with
  | [], [] => true
  | x :: a', y :: b' => comp_eqb x y && veq a' b'
  | _, _ => false
  end.

Inductive cmpop := OpLt | OpLe | OpEq | OpNe | OpGe | OpGt.

Definition is_Lt c := match c with Lt => true | _ => false end.
Definition is_Gt c := match c with Gt => true | _ => false end.

(* The six rich comparisons of the Version class. *)
Definition vop (o : cmpop) (a b : ver) : bool :=
  match o with
  | OpLt => is_Lt (vcompare a b)
  | OpLe => negb (is_Gt (vcompare a b))
  | OpGt => is_Gt (vcompare a b)
  | OpGe => negb (is_Lt (vcompare a b))
  | OpEq => veq a b
  | OpNe => negb (veq a b)
  end.

(* _version_extract_cmpop : universal.py:1044-1070 (prefix tests in source order) *)
Definition c_lt : char := 60. Definition c_eq : char := 61.
Definition c_gt : char := 62. Definition c_bang : char := 33.

Definition extract_cmpop (s : str) : cmpop * str :=
  let '(o, rest) :=
    if prefixb [c_gt; c_eq] s then (OpGe, drop 2 s)
    else if prefixb [c_lt; c_eq] s then (OpLe, drop 2 s)
    else if prefixb [c_bang; c_eq] s then (OpNe, drop 2 s)
    else if prefixb [c_eq; c_eq] s then (OpEq, drop 2 s)
    else if prefixb [c_eq] s then (OpEq, drop 1 s)
    else if prefixb [c_gt] s then (OpGt, drop 1 s)
    else if prefixb [c_lt] s then (OpLt, drop 1 s)
    else (OpEq, s) in
  (o, strip rest).

Definition version_compare (v c : str) : bool :=
  let '(o, w) := extract_cmpop c in vop o (tokenize v) (tokenize w).

(* version_compare_many : (ok, not_found, found) *)
Fixpoint compare_many (v : str) (cs : list str) : list str * list str :=
  match cs with
  | [] => ([], [])
  | c :: r =>
      let '(nf, f) := compare_many v r in
      if version_compare v c then (nf, c :: f) else (c :: nf, f)
  end.
Definition compare_many_ok (v : str) (cs : list str) : bool :=
  match fst (compare_many v cs) with [] => true | _ => false end.

(* Range : universal.py:1090-1166 *)
Record range := mkRange {
  rmin : option ver; rmin_eq : bool;
  rmax : option ver; rmax_eq : bool;
  rempty : bool }.

Definition range_any : range := mkRange None false None false false.

Definition contains (r : range) (x : ver) : bool :=
  if rempty r then false else
  if match rmin r with
     | Some m => if rmin_eq r then vop OpLt x m else vop OpLe x m
     | None => false end then false else
  if match rmax r with
     | Some m => if rmax_eq r then vop OpGt x m else vop OpGe x m
     | None => false end then false else true.

(* __post_init__ *)
Definition post_init (r : range) : range :=
  match rmin r, rmax r with
  | Some mn, Some mx =>
      if vop OpLt mn mx then mkRange (rmin r) (rmin_eq r) (rmax r) (rmax_eq r) false
      else if vop OpEq mn mx && rmin_eq r && rmax_eq r
           then mkRange (rmin r) (rmin_eq r) (rmax r) (rmax_eq r) false
      else mkRange None (rmin_eq r) None (rmax_eq r) true
  | _, _ => r
  end.

Definition intersect_min (r : range) (v : ver) (eq : bool) : range :=
  match rmin r with
  | None => mkRange (Some v) eq (rmax r) (rmax_eq r) (rempty r)
  | Some m =>
      if vop OpGt v m then mkRange (Some v) eq (rmax r) (rmax_eq r) (rempty r)
      else if vop OpEq v m then mkRange (rmin r) (eq && rmin_eq r) (rmax r) (rmax_eq r) (rempty r)
      else r
  end.

Definition intersect_max (r : range) (v : ver) (eq : bool) : range :=
  match rmax r with
  | None => mkRange (rmin r) (rmin_eq r) (Some v) eq (rempty r)
  | Some m =>
      if vop OpLt v m then mkRange (rmin r) (rmin_eq r) (Some v) eq (rempty r)
      else if vop OpEq v m then mkRange (rmin r) (rmin_eq r) (rmax r) (eq && rmax_eq r) (rempty r)
      else r
  end.

Definition intersect (a x : range) : range :=
  if rempty x then x else
  if rempty a then a else
  let r1 := match rmin x with Some v => intersect_min a v (rmin_eq x) | None => a end in
  let r2 := match rmax x with Some v => intersect_max r1 v (rmax_eq x) | None => r1 end in
  post_init r2.

(* dataclass __eq__ : field-wise, Versions through veq *)
Definition oveq (a b : option ver) : bool :=
  match a, b with
  | None, None => true
  | Some x, Some y => veq x y
  | _, _ => false
  end.
Definition range_eqb (a b : range) : bool :=
  oveq (rmin a) (rmin b) && Bool.eqb (rmin_eq a) (rmin_eq b) &&
  oveq (rmax a) (rmax b) && Bool.eqb (rmax_eq a) (rmax_eq b) &&
  Bool.eqb (rempty a) (rempty b).

Definition always (a inner : range) : option bool :=
  let n := intersect a inner in
  if rempty n then Some false
  else if range_eqb n a then Some true
  else None.

(* Range(...) constructor = field assignment followed by __post_init__ *)
Definition Range (mn : option ver) (mne : bool) (mx : option ver) (mxe : bool) (e : bool) : range :=
  post_init (mkRange mn mne mx mxe e).

(* version_check_to_range : universal.py:1170-1192 *)
Definition check_step (start : range) (c : str) : range :=
  let '(o, w) := extract_cmpop c in
  let v := tokenize w in
  let r :=
    match o with
    | OpGe => Range (Some v) true None false false
    | OpGt => Range (Some v) false None false false
    | OpLe => Range None false (Some v) true false
    | OpLt => Range None false (Some v) false false
    | OpEq => Range (Some v) true (Some v) true false
    | OpNe =>
        let r0 := range_any in
        let r1 := if oveq (Some v) (rmin start) then Range (Some v) false None false false else r0 in
        if oveq (Some v) (rmax start)
        then intersect r1 (Range None false (Some v) false false) else r1
    end in
  intersect start r.

Definition check_to_range (checks : list str) (start : range) : range :=
  fold_left check_step checks start.

(* version_compare_condition_with_min : universal.py:1195-1205, on a Range ... *)
Definition cwm_range (r : range) (minimum : str) : bool :=
  match rmin r with
  | None => rempty r
  | Some m => vop OpLe (tokenize minimum) m
  end.
(* ... and with the condition given as a string *)
Definition condition_with_min (cond minimum : str) : bool :=
  cwm_range (check_to_range [cond] range_any) minimum.

(* The constraint "x satisfies check c" used by the soundness theorems. *)
Definition sat (x : ver) (c : str) : bool :=
  let '(o, w) := extract_cmpop c in vop o x (tokenize w).
Definition is_ne_check (c : str) : bool :=
  match fst (extract_cmpop c) with OpNe => true | _ => false end.
