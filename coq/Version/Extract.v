(* Extraction of the C19 model.  Only the ExtrOcamlBasic directives are used. *)
From Coq Require Extraction.
From Coq Require Import ExtrOcamlBasic.
From MV Require Import Version.Entry.
Extraction "../extract/C19/model.ml" Version.Entry.run.
