(* Version/Proofs.v — theorems about the Version model (C19). *)
From MV Require Import Base.Strs Base.LexFacts Version.Model.
From Coq Require Import Lia Orders OrdersTac Morphisms RelationClasses.
Open Scope N_scope.

(* ------------------------------------------------------------------ *)
(* Component and version comparison: a decidable total order on [ver] *)

Lemma comp_cmp_eq a b : comp_cmp a b = Eq -> a = b.
Proof.
  destruct a as [x|x], b as [y|y]; simpl; intro H; try discriminate.
  - apply N.compare_eq in H. congruence.
  - apply str_cmp_eq in H. congruence.
Qed.
Lemma comp_cmp_refl a : comp_cmp a a = Eq.
Proof. destruct a; simpl; [apply N.compare_refl | apply str_cmp_refl]. Qed.
Lemma comp_cmp_antisym a b : comp_cmp b a = CompOpp (comp_cmp a b).
Proof.
  destruct a, b; simpl; try reflexivity; [apply N.compare_antisym | apply str_cmp_antisym].
Qed.
Lemma comp_cmp_trans a b c : comp_cmp a b = Lt -> comp_cmp b c = Lt -> comp_cmp a c = Lt.
Proof.
  destruct a, b, c; simpl; intros H1 H2; try discriminate; try reflexivity.
  - eapply Ncmp_trans; eassumption.
  - eapply str_cmp_trans; eassumption.
Qed.

Lemma vcompare_refl a : vcompare a a = Eq.
Proof. apply lex_refl, comp_cmp_refl. Qed.
Lemma vcompare_eq a b : vcompare a b = Eq -> a = b.
Proof. apply lex_eq, comp_cmp_eq. Qed.
Lemma vcompare_antisym a b : vcompare b a = CompOpp (vcompare a b).
Proof. apply lex_antisym, comp_cmp_antisym. Qed.
Lemma vcompare_trans a b c : vcompare a b = Lt -> vcompare b c = Lt -> vcompare a c = Lt.
Proof. apply lex_trans; [apply comp_cmp_eq | apply comp_cmp_trans]. Qed.

Lemma comp_eqb_eq a b : comp_eqb a b = true <-> a = b.
Proof.
  destruct a as [x|x], b as [y|y]; simpl; split; intro H; try discriminate.
  - apply N.eqb_eq in H. congruence.
  - inversion H. apply N.eqb_refl.
  - apply str_eqb_eq in H. congruence.
  - inversion H. apply str_eqb_refl.
Qed.
Lemma veq_eq a b : veq a b = true <-> a = b.
Proof.
  revert b; induction a as [|x a IH]; intros [|y b]; simpl; split; intro H; try discriminate; try reflexivity.
  - apply andb_true_iff in H. destruct H as [H1 H2]. apply comp_eqb_eq in H1. apply IH in H2. congruence.
  - inversion H; subst. apply andb_true_iff. split; [apply comp_eqb_eq | apply IH]; reflexivity.
Qed.
(* __eq__ (tuple equality) agrees with the three-way comparison. *)
Lemma veq_vcompare a b : veq a b = true <-> vcompare a b = Eq.
Proof.
  rewrite veq_eq. split; [intros ->; apply vcompare_refl | apply vcompare_eq].
Qed.

(* ------------------------------------------------------------------ *)
(* Order module, to get the [order] decision tactic.                   *)

(* lt/le are wrapped in inductives so that the functor application below does
   not inline them (the EqLtLe signature declares them Inline). *)
Inductive ver_lt (a b : ver) : Prop := ver_lt_intro (H : vcompare a b = Lt).
Inductive ver_le (a b : ver) : Prop := ver_le_intro (H : vcompare a b <> Gt).
Lemma ver_lt_iff a b : ver_lt a b <-> vcompare a b = Lt.
Proof. split; [intros [H]; exact H | apply ver_lt_intro]. Qed.
Lemma ver_le_iff a b : ver_le a b <-> vcompare a b <> Gt.
Proof. split; [intros [H]; exact H | apply ver_le_intro]. Qed.

Module VO.
  Definition t := ver.
  Definition eq := @Logic.eq ver.
  Definition lt := ver_lt.
  Definition le := ver_le.
  Global Instance eq_equiv : Equivalence eq := eq_equivalence.
  Global Instance lt_strorder : StrictOrder lt.
  Proof.
    split.
    - intros a H. apply ver_lt_iff in H. rewrite vcompare_refl in H. discriminate.
    - intros a b c. unfold lt. rewrite !ver_lt_iff. apply vcompare_trans.
  Qed.
  Global Instance lt_compat : Proper (eq ==> eq ==> iff) lt.
  Proof. intros a a' -> b b' ->. reflexivity. Qed.
  Lemma le_lteq x y : le x y <-> lt x y \/ eq x y.
  Proof.
    unfold le, lt, eq. rewrite ver_le_iff, ver_lt_iff. destruct (vcompare x y) eqn:E.
    - apply vcompare_eq in E. split; [right; assumption | intros _; discriminate].
    - split; [left; reflexivity | intros _; discriminate].
    - split; [congruence | intros [H|H]; [discriminate|]]. subst. rewrite vcompare_refl in E. discriminate.
  Qed.
  Lemma lt_total x y : lt x y \/ eq x y \/ lt y x.
  Proof.
    unfold lt, eq. rewrite !ver_lt_iff. rewrite (vcompare_antisym x y). destruct (vcompare x y) eqn:E; simpl; auto.
    right; left. apply vcompare_eq. exact E.
  Qed.
End VO.
Module VT := MakeOrderTac VO VO.

(* Meaning of the six operators in terms of the order. *)
Definition sem (o : cmpop) (a b : ver) : Prop :=
  match o with
  | OpLt => VO.lt a b
  | OpLe => VO.le a b
  | OpGt => VO.lt b a
  | OpGe => VO.le b a
  | OpEq => a = b
  | OpNe => a <> b
  end.

Lemma vop_iff o a b : vop o a b = true <-> sem o a b.
Proof.
  destruct o; simpl; unfold VO.lt, VO.le; rewrite ?ver_lt_iff, ?ver_le_iff, ?(vcompare_antisym a b).
  - destruct (vcompare a b); simpl; split; congruence.
  - destruct (vcompare a b); simpl; split; congruence.
  - apply veq_eq.
  - rewrite negb_true_iff. rewrite <- veq_eq. destruct (veq a b); split; congruence.
  - destruct (vcompare a b); simpl; split; congruence.
  - destruct (vcompare a b); simpl; split; congruence.
Qed.
Arguments vop : simpl never.
Lemma vopT o a b : vop o a b = true -> sem o a b.
Proof. apply vop_iff. Qed.
Lemma vopF o a b : vop o a b = false -> ~ sem o a b.
Proof. intros H S. apply vop_iff in S. congruence. Qed.

Ltac splits := repeat match goal with |- _ /\ _ => split | |- True => exact I | |- ?x = ?x => reflexivity end.
Ltac vcase :=
  match goal with
  | |- context [vop ?o ?a ?b] =>
      let E := fresh "E" in
      destruct (vop o a b) eqn:E; [apply vopT in E | apply vopF in E]; simpl sem in E
  | H : context [vop ?o ?a ?b] |- _ =>
      let E := fresh "E" in
      destruct (vop o a b) eqn:E; [apply vopT in E | apply vopF in E]; simpl sem in E
  end.

(* ------------------------------------------------------------------ *)
(* The order laws the property names.                                  *)

(* exactly one of <, ==, > *)
Theorem trichotomy a b :
  (vop OpLt a b = true /\ vop OpEq a b = false /\ vop OpGt a b = false) \/
  (vop OpLt a b = false /\ vop OpEq a b = true /\ vop OpGt a b = false) \/
  (vop OpLt a b = false /\ vop OpEq a b = false /\ vop OpGt a b = true).
Proof.
  repeat vcase; try (exfalso; VT.order); auto.
Qed.

Theorem lt_trans a b c : vop OpLt a b = true -> vop OpLt b c = true -> vop OpLt a c = true.
Proof. rewrite !vop_iff. simpl. intros. VT.order. Qed.
Theorem le_trans a b c : vop OpLe a b = true -> vop OpLe b c = true -> vop OpLe a c = true.
Proof. rewrite !vop_iff. simpl. intros. VT.order. Qed.
Theorem eq_trans a b c : vop OpEq a b = true -> vop OpEq b c = true -> vop OpEq a c = true.
Proof. rewrite !vop_iff. simpl. congruence. Qed.
Theorem le_refl a : vop OpLe a a = true.
Proof. rewrite vop_iff. simpl. VT.order. Qed.
Theorem le_total a b : vop OpLe a b = true \/ vop OpLe b a = true.
Proof. rewrite !vop_iff. simpl. destruct (VO.lt_total a b) as [H|[H|H]]; [left|left|right]; VT.order. Qed.

Theorem le_is_lt_or_eq a b : vop OpLe a b = vop OpLt a b || vop OpEq a b.
Proof. repeat vcase; simpl; try reflexivity; exfalso; VT.order. Qed.
Theorem ge_is_gt_or_eq a b : vop OpGe a b = vop OpGt a b || vop OpEq a b.
Proof. repeat vcase; simpl; try reflexivity; exfalso; VT.order. Qed.
Theorem lt_gt_swap a b : vop OpLt a b = vop OpGt b a.
Proof. repeat vcase; simpl; try reflexivity; exfalso; VT.order. Qed.
Theorem le_ge_swap a b : vop OpLe a b = vop OpGe b a.
Proof. repeat vcase; simpl; try reflexivity; exfalso; VT.order. Qed.
Theorem ne_is_not_eq a b : vop OpNe a b = negb (vop OpEq a b).
Proof. unfold vop. reflexivity. Qed.
Theorem eq_sym a b : vop OpEq a b = vop OpEq b a.
Proof. repeat vcase; simpl; try reflexivity; exfalso; congruence. Qed.
Theorem antisym a b : vop OpLe a b = true -> vop OpLe b a = true -> vop OpEq a b = true.
Proof. rewrite !vop_iff. simpl. intros. VT.order. Qed.

(* equal versions have equal hash keys: hash is computed from _v, and == is
   equality of _v; in the model both are [ver] so this is Leibniz equality. *)
Theorem eq_same_key a b : vop OpEq a b = true -> a = b.
Proof. apply veq_eq. Qed.

(* numeric components compare numerically *)
Theorem numeric_numerically p x y a b :
  (x < y)%N -> vop OpLt (p ++ CNum x :: a) (p ++ CNum y :: b) = true.
Proof.
  intro H. apply vop_iff. simpl. apply ver_lt_iff. unfold vcompare.
  rewrite lex_first_diff; simpl; try apply comp_cmp_refl.
  - apply N.compare_lt_iff. exact H.
  - intro E. apply N.compare_eq in E. lia.
Qed.
(* a numeric component ranks above an alphabetic one at the same position *)
Theorem numeric_above_alpha p s n a b :
  vop OpLt (p ++ CAlpha s :: a) (p ++ CNum n :: b) = true.
Proof.
  apply vop_iff. simpl. apply ver_lt_iff. unfold vcompare.
  rewrite lex_first_diff; simpl; try apply comp_cmp_refl; [reflexivity | discriminate].
Qed.
(* a longer version with an equal prefix is greater *)
Theorem longer_is_greater a x r : vop OpLt a (a ++ x :: r) = true.
Proof. apply vop_iff. simpl. apply ver_lt_iff. apply lex_prefix_lt, comp_cmp_refl. Qed.

(* ------------------------------------------------------------------ *)
(* Character classes (Version/Unicode.v)                                *)

Lemma ublock_range c l v : ublock c l = Some v ->
  exists b, In b l /\ b <= c /\ c < b + 10 /\ v = c - b.
Proof.
  induction l as [|b r IH]; simpl; [discriminate|].
  destruct ((b <=? c) && (c <? b + 10)) eqn:E.
  - intro H. inversion H; subst. apply andb_true_iff in E. destruct E as [E1 E2].
    apply N.leb_le in E1. apply N.ltb_lt in E2. exists b. auto.
  - intro H. destruct (IH H) as (b' & Hin & Hb). exists b'. auto.
Qed.
(* every decimal digit has a value below ten *)
Lemma udigit_val_lt c : udigit_val c < 10.
Proof.
  unfold udigit_val, udigit. destruct (ublock c udigit_blocks) as [v|] eqn:E; [|lia].
  apply ublock_range in E. destruct E as (b & _ & H1 & H2 & ->). lia.
Qed.
(* the ASCII digits are the first block, with their usual values *)
Lemma ascii_digit_udigit c : is_digit c = true -> is_udigit c = true /\ udigit_val c = digit_val c.
Proof.
  unfold is_digit, is_udigit, udigit_val, udigit, udigit_blocks, digit_val. intro H.
  apply andb_true_iff in H. destruct H as [H1 H2]. apply N.leb_le in H1. apply N.leb_le in H2.
  cbn [ublock]. replace ((48 <=? c) && (c <? 48 + 10)) with true; [auto|].
  symmetry. apply andb_true_iff. split; [apply N.leb_le | apply N.ltb_lt]; lia.
Qed.
Lemma blocks_low : forallb (fun b => (b =? 48) || (1632 <=? b)) udigit_blocks = true.
Proof. vm_compute. reflexivity. Qed.
(* below 1632 the only decimal digits are the ASCII ones *)
Lemma udigit_low c : c < 1632 -> is_udigit c = is_digit c.
Proof.
  intro Hc. unfold is_udigit, udigit. destruct (ublock c udigit_blocks) as [v|] eqn:E.
  - apply ublock_range in E. destruct E as (b & Hin & H1 & H2 & _).
    pose proof (proj1 (forallb_forall _ _) blocks_low b Hin) as Hb. simpl in Hb.
    apply orb_true_iff in Hb. destruct Hb as [Hb|Hb]; [apply N.eqb_eq in Hb | apply N.leb_le in Hb; lia].
    subst b. unfold is_digit. symmetry. apply andb_true_iff. split; apply N.leb_le; lia.
  - unfold is_digit. destruct ((48 <=? c) && (c <=? 57)) eqn:D; [|reflexivity].
    assert (H : is_digit c = true) by exact D. apply ascii_digit_udigit in H.
    unfold is_udigit, udigit in H. rewrite E in H. destruct H; discriminate.
Qed.
Lemma alpha_not_udigit c : is_alpha c = true -> is_udigit c = false.
Proof.
  intro H. assert (Hc : c < 1632 /\ is_digit c = false).
  { unfold is_alpha, is_lower, is_upper, is_digit in *.
    apply orb_true_iff in H. destruct H as [H|H]; apply andb_true_iff in H; destruct H as [H1 H2];
      apply N.leb_le in H1; apply N.leb_le in H2; (split; [lia|]);
      apply andb_false_iff; right; apply N.leb_gt; lia. }
  destruct Hc as [Hc Hd]. rewrite udigit_low by exact Hc. exact Hd.
Qed.

(* ------------------------------------------------------------------ *)
(* Tokenizer facts                                                      *)

Definition all_digits (s : str) := forallb is_udigit s = true.
Definition all_alpha (s : str) := forallb is_alpha s = true.
Definition is_sep (c : char) := negb (is_udigit c) && negb (is_alpha c).
Definition not_digit_start (s : str) := match s with c :: _ => is_udigit c = false | [] => True end.
Definition not_alpha_start (s : str) := match s with c :: _ => is_alpha c = false | [] => True end.
(* s is empty or ends with a separator *)
Definition ends_sep (s : str) : bool := match rev s with [] => true | c :: _ => is_sep c end.

Lemma tok_digits ds : all_digits ds -> forall acc rest,
  tok (ds ++ rest) (TNum acc) = tok rest (TNum (fold_left (fun a c => a * 10 + udigit_val c) ds acc)).
Proof.
  unfold all_digits. induction ds as [|d ds IH]; intros Hd acc rest; simpl in *; [reflexivity|].
  apply andb_true_iff in Hd. destruct Hd as [Hd1 Hd2]. rewrite Hd1. apply IH; assumption.
Qed.
Lemma tok_alphas al : all_alpha al -> forall racc rest,
  tok (al ++ rest) (TAlpha racc) = tok rest (TAlpha (rev al ++ racc)).
Proof.
  unfold all_alpha. induction al as [|d al IH]; intros Hd racc rest; simpl in *; [reflexivity|].
  apply andb_true_iff in Hd. destruct Hd as [Hd1 Hd2]. rewrite (alpha_not_udigit d Hd1), Hd1.
  rewrite IH by assumption. rewrite <- app_assoc. reflexivity.
Qed.
Lemma tok_num_flush rest a : not_digit_start rest -> tok rest (TNum a) = CNum a :: tok rest TNone.
Proof.
  destruct rest as [|c r]; simpl; [reflexivity|]. intros ->. destruct (is_alpha c); reflexivity.
Qed.
Lemma tok_alpha_flush rest ra : not_alpha_start rest -> tok rest (TAlpha ra) = CAlpha (rev ra) :: tok rest TNone.
Proof.
  destruct rest as [|c r]; simpl; [reflexivity|]. intros ->. destruct (is_udigit c); reflexivity.
Qed.

(* a maximal digit run at the front is one numeric component, its int() value *)
Theorem tokenize_digits_cons ds rest :
  ds <> [] -> all_digits ds -> not_digit_start rest ->
  tokenize (ds ++ rest) = CNum (udigits_val ds) :: tokenize rest.
Proof.
  intros Hne Hd Hr. destruct ds as [|d ds]; [congruence|].
  assert (Hd' := Hd). unfold all_digits in Hd'. simpl in Hd'. apply andb_true_iff in Hd'. destruct Hd' as [Hd1 Hd2].
  unfold tokenize. simpl app. cbn [tok]. rewrite Hd1. cbn [tflush app].
  rewrite (tok_digits ds Hd2). rewrite tok_num_flush by exact Hr.
  unfold udigits_val. simpl. reflexivity.
Qed.
(* a maximal ASCII-letter run at the front is one alphabetic component *)
Theorem tokenize_alpha_cons al rest :
  al <> [] -> all_alpha al -> not_alpha_start rest ->
  tokenize (al ++ rest) = CAlpha al :: tokenize rest.
Proof.
  intros Hne Hd Hr. destruct al as [|d al]; [congruence|].
  assert (Hd' := Hd). unfold all_alpha in Hd'. simpl in Hd'. apply andb_true_iff in Hd'. destruct Hd' as [Hd1 Hd2].
  unfold tokenize. simpl app. cbn [tok]. rewrite (alpha_not_udigit d Hd1), Hd1. cbn [tflush app].
  rewrite (tok_alphas al Hd2). rewrite tok_alpha_flush by exact Hr.
  rewrite rev_app_distr, rev_involutive. reflexivity.
Qed.

(* a separator ends the current component; tokenizing is compositional across it *)
Lemma tok_app_sep c q : is_sep c = true -> forall p st,
  tok (p ++ c :: q) st = tok p st ++ tokenize q.
Proof.
  unfold is_sep. intro Hc. apply andb_true_iff in Hc. destruct Hc as [Hc1 Hc2].
  apply negb_true_iff in Hc1. apply negb_true_iff in Hc2.
  induction p as [|x p IH]; intro st.
  - simpl. rewrite Hc1, Hc2. reflexivity.
  - simpl. destruct (is_udigit x); [|destruct (is_alpha x)]; destruct st;
      rewrite ?IH, <- ?app_assoc; reflexivity.
Qed.
Theorem tokenize_app_sep p c q : is_sep c = true ->
  tokenize (p ++ c :: q) = tokenize p ++ tokenize q.
Proof. intro H. apply tok_app_sep. exact H. Qed.
Theorem tokenize_after_boundary b q : ends_sep b = true ->
  tokenize (b ++ q) = tokenize b ++ tokenize q.
Proof.
  unfold ends_sep. intro H. destruct (rev b) as [|c l] eqn:E.
  - apply (f_equal (@rev _)) in E. rewrite rev_involutive in E. subst b. reflexivity.
  - apply (f_equal (@rev _)) in E. rewrite rev_involutive in E. subst b. simpl rev.
    rewrite <- app_assoc. simpl app. rewrite (tokenize_app_sep _ c q H).
    replace (rev l ++ [c]) with (rev l ++ c :: []) by reflexivity.
    rewrite (tokenize_app_sep _ c [] H). unfold tokenize at 3. simpl tok. rewrite app_nil_r. reflexivity.
Qed.

(* A dotted numeric version "d1.d2.….dn" tokenizes to its numbers. *)
Fixpoint dotted (dss : list str) : str :=
  match dss with
  | [] => []
  | [ds] => ds
  | ds :: r => ds ++ 46 :: dotted r
  end.
Lemma dot_is_sep : is_sep 46 = true.
Proof. vm_compute. reflexivity. Qed.
Theorem tokenize_dotted dss :
  Forall (fun ds => all_digits ds /\ ds <> []) dss ->
  tokenize (dotted dss) = map (fun ds => CNum (udigits_val ds)) dss.
Proof.
  induction dss as [|ds r IH]; intro H; [reflexivity|].
  inversion H as [|? ? [Hd Hne] Hr]; subst.
  destruct r as [|ds2 r].
  - pose proof (tokenize_digits_cons ds [] Hne Hd I) as T. rewrite app_nil_r in T. simpl. rewrite T. reflexivity.
  - change (dotted (ds :: ds2 :: r)) with (ds ++ 46 :: dotted (ds2 :: r)).
    rewrite tokenize_digits_cons; [|assumption|assumption|vm_compute; reflexivity].
    replace (46 :: dotted (ds2 :: r)) with ([] ++ 46 :: dotted (ds2 :: r)) by reflexivity.
    rewrite (tokenize_app_sep [] 46 _ dot_is_sep). rewrite IH by assumption. reflexivity.
Qed.
(* for ASCII digit runs the value is the usual one *)
Lemma udigits_val_ascii ds : forallb is_digit ds = true -> udigits_val ds = digits_val ds.
Proof.
  unfold udigits_val, digits_val. generalize 0. induction ds as [|d ds IH]; intros acc H; simpl in *; [reflexivity|].
  apply andb_true_iff in H. destruct H as [H1 H2]. destruct (ascii_digit_udigit d H1) as [_ ->]. apply IH. exact H2.
Qed.
Lemma all_digits_ascii ds : forallb is_digit ds = true -> all_digits ds.
Proof.
  unfold all_digits. induction ds as [|d ds IH]; simpl; [reflexivity|]. intro H.
  apply andb_true_iff in H. destruct H as [H1 H2]. destruct (ascii_digit_udigit d H1) as [-> _]. apply IH. exact H2.
Qed.

(* The property's ordering rules on raw strings: [b] is empty or ends with a
   separator, so the component that follows starts at a component boundary. *)
Theorem str_numeric_numerically b ds1 ds2 r1 r2 :
  ends_sep b = true -> ds1 <> [] -> ds2 <> [] -> all_digits ds1 -> all_digits ds2 ->
  not_digit_start r1 -> not_digit_start r2 -> udigits_val ds1 < udigits_val ds2 ->
  vop OpLt (tokenize (b ++ ds1 ++ r1)) (tokenize (b ++ ds2 ++ r2)) = true.
Proof.
  intros Hb N1 N2 D1 D2 R1 R2 Hlt.
  rewrite (tokenize_after_boundary b (ds1 ++ r1) Hb), (tokenize_after_boundary b (ds2 ++ r2) Hb).
  rewrite (tokenize_digits_cons ds1 r1), (tokenize_digits_cons ds2 r2) by assumption.
  apply numeric_numerically. exact Hlt.
Qed.
Theorem str_numeric_above_alpha b al ds r1 r2 :
  ends_sep b = true -> al <> [] -> ds <> [] -> all_alpha al -> all_digits ds ->
  not_alpha_start r1 -> not_digit_start r2 ->
  vop OpLt (tokenize (b ++ al ++ r1)) (tokenize (b ++ ds ++ r2)) = true.
Proof.
  intros Hb N1 N2 D1 D2 R1 R2.
  rewrite (tokenize_after_boundary b (al ++ r1) Hb), (tokenize_after_boundary b (ds ++ r2) Hb).
  rewrite (tokenize_alpha_cons al r1), (tokenize_digits_cons ds r2) by assumption.
  apply numeric_above_alpha.
Qed.
Theorem str_longer_is_greater a c q :
  is_sep c = true -> tokenize q <> [] ->
  vop OpLt (tokenize a) (tokenize (a ++ c :: q)) = true.
Proof.
  intros Hc Hq. rewrite tokenize_app_sep by exact Hc.
  destruct (tokenize q) as [|x r]; [congruence|]. apply longer_is_greater.
Qed.

(* Version(s) raises (ValueError of int()) only on a digit run beyond the limit *)
Lemma run_over_length lim s : forall cur, run_over lim s cur = true -> (lim < cur + length s)%nat.
Proof.
  induction s as [|c r IH]; intros cur; simpl; [discriminate|].
  destruct (is_udigit c).
  - destruct (Nat.ltb lim (S cur)) eqn:E.
    + intros _. apply Nat.ltb_lt in E. lia.
    + intro H. apply IH in H. lia.
  - intro H. apply IH in H. lia.
Qed.
Theorem version_init_short s : (length s <= int_max_str_digits)%nat -> version_init s = Some (tokenize s).
Proof.
  intro H. unfold version_init. destruct (run_over int_max_str_digits s 0) eqn:E; [|reflexivity].
  apply run_over_length in E. lia.
Qed.
Theorem version_init_value s v : version_init s = Some v -> v = tokenize s.
Proof. unfold version_init. destruct (run_over _ _ _); congruence. Qed.
Lemma run_over_digits lim ds rest : all_digits ds -> forall cur,
  ds <> [] -> (lim < cur + length ds)%nat -> run_over lim (ds ++ rest) cur = true.
Proof.
  unfold all_digits. induction ds as [|d ds IH]; intros Hd cur Hne Hl; simpl in *; [congruence|].
  apply andb_true_iff in Hd. destruct Hd as [Hd1 Hd2]. rewrite Hd1.
  destruct (Nat.ltb lim (S cur)) eqn:E; [reflexivity|]. apply Nat.ltb_ge in E.
  destruct ds as [|d2 ds]; [simpl in Hl; lia|].
  apply IH; [assumption | discriminate | simpl in *; lia].
Qed.
Lemma run_over_has lim pre ds post : all_digits ds -> (lim < length ds)%nat ->
  forall cur, run_over lim (pre ++ ds ++ post) cur = true.
Proof.
  intros Hd Hl. induction pre as [|c p IH]; intro cur.
  - simpl. apply run_over_digits; [assumption | destruct ds; simpl in Hl; [lia | discriminate] | lia].
  - simpl. destruct (is_udigit c); [destruct (Nat.ltb lim (S cur)); [reflexivity|]|]; apply IH.
Qed.
Lemma run_over_inv lim s : forall cur, run_over lim s cur = true ->
  exists pre ds post, s = pre ++ ds ++ post /\ all_digits ds /\
    ((lim < length ds)%nat \/ (pre = [] /\ (lim < cur + length ds)%nat)).
Proof.
  induction s as [|c r IH]; intros cur; simpl; [discriminate|].
  destruct (is_udigit c) eqn:Ec.
  - destruct (Nat.ltb lim (S cur)) eqn:E.
    + intros _. apply Nat.ltb_lt in E. exists [], [c], r. unfold all_digits. simpl. rewrite Ec.
      repeat split; try reflexivity. right. split; [reflexivity|lia].
    + intro H. destruct (IH _ H) as (pre & ds & post & -> & Hd & [Hl|[-> Hl]]).
      * exists (c :: pre), ds, post. repeat split; auto.
      * exists [], (c :: ds), post. unfold all_digits in *. simpl. rewrite Ec, Hd.
        repeat split; try reflexivity. right. split; [reflexivity|lia].
  - intro H. destruct (IH _ H) as (pre & ds & post & -> & Hd & [Hl|[-> Hl]]).
    + exists (c :: pre), ds, post. repeat split; auto.
    + exists [c], ds, post. repeat split; auto.
Qed.
(* Version(s) raises iff s has a run of more than 4300 decimal digits *)
Theorem version_init_raises_iff s :
  version_init s = None <->
  exists pre ds post, s = pre ++ ds ++ post /\ all_digits ds /\ (int_max_str_digits < length ds)%nat.
Proof.
  unfold version_init. split.
  - destruct (run_over int_max_str_digits s 0) eqn:E; [|discriminate]. intros _.
    destruct (run_over_inv _ _ _ E) as (pre & ds & post & H1 & H2 & [H3|[_ H3]]);
      exists pre, ds, post; repeat split; auto.
  - intros (pre & ds & post & -> & Hd & Hl). rewrite (run_over_has _ pre ds post Hd Hl 0%nat). reflexivity.
Qed.

(* ------------------------------------------------------------------ *)
(* version_compare agrees with the order, for every operator spelling   *)

Definition op_chars : list char := [c_lt; c_eq; c_gt; c_bang].
Definition no_op_prefix (w : str) : bool :=
  match w with c :: _ => negb (memb c op_chars) | [] => true end.

Definition spellings : list (str * cmpop) :=
  [([c_gt; c_eq], OpGe); ([c_lt; c_eq], OpLe); ([c_bang; c_eq], OpNe);
   ([c_eq; c_eq], OpEq); ([c_eq], OpEq); ([c_gt], OpGt); ([c_lt], OpLt); ([], OpEq)].

Lemma extract_cmpop_spelling sp o w :
  In (sp, o) spellings -> no_op_prefix w = true -> extract_cmpop (sp ++ w) = (o, strip w).
Proof.
  intros Hin Hw. unfold spellings in Hin. simpl in Hin.
  destruct w as [|c w].
  - repeat (destruct Hin as [Hin|Hin]; [inversion Hin; subst; reflexivity|]). contradiction.
  - simpl in Hw. unfold op_chars, memb in Hw.
    rewrite !negb_orb in Hw. rewrite !andb_true_iff in Hw. rewrite !negb_true_iff in Hw.
    destruct Hw as (H1 & H2 & H3 & H4 & _).
    assert (H1' := H1). assert (H2' := H2). assert (H3' := H3). assert (H4' := H4).
    rewrite N.eqb_sym in H1', H2', H3', H4'.
    repeat (destruct Hin as [Hin|Hin];
      [inversion Hin; subst; unfold extract_cmpop; cbn [prefixb app];
       rewrite ?N.eqb_refl, ?H1', ?H2', ?H3', ?H4'; cbn [andb drop];
       try reflexivity|]).
    all: try contradiction.
Qed.

Theorem version_compare_agrees sp o v w :
  In (sp, o) spellings -> no_op_prefix w = true ->
  version_compare v (sp ++ w) = vop o (tokenize v) (tokenize (strip w)).
Proof.
  intros. unfold version_compare. rewrite (extract_cmpop_spelling sp o w) by assumption. reflexivity.
Qed.

(* version_compare is always one of the six relations on the tokenized versions
   (no guard): the operator found and the version text are those of extract_cmpop. *)
Theorem version_compare_total v c :
  version_compare v c = sat (tokenize v) c.
Proof. unfold version_compare, sat. destruct (extract_cmpop c). reflexivity. Qed.

(* constraint lists *)
Theorem compare_many_found v cs :
  snd (compare_many v cs) = filter (version_compare v) cs /\
  fst (compare_many v cs) = filter (fun c => negb (version_compare v c)) cs.
Proof.
  induction cs as [|c r [IH1 IH2]]; simpl; [auto|].
  destruct (compare_many v r) as [nf f]. simpl in *.
  destruct (version_compare v c); simpl; subst; auto.
Qed.
Theorem compare_many_ok_iff v cs :
  compare_many_ok v cs = forallb (version_compare v) cs.
Proof.
  unfold compare_many_ok. destruct (compare_many_found v cs) as [_ H]. rewrite H. clear H.
  induction cs as [|c r IH]; simpl; [reflexivity|].
  destruct (version_compare v c); simpl; [exact IH | reflexivity].
Qed.

(* ------------------------------------------------------------------ *)
(* Range algebra                                                        *)

Definition lo_ok (m : option ver) (e : bool) (x : ver) : Prop :=
  match m with None => True | Some m => if e then VO.le m x else VO.lt m x end.
Definition hi_ok (m : option ver) (e : bool) (x : ver) : Prop :=
  match m with None => True | Some m => if e then VO.le x m else VO.lt x m end.
Definition InR (r : range) (x : ver) : Prop :=
  lo_ok (rmin r) (rmin_eq r) x /\ hi_ok (rmax r) (rmax_eq r) x.

(* declarative meaning of membership *)
Theorem contains_spec r x :
  contains r x = true <-> rempty r = false /\ InR r x.
Proof.
  unfold contains, InR, lo_ok, hi_ok.
  destruct r as [mn mne mx mxe e]; simpl.
  destruct e; [split; [discriminate | intros [? _]; discriminate]|].
  destruct mn as [mn|], mx as [mx|], mne, mxe; repeat vcase;
    (split; [intros ?; try discriminate; splits; VT.order
            | intros (_ & ? & ?); try reflexivity; exfalso; VT.order]).
Qed.

Lemma empty_contains r x : rempty r = true -> contains r x = false.
Proof. unfold contains. intros ->. reflexivity. Qed.

Lemma intersect_min_empty r v e : rempty (intersect_min r v e) = rempty r.
Proof. unfold intersect_min. destruct (rmin r); repeat vcase; reflexivity. Qed.
Lemma intersect_max_empty r v e : rempty (intersect_max r v e) = rempty r.
Proof. unfold intersect_max. destruct (rmax r); repeat vcase; reflexivity. Qed.

Lemma InR_intersect_min r v e x :
  InR (intersect_min r v e) x <-> InR r x /\ lo_ok (Some v) e x.
Proof.
  unfold intersect_min, InR, lo_ok, hi_ok. destruct r as [mn mne mx mxe em]; simpl.
  destruct mn as [mn|]; [|simpl; tauto].
  repeat vcase; simpl; destruct e, mne; simpl;
    (split; [intros [? ?]; splits; try assumption; VT.order
            | intros [[? ?] ?]; splits; try assumption; VT.order]).
Qed.
Lemma InR_intersect_max r v e x :
  InR (intersect_max r v e) x <-> InR r x /\ hi_ok (Some v) e x.
Proof.
  unfold intersect_max, InR, lo_ok, hi_ok. destruct r as [mn mne mx mxe em]; simpl.
  destruct mx as [mx|]; [|simpl; tauto].
  repeat vcase; simpl; destruct e, mxe; simpl;
    (split; [intros [? ?]; splits; try assumption; VT.order
            | intros [[? ?] ?]; splits; try assumption; VT.order]).
Qed.

Lemma contains_post_init r x :
  rempty r = false -> (contains (post_init r) x = true <-> InR r x).
Proof.
  intro He. unfold post_init.
  destruct r as [mn mne mx mxe em]; simpl in *. subst em.
  destruct mn as [mn|], mx as [mx|];
    try (rewrite contains_spec; simpl; tauto).
  repeat vcase.
  - rewrite contains_spec; simpl; tauto.
  - destruct mne, mxe; simpl;
      try (rewrite contains_spec; simpl; tauto);
      (split; [discriminate | unfold InR, lo_ok, hi_ok; simpl; intros [? ?]; exfalso; VT.order]).
  - simpl. split; [discriminate|].
    unfold InR, lo_ok, hi_ok; simpl. destruct mne, mxe; intros [? ?]; exfalso; VT.order.
Qed.

(* a version lies in intersect(a,b) iff it lies in both *)
Theorem intersect_spec a b x :
  contains (intersect a b) x = contains a x && contains b x.
Proof.
  unfold intersect.
  destruct (rempty b) eqn:Eb; [rewrite (empty_contains b x Eb), andb_false_r; reflexivity|].
  destruct (rempty a) eqn:Ea; [rewrite (empty_contains a x Ea); reflexivity|].
  apply eq_true_iff_eq. rewrite andb_true_iff, !contains_spec.
  set (r1 := match rmin b with Some v => intersect_min a v (rmin_eq b) | None => a end).
  set (r2 := match rmax b with Some v => intersect_max r1 v (rmax_eq b) | None => r1 end).
  assert (E1 : rempty r1 = false).
  { unfold r1. destruct (rmin b); [rewrite intersect_min_empty|]; assumption. }
  assert (E2 : rempty r2 = false).
  { unfold r2. destruct (rmax b); [rewrite intersect_max_empty|]; assumption. }
  rewrite <- contains_spec. rewrite (contains_post_init r2 x E2).
  assert (H2 : InR r2 x <-> InR r1 x /\ hi_ok (rmax b) (rmax_eq b) x).
  { unfold r2. destruct (rmax b); [apply InR_intersect_max | simpl; tauto]. }
  assert (H1 : InR r1 x <-> InR a x /\ lo_ok (rmin b) (rmin_eq b) x).
  { unfold r1. destruct (rmin b); [apply InR_intersect_min | simpl; tauto]. }
  rewrite H2, H1. unfold InR at 3. tauto.
Qed.

Arguments oveq : simpl never.
Lemma oveq_eq a b : oveq a b = true <-> a = b.
Proof.
  destruct a, b; unfold oveq; try (split; congruence).
  rewrite veq_eq. split; congruence.
Qed.
Lemma range_eqb_eq a b : range_eqb a b = true <-> a = b.
Proof.
  unfold range_eqb. rewrite !andb_true_iff, !oveq_eq, !eqb_true_iff.
  destruct a, b; simpl. split; [intros [[[[? ?] ?] ?] ?]; congruence | intro H; inversion H; auto].
Qed.

(* always() answers true only if every version in the range satisfies inner,
   false only if none does *)
Theorem always_true_sound a inner :
  always a inner = Some true -> forall x, contains a x = true -> contains inner x = true.
Proof.
  unfold always. intros H x Hx.
  destruct (rempty (intersect a inner)); [discriminate|].
  destruct (range_eqb (intersect a inner) a) eqn:E; [|discriminate].
  apply range_eqb_eq in E.
  assert (Hi := intersect_spec a inner x). rewrite E, Hx in Hi. simpl in Hi. congruence.
Qed.
Theorem always_false_sound a inner :
  always a inner = Some false -> forall x, contains a x = true -> contains inner x = false.
Proof.
  unfold always. intros H x Hx.
  destruct (rempty (intersect a inner)) eqn:E.
  - assert (Hi := intersect_spec a inner x). rewrite (empty_contains _ x E), Hx in Hi. simpl in Hi. congruence.
  - destruct (range_eqb (intersect a inner) a); discriminate.
Qed.

(* ranges built by the constructor *)
Lemma contains_Range mn mne mx mxe x :
  contains (Range mn mne mx mxe false) x = true <-> lo_ok mn mne x /\ hi_ok mx mxe x.
Proof. unfold Range. rewrite contains_post_init by reflexivity. unfold InR. simpl. tauto. Qed.

Lemma contains_any x : contains range_any x = true.
Proof. reflexivity. Qed.

Lemma sat_iff x c : sat x c = true <->
  sem (fst (extract_cmpop c)) x (tokenize (snd (extract_cmpop c))).
Proof. unfold sat. destruct (extract_cmpop c) as [o w]. simpl. apply vop_iff. Qed.

(* one step of version_check_to_range *)
Lemma check_step_sound start c x :
  contains start x = true -> sat x c = true -> contains (check_step start c) x = true.
Proof.
  intros Hs Hc. unfold check_step. apply sat_iff in Hc.
  destruct (extract_cmpop c) as [o w]. simpl in Hc.
  rewrite intersect_spec, Hs. simpl.
  destruct o; simpl in Hc;
    try (apply contains_Range; unfold lo_ok, hi_ok; split; try exact I; VT.order).
  (* != : only the extrema are removed *)
  apply contains_spec in Hs. destruct Hs as [_ [Hlo Hhi]].
  destruct (oveq (Some (tokenize w)) (rmin start)) eqn:E1;
  destruct (oveq (Some (tokenize w)) (rmax start)) eqn:E2;
  try apply oveq_eq in E1; try apply oveq_eq in E2;
  rewrite ?intersect_spec, ?andb_true_iff; splits;
  try apply contains_any;
  try (apply contains_Range; unfold lo_ok, hi_ok; split; try exact I);
  try (rewrite <- E1 in Hlo; unfold lo_ok in Hlo; destruct (rmin_eq start); VT.order);
  try (rewrite <- E2 in Hhi; unfold hi_ok in Hhi; destruct (rmax_eq start); VT.order).
Qed.

Lemma check_step_complete start c x :
  contains (check_step start c) x = true ->
  contains start x = true /\ (is_ne_check c = false -> sat x c = true).
Proof.
  unfold check_step, is_ne_check. rewrite sat_iff.
  destruct (extract_cmpop c) as [o w]. simpl.
  rewrite intersect_spec, andb_true_iff. intros [Hs Hr]. split; [exact Hs|].
  destruct o; intro Hne; try discriminate;
    apply contains_Range in Hr; unfold lo_ok, hi_ok in Hr; destruct Hr; simpl; VT.order.
Qed.

(* the range built from a list of checks contains every version satisfying all
   the checks ... *)
Theorem check_to_range_sound checks : forall start x,
  contains start x = true -> forallb (sat x) checks = true ->
  contains (check_to_range checks start) x = true.
Proof.
  unfold check_to_range. induction checks as [|c r IH]; intros start x Hs Hc; simpl in *; [exact Hs|].
  apply andb_true_iff in Hc. destruct Hc as [Hc1 Hc2].
  apply IH; [apply check_step_sound; assumption | exact Hc2].
Qed.
(* ... and no version violating one of its non-!= checks *)
Theorem check_to_range_complete checks : forall start x,
  contains (check_to_range checks start) x = true ->
  contains start x = true /\
  forallb (fun c => is_ne_check c || sat x c) checks = true.
Proof.
  unfold check_to_range. induction checks as [|c r IH]; intros start x H; simpl in *; [auto|].
  apply IH in H. destruct H as [H1 H2].
  apply check_step_complete in H1. destruct H1 as [H1 H3].
  split; [exact H1|]. rewrite H2, andb_true_r.
  destruct (is_ne_check c); [reflexivity|]. simpl. apply H3. reflexivity.
Qed.

(* ------------------------------------------------------------------ *)
(* Non-vacuity examples                                                 *)

Example ex_tok : tokenize (s2l "1.2rc3-beta") = [CNum 1; CNum 2; CAlpha (s2l "rc"); CNum 3; CAlpha (s2l "beta")].
Proof. vm_compute. reflexivity. Qed.
Example ex_order : vop OpLt (tokenize (s2l "1.9.rc1")) (tokenize (s2l "1.10")) = true
  /\ vop OpLt (tokenize (s2l "1.a")) (tokenize (s2l "1.0")) = true
  /\ vop OpEq (tokenize (s2l "1.0")) (tokenize (s2l "1_00")) = true.
Proof. vm_compute. auto. Qed.
Example ex_range_ne :
  let r := check_to_range [s2l ">=1.2"; s2l "!=1.2"; s2l "<2.0"] range_any in
  contains r (tokenize (s2l "1.2")) = false /\ contains r (tokenize (s2l "1.2.1")) = true
  /\ rmin_eq r = false.
Proof. vm_compute. auto. Qed.
Example ex_always :
  always (check_to_range [s2l ">=1.0"] range_any) (check_to_range [s2l ">=0.5"] range_any) = Some true
  /\ always (check_to_range [s2l "<1.0"] range_any) (check_to_range [s2l ">=1.5"] range_any) = Some false
  /\ always (check_to_range [s2l ">=1.0"] range_any) (check_to_range [s2l ">=1.5"] range_any) = None.
Proof. vm_compute. auto. Qed.
