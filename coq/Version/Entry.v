(* Version/Entry.v — entry points used by the correspondence check: every
   function takes its arguments as a list of strings and returns one canonical
   string.  Separator conventions are mirrored in harness/check_C19.py. *)
From MV Require Import Base.Strs Version.Model.
Open Scope N_scope.

Definition SEP1 : str := [1].   (* between fields *)
Definition SEP2 : str := [2].   (* between list items *)

Definition render_comp (c : comp) : str :=
  match c with CNum n => N_dec n | CAlpha s => s end.
Definition render_ver (v : ver) : str := join [46] (map render_comp v).
Definition render_over (o : option ver) : str :=
  match o with None => [45] | Some v => 86 :: render_ver v end.   (* "-" | "V…" *)
Definition render_range (r : range) : str :=
  join SEP1 [render_over (rmin r); bool_str (rmin_eq r);
             render_over (rmax r); bool_str (rmax_eq r); bool_str (rempty r)].
Definition render_obool (o : option bool) : str :=
  match o with None => [78] | Some b => bool_str b end.

Definition all_ops : list cmpop := [OpLt; OpLe; OpEq; OpNe; OpGe; OpGt].

(* split [a1..an; MARK; b1..bm] at the first element equal to [3] *)
Fixpoint split_mark (l : list str) : list str * list str :=
  match l with
  | [] => ([], [])
  | x :: r => if str_eqb x [3] then ([], r)
              else let '(a, b) := split_mark r in (x :: a, b)
  end.

Definition run (fn : str) (args : list str) : str :=
  if str_eqb fn (s2l "tok") then
    match args with [a] => render_ver (tokenize a) | _ => s2l "?" end
  else if str_eqb fn (s2l "cmp") then
    match args with
    | [a; b] => concat (map (fun o => bool_str (vop o (tokenize a) (tokenize b))) all_ops)
    | _ => s2l "?" end
  else if str_eqb fn (s2l "vc") then
    match args with [v; c] => bool_str (version_compare v c) | _ => s2l "?" end
  else if str_eqb fn (s2l "many") then
    match args with
    | v :: cs => let '(nf, f) := compare_many v cs in
        join SEP1 [bool_str (compare_many_ok v cs); join SEP2 nf; join SEP2 f]
    | _ => s2l "?" end
  else if str_eqb fn (s2l "range") then
    (* args: x, checks... -> range ; contains x *)
    match args with
    | x :: cs => let r := check_to_range cs range_any in
        join SEP1 [render_range r; bool_str (contains r (tokenize x))]
    | _ => s2l "?" end
  else if str_eqb fn (s2l "isect") then
    (* args: x, checksA..., MARK, checksB... *)
    match args with
    | x :: rest =>
        let '(ca, cb) := split_mark rest in
        let a := check_to_range ca range_any in
        let b := check_to_range cb range_any in
        let i := intersect a b in
        join SEP1 [render_range i; bool_str (contains i (tokenize x));
                   render_obool (always a b)]
    | _ => s2l "?" end
  else if str_eqb fn (s2l "cwm") then
    match args with [c; m] => bool_str (condition_with_min c m) | _ => s2l "?" end
  else s2l "?".
