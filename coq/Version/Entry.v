(* Version/Entry.v — entry points used by the correspondence check: every
   function takes its arguments as a list of strings and returns one canonical
   string.  Separator conventions are mirrored in harness/check_C19.py. *)
From MV Require Import Base.Strs Version.Model Version.Feature Version.Search.
Open Scope N_scope.

Definition SEP1 : str := [1].   (* between fields *)
Definition SEP2 : str := [2].   (* between list items *)

Definition render_comp (c : comp) : str :=
  match c with CNum n => N_dec n | CAlpha s => s end.
Definition render_ver (v : ver) : str := join [46] (map render_comp v).
Definition render_over (o : option ver) : str :=
  match o with None => [45] | Some v => 86 :: render_ver v end.   (* "-" | "V…" *)
Definition render_range (r : range) : str :=
  join SEP1 [render_over (rmin r); bool_str (rmin_eq r);
             render_over (rmax r); bool_str (rmax_eq r); bool_str (rempty r)].
Definition render_obool (o : option bool) : str :=
  match o with None => [78] | Some b => bool_str b end.

Definition all_ops : list cmpop := [OpLt; OpLe; OpEq; OpNe; OpGe; OpGt].

(* split [a1..an; MARK; b1..bm] at the first element equal to [3] *)
Fixpoint split_mark (l : list str) : list str * list str :=
  match l with
  | [] => ([], [])
  | x :: r => if str_eqb x [3] then ([], r)
              else let '(a, b) := split_mark r in (x :: a, b)
  end.

Definition SEP4 : str := [4].   (* between sections of a "feat" answer *)

(* split a string at every occurrence of the code point [sep] *)
Fixpoint split_on (sep : char) (s : str) (cur : str) : list str :=
  match s with
  | [] => [rev cur]
  | c :: r => if c =? sep then rev cur :: split_on sep r [] else split_on sep r (c :: cur)
  end.
Definition fields (s : str) : list str := match s with [] => [] | _ => split_on 2 s [] end.

(* Version(s) raising ValueError (int() digit limit) in one of the strings *)
Definition raises (l : list str) : bool :=
  existsb (fun s => match version_init s with None => true | Some _ => false end) l.
Definition EXC_ValueError : str := s2l "EXC:ValueError".

(* class of one code point as the tokenizer and strip() see it: the decimal value
   as an ASCII digit, 'a' for a letter, 's' for a blank, '-' otherwise *)
Definition class_char (c : char) : char :=
  match tokenize [49; c; 49] with
  | [CNum n] => 48 + (n - 101) / 10
  | [CNum 1; CAlpha _; CNum 1] => 97
  | [CNum 1; CNum 1] => if is_space c then 115 else 45
  | _ => 63
  end.
Fixpoint sweep (n : nat) (lo : N) : str :=
  match n with O => [] | S n' => class_char lo :: sweep n' (lo + 1) end.

Definition parse_kind (s : str) : fkind :=
  if str_eqb s (s2l "new") then FNew else if str_eqb s (s2l "dep") then FDeprecated else FBroken.

(* uses threaded through one registry: (warned flags, final registry) *)
Fixpoint run_uses (k : fkind) (major : str) (tv : target) (reg : registry) (us : list str)
  : str * registry :=
  match us with
  | [] => ([], reg)
  | u :: r =>
      match fields u with
      | [name; ver; loc] =>
          let '(reg', w) := use k major tv reg name ver loc in
          let '(ws, regf) := run_uses k major tv reg' r in
          (bool_str w ++ ws, regf)
      | _ => (s2l "?", reg)
      end
  end.
Definition use_flags (f : str -> str -> str -> str) (us : list str) : str :=
  concat (map (fun u => match fields u with [name; ver; loc] => f name ver loc | _ => s2l "?" end) us).

(* the always() answers met while entering the nested conditions *)
Fixpoint nested_always (prev : range) (conds : list (list str)) : str :=
  match conds with
  | [] => []
  | cs :: r => render_obool (conditional_always prev cs)
               ++ nested_always (intersect prev (check_to_range cs range_any)) r
  end.

Definition run (fn : str) (args : list str) : str :=
  if str_eqb fn (s2l "tok") then
    match args with [a] => if raises [a] then EXC_ValueError else render_ver (tokenize a) | _ => s2l "?" end
  else if str_eqb fn (s2l "cmp") then
    match args with
    | [a; b] => if raises [a; b] then EXC_ValueError else
                concat (map (fun o => bool_str (vop o (tokenize a) (tokenize b))) all_ops)
    | _ => s2l "?" end
  else if str_eqb fn (s2l "vc") then
    match args with
    | [v; c] => if raises [v; snd (extract_cmpop c)] then EXC_ValueError else bool_str (version_compare v c)
    | _ => s2l "?" end
  else if str_eqb fn (s2l "sweep") then
    match args with
    | [lo; n] => sweep (N.to_nat (digits_val n)) (digits_val lo)
    | _ => s2l "?" end
  else if str_eqb fn (s2l "search") then
    match args with [t] => search_version t | _ => s2l "?" end
  else if str_eqb fn (s2l "fnorm") then
    match args with [v] => feature_norm v | _ => s2l "?" end
  else if str_eqb fn (s2l "feat") then
    (* args: kind, major, tvkind (N|V|R), pv, cond..., MARK, use...   (cond = constraints
       joined by code point 2; use = name,version,location joined by code point 2) *)
    match args with
    | kind :: major :: tvk :: pv :: rest =>
        let k := parse_kind kind in
        let '(cs, us) := split_mark rest in
        let conds := map fields cs in
        let r := nested_range pv conds in
        let tv := if str_eqb tvk (s2l "R") then TgRange r
                  else if str_eqb tvk (s2l "V") then TgNoVersion else TgNone in
        let '(ws, reg) := run_uses k major tv [] us in
        join SEP4 [render_range r; nested_always (project_range pv) conds; ws;
                   use_flags (fun n v l => bool_str (registered reg v n l)) us;
                   use_flags (fun n v l => if registered reg v n l
                                           then bool_str (report_notice k major tv v) else [45]) us;
                   use_flags (fun n v l => if registered reg v n l
                                           then bool_str (report_notice_asis k major tv v) else [45]) us]
    | _ => s2l "?" end
  else if str_eqb fn (s2l "many") then
    match args with
    | v :: cs => let '(nf, f) := compare_many v cs in
        join SEP1 [bool_str (compare_many_ok v cs); join SEP2 nf; join SEP2 f]
    | _ => s2l "?" end
  else if str_eqb fn (s2l "range") then
    (* args: x, checks... -> range ; contains x *)
    match args with
    | x :: cs => let r := check_to_range cs range_any in
        join SEP1 [render_range r; bool_str (contains r (tokenize x))]
    | _ => s2l "?" end
  else if str_eqb fn (s2l "isect") then
    (* args: x, checksA..., MARK, checksB... *)
    match args with
    | x :: rest =>
        let '(ca, cb) := split_mark rest in
        let a := check_to_range ca range_any in
        let b := check_to_range cb range_any in
        let i := intersect a b in
        join SEP1 [render_range i; bool_str (contains i (tokenize x));
                   render_obool (always a b)]
    | _ => s2l "?" end
  else if str_eqb fn (s2l "cwm") then
    match args with [c; m] => bool_str (condition_with_min c m) | _ => s2l "?" end
  else s2l "?".
