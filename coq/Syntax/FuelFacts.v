(* Syntax/FuelFacts.v — the fuel of the recursive-descent parser model is sufficient: the
   out-of-fuel answer of Syntax/Parser.v is unreachable from [parse], i.e. the model's
   parser is total.

   The fuel of [P n] bounds the DEPTH of the chain of calls through the record (siblings
   share the same [P n]); every *_loop iteration is one more call.  Potential function:
   a call of function f on a state with k unread significant tokens answers something
   other than [Fuel] as soon as

       13 * k + rank f < n

   where rank f is the length of the longest chain of calls that f can make WITHOUT a
   token having been consumed in between:

       e10 0 | e9, method_call 1 | e8 2 | e7 3 | e6 4 | e5 5 | e4 6 | e3 7 | e2 8 | e1 9
       key_values, args_, line 10 | block_loop 11 | codeblock 12
       or/and/add/mul/postfix/kv/args/elif loops 0  (entered from a higher-ranked function
       or re-entered after a token was consumed)

   A call made with the same number of unread tokens goes to a function of strictly lower
   rank; every other call happens after at least one token was consumed (the operator, the
   comma, the bracket, the keyword, the eol ...), which pays 13 > every rank.  That a
   callee never gives tokens back ([all_le]) is proved first. *)
From MV Require Import Base.Strs Syntax.Lexer Syntax.Parser Syntax.Yield Syntax.ParserFacts.
From Coq Require Import Lia.
Open Scope nat_scope.

(* ------------------------------------------------------------------ the primitives *)
Lemma advance_nf st : advance st <> Fuel.
Proof.
  unfold advance. destruct (toks st) as [|t [|t2 r]]; try discriminate.
  destruct (lexerr st); discriminate.
Qed.
Lemma accept_nf k st : accept k st <> Fuel.
Proof.
  unfold accept. destruct (kind_beq (tk (cur st)) k); [|discriminate].
  destruct (advance st) as [s|q|] eqn:A; cbn [bind]; try discriminate.
  exfalso. exact (advance_nf st A).
Qed.
Lemma accept_any_nf q st : accept_any q st <> Fuel.
Proof.
  unfold accept_any. destruct (q (tk (cur st))); [|discriminate].
  destruct (advance st) as [s|e|] eqn:A; cbn [bind]; try discriminate.
  exfalso. exact (advance_nf st A).
Qed.
Lemma expect_nf k st : expect k st <> Fuel.
Proof.
  unfold expect. destruct (accept k st) as [[[t s]|]|q|] eqn:A; cbn [bind]; try discriminate.
  exfalso. exact (accept_nf k st A).
Qed.

(* an accepted token (never the end-of-input pseudo token) is one unread token less *)
Lemma accept_len k st t st' :
  k <> KEof -> accept k st = Ok (Some (t, st')) -> length (toks st) = S (length (toks st')).
Proof. intros Hk H. rewrite (accept_some k st t st' Hk H). reflexivity. Qed.
Lemma accept_any_len q st t st' :
  q KEof = false -> accept_any q st = Ok (Some (t, st')) -> length (toks st) = S (length (toks st')).
Proof. intros Hk H. rewrite (accept_any_some q st t st' Hk H). reflexivity. Qed.
Lemma expect_len k st t st' :
  k <> KEof -> expect k st = Ok (t, st') -> length (toks st) = S (length (toks st')).
Proof. intros Hk H. rewrite (expect_ok k st t st' Hk H). reflexivity. Qed.
Lemma advance_le st st' : advance st = Ok st' -> length (toks st') <= length (toks st).
Proof.
  intro H. apply advance_spec in H. destruct H as [[_ ->]|[t [Ht _]]]; [lia|].
  rewrite Ht. cbn [length]. lia.
Qed.

(* ------------------------------------------------------------------ no token is given back *)
Definition shr (st st' : pst) : Prop := length (toks st') <= length (toks st).

Definition l1 {A} (f : pst -> res (A * pst)) : Prop :=
  forall st a st', f st = Ok (a, st') -> shr st st'.
Definition l2 {A B} (f : B -> pst -> res (A * pst)) : Prop :=
  forall x st a st', f x st = Ok (a, st') -> shr st st'.
Definition l3 {A B C} (f : B -> C -> pst -> res (A * pst)) : Prop :=
  forall x y st a st', f x y st = Ok (a, st') -> shr st st'.
Definition l4 {A B C D} (f : B -> C -> D -> pst -> res (A * pst)) : Prop :=
  forall x y z st a st', f x y z st = Ok (a, st') -> shr st st'.

Record all_le (p : parsers) : Prop := {
  sh_e1 : l1 (p_e1 p); sh_e2 : l1 (p_e2 p); sh_or : l2 (p_or_loop p);
  sh_e3 : l1 (p_e3 p); sh_and : l2 (p_and_loop p); sh_e4 : l1 (p_e4 p);
  sh_e5 : l1 (p_e5 p); sh_add : l2 (p_add_loop p); sh_e6 : l1 (p_e6 p);
  sh_mul : l2 (p_mul_loop p); sh_e7 : l1 (p_e7 p); sh_e8 : l1 (p_e8 p);
  sh_post : l2 (p_postfix_loop p); sh_meth : l3 (p_method_call p);
  sh_e9 : l1 (p_e9 p); sh_e10 : l1 (p_e10 p);
  sh_kv : l1 (p_key_values p); sh_kvl : l4 (p_kv_loop p);
  sh_args : l1 (p_args_ p); sh_argsl : l4 (p_args_loop p);
  sh_line : l1 (p_line p); sh_elif : l2 (p_elif_loop p);
  sh_cb : l1 (p_codeblock p); sh_bl : l2 (p_block_loop p) }.

(* turn the recorded equations of successful calls into facts about the unread counts *)
Ltac len_facts p Hp :=
  repeat match goal with
  | E : accept ?k ?st = Ok (Some (?t, ?st')) |- _ =>
      apply (accept_len k st t st') in E; [ | kne ]
  | E : accept_any ?q ?st = Ok (Some (?t, ?st')) |- _ =>
      apply (accept_any_len q st t st') in E; [ | reflexivity ]
  | E : expect ?k ?st = Ok (?t, ?st') |- _ =>
      apply (expect_len k st t st') in E; [ | kne ]
  | E : advance _ = Ok _ |- _ => apply advance_le in E
  | E : accept _ _ = Ok None |- _ => clear E
  | E : accept_any _ _ = Ok None |- _ => clear E
  | E : p_e1 p _ = Ok _ |- _ => apply (sh_e1 p Hp) in E
  | E : p_e2 p _ = Ok _ |- _ => apply (sh_e2 p Hp) in E
  | E : p_e3 p _ = Ok _ |- _ => apply (sh_e3 p Hp) in E
  | E : p_e4 p _ = Ok _ |- _ => apply (sh_e4 p Hp) in E
  | E : p_e5 p _ = Ok _ |- _ => apply (sh_e5 p Hp) in E
  | E : p_e6 p _ = Ok _ |- _ => apply (sh_e6 p Hp) in E
  | E : p_e7 p _ = Ok _ |- _ => apply (sh_e7 p Hp) in E
  | E : p_e8 p _ = Ok _ |- _ => apply (sh_e8 p Hp) in E
  | E : p_e9 p _ = Ok _ |- _ => apply (sh_e9 p Hp) in E
  | E : p_e10 p _ = Ok _ |- _ => apply (sh_e10 p Hp) in E
  | E : p_line p _ = Ok _ |- _ => apply (sh_line p Hp) in E
  | E : p_or_loop p _ _ = Ok _ |- _ => apply (sh_or p Hp) in E
  | E : p_and_loop p _ _ = Ok _ |- _ => apply (sh_and p Hp) in E
  | E : p_add_loop p _ _ = Ok _ |- _ => apply (sh_add p Hp) in E
  | E : p_mul_loop p _ _ = Ok _ |- _ => apply (sh_mul p Hp) in E
  | E : p_postfix_loop p _ _ = Ok _ |- _ => apply (sh_post p Hp) in E
  | E : p_method_call p _ _ _ = Ok _ |- _ => apply (sh_meth p Hp) in E
  | E : p_key_values p _ = Ok _ |- _ => apply (sh_kv p Hp) in E
  | E : p_args_ p _ = Ok _ |- _ => apply (sh_args p Hp) in E
  | E : p_kv_loop p _ _ _ _ = Ok _ |- _ => apply (sh_kvl p Hp) in E
  | E : p_args_loop p _ _ _ _ = Ok _ |- _ => apply (sh_argsl p Hp) in E
  | E : p_elif_loop p _ _ = Ok _ |- _ => apply (sh_elif p Hp) in E
  | E : p_codeblock p _ = Ok _ |- _ => apply (sh_cb p Hp) in E
  | E : p_block_loop p _ _ = Ok _ |- _ => apply (sh_bl p Hp) in E
  end;
  unfold shr in *; rewrite ?toks_set_tern in *.

Ltac le_solve p Hp := repeat inv_step p Hp; len_facts p Hp; lia.

Section StepLe.
  Variable p : parsers.
  Hypothesis Hp : all_le p.

  Theorem step_le : all_le (step p).
  Proof.
    constructor.
    - intros st a st' H. cbn [step p_e1] in H. le_solve p Hp.
    - intros st a st' H. cbn [step p_e2] in H. le_solve p Hp.
    - intros x st a st' H. cbn [step p_or_loop] in H. le_solve p Hp.
    - intros st a st' H. cbn [step p_e3] in H. le_solve p Hp.
    - intros x st a st' H. cbn [step p_and_loop] in H. le_solve p Hp.
    - intros st a st' H. cbn [step p_e4] in H. le_solve p Hp.
    - intros st a st' H. cbn [step p_e5] in H. le_solve p Hp.
    - intros x st a st' H. cbn [step p_add_loop] in H. le_solve p Hp.
    - intros st a st' H. cbn [step p_e6] in H. le_solve p Hp.
    - intros x st a st' H. cbn [step p_mul_loop] in H. le_solve p Hp.
    - intros st a st' H. cbn [step p_e7] in H. le_solve p Hp.
    - intros st a st' H. cbn [step p_e8] in H. le_solve p Hp.
    - intros x st a st' H. cbn [step p_postfix_loop] in H. le_solve p Hp.
    - intros x y st a st' H. cbn [step p_method_call] in H. le_solve p Hp.
    - intros st a st' H. cbn [step p_e9] in H. le_solve p Hp.
    - intros st a st' H. cbn [step p_e10] in H.
      destruct (tk (cur st)); le_solve p Hp.
    - intros st a st' H. cbn [step p_key_values] in H. le_solve p Hp.
    - intros x y z st a st' H. cbn [step p_kv_loop] in H. le_solve p Hp.
    - intros st a st' H. cbn [step p_args_] in H. le_solve p Hp.
    - intros x y z st a st' H. cbn [step p_args_loop] in H. le_solve p Hp.
    - intros st a st' H. cbn [step p_line] in H. le_solve p Hp.
    - intros x st a st' H. cbn [step p_elif_loop] in H. le_solve p Hp.
    - intros st a st' H. cbn [step p_codeblock] in H. le_solve p Hp.
    - intros x st a st' H. cbn [step p_block_loop] in H. le_solve p Hp.
  Qed.
End StepLe.

Lemma fuel_le : all_le fuel_parsers.
Proof. constructor; repeat intro; discriminate. Qed.
Theorem P_le n : all_le (P n).
Proof. induction n as [|n IH]; [exact fuel_le | apply step_le; exact IH]. Qed.

(* ------------------------------------------------------------------ the potential *)
(* [all_nf n p]: with the parsers [p] (think [P n]) a call on a state with k unread tokens
   does not run out of fuel when 13 * k + rank < n. *)
Record all_nf (n : nat) (p : parsers) : Prop := {
  nf_e1 : forall st, 13 * length (toks st) + 9 < n -> p_e1 p st <> Fuel;
  nf_e2 : forall st, 13 * length (toks st) + 8 < n -> p_e2 p st <> Fuel;
  nf_or : forall l st, 13 * length (toks st) + 0 < n -> p_or_loop p l st <> Fuel;
  nf_e3 : forall st, 13 * length (toks st) + 7 < n -> p_e3 p st <> Fuel;
  nf_and : forall l st, 13 * length (toks st) + 0 < n -> p_and_loop p l st <> Fuel;
  nf_e4 : forall st, 13 * length (toks st) + 6 < n -> p_e4 p st <> Fuel;
  nf_e5 : forall st, 13 * length (toks st) + 5 < n -> p_e5 p st <> Fuel;
  nf_add : forall l st, 13 * length (toks st) + 0 < n -> p_add_loop p l st <> Fuel;
  nf_e6 : forall st, 13 * length (toks st) + 4 < n -> p_e6 p st <> Fuel;
  nf_mul : forall l st, 13 * length (toks st) + 0 < n -> p_mul_loop p l st <> Fuel;
  nf_e7 : forall st, 13 * length (toks st) + 3 < n -> p_e7 p st <> Fuel;
  nf_e8 : forall st, 13 * length (toks st) + 2 < n -> p_e8 p st <> Fuel;
  nf_post : forall l st, 13 * length (toks st) + 0 < n -> p_postfix_loop p l st <> Fuel;
  nf_meth : forall o d st, 13 * length (toks st) + 1 < n -> p_method_call p o d st <> Fuel;
  nf_e9 : forall st, 13 * length (toks st) + 1 < n -> p_e9 p st <> Fuel;
  nf_e10 : forall st, 13 * length (toks st) + 0 < n -> p_e10 p st <> Fuel;
  nf_kv : forall st, 13 * length (toks st) + 10 < n -> p_key_values p st <> Fuel;
  nf_kvl : forall s a c st, 13 * length (toks st) + 0 < n -> p_kv_loop p s a c st <> Fuel;
  nf_args : forall st, 13 * length (toks st) + 10 < n -> p_args_ p st <> Fuel;
  nf_argsl : forall s a c st, 13 * length (toks st) + 0 < n -> p_args_loop p s a c st <> Fuel;
  nf_line : forall st, 13 * length (toks st) + 10 < n -> p_line p st <> Fuel;
  nf_elif : forall i st, 13 * length (toks st) + 0 < n -> p_elif_loop p i st <> Fuel;
  nf_cb : forall st, 13 * length (toks st) + 12 < n -> p_codeblock p st <> Fuel;
  nf_bl : forall b st, 13 * length (toks st) + 11 < n -> p_block_loop p b st <> Fuel }.

(* inversion of the monadic code of a call that answered [Fuel]: every prefix of successful
   calls is recorded, the call that ran out of fuel is left as an equation [_ = Fuel] *)
Ltac inv_fuel :=
  match goal with
  | H : Ok _ = Fuel |- _ => discriminate H
  | H : Err _ = Fuel |- _ => discriminate H
  | H : Ok _ = Ok _ |- _ => inversion H; subst; clear H
  | H : Err _ = Ok _ |- _ => discriminate H
  | H : Fuel = Ok _ |- _ => discriminate H
  | H : bind ?r _ = Fuel |- _ =>
      let E := fresh "E" in destruct r eqn:E; cbn [bind] in H; [ | discriminate H | clear H ]
  | H : bind ?r _ = Ok _ |- _ =>
      let E := fresh "E" in destruct r eqn:E; cbn [bind] in H; [ | discriminate H | discriminate H ]
  | H : (let '(_, _) := ?x in _) = _ |- _ => destruct x
  | H : match ?o with Some _ => _ | None => _ end = _ |- _ =>
      let E := fresh "E" in destruct o eqn:E
  | H : (if ?b then _ else _) = _ |- _ => let E := fresh "E" in destruct b eqn:E
  end.

Ltac bound := rewrite ?toks_set_tern; lia.

(* the call that answered [Fuel] had enough fuel *)
Ltac close_fuel n p Hn :=
  match goal with
  | E : advance ?st = Fuel |- _ => exact (advance_nf st E)
  | E : accept ?k ?st = Fuel |- _ => exact (accept_nf k st E)
  | E : accept_any ?q ?st = Fuel |- _ => exact (accept_any_nf q st E)
  | E : expect ?k ?st = Fuel |- _ => exact (expect_nf k st E)
  | E : p_e1 p _ = Fuel |- _ => revert E; apply (nf_e1 n p Hn); bound
  | E : p_e2 p _ = Fuel |- _ => revert E; apply (nf_e2 n p Hn); bound
  | E : p_e3 p _ = Fuel |- _ => revert E; apply (nf_e3 n p Hn); bound
  | E : p_e4 p _ = Fuel |- _ => revert E; apply (nf_e4 n p Hn); bound
  | E : p_e5 p _ = Fuel |- _ => revert E; apply (nf_e5 n p Hn); bound
  | E : p_e6 p _ = Fuel |- _ => revert E; apply (nf_e6 n p Hn); bound
  | E : p_e7 p _ = Fuel |- _ => revert E; apply (nf_e7 n p Hn); bound
  | E : p_e8 p _ = Fuel |- _ => revert E; apply (nf_e8 n p Hn); bound
  | E : p_e9 p _ = Fuel |- _ => revert E; apply (nf_e9 n p Hn); bound
  | E : p_e10 p _ = Fuel |- _ => revert E; apply (nf_e10 n p Hn); bound
  | E : p_line p _ = Fuel |- _ => revert E; apply (nf_line n p Hn); bound
  | E : p_or_loop p _ _ = Fuel |- _ => revert E; apply (nf_or n p Hn); bound
  | E : p_and_loop p _ _ = Fuel |- _ => revert E; apply (nf_and n p Hn); bound
  | E : p_add_loop p _ _ = Fuel |- _ => revert E; apply (nf_add n p Hn); bound
  | E : p_mul_loop p _ _ = Fuel |- _ => revert E; apply (nf_mul n p Hn); bound
  | E : p_postfix_loop p _ _ = Fuel |- _ => revert E; apply (nf_post n p Hn); bound
  | E : p_method_call p _ _ _ = Fuel |- _ => revert E; apply (nf_meth n p Hn); bound
  | E : p_key_values p _ = Fuel |- _ => revert E; apply (nf_kv n p Hn); bound
  | E : p_args_ p _ = Fuel |- _ => revert E; apply (nf_args n p Hn); bound
  | E : p_kv_loop p _ _ _ _ = Fuel |- _ => revert E; apply (nf_kvl n p Hn); bound
  | E : p_args_loop p _ _ _ _ = Fuel |- _ => revert E; apply (nf_argsl n p Hn); bound
  | E : p_elif_loop p _ _ = Fuel |- _ => revert E; apply (nf_elif n p Hn); bound
  | E : p_codeblock p _ = Fuel |- _ => revert E; apply (nf_cb n p Hn); bound
  | E : p_block_loop p _ _ = Fuel |- _ => revert E; apply (nf_bl n p Hn); bound
  end.

Ltac nf_solve n p Hl Hn := repeat inv_fuel; len_facts p Hl; close_fuel n p Hn.

Section StepNf.
  Variable n : nat.
  Variable p : parsers.
  Hypothesis Hl : all_le p.
  Hypothesis Hn : all_nf n p.

  Theorem step_nf : all_nf (S n) (step p).
  Proof.
    constructor.
    - intros st B H. cbn [step p_e1] in H. nf_solve n p Hl Hn.
    - intros st B H. cbn [step p_e2] in H. nf_solve n p Hl Hn.
    - intros x st B H. cbn [step p_or_loop] in H. nf_solve n p Hl Hn.
    - intros st B H. cbn [step p_e3] in H. nf_solve n p Hl Hn.
    - intros x st B H. cbn [step p_and_loop] in H. nf_solve n p Hl Hn.
    - intros st B H. cbn [step p_e4] in H. nf_solve n p Hl Hn.
    - intros st B H. cbn [step p_e5] in H. nf_solve n p Hl Hn.
    - intros x st B H. cbn [step p_add_loop] in H. nf_solve n p Hl Hn.
    - intros st B H. cbn [step p_e6] in H. nf_solve n p Hl Hn.
    - intros x st B H. cbn [step p_mul_loop] in H. nf_solve n p Hl Hn.
    - intros st B H. cbn [step p_e7] in H. nf_solve n p Hl Hn.
    - intros st B H. cbn [step p_e8] in H. nf_solve n p Hl Hn.
    - intros x st B H. cbn [step p_postfix_loop] in H. nf_solve n p Hl Hn.
    - intros x y st B H. cbn [step p_method_call] in H. nf_solve n p Hl Hn.
    - intros st B H. cbn [step p_e9] in H. nf_solve n p Hl Hn.
    - intros st B H. cbn [step p_e10] in H.
      destruct (tk (cur st)); nf_solve n p Hl Hn.
    - intros st B H. cbn [step p_key_values] in H. nf_solve n p Hl Hn.
    - intros x y z st B H. cbn [step p_kv_loop] in H. nf_solve n p Hl Hn.
    - intros st B H. cbn [step p_args_] in H. nf_solve n p Hl Hn.
    - intros x y z st B H. cbn [step p_args_loop] in H. nf_solve n p Hl Hn.
    - intros st B H. cbn [step p_line] in H. nf_solve n p Hl Hn.
    - intros x st B H. cbn [step p_elif_loop] in H. nf_solve n p Hl Hn.
    - intros st B H. cbn [step p_codeblock] in H. nf_solve n p Hl Hn.
    - intros x st B H. cbn [step p_block_loop] in H. nf_solve n p Hl Hn.
  Qed.
End StepNf.

Lemma fuel_nf : all_nf 0 fuel_parsers.
Proof. constructor; intros; lia. Qed.
Theorem P_nf n : all_nf n (P n).
Proof.
  induction n as [|n IH]; [exact fuel_nf|].
  cbn [P]. apply step_nf; [apply P_le | exact IH].
Qed.

(* ------------------------------------------------------------------ the theorems *)
(* The sharp form: 13 per unread token plus 13. *)
Theorem parse_tokens_enough_fuel_sharp : forall st n,
  n >= 13 * length (toks st) + 13 -> parse_tokens n st <> Fuel.
Proof.
  intros st n B H. unfold parse_tokens in H.
  destruct (p_codeblock (P n) st) as [[b st1]|q|] eqn:E; cbn [bind] in H; try discriminate.
  - destruct (expect KEof st1) as [[t st2]|q|] eqn:X; cbn [bind] in H; try discriminate.
    exact (expect_nf KEof st1 X).
  - revert E. apply (nf_cb n (P n) (P_nf n)). lia.
Qed.

(* The bound [parser_fuel] that [parse] uses is more than enough. *)
Theorem parse_tokens_enough_fuel : forall st n,
  n >= 30 * length (toks st) + 60 -> parse_tokens n st <> Fuel.
Proof. intros st n B. apply parse_tokens_enough_fuel_sharp. lia. Qed.

(* The model's parse is total: it never answers "out of fuel". *)
Theorem parse_never_fuel : forall s, parse s <> Fuel.
Proof.
  intros s. unfold parse. destruct s as [|c r].
  - apply parse_tokens_enough_fuel. unfold parser_fuel. cbn [toks length]. lia.
  - destruct (N.eqb c c_bom); [discriminate|].
    destruct (lex_prefix (length (c :: r)) (c :: r) init_lst) as [ts e].
    cbv zeta.
    destruct (significant ts) as [|t0 sg]; destruct e as [q|]; try discriminate;
      apply parse_tokens_enough_fuel; unfold parser_fuel; cbn [toks]; lia.
Qed.

(* Every text is either rejected with a position or parsed. *)
Corollary parse_total : forall s, (exists p, parse s = Err p) \/ (exists b, parse s = Ok b).
Proof.
  intros s. destruct (parse s) as [b|p|] eqn:E.
  - right. exists b. reflexivity.
  - left. exists p. reflexivity.
  - exfalso. exact (parse_never_fuel s E).
Qed.

(* The additive constant of the sharp form cannot be lowered: on the empty token stream the
   chain codeblock, block_loop, line, e1 ... e10 is 13 calls deep (so [Fuel] is a reachable
   answer of [parse_tokens] with too little fuel, and the theorems above are not vacuous). *)
Example fuel_12_not_enough : parse_tokens 12 (mkP [] None (0, 0)%N false) = Fuel.
Proof. vm_compute. reflexivity. Qed.
Example fuel_13_enough : parse_tokens 13 (mkP [] None (0, 0)%N false) <> Fuel.
Proof. vm_compute. discriminate. Qed.
