(* Syntax/Lexer.v — executable model of mesonbuild/mparser.py:93-238 (class Lexer).
   Regexes are transcribed as hand-written scanners, tried in the order of
   token_specification.  No proofs in this file. *)
From MV Require Export Base.Strs.
Open Scope N_scope.

Inductive kind :=
| KWs | KMFStr | KFStr | KId | KNum | KMStr | KComment | KStr
| KPlusAssign | KEqual | KNEqual | KLe | KGe
| KEol | KLParen | KRParen | KLBracket | KRBracket | KLCurl | KRCurl
| KComma | KDot | KPlus | KDash | KStar | KPercent | KFSlash | KColon | KAssign
| KLt | KGt | KQuestion
| KTrue | KFalse | KIf | KElse | KElif | KEndif | KAnd | KOr | KNot
| KForeach | KEndforeach | KIn | KContinue | KBreak | KEof.
Scheme Equality for kind.   (* kind_beq, kind_eq_dec; axiom-free *)

(* A token: kind, raw matched text (quotes included), the position the lexer
   records (lineno, colno) and its start offset (bytespan[0], in code points). *)
Record token := mkTok { tk : kind; ttext : str; tline : N; tcol : N; tstart : N }.

Definition c_nl : char := 10.
Definition c_sq : char := 39.     (* ' *)
Definition c_bs : char := 92.     (* \ *)
Definition c_hash : char := 35.
Definition c_f : char := 102.

Definition is_blank (c : char) : bool := (c =? 32) || (c =? 9).
Definition is_id_start (c : char) : bool := (c =? 95) || is_alpha c.
Definition is_id_char (c : char) : bool := (c =? 95) || is_alnum c.
Definition is_bin (c : char) : bool := (c =? 48) || (c =? 49).
Definition is_oct (c : char) : bool := (48 <=? c) && (c <=? 55).
Definition is_hex (c : char) : bool :=
  is_digit c || ((97 <=? c) && (c <=? 102)) || ((65 <=? c) && (c <=? 70)).
Definition not_nl (c : char) : bool := negb (c =? c_nl).

(* length of the longest prefix whose characters satisfy p *)
Fixpoint span (p : char -> bool) (s : str) : nat :=
  match s with
  | c :: r => if p c then S (span p r) else O
  | [] => O
  end.

Definition nz (n : nat) : option nat := match n with O => None | _ => Some n end.

(* ('whitespace', r'[ \t]+') *)
Definition m_ws (s : str) : option nat := nz (span is_blank s).

(* number of characters before the first occurrence of ''' *)
Fixpoint find_triple (s : str) : option nat :=
  match s with
  | [] => None
  | c :: r =>
      if (c =? c_sq) && prefixb [c_sq; c_sq] r then Some O
      else match find_triple r with Some k => Some (S k) | None => None end
  end.

(* ('multiline_fstring', r"f'''(.|\n)*?'''") *)
Definition m_mfstr (s : str) : option nat :=
  if prefixb [c_f; c_sq; c_sq; c_sq] s then
    match find_triple (drop 4 s) with Some k => Some (4 + k + 3)%nat | None => None end
  else None.
(* ('multiline_string', r"'''(.|\n)*?'''") *)
Definition m_mstr (s : str) : option nat :=
  if prefixb [c_sq; c_sq; c_sq] s then
    match find_triple (drop 3 s) with Some k => Some (3 + k + 3)%nat | None => None end
  else None.

(* body and closing quote of r"'([^'\\]|(\\.))*'" : number of characters up to and
   including the closing quote.  '.' does not match a newline. *)
Fixpoint scan_str (s : str) : option nat :=
  match s with
  | [] => None
  | c :: r =>
      if c =? c_sq then Some 1%nat
      else if c =? c_bs then
        match r with
        | [] => None
        | d :: r' =>
            if d =? c_nl then None
            else match scan_str r' with Some k => Some (S (S k)) | None => None end
        end
      else match scan_str r with Some k => Some (S k) | None => None end
  end.
(* ('fstring', r"f'([^'\\]|(\\.))*'") *)
Definition m_fstr (s : str) : option nat :=
  match s with
  | a :: b :: r => if (a =? c_f) && (b =? c_sq) then
                     match scan_str r with Some k => Some (2 + k)%nat | None => None end
                   else None
  | _ => None
  end.
(* ('string', r"'([^'\\]|(\\.))*'") *)
Definition m_str (s : str) : option nat :=
  match s with
  | a :: r => if a =? c_sq then
                match scan_str r with Some k => Some (1 + k)%nat | None => None end
              else None
  | _ => None
  end.

(* ('id', r'[_a-zA-Z][_0-9a-zA-Z]*') *)
Definition m_id (s : str) : option nat :=
  match s with
  | c :: r => if is_id_start c then Some (S (span is_id_char r)) else None
  | [] => None
  end.

(* ('number', r'0[bB][01]+|0[oO][0-7]+|0[xX][0-9a-fA-F]+|0|[1-9]\d*') — ordered alternation *)
Definition m_num (s : str) : option nat :=
  match s with
  | c :: r =>
      if c =? 48 then
        match r with
        | x :: r' =>
            if ((x =? 98) || (x =? 66)) && negb (Nat.eqb (span is_bin r') 0) then Some (2 + span is_bin r')%nat
            else if ((x =? 111) || (x =? 79)) && negb (Nat.eqb (span is_oct r') 0) then Some (2 + span is_oct r')%nat
            else if ((x =? 120) || (x =? 88)) && negb (Nat.eqb (span is_hex r') 0) then Some (2 + span is_hex r')%nat
            else Some 1%nat
        | [] => Some 1%nat
        end
      else if (49 <=? c) && (c <=? 57) then Some (S (span is_digit r))
      else None
  | [] => None
  end.

(* eol_cont: backslash, blanks, optional comment up to end of line, newline *)
Definition m_eol_cont (s : str) : option nat :=
  match s with
  | c :: r =>
      if c =? c_bs then
        let b := span is_blank r in
        let r1 := drop b r in
        match r1 with
        | d :: r2 =>
            if d =? c_nl then Some (1 + b + 1)%nat
            else if d =? c_hash then
              let k := span not_nl r2 in
              match drop k r2 with
              | e :: _ => if e =? c_nl then Some (1 + b + 1 + k + 1)%nat else None
              | [] => None
              end
            else None
        | [] => None
        end
      else None
  | [] => None
  end.

(* comment: hash, then everything up to (not including) the newline *)
Definition m_comment (s : str) : option nat :=
  match s with
  | c :: r => if c =? c_hash then Some (S (span not_nl r)) else None
  | [] => None
  end.

Definition m_two (a b : char) (s : str) : option nat :=
  if prefixb [a; b] s then Some 2%nat else None.

(* single_char_tokens *)
Definition single_char (c : char) : option kind :=
  if c =? 10 then Some KEol else if c =? 40 then Some KLParen else if c =? 41 then Some KRParen
  else if c =? 91 then Some KLBracket else if c =? 93 then Some KRBracket
  else if c =? 123 then Some KLCurl else if c =? 125 then Some KRCurl
  else if c =? 44 then Some KComma else if c =? 46 then Some KDot
  else if c =? 43 then Some KPlus else if c =? 45 then Some KDash
  else if c =? 42 then Some KStar else if c =? 37 then Some KPercent
  else if c =? 47 then Some KFSlash else if c =? 58 then Some KColon
  else if c =? 61 then Some KAssign else if c =? 60 then Some KLt
  else if c =? 62 then Some KGt else if c =? 63 then Some KQuestion
  else None.

(* self.keywords (without the unit-test-only testcase/endtestcase) *)
Definition keyword (v : str) : option kind :=
  if str_eqb v (s2l "true") then Some KTrue else if str_eqb v (s2l "false") then Some KFalse
  else if str_eqb v (s2l "if") then Some KIf else if str_eqb v (s2l "else") then Some KElse
  else if str_eqb v (s2l "elif") then Some KElif else if str_eqb v (s2l "endif") then Some KEndif
  else if str_eqb v (s2l "and") then Some KAnd else if str_eqb v (s2l "or") then Some KOr
  else if str_eqb v (s2l "not") then Some KNot else if str_eqb v (s2l "foreach") then Some KForeach
  else if str_eqb v (s2l "endforeach") then Some KEndforeach else if str_eqb v (s2l "in") then Some KIn
  else if str_eqb v (s2l "continue") then Some KContinue else if str_eqb v (s2l "break") then Some KBreak
  else None.

(* Outcome of matching one token at the head of [s]. *)
Inductive raw := RTok (k : kind) (len : nat) | RDblQuote | RBad.

Inductive rawkind := RK (k : kind) | RKEolCont.

Definition first_match (s : str) : option (rawkind * nat) :=
  match m_ws s with Some n => Some (RK KWs, n) | None =>
  match m_mfstr s with Some n => Some (RK KMFStr, n) | None =>
  match m_fstr s with Some n => Some (RK KFStr, n) | None =>
  match m_id s with Some n => Some (RK KId, n) | None =>
  match m_num s with Some n => Some (RK KNum, n) | None =>
  match m_eol_cont s with Some n => Some (RKEolCont, n) | None =>
  match m_mstr s with Some n => Some (RK KMStr, n) | None =>
  match m_comment s with Some n => Some (RK KComment, n) | None =>
  match m_str s with Some n => Some (RK KStr, n) | None =>
  match m_two 43 61 s with Some n => Some (RK KPlusAssign, n) | None =>
  match m_two 61 61 s with Some n => Some (RK KEqual, n) | None =>
  match m_two 33 61 s with Some n => Some (RK KNEqual, n) | None =>
  match m_two 60 61 s with Some n => Some (RK KLe, n) | None =>
  match m_two 62 61 s with Some n => Some (RK KGe, n) | None => None
  end end end end end end end end end end end end end end.

(* lexer state: offset, line_start, lineno, paren/bracket/curl counters *)
Record lst := mkL { l_off : N; l_ls : N; l_line : N; l_par : Z; l_brk : Z; l_curl : Z }.

Definition count_nl (s : str) : N := N.of_nat (length (filter (fun c => c =? c_nl) s)).
(* length of the part after the last newline *)
Definition after_last_nl (s : str) : N := N.of_nat (span not_nl (rev s)).

Inductive lexres := LOk (ts : list token) | LErr (line col : N).

Definition nlen (n : nat) : N := N.of_nat n.

(* One iteration of the while loop of Lexer.lex: mparser.py:160-231.
   Returns the token, the state after it, or an error position. *)
Inductive stepres := SOk (t : token) (st' : lst) (len : nat) | SErr (line col : N).

Definition is_multi (k : kind) : bool :=
  match k with KMStr | KMFStr | KStr | KFStr => true | _ => false end.

(* A regex token of kind k with text txt (n characters).  Multi-line tokens move
   lineno/line_start: for 'string'/'fstring' this is the behaviour after the fix "lexer
   lost track of lines after a quoted string containing a newline"; for the triple-quoted
   forms it is mparser.py:219-224 (len(lines[-1]) + 3 = characters after the last newline). *)
Definition tok_step (k : kind) (txt : str) (n : nat) (st : lst) : stepres :=
  let col := l_off st - l_ls st in
  let off' := l_off st + nlen n in
  let nls := count_nl txt in
  if is_multi k && negb (nls =? 0) then
    SOk (mkTok k txt (l_line st) col (l_off st))
        (mkL off' (off' - after_last_nl txt) (l_line st + nls) (l_par st) (l_brk st) (l_curl st)) n
  else
    SOk (mkTok k txt (l_line st) col (l_off st))
        (mkL off' (l_ls st) (l_line st) (l_par st) (l_brk st) (l_curl st)) n.

Definition lex_step (s : str) (st : lst) : stepres :=
  let col := l_off st - l_ls st in
  match first_match s with
  | Some (rk, n) =>
      let txt := firstn n s in
      let off' := l_off st + nlen n in
      match rk with
      | RKEolCont =>
          SOk (mkTok KWs txt (l_line st) col (l_off st))
              (mkL off' off' (l_line st + 1) (l_par st) (l_brk st) (l_curl st)) n
      | RK KId =>
          tok_step (match keyword txt with Some k => k | None => KId end) txt n st
      | RK k => tok_step k txt n st
      end
  | None =>
      match s with
      | [] => SErr (l_line st) col
      | c :: _ =>
          let off' := l_off st + 1 in
          let mk k p b cu ls ln :=
            SOk (mkTok k [c] (l_line st) col (l_off st)) (mkL off' ls ln p b cu) 1%nat in
          if c =? 34 then SErr (l_line st) col     (* dblquote *)
          else match single_char c with
          | None => SErr (l_line st) col           (* KeyError -> ParseException *)
          | Some KLParen => mk KLParen (l_par st + 1)%Z (l_brk st) (l_curl st) (l_ls st) (l_line st)
          | Some KRParen => mk KRParen (l_par st - 1)%Z (l_brk st) (l_curl st) (l_ls st) (l_line st)
          | Some KLBracket => mk KLBracket (l_par st) (l_brk st + 1)%Z (l_curl st) (l_ls st) (l_line st)
          | Some KRBracket => mk KRBracket (l_par st) (l_brk st - 1)%Z (l_curl st) (l_ls st) (l_line st)
          | Some KLCurl => mk KLCurl (l_par st) (l_brk st) (l_curl st + 1)%Z (l_ls st) (l_line st)
          | Some KRCurl => mk KRCurl (l_par st) (l_brk st) (l_curl st - 1)%Z (l_ls st) (l_line st)
          | Some KEol =>
              let k := if ((0 <? l_par st) || (0 <? l_brk st) || (0 <? l_curl st))%Z then KWs else KEol in
              mk k (l_par st) (l_brk st) (l_curl st) off' (l_line st + 1)
          | Some k => mk k (l_par st) (l_brk st) (l_curl st) (l_ls st) (l_line st)
          end
      end
  end.

(* The tokens produced before the lexer fails (if it does), and the error position.
   fuel = length of the text; every step consumes at least one character
   (Syntax/LexerFacts.v), so the fuel never runs out. *)
Fixpoint lex_prefix (fuel : nat) (s : str) (st : lst) : list token * option (N * N) :=
  match s with
  | [] => ([], None)
  | _ =>
    match fuel with
    | O => ([], None)
    | S f =>
        match lex_step s st with
        | SErr l c => ([], Some (l, c))
        | SOk t st' k => let '(ts, e) := lex_prefix f (drop k s) st' in (t :: ts, e)
        end
    end
  end.

Definition init_lst : lst := mkL 0 0 1 0 0 0.
Definition c_bom : char := 65279.

(* list(Lexer(code).lex()) : Lexer.__init__ rejects a leading BOM with lineno=0, colno=0. *)
Definition lex (s : str) : lexres :=
  match s with
  | c :: _ => if c =? c_bom then LErr 0 0 else
      match lex_prefix (length s) s init_lst with
      | (ts, None) => LOk ts
      | (_, Some (l, c)) => LErr l c
      end
  | [] => LOk []
  end.
