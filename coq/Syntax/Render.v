(* Syntax/Render.v — canonical rendering of tokens and trees for the correspondence
   check (mirrored by harness/impl/c02.py).  No proofs. *)
From MV Require Import Base.Strs Syntax.Lexer Syntax.Parser.
Open Scope N_scope.

Definition kind_name (k : kind) : str :=
  s2l match k with
  | KWs => "whitespace" | KMFStr => "multiline_fstring" | KFStr => "fstring" | KId => "id"
  | KNum => "number" | KMStr => "multiline_string" | KComment => "comment" | KStr => "string"
  | KPlusAssign => "plusassign" | KEqual => "equal" | KNEqual => "nequal" | KLe => "le" | KGe => "ge"
  | KEol => "eol" | KLParen => "lparen" | KRParen => "rparen" | KLBracket => "lbracket"
  | KRBracket => "rbracket" | KLCurl => "lcurl" | KRCurl => "rcurl" | KComma => "comma"
  | KDot => "dot" | KPlus => "plus" | KDash => "dash" | KStar => "star" | KPercent => "percent"
  | KFSlash => "fslash" | KColon => "colon" | KAssign => "assign" | KLt => "lt" | KGt => "gt"
  | KQuestion => "questionmark" | KTrue => "true" | KFalse => "false" | KIf => "if" | KElse => "else"
  | KElif => "elif" | KEndif => "endif" | KAnd => "and" | KOr => "or" | KNot => "not"
  | KForeach => "foreach" | KEndforeach => "endforeach" | KIn => "in" | KContinue => "continue"
  | KBreak => "break" | KEof => "eof"
  end.

Definition r_pos (p : pos) : str := 64 :: N_dec (fst p) ++ 58 :: N_dec (snd p).   (* @l:c *)
Definition r_span (p e : pos) : str := r_pos p ++ 45 :: N_dec (fst e) ++ 58 :: N_dec (snd e).
Definition after (t : token) : pos := (tline t, tcol t + 1).
Definition paren (s : str) : str := 40 :: s ++ [41].
Definition brack (s : str) : str := 91 :: s ++ [93].
Definition brace (s : str) : str := 123 :: s ++ [125].
Definition semi : str := [59].

Definition r_token (t : token) : str :=
  kind_name (tk t) ++ r_pos (tpos t) ++ 58 :: N_dec (tstart t) ++ paren (ttext t).
Definition r_tokens (ts : list token) : str := join [1] (map r_token ts).

Definition r_args_ (pa ka : str) (cms : list token) : str :=
  pa ++ 124 :: ka ++ 124 :: N_dec (N.of_nat (length cms)).

Fixpoint r_node (n : node) : str :=
  match n with
  | NEmpty p => s2l "E" ++ r_pos p
  | NBool t => s2l "B" ++ r_pos (tpos t) ++ paren (ttext t)
  | NId t => s2l "I" ++ r_pos (tpos t) ++ paren (ttext t)
  | NNum t => s2l "N" ++ r_pos (tpos t) ++ paren (ttext t)
  | NStr t => s2l "S" ++ r_pos (tpos t) ++ paren (ttext t)
  | NContinue _ p => s2l "Cont" ++ r_pos p
  | NBreak _ p => s2l "Brk" ++ r_pos p
  | NParen lp e rp => s2l "P" ++ r_span (tpos lp) (after rp) ++ brack (r_node e)
  | NArray lb a cms rb => s2l "A" ++ r_span (tpos lb) (after rb) ++ brack (r_args_ (r_pos_args a) (r_kw_args a) cms)
  | NDict lc a cms rc => s2l "D" ++ r_span (tpos lc) (after rc) ++ brack (r_args_ (r_pos_args a) (r_kw_args a) cms)
  | NFunc name lp a cms rp =>
      s2l "F" ++ r_span (tpos name) (after rp) ++ paren (ttext name) ++ brack (r_args_ (r_pos_args a) (r_kw_args a) cms)
  | NMethod obj dot name lp a cms rp =>
      s2l "M" ++ r_span (tpos name) (after rp) ++ paren (ttext name) ++ brack (r_node obj ++ semi ++ r_args_ (r_pos_args a) (r_kw_args a) cms)
  | NIndex obj lb idx rb => s2l "X" ++ r_pos (npos n) ++ brack (r_node obj ++ semi ++ r_node idx)
  | NNot _ p e => s2l "Not" ++ r_pos p ++ brack (r_node e)
  | NUMinus _ p e => s2l "Neg" ++ r_pos p ++ brack (r_node e)
  | NArith l op r => s2l "Ar" ++ r_pos (npos n) ++ paren (ttext op) ++ brack (r_node l ++ semi ++ r_node r)
  | NCmp l op r => s2l "Cmp" ++ r_pos (npos n) ++ paren (ttext op) ++ brack (r_node l ++ semi ++ r_node r)
  | NNotIn l _ _ r => s2l "Cmp" ++ r_pos (npos n) ++ paren (s2l "not in") ++ brack (r_node l ++ semi ++ r_node r)
  | NAnd l _ r => s2l "And" ++ r_pos (npos n) ++ brack (r_node l ++ semi ++ r_node r)
  | NOr l _ r => s2l "Or" ++ r_pos (npos n) ++ brack (r_node l ++ semi ++ r_node r)
  | NTernary c _ t _ f => s2l "T" ++ r_pos (npos n) ++ brack (r_node c ++ semi ++ r_node t ++ semi ++ r_node f)
  | NAssign name _ v => s2l "As" ++ r_pos (tpos name) ++ paren (ttext name) ++ brack (r_node v)
  | NPlusAssign name _ v => s2l "PAs" ++ r_pos (tpos name) ++ paren (ttext name) ++ brack (r_node v)
  | NIf i _ => s2l "If" ++ r_pos (npos n) ++ brack (r_ifs i)
  | NIfElse i _ _ b _ => s2l "If" ++ r_pos (npos n) ++ brack (r_ifs i ++ s2l "else" ++ brace (r_block b))
  | NForeach fe v1 cv2 _ items b _ =>
      s2l "Fe" ++ r_pos (tpos fe) ++
      paren (ttext v1 ++ match cv2 with Some (_, v2) => 44 :: ttext v2 | None => [] end) ++
      brack (r_node items ++ brace (r_block b))
  end
with r_pos_args (a : args) : str :=
  match a with
  | ANil => []
  | APos n r => r_node n ++ semi ++ r_pos_args r
  | AKw _ _ _ r => r_pos_args r
  end
with r_kw_args (a : args) : str :=
  match a with
  | ANil => []
  | APos _ r => r_kw_args r
  | AKw k _ v r => r_node k ++ 58 :: r_node v ++ semi ++ r_kw_args r
  end
with r_block (b : block) : str :=
  match b with
  | BNil => []
  | BLine n _ r => (if is_empty n then [] else r_node n ++ semi) ++ r_block r
  end
with r_ifs (i : ifs) : str :=
  match i with
  | INil => []
  | ICons _ c _ b r => r_node c ++ brace (r_block b) ++ semi ++ r_ifs r
  end.

Definition r_res (r : res block) : str :=
  match r with
  | Ok b => s2l "OK:" ++ r_block b
  | Err p => s2l "ERR" ++ r_pos p
  | Fuel => s2l "FUEL"
  end.
Definition r_lex (r : lexres) : str :=
  match r with
  | LOk ts => s2l "OK:" ++ r_tokens ts
  | LErr l c => s2l "ERR" ++ r_pos (l, c)
  end.
