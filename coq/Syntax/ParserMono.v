(* Syntax/ParserMono.v — the fuel of the recursive-descent parser model is only a recursion
   bound: a result obtained with some fuel is obtained with every larger fuel.  Also the
   "for all sufficiently large fuel" modality used by the print/parse round trip. *)
From MV Require Import Base.Strs Syntax.Lexer Syntax.Parser Syntax.Yield Syntax.ParserFacts.
From Coq Require Import Lia.
Open Scope nat_scope.

(* ------------------------------------------------------------------ eventually *)
Definition Ev (Q : nat -> Prop) : Prop := exists n0, forall n, n0 <= n -> Q n.

Lemma Ev_and Q1 Q2 : Ev Q1 -> Ev Q2 -> Ev (fun n => Q1 n /\ Q2 n).
Proof.
  intros [a Ha] [b Hb]. exists (a + b). intros n Hn. split; [apply Ha | apply Hb]; lia.
Qed.
Lemma Ev_impl (Q R : nat -> Prop) : (forall n, Q n -> R n) -> Ev Q -> Ev R.
Proof. intros H [a Ha]. exists a. intros n Hn. apply H, Ha, Hn. Qed.
Lemma Ev_all (R : nat -> Prop) : (forall n, R n) -> Ev R.
Proof. intros H. exists 0. intros n _. apply H. Qed.
Lemma Ev_step0 (R : nat -> Prop) : (forall n, R (S n)) -> Ev R.
Proof. intros H. exists 1. intros [|n] Hn; [lia | apply H]. Qed.
Lemma Ev_step1 (Q R : nat -> Prop) : Ev Q -> (forall n, Q n -> R (S n)) -> Ev R.
Proof.
  intros [a Ha] H. exists (S a). intros [|n] Hn; [lia|]. apply H, Ha. lia.
Qed.
Lemma Ev_step2 (Q1 Q2 R : nat -> Prop) : Ev Q1 -> Ev Q2 -> (forall n, Q1 n -> Q2 n -> R (S n)) -> Ev R.
Proof.
  intros H1 H2 H. apply (Ev_step1 _ R (Ev_and _ _ H1 H2)). intros n [A B]. apply H; assumption.
Qed.
Lemma Ev_step3 (Q1 Q2 Q3 R : nat -> Prop) :
  Ev Q1 -> Ev Q2 -> Ev Q3 -> (forall n, Q1 n -> Q2 n -> Q3 n -> R (S n)) -> Ev R.
Proof.
  intros H1 H2 H3 H. apply (Ev_step2 _ _ R (Ev_and _ _ H1 H2) H3). intros n [A B] C. apply H; assumption.
Qed.
Lemma Ev_step4 (Q1 Q2 Q3 Q4 R : nat -> Prop) :
  Ev Q1 -> Ev Q2 -> Ev Q3 -> Ev Q4 -> (forall n, Q1 n -> Q2 n -> Q3 n -> Q4 n -> R (S n)) -> Ev R.
Proof.
  intros H1 H2 H3 H4 H. apply (Ev_step3 _ _ _ R (Ev_and _ _ H1 H2) H3 H4). intros n [A B] C D. apply H; assumption.
Qed.
Lemma Ev_shift (Q : nat -> Prop) : Ev Q -> Ev (fun n => Q (S n)).
Proof. intros [a Ha]. exists a. intros n Hn. apply Ha. lia. Qed.

Lemma P_S n : P (S n) = step (P n).
Proof. reflexivity. Qed.

(* ------------------------------------------------------------------ monotonicity in the fuel *)
Definition m1 {A B} (f g : A -> res B) : Prop := forall a r, f a = Ok r -> g a = Ok r.
Definition m2 {A1 A2 B} (f g : A1 -> A2 -> res B) : Prop := forall a b r, f a b = Ok r -> g a b = Ok r.
Definition m3 {A1 A2 A3 B} (f g : A1 -> A2 -> A3 -> res B) : Prop :=
  forall a b c r, f a b c = Ok r -> g a b c = Ok r.
Definition m4 {A1 A2 A3 A4 B} (f g : A1 -> A2 -> A3 -> A4 -> res B) : Prop :=
  forall a b c d r, f a b c d = Ok r -> g a b c d = Ok r.

Record le_p (p q : parsers) : Prop := {
  le_e1 : m1 (p_e1 p) (p_e1 q); le_e2 : m1 (p_e2 p) (p_e2 q); le_or : m2 (p_or_loop p) (p_or_loop q);
  le_e3 : m1 (p_e3 p) (p_e3 q); le_and : m2 (p_and_loop p) (p_and_loop q); le_e4 : m1 (p_e4 p) (p_e4 q);
  le_e5 : m1 (p_e5 p) (p_e5 q); le_add : m2 (p_add_loop p) (p_add_loop q); le_e6 : m1 (p_e6 p) (p_e6 q);
  le_mul : m2 (p_mul_loop p) (p_mul_loop q); le_e7 : m1 (p_e7 p) (p_e7 q); le_e8 : m1 (p_e8 p) (p_e8 q);
  le_post : m2 (p_postfix_loop p) (p_postfix_loop q); le_meth : m3 (p_method_call p) (p_method_call q);
  le_e9 : m1 (p_e9 p) (p_e9 q); le_e10 : m1 (p_e10 p) (p_e10 q);
  le_kv : m1 (p_key_values p) (p_key_values q); le_kvl : m4 (p_kv_loop p) (p_kv_loop q);
  le_args : m1 (p_args_ p) (p_args_ q); le_argsl : m4 (p_args_loop p) (p_args_loop q);
  le_line : m1 (p_line p) (p_line q); le_elif : m2 (p_elif_loop p) (p_elif_loop q);
  le_cb : m1 (p_codeblock p) (p_codeblock q); le_bl : m2 (p_block_loop p) (p_block_loop q) }.

Ltac conv_calls p q Hle :=
  match goal with
  | E : p_e1 p _ = Ok _ |- _ => apply (le_e1 p q Hle) in E; rewrite E; cbn [bind]
  | E : p_e2 p _ = Ok _ |- _ => apply (le_e2 p q Hle) in E; rewrite E; cbn [bind]
  | E : p_e3 p _ = Ok _ |- _ => apply (le_e3 p q Hle) in E; rewrite E; cbn [bind]
  | E : p_e4 p _ = Ok _ |- _ => apply (le_e4 p q Hle) in E; rewrite E; cbn [bind]
  | E : p_e5 p _ = Ok _ |- _ => apply (le_e5 p q Hle) in E; rewrite E; cbn [bind]
  | E : p_e6 p _ = Ok _ |- _ => apply (le_e6 p q Hle) in E; rewrite E; cbn [bind]
  | E : p_e7 p _ = Ok _ |- _ => apply (le_e7 p q Hle) in E; rewrite E; cbn [bind]
  | E : p_e8 p _ = Ok _ |- _ => apply (le_e8 p q Hle) in E; rewrite E; cbn [bind]
  | E : p_e9 p _ = Ok _ |- _ => apply (le_e9 p q Hle) in E; rewrite E; cbn [bind]
  | E : p_e10 p _ = Ok _ |- _ => apply (le_e10 p q Hle) in E; rewrite E; cbn [bind]
  | E : p_line p _ = Ok _ |- _ => apply (le_line p q Hle) in E; rewrite E; cbn [bind]
  | E : p_or_loop p _ _ = Ok _ |- _ => apply (le_or p q Hle) in E; rewrite E; cbn [bind]
  | E : p_and_loop p _ _ = Ok _ |- _ => apply (le_and p q Hle) in E; rewrite E; cbn [bind]
  | E : p_add_loop p _ _ = Ok _ |- _ => apply (le_add p q Hle) in E; rewrite E; cbn [bind]
  | E : p_mul_loop p _ _ = Ok _ |- _ => apply (le_mul p q Hle) in E; rewrite E; cbn [bind]
  | E : p_postfix_loop p _ _ = Ok _ |- _ => apply (le_post p q Hle) in E; rewrite E; cbn [bind]
  | E : p_method_call p _ _ _ = Ok _ |- _ => apply (le_meth p q Hle) in E; rewrite E; cbn [bind]
  | E : p_key_values p _ = Ok _ |- _ => apply (le_kv p q Hle) in E; rewrite E; cbn [bind]
  | E : p_kv_loop p _ _ _ _ = Ok _ |- _ => apply (le_kvl p q Hle) in E; rewrite E; cbn [bind]
  | E : p_args_ p _ = Ok _ |- _ => apply (le_args p q Hle) in E; rewrite E; cbn [bind]
  | E : p_args_loop p _ _ _ _ = Ok _ |- _ => apply (le_argsl p q Hle) in E; rewrite E; cbn [bind]
  | E : p_elif_loop p _ _ = Ok _ |- _ => apply (le_elif p q Hle) in E; rewrite E; cbn [bind]
  | E : p_codeblock p _ = Ok _ |- _ => apply (le_cb p q Hle) in E; rewrite E; cbn [bind]
  | E : p_block_loop p _ _ = Ok _ |- _ => apply (le_bl p q Hle) in E; rewrite E; cbn [bind]
  end.

Ltac mono_tac p q Hle :=
  repeat (first [ conv_calls p q Hle | inv_step p Hle ]; cbn [bind]);
  try reflexivity; try assumption.

Section StepMono.
  Variables p q : parsers.
  Hypothesis Hle : le_p p q.

  Lemma mo_e1 : m1 (p_e1 (step p)) (p_e1 (step q)).
  Proof. intros st r H. cbn [step p_e1] in *. mono_tac p q Hle. Qed.
  Lemma mo_e2 : m1 (p_e2 (step p)) (p_e2 (step q)).
  Proof. intros st r H. cbn [step p_e2] in *. mono_tac p q Hle. Qed.
  Lemma mo_or : m2 (p_or_loop (step p)) (p_or_loop (step q)).
  Proof. intros l st r H. cbn [step p_or_loop] in *. mono_tac p q Hle. Qed.
  Lemma mo_e3 : m1 (p_e3 (step p)) (p_e3 (step q)).
  Proof. intros st r H. cbn [step p_e3] in *. mono_tac p q Hle. Qed.
  Lemma mo_and : m2 (p_and_loop (step p)) (p_and_loop (step q)).
  Proof. intros l st r H. cbn [step p_and_loop] in *. mono_tac p q Hle. Qed.
  Lemma mo_e4 : m1 (p_e4 (step p)) (p_e4 (step q)).
  Proof. intros st r H. cbn [step p_e4] in *. mono_tac p q Hle. Qed.
  Lemma mo_e5 : m1 (p_e5 (step p)) (p_e5 (step q)).
  Proof. intros st r H. cbn [step p_e5] in *. mono_tac p q Hle. Qed.
  Lemma mo_add : m2 (p_add_loop (step p)) (p_add_loop (step q)).
  Proof. intros l st r H. cbn [step p_add_loop] in *. mono_tac p q Hle. Qed.
  Lemma mo_e6 : m1 (p_e6 (step p)) (p_e6 (step q)).
  Proof. intros st r H. cbn [step p_e6] in *. mono_tac p q Hle. Qed.
  Lemma mo_mul : m2 (p_mul_loop (step p)) (p_mul_loop (step q)).
  Proof. intros l st r H. cbn [step p_mul_loop] in *. mono_tac p q Hle. Qed.
  Lemma mo_e7 : m1 (p_e7 (step p)) (p_e7 (step q)).
  Proof. intros st r H. cbn [step p_e7] in *. mono_tac p q Hle. Qed.
  Lemma mo_e8 : m1 (p_e8 (step p)) (p_e8 (step q)).
  Proof. intros st r H. cbn [step p_e8] in *. mono_tac p q Hle. Qed.
  Lemma mo_post : m2 (p_postfix_loop (step p)) (p_postfix_loop (step q)).
  Proof. intros l st r H. cbn [step p_postfix_loop] in *. mono_tac p q Hle. Qed.
  Lemma mo_meth : m3 (p_method_call (step p)) (p_method_call (step q)).
  Proof. intros o d st r H. cbn [step p_method_call] in *. mono_tac p q Hle. Qed.
  Lemma mo_e9 : m1 (p_e9 (step p)) (p_e9 (step q)).
  Proof. intros st r H. cbn [step p_e9] in *. mono_tac p q Hle. Qed.
  Lemma mo_e10 : m1 (p_e10 (step p)) (p_e10 (step q)).
  Proof. intros st r H. exact H. Qed.
  Lemma mo_kv : m1 (p_key_values (step p)) (p_key_values (step q)).
  Proof. intros st r H. cbn [step p_key_values] in *. mono_tac p q Hle. Qed.
  Lemma mo_kvl : m4 (p_kv_loop (step p)) (p_kv_loop (step q)).
  Proof. intros s a c st r H. cbn [step p_kv_loop] in *. mono_tac p q Hle. Qed.
  Lemma mo_args : m1 (p_args_ (step p)) (p_args_ (step q)).
  Proof. intros st r H. cbn [step p_args_] in *. mono_tac p q Hle. Qed.
  Lemma mo_argsl : m4 (p_args_loop (step p)) (p_args_loop (step q)).
  Proof. intros s a c st r H. cbn [step p_args_loop] in *. mono_tac p q Hle. Qed.
  Lemma mo_line : m1 (p_line (step p)) (p_line (step q)).
  Proof. intros st r H. cbn [step p_line] in *. mono_tac p q Hle. Qed.
  Lemma mo_elif : m2 (p_elif_loop (step p)) (p_elif_loop (step q)).
  Proof. intros i st r H. cbn [step p_elif_loop] in *. mono_tac p q Hle. Qed.
  Lemma mo_cb : m1 (p_codeblock (step p)) (p_codeblock (step q)).
  Proof. intros st r H. cbn [step p_codeblock] in *. mono_tac p q Hle. Qed.
  Lemma mo_bl : m2 (p_block_loop (step p)) (p_block_loop (step q)).
  Proof. intros b st r H. cbn [step p_block_loop] in *. mono_tac p q Hle. Qed.

  Theorem step_mono : le_p (step p) (step q).
  Proof.
    constructor.
    - exact mo_e1. - exact mo_e2. - exact mo_or. - exact mo_e3. - exact mo_and. - exact mo_e4.
    - exact mo_e5. - exact mo_add. - exact mo_e6. - exact mo_mul. - exact mo_e7. - exact mo_e8.
    - exact mo_post. - exact mo_meth. - exact mo_e9. - exact mo_e10. - exact mo_kv. - exact mo_kvl.
    - exact mo_args. - exact mo_argsl. - exact mo_line. - exact mo_elif. - exact mo_cb. - exact mo_bl.
  Qed.
End StepMono.

Lemma le_p_refl p : le_p p p.
Proof. constructor; repeat intro; assumption. Qed.
Lemma le_p_trans p q r : le_p p q -> le_p q r -> le_p p r.
Proof.
  intros [] []. constructor; repeat intro; auto.
Qed.
Lemma le_p_fuel q : le_p fuel_parsers q.
Proof. constructor; repeat intro; discriminate. Qed.

Lemma P_mono_S n : le_p (P n) (P (S n)).
Proof.
  induction n as [|n IH]; [apply le_p_fuel|]. rewrite !P_S in *. apply step_mono. exact IH.
Qed.
(* more fuel never changes an accepted result *)
Theorem P_mono n m : n <= m -> le_p (P n) (P m).
Proof.
  induction 1 as [|m H IH]; [apply le_p_refl|]. eapply le_p_trans; [exact IH | apply P_mono_S].
Qed.
