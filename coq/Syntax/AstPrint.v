(* Syntax/AstPrint.v — executable model of mesonbuild/ast/printer.py:18-104,125-270
   (precedence_level, class AstPrinter) on expressions and argument lists, together with
   the abstraction from parse trees (Syntax/Parser.v) to the value-level trees the printer
   sees.  The printer is modelled twice:
     - [print_text] : the exact text AstPrinter emits (append / append_padded / newline
       state machine, argument line breaking, indentation levels of AstIndentationGenerator);
     - [ptoks]      : its token-level image (kind and text of every significant token).
   The model follows the code AFTER the pending fixes C17-printer-parentheses,
   C17-printer-escape and C17-printer-trailing-blanks (see pending/).
   No proofs in this file. *)
From MV Require Import Base.Strs Syntax.Lexer Syntax.Parser.
Open Scope N_scope.

Inductive arith := OAdd | OSub | OMul | ODiv | OMod.
Inductive cmpop := CEq | CNe | CLt | CLe | CGt | CGe | CIn | CNotIn.

(* What AstPrinter looks at: node classes and values, no positions, no symbol tokens.
   Function-call / array keyword arguments are keyed by identifiers (the parser accepts
   nothing else, mparser.py:args); dictionary keys are expressions. *)
Inductive expr :=
| EBool (b : bool)
| EId (s : str)
| ENum (n : N)
| EStr (fstr multi : bool) (v : str)
| EParen (e : expr)
| EArray (a : elist) (k : kwlist)
| EDict (d : dlist)
| EFunc (name : str) (a : elist) (k : kwlist)
| EMethod (obj : expr) (name : str) (a : elist) (k : kwlist)
| EIndex (obj idx : expr)
| ENot (e : expr)
| ENeg (e : expr)
| EArith (op : arith) (l r : expr)
| ECmp (op : cmpop) (l r : expr)
| EAnd (l r : expr)
| EOr (l r : expr)
| ETern (c t f : expr)
| ENonExpr                                  (* a statement node where an expression is expected *)
with elist := LNil | LCons (e : expr) (r : elist)
with kwlist := KNil | KCons (k : str) (v : expr) (r : kwlist)
with dlist := DNil | DCons (k v : expr) (r : dlist).

(* ------------------------------------------------------------------ values of literals *)

Definition base_val (b : N) (s : str) : N := fold_left (fun a c => a * b + (c - 48)) s 0.

(* NumberNode.__init__: int(raw_value, base=0) *)
Definition num_value (txt : str) : N :=
  match txt with
  | 48 :: x :: r =>
      if (x =? 98) || (x =? 66) then base_val 2 r
      else if (x =? 111) || (x =? 79) then base_val 8 r
      else if (x =? 120) || (x =? 88) then hex_val r 0
      else digits_val txt
  | _ => digits_val txt
  end.

Definition simple_escape (x : char) : char :=
  if x =? 97 then 7 else if x =? 98 then 8 else if x =? 102 then 12 else if x =? 110 then 10
  else if x =? 114 then 13 else if x =? 116 then 9 else if x =? 118 then 11 else x.   (* \\ and \' *)

(* StringNode.escape(): ESCAPE_SEQUENCE_SINGLE_RE.sub(decode_match, raw_value), mparser.py:23-33,336.
   Alternatives in the order of the regex; [skip] characters belong to an escape already
   replaced.  \N{...} is outside the model (left as written). *)
Fixpoint decode (skip : nat) (s : str) : str :=
  match s with
  | [] => []
  | c :: r =>
      match skip with
      | S k => decode k r
      | O =>
          if c =? c_bs then
            match r with
            | x :: r' =>
                if (x =? 85) && Nat.eqb (length (firstn 8 r')) 8 && all_hex (firstn 8 r') then
                  hex_val (firstn 8 r') 0 :: decode 9 r
                else if (x =? 117) && Nat.eqb (length (firstn 4 r')) 4 && all_hex (firstn 4 r') then
                  hex_val (firstn 4 r') 0 :: decode 5 r
                else if (x =? 120) && Nat.eqb (length (firstn 2 r')) 2 && all_hex (firstn 2 r') then
                  hex_val (firstn 2 r') 0 :: decode 3 r
                else if is_oct x then
                  let k := Nat.min 3 (span is_oct r) in
                  base_val 8 (firstn k r) :: decode k r
                else if memb x [92; 39; 97; 98; 102; 110; 114; 116; 118] then
                  simple_escape x :: decode 1 r
                else c :: decode 0 r
            | [] => [c]
            end
          else c :: decode 0 r
      end
  end.

(* StringNode.value for a token of kind k with text txt *)
Definition str_value (k : kind) (txt : str) : str :=
  match k with
  | KStr => decode 0 (removelast (drop 1 txt))
  | KFStr => decode 0 (removelast (drop 2 txt))
  | KMStr => removelast (removelast (removelast (drop 3 txt)))
  | KMFStr => removelast (removelast (removelast (drop 4 txt)))
  | _ => []
  end.
Definition is_fstr (k : kind) : bool := match k with KFStr | KMFStr => true | _ => false end.
Definition is_mstr (k : kind) : bool := match k with KMStr | KMFStr => true | _ => false end.

Definition arith_of (k : kind) : arith :=
  match k with KPlus => OAdd | KDash => OSub | KStar => OMul | KFSlash => ODiv | _ => OMod end.
Definition cmp_of (k : kind) : cmpop :=
  match k with KEqual => CEq | KNEqual => CNe | KLt => CLt | KLe => CLe | KGt => CGt | KGe => CGe | _ => CIn end.

Definition key_text (n : node) : str := match n with NId t => ttext t | _ => [] end.

(* ------------------------------------------------------------------ parse tree -> expr *)
Fixpoint abs (n : node) : expr :=
  match n with
  | NBool t => EBool (kind_beq (tk t) KTrue)
  | NId t => EId (ttext t)
  | NNum t => ENum (num_value (ttext t))
  | NStr t => EStr (is_fstr (tk t)) (is_mstr (tk t)) (str_value (tk t) (ttext t))
  | NParen _ e _ => EParen (abs e)
  | NArray _ a _ _ => EArray (abs_pos a) (abs_kw a)
  | NDict _ a _ _ => EDict (abs_d a)
  | NFunc name _ a _ _ => EFunc (ttext name) (abs_pos a) (abs_kw a)
  | NMethod obj _ name _ a _ _ => EMethod (abs obj) (ttext name) (abs_pos a) (abs_kw a)
  | NIndex obj _ idx _ => EIndex (abs obj) (abs idx)
  | NNot _ _ e => ENot (abs e)
  | NUMinus _ _ e => ENeg (abs e)
  | NArith l op r => EArith (arith_of (tk op)) (abs l) (abs r)
  | NCmp l op r => ECmp (cmp_of (tk op)) (abs l) (abs r)
  | NNotIn l _ _ r => ECmp CNotIn (abs l) (abs r)
  | NAnd l _ r => EAnd (abs l) (abs r)
  | NOr l _ r => EOr (abs l) (abs r)
  | NTernary c _ t _ f => ETern (abs c) (abs t) (abs f)
  | _ => ENonExpr
  end
(* ArgumentNode.arguments / ArgumentNode.kwargs *)
with abs_pos (a : args) : elist :=
  match a with
  | ANil => LNil
  | APos n r => LCons (abs n) (abs_pos r)
  | AKw _ _ _ r => abs_pos r
  end
with abs_kw (a : args) : kwlist :=
  match a with
  | ANil => KNil
  | APos _ r => abs_kw r
  | AKw k _ v r => KCons (key_text k) (abs v) (abs_kw r)
  end
with abs_d (a : args) : dlist :=
  match a with
  | ANil => DNil
  | APos _ r => abs_d r
  | AKw k _ v r => DCons (abs k) (abs v) (abs_d r)
  end.

(* the tree with every ParenthesizedNode replaced by its inner node *)
Fixpoint strip_parens (e : expr) : expr :=
  match e with
  | EParen e => strip_parens e
  | EArray a k => EArray (strip_l a) (strip_k k)
  | EDict d => EDict (strip_d d)
  | EFunc name a k => EFunc name (strip_l a) (strip_k k)
  | EMethod obj name a k => EMethod (strip_parens obj) name (strip_l a) (strip_k k)
  | EIndex obj idx => EIndex (strip_parens obj) (strip_parens idx)
  | ENot e => ENot (strip_parens e)
  | ENeg e => ENeg (strip_parens e)
  | EArith op l r => EArith op (strip_parens l) (strip_parens r)
  | ECmp op l r => ECmp op (strip_parens l) (strip_parens r)
  | EAnd l r => EAnd (strip_parens l) (strip_parens r)
  | EOr l r => EOr (strip_parens l) (strip_parens r)
  | ETern c t f => ETern (strip_parens c) (strip_parens t) (strip_parens f)
  | _ => e
  end
with strip_l (a : elist) : elist :=
  match a with LNil => LNil | LCons e r => LCons (strip_parens e) (strip_l r) end
with strip_k (k : kwlist) : kwlist :=
  match k with KNil => KNil | KCons key v r => KCons key (strip_parens v) (strip_k r) end
with strip_d (d : dlist) : dlist :=
  match d with DNil => DNil | DCons k v r => DCons (strip_parens k) (strip_parens v) (strip_d r) end.

(* ------------------------------------------------------------------ printer.py:18-45 *)
Fixpoint prec (e : expr) : nat :=
  match e with
  | ETern _ _ _ | ENonExpr => 1
  | EOr _ _ => 2
  | EAnd _ _ => 3
  | ECmp _ _ _ => 4
  | EArith (OAdd | OSub) _ _ => 5
  | EArith _ _ _ => 6
  | ENot _ | ENeg _ => 7
  | EFunc _ _ _ | EIndex _ _ | EMethod _ _ _ _ => 8
  | EArray _ _ | EDict _ => 9
  | EBool _ | EId _ | ENum _ | EStr _ _ _ => 10
  | EParen e => prec e
  end%nat.

(* AstPrinter.escape with escape_trans = {'\\': '\\\\', "'": "\\'"} (after the fix) *)
Definition esc_char (c : char) : str :=
  if c =? c_bs then [c_bs; c_bs] else if c =? c_sq then [c_bs; c_sq] else [c].
Definition escape (v : str) : str := flat_map esc_char v.

Definition str_kind (f m : bool) : kind :=
  match f, m with
  | false, false => KStr | true, false => KFStr | false, true => KMStr | true, true => KMFStr
  end.
(* visit_StringNode *)
Definition str_text (f m : bool) (v : str) : str :=
  (if f then [c_f] else []) ++
  (if m then [c_sq; c_sq; c_sq] ++ v ++ [c_sq; c_sq; c_sq] else c_sq :: escape v ++ [c_sq]).

Definition arith_text (op : arith) : str :=
  s2l match op with OAdd => "+" | OSub => "-" | OMul => "*" | ODiv => "/" | OMod => "%" end.
Definition arith_kind (op : arith) : kind :=
  match op with OAdd => KPlus | OSub => KDash | OMul => KStar | ODiv => KFSlash | OMod => KPercent end.
Definition cmp_text (op : cmpop) : str :=
  s2l match op with CEq => "==" | CNe => "!=" | CLt => "<" | CLe => "<=" | CGt => ">" | CGe => ">="
      | CIn => "in" | CNotIn => "not in" end.

(* ------------------------------------------------------------------ token-level image *)
Definition kt := (kind * str)%type.
Definition tkt (t : token) : kt := (tk t, ttext t).
Definition T (k : kind) (s : string) : kt := (k, s2l s).
Definition t_lp := T KLParen "(".  Definition t_rp := T KRParen ")".
Definition t_comma := T KComma ",". Definition t_colon := T KColon ":".

(* maybe_parentheses *)
Definition wrap (b : bool) (ts : list kt) : list kt := if b then t_lp :: ts ++ [t_rp] else ts.

Definition cmp_toks (op : cmpop) : list kt :=
  match op with
  | CEq => [T KEqual "=="] | CNe => [T KNEqual "!="] | CLt => [T KLt "<"] | CLe => [T KLe "<="]
  | CGt => [T KGt ">"] | CGe => [T KGe ">="] | CIn => [T KIn "in"]
  | CNotIn => [T KNot "not"; T KIn "in"]
  end.

(* [ptl], [pkl], [pdl]: every item preceded by a comma; the argument list is their
   concatenation without the first comma (visit_ArgumentNode removes the last ', '). *)
Fixpoint ptoks (e : expr) : list kt :=
  match e with
  | EBool b => [if b then T KTrue "true" else T KFalse "false"]
  | EId s => [(KId, s)]
  | ENum n => [(KNum, N_dec n)]
  | EStr f m v => [(str_kind f m, str_text f m v)]
  | EParen e => ptoks e
  | EArray a k => T KLBracket "[" :: tl (ptl a ++ pkl k) ++ [T KRBracket "]"]
  | EDict d => T KLCurl "{" :: tl (pdl d) ++ [T KRCurl "}"]
  | EFunc name a k => (KId, name) :: t_lp :: tl (ptl a ++ pkl k) ++ [t_rp]
  | EMethod obj name a k =>
      wrap (prec obj <? 8)%nat (ptoks obj) ++ T KDot "." :: (KId, name) :: t_lp :: tl (ptl a ++ pkl k) ++ [t_rp]
  | EIndex obj idx =>
      wrap (prec obj <? 8)%nat (ptoks obj) ++ T KLBracket "[" :: ptoks idx ++ [T KRBracket "]"]
  | ENot e => T KNot "not" :: wrap (prec e <? 8)%nat (ptoks e)
  | ENeg e => T KDash "-" :: wrap (prec e <? 8)%nat (ptoks e)
  | EArith op l r =>
      wrap (prec l <? prec e)%nat (ptoks l) ++ (arith_kind op, arith_text op) ::
      wrap (prec r <=? prec e)%nat (ptoks r)
  | ECmp op l r => wrap (prec l <? 5)%nat (ptoks l) ++ cmp_toks op ++ wrap (prec r <? 5)%nat (ptoks r)
  | EAnd l r => wrap (prec l <? 3)%nat (ptoks l) ++ T KAnd "and" :: wrap (prec r <? 4)%nat (ptoks r)
  | EOr l r => wrap (prec l <? 2)%nat (ptoks l) ++ T KOr "or" :: wrap (prec r <? 3)%nat (ptoks r)
  | ETern c t f =>
      wrap (prec c <? 2)%nat (ptoks c) ++ T KQuestion "?" :: ptoks t ++ t_colon :: ptoks f
  | ENonExpr => []
  end
with ptl (a : elist) : list kt :=
  match a with LNil => [] | LCons e r => t_comma :: ptoks e ++ ptl r end
with pkl (k : kwlist) : list kt :=
  match k with KNil => [] | KCons key v r => t_comma :: (KId, key) :: t_colon :: ptoks v ++ pkl r end
with pdl (d : dlist) : list kt :=
  match d with DNil => [] | DCons k v r => t_comma :: ptoks k ++ t_colon :: ptoks v ++ pdl r end.

(* ------------------------------------------------------------------ the text AstPrinter emits *)
(* self.result (reversed: the last character first) and self.is_newline *)
Record ps := mkS { out : str; nl : bool }.
Definition ps0 : ps := mkS [] true.

(* append(data, node) with node.level = lvl, indent = 2 *)
Definition append (data : str) (lvl : nat) (s : ps) : ps :=
  mkS (rev data ++ (if nl s then repeat 32 (2 * lvl) else []) ++ out s) false.
(* append_padded *)
Definition append_padded (data : str) (lvl : nat) (s : ps) : ps :=
  let data' := match out s with
               | c :: _ => if (c =? 32) || (c =? 10) then data else 32 :: data
               | [] => data
               end in
  append (data' ++ [32]) lvl s.
Fixpoint drop_blanks (s : str) : str :=
  match s with c :: r => if c =? 32 then drop_blanks r else s | [] => [] end.
(* newline(): self.result = self.result.rstrip(' ') + '\n' (after the fix) *)
Definition newline (s : ps) : ps := mkS (10 :: drop_blanks (out s)) true.

Definition elementary_or_index (e : expr) : bool :=
  match e with EBool _ | EId _ | ENum _ | EStr _ _ _ | EIndex _ _ => true | _ => false end.
Fixpoint len_l (a : elist) : nat := match a with LNil => O | LCons _ r => S (len_l r) end.
Fixpoint len_k (k : kwlist) : nat := match k with KNil => O | KCons _ _ r => S (len_k r) end.
Fixpoint len_d (d : dlist) : nat := match d with DNil => O | DCons _ _ r => S (len_d r) end.
Fixpoint all_l (p : expr -> bool) (a : elist) : bool :=
  match a with LNil => true | LCons e r => p e && all_l p r end.
Fixpoint all_k (p : expr -> bool) (k : kwlist) : bool :=
  match k with KNil => true | KCons _ v r => p v && all_k p r end.
Fixpoint all_dv (p : expr -> bool) (d : dlist) : bool :=
  match d with DNil => true | DCons _ v r => p v && all_dv p r end.

(* the two re.sub calls that end visit_ArgumentNode: r',\n$' -> '\n' and r', $' -> '' *)
Definition trim_break (s : ps) : ps :=
  match out s with
  | 10 :: 44 :: r => mkS (10 :: r) (nl s)
  | _ => s
  end.
Definition trim_flat (s : ps) : ps :=
  match out s with
  | 32 :: 44 :: r => mkS r (nl s)
  | 10 :: 32 :: 44 :: r => mkS (10 :: r) (nl s)
  | _ => s
  end.
Definition brk (b : bool) (s : ps) : ps := if b then newline s else s.
Definition lp_ (b : bool) (lvl : nat) (s : ps) : ps := if b then append [40] lvl s else s.
Definition rp_ (b : bool) (lvl : nat) (s : ps) : ps := if b then append [41] lvl s else s.

(* visit_* ; lvl is node.level as AstIndentationGenerator assigns it: the arguments of a
   function / method call, array or dictionary are one level deeper. *)
Fixpoint pt (lvl : nat) (e : expr) (s : ps) : ps :=
  match e with
  | EBool b => append (s2l (if b then "true" else "false")) lvl s
  | EId v => append v lvl s
  | ENum n => append (N_dec n) lvl s
  | EStr f m v => append (str_text f m v) lvl s
  | EParen x => pt lvl x s
  | EArray a k =>
      let b := (5 <? len_l a + len_k k)%nat || negb (all_l elementary_or_index a && all_k elementary_or_index k) in
      append [93] lvl ((if b then trim_break else trim_flat) (pt_k (S lvl) b k (pt_l (S lvl) b a (brk b (append [91] lvl s)))))
  | EDict d =>
      let b := (5 <? len_d d)%nat || negb (all_dv elementary_or_index d) in
      append [125] lvl ((if b then trim_break else trim_flat) (pt_d (S lvl) b d (brk b (append [123] lvl s))))
  | EFunc name a k =>
      let b := (5 <? len_l a + len_k k)%nat || negb (all_l elementary_or_index a && all_k elementary_or_index k) in
      append [41] lvl ((if b then trim_break else trim_flat) (pt_k (S lvl) b k (pt_l (S lvl) b a (brk b (append (name ++ [40]) lvl s)))))
  | EMethod obj name a k =>
      let b := (5 <? len_l a + len_k k)%nat || negb (all_l elementary_or_index a && all_k elementary_or_index k) in
      append [41] lvl ((if b then trim_break else trim_flat) (pt_k (S lvl) b k (pt_l (S lvl) b a (brk b
        (append (46 :: name ++ [40]) lvl (rp_ (prec obj <? 8)%nat lvl (pt lvl obj (lp_ (prec obj <? 8)%nat lvl s))))))))
  | EIndex obj idx =>
      append [93] lvl (pt lvl idx (append [91] lvl (rp_ (prec obj <? 8)%nat lvl (pt lvl obj (lp_ (prec obj <? 8)%nat lvl s)))))
  | ENot x => rp_ (prec x <? 8)%nat lvl (pt lvl x (lp_ (prec x <? 8)%nat lvl (append_padded (s2l "not") lvl s)))
  | ENeg x => rp_ (prec x <? 8)%nat lvl (pt lvl x (lp_ (prec x <? 8)%nat lvl (append_padded (s2l "-") lvl s)))
  | EArith op l r =>
      rp_ (prec r <=? prec e)%nat lvl (pt lvl r (lp_ (prec r <=? prec e)%nat lvl (append_padded (arith_text op) lvl (rp_ (prec l <? prec e)%nat lvl (pt lvl l (lp_ (prec l <? prec e)%nat lvl s))))))
  | ECmp op l r =>
      rp_ (prec r <? 5)%nat lvl (pt lvl r (lp_ (prec r <? 5)%nat lvl (append_padded (cmp_text op) lvl (rp_ (prec l <? 5)%nat lvl (pt lvl l (lp_ (prec l <? 5)%nat lvl s))))))
  | EAnd l r => rp_ (prec r <? 4)%nat lvl (pt lvl r (lp_ (prec r <? 4)%nat lvl (append_padded (s2l "and") lvl (rp_ (prec l <? 3)%nat lvl (pt lvl l (lp_ (prec l <? 3)%nat lvl s))))))
  | EOr l r => rp_ (prec r <? 3)%nat lvl (pt lvl r (lp_ (prec r <? 3)%nat lvl (append_padded (s2l "or") lvl (rp_ (prec l <? 2)%nat lvl (pt lvl l (lp_ (prec l <? 2)%nat lvl s))))))
  | ETern c t f =>
      pt lvl f (append_padded (s2l ":") lvl (pt lvl t (append_padded (s2l "?") lvl (rp_ (prec c <? 2)%nat lvl (pt lvl c (lp_ (prec c <? 2)%nat lvl s))))))
  | ENonExpr => s
  end
with pt_l (lvl : nat) (b : bool) (a : elist) (s : ps) : ps :=
  match a with
  | LNil => s
  | LCons e r => pt_l lvl b r (brk b (append [44; 32] lvl (pt lvl e s)))
  end
with pt_k (lvl : nat) (b : bool) (k : kwlist) (s : ps) : ps :=
  match k with
  | KNil => s
  | KCons key v r =>
      pt_k lvl b r (brk b (append [44; 32] lvl (pt lvl v (append_padded (s2l ":") lvl (append key lvl s)))))
  end
with pt_d (lvl : nat) (b : bool) (d : dlist) (s : ps) : ps :=
  match d with
  | DNil => s
  | DCons key v r =>
      pt_d lvl b r (brk b (append [44; 32] lvl (pt lvl v (append_padded (s2l ":") lvl (pt lvl key s)))))
  end.

(* node.accept(AstPrinter()); printer.post_process(); printer.result *)
Definition print_text (lvl : nat) (e : expr) : str := rev (out (pt lvl e ps0)).

(* ------------------------------------------------------------------ what can be printed and re-read *)
(* no ternary anywhere inside *)
Fixpoint no_tern (e : expr) : bool :=
  match e with
  | ETern _ _ _ => false
  | EParen e | ENot e | ENeg e => no_tern e
  | EArray a k => no_tern_l a && no_tern_k k
  | EDict d => no_tern_d d
  | EFunc _ a k => no_tern_l a && no_tern_k k
  | EMethod obj _ a k => no_tern obj && no_tern_l a && no_tern_k k
  | EIndex l r | EArith _ l r | ECmp _ l r | EAnd l r | EOr l r => no_tern l && no_tern r
  | _ => true
  end
with no_tern_l (a : elist) : bool := match a with LNil => true | LCons e r => no_tern e && no_tern_l r end
with no_tern_k (k : kwlist) : bool := match k with KNil => true | KCons _ v r => no_tern v && no_tern_k r end
with no_tern_d (d : dlist) : bool := match d with DNil => true | DCons k v r => no_tern k && no_tern v && no_tern_d r end.

(* Trees the parser can produce at all (mparser.py:e1 "Nested ternary operators are not
   allowed": in_ternary stays set while both branches are read, parentheses do not reset it),
   with integer literals Python can convert (NumberNode, <= 4300 digits) and no statement
   node in expression position. *)
Fixpoint printable (e : expr) : bool :=
  match e with
  | ENonExpr => false
  | ENum n => negb (num_too_long (N_dec n))
  | ETern c t f => printable c && printable t && printable f && no_tern t && no_tern f
  | EParen e | ENot e | ENeg e => printable e
  | EArray a k => printable_l a && printable_k k
  | EDict d => printable_d d
  | EFunc _ a k => printable_l a && printable_k k
  | EMethod obj _ a k => printable obj && printable_l a && printable_k k
  | EIndex l r | EArith _ l r | ECmp _ l r | EAnd l r | EOr l r => printable l && printable r
  | _ => true
  end
with printable_l (a : elist) : bool := match a with LNil => true | LCons e r => printable e && printable_l r end
with printable_k (k : kwlist) : bool := match k with KNil => true | KCons _ v r => printable v && printable_k r end
with printable_d (d : dlist) : bool := match d with DNil => true | DCons k v r => printable k && printable v && printable_d r end.
