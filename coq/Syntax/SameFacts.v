(* Syntax/SameFacts.v — facts about the acceptance relation of C16 (Syntax/Same.v):
   same_program is an equivalence; equality of normal forms is sound for the declarative
   relation [Same] (and complete when files() arguments are not sorted); the literal
   denotations behind [Same_str]; files() flattening keeps the flattened argument list. *)
From MV Require Import Base.Strs Base.LexFacts Syntax.Lexer Syntax.Parser Syntax.Same.
From Coq Require Import Lia Permutation.
Open Scope N_scope.
Local Arguments N.eqb : simpl never.

(* ------------------------------------------------------------------ induction on erased trees *)
Section EnodeInd.
  Variable P : enode -> Prop.
  Hypothesis HE : P EEmpty.
  Hypothesis HA : forall k s, P (EAtom k s).
  Hypothesis HS : forall f m b, P (EStr f m b).
  Hypothesis HN : forall t ks, Forall P ks -> P (ENode t ks).
  Fixpoint enode_ind' (n : enode) : P n :=
    match n with
    | EEmpty => HE
    | EAtom k s => HA k s
    | EStr f m b => HS f m b
    | ENode t ks =>
        HN t ks ((fix go (l : list enode) : Forall P l :=
                    match l with
                    | [] => Forall_nil _
                    | x :: r => Forall_cons _ (enode_ind' x) (go r)
                    end) ks)
    end.
End EnodeInd.

(* ------------------------------------------------------------------ decidable equality *)
Lemma kind_beq_iff a b : kind_beq a b = true <-> a = b.
Proof. split; [apply internal_kind_dec_bl | apply internal_kind_dec_lb]. Qed.

Lemma ostr_eqb_eq a b : ostr_eqb a b = true <-> a = b.
Proof.
  destruct a as [x|], b as [y|]; simpl; split; intro H; try discriminate; try reflexivity.
  - apply str_eqb_eq in H. congruence.
  - inversion H; subst. apply str_eqb_refl.
Qed.

Lemma tag_eqb_eq a b : tag_eqb a b = true <-> a = b.
Proof.
  destruct a, b; simpl; split; intro H; try discriminate H; try reflexivity;
    try (apply str_eqb_eq in H; subst; reflexivity);
    try (inversion H; subst; apply str_eqb_refl).
  - apply Bool.eqb_prop in H. subst. reflexivity.
  - inversion H; subst. apply Bool.eqb_reflx.
  - apply andb_true_iff in H. destruct H as [H1 H2].
    apply str_eqb_eq in H1. apply ostr_eqb_eq in H2. subst. reflexivity.
  - inversion H; subst. rewrite str_eqb_refl. simpl. apply ostr_eqb_eq. reflexivity.
Qed.

Lemma list_eqb_eq {A} (eq : A -> A -> bool) xs :
  Forall (fun x => forall y, eq x y = true <-> x = y) xs ->
  forall ys, list_eqb eq xs ys = true <-> xs = ys.
Proof.
  induction 1 as [|x xs Hx _ IH]; intros [|y ys]; simpl; split; intro H;
    try discriminate; try reflexivity.
  - apply andb_true_iff in H. destruct H as [H1 H2].
    apply Hx in H1. apply IH in H2. subst. reflexivity.
  - inversion H; subst. apply andb_true_iff. split; [apply Hx | apply IH]; reflexivity.
Qed.

Theorem enode_eqb_eq : forall a b, enode_eqb a b = true <-> a = b.
Proof.
  induction a as [| k s | f m x | t ks IH] using enode_ind'; intros b; destruct b as [| l y | g n y | u ls];
    simpl; split; intro H; try discriminate; try reflexivity.
  - apply andb_true_iff in H. destruct H as [H1 H2].
    apply kind_beq_iff in H1. apply str_eqb_eq in H2. subst. reflexivity.
  - inversion H; subst. apply andb_true_iff. split; [apply kind_beq_iff | apply str_eqb_refl]; reflexivity.
  - apply andb_true_iff in H. destruct H as [H12 H3]. apply andb_true_iff in H12. destruct H12 as [H1 H2].
    apply Bool.eqb_prop in H1. apply Bool.eqb_prop in H2. apply str_eqb_eq in H3. subst. reflexivity.
  - inversion H; subst. rewrite !Bool.eqb_reflx, str_eqb_refl. reflexivity.
  - apply andb_true_iff in H. destruct H as [H1 H2].
    apply tag_eqb_eq in H1. apply (list_eqb_eq _ ks IH) in H2. subst. reflexivity.
  - inversion H; subst. apply andb_true_iff. split; [apply tag_eqb_eq | apply (list_eqb_eq _ ls IH)]; reflexivity.
Qed.

(* ------------------------------------------------------------------ same_program is an equivalence *)
Lemma same_program_iff sort a b :
  same_program sort a b = true <-> norm sort (prog [] a) = norm sort (prog [] b).
Proof. apply enode_eqb_eq. Qed.

Theorem same_program_refl sort a : same_program sort a a = true.
Proof. apply same_program_iff. reflexivity. Qed.
Theorem same_program_sym sort a b : same_program sort a b = true -> same_program sort b a = true.
Proof. rewrite !same_program_iff. congruence. Qed.
Theorem same_program_trans sort a b c :
  same_program sort a b = true -> same_program sort b c = true -> same_program sort a c = true.
Proof. rewrite !same_program_iff. congruence. Qed.

(* ------------------------------------------------------------------ literal denotations *)
Lemma has_cons c x s : has c (x :: s) = (x =? c) || has c s.
Proof. reflexivity. Qed.

(* a body without a backslash has no escape sequence: it denotes itself *)
Lemma decode_no_bs : forall s, has c_bs s = false -> decode s = s.
Proof.
  unfold decode. induction s as [|c r IH]; intro H; [reflexivity|].
  rewrite has_cons in H. apply orb_false_iff in H. destruct H as [H1 H2].
  cbn [decode_]. rewrite H1. f_equal. apply IH. exact H2.
Qed.

(* f-string substitution is the identity on a value without '@' *)
Lemma fsubst_no_at env : forall s, has c_at s = false -> fsubst_ env 0 s = Some s.
Proof.
  induction s as [|c r IH]; intro H; [reflexivity|].
  rewrite has_cons in H. apply orb_false_iff in H. destruct H as [H1 H2].
  cbn [fsubst_]. rewrite H1, (IH H2). reflexivity.
Qed.

(* What [Same_str] identifies evaluates to the same string in every environment. *)
Theorem same_str_meaning f1 m1 b1 f2 m2 b2 :
  str_value m1 b1 = str_value m2 b2 ->
  f1 && has c_at (str_value m1 b1) = f2 && has c_at (str_value m2 b2) ->
  forall env, str_meaning env f1 m1 b1 = str_meaning env f2 m2 b2.
Proof.
  intros Hv Hf env. unfold str_meaning. rewrite <- Hv in *.
  destruct (has c_at (str_value m1 b1)) eqn:E.
  - rewrite !andb_true_r in Hf. subst. reflexivity.
  - destruct f1, f2; try reflexivity; rewrite (fsubst_no_at env _ E); reflexivity.
Qed.

(* the normal form of a literal has the literal's meaning *)
Theorem norm_str_meaning f m b env :
  match norm_str f m b with
  | EStr f' m' b' => str_meaning env f' m' b' = str_meaning env f m b
  | _ => False
  end.
Proof.
  unfold norm_str. apply same_str_meaning.
  - reflexivity.
  - cbn [str_value]. destruct f, (has c_at (str_value m b)); reflexivity.
Qed.

(* ------------------------------------------------------------------ a simplified literal lexes *)
Lemma scan_str_plain : forall b rest,
  has c_sq b = false -> has c_bs b = false ->
  scan_str (b ++ c_sq :: rest) = Some (S (length b)).
Proof.
  induction b as [|c r IH]; intros rest Hq Hb.
  - simpl. reflexivity.
  - rewrite has_cons in Hq, Hb. apply orb_false_iff in Hq, Hb. destruct Hq as [Hq1 Hq2], Hb as [Hb1 Hb2].
    cbn [app scan_str]. rewrite Hq1, Hb1, (IH rest Hq2 Hb2). reflexivity.
Qed.

Lemma m_str_plain b rest :
  has c_sq b = false -> has c_bs b = false ->
  m_str (c_sq :: b ++ c_sq :: rest) = Some (S (S (length b))).
Proof.
  intros Hq Hb. unfold m_str. rewrite N.eqb_refl, (scan_str_plain b rest Hq Hb). reflexivity.
Qed.

Lemma m_fstr_plain b rest :
  has c_sq b = false -> has c_bs b = false ->
  m_fstr (c_f :: c_sq :: b ++ c_sq :: rest) = Some (S (S (S (length b)))).
Proof.
  intros Hq Hb. unfold m_fstr. rewrite !N.eqb_refl. cbn [andb].
  rewrite (scan_str_plain b rest Hq Hb). reflexivity.
Qed.

Definition starts_sq (s : str) : bool := match s with c :: _ => c =? c_sq | [] => false end.

(* '...' : tried after whitespace, the f-string forms, id, number, eol_cont, ''' and comment *)
Theorem plain_literal_lexes b rest :
  has c_sq b = false -> has c_bs b = false ->
  (b = [] -> starts_sq rest = false) ->
  first_match (c_sq :: b ++ c_sq :: rest) = Some (RK KStr, S (S (length b))).
Proof.
  intros Hq Hb Hr. unfold first_match.
  assert (Hm : m_mstr (c_sq :: b ++ c_sq :: rest) = None).
  { unfold m_mstr. destruct b as [|c r].
    - specialize (Hr eq_refl). destruct rest as [|d rest']; cbn; [reflexivity|].
      cbn in Hr. rewrite !N.eqb_refl, (N.eqb_sym c_sq d), Hr. reflexivity.
    - rewrite has_cons in Hq. apply orb_false_iff in Hq. destruct Hq as [Hq1 _].
      cbn. rewrite N.eqb_refl, (N.eqb_sym c_sq c), Hq1. reflexivity. }
  assert (Hf : m_fstr (c_sq :: b ++ c_sq :: rest) = None).
  { unfold m_fstr. destruct (b ++ c_sq :: rest); reflexivity. }
  rewrite Hm, Hf, (m_str_plain b rest Hq Hb). reflexivity.
Qed.

Theorem plain_fliteral_lexes b rest :
  has c_sq b = false -> has c_bs b = false ->
  (b = [] -> starts_sq rest = false) ->
  first_match (c_f :: c_sq :: b ++ c_sq :: rest) = Some (RK KFStr, S (S (S (length b)))).
Proof.
  intros Hq Hb Hr. unfold first_match.
  assert (Hm : m_mfstr (c_f :: c_sq :: b ++ c_sq :: rest) = None).
  { unfold m_mfstr. destruct b as [|c r].
    - specialize (Hr eq_refl). destruct rest as [|d rest']; cbn; [reflexivity|].
      cbn in Hr. rewrite !N.eqb_refl, (N.eqb_sym c_sq d), Hr. reflexivity.
    - rewrite has_cons in Hq. apply orb_false_iff in Hq. destruct Hq as [Hq1 _].
      cbn. rewrite !N.eqb_refl, (N.eqb_sym c_sq c), Hq1. reflexivity. }
  rewrite Hm, (m_fstr_plain b rest Hq Hb). reflexivity.
Qed.

(* ------------------------------------------------------------------ norm is sound for Same *)
Lemma Same_kids sort t : forall pre ks1 ks2,
  Forall2 (Same sort) ks1 ks2 -> Same sort (ENode t (pre ++ ks1)) (ENode t (pre ++ ks2)).
Proof.
  intros pre ks1 ks2 H. revert pre. induction H as [|a b r1 r2 Hab _ IH]; intro pre.
  - apply Same_refl.
  - eapply Same_trans.
    + apply Same_ctx. exact Hab.
    + replace (pre ++ b :: r1) with ((pre ++ [b]) ++ r1) by (rewrite <- app_assoc; reflexivity).
      replace (pre ++ b :: r2) with ((pre ++ [b]) ++ r2) by (rewrite <- app_assoc; reflexivity).
      apply IH.
Qed.

Lemma is_files_eq t : is_files t = true -> t = TFunc files_name.
Proof. destruct t; simpl; try discriminate. intro H. apply str_eqb_eq in H. congruence. Qed.

Lemma is_array_inv m : is_array m = true -> exists c ks, m = ENode (TArray c) ks.
Proof. destruct m as [| | |t ks]; try discriminate. destruct t; try discriminate. eauto. Qed.

Lemma Same_unwrap sort : forall m, is_array m = true ->
  Same sort (ENode (TFunc files_name) (unwrap m)) (ENode (TFunc files_name) [m]).
Proof.
  induction m as [| | | t ks IH] using enode_ind'; intro Ha; try discriminate.
  destruct t; try discriminate.
  cbn [unwrap].
  destruct ks as [|m' [|m'' r]].
  - apply Same_sym, Same_flatten.
  - destruct (is_array m') eqn:E.
    + inversion IH as [|? ? Hm' _]; subst.
      eapply Same_trans; [apply (Hm' E)|]. apply Same_sym, Same_flatten.
    + apply Same_sym, Same_flatten.
  - apply Same_sym, Same_flatten.
Qed.

Lemma Same_peel sort ks : Same sort (ENode (TFunc files_name) (peel ks)) (ENode (TFunc files_name) ks).
Proof.
  unfold peel. destruct ks as [|m [|m' r]]; try apply Same_refl.
  destruct (is_array m) eqn:E; [apply Same_unwrap; exact E | apply Same_refl].
Qed.

Lemma insert_by_perm before x : forall l, Permutation (insert_by before x l) (x :: l).
Proof.
  induction l as [|y r IH]; simpl; [apply Permutation_refl|].
  destruct (before y x).
  - eapply perm_trans; [apply perm_skip, IH | apply perm_swap].
  - apply Permutation_refl.
Qed.
Lemma isort_by_perm before : forall l, Permutation (isort_by before l) l.
Proof.
  induction l as [|x r IH]; simpl; [apply perm_nil|].
  eapply perm_trans; [apply insert_by_perm | apply perm_skip, IH].
Qed.
Lemma filter_split_perm (f : enode -> bool) : forall l,
  Permutation (filter (fun k => negb (f k)) l ++ filter f l) l.
Proof.
  induction l as [|x r IH]; simpl; [apply perm_nil|].
  destruct (f x); simpl.
  - eapply perm_trans; [apply Permutation_sym, Permutation_middle | apply perm_skip, IH].
  - apply perm_skip, IH.
Qed.
Lemma canon_args_perm ks : Permutation (canon_args ks) ks.
Proof. apply isort_by_perm. Qed.

Lemma Same_norm sort : forall n, Same sort (norm sort n) n.
Proof.
  induction n as [| k s | f m b | t ks IH] using enode_ind'; try apply Same_refl.
  - (* literal *)
    cbn [norm]. unfold norm_str. apply Same_str.
    + reflexivity.
    + cbn [str_value]. destruct f, (has c_at (str_value m b)); reflexivity.
  - cbn [norm].
    assert (Hk : Same sort (ENode t (map (norm sort) ks)) (ENode t ks)).
    { apply (Same_kids sort t []). induction IH as [|x r Hx _ IHr]; constructor; assumption. }
    destruct (is_files t) eqn:Ef.
    + apply is_files_eq in Ef. subst t.
      eapply Same_trans; [|exact Hk].
      eapply Same_trans; [|apply Same_peel].
      destruct sort eqn:Es; [|apply Same_refl].
      apply Same_sorted; [reflexivity | apply canon_args_perm].
    + eapply Same_trans; [|exact Hk].
      destruct t; try apply Same_refl. apply Same_layout.
Qed.

(* Equal normal forms: the same program in the declarative sense. *)
Theorem norm_sound sort a b : norm sort a = norm sort b -> Same sort a b.
Proof.
  intro H. eapply Same_trans; [apply Same_sym, Same_norm|]. rewrite H. apply Same_norm.
Qed.

(* ------------------------------------------------------------------ and complete, without sorting *)
Lemma unwrap_array c ks : unwrap (ENode (TArray c) ks) = peel ks.
Proof. destruct ks as [|m [|m' r]]; reflexivity. Qed.

Lemma is_files_files : is_files (TFunc files_name) = true.
Proof. apply str_eqb_refl. Qed.

Theorem norm_complete a b : Same false a b -> norm false a = norm false b.
Proof.
  induction 1 as [n | a b _ IH | a b c _ IH1 _ IH2 | t pre a b post _ IH
                 | f1 m1 b1 f2 m2 b2 Hv Hf | c1 c2 ks | c inner | ks1 ks2 Hs _].
  - reflexivity.
  - symmetry. exact IH.
  - congruence.
  - cbn [norm]. rewrite !map_app. cbn [map]. rewrite IH. reflexivity.
  - cbn [norm]. unfold norm_str. rewrite Hf, Hv. reflexivity.
  - reflexivity.
  - cbn [norm]. rewrite is_files_files. cbn [map norm is_files norm_tag peel is_array].
    rewrite unwrap_array. reflexivity.
  - discriminate.
Qed.

Theorem same_program_spec a b :
  same_program false a b = true <-> Same false (prog [] a) (prog [] b).
Proof.
  rewrite same_program_iff. split; [apply norm_sound | apply norm_complete].
Qed.

Theorem same_program_sound sort a b :
  same_program sort a b = true -> Same sort (prog [] a) (prog [] b).
Proof. rewrite same_program_iff. apply norm_sound. Qed.

(* ------------------------------------------------------------------ files(): the flattened arguments *)
(* files() flattens nested arrays of arguments at run time (listify); the rewrite
   files([...]) -> files(...) keeps that flattened list, and sorting permutes it. *)
Fixpoint flat (n : enode) : list enode :=
  match n with
  | ENode (TArray _) ks => flat_map flat ks
  | _ => [n]
  end.
Lemma flatten_keeps_items c inner : flat_map flat [ENode (TArray c) inner] = flat_map flat inner.
Proof. cbn [flat_map flat]. apply app_nil_r. Qed.
Lemma flat_map_perm (l1 l2 : list enode) : Permutation l1 l2 -> Permutation (flat_map flat l1) (flat_map flat l2).
Proof.
  induction 1; simpl.
  - apply perm_nil.
  - apply Permutation_app_head. assumption.
  - rewrite !app_assoc. apply Permutation_app_tail, Permutation_app_comm.
  - eapply perm_trans; eassumption.
Qed.

(* ------------------------------------------------------------------ positions and trivia are ignored *)
(* [strict] reads only the kind and the text of a token: moving tokens around
   (other positions, other offsets) leaves the erased tree unchanged. *)
Definition retok (f : token -> token) : Prop :=
  forall t, tk (f t) = tk t /\ ttext (f t) = ttext t.
