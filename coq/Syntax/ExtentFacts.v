(* Syntax/ExtentFacts.v — recorded extents delimit source text.
   In mparser.py the extent of a FunctionNode is (func_name.lineno, func_name.colno) ..
   (rpar.lineno, rpar.colno + 1), of an ArrayNode (lbracket.lineno, lbracket.colno) ..
   (rbracket.lineno, rbracket.colno + 1): the position of its first token and the position
   just after its one-character closing token.  This file shows that, for any run of
   consecutive tokens first..last of an accepted text, those two positions are the positions
   of the two points that delimit exactly the concatenated text of the run, and that a
   (line, column) pair denotes at most one point of a text. *)
From MV Require Import Base.Strs Syntax.Lexer Syntax.LexerFacts.
From Coq Require Import Lia.
Open Scope N_scope.

Definition texts (ts : list token) : str := concat (map ttext ts).

Lemma texts_app a b : texts (a ++ b) = texts a ++ texts b.
Proof. unfold texts. rewrite map_app, concat_app. reflexivity. Qed.

Lemma positions_ok_app : forall l1 l2 pre,
  positions_ok pre (l1 ++ l2) -> positions_ok pre l1 /\ positions_ok (pre ++ texts l1) l2.
Proof.
  induction l1 as [|t r IH]; intros l2 pre H; simpl in *.
  - unfold texts. simpl. rewrite app_nil_r. auto.
  - destruct H as (A & B & C & D). apply IH in D. destruct D as [D1 D2].
    unfold texts in *. simpl. rewrite app_assoc. auto.
Qed.

(* The first token of a run records the point where the run starts ... *)
Theorem run_start : forall s pre first rest post,
  lex s = LOk (pre ++ (first :: rest) ++ post) ->
  let P := texts pre in
  s = P ++ texts (first :: rest) ++ texts post /\
  tline first = line_of P /\ tcol first = col_of P /\ tstart first = N.of_nat (length P).
Proof.
  intros s pre first rest post H P.
  pose proof (lex_lossless _ _ H) as L. pose proof (lex_positions _ _ H) as Q.
  fold (texts (pre ++ (first :: rest) ++ post)) in L. rewrite !texts_app in L.
  split; [symmetry; exact L|].
  apply positions_ok_app in Q. destruct Q as [_ Q]. simpl in Q. destruct Q as (A & B & C & _).
  auto.
Qed.

(* ... and the position just after a one-character, non-newline last token is the point
   where the run ends: (line, column + 1) of that token. *)
Theorem run_end : forall s pre mid last post c,
  lex s = LOk (pre ++ (mid ++ [last]) ++ post) -> ttext last = [c] -> c <> c_nl ->
  let E := texts pre ++ texts (mid ++ [last]) in
  s = E ++ texts post /\ line_of E = tline last /\ col_of E = tcol last + 1.
Proof.
  intros s pre mid last post c H Hc Hnl E.
  pose proof (lex_lossless _ _ H) as L. pose proof (lex_positions _ _ H) as Q.
  fold (texts (pre ++ (mid ++ [last]) ++ post)) in L. rewrite !texts_app in L.
  split; [unfold E; rewrite texts_app, <- !app_assoc; rewrite <- !app_assoc in L; symmetry; exact L|].
  replace (pre ++ (mid ++ [last]) ++ post) with ((pre ++ mid) ++ last :: post) in Q
    by (rewrite <- !app_assoc; reflexivity).
  apply positions_ok_app in Q. destruct Q as [_ Q]. simpl in Q. destruct Q as (A & B & _).
  unfold E. rewrite texts_app, app_assoc.
  assert (T : texts [last] = [c]) by (unfold texts; simpl; rewrite Hc; reflexivity).
  rewrite T. rewrite texts_app in A, B.
  assert (Z : count_nl [c] = 0).
  { apply count_nl_zero. simpl. unfold not_nl. rewrite andb_true_r. apply negb_true_iff, N.eqb_neq. exact Hnl. }
  split.
  - unfold line_of in *. rewrite count_nl_app, Z. rewrite A. lia.
  - rewrite col_of_app_nonl by exact Z. rewrite B. simpl. lia.
Qed.

(* A (line, column) pair denotes at most one point of a text: two prefixes of the same
   text with the same line and column are the same prefix.  Hence the recorded extent,
   read as a pair of points, determines the slice of the text uniquely. *)
Theorem point_unique : forall p1 d : str,
  line_of p1 = line_of (p1 ++ d) -> col_of p1 = col_of (p1 ++ d) -> d = [].
Proof.
  intros p1 d Hl Hc. destruct d as [|x d']; [reflexivity|]. exfalso.
  destruct (count_nl (x :: d') =? 0) eqn:Z.
  - apply N.eqb_eq in Z. rewrite col_of_app_nonl in Hc by exact Z. simpl length in Hc. lia.
  - apply N.eqb_neq in Z. unfold line_of in Hl. rewrite count_nl_app in Hl. lia.
Qed.
