(* Syntax/RoundTrip.v — printing an expression with AstPrinter (token image [ptoks]) and
   parsing the tokens back yields the same tree up to redundant parentheses.
   Part 1: parser primitives on explicit token lists, stop sets, moving between the
   precedence levels e1 .. e10. *)
From MV Require Import Base.Strs Syntax.Lexer Syntax.Parser Syntax.Yield Syntax.ParserFacts
  Syntax.ParserMono Syntax.AstPrint Syntax.EscapeFacts Syntax.NumFacts.
From Coq Require Import Lia.
Open Scope nat_scope.

Definition hdk (ts : list token) : kind := match ts with t :: _ => tk t | [] => KEof end.

Section RT.
  Variable ep : pos.
  (* parser states without a pending lexer error *)
  Definition St (ts : list token) (tn : bool) : pst := mkP ts None ep tn.

  Lemma cur_hdk ts tn : tk (cur (St ts tn)) = hdk ts.
  Proof. destruct ts; reflexivity. Qed.
  Lemma advance_St t r tn : advance (St (t :: r) tn) = Ok (St r tn).
  Proof. destruct r; reflexivity. Qed.
  Lemma cur_cons t r tn : cur (St (t :: r) tn) = t.
  Proof. reflexivity. Qed.

  Lemma accept_hit k t r tn : tk t = k -> accept k (St (t :: r) tn) = Ok (Some (t, St r tn)).
  Proof.
    intros H. unfold accept. rewrite cur_cons, H.
    replace (kind_beq k k) with true by (symmetry; apply internal_kind_dec_lb; reflexivity).
    rewrite advance_St. reflexivity.
  Qed.
  Lemma accept_miss k ts tn : hdk ts <> k -> accept k (St ts tn) = Ok None.
  Proof.
    intros H. unfold accept. rewrite cur_hdk.
    destruct (kind_beq (hdk ts) k) eqn:E; [|reflexivity].
    apply kind_beq_eq in E. contradiction.
  Qed.
  Lemma accept_any_hit q t r tn : q (tk t) = true -> accept_any q (St (t :: r) tn) = Ok (Some (t, St r tn)).
  Proof. intros H. unfold accept_any. rewrite cur_cons, H, advance_St. reflexivity. Qed.
  Lemma accept_any_miss q ts tn : q (hdk ts) = false -> accept_any q (St ts tn) = Ok None.
  Proof. intros H. unfold accept_any. rewrite cur_hdk, H. reflexivity. Qed.
  Lemma expect_hit k t r tn : tk t = k -> expect k (St (t :: r) tn) = Ok (t, St r tn).
  Proof. intros H. unfold expect. rewrite accept_hit by exact H. reflexivity. Qed.
  Lemma set_tern_St b ts tn : set_tern b (St ts tn) = St ts b.
  Proof. reflexivity. Qed.
  Lemma tern_St ts tn : tern (St ts tn) = tn.
  Proof. reflexivity. Qed.

  (* ---------------------------------------------------------------- stop sets *)
  (* kd does not continue an expression read at level k or deeper *)
  Definition stopk (k : nat) (kd : kind) : bool :=
    let s8 := match kd with KLParen | KDot | KLBracket => false | _ => true end in
    let s6 := negb (muldiv_kind kd) && s8 in
    let s5 := negb (addsub_kind kd) && s6 in
    let s4 := negb (cmp_kind kd) && match kd with KNot => false | _ => true end && s5 in
    let s3 := match kd with KAnd => false | _ => true end && s4 in
    let s2 := match kd with KOr => false | _ => true end && s3 in
    let s1 := match kd with KPlusAssign | KAssign | KQuestion => false | _ => true end && s2 in
    match k with
    | 0 | 1 => s1 | 2 => s2 | 3 => s3 | 4 => s4 | 5 => s5 | 6 => s6 | 7 | 8 => s8 | _ => true
    end.

  Lemma stopk_mono k j kd : k <= j -> stopk k kd = true -> stopk j kd = true.
  Proof.
    intros H S.
    do 10 (destruct k as [|k]; [ do 10 (destruct j as [|j]; [ try lia; destruct kd; try discriminate S; reflexivity |]); reflexivity |]).
    do 10 (destruct j as [|j]; [lia|]). reflexivity.
  Qed.

  (* the parsing function of level k *)
  Definition pe (k : nat) (p : parsers) : pst -> res (node * pst) :=
    match k with
    | 0 | 1 => p_e1 p | 2 => p_e2 p | 3 => p_e3 p | 4 => p_e4 p | 5 => p_e5 p | 6 => p_e6 p
    | 7 => p_e7 p | 8 => p_e8 p | 9 => p_e9 p | _ => p_e10 p
    end.

  (* Dj k ts tn nd: at level k the tokens ts are read as nd, whatever non-continuing tokens follow *)
  Definition Dj (k : nat) (ts : list token) (tn : bool) (nd : node) : Prop :=
    forall rest, stopk k (hdk rest) = true ->
      Ev (fun n => pe k (P n) (St (ts ++ rest) tn) = Ok (nd, St rest tn)).

  (* the loop of level k *)
  Definition loopk (k : nat) (p : parsers) : node -> pst -> res (node * pst) :=
    match k with
    | 2 => p_or_loop p | 3 => p_and_loop p | 5 => p_add_loop p | 6 => p_mul_loop p
    | _ => p_postfix_loop p
    end.
  (* Gk k ts tn nd: at level k (2, 3, 5, 6, 8) the tokens ts are read as the first operand nd and
     the loop of the level goes on with what follows *)
  Definition Gk (k : nat) (ts : list token) (tn : bool) (nd : node) : Prop :=
    forall rest X, stopk (S k) (hdk rest) = true -> (k = 8 -> hdk rest <> KLParen) ->
      Ev (fun n => loopk k (P n) nd (St rest tn) = Ok X) ->
      Ev (fun n => pe k (P n) (St (ts ++ rest) tn) = Ok X).

  (* ---------------------------------------------------------------- loops that stop *)
  Lemma or_stop n nd rest tn : hdk rest <> KOr -> p_or_loop (P (S n)) nd (St rest tn) = Ok (nd, St rest tn).
  Proof. intros H. rewrite P_S. cbn [step p_or_loop]. rewrite accept_miss by exact H. reflexivity. Qed.
  Lemma and_stop n nd rest tn : hdk rest <> KAnd -> p_and_loop (P (S n)) nd (St rest tn) = Ok (nd, St rest tn).
  Proof. intros H. rewrite P_S. cbn [step p_and_loop]. rewrite accept_miss by exact H. reflexivity. Qed.
  Lemma add_stop n nd rest tn : addsub_kind (hdk rest) = false -> p_add_loop (P (S n)) nd (St rest tn) = Ok (nd, St rest tn).
  Proof. intros H. rewrite P_S. cbn [step p_add_loop]. rewrite accept_any_miss by exact H. reflexivity. Qed.
  Lemma mul_stop n nd rest tn : muldiv_kind (hdk rest) = false -> p_mul_loop (P (S n)) nd (St rest tn) = Ok (nd, St rest tn).
  Proof. intros H. rewrite P_S. cbn [step p_mul_loop]. rewrite accept_any_miss by exact H. reflexivity. Qed.
  Lemma post_stop n nd rest tn : hdk rest <> KDot -> hdk rest <> KLBracket ->
    p_postfix_loop (P (S n)) nd (St rest tn) = Ok (nd, St rest tn).
  Proof.
    intros H1 H2. rewrite P_S. cbn [step p_postfix_loop].
    rewrite accept_miss by exact H1. cbn [bind]. rewrite accept_miss by exact H2. reflexivity.
  Qed.

  Ltac kd_solve := let X := fresh in intro X;
    match goal with S : stopk _ ?k = true |- _ => rewrite X in S; discriminate S end.
  Ltac kd_bool := match goal with S : stopk _ ?k = true |- _ => destruct k; try discriminate S; reflexivity end.

  (* ---------------------------------------------------------------- from a level to the next looser one *)
  Lemma G2_of_D3 ts tn nd : Dj 3 ts tn nd -> Gk 2 ts tn nd.
  Proof.
    intros D rest X S _ L. apply (Ev_step2 _ _ _ (D rest S) L). intros n H1 H2.
    cbn [pe] in *. rewrite P_S. cbn [step p_e2]. rewrite H1. cbn [bind]. exact H2.
  Qed.
  Lemma G3_of_D4 ts tn nd : Dj 4 ts tn nd -> Gk 3 ts tn nd.
  Proof.
    intros D rest X S _ L. apply (Ev_step2 _ _ _ (D rest S) L). intros n H1 H2.
    cbn [pe] in *. rewrite P_S. cbn [step p_e3]. rewrite H1. cbn [bind]. exact H2.
  Qed.
  Lemma G5_of_D6 ts tn nd : Dj 6 ts tn nd -> Gk 5 ts tn nd.
  Proof.
    intros D rest X S _ L. apply (Ev_step2 _ _ _ (D rest S) L). intros n H1 H2.
    cbn [pe] in *. rewrite P_S. cbn [step p_e5]. rewrite H1. cbn [bind]. exact H2.
  Qed.
  Lemma G6_of_D7 ts tn nd : Dj 7 ts tn nd -> Gk 6 ts tn nd.
  Proof.
    intros D rest X S _ L. apply (Ev_step2 _ _ _ (D rest S) L). intros n H1 H2.
    cbn [pe] in *. rewrite P_S. cbn [step p_e6]. rewrite H1. cbn [bind]. exact H2.
  Qed.
  Lemma G8_of_D9 ts tn nd : Dj 9 ts tn nd -> Gk 8 ts tn nd.
  Proof.
    intros D rest X S NL L. apply (Ev_step2 _ _ _ (D rest S) L). intros n H1 H2.
    cbn [pe] in *. rewrite P_S. cbn [step p_e8]. rewrite H1. cbn [bind].
    rewrite accept_miss by (apply NL; reflexivity). cbn [bind]. exact H2.
  Qed.

  Lemma D2_of_G2 ts tn nd : Gk 2 ts tn nd -> Dj 2 ts tn nd.
  Proof.
    intros G rest S. apply (G rest (nd, St rest tn)).
    - apply (stopk_mono 2 3); [lia | exact S].
    - discriminate.
    - apply Ev_step0. intros n. apply or_stop. kd_solve.
  Qed.
  Lemma D3_of_G3 ts tn nd : Gk 3 ts tn nd -> Dj 3 ts tn nd.
  Proof.
    intros G rest S. apply (G rest (nd, St rest tn)).
    - apply (stopk_mono 3 4); [lia | exact S].
    - discriminate.
    - apply Ev_step0. intros n. apply and_stop. kd_solve.
  Qed.
  Lemma D5_of_G5 ts tn nd : Gk 5 ts tn nd -> Dj 5 ts tn nd.
  Proof.
    intros G rest S. apply (G rest (nd, St rest tn)).
    - apply (stopk_mono 5 6); [lia | exact S].
    - discriminate.
    - apply Ev_step0. intros n. apply add_stop. kd_bool.
  Qed.
  Lemma D6_of_G6 ts tn nd : Gk 6 ts tn nd -> Dj 6 ts tn nd.
  Proof.
    intros G rest S. apply (G rest (nd, St rest tn)).
    - apply (stopk_mono 6 7); [lia | exact S].
    - discriminate.
    - apply Ev_step0. intros n. apply mul_stop. kd_bool.
  Qed.
  Lemma D8_of_G8 ts tn nd : Gk 8 ts tn nd -> Dj 8 ts tn nd.
  Proof.
    intros G rest S. apply (G rest (nd, St rest tn)).
    - reflexivity.
    - intros _. kd_solve.
    - apply Ev_step0. intros n. apply post_stop; kd_solve.
  Qed.

  Lemma D1_of_D2 ts tn nd : Dj 2 ts tn nd -> Dj 1 ts tn nd.
  Proof.
    intros D rest S. assert (S2 : stopk 2 (hdk rest) = true) by (apply (stopk_mono 1 2); [lia | exact S]).
    apply (Ev_step1 _ _ (D rest S2)). intros n H1.
    cbn [pe] in *. rewrite P_S. cbn [step p_e1]. rewrite H1. cbn [bind].
    rewrite accept_miss by kd_solve. cbn [bind].
    rewrite accept_miss by kd_solve. cbn [bind].
    rewrite accept_miss by kd_solve. reflexivity.
  Qed.
  Lemma D4_of_D5 ts tn nd : Dj 5 ts tn nd -> Dj 4 ts tn nd.
  Proof.
    intros D rest S. assert (S2 : stopk 5 (hdk rest) = true) by (apply (stopk_mono 4 5); [lia | exact S]).
    apply (Ev_step1 _ _ (D rest S2)). intros n H1.
    cbn [pe] in *. rewrite P_S. cbn [step p_e4]. rewrite H1. cbn [bind].
    rewrite accept_any_miss by kd_bool. cbn [bind].
    rewrite accept_miss by kd_solve. reflexivity.
  Qed.
  Lemma D7_of_D8 ts tn nd : Dj 8 ts tn nd -> hdk ts <> KNot -> hdk ts <> KDash -> ts <> [] -> Dj 7 ts tn nd.
  Proof.
    intros D N1 N2 NE rest S.
    apply (Ev_step1 _ _ (D rest S)). intros n H1.
    cbn [pe] in *. rewrite P_S. cbn [step p_e7].
    assert (Hh : hdk (ts ++ rest) = hdk ts) by (destruct ts; [contradiction | reflexivity]).
    rewrite accept_miss by (rewrite Hh; exact N1). cbn [bind].
    rewrite accept_miss by (rewrite Hh; exact N2). exact H1.
  Qed.
  Lemma D9_of_D10 ts tn nd : Dj 10 ts tn nd ->
    hdk ts <> KLParen -> hdk ts <> KLBracket -> hdk ts <> KLCurl -> ts <> [] -> Dj 9 ts tn nd.
  Proof.
    intros D N1 N2 N3 NE rest S.
    apply (Ev_step1 _ _ (D rest S)). intros n H1.
    cbn [pe] in *. rewrite P_S. cbn [step p_e9].
    assert (Hh : hdk (ts ++ rest) = hdk ts) by (destruct ts; [contradiction | reflexivity]).
    rewrite accept_miss by (rewrite Hh; exact N1). cbn [bind].
    rewrite accept_miss by (rewrite Hh; exact N2). cbn [bind].
    rewrite accept_miss by (rewrite Hh; exact N3). exact H1.
  Qed.

  (* ---------------------------------------------------------------- climbing *)
  Definition start_ok (j : nat) (kd : kind) : bool :=
    (if 8 <=? j then match kd with KNot | KDash => false | _ => true end else true) &&
    (if 10 <=? j then match kd with KLParen | KLBracket | KLCurl => false | _ => true end else true).

  Lemma start_ok_pred j kd : start_ok (S j) kd = true -> start_ok j kd = true.
  Proof.
    unfold start_ok. intros H. apply andb_true_iff in H. destruct H as [H1 H2].
    apply andb_true_iff. split.
    - destruct (8 <=? j) eqn:E; [|reflexivity]. apply Nat.leb_le in E.
      replace (8 <=? S j) with true in H1 by (symmetry; apply Nat.leb_le; lia). exact H1.
    - destruct (10 <=? j) eqn:E; [|reflexivity]. apply Nat.leb_le in E.
      replace (10 <=? S j) with true in H2 by (symmetry; apply Nat.leb_le; lia). exact H2.
  Qed.

  Lemma D_down k ts tn nd : ts <> [] -> start_ok (S k) (hdk ts) = true -> Dj (S k) ts tn nd -> Dj k ts tn nd.
  Proof.
    intros NE SO D.
    destruct k as [|k].
    - (* k = 0: Dj 1 -> Dj 0, the same function and stop set *) exact D.
    - destruct k as [|k]; [exact (D1_of_D2 _ _ _ D)|].
      destruct k as [|k]; [exact (D2_of_G2 _ _ _ (G2_of_D3 _ _ _ D))|].
      destruct k as [|k]; [exact (D3_of_G3 _ _ _ (G3_of_D4 _ _ _ D))|].
      destruct k as [|k]; [exact (D4_of_D5 _ _ _ D)|].
      destruct k as [|k]; [exact (D5_of_G5 _ _ _ (G5_of_D6 _ _ _ D))|].
      destruct k as [|k]; [exact (D6_of_G6 _ _ _ (G6_of_D7 _ _ _ D))|].
      destruct k as [|k].
      { apply D7_of_D8; try exact D; try exact NE;
          unfold start_ok in SO; cbn in SO; destruct (hdk ts); try discriminate SO; discriminate. }
      destruct k as [|k]; [exact (D8_of_G8 _ _ _ (G8_of_D9 _ _ _ D))|].
      destruct k as [|k].
      { apply D9_of_D10; try exact D; try exact NE;
          unfold start_ok in SO; cbn in SO; destruct (hdk ts); try discriminate SO; discriminate. }
      (* k >= 10: both are p_e10 with the empty stop set *)
      exact D.
  Qed.

  Lemma climb j k ts tn nd : k <= j -> ts <> [] -> start_ok j (hdk ts) = true -> Dj j ts tn nd -> Dj k ts tn nd.
  Proof.
    intros H NE. induction H as [|m H IH]; intros SO D; [exact D|].
    apply IH; [apply start_ok_pred; exact SO | apply D_down; assumption].
  Qed.

  Lemma G_of_D k ts tn nd : (k = 2 \/ k = 3 \/ k = 5 \/ k = 6 \/ k = 8) -> Dj (S k) ts tn nd -> Gk k ts tn nd.
  Proof.
    intros [->|[->|[->|[->| ->]]]] D;
      [apply G2_of_D3 | apply G3_of_D4 | apply G5_of_D6 | apply G6_of_D7 | apply G8_of_D9]; exact D.
  Qed.

  Lemma Ev_unshift (Q : nat -> Prop) : Ev (fun n => Q (S n)) -> Ev Q.
  Proof. intros [a Ha]. exists (S a). intros [|n] Hn; [lia|]. apply Ha. lia. Qed.

  (* ---------------------------------------------------------------- token lists *)
  Lemma tkt_inv t k s : tkt t = (k, s) -> tk t = k /\ ttext t = s.
  Proof. unfold tkt. intros H. inversion H. auto. Qed.
  Lemma map_tkt_cons ts x l : map tkt ts = x :: l -> exists t r, ts = t :: r /\ tkt t = x /\ map tkt r = l.
  Proof. apply map_eq_cons. Qed.
  Lemma map_tkt_app ts a b : map tkt ts = a ++ b -> exists t1 t2, ts = t1 ++ t2 /\ map tkt t1 = a /\ map tkt t2 = b.
  Proof. apply map_eq_app. Qed.
  Lemma map_tkt_nil ts : map tkt ts = [] -> ts = [].
  Proof. destruct ts; [reflexivity | discriminate]. Qed.
  Lemma hdk_app ts rest : ts <> [] -> hdk (ts ++ rest) = hdk ts.
  Proof. destruct ts; [contradiction | reflexivity]. Qed.

  (* ---------------------------------------------------------------- what is proved for an expression *)
  Definition inv (e : expr) (nd : node) : Prop :=
    strip_parens (abs nd) = strip_parens e /\ is_empty nd = false.
  Definition flags (tn : bool) (e : expr) : Prop := tn = true -> no_tern e = true.
  Definition is_loop_level (k : nat) : Prop := k = 2 \/ k = 3 \/ k = 5 \/ k = 6 \/ k = 8.

  (* at its own level *)
  Definition Own (e : expr) : Prop :=
    forall ts tn, map tkt ts = ptoks e -> flags tn e ->
      exists nd, inv e nd /\ ts <> [] /\ start_ok (prec e) (hdk ts) = true /\
                 Dj (prec e) ts tn nd /\ (is_loop_level (prec e) -> Gk (prec e) ts tn nd).
  (* in every operand position, parenthesized as the printer does *)
  Definition Pk (e : expr) : Prop :=
    forall k ts tn, 1 <= k <= 8 -> map tkt ts = wrap (prec e <? k) (ptoks e) -> flags tn e ->
      exists nd, inv e nd /\ ts <> [] /\ Dj k ts tn nd /\ (is_loop_level k -> Gk k ts tn nd) /\
                 start_ok k (hdk ts) = true.

  Lemma start_ok_le k j kd : k <= j -> start_ok j kd = true -> start_ok k kd = true.
  Proof. induction 1 as [|m H IH]; [auto|]. intros S. apply IH, start_ok_pred, S. Qed.

  Lemma prec_range e : 1 <= prec e <= 10.
  Proof.
    induction e; cbn [prec]; try lia. destruct op; lia.
  Qed.

  Lemma D9_paren tl ts tr tn nd :
    tk tl = KLParen -> tk tr = KRParen -> Dj 1 ts tn nd -> Dj 9 (tl :: ts ++ [tr]) tn (NParen tl nd tr).
  Proof.
    intros Hl Hr D rest _.
    assert (S1 : stopk 1 (hdk (tr :: rest)) = true) by (cbn [hdk]; rewrite Hr; reflexivity).
    apply (Ev_step1 _ _ (D (tr :: rest) S1)). intros n H1.
    cbn [pe] in *. rewrite P_S. cbn [step p_e9].
    replace ((tl :: ts ++ [tr]) ++ rest) with (tl :: ts ++ tr :: rest)
      by (cbn [app]; rewrite <- app_assoc; reflexivity).
    rewrite accept_hit by exact Hl. cbn [bind]. rewrite H1. cbn [bind].
    rewrite expect_hit by exact Hr. reflexivity.
  Qed.

  Lemma ll2 : is_loop_level 2. Proof. unfold is_loop_level. auto. Qed.
  Lemma ll3 : is_loop_level 3. Proof. unfold is_loop_level. auto. Qed.
  Lemma ll5 : is_loop_level 5. Proof. unfold is_loop_level. auto. Qed.
  Lemma ll6 : is_loop_level 6. Proof. unfold is_loop_level. auto 6. Qed.
  Lemma ll8 : is_loop_level 8. Proof. unfold is_loop_level. auto 6. Qed.
  Lemma loop_level_le8 k : is_loop_level k -> k <= 8.
  Proof. intros [->|[->|[->|[->| ->]]]]; lia. Qed.

  Theorem Pk_of_Own e : Own e -> Pk e.
  Proof.
    intros O k ts tn Hk Hts Hf. pose proof (prec_range e) as Hp.
    destruct (prec e <? k) eqn:E; cbn [wrap] in Hts.
    - (* parenthesized *)
      apply Nat.ltb_lt in E.
      apply map_tkt_cons in Hts. destruct Hts as (tlp & r0 & -> & Hlp & Hr0).
      apply map_tkt_app in Hr0. destruct Hr0 as (ts' & r1 & -> & Hts' & Hr1).
      apply map_tkt_cons in Hr1. destruct Hr1 as (trp & r2 & -> & Hrp & Hr2).
      apply map_tkt_nil in Hr2. subst r2.
      apply tkt_inv in Hlp, Hrp. destruct Hlp as [Hlp _]. destruct Hrp as [Hrp _].
      destruct (O ts' tn Hts' Hf) as (nd & [Hi1 Hi2] & NE & SO & D & _).
      assert (D1 : Dj 1 ts' tn nd) by (apply (climb (prec e) 1); [lia | exact NE | exact SO | exact D]).
      pose proof (D9_paren tlp ts' trp tn nd Hlp Hrp D1) as D9.
      assert (NE9 : tlp :: ts' ++ [trp] <> []) by discriminate.
      assert (SO9 : start_ok 9 (hdk (tlp :: ts' ++ [trp])) = true) by (cbn [hdk]; rewrite Hlp; reflexivity).
      exists (NParen tlp nd trp). split; [split; [cbn [abs strip_parens]; exact Hi1 | reflexivity]|].
      split; [exact NE9|]. split; [|split].
      + apply (climb 9 k); [lia | exact NE9 | exact SO9 | exact D9].
      + intros LL. apply G_of_D; [exact LL|]. pose proof (loop_level_le8 k LL).
        apply (climb 9 (S k)); [lia | exact NE9 | exact SO9 | exact D9].
      + apply (start_ok_le k 9); [lia | exact SO9].
    - apply Nat.ltb_ge in E.
      destruct (O ts tn Hts Hf) as (nd & Hi & NE & SO & D & G).
      exists nd. split; [exact Hi|]. split; [exact NE|]. split; [|split].
      + apply (climb (prec e) k); [lia | exact NE | exact SO | exact D].
      + intros LL. destruct (Nat.eq_dec k (prec e)) as [->|Hne]; [apply G; exact LL|].
        apply G_of_D; [exact LL|]. apply (climb (prec e) (S k)); [lia | exact NE | exact SO | exact D].
      + apply (start_ok_le k (prec e)); [lia | exact SO].
  Qed.

  (* ---------------------------------------------------------------- atoms *)
  Lemma e10_bool n t rest tn : tk t = KTrue \/ tk t = KFalse ->
    p_e10 (P (S n)) (St (t :: rest) tn) = Ok (NBool t, St rest tn).
  Proof.
    intros H. rewrite P_S. cbn [step p_e10]. rewrite cur_cons.
    destruct H as [H|H]; rewrite H; rewrite advance_St; reflexivity.
  Qed.
  Lemma e10_id n t rest tn : tk t = KId -> p_e10 (P (S n)) (St (t :: rest) tn) = Ok (NId t, St rest tn).
  Proof. intros H. rewrite P_S. cbn [step p_e10]. rewrite cur_cons, H, advance_St. reflexivity. Qed.
  Lemma e10_num n t rest tn : tk t = KNum -> num_too_long (ttext t) = false ->
    p_e10 (P (S n)) (St (t :: rest) tn) = Ok (NNum t, St rest tn).
  Proof. intros H L. rewrite P_S. cbn [step p_e10]. rewrite cur_cons, H, advance_St. cbn [bind]. rewrite L. reflexivity. Qed.
  Lemma e10_str n t rest tn : string_kind (tk t) = true -> str_invalid t = false ->
    p_e10 (P (S n)) (St (t :: rest) tn) = Ok (NStr t, St rest tn).
  Proof.
    intros H L. rewrite P_S. cbn [step p_e10]. rewrite cur_cons.
    destruct (tk t); try discriminate H; rewrite advance_St; cbn [bind]; rewrite L; reflexivity.
  Qed.

  Lemma single_tok ts x : map tkt ts = [x] -> exists t, ts = [t] /\ tkt t = x.
  Proof.
    intros H. apply map_tkt_cons in H. destruct H as (t & r & -> & Ht & Hr).
    apply map_tkt_nil in Hr. subst. exists t. auto.
  Qed.

  Lemma D10_atom t tn nd :
    (forall n rest, p_e10 (P (S n)) (St (t :: rest) tn) = Ok (nd, St rest tn)) -> Dj 10 [t] tn nd.
  Proof. intros H rest _. apply Ev_step0. intros n. cbn [pe app]. apply H. Qed.

  Ltac own_atom t nd :=
    exists nd; split; [split; [|reflexivity]|]; [| split; [discriminate|]; split; [|split; [|intros [H|[H|[H|[H|H]]]]; discriminate H]]].

  Lemma Own_bool b : Own (EBool b).
  Proof.
    intros ts tn Hts _. cbn [ptoks] in Hts. apply single_tok in Hts. destruct Hts as (t & -> & Ht).
    assert (Hk : tk t = if b then KTrue else KFalse) by (destruct b; apply tkt_inv in Ht; tauto).
    exists (NBool t). split; [split; [|reflexivity]|].
    - cbn [abs strip_parens]. rewrite Hk. destruct b; reflexivity.
    - split; [discriminate|]. split; [cbn [hdk prec]; rewrite Hk; destruct b; reflexivity|].
      split; [|intros [H|[H|[H|[H|H]]]]; discriminate H].
      cbn [prec]. apply D10_atom. intros n rest. apply e10_bool. rewrite Hk. destruct b; auto.
  Qed.
  Lemma Own_id s : Own (EId s).
  Proof.
    intros ts tn Hts _. cbn [ptoks] in Hts. apply single_tok in Hts. destruct Hts as (t & -> & Ht).
    apply tkt_inv in Ht. destruct Ht as [Hk Hx].
    exists (NId t). split; [split; [|reflexivity]|].
    - cbn [abs strip_parens]. now rewrite Hx.
    - split; [discriminate|]. split; [cbn [hdk prec]; rewrite Hk; reflexivity|].
      split; [|intros [H|[H|[H|[H|H]]]]; discriminate H].
      cbn [prec]. apply D10_atom. intros n rest. apply e10_id. exact Hk.
  Qed.
  Lemma Own_num v : printable (ENum v) = true -> Own (ENum v).
  Proof.
    intros Hp ts tn Hts _. cbn [ptoks] in Hts. apply single_tok in Hts. destruct Hts as (t & -> & Ht).
    apply tkt_inv in Ht. destruct Ht as [Hk Hx].
    exists (NNum t). split; [split; [|reflexivity]|].
    - cbn [abs strip_parens]. rewrite Hx, NumFacts.num_value_dec. reflexivity.
    - split; [discriminate|]. split; [cbn [hdk prec]; rewrite Hk; reflexivity|].
      split; [|intros [H|[H|[H|[H|H]]]]; discriminate H].
      cbn [prec]. apply D10_atom. intros n rest. apply e10_num; [exact Hk|].
      rewrite Hx. cbn [printable] in Hp. destruct (num_too_long (N_dec v)); [discriminate | reflexivity].
  Qed.
  Lemma Own_str f m v : Own (EStr f m v).
  Proof.
    intros ts tn Hts _. cbn [ptoks] in Hts. apply single_tok in Hts. destruct Hts as (t & -> & Ht).
    apply tkt_inv in Ht. destruct Ht as [Hk Hx].
    exists (NStr t). split; [split; [|reflexivity]|].
    - cbn [abs strip_parens]. rewrite Hk, Hx, str_value_text. destruct f, m; reflexivity.
    - split; [discriminate|]. split; [cbn [hdk prec]; rewrite Hk; destruct f, m; reflexivity|].
      split; [|intros [H|[H|[H|[H|H]]]]; discriminate H].
      cbn [prec]. apply D10_atom. intros n rest. apply e10_str.
      + rewrite Hk. destruct f, m; reflexivity.
      + apply (str_text_valid f m v); assumption.
  Qed.
  Lemma Own_paren e : Own e -> Own (EParen e).
  Proof. intros O ts tn Hts Hf. exact (O ts tn Hts Hf). Qed.

  (* ---------------------------------------------------------------- operators *)
  Lemma flags_and tn a b : (tn = true -> a && b = true) -> (tn = true -> a = true) /\ (tn = true -> b = true).
  Proof. intros H. split; intros T; apply H in T; apply andb_true_iff in T; tauto. Qed.
  Lemma app_cons_ne {A} (l : list A) x r : l ++ x :: r <> [].
  Proof. destruct l; discriminate. Qed.
  Lemma curpos_cons t r tn : curpos (St (t :: r) tn) = tpos t.
  Proof. reflexivity. Qed.
  Lemma curpos_app ts rest tn : ts <> [] -> curpos (St (ts ++ rest) tn) = curpos (St ts tn).
  Proof. destruct ts; [contradiction | reflexivity]. Qed.

  Ltac split3 Hts tsl top tsr Hl Hop Hr :=
    let r0 := fresh "r0" in let H0 := fresh "H0" in
    apply map_tkt_app in Hts; destruct Hts as (tsl & r0 & -> & Hl & H0);
    apply map_tkt_cons in H0; destruct H0 as (top & tsr & -> & Hop & Hr);
    apply tkt_inv in Hop; destruct Hop as [Hop _].

  Lemma Own_or l r : Pk l -> Pk r -> Own (EOr l r).
  Proof.
    intros Pl Pr ts tn Hts Hf. cbn [ptoks] in Hts. split3 Hts tsl top tsr Hl Hop Hr.
    unfold flags in Hf. cbn [no_tern] in Hf. apply flags_and in Hf. destruct Hf as [Fl Fr].
    destruct (Pl 2 tsl tn ltac:(lia) Hl Fl) as (ndl & [Il El] & NEl & Dl & Gl & _).
    destruct (Pr 3 tsr tn ltac:(lia) Hr Fr) as (ndr & [Ir Er] & NEr & Dr & _ & _).
    exists (NOr ndl top ndr). split; [split; [cbn [abs strip_parens]; now rewrite Il, Ir | reflexivity]|].
    split; [apply app_cons_ne|]. split; [reflexivity|].
    assert (G : Gk 2 (tsl ++ top :: tsr) tn (NOr ndl top ndr)).
    { intros rest X S _ L. rewrite <- app_assoc. cbn [app].
      apply (Gl ll2 (top :: tsr ++ rest) X).
      - cbn [hdk]. rewrite Hop. reflexivity.
      - discriminate.
      - apply (Ev_step2 _ _ _ (Dr rest S) L). intros n H1 H2. cbn [pe loopk] in *.
        rewrite P_S. cbn [step p_or_loop]. rewrite accept_hit by exact Hop. cbn [bind].
        rewrite El. rewrite H1. cbn [bind]. exact H2. }
    split; [|intros _; exact G]. cbn [prec]. apply D2_of_G2. exact G.
  Qed.

  Lemma Own_and l r : Pk l -> Pk r -> Own (EAnd l r).
  Proof.
    intros Pl Pr ts tn Hts Hf. cbn [ptoks] in Hts. split3 Hts tsl top tsr Hl Hop Hr.
    unfold flags in Hf. cbn [no_tern] in Hf. apply flags_and in Hf. destruct Hf as [Fl Fr].
    destruct (Pl 3 tsl tn ltac:(lia) Hl Fl) as (ndl & [Il El] & NEl & Dl & Gl & _).
    destruct (Pr 4 tsr tn ltac:(lia) Hr Fr) as (ndr & [Ir Er] & NEr & Dr & _ & _).
    exists (NAnd ndl top ndr). split; [split; [cbn [abs strip_parens]; now rewrite Il, Ir | reflexivity]|].
    split; [apply app_cons_ne|]. split; [reflexivity|].
    assert (G : Gk 3 (tsl ++ top :: tsr) tn (NAnd ndl top ndr)).
    { intros rest X S _ L. rewrite <- app_assoc. cbn [app].
      apply (Gl ll3 (top :: tsr ++ rest) X).
      - cbn [hdk]. rewrite Hop. reflexivity.
      - discriminate.
      - apply (Ev_step2 _ _ _ (Dr rest S) L). intros n H1 H2. cbn [pe loopk] in *.
        rewrite P_S. cbn [step p_and_loop]. rewrite accept_hit by exact Hop. cbn [bind].
        rewrite El. rewrite H1. cbn [bind]. exact H2. }
    split; [|intros _; exact G]. cbn [prec]. apply D3_of_G3. exact G.
  Qed.

  Lemma arith_of_kind op : arith_of (arith_kind op) = op.
  Proof. destruct op; reflexivity. Qed.

  Lemma Own_add op l r : (op = OAdd \/ op = OSub) -> Pk l -> Pk r -> Own (EArith op l r).
  Proof.
    intros Hop5 Pl Pr ts tn Hts Hf.
    assert (Hp : prec (EArith op l r) = 5) by (destruct Hop5; subst; reflexivity).
    cbn [ptoks] in Hts. rewrite Hp in Hts. change (prec r <=? 5) with (prec r <? 6) in Hts.
    split3 Hts tsl top tsr Hl Hop Hr.
    unfold flags in Hf. cbn [no_tern] in Hf. apply flags_and in Hf. destruct Hf as [Fl Fr].
    destruct (Pl 5 tsl tn ltac:(lia) Hl Fl) as (ndl & [Il El] & NEl & Dl & Gl & _).
    destruct (Pr 6 tsr tn ltac:(lia) Hr Fr) as (ndr & [Ir Er] & NEr & Dr & _ & _).
    assert (Ha : addsub_kind (tk top) = true) by (rewrite Hop; destruct Hop5; subst; reflexivity).
    exists (NArith ndl top ndr). split; [split; [|reflexivity]|].
    { cbn [abs strip_parens]. rewrite Il, Ir, Hop, arith_of_kind. reflexivity. }
    split; [apply app_cons_ne|]. split; [rewrite Hp; reflexivity|]. rewrite Hp.
    assert (G : Gk 5 (tsl ++ top :: tsr) tn (NArith ndl top ndr)).
    { intros rest X S _ L. rewrite <- app_assoc. cbn [app].
      apply (Gl ll5 (top :: tsr ++ rest) X).
      - cbn [hdk]. rewrite Hop. destruct Hop5; subst; reflexivity.
      - discriminate.
      - apply (Ev_step2 _ _ _ (Dr rest S) L). intros n H1 H2. cbn [pe loopk] in *.
        rewrite P_S. cbn [step p_add_loop]. rewrite accept_any_hit by exact Ha. cbn [bind].
        rewrite H1. cbn [bind]. exact H2. }
    split; [|intros _; exact G]. apply D5_of_G5. exact G.
  Qed.

  Lemma Own_mul op l r : (op = OMul \/ op = ODiv \/ op = OMod) -> Pk l -> Pk r -> Own (EArith op l r).
  Proof.
    intros Hop6 Pl Pr ts tn Hts Hf.
    assert (Hp : prec (EArith op l r) = 6) by (destruct Hop6 as [|[|]]; subst; reflexivity).
    cbn [ptoks] in Hts. rewrite Hp in Hts. change (prec r <=? 6) with (prec r <? 7) in Hts.
    split3 Hts tsl top tsr Hl Hop Hr.
    unfold flags in Hf. cbn [no_tern] in Hf. apply flags_and in Hf. destruct Hf as [Fl Fr].
    destruct (Pl 6 tsl tn ltac:(lia) Hl Fl) as (ndl & [Il El] & NEl & Dl & Gl & _).
    destruct (Pr 7 tsr tn ltac:(lia) Hr Fr) as (ndr & [Ir Er] & NEr & Dr & _ & _).
    assert (Ha : muldiv_kind (tk top) = true) by (rewrite Hop; destruct Hop6 as [|[|]]; subst; reflexivity).
    exists (NArith ndl top ndr). split; [split; [|reflexivity]|].
    { cbn [abs strip_parens]. rewrite Il, Ir, Hop, arith_of_kind. reflexivity. }
    split; [apply app_cons_ne|]. split; [rewrite Hp; reflexivity|]. rewrite Hp.
    assert (G : Gk 6 (tsl ++ top :: tsr) tn (NArith ndl top ndr)).
    { intros rest X S _ L. rewrite <- app_assoc. cbn [app].
      apply (Gl ll6 (top :: tsr ++ rest) X).
      - cbn [hdk]. rewrite Hop. destruct Hop6 as [|[|]]; subst; reflexivity.
      - discriminate.
      - apply (Ev_step2 _ _ _ (Dr rest S) L). intros n H1 H2. cbn [pe loopk] in *.
        rewrite P_S. cbn [step p_mul_loop]. rewrite accept_any_hit by exact Ha. cbn [bind].
        rewrite H1. cbn [bind]. exact H2. }
    split; [|intros _; exact G]. apply D6_of_G6. exact G.
  Qed.

  Lemma cmp_simple tsl top tsr tn ndl ndr :
    cmp_kind (tk top) = true -> Dj 5 tsl tn ndl -> Dj 5 tsr tn ndr ->
    Dj 4 (tsl ++ top :: tsr) tn (NCmp ndl top ndr).
  Proof.
    intros C Dl Dr rest S.
    assert (S5 : stopk 5 (hdk rest) = true) by (apply (stopk_mono 4 5); [lia | exact S]).
    assert (S5a : stopk 5 (hdk (top :: tsr ++ rest)) = true)
      by (cbn [hdk]; destruct (tk top); try discriminate C; reflexivity).
    apply (Ev_step2 _ _ _ (Dl _ S5a) (Dr rest S5)). intros n H1 H2. cbn [pe] in *.
    rewrite P_S. cbn [step p_e4]. rewrite <- app_assoc. cbn [app]. rewrite H1. cbn [bind].
    rewrite accept_any_hit by exact C. cbn [bind]. rewrite H2. reflexivity.
  Qed.
  Lemma cmp_notin tsl tnot tin tsr tn ndl ndr :
    tk tnot = KNot -> tk tin = KIn -> Dj 5 tsl tn ndl -> Dj 5 tsr tn ndr ->
    Dj 4 (tsl ++ tnot :: tin :: tsr) tn (NNotIn ndl tnot tin ndr).
  Proof.
    intros Hn Hi Dl Dr rest S.
    assert (S5 : stopk 5 (hdk rest) = true) by (apply (stopk_mono 4 5); [lia | exact S]).
    assert (S5a : stopk 5 (hdk (tnot :: tin :: tsr ++ rest)) = true) by (cbn [hdk]; rewrite Hn; reflexivity).
    apply (Ev_step2 _ _ _ (Dl _ S5a) (Dr rest S5)). intros n H1 H2. cbn [pe] in *.
    rewrite P_S. cbn [step p_e4]. rewrite <- app_assoc. cbn [app]. rewrite H1. cbn [bind].
    rewrite accept_any_miss by (cbn [hdk]; rewrite Hn; reflexivity). cbn [bind].
    rewrite accept_hit by exact Hn. cbn [bind]. rewrite accept_hit by exact Hi. cbn [bind].
    rewrite H2. reflexivity.
  Qed.

  Lemma not_loop4 : ~ is_loop_level 4.
  Proof. intros [H|[H|[H|[H|H]]]]; discriminate H. Qed.

  Lemma Own_cmp op l r : Pk l -> Pk r -> Own (ECmp op l r).
  Proof.
    intros Pl Pr ts tn Hts Hf. cbn [ptoks] in Hts.
    apply map_tkt_app in Hts. destruct Hts as (tsl & r0 & -> & Hl & H0).
    apply map_tkt_app in H0. destruct H0 as (tso & tsr & -> & Ho & Hr).
    unfold flags in Hf. cbn [no_tern] in Hf. apply flags_and in Hf. destruct Hf as [Fl Fr].
    destruct (Pl 5 tsl tn ltac:(lia) Hl Fl) as (ndl & [Il El] & NEl & Dl & _ & _).
    destruct (Pr 5 tsr tn ltac:(lia) Hr Fr) as (ndr & [Ir Er] & NEr & Dr & _ & _).
    destruct op; cbn [cmp_toks] in Ho;
      try (apply single_tok in Ho; destruct Ho as (top & -> & Hop); apply tkt_inv in Hop; destruct Hop as [Hop _];
           exists (NCmp ndl top ndr); split; [split; [cbn [abs strip_parens]; rewrite Il, Ir, Hop; reflexivity | reflexivity]|];
           split; [apply app_cons_ne|]; split; [reflexivity|]; split; [|intros LL; exfalso; exact (not_loop4 LL)];
           cbn [prec app]; apply cmp_simple; [rewrite Hop; reflexivity | exact Dl | exact Dr]).
    (* not in *)
    apply map_tkt_cons in Ho. destruct Ho as (tnot & r1 & -> & Hn & Ho).
    apply single_tok in Ho. destruct Ho as (tin & -> & Hi).
    apply tkt_inv in Hn, Hi. destruct Hn as [Hn _]. destruct Hi as [Hi _].
    exists (NNotIn ndl tnot tin ndr). split; [split; [cbn [abs strip_parens]; rewrite Il, Ir; reflexivity | reflexivity]|].
    split; [apply app_cons_ne|]. split; [reflexivity|]. split; [|intros LL; exfalso; exact (not_loop4 LL)].
    cbn [prec app]. apply cmp_notin; assumption.
  Qed.

  Lemma not_loop7 : ~ is_loop_level 7.
  Proof. intros [H|[H|[H|[H|H]]]]; discriminate H. Qed.
  Lemma not_loop1 : ~ is_loop_level 1.
  Proof. intros [H|[H|[H|[H|H]]]]; discriminate H. Qed.

  Lemma Own_not x : Pk x -> Own (ENot x).
  Proof.
    intros Px ts tn Hts Hf. cbn [ptoks] in Hts.
    apply map_tkt_cons in Hts. destruct Hts as (top & tsx & -> & Hop & Hx).
    apply tkt_inv in Hop. destruct Hop as [Hop _].
    destruct (Px 8 tsx tn ltac:(lia) Hx Hf) as (ndx & [Ix Ex] & NEx & Dx & _ & _).
    exists (NNot top (curpos (St tsx tn)) ndx).
    split; [split; [cbn [abs strip_parens]; now rewrite Ix | reflexivity]|].
    split; [discriminate|]. split; [reflexivity|]. split; [|intros LL; exfalso; exact (not_loop7 LL)].
    cbn [prec]. intros rest S. apply (Ev_step1 _ _ (Dx rest S)). intros n H1. cbn [pe] in *.
    rewrite P_S. cbn [step p_e7 app]. rewrite accept_hit by exact Hop. cbn [bind]. rewrite H1. cbn [bind].
    rewrite curpos_app by exact NEx. reflexivity.
  Qed.
  Lemma Own_neg x : Pk x -> Own (ENeg x).
  Proof.
    intros Px ts tn Hts Hf. cbn [ptoks] in Hts.
    apply map_tkt_cons in Hts. destruct Hts as (top & tsx & -> & Hop & Hx).
    apply tkt_inv in Hop. destruct Hop as [Hop _].
    destruct (Px 8 tsx tn ltac:(lia) Hx Hf) as (ndx & [Ix Ex] & NEx & Dx & _ & _).
    exists (NUMinus top (curpos (St tsx tn)) ndx).
    split; [split; [cbn [abs strip_parens]; now rewrite Ix | reflexivity]|].
    split; [discriminate|]. split; [reflexivity|]. split; [|intros LL; exfalso; exact (not_loop7 LL)].
    cbn [prec]. intros rest S. apply (Ev_step1 _ _ (Dx rest S)). intros n H1. cbn [pe] in *.
    rewrite P_S. cbn [step p_e7 app].
    rewrite accept_miss by (cbn [hdk]; rewrite Hop; discriminate). cbn [bind].
    rewrite accept_hit by exact Hop. cbn [bind]. rewrite H1. cbn [bind].
    rewrite curpos_app by exact NEx. reflexivity.
  Qed.

  Lemma wrap1 e : wrap (prec e <? 1) (ptoks e) = ptoks e.
  Proof.
    pose proof (prec_range e). replace (prec e <? 1) with false; [reflexivity|].
    symmetry. apply Nat.ltb_ge. lia.
  Qed.

  Lemma Own_tern c t f : Pk c -> Pk t -> Pk f -> no_tern t = true -> no_tern f = true -> Own (ETern c t f).
  Proof.
    intros Pc Pt Pf Nt Nf ts tn Hts Hf. cbn [ptoks] in Hts.
    split3 Hts tsc tq r1 Hc Hq H1.
    apply map_tkt_app in H1. destruct H1 as (tst & r2 & -> & Ht & H2).
    apply map_tkt_cons in H2. destruct H2 as (tcol & tsf & -> & Hcol & Hfs).
    apply tkt_inv in Hcol. destruct Hcol as [Hcol _].
    destruct tn; [specialize (Hf eq_refl); discriminate Hf|].
    rewrite <- wrap1 in Ht, Hfs.
    destruct (Pc 2 tsc false ltac:(lia) Hc ltac:(discriminate)) as (ndc & [Ic Ec] & NEc & Dc & _ & _).
    destruct (Pt 1 tst true ltac:(lia) Ht (fun _ => Nt)) as (ndt & [It Et] & NEt & Dt & _ & _).
    destruct (Pf 1 tsf true ltac:(lia) Hfs (fun _ => Nf)) as (ndf & [If_ Ef] & NEf & Df & _ & _).
    exists (NTernary ndc tq ndt tcol ndf).
    split; [split; [cbn [abs strip_parens]; now rewrite Ic, It, If_ | reflexivity]|].
    split; [apply app_cons_ne|]. split; [reflexivity|]. split; [|intros LL; exfalso; exact (not_loop1 LL)].
    cbn [prec]. intros rest S.
    assert (S2 : stopk 2 (hdk (tq :: (tst ++ tcol :: tsf) ++ rest)) = true) by (cbn [hdk]; rewrite Hq; reflexivity).
    assert (S1 : stopk 1 (hdk (tcol :: tsf ++ rest)) = true) by (cbn [hdk]; rewrite Hcol; reflexivity).
    apply (Ev_step3 _ _ _ _ (Dc _ S2) (Dt _ S1) (Df rest S)). intros n H1 H2 H3. cbn [pe] in *.
    rewrite P_S. cbn [step p_e1]. rewrite <- app_assoc. cbn [app]. rewrite H1. cbn [bind].
    rewrite accept_miss by (cbn [hdk]; rewrite Hq; discriminate). cbn [bind].
    rewrite accept_miss by (cbn [hdk]; rewrite Hq; discriminate). cbn [bind].
    rewrite accept_hit by exact Hq. cbn [bind]. rewrite tern_St. rewrite set_tern_St.
    rewrite <- app_assoc. cbn [app]. rewrite H2. cbn [bind]. rewrite expect_hit by exact Hcol. cbn [bind].
    rewrite H3. cbn [bind]. rewrite set_tern_St. reflexivity.
  Qed.

  (* ---------------------------------------------------------------- nothing before a closing bracket *)
  Definition is_closer (kd : kind) : Prop := kd = KRParen \/ kd = KRBracket \/ kd = KRCurl.

  Section Empty.
    Variables (tc : token) (rest : list token) (tn : bool).
    Hypothesis Hc : is_closer (tk tc).
    Let st := St (tc :: rest) tn.
    Let r : res (node * pst) := Ok (NEmpty (tpos tc), st).

    Ltac closer_ne := cbn [hdk]; destruct Hc as [H|[H|H]]; rewrite H; discriminate.
    Ltac closer_b := cbn [hdk]; destruct Hc as [H|[H|H]]; rewrite H; reflexivity.

    Lemma e10_empty n : p_e10 (P (S n)) st = r.
    Proof.
      rewrite P_S. cbn [step p_e10]. unfold st. rewrite cur_cons.
      destruct Hc as [H|[H|H]]; rewrite H; reflexivity.
    Qed.
    Lemma e9_empty n : p_e9 (P (S (S n))) st = r.
    Proof.
      rewrite P_S. cbn [step p_e9]. unfold st.
      rewrite accept_miss by closer_ne. cbn [bind]. rewrite accept_miss by closer_ne. cbn [bind].
      rewrite accept_miss by closer_ne. apply e10_empty.
    Qed.
    Lemma e8_empty n : p_e8 (P (S (S (S n)))) st = r.
    Proof.
      rewrite P_S. cbn [step p_e8]. rewrite e9_empty. unfold r. cbn [bind]. unfold st.
      rewrite accept_miss by closer_ne. cbn [bind]. apply post_stop; closer_ne.
    Qed.
    Lemma e7_empty n : p_e7 (P (S (S (S (S n))))) st = r.
    Proof.
      rewrite P_S. cbn [step p_e7]. unfold st.
      rewrite accept_miss by closer_ne. cbn [bind]. rewrite accept_miss by closer_ne. apply e8_empty.
    Qed.
    Lemma e6_empty n : p_e6 (P (S (S (S (S (S n)))))) st = r.
    Proof.
      rewrite P_S. cbn [step p_e6]. rewrite (e7_empty n). unfold r. cbn [bind].
      apply mul_stop. closer_b.
    Qed.
    Lemma e5_empty n : p_e5 (P (S (S (S (S (S (S n))))))) st = r.
    Proof.
      rewrite P_S. cbn [step p_e5]. rewrite (e6_empty n). unfold r. cbn [bind].
      apply add_stop. closer_b.
    Qed.
    Lemma e4_empty n : p_e4 (P (S (S (S (S (S (S (S n)))))))) st = r.
    Proof.
      rewrite P_S. cbn [step p_e4]. rewrite (e5_empty n). unfold r. cbn [bind]. unfold st.
      rewrite accept_any_miss by closer_b. cbn [bind]. rewrite accept_miss by closer_ne. reflexivity.
    Qed.
    Lemma e3_empty n : p_e3 (P (S (S (S (S (S (S (S (S n))))))))) st = r.
    Proof.
      rewrite P_S. cbn [step p_e3]. rewrite (e4_empty n). unfold r. cbn [bind].
      apply and_stop. closer_ne.
    Qed.
    Lemma e2_empty n : p_e2 (P (S (S (S (S (S (S (S (S (S n)))))))))) st = r.
    Proof.
      rewrite P_S. cbn [step p_e2]. rewrite (e3_empty n). unfold r. cbn [bind].
      apply or_stop. closer_ne.
    Qed.
    Lemma e1_empty n : p_e1 (P (S (S (S (S (S (S (S (S (S (S n))))))))))) st = r.
    Proof.
      rewrite P_S. cbn [step p_e1]. rewrite (e2_empty n). unfold r. cbn [bind]. unfold st.
      rewrite accept_miss by closer_ne. cbn [bind]. rewrite accept_miss by closer_ne. cbn [bind].
      rewrite accept_miss by closer_ne. reflexivity.
    Qed.
    Lemma Ev_e1_empty : Ev (fun n => p_e1 (P n) st = r).
    Proof. exists 10. intros n Hn. do 10 (destruct n as [|n]; [lia|]). apply e1_empty. Qed.
  End Empty.

  (* ---------------------------------------------------------------- argument lists *)
  Fixpoint app_l (a b : elist) : elist := match a with LNil => b | LCons e r => LCons e (app_l r b) end.
  Fixpoint app_k (a b : kwlist) : kwlist := match a with KNil => b | KCons k v r => KCons k v (app_k r b) end.
  Fixpoint app_d (a b : dlist) : dlist := match a with DNil => b | DCons k v r => DCons k v (app_d r b) end.
  Fixpoint ForallL (Q : expr -> Prop) (a : elist) : Prop :=
    match a with LNil => True | LCons e r => Q e /\ ForallL Q r end.
  Fixpoint ForallK (Q : expr -> Prop) (k : kwlist) : Prop :=
    match k with KNil => True | KCons _ v r => Q v /\ ForallK Q r end.
  Fixpoint ForallD (Q : expr -> Prop) (d : dlist) : Prop :=
    match d with DNil => True | DCons k v r => Q k /\ Q v /\ ForallD Q r end.

  Lemma abs_pos_snoc_pos a n : abs_pos (args_snoc_pos a n) = app_l (abs_pos a) (LCons (abs n) LNil).
  Proof. induction a; cbn; congruence. Qed.
  Lemma abs_kw_snoc_pos a n : abs_kw (args_snoc_pos a n) = abs_kw a.
  Proof. induction a; cbn; congruence. Qed.
  Lemma abs_pos_snoc_kw a k c v : abs_pos (args_snoc_kw a k c v) = abs_pos a.
  Proof. induction a; cbn; congruence. Qed.
  Lemma abs_kw_snoc_kw a k c v : abs_kw (args_snoc_kw a k c v) = app_k (abs_kw a) (KCons (key_text k) (abs v) KNil).
  Proof. induction a; cbn; congruence. Qed.
  Lemma abs_d_snoc_kw a k c v : abs_d (args_snoc_kw a k c v) = app_d (abs_d a) (DCons (abs k) (abs v) DNil).
  Proof. induction a; cbn; congruence. Qed.
  Lemma strip_l_app a b : strip_l (app_l a b) = app_l (strip_l a) (strip_l b).
  Proof. induction a; cbn; congruence. Qed.
  Lemma strip_k_app a b : strip_k (app_k a b) = app_k (strip_k a) (strip_k b).
  Proof. induction a; cbn; congruence. Qed.
  Lemma strip_d_app a b : strip_d (app_d a b) = app_d (strip_d a) (strip_d b).
  Proof. induction a; cbn; congruence. Qed.
  Lemma app_l_assoc a b c : app_l (app_l a b) c = app_l a (app_l b c).
  Proof. induction a; cbn; congruence. Qed.
  Lemma app_k_assoc a b c : app_k (app_k a b) c = app_k a (app_k b c).
  Proof. induction a; cbn; congruence. Qed.
  Lemma app_d_assoc a b c : app_d (app_d a b) c = app_d a (app_d b c).
  Proof. induction a; cbn; congruence. Qed.
  Lemma app_l_nil a : app_l a LNil = a.
  Proof. induction a; cbn; congruence. Qed.
  Lemma app_k_nil a : app_k a KNil = a.
  Proof. induction a; cbn; congruence. Qed.

  Lemma D1_id t tn : tk t = KId -> Dj 1 [t] tn (NId t).
  Proof.
    intros H. apply (climb 10 1); [lia | discriminate | cbn [hdk]; rewrite H; reflexivity|].
    apply D10_atom. intros n rest. apply e10_id. exact H.
  Qed.

  Lemma closer_stop1 tc rest : is_closer (tk tc) -> stopk 1 (hdk (tc :: rest)) = true.
  Proof. intros [H|[H|H]]; cbn [hdk]; rewrite H; reflexivity. Qed.
  Lemma closer_not k tc : is_closer (tk tc) -> (k = KComma \/ k = KColon) -> tk tc <> k.
  Proof. intros [H|[H|H]] [->| ->]; rewrite H; discriminate. Qed.

  (* what follows an item of a printed argument list: a comma or the closing bracket *)
  Lemma items_head ts a k tc rest :
    map tkt ts = ptl a ++ pkl k -> is_closer (tk tc) -> stopk 1 (hdk (ts ++ tc :: rest)) = true.
  Proof.
    intros H Hc. destruct ts as [|t r]; [apply closer_stop1; exact Hc|].
    destruct a as [|e a]; [destruct k as [|key v k']|]; cbn [ptl pkl app] in H; try discriminate H;
      cbn [map] in H; injection H as Ht _ _; cbn [app hdk]; rewrite Ht; reflexivity.
  Qed.
  Lemma ditems_head ts d tc rest :
    map tkt ts = pdl d -> is_closer (tk tc) -> stopk 1 (hdk (ts ++ tc :: rest)) = true.
  Proof.
    intros H Hc. destruct ts as [|t r]; [apply closer_stop1; exact Hc|].
    destruct d as [|key v d']; cbn [pdl] in H; try discriminate H.
    cbn [map] in H. injection H as Ht _ _. cbn [app hdk]. rewrite Ht. reflexivity.
  Qed.

  Definition flags_b (tn : bool) (b : bool) : Prop := tn = true -> b = true.

  Lemma args_kw_loop : forall r key v, Pk v -> ForallK Pk r ->
    forall tkey acc cms0 ts tc tn,
      tk tkey = KId -> ttext tkey = key -> map tkt ts = t_colon :: ptoks v ++ pkl r -> is_closer (tk tc) ->
      flags_b tn (no_tern v && no_tern_k r) ->
      exists ar cms,
        (forall rest, Ev (fun n => p_args_loop (P n) (NId tkey) acc cms0 (St (ts ++ tc :: rest) tn) = Ok (ar, cms, St (tc :: rest) tn))) /\
        abs_pos ar = abs_pos acc /\
        strip_k (abs_kw ar) = app_k (strip_k (abs_kw acc)) (strip_k (KCons key v r)).
  Proof.
    induction r as [|key2 v2 r2 IH]; intros key v Pv Pr tkey acc cms0 ts tc tn Hk Hx Hts Hc Hf.
    - cbn [pkl] in Hts. rewrite app_nil_r in Hts.
      apply map_tkt_cons in Hts. destruct Hts as (tcol & tsv & -> & Hcol & Hv).
      apply tkt_inv in Hcol. destruct Hcol as [Hcol _].
      apply flags_and in Hf. destruct Hf as [Fv _]. rewrite <- wrap1 in Hv.
      destruct (Pv 1 tsv tn ltac:(lia) Hv Fv) as (ndv & [Iv Ev_] & NEv & Dv & _ & _).
      exists (args_snoc_kw acc (NId tkey) tcol ndv), cms0. split; [|split].
      + intros rest. apply (Ev_step1 _ _ (Dv (tc :: rest) (closer_stop1 tc rest Hc))). intros n H1. cbn [pe] in *.
        rewrite P_S. cbn [step p_args_loop is_empty app].
        rewrite accept_miss by (cbn [hdk]; rewrite Hcol; discriminate). cbn [bind].
        rewrite accept_hit by exact Hcol. cbn [bind is_id]. rewrite H1. cbn [bind].
        rewrite accept_miss by (cbn [hdk]; apply closer_not; auto). reflexivity.
      + apply abs_pos_snoc_kw.
      + rewrite abs_kw_snoc_kw, strip_k_app. cbn [strip_k key_text]. now rewrite Iv, Hx.
    - cbn [pkl] in Hts.
      apply map_tkt_cons in Hts. destruct Hts as (tcol & r0 & -> & Hcol & H0).
      apply map_tkt_app in H0. destruct H0 as (tsv & r1 & -> & Hv & H1).
      apply map_tkt_cons in H1. destruct H1 as (tcm & r3 & -> & Hcm & H3).
      apply map_tkt_cons in H3. destruct H3 as (tkey2 & ts2 & -> & Hkey2 & Hts2).
      apply tkt_inv in Hcol, Hcm, Hkey2. destruct Hcol as [Hcol _]. destruct Hcm as [Hcm _]. destruct Hkey2 as [Hk2 Hx2].
      apply flags_and in Hf. destruct Hf as [Fv Fr]. rewrite <- wrap1 in Hv.
      destruct (Pv 1 tsv tn ltac:(lia) Hv Fv) as (ndv & [Iv Ev_] & NEv & Dv & _ & _).
      destruct Pr as [Pv2 Pr2].
      destruct (IH key2 v2 Pv2 Pr2 tkey2 (args_snoc_kw acc (NId tkey) tcol ndv) (cms0 ++ [tcm]) ts2 tc tn Hk2 Hx2 Hts2 Hc Fr)
        as (ar & cms & Hrun & Hpos & Hkw).
      exists ar, cms. split; [|split].
      + intros rest. assert (S1 : stopk 1 (hdk (tcm :: tkey2 :: ts2 ++ tc :: rest)) = true) by (cbn [hdk]; rewrite Hcm; reflexivity).
        assert (S2 : stopk 1 (hdk (ts2 ++ tc :: rest)) = true).
        { destruct ts2 as [|t2 r2']; [discriminate Hts2|]. cbn [pkl ptoks] in Hts2.
          cbn [map] in Hts2. injection Hts2 as Ht2 _ _. cbn [app hdk]. rewrite Ht2. reflexivity. }
        apply (Ev_step3 _ _ _ _ (Dv _ S1) (D1_id tkey2 tn Hk2 _ S2) (Hrun rest)). intros n H1 H2 H3. cbn [pe] in *.
        rewrite P_S. cbn [step p_args_loop is_empty app].
        rewrite accept_miss by (cbn [hdk]; rewrite Hcol; discriminate). cbn [bind].
        rewrite accept_hit by exact Hcol. cbn [bind is_id].
        repeat (rewrite <- app_assoc; cbn [app]). rewrite H1. cbn [bind].
        rewrite accept_hit by exact Hcm. cbn [bind]. cbn [app] in H2. rewrite H2. cbn [bind]. exact H3.
      + rewrite Hpos. apply abs_pos_snoc_kw.
      + rewrite Hkw, abs_kw_snoc_kw, strip_k_app, app_k_assoc. cbn [strip_k key_text app_k]. now rewrite Iv, Hx.
  Qed.

  Lemma args_pos_loop : forall a k, ForallL Pk a -> ForallK Pk k ->
    forall s acc cms0 ts tc tn,
      is_empty s = false -> map tkt ts = ptl a ++ pkl k -> is_closer (tk tc) ->
      flags_b tn (no_tern_l a && no_tern_k k) ->
      exists ar cms,
        (forall rest, Ev (fun n => p_args_loop (P n) s acc cms0 (St (ts ++ tc :: rest) tn) = Ok (ar, cms, St (tc :: rest) tn))) /\
        strip_l (abs_pos ar) = app_l (strip_l (abs_pos (args_snoc_pos acc s))) (strip_l a) /\
        strip_k (abs_kw ar) = app_k (strip_k (abs_kw acc)) (strip_k k).
  Proof.
    induction a as [|e a IH]; intros k Pa Pk_ s acc cms0 ts tc tn Hs Hts Hc Hf.
    - cbn [ptl app] in Hts. destruct k as [|key v r].
      + apply map_tkt_nil in Hts. subst ts.
        exists (args_snoc_pos acc s), cms0. split; [|split].
        * intros rest. apply Ev_step0. intros n. rewrite P_S. cbn [step p_args_loop app]. rewrite Hs.
          rewrite accept_miss by (cbn [hdk]; apply closer_not; auto). cbn [bind].
          rewrite accept_miss by (cbn [hdk]; apply closer_not; auto). reflexivity.
        * cbn [strip_l]. now rewrite app_l_nil.
        * cbn [strip_k]. now rewrite app_k_nil, abs_kw_snoc_pos.
      + cbn [pkl] in Hts.
        apply map_tkt_cons in Hts. destruct Hts as (tcm & r0 & -> & Hcm & H0).
        apply map_tkt_cons in H0. destruct H0 as (tkey & ts1 & -> & Hkey & Hts1).
        apply tkt_inv in Hcm, Hkey. destruct Hcm as [Hcm _]. destruct Hkey as [Hk Hx].
        apply flags_and in Hf. destruct Hf as [_ Fk]. cbn [no_tern_k] in Fk. destruct Pk_ as [Pv Pr].
        destruct (args_kw_loop r key v Pv Pr tkey (args_snoc_pos acc s) (cms0 ++ [tcm]) ts1 tc tn Hk Hx Hts1 Hc Fk)
          as (ar & cms & Hrun & Hpos & Hkw).
        exists ar, cms. split; [|split].
        * intros rest. assert (S2 : stopk 1 (hdk (ts1 ++ tc :: rest)) = true).
          { destruct ts1 as [|t2 r2']; [discriminate Hts1|].
            cbn [map] in Hts1. injection Hts1 as Ht2 _ _. cbn [app hdk]. rewrite Ht2. reflexivity. }
          apply (Ev_step2 _ _ _ (D1_id tkey tn Hk _ S2) (Hrun rest)). intros n H2 H3. cbn [pe] in *.
          rewrite P_S. cbn [step p_args_loop app]. rewrite Hs.
          rewrite accept_hit by exact Hcm. cbn [bind]. cbn [app] in H2. rewrite H2. cbn [bind]. exact H3.
        * rewrite Hpos. cbn [strip_l]. now rewrite app_l_nil.
        * rewrite Hkw, abs_kw_snoc_pos. reflexivity.
    - cbn [ptl app] in Hts.
      apply map_tkt_cons in Hts. destruct Hts as (tcm & r0 & -> & Hcm & H0).
      rewrite <- app_assoc in H0.
      apply map_tkt_app in H0. destruct H0 as (tse & ts1 & -> & He & Hts1).
      apply tkt_inv in Hcm. destruct Hcm as [Hcm _].
      unfold flags_b in Hf. cbn [no_tern_l] in Hf. rewrite <- andb_assoc in Hf.
      apply flags_and in Hf. destruct Hf as [Fe Fr]. destruct Pa as [Pe Pa]. rewrite <- wrap1 in He.
      destruct (Pe 1 tse tn ltac:(lia) He Fe) as (nde & [Ie Ee] & NEe & De & _ & _).
      destruct (IH k Pa Pk_ nde (args_snoc_pos acc s) (cms0 ++ [tcm]) ts1 tc tn Ee Hts1 Hc Fr)
        as (ar & cms & Hrun & Hpos & Hkw).
      exists ar, cms. split; [|split].
      + intros rest. apply (Ev_step2 _ _ _ (De _ (items_head ts1 a k tc rest Hts1 Hc)) (Hrun rest)). intros n H1 H2. cbn [pe] in *.
        rewrite P_S. cbn [step p_args_loop app]. rewrite Hs.
        rewrite accept_hit by exact Hcm. cbn [bind]. rewrite <- app_assoc. rewrite H1. cbn [bind]. exact H2.
      + rewrite Hpos. rewrite (abs_pos_snoc_pos (args_snoc_pos acc s) nde), strip_l_app, app_l_assoc.
        cbn [strip_l app_l]. now rewrite Ie.
      + rewrite Hkw, abs_kw_snoc_pos. reflexivity.
  Qed.

  Theorem args_ok a k : ForallL Pk a -> ForallK Pk k ->
    forall ts tc tn,
      map tkt ts = tl (ptl a ++ pkl k) -> is_closer (tk tc) -> flags_b tn (no_tern_l a && no_tern_k k) ->
      exists ar cms,
        (forall rest, Ev (fun n => p_args_ (P n) (St (ts ++ tc :: rest) tn) = Ok (ar, cms, St (tc :: rest) tn))) /\
        strip_l (abs_pos ar) = strip_l a /\ strip_k (abs_kw ar) = strip_k k.
  Proof.
    intros Pa Pk_ ts tc tn Hts Hc Hf. destruct a as [|e a].
    - cbn [ptl app] in Hts. destruct k as [|key v r]; cbn [pkl tl] in Hts.
      + apply map_tkt_nil in Hts. subst ts. exists ANil, []. split; [|split; reflexivity].
        intros rest. apply (Ev_step1 _ _ (Ev_e1_empty tc rest tn Hc)). intros n H1.
        rewrite P_S. cbn [step p_args_ app]. rewrite H1. cbn [bind].
        destruct n as [|n]; [discriminate H1|]. rewrite P_S. reflexivity.
      + apply map_tkt_cons in Hts. destruct Hts as (tkey & ts1 & -> & Hkey & Hts1).
        apply tkt_inv in Hkey. destruct Hkey as [Hk Hx].
        apply flags_and in Hf. destruct Hf as [_ Fk]. cbn [no_tern_k] in Fk. destruct Pk_ as [Pv Pr].
        destruct (args_kw_loop r key v Pv Pr tkey ANil [] ts1 tc tn Hk Hx Hts1 Hc Fk) as (ar & cms & Hrun & Hpos & Hkw).
        exists ar, cms. split; [|split].
        * intros rest. assert (S2 : stopk 1 (hdk (ts1 ++ tc :: rest)) = true).
          { destruct ts1 as [|t2 r2']; [discriminate Hts1|].
            cbn [map] in Hts1. injection Hts1 as Ht2 _ _. cbn [app hdk]. rewrite Ht2. reflexivity. }
          apply (Ev_step2 _ _ _ (D1_id tkey tn Hk _ S2) (Hrun rest)). intros n H2 H3. cbn [pe] in *.
          rewrite P_S. cbn [step p_args_ app]. cbn [app] in H2. rewrite H2. cbn [bind]. exact H3.
        * rewrite Hpos. reflexivity.
        * rewrite Hkw. reflexivity.
    - cbn [ptl app tl] in Hts. rewrite <- app_assoc in Hts.
      apply map_tkt_app in Hts. destruct Hts as (tse & ts1 & -> & He & Hts1).
      unfold flags_b in Hf. cbn [no_tern_l] in Hf. rewrite <- andb_assoc in Hf.
      apply flags_and in Hf. destruct Hf as [Fe Fr]. destruct Pa as [Pe Pa]. rewrite <- wrap1 in He.
      destruct (Pe 1 tse tn ltac:(lia) He Fe) as (nde & [Ie Ee] & NEe & De & _ & _).
      destruct (args_pos_loop a k Pa Pk_ nde ANil [] ts1 tc tn Ee Hts1 Hc Fr) as (ar & cms & Hrun & Hpos & Hkw).
      exists ar, cms. split; [|split].
      + intros rest. apply (Ev_step2 _ _ _ (De _ (items_head ts1 a k tc rest Hts1 Hc)) (Hrun rest)). intros n H1 H2. cbn [pe] in *.
        rewrite P_S. cbn [step p_args_]. rewrite <- app_assoc. rewrite H1. cbn [bind]. exact H2.
      + rewrite Hpos. cbn [args_snoc_pos abs_pos strip_l app_l]. now rewrite Ie.
      + rewrite Hkw. reflexivity.
  Qed.

  (* ---------------------------------------------------------------- dictionaries *)
  Lemma dict_loop : forall d key v, Pk v -> ForallD Pk d ->
    forall s acc cms0 ts tc tn,
      inv key s -> map tkt ts = t_colon :: ptoks v ++ pdl d -> is_closer (tk tc) ->
      flags_b tn (no_tern v && no_tern_d d) ->
      exists ar cms,
        (forall rest, Ev (fun n => p_kv_loop (P n) s acc cms0 (St (ts ++ tc :: rest) tn) = Ok (ar, cms, St (tc :: rest) tn))) /\
        strip_d (abs_d ar) = app_d (strip_d (abs_d acc)) (DCons (strip_parens key) (strip_parens v) (strip_d d)).
  Proof.
    induction d as [|key2 v2 d2 IH]; intros key v Pv Pd s acc cms0 ts tc tn [Is Es] Hts Hc Hf.
    - cbn [pdl] in Hts. rewrite app_nil_r in Hts.
      apply map_tkt_cons in Hts. destruct Hts as (tcol & tsv & -> & Hcol & Hv).
      apply tkt_inv in Hcol. destruct Hcol as [Hcol _].
      apply flags_and in Hf. destruct Hf as [Fv _]. rewrite <- wrap1 in Hv.
      destruct (Pv 1 tsv tn ltac:(lia) Hv Fv) as (ndv & [Iv Ev_] & NEv & Dv & _ & _).
      exists (args_snoc_kw acc s tcol ndv), cms0. split.
      + intros rest. apply (Ev_step1 _ _ (Dv (tc :: rest) (closer_stop1 tc rest Hc))). intros n H1. cbn [pe] in *.
        rewrite P_S. cbn [step p_kv_loop app]. rewrite Es.
        rewrite accept_hit by exact Hcol. cbn [bind]. rewrite H1. cbn [bind].
        rewrite accept_miss by (cbn [hdk]; apply closer_not; auto). reflexivity.
      + rewrite abs_d_snoc_kw, strip_d_app. cbn [strip_d]. now rewrite Iv, Is.
    - cbn [pdl] in Hts.
      apply map_tkt_cons in Hts. destruct Hts as (tcol & r0 & -> & Hcol & H0).
      apply map_tkt_app in H0. destruct H0 as (tsv & r1 & -> & Hv & H1).
      apply map_tkt_cons in H1. destruct H1 as (tcm & r3 & -> & Hcm & H3).
      apply map_tkt_app in H3. destruct H3 as (tsk & ts2 & -> & Hkey2 & Hts2).
      apply tkt_inv in Hcol, Hcm. destruct Hcol as [Hcol _]. destruct Hcm as [Hcm _].
      unfold flags_b in Hf. cbn [no_tern_d] in Hf.
      apply flags_and in Hf. destruct Hf as [Fv Fr]. rewrite <- andb_assoc in Fr.
      apply flags_and in Fr. destruct Fr as [Fk2 Fr]. rewrite <- wrap1 in Hv, Hkey2.
      destruct Pd as (Pk2 & Pv2 & Pd2).
      destruct (Pv 1 tsv tn ltac:(lia) Hv Fv) as (ndv & [Iv Ev_] & NEv & Dv & _ & _).
      destruct (Pk2 1 tsk tn ltac:(lia) Hkey2 Fk2) as (ndk & Ik & NEk & Dk & _ & _).
      destruct (IH key2 v2 Pv2 Pd2 ndk (args_snoc_kw acc s tcol ndv) (cms0 ++ [tcm]) ts2 tc tn Ik Hts2 Hc Fr)
        as (ar & cms & Hrun & Hd).
      exists ar, cms. split.
      + intros rest. assert (S1 : stopk 1 (hdk (tcm :: (tsk ++ ts2) ++ tc :: rest)) = true) by (cbn [hdk]; rewrite Hcm; reflexivity).
        assert (S2 : stopk 1 (hdk (ts2 ++ tc :: rest)) = true).
        { destruct ts2 as [|t2 r2']; [discriminate Hts2|].
          cbn [map] in Hts2. injection Hts2 as Ht2 _ _. cbn [app hdk]. rewrite Ht2. reflexivity. }
        apply (Ev_step3 _ _ _ _ (Dv _ S1) (Dk _ S2) (Hrun rest)). intros n H1 H2 H3. cbn [pe] in *.
        rewrite P_S. cbn [step p_kv_loop app]. rewrite Es.
        rewrite accept_hit by exact Hcol. cbn [bind].
        repeat (rewrite <- app_assoc; cbn [app]). repeat (rewrite <- app_assoc in H1; cbn [app] in H1).
        rewrite H1. cbn [bind].
        rewrite accept_hit by exact Hcm. cbn [bind]. rewrite H2. cbn [bind]. exact H3.
      + rewrite Hd, abs_d_snoc_kw, strip_d_app, app_d_assoc. cbn [strip_d app_d]. now rewrite Iv, Is.
  Qed.

  Theorem dict_ok d : ForallD Pk d ->
    forall ts tc tn,
      map tkt ts = tl (pdl d) -> is_closer (tk tc) -> flags_b tn (no_tern_d d) ->
      exists ar cms,
        (forall rest, Ev (fun n => p_key_values (P n) (St (ts ++ tc :: rest) tn) = Ok (ar, cms, St (tc :: rest) tn))) /\
        strip_d (abs_d ar) = strip_d d.
  Proof.
    intros Pd ts tc tn Hts Hc Hf. destruct d as [|key v d].
    - cbn [pdl tl] in Hts. apply map_tkt_nil in Hts. subst ts. exists ANil, []. split; [|reflexivity].
      intros rest. apply (Ev_step1 _ _ (Ev_e1_empty tc rest tn Hc)). intros n H1.
      rewrite P_S. cbn [step p_key_values app]. rewrite H1. cbn [bind].
      destruct n as [|n]; [discriminate H1|]. rewrite P_S. reflexivity.
    - cbn [pdl tl] in Hts.
      apply map_tkt_app in Hts. destruct Hts as (tsk & ts1 & -> & Hkey & Hts1).
      unfold flags_b in Hf. cbn [no_tern_d] in Hf. rewrite <- andb_assoc in Hf.
      apply flags_and in Hf. destruct Hf as [Fk Fr]. destruct Pd as (Pk1 & Pv & Pd). rewrite <- wrap1 in Hkey.
      destruct (Pk1 1 tsk tn ltac:(lia) Hkey Fk) as (ndk & Ik & NEk & Dk & _ & _).
      destruct (dict_loop d key v Pv Pd ndk ANil [] ts1 tc tn Ik Hts1 Hc Fr) as (ar & cms & Hrun & Hd).
      exists ar, cms. split.
      + intros rest. assert (S2 : stopk 1 (hdk (ts1 ++ tc :: rest)) = true).
        { destruct ts1 as [|t2 r2']; [discriminate Hts1|].
          cbn [map] in Hts1. injection Hts1 as Ht2 _ _. cbn [app hdk]. rewrite Ht2. reflexivity. }
        apply (Ev_step2 _ _ _ (Dk _ S2) (Hrun rest)). intros n H1 H2. cbn [pe] in *.
        rewrite P_S. cbn [step p_key_values]. rewrite <- app_assoc. rewrite H1. cbn [bind]. exact H2.
      + rewrite Hd. reflexivity.
  Qed.

  (* ---------------------------------------------------------------- brackets, calls, indexing *)
  Lemma not_loop9 : ~ is_loop_level 9.
  Proof. intros [H|[H|[H|[H|H]]]]; discriminate H. Qed.

  Lemma Own_array a k : ForallL Pk a -> ForallK Pk k -> Own (EArray a k).
  Proof.
    intros Pa Pk_ ts tn Hts Hf. cbn [ptoks] in Hts.
    apply map_tkt_cons in Hts. destruct Hts as (tlb & r0 & -> & Hlb & H0).
    apply map_tkt_app in H0. destruct H0 as (tsa & r1 & -> & Ha & H1).
    apply single_tok in H1. destruct H1 as (trb & -> & Hrb).
    apply tkt_inv in Hlb, Hrb. destruct Hlb as [Hlb _]. destruct Hrb as [Hrb _].
    destruct (args_ok a k Pa Pk_ tsa trb tn Ha (or_intror (or_introl Hrb)) Hf) as (ar & cms & Hrun & Hpos & Hkw).
    exists (NArray tlb ar cms trb). split; [split; [cbn [abs strip_parens]; now rewrite Hpos, Hkw | reflexivity]|].
    split; [discriminate|]. split; [cbn [hdk prec]; rewrite Hlb; reflexivity|].
    split; [|intros LL; exfalso; exact (not_loop9 LL)].
    cbn [prec]. intros rest _. apply (Ev_step1 _ _ (Hrun rest)). intros n H1. cbn [pe].
    rewrite P_S. cbn [step p_e9 app]. rewrite <- app_assoc. cbn [app].
    rewrite accept_miss by (cbn [hdk]; rewrite Hlb; discriminate). cbn [bind].
    rewrite accept_hit by exact Hlb. cbn [bind]. rewrite H1. cbn [bind].
    rewrite expect_hit by exact Hrb. reflexivity.
  Qed.

  Lemma Own_dict d : ForallD Pk d -> Own (EDict d).
  Proof.
    intros Pd ts tn Hts Hf. cbn [ptoks] in Hts.
    apply map_tkt_cons in Hts. destruct Hts as (tlb & r0 & -> & Hlb & H0).
    apply map_tkt_app in H0. destruct H0 as (tsa & r1 & -> & Ha & H1).
    apply single_tok in H1. destruct H1 as (trb & -> & Hrb).
    apply tkt_inv in Hlb, Hrb. destruct Hlb as [Hlb _]. destruct Hrb as [Hrb _].
    destruct (dict_ok d Pd tsa trb tn Ha (or_intror (or_intror Hrb)) Hf) as (ar & cms & Hrun & Hd).
    exists (NDict tlb ar cms trb). split; [split; [cbn [abs strip_parens]; now rewrite Hd | reflexivity]|].
    split; [discriminate|]. split; [cbn [hdk prec]; rewrite Hlb; reflexivity|].
    split; [|intros LL; exfalso; exact (not_loop9 LL)].
    cbn [prec]. intros rest _. apply (Ev_step1 _ _ (Hrun rest)). intros n H1. cbn [pe].
    rewrite P_S. cbn [step p_e9 app]. rewrite <- app_assoc. cbn [app].
    rewrite accept_miss by (cbn [hdk]; rewrite Hlb; discriminate). cbn [bind].
    rewrite accept_miss by (cbn [hdk]; rewrite Hlb; discriminate). cbn [bind].
    rewrite accept_hit by exact Hlb. cbn [bind]. rewrite H1. cbn [bind].
    rewrite expect_hit by exact Hrb. reflexivity.
  Qed.

  Lemma D9_id t tn : tk t = KId -> Dj 9 [t] tn (NId t).
  Proof.
    intros H. apply (climb 10 9); [lia | discriminate | cbn [hdk]; rewrite H; reflexivity|].
    apply D10_atom. intros n rest. apply e10_id. exact H.
  Qed.

  Lemma Own_func name a k : ForallL Pk a -> ForallK Pk k -> Own (EFunc name a k).
  Proof.
    intros Pa Pk_ ts tn Hts Hf. cbn [ptoks] in Hts.
    apply map_tkt_cons in Hts. destruct Hts as (tname & r0 & -> & Hname & H0).
    apply map_tkt_cons in H0. destruct H0 as (tlp & r1 & -> & Hlp & H1).
    apply map_tkt_app in H1. destruct H1 as (tsa & r2 & -> & Ha & H2).
    apply single_tok in H2. destruct H2 as (trp & -> & Hrp).
    apply tkt_inv in Hname, Hlp, Hrp. destruct Hname as [Hk Hx]. destruct Hlp as [Hlp _]. destruct Hrp as [Hrp _].
    destruct (args_ok a k Pa Pk_ tsa trp tn Ha (or_introl Hrp) Hf) as (ar & cms & Hrun & Hpos & Hkw).
    exists (NFunc tname tlp ar cms trp).
    split; [split; [cbn [abs strip_parens]; now rewrite Hpos, Hkw, Hx | reflexivity]|].
    split; [discriminate|]. split; [cbn [hdk prec]; rewrite Hk; reflexivity|]. cbn [prec].
    assert (G : Gk 8 (tname :: tlp :: tsa ++ [trp]) tn (NFunc tname tlp ar cms trp)).
    { intros rest X _ NL L.
      apply (Ev_step3 _ _ _ _ (D9_id tname tn Hk (tlp :: tsa ++ trp :: rest) eq_refl) (Hrun rest) L).
      intros n H1 H2 H3. cbn [pe loopk] in *.
      rewrite P_S. cbn [step p_e8 app]. rewrite <- app_assoc. cbn [app]. cbn [app] in H1. rewrite H1. cbn [bind].
      rewrite accept_hit by exact Hlp. cbn [bind]. rewrite H2. cbn [bind].
      rewrite expect_hit by exact Hrp. cbn [bind is_id]. exact H3. }
    split; [|intros _; exact G]. apply D8_of_G8. exact G.
  Qed.

  Lemma Own_index obj idx : Pk obj -> Pk idx -> Own (EIndex obj idx).
  Proof.
    intros Po Pi ts tn Hts Hf. cbn [ptoks] in Hts.
    split3 Hts tso tlb r1 Ho Hlb H1.
    apply map_tkt_app in H1. destruct H1 as (tsi & r2 & -> & Hi & H2).
    apply single_tok in H2. destruct H2 as (trb & -> & Hrb). apply tkt_inv in Hrb. destruct Hrb as [Hrb _].
    unfold flags in Hf. cbn [no_tern] in Hf. apply flags_and in Hf. destruct Hf as [Fo Fi].
    rewrite <- wrap1 in Hi.
    destruct (Po 8 tso tn ltac:(lia) Ho Fo) as (ndo & [Io Eo] & NEo & Do & Go & SOo).
    destruct (Pi 1 tsi tn ltac:(lia) Hi Fi) as (ndi & [Ii Ei] & NEi & Di & _ & _).
    exists (NIndex ndo tlb ndi trb).
    split; [split; [cbn [abs strip_parens]; now rewrite Io, Ii | reflexivity]|].
    split; [apply app_cons_ne|]. split; [cbn [prec]; rewrite hdk_app by exact NEo; exact SOo|]. cbn [prec].
    assert (G : Gk 8 (tso ++ tlb :: tsi ++ [trb]) tn (NIndex ndo tlb ndi trb)).
    { intros rest X _ NL L. rewrite <- app_assoc. cbn [app]. rewrite <- app_assoc. cbn [app].
      apply (Go ll8 (tlb :: tsi ++ trb :: rest) X).
      - reflexivity.
      - intros _. cbn [hdk]. rewrite Hlb. discriminate.
      - assert (S1 : stopk 1 (hdk (trb :: rest)) = true) by (cbn [hdk]; rewrite Hrb; reflexivity).
        apply (Ev_step2 _ _ _ (Di _ S1) L). intros n H1 H2. cbn [pe loopk] in *.
        rewrite P_S. cbn [step p_postfix_loop].
        rewrite accept_miss by (cbn [hdk]; rewrite Hlb; discriminate). cbn [bind].
        rewrite accept_hit by exact Hlb. cbn [bind]. rewrite H1. cbn [bind].
        rewrite expect_hit by exact Hrb. cbn [bind]. exact H2. }
    split; [|intros _; exact G]. apply D8_of_G8. exact G.
  Qed.

  Lemma Own_method obj name a k : Pk obj -> ForallL Pk a -> ForallK Pk k -> Own (EMethod obj name a k).
  Proof.
    intros Po Pa Pk_ ts tn Hts Hf. cbn [ptoks] in Hts.
    split3 Hts tso tdot r1 Ho Hdot H1.
    apply map_tkt_cons in H1. destruct H1 as (tname & r2 & -> & Hname & H2).
    apply map_tkt_cons in H2. destruct H2 as (tlp & r3 & -> & Hlp & H3).
    apply map_tkt_app in H3. destruct H3 as (tsa & r4 & -> & Ha & H4).
    apply single_tok in H4. destruct H4 as (trp & -> & Hrp).
    apply tkt_inv in Hname, Hlp, Hrp. destruct Hname as [Hk Hx]. destruct Hlp as [Hlp _]. destruct Hrp as [Hrp _].
    unfold flags in Hf. cbn [no_tern] in Hf. rewrite <- andb_assoc in Hf.
    apply flags_and in Hf. destruct Hf as [Fo Fa].
    destruct (Po 8 tso tn ltac:(lia) Ho Fo) as (ndo & [Io Eo] & NEo & Do & Go & SOo).
    destruct (args_ok a k Pa Pk_ tsa trp tn Ha (or_introl Hrp) Fa) as (ar & cms & Hrun & Hpos & Hkw).
    set (m := NMethod ndo tdot tname tlp ar cms trp).
    exists m.
    split; [split; [cbn [m abs strip_parens]; now rewrite Io, Hpos, Hkw, Hx | reflexivity]|].
    split; [apply app_cons_ne|]. split; [cbn [prec]; rewrite hdk_app by exact NEo; exact SOo|]. cbn [prec].
    assert (G : Gk 8 (tso ++ tdot :: tname :: tlp :: tsa ++ [trp]) tn m).
    { intros rest X _ NL L. rewrite <- app_assoc. cbn [app]. rewrite <- app_assoc. cbn [app].
      apply (Go ll8 (tdot :: tname :: tlp :: tsa ++ trp :: rest) X).
      - reflexivity.
      - intros _. cbn [hdk]. rewrite Hdot. discriminate.
      - cbn [loopk] in *.
        destruct (kind_eq_dec (hdk rest) KDot) as [Hd|Hd].
        + (* another method call follows: p_method_call itself goes on *)
          destruct rest as [|d2 rest2]; [discriminate Hd|]. cbn [hdk] in Hd.
          destruct L as [n0 L0]. destruct (Hrun (d2 :: rest2)) as [na Ha_].
          pose proof (L0 (S n0) ltac:(lia)) as L1. rewrite P_S in L1. cbn [step p_postfix_loop] in L1.
          rewrite accept_hit in L1 by exact Hd. cbn [bind] in L1.
          destruct (p_method_call (P n0) m d2 (St rest2 tn)) as [[m2 st2]| |] eqn:MC; cbn [bind] in L1; try discriminate L1.
          exists (S (S (S (n0 + na)))). intros N HN.
          do 3 (destruct N as [|N]; [lia|]).
          rewrite P_S. cbn [step p_postfix_loop]. rewrite accept_hit by exact Hdot. cbn [bind].
          rewrite P_S. cbn [step p_method_call]. rewrite e10_id by exact Hk. cbn [bind is_id].
          rewrite expect_hit by exact Hlp. cbn [bind]. rewrite Ha_ by lia. cbn [bind].
          rewrite expect_hit by exact Hrp. cbn [bind]. rewrite accept_hit by exact Hd. cbn [bind].
          fold m. rewrite (le_meth _ _ (P_mono n0 (S N) ltac:(lia)) _ _ _ _ MC). cbn [bind].
          rewrite <- P_S. apply (le_post _ _ (P_mono n0 (S (S N)) ltac:(lia)) _ _ _ L1).
        + apply Ev_unshift, Ev_unshift, Ev_unshift.
          pose proof (Ev_and _ _ (Ev_shift _ (Hrun rest)) (Ev_shift _ (Ev_shift _ L))) as HL.
          revert HL. apply Ev_impl. intros n [H2 H3].
          rewrite P_S. cbn [step p_postfix_loop]. rewrite accept_hit by exact Hdot. cbn [bind].
          rewrite P_S. cbn [step p_method_call]. rewrite e10_id by exact Hk. cbn [bind is_id].
          rewrite expect_hit by exact Hlp. cbn [bind]. rewrite H2. cbn [bind].
          rewrite expect_hit by exact Hrp. cbn [bind]. rewrite accept_miss by exact Hd. cbn [bind].
          fold m. rewrite <- P_S. exact H3. }
    split; [|intros _; exact G]. apply D8_of_G8. exact G.
  Qed.

  (* ---------------------------------------------------------------- every printable expression *)
  Scheme expr_mut := Induction for expr Sort Prop
  with elist_mut := Induction for elist Sort Prop
  with kwlist_mut := Induction for kwlist Sort Prop
  with dlist_mut := Induction for dlist Sort Prop.
  Combined Scheme expr_mutind from expr_mut, elist_mut, kwlist_mut, dlist_mut.

  Ltac and3 H := repeat (apply andb_true_iff in H; let H2 := fresh H in destruct H as [H H2]).

  Theorem all_Pk :
    (forall e, printable e = true -> Pk e) /\
    (forall a, printable_l a = true -> ForallL Pk a) /\
    (forall k, printable_k k = true -> ForallK Pk k) /\
    (forall d, printable_d d = true -> ForallD Pk d).
  Proof.
    apply expr_mutind.
    - intros b _. apply Pk_of_Own, Own_bool.
    - intros s _. apply Pk_of_Own, Own_id.
    - intros n H. apply Pk_of_Own, Own_num, H.
    - intros f m v _. apply Pk_of_Own, Own_str.
    - intros e IH H. exact (IH H).
    - intros a IHa k IHk H. cbn [printable] in H. apply andb_true_iff in H. destruct H as [H1 H2].
      apply Pk_of_Own, Own_array; auto.
    - intros d IHd H. apply Pk_of_Own, Own_dict; auto.
    - intros name a IHa k IHk H. cbn [printable] in H. apply andb_true_iff in H. destruct H as [H1 H2].
      apply Pk_of_Own, Own_func; auto.
    - intros obj IHo name a IHa k IHk H. cbn [printable] in H.
      apply andb_true_iff in H. destruct H as [H H3]. apply andb_true_iff in H. destruct H as [H1 H2].
      apply Pk_of_Own, Own_method; auto.
    - intros obj IHo idx IHi H. cbn [printable] in H. apply andb_true_iff in H. destruct H as [H1 H2].
      apply Pk_of_Own, Own_index; auto.
    - intros e IH H. apply Pk_of_Own, Own_not; auto.
    - intros e IH H. apply Pk_of_Own, Own_neg; auto.
    - intros op l IHl r IHr H. cbn [printable] in H. apply andb_true_iff in H. destruct H as [H1 H2].
      apply Pk_of_Own. destruct op; [apply Own_add | apply Own_add | apply Own_mul | apply Own_mul | apply Own_mul]; auto.
    - intros op l IHl r IHr H. cbn [printable] in H. apply andb_true_iff in H. destruct H as [H1 H2].
      apply Pk_of_Own, Own_cmp; auto.
    - intros l IHl r IHr H. cbn [printable] in H. apply andb_true_iff in H. destruct H as [H1 H2].
      apply Pk_of_Own, Own_and; auto.
    - intros l IHl r IHr H. cbn [printable] in H. apply andb_true_iff in H. destruct H as [H1 H2].
      apply Pk_of_Own, Own_or; auto.
    - intros c IHc t IHt f IHf H. cbn [printable] in H.
      apply andb_true_iff in H. destruct H as [H H5]. apply andb_true_iff in H. destruct H as [H H4].
      apply andb_true_iff in H. destruct H as [H H3]. apply andb_true_iff in H. destruct H as [H1 H2].
      apply Pk_of_Own, Own_tern; auto.
    - intros H. discriminate H.
    - intros _. exact I.
    - intros e IHe r IHr H. cbn [printable_l] in H. apply andb_true_iff in H. destruct H as [H1 H2]. split; auto.
    - intros _. exact I.
    - intros key v IHv r IHr H. cbn [printable_k] in H. apply andb_true_iff in H. destruct H as [H1 H2]. split; auto.
    - intros _. exact I.
    - intros key IHk v IHv r IHr H. cbn [printable_d] in H.
      apply andb_true_iff in H. destruct H as [H H3]. apply andb_true_iff in H. destruct H as [H1 H2].
      split; [|split]; auto.
  Qed.

  (* An expression printed in an operand position of level 1 (argument, index, parenthesis,
     right-hand side) is read back as the same tree up to redundant parentheses, whatever
     follows it (anything that cannot continue an expression). *)
  Theorem print_parse_operand e ts rest tn :
    printable e = true -> (tn = true -> no_tern e = true) ->
    map tkt ts = ptoks e -> stopk 1 (hdk rest) = true ->
    exists nd, strip_parens (abs nd) = strip_parens e /\
      Ev (fun n => p_e1 (P n) (St (ts ++ rest) tn) = Ok (nd, St rest tn)).
  Proof.
    intros Hp Hf Hts S. destruct all_Pk as [A _]. rewrite <- wrap1 in Hts.
    destruct (A e Hp 1 ts tn ltac:(lia) Hts Hf) as (nd & [I _] & _ & D & _).
    exists nd. split; [exact I | exact (D rest S)].
  Qed.

  (* the first token of a printed expression *)
  Definition expr_start (k : kind) : bool :=
    match k with
    | KTrue | KFalse | KId | KNum | KStr | KFStr | KMStr | KMFStr | KLParen | KLBracket | KLCurl | KNot | KDash => true
    | _ => false
    end.
  Definition starts_ok (l : list kt) : Prop :=
    match l with [] => False | (k, _) :: _ => expr_start k = true end.
  Lemma starts_wrap b l : starts_ok l -> starts_ok (wrap b l).
  Proof. destruct b; [reflexivity | auto]. Qed.
  Lemma starts_app l r : starts_ok l -> starts_ok (l ++ r).
  Proof. destruct l as [|[k x] l]; [contradiction | auto]. Qed.

  Lemma ptoks_start :
    (forall e, printable e = true -> starts_ok (ptoks e)) /\
    (forall a : elist, True) /\ (forall k : kwlist, True) /\ (forall d : dlist, True).
  Proof.
    apply expr_mutind; try (intros; exact I); cbn [ptoks printable].
    - intros b _. destruct b; reflexivity.
    - reflexivity.
    - reflexivity.
    - intros f m v _. destruct f, m; reflexivity.
    - auto.
    - reflexivity.
    - reflexivity.
    - reflexivity.
    - intros obj IH name a _ k _ H. apply andb_true_iff in H. destruct H as [H _]. apply andb_true_iff in H. destruct H as [H _].
      apply starts_app, starts_wrap, IH, H.
    - intros obj IH idx _ H. apply andb_true_iff in H. destruct H as [H _]. apply starts_app, starts_wrap, IH, H.
    - reflexivity.
    - reflexivity.
    - intros op l IH r _ H. apply andb_true_iff in H. destruct H as [H _]. apply starts_app, starts_wrap, IH, H.
    - intros op l IH r _ H. apply andb_true_iff in H. destruct H as [H _]. apply starts_app, starts_wrap, IH, H.
    - intros l IH r _ H. apply andb_true_iff in H. destruct H as [H _]. apply starts_app, starts_wrap, IH, H.
    - intros l IH r _ H. apply andb_true_iff in H. destruct H as [H _]. apply starts_app, starts_wrap, IH, H.
    - intros c IH t _ f _ H. repeat (apply andb_true_iff in H; destruct H as [H _]).
      apply starts_app, starts_wrap, IH, H.
    - intros H. discriminate H.
  Qed.

  (* A build file that consists of the printed expression parses to exactly that statement. *)
  Theorem print_parse_statement e ts :
    printable e = true -> map tkt ts = ptoks e ->
    exists nd, strip_parens (abs nd) = strip_parens e /\
      Ev (fun n => parse_tokens n (St ts false) = Ok (BLine nd None BNil)).
  Proof.
    intros Hp Hts.
    destruct (print_parse_operand e ts [] false Hp ltac:(discriminate) Hts eq_refl) as (nd & I & R).
    exists nd. split; [exact I|]. rewrite app_nil_r in R.
    destruct ptoks_start as [PS _]. specialize (PS e Hp). rewrite <- Hts in PS.
    destruct ts as [|t r]; [contradiction|]. cbn [map starts_ok] in PS. unfold tkt in PS.
    apply Ev_unshift, Ev_unshift, Ev_unshift. revert R. apply Ev_impl. intros n H1.
    unfold parse_tokens. rewrite P_S. cbn [step p_codeblock]. rewrite P_S. cbn [step p_block_loop].
    rewrite P_S. cbn [step p_line]. rewrite cur_cons.
    assert (K1 : kind_beq (tk t) KEol = false) by (destruct (tk t); try discriminate PS; reflexivity).
    rewrite K1.
    rewrite accept_miss by (cbn [hdk]; destruct (tk t); try discriminate PS; discriminate). cbn [bind].
    rewrite accept_miss by (cbn [hdk]; destruct (tk t); try discriminate PS; discriminate). cbn [bind].
    rewrite accept_miss by (cbn [hdk]; destruct (tk t); try discriminate PS; discriminate). cbn [bind].
    rewrite accept_miss by (cbn [hdk]; destruct (tk t); try discriminate PS; discriminate).
    rewrite H1. cbn [bind].
    rewrite accept_miss by (cbn [hdk]; discriminate). cbn [bind block_snoc].
    unfold expect, accept. cbn. reflexivity.
  Qed.
End RT.
