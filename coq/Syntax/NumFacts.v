(* Syntax/NumFacts.v — the decimal text AstPrinter writes for an integer (str(value), model
   Base.Strs.N_dec) is read back by NumberNode (int(text, base=0), model AstPrint.num_value)
   as the same integer. *)
From MV Require Import Base.Strs Syntax.Lexer Syntax.Parser Syntax.AstPrint.
From Coq Require Import Lia.
Open Scope N_scope.

Lemma size_nat_size p : N.of_nat (Pos.size_nat p) = Npos (Pos.size p).
Proof.
  induction p as [p IH|p IH|]; cbn [Pos.size_nat Pos.size]; try reflexivity;
    rewrite Nat2N.inj_succ, IH; reflexivity.
Qed.
Lemma N_size_nat_size n : N.of_nat (N.size_nat n) = N.size n.
Proof. destruct n as [|p]; [reflexivity | apply size_nat_size]. Qed.

Definition dstep (a : N) (c : char) : N := a * 10 + digit_val c.

Lemma dec_fuel_val : forall f n acc,
  n < 2 ^ N.of_nat f ->
  fold_left dstep (N_dec_fuel f n acc) 0 = fold_left dstep acc n.
Proof.
  induction f as [|f IH]; intros n acc H.
  - cbn in H. assert (n = 0) by lia. subst. reflexivity.
  - cbn [N_dec_fuel]. destruct (n / 10 =? 0) eqn:E.
    + apply N.eqb_eq in E. cbn [fold_left].
      assert (n < 10) by (apply N.div_small_iff in E; lia).
      replace (dstep 0 (48 + n mod 10)) with n; [reflexivity|].
      unfold dstep, digit_val. rewrite N.mod_small by lia.
      rewrite (N.add_comm 48 n), N.add_sub. reflexivity.
    + apply N.eqb_neq in E. rewrite IH.
      * cbn [fold_left]. replace (dstep (n / 10) (48 + n mod 10)) with n; [reflexivity|].
        unfold dstep, digit_val. rewrite (N.add_comm 48), N.add_sub.
        rewrite (N.div_mod n 10) at 1 by lia. lia.
      * rewrite Nat2N.inj_succ, N.pow_succ_r' in H.
        apply N.div_lt_upper_bound; [lia|].
        assert (2 ^ N.of_nat f > 0) by (apply N.lt_gt, N.neq_0_lt_0, N.pow_nonzero; lia). lia.
Qed.

Lemma digits_val_dec n : digits_val (N_dec n) = n.
Proof.
  unfold digits_val, N_dec. change (fun a c => a * 10 + digit_val c) with dstep.
  rewrite dec_fuel_val; [reflexivity|].
  rewrite Nat2N.inj_succ, N_size_nat_size, N.pow_succ_r'.
  pose proof (N.size_gt n). lia.
Qed.

Lemma dec_fuel_digits : forall f n acc, forallb is_digit acc = true -> forallb is_digit (N_dec_fuel f n acc) = true.
Proof.
  induction f as [|f IH]; intros n acc H; [exact H|]. cbn [N_dec_fuel].
  assert (D : is_digit (48 + n mod 10) = true).
  { unfold is_digit. pose proof (N.mod_upper_bound n 10 ltac:(lia)) as Hm.
    set (m := n mod 10) in *. clearbody m.
    apply andb_true_iff. split; apply N.leb_le; lia. }
  destruct (n / 10 =? 0); [cbn [forallb]; rewrite D; exact H | apply IH; cbn [forallb]; rewrite D; exact H].
Qed.
Lemma N_dec_digits n : forallb is_digit (N_dec n) = true.
Proof. apply dec_fuel_digits. reflexivity. Qed.

(* NumberNode(str(v)).value = v *)
Theorem num_value_dec n : num_value (N_dec n) = n.
Proof.
  pose proof (N_dec_digits n) as D. pose proof (digits_val_dec n) as V.
  unfold num_value. remember (N_dec n) as t eqn:Et. clear Et. destruct t as [|c t']; [exact V|].
  destruct (c =? 48) eqn:Ec.
  - apply N.eqb_eq in Ec. subst c. destruct t' as [|x r]; [exact V|].
    rewrite forallb_forall in D. pose proof (D x (or_intror (or_introl eq_refl))) as Dx.
    unfold is_digit in Dx. apply andb_true_iff in Dx. destruct Dx as [D1 D2].
    apply N.leb_le in D1, D2.
    replace (x =? 98) with false by (symmetry; apply N.eqb_neq; lia).
    replace (x =? 66) with false by (symmetry; apply N.eqb_neq; lia).
    replace (x =? 111) with false by (symmetry; apply N.eqb_neq; lia).
    replace (x =? 79) with false by (symmetry; apply N.eqb_neq; lia).
    replace (x =? 120) with false by (symmetry; apply N.eqb_neq; lia).
    replace (x =? 88) with false by (symmetry; apply N.eqb_neq; lia).
    exact V.
  - apply N.eqb_neq in Ec.
    destruct c as [|p]; [exact V|].
    do 6 (destruct p as [p|p|]; try exact V). contradiction.
Qed.
