From Coq Require Extraction.
From Coq Require Import ExtrOcamlBasic.
From MV Require Import Syntax.Entry.
Extraction "../extract/C02/model.ml" Syntax.Entry.run.
