(* Syntax/LexerFacts.v — the lexer is lossless and position-accurate. *)
From MV Require Import Base.Strs Base.LexFacts Syntax.Lexer.
From Coq Require Import Lia.
Open Scope N_scope.

(* ------------------------------------------------------------------ *)
(* every matcher consumes between 1 and length s characters             *)

Lemma span_le p s : (span p s <= length s)%nat.
Proof. induction s as [|c r IH]; simpl; [lia|]. destruct (p c); lia. Qed.

Lemma length_drop n (s : str) : length (drop n s) = (length s - n)%nat.
Proof. revert s; induction n as [|n IH]; intros [|c r]; simpl; try lia. apply IH. Qed.

Lemma prefixb_length p s : prefixb p s = true -> (length p <= length s)%nat.
Proof.
  revert s; induction p as [|x p IH]; intros [|y s] H; simpl in *; try lia; try discriminate.
  apply andb_true_iff in H. destruct H as [_ H]. apply IH in H. lia.
Qed.

Lemma find_triple_bound s k : find_triple s = Some k -> (k + 3 <= length s)%nat.
Proof.
  revert k; induction s as [|c r IH]; intros k H; cbn [find_triple] in H; [discriminate|].
  destruct ((c =? c_sq) && prefixb [c_sq; c_sq] r) eqn:E.
  - inversion H; subst. apply andb_true_iff in E. destruct E as [_ E].
    apply prefixb_length in E. cbn [length] in *. lia.
  - destruct (find_triple r) as [k'|] eqn:F; [|discriminate]. inversion H; subst.
    specialize (IH k' eq_refl). cbn [length]. lia.
Qed.

Lemma scan_str_bound : forall n s k, (length s <= n)%nat -> scan_str s = Some k -> (1 <= k <= length s)%nat.
Proof.
  induction n as [|n IH]; intros s k Hl H.
  - destruct s; simpl in *; [discriminate | lia].
  - destruct s as [|c r]; cbn [scan_str] in H; [discriminate|].
    destruct (c =? c_sq); [inversion H; subst; simpl; lia|].
    destruct (c =? c_bs).
    + destruct r as [|d r']; [discriminate|].
      destruct (d =? c_nl); [discriminate|].
      destruct (scan_str r') as [k'|] eqn:F; [|discriminate]. inversion H; subst.
      assert (1 <= k' <= length r')%nat by (apply IH; simpl in *; [lia | assumption]).
      simpl. lia.
    + destruct (scan_str r) as [k'|] eqn:F; [|discriminate]. inversion H; subst.
      assert (1 <= k' <= length r)%nat by (apply IH; simpl in *; [lia | assumption]).
      simpl. lia.
Qed.

Lemma nz_some n k : nz n = Some k -> k = n /\ (1 <= n)%nat.
Proof. destruct n; simpl; intro H; inversion H; subst; split; lia. Qed.

Ltac inv H := inversion H; subst; clear H.

Lemma m_ws_bound s n : m_ws s = Some n -> (1 <= n <= length s)%nat.
Proof. unfold m_ws. intro H. apply nz_some in H. destruct H as [-> H]. pose proof (span_le is_blank s). lia. Qed.
Lemma m_mfstr_bound s n : m_mfstr s = Some n -> (1 <= n <= length s)%nat.
Proof.
  unfold m_mfstr. destruct (prefixb _ s) eqn:P; [|discriminate].
  destruct (find_triple (drop 4 s)) as [k|] eqn:F; [|discriminate]. intro H; inv H.
  apply find_triple_bound in F. rewrite length_drop in F. apply prefixb_length in P. simpl in P. lia.
Qed.
Lemma m_mstr_bound s n : m_mstr s = Some n -> (1 <= n <= length s)%nat.
Proof.
  unfold m_mstr. destruct (prefixb _ s) eqn:P; [|discriminate].
  destruct (find_triple (drop 3 s)) as [k|] eqn:F; [|discriminate]. intro H; inv H.
  apply find_triple_bound in F. rewrite length_drop in F. apply prefixb_length in P. simpl in P. lia.
Qed.
Lemma m_fstr_bound s n : m_fstr s = Some n -> (1 <= n <= length s)%nat.
Proof.
  unfold m_fstr. destruct s as [|a [|b r]]; try discriminate.
  destruct ((a =? c_f) && (b =? c_sq)); [|discriminate].
  destruct (scan_str r) as [k|] eqn:F; [|discriminate]. intro H; inv H.
  apply (scan_str_bound (length r)) in F; [|lia]. simpl. lia.
Qed.
Lemma m_str_bound s n : m_str s = Some n -> (1 <= n <= length s)%nat.
Proof.
  unfold m_str. destruct s as [|a r]; try discriminate.
  destruct (a =? c_sq); [|discriminate].
  destruct (scan_str r) as [k|] eqn:F; [|discriminate]. intro H; inv H.
  apply (scan_str_bound (length r)) in F; [|lia]. simpl. lia.
Qed.
Lemma m_id_bound s n : m_id s = Some n -> (1 <= n <= length s)%nat.
Proof.
  unfold m_id. destruct s as [|c r]; [discriminate|]. destruct (is_id_start c); [|discriminate].
  intro H; inv H. pose proof (span_le is_id_char r). simpl. lia.
Qed.
Lemma m_num_bound s n : m_num s = Some n -> (1 <= n <= length s)%nat.
Proof.
  unfold m_num. destruct s as [|c r]; [discriminate|].
  destruct (c =? 48).
  - destruct r as [|x r']; [intro H; inv H; simpl; lia|].
    pose proof (span_le is_bin r'). pose proof (span_le is_oct r'). pose proof (span_le is_hex r').
    repeat match goal with |- (if ?b then _ else _) = _ -> _ => destruct b end;
      intro H'; inv H'; simpl; lia.
  - destruct ((49 <=? c) && (c <=? 57)); [|discriminate].
    intro H; inv H. pose proof (span_le is_digit r). simpl. lia.
Qed.
Lemma m_eol_cont_bound s n : m_eol_cont s = Some n -> (1 <= n <= length s)%nat.
Proof.
  unfold m_eol_cont. destruct s as [|c r]; [discriminate|]. destruct (c =? c_bs); [|discriminate].
  pose proof (span_le is_blank r) as Hb.
  destruct (drop (span is_blank r) r) as [|d r2] eqn:D; [discriminate|].
  assert (L : length (drop (span is_blank r) r) = S (length r2)) by (rewrite D; reflexivity).
  rewrite length_drop in L.
  destruct (d =? c_nl); [intro H; inv H; simpl; lia|].
  destruct (d =? c_hash); [|discriminate].
  pose proof (span_le not_nl r2) as Hk.
  destruct (drop (span not_nl r2) r2) as [|e r3] eqn:D2; [discriminate|].
  assert (L2 : length (drop (span not_nl r2) r2) = S (length r3)) by (rewrite D2; reflexivity).
  rewrite length_drop in L2.
  destruct (e =? c_nl); [|discriminate]. intro H; inv H. simpl. lia.
Qed.
Lemma m_comment_bound s n : m_comment s = Some n -> (1 <= n <= length s)%nat.
Proof.
  unfold m_comment. destruct s as [|c r]; [discriminate|]. destruct (c =? c_hash); [|discriminate].
  intro H; inv H. pose proof (span_le not_nl r). simpl. lia.
Qed.
Lemma m_two_bound a b s n : m_two a b s = Some n -> (1 <= n <= length s)%nat.
Proof.
  unfold m_two. destruct (prefixb [a; b] s) eqn:P; [|discriminate]. intro H; inv H.
  apply prefixb_length in P. simpl in P. lia.
Qed.

Lemma first_match_bound s rk n : first_match s = Some (rk, n) -> (1 <= n <= length s)%nat.
Proof.
  unfold first_match.
  repeat match goal with
  | |- match ?m with Some _ => _ | None => _ end = _ -> _ =>
      let E := fresh "E" in destruct m eqn:E;
      [ intro H; inv H;
        first [ apply m_ws_bound; assumption | apply m_mfstr_bound; assumption | apply m_fstr_bound; assumption
              | apply m_id_bound; assumption | apply m_num_bound; assumption | apply m_eol_cont_bound; assumption
              | apply m_mstr_bound; assumption | apply m_comment_bound; assumption | apply m_str_bound; assumption
              | eapply m_two_bound; eassumption ] | ]
  end.
  discriminate.
Qed.

(* ------------------------------------------------------------------ *)
(* one step: the token text is the consumed prefix                      *)

Lemma tok_step_spec k txt n0 st t st' n :
  tok_step k txt n0 st = SOk t st' n ->
  n = n0 /\ ttext t = txt /\ tstart t = l_off st /\
  tline t = l_line st /\ tcol t = l_off st - l_ls st /\ l_off st' = l_off st + N.of_nat n.
Proof.
  unfold tok_step. destruct (is_multi k && negb (count_nl txt =? 0)); intro H; inv H; cbn; unfold nlen; auto 10.
Qed.

Lemma lex_step_spec s st t st' n :
  lex_step s st = SOk t st' n ->
  (1 <= n <= length s)%nat /\ ttext t = firstn n s /\ tstart t = l_off st /\
  tline t = l_line st /\ tcol t = l_off st - l_ls st /\ l_off st' = l_off st + N.of_nat n.
Proof.
  unfold lex_step.
  destruct (first_match s) as [[rk n0]|] eqn:F.
  - apply first_match_bound in F.
    destruct rk as [k|].
    + intro H.
      assert (E : exists k', tok_step k' (firstn n0 s) n0 st = SOk t st' n) by (destruct k; eauto).
      destruct E as [k' E]. apply tok_step_spec in E. destruct E as (-> & E). tauto.
    + intro H; inv H; cbn; unfold nlen; repeat split; lia.
  - destruct s as [|c r]; [discriminate|].
    destruct (c =? 34); [discriminate|].
    destruct (single_char c) as [k|]; [|discriminate].
    destruct k; intro H; inv H; cbn; repeat split; lia.
Qed.

Lemma firstn_drop (n : nat) (s : str) : firstn n s ++ drop n s = s.
Proof. revert s; induction n as [|n IH]; intros [|c r]; simpl; try reflexivity. f_equal. apply IH. Qed.

(* ------------------------------------------------------------------ *)
(* losslessness: the token texts concatenate to the consumed input      *)

Lemma lex_prefix_concat : forall fuel s st ts e,
  (length s <= fuel)%nat -> lex_prefix fuel s st = (ts, e) ->
  exists rest, s = concat (map ttext ts) ++ rest /\ (e = None -> rest = []).
Proof.
  induction fuel as [|f IH]; intros s st ts e Hl H.
  - destruct s; [|simpl in Hl; lia]. simpl in H. inv H. exists []. auto.
  - destruct s as [|c r]; [simpl in H; inv H; exists []; auto|].
    cbn [lex_prefix] in H.
    destruct (lex_step (c :: r) st) as [t st' n|l col] eqn:S.
    + apply lex_step_spec in S. destruct S as (Hn & Ht & _).
      destruct (lex_prefix f (drop n (c :: r)) st') as [ts' e'] eqn:R. inv H.
      apply IH in R; [|rewrite length_drop; lia].
      destruct R as (rest & Hr & He). exists rest. split; [|exact He].
      simpl. rewrite Ht, <- app_assoc, <- Hr. symmetry. apply firstn_drop.
    + inv H. exists (c :: r). split; [reflexivity | discriminate].
Qed.

Theorem lex_lossless s ts : lex s = LOk ts -> concat (map ttext ts) = s.
Proof.
  unfold lex. destruct s as [|c r]; [intro H; inv H; reflexivity|].
  destruct (c =? c_bom); [discriminate|].
  destruct (lex_prefix (length (c :: r)) (c :: r) init_lst) as [ts' [[l col]|]] eqn:R; [discriminate|].
  intro H; inv H. apply lex_prefix_concat in R; [|lia].
  destruct R as (rest & Hr & He). rewrite (He eq_refl), app_nil_r in Hr. symmetry. exact Hr.
Qed.

(* every token is non-empty, so no input makes the lexer loop or run out of fuel *)
Lemma lex_prefix_nonempty : forall fuel s st ts e,
  lex_prefix fuel s st = (ts, e) -> Forall (fun t => ttext t <> []) ts.
Proof.
  induction fuel as [|f IH]; intros s st ts e H.
  - destruct s; simpl in H; inv H; constructor.
  - destruct s as [|c r]; [simpl in H; inv H; constructor|].
    cbn [lex_prefix] in H.
    destruct (lex_step (c :: r) st) as [t st' n|l col] eqn:S.
    + apply lex_step_spec in S. destruct S as (Hn & Ht & _).
      destruct (lex_prefix f (drop n (c :: r)) st') as [ts' e'] eqn:R. inv H.
      constructor; [|eapply IH; eassumption].
      rewrite Ht. destruct n; [lia|]. simpl. discriminate.
    + inv H. constructor.
Qed.

(* ------------------------------------------------------------------ *)
(* position accuracy                                                    *)

Arguments N.add : simpl never.
Arguments N.sub : simpl never.
Arguments N.of_nat : simpl never.
Arguments N.eqb : simpl never.

(* the position of the point that follows the text [pre]:
   line = 1 + number of newlines in pre, column = characters since the last newline *)
Definition line_of (pre : str) : N := 1 + count_nl pre.
Definition col_of (pre : str) : N := after_last_nl pre.

Definition Inv (pre : str) (st : lst) : Prop :=
  l_off st = N.of_nat (length pre) /\ l_line st = line_of pre /\
  l_ls st = N.of_nat (length pre) - col_of pre.

Lemma count_nl_app a b : count_nl (a ++ b) = count_nl a + count_nl b.
Proof. unfold count_nl. rewrite filter_app, app_length. apply Nat2N.inj_add. Qed.

Lemma span_app_all p a b : forallb p a = true -> span p (a ++ b) = (length a + span p b)%nat.
Proof.
  induction a as [|c r IH]; simpl; intro H; [reflexivity|].
  apply andb_true_iff in H. destruct H as [H1 H2]. rewrite H1. f_equal. apply IH. exact H2.
Qed.
Lemma span_stop p a c b : forallb p a = true -> p c = false -> span p (a ++ c :: b) = length a.
Proof. intros Ha Hc. rewrite span_app_all by exact Ha. simpl. rewrite Hc. lia. Qed.

Lemma count_nl_zero s : count_nl s = 0 <-> forallb not_nl s = true.
Proof.
  unfold count_nl, not_nl. induction s as [|c r IH]; simpl; [split; reflexivity|].
  destruct (c =? c_nl); simpl; [split; [lia | discriminate]|]. exact IH.
Qed.

Lemma after_last_nl_le s : after_last_nl s <= N.of_nat (length s).
Proof. unfold after_last_nl. pose proof (span_le not_nl (rev s)). rewrite rev_length in H. lia. Qed.

(* text without newline: the column grows, the line stays *)
Lemma col_of_app_nonl pre txt : count_nl txt = 0 ->
  col_of (pre ++ txt) = col_of pre + N.of_nat (length txt).
Proof.
  intro H. apply count_nl_zero in H. unfold col_of, after_last_nl.
  rewrite rev_app_distr, span_app_all; [rewrite rev_length; lia|].
  rewrite forallb_forall in *. intros x Hx. apply H. apply in_rev. exact Hx.
Qed.
(* text containing a newline: the column restarts after its last newline *)
Lemma col_of_app_nl pre txt : count_nl txt <> 0 -> col_of (pre ++ txt) = col_of txt.
Proof.
  intro H. unfold col_of, after_last_nl. rewrite rev_app_distr.
  assert (E : exists a b, rev txt = a ++ c_nl :: b /\ forallb not_nl a = true).
  { assert (Hin : exists x, In x (rev txt) /\ not_nl x = false).
    { destruct (forallb not_nl txt) eqn:F; [apply count_nl_zero in F; contradiction|].
      assert (F' : ~ (forall x, In x txt -> not_nl x = true)) by (rewrite <- forallb_forall; congruence).
      clear -F'. induction txt as [|c r IH]; [exfalso; apply F'; intros x []|].
      destruct (not_nl c) eqn:E.
      - destruct IH as (x & Hx & Hn).
        + intro Hall. apply F'. intros y [->|Hy]; auto.
        + exists x. split; [|exact Hn]. simpl. apply in_or_app. left. exact Hx.
      - exists c. split; [simpl; apply in_or_app; right; left; reflexivity | exact E]. }
    clear H. induction (rev txt) as [|c r IH]; [destruct Hin as (x & [] & _)|].
    destruct (not_nl c) eqn:E.
    - destruct IH as (a & b & Hr & Ha).
      + destruct Hin as (x & [->|Hx] & Hn); [congruence | exists x; auto].
      + exists (c :: a), b. split; [simpl; f_equal; exact Hr | simpl; rewrite E; exact Ha].
    - exists [], r. split; [|reflexivity]. simpl. f_equal.
      unfold not_nl in E. apply negb_false_iff, N.eqb_eq in E. exact E. }
  destruct E as (a & b & Hr & Ha). rewrite Hr, <- app_assoc. simpl.
  rewrite !span_stop; auto.
Qed.

Lemma Inv_step_nonl pre st txt ls' :
  Inv pre st -> count_nl txt = 0 -> ls' = l_ls st ->
  Inv (pre ++ txt) (mkL (l_off st + N.of_nat (length txt)) ls' (l_line st) 0 0 0) ->
  True.
Proof. trivial. Qed.

(* generic update lemmas on (off, ls, line) *)
Lemma Inv_nonl pre st txt p b c :
  Inv pre st -> count_nl txt = 0 ->
  Inv (pre ++ txt) (mkL (l_off st + N.of_nat (length txt)) (l_ls st) (l_line st) p b c).
Proof.
  intros (Ho & Hl & Hs) Hn. unfold Inv, line_of in *. simpl.
  rewrite app_length, Nat2N.inj_add, count_nl_app, Hn, col_of_app_nonl by exact Hn.
  pose proof (after_last_nl_le pre). unfold col_of in *. repeat split; lia.
Qed.
Lemma Inv_nl pre st txt p b c :
  Inv pre st -> count_nl txt <> 0 ->
  Inv (pre ++ txt) (mkL (l_off st + N.of_nat (length txt))
                        (l_off st + N.of_nat (length txt) - after_last_nl txt)
                        (l_line st + count_nl txt) p b c).
Proof.
  intros (Ho & Hl & Hs) Hn. unfold Inv, line_of in *. simpl.
  rewrite app_length, Nat2N.inj_add, count_nl_app, col_of_app_nl by exact Hn.
  unfold col_of. repeat split; lia.
Qed.

(* token texts of the kinds that never update the line accounting contain no newline *)
Lemma firstn_span_all p s : forallb p (firstn (span p s) s) = true.
Proof. induction s as [|c r IH]; simpl; [reflexivity|]. destruct (p c) eqn:E; simpl; [rewrite E; exact IH | reflexivity]. Qed.

Lemma forallb_impl (p q : char -> bool) s : (forall c, p c = true -> q c = true) -> forallb p s = true -> forallb q s = true.
Proof. intros Hi. rewrite !forallb_forall. auto. Qed.

Lemma blank_not_nl c : is_blank c = true -> not_nl c = true.
Proof. unfold is_blank, not_nl, c_nl. destruct (c =? 32) eqn:A; destruct (c =? 9) eqn:B; simpl; try discriminate; intros _;
  apply negb_true_iff, N.eqb_neq; apply N.eqb_eq in A || apply N.eqb_eq in B; lia. Qed.
Lemma idchar_not_nl c : is_id_char c = true -> not_nl c = true.
Proof.
  unfold is_id_char, is_alnum, is_alpha, is_lower, is_upper, is_digit, not_nl, c_nl. intro H.
  apply negb_true_iff, N.eqb_neq. intro E; subst. vm_compute in H. discriminate.
Qed.
Lemma hex_not_nl c : is_hex c = true -> not_nl c = true.
Proof.
  unfold is_hex, is_digit, not_nl, c_nl. intro H.
  apply negb_true_iff, N.eqb_neq. intro E; subst. vm_compute in H. discriminate.
Qed.

Lemma firstn_S_cons (n : nat) (c : char) r : firstn (S n) (c :: r) = c :: firstn n r.
Proof. reflexivity. Qed.

Lemma nonl_ws s n : m_ws s = Some n -> count_nl (firstn n s) = 0.
Proof.
  unfold m_ws. intro H. apply nz_some in H. destruct H as [-> _]. apply count_nl_zero.
  eapply forallb_impl; [apply blank_not_nl | apply firstn_span_all].
Qed.
Lemma nonl_comment s n : m_comment s = Some n -> count_nl (firstn n s) = 0.
Proof.
  unfold m_comment. destruct s as [|c r]; [discriminate|]. destruct (c =? c_hash) eqn:E; [|discriminate].
  intro H; inv H. apply count_nl_zero. rewrite firstn_S_cons. simpl. rewrite firstn_span_all, andb_true_r.
  apply N.eqb_eq in E. subst. reflexivity.
Qed.
Lemma nonl_two a b s n : a <> c_nl -> b <> c_nl -> m_two a b s = Some n -> count_nl (firstn n s) = 0.
Proof.
  unfold m_two. intros Ha Hb. destruct (prefixb [a; b] s) eqn:P; [|discriminate]. intro H; inv H.
  apply prefixb_spec in P. destruct P as [r ->]. simpl. apply count_nl_zero. simpl.
  unfold not_nl. rewrite !andb_true_iff, !negb_true_iff, !N.eqb_neq. auto.
Qed.
Lemma nonl_id s n : m_id s = Some n -> count_nl (firstn n s) = 0.
Proof.
  unfold m_id. destruct s as [|c r]; [discriminate|]. destruct (is_id_start c) eqn:E; [|discriminate].
  intro H; inv H. apply count_nl_zero. rewrite firstn_S_cons. simpl. apply andb_true_iff. split.
  - apply idchar_not_nl. unfold is_id_start, is_id_char, is_alnum in *. apply orb_true_iff in E.
    destruct E as [->| ->]; [reflexivity | rewrite orb_true_r; reflexivity].
  - eapply forallb_impl; [apply idchar_not_nl | apply firstn_span_all].
Qed.
Lemma nonl_num s n : m_num s = Some n -> count_nl (firstn n s) = 0.
Proof.
  unfold m_num. destruct s as [|c r]; [discriminate|].
  assert (Hd : forall q : char -> bool, (forall x, q x = true -> is_hex x = true) ->
               forallb not_nl (firstn (span q r) r) = true).
  { intros q Hq. eapply forallb_impl; [|apply firstn_span_all]. intros x Hx. apply hex_not_nl, Hq, Hx. }
  destruct (c =? 48) eqn:E0.
  - apply N.eqb_eq in E0. subst c.
    destruct r as [|x r'].
    + intro H; inv H. reflexivity.
    + assert (Hq : forall q : char -> bool, (forall y, q y = true -> is_hex y = true) ->
                   forall t, (t = 98 \/ t = 66 \/ t = 111 \/ t = 79 \/ t = 120 \/ t = 88) ->
                   count_nl (firstn (2 + span q r') (48 :: t :: r')) = 0).
      { intros q Hq t Ht. apply count_nl_zero. simpl. rewrite andb_true_iff. split.
        - destruct Ht as [->|[->|[->|[->|[->| ->]]]]]; reflexivity.
        - eapply forallb_impl; [|apply firstn_span_all]. intros y Hy. apply hex_not_nl, Hq, Hy. }
      assert (Hbin : forall y, is_bin y = true -> is_hex y = true).
      { intros y. unfold is_bin, is_hex, is_digit. intro Hy. apply orb_true_iff in Hy.
        destruct Hy as [Hy|Hy]; apply N.eqb_eq in Hy; subst; reflexivity. }
      assert (Hoct : forall y, is_oct y = true -> is_hex y = true).
      { intros y. unfold is_oct, is_hex, is_digit. intro Hy. apply andb_true_iff in Hy. destruct Hy as [A B].
        apply N.leb_le in A, B. rewrite !orb_true_iff. left. left. apply andb_true_iff. split; apply N.leb_le; lia. }
      destruct (((x =? 98) || (x =? 66)) && negb (Nat.eqb (span is_bin r') 0)) eqn:B1.
      { intro H; inv H. apply Hq; [exact Hbin|]. apply andb_true_iff in B1. destruct B1 as [B1 _].
        apply orb_true_iff in B1. destruct B1 as [B1|B1]; apply N.eqb_eq in B1; auto. }
      destruct (((x =? 111) || (x =? 79)) && negb (Nat.eqb (span is_oct r') 0)) eqn:B2.
      { intro H; inv H. apply Hq; [exact Hoct|]. apply andb_true_iff in B2. destruct B2 as [B2 _].
        apply orb_true_iff in B2. destruct B2 as [B2|B2]; apply N.eqb_eq in B2; auto 6. }
      destruct (((x =? 120) || (x =? 88)) && negb (Nat.eqb (span is_hex r') 0)) eqn:B3.
      { intro H; inv H. apply Hq; [auto|]. apply andb_true_iff in B3. destruct B3 as [B3 _].
        apply orb_true_iff in B3. destruct B3 as [B3|B3]; apply N.eqb_eq in B3; auto 8. }
      intro H; inv H. reflexivity.
  - destruct ((49 <=? c) && (c <=? 57)) eqn:E1; [|discriminate].
    intro H; inv H. apply count_nl_zero. rewrite firstn_S_cons. simpl. apply andb_true_iff. split.
    + apply andb_true_iff in E1. destruct E1 as [A B]. apply N.leb_le in A, B.
      unfold not_nl, c_nl. apply negb_true_iff, N.eqb_neq. lia.
    + apply Hd. intros y Hy. unfold is_hex. rewrite Hy. reflexivity.
Qed.

(* eol_cont: exactly one newline, at the end *)
Lemma eol_cont_shape s n : m_eol_cont s = Some n ->
  exists body, firstn n s = body ++ [c_nl] /\ count_nl body = 0.
Proof.
  unfold m_eol_cont. destruct s as [|c r]; [discriminate|]. destruct (c =? c_bs) eqn:Ec; [|discriminate].
  apply N.eqb_eq in Ec. subst c.
  set (b := span is_blank r).
  assert (Hr : r = firstn b r ++ drop b r) by (symmetry; apply firstn_drop).
  assert (Hb : forallb not_nl (firstn b r) = true).
  { eapply forallb_impl; [apply blank_not_nl | apply firstn_span_all]. }
  assert (Lb : length (firstn b r) = b).
  { apply firstn_length_le. apply span_le. }
  destruct (drop b r) as [|d r2] eqn:D; [discriminate|].
  destruct (d =? c_nl) eqn:Ed.
  - apply N.eqb_eq in Ed. subst d. intro H; inv H.
    exists (c_bs :: firstn b r). split.
    + replace (1 + b + 1)%nat with (S (b + 1)) by lia. rewrite firstn_S_cons. simpl. f_equal.
      rewrite Hr at 1. rewrite firstn_app, Lb. replace (b + 1 - b)%nat with 1%nat by lia.
      rewrite firstn_all2 by (rewrite Lb; lia). reflexivity.
    + apply count_nl_zero. simpl. exact Hb.
  - destruct (d =? c_hash) eqn:Eh; [|discriminate]. apply N.eqb_eq in Eh. subst d.
    set (k := span not_nl r2).
    assert (Hr2 : r2 = firstn k r2 ++ drop k r2) by (symmetry; apply firstn_drop).
    assert (Lk : length (firstn k r2) = k) by (apply firstn_length_le, span_le).
    destruct (drop k r2) as [|e r3] eqn:D2; [discriminate|].
    destruct (e =? c_nl) eqn:Ee; [|discriminate]. apply N.eqb_eq in Ee. subst e. intro H; inv H.
    exists (c_bs :: firstn b r ++ c_hash :: firstn k r2). split.
    + replace (1 + b + 1 + k + 1)%nat with (S (b + (1 + (k + 1)))) by lia. rewrite firstn_S_cons. simpl. f_equal.
      rewrite Hr at 1. rewrite firstn_app, Lb.
      rewrite firstn_all2 by (rewrite Lb; lia).
      match goal with |- context [firstn ?m (c_hash :: r2)] => replace m with (S (k + 1)) by lia end.
      rewrite firstn_S_cons.
      rewrite <- app_assoc. simpl. f_equal. f_equal.
      rewrite Hr2 at 1. rewrite firstn_app, Lk, firstn_all2 by (rewrite Lk; lia).
      replace (k + 1 - k)%nat with 1%nat by lia. reflexivity.
    + apply count_nl_zero. simpl. rewrite forallb_app, Hb. simpl. unfold k. apply firstn_span_all.
Qed.

Lemma count_nl_single : count_nl [c_nl] = 1.
Proof. reflexivity. Qed.
Lemma after_last_nl_end body : after_last_nl (body ++ [c_nl]) = 0.
Proof. unfold after_last_nl. rewrite rev_app_distr. reflexivity. Qed.

(* The invariant is preserved by every step, and the token carries the position of
   the point where it starts. *)
Lemma lex_step_inv pre s st t st' n :
  Inv pre st -> lex_step s st = SOk t st' n ->
  tline t = line_of pre /\ tcol t = col_of pre /\ tstart t = N.of_nat (length pre) /\
  Inv (pre ++ ttext t) st'.
Proof.
  intros HI H. pose proof (lex_step_spec _ _ _ _ _ H) as (Hn & Ht & Hs & Hl & Hc & Ho).
  destruct HI as (Io & Il & Is).
  pose proof (after_last_nl_le pre) as Hle. unfold col_of in *.
  split; [congruence|]. split; [lia|]. split; [congruence|].
  assert (HI : Inv pre st) by (unfold Inv, col_of; auto).
  assert (Ln : length (firstn n s) = n) by (apply firstn_length_le; lia).
  revert H. unfold lex_step.
  destruct (first_match s) as [[rk n0]|] eqn:F.
  - pose proof F as F'. unfold first_match in F'.
    destruct rk as [k|].
    + (* ordinary regex tokens *)
      assert (Hnonl : is_multi k = false -> count_nl (firstn n0 s) = 0).
      { revert F'.
        repeat match goal with
        | |- match ?m with Some _ => _ | None => _ end = _ -> _ =>
            let E := fresh "E" in destruct m eqn:E; [intro X; inv X | ]
        end; try discriminate; intro Hm; try discriminate Hm;
        first [ eapply nonl_ws; eassumption | eapply nonl_id; eassumption | eapply nonl_num; eassumption
              | eapply nonl_comment; eassumption
              | eapply nonl_two; [| |eassumption]; unfold c_nl; lia ]. }
      intro H.
      assert (E : exists k', tok_step k' (firstn n0 s) n0 st = SOk t st' n /\
                             (is_multi k' = false -> count_nl (firstn n0 s) = 0)).
      { destruct k; try (eexists; split; [exact H | exact Hnonl]).
        exists (match keyword (firstn n0 s) with Some k => k | None => KId end). split; [exact H|].
        intros _. apply Hnonl. reflexivity. }
      destruct E as (k' & E & Hk'). clear H Hnonl.
      pose proof (tok_step_spec _ _ _ _ _ _ _ E) as (-> & _).
      unfold tok_step in E.
      destruct (is_multi k') eqn:M; cbn [andb] in E.
      * destruct (count_nl (firstn n0 s) =? 0) eqn:Z; cbn [negb] in E; inv E; cbn [ttext]; unfold nlen;
          rewrite <- Ln at 2 3 || rewrite <- Ln at 2.
        -- apply Inv_nonl; [exact HI | apply N.eqb_eq; exact Z].
        -- apply Inv_nl; [exact HI | apply N.eqb_neq; exact Z].
      * inv E. cbn [ttext]. unfold nlen. rewrite <- Ln at 2. apply Inv_nonl; [exact HI | apply Hk'; reflexivity].
    + (* eol_cont *)
      assert (E : m_eol_cont s = Some n0).
      { revert F'.
        repeat match goal with
        | |- match ?m with Some _ => _ | None => _ end = _ -> _ =>
            let E := fresh "E" in destruct m eqn:E; [intro X; inv X | ]
        end; try discriminate; reflexivity. }
      apply eol_cont_shape in E. destruct E as (body & Hb & Hz).
      intro H; inv H. rewrite Ht, Hb in *.
      destruct HI as (Jo & Jl & Js). unfold Inv, line_of, col_of, nlen in *. simpl.
      rewrite !app_length, !count_nl_app, Hz, app_assoc, after_last_nl_end.
      rewrite app_length in Ln. cbn [length] in *. rewrite count_nl_single, !Nat2N.inj_add.
      repeat split; lia.
  - destruct s as [|c r]; [discriminate|].
    destruct (c =? 34); [discriminate|].
    destruct (single_char c) as [k|] eqn:SC; [|discriminate].
    assert (Hc1 : k <> KEol -> count_nl [c] = 0).
    { intro Hk. unfold single_char in SC. apply count_nl_zero. simpl. rewrite andb_true_r.
      unfold not_nl, c_nl. destruct (c =? 10) eqn:E10; [inv SC; congruence | reflexivity]. }
    assert (Hc2 : k = KEol -> c = c_nl).
    { intro Hk. subst k. unfold single_char in SC.
      destruct (c =? 10) eqn:E10; [apply N.eqb_eq in E10; exact E10|].
      repeat match type of SC with (if ?b then _ else _) = _ => destruct b; [discriminate|] end. discriminate. }
    destruct k; intro H; inv H; cbn [ttext];
      try (change 1 with (N.of_nat (length [c])); apply Inv_nonl; [exact HI | apply Hc1; discriminate]).
    (* newline *)
    rewrite (Hc2 eq_refl).
    destruct HI as (Jo & Jl & Js). unfold Inv, line_of, col_of in *. simpl.
    rewrite app_length, count_nl_app, after_last_nl_end. simpl. rewrite count_nl_single. repeat split; lia.
Qed.

Fixpoint positions_ok (pre : str) (ts : list token) : Prop :=
  match ts with
  | [] => True
  | t :: r => tline t = line_of pre /\ tcol t = col_of pre /\ tstart t = N.of_nat (length pre) /\
              positions_ok (pre ++ ttext t) r
  end.

Lemma lex_prefix_positions : forall fuel s st pre ts e,
  Inv pre st -> lex_prefix fuel s st = (ts, e) -> positions_ok pre ts.
Proof.
  induction fuel as [|f IH]; intros s st pre ts e HI H.
  - destruct s; simpl in H; inv H; exact I.
  - destruct s as [|c r]; [simpl in H; inv H; exact I|].
    cbn [lex_prefix] in H.
    destruct (lex_step (c :: r) st) as [t st' n|l col] eqn:S.
    + destruct (lex_prefix f (drop n (c :: r)) st') as [ts' e'] eqn:R. inv H.
      pose proof (lex_step_inv _ _ _ _ _ _ HI S) as (A & B & C & D).
      simpl. repeat split; try assumption. eapply IH; eassumption.
    + inv H. exact I.
Qed.

Lemma Inv_init : Inv [] init_lst.
Proof. unfold Inv, init_lst, line_of, col_of. simpl. auto. Qed.

(* Every token of an accepted text records the line and column of the point where it
   starts, and its offset. *)
Theorem lex_positions s ts : lex s = LOk ts -> positions_ok [] ts.
Proof.
  unfold lex. destruct s as [|c r]; [intro H; inv H; exact I|].
  destruct (c =? c_bom); [discriminate|].
  destruct (lex_prefix (length (c :: r)) (c :: r) init_lst) as [ts' [[l col]|]] eqn:R; [discriminate|].
  intro H; inv H. eapply lex_prefix_positions; [apply Inv_init | exact R].
Qed.

(* a rejected text carries the position of the point where lexing stopped, which lies
   inside the text: the consumed prefix is a prefix of the text *)
Lemma lex_prefix_error : forall fuel s st pre ts l c,
  (length s <= fuel)%nat -> Inv pre st -> lex_prefix fuel s st = (ts, Some (l, c)) ->
  exists rest, rest <> [] /\ s = concat (map ttext ts) ++ rest /\
               l = line_of (pre ++ concat (map ttext ts)) /\ c = col_of (pre ++ concat (map ttext ts)).
Proof.
  induction fuel as [|f IH]; intros s st pre ts l c Hl HI H.
  - destruct s; simpl in H; inv H.
  - destruct s as [|x r]; [simpl in H; inv H|].
    cbn [lex_prefix] in H.
    destruct (lex_step (x :: r) st) as [t st' n|l' c'] eqn:S.
    + destruct (lex_prefix f (drop n (x :: r)) st') as [ts' e'] eqn:R. inv H.
      pose proof (lex_step_inv _ _ _ _ _ _ HI S) as (_ & _ & _ & D).
      pose proof (lex_step_spec _ _ _ _ _ S) as (Hn & Ht & _).
      apply (IH _ _ (pre ++ ttext t)) in R; [| rewrite length_drop; lia | exact D].
      destruct R as (rest & Hne & Hr & Hl' & Hc').
      exists rest. split; [exact Hne|]. simpl. rewrite <- !app_assoc in *. split; [|split; assumption].
      rewrite <- Hr, Ht. symmetry. apply firstn_drop.
    + inv H. exists (x :: r). simpl. rewrite app_nil_r. split; [discriminate|]. split; [reflexivity|].
      (* the error position is the current point *)
      unfold lex_step in S. destruct HI as (Jo & Jl & Js).
      pose proof (after_last_nl_le pre). unfold col_of in *.
      destruct (first_match (x :: r)) as [[[k|] n0]|].
      * exfalso.
        assert (E : exists k', tok_step k' (firstn n0 (x :: r)) n0 st = SErr l c) by (destruct k; eauto).
        destruct E as [k' E]. unfold tok_step in E.
        destruct (is_multi k' && negb (count_nl (firstn n0 (x :: r)) =? 0)); discriminate.
      * discriminate.
      * destruct (x =? 34); [inv S; split; [congruence | lia]|].
        destruct (single_char x) as [k|]; [|inv S; split; [congruence | lia]].
        destruct k; discriminate.
Qed.
