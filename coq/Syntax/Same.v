(* Syntax/Same.v — the acceptance relation of C16: "the same program".

   [strict] erases from a parse tree (Syntax/Parser.v) everything the property tells us
   to ignore: token positions, whitespace and comments (never in the tree), the comma
   tokens (so redundant / trailing commas), blank statements, and the layout of
   parentheses (the ParenthesizedNode itself is kept: the formatter never adds or drops
   parentheses).  [norm] then identifies the three documented literal rewrites:
     - a string literal is its denotation (decoded escapes for '..', the raw body for
       '''..''') plus "is an f-string that can substitute" (f prefix and an '@' in the value);
     - files([...]) with a single array argument is files(...);
     - with sort_files, the arguments of files() are a multiset.
   same_program = equality of normal forms.
   Definitions only (model/spec file: no proofs). *)
From MV Require Import Base.Strs Syntax.Lexer Syntax.Parser.
From Coq Require Import Permutation.
Open Scope N_scope.

(* ------------------------------------------------------------------ string denotation *)

(* StringNode.escape(): ESCAPE_SEQUENCE_SINGLE_RE.sub(decode_match, raw_value), mparser.py:21-33,337.
   Alternatives in the order of the regex: \UXXXXXXXX | \uXXXX | \xXX | \[0-7]{1,3} | \N{..} |
   \[\\'abfnrtv].  \N{name} needs the Unicode name table: not modelled (inputs containing
   "\N{" are outside the model; here the backslash is kept).  [skip] characters belong to
   an escape that was already replaced. *)
Fixpoint oct_val (s : str) (acc : N) : N :=
  match s with
  | [] => acc
  | c :: r => oct_val r (acc * 8 + (c - 48))
  end.

Definition single_escape (x : char) : option char :=
  if x =? 92 then Some 92        (* \\ *)
  else if x =? 39 then Some 39   (* \' *)
  else if x =? 97 then Some 7    (* \a *)
  else if x =? 98 then Some 8    (* \b *)
  else if x =? 102 then Some 12  (* \f *)
  else if x =? 110 then Some 10  (* \n *)
  else if x =? 114 then Some 13  (* \r *)
  else if x =? 116 then Some 9   (* \t *)
  else if x =? 118 then Some 11  (* \v *)
  else None.

Fixpoint decode_ (skip : nat) (s : str) : str :=
  match s with
  | [] => []
  | c :: r =>
      match skip with
      | S k => decode_ k r
      | O =>
          if c =? c_bs then
            match r with
            | x :: r' =>
                if (x =? 85) && Nat.eqb (length (firstn 8 r')) 8 && all_hex (firstn 8 r') then
                  hex_val (firstn 8 r') 0 :: decode_ 9 r
                else if (x =? 117) && Nat.eqb (length (firstn 4 r')) 4 && all_hex (firstn 4 r') then
                  hex_val (firstn 4 r') 0 :: decode_ 5 r
                else if (x =? 120) && Nat.eqb (length (firstn 2 r')) 2 && all_hex (firstn 2 r') then
                  hex_val (firstn 2 r') 0 :: decode_ 3 r
                else if is_oct x then
                  let k := Nat.min 3 (span is_oct r) in
                  oct_val (firstn k r) 0 :: decode_ k r
                else match single_escape x with
                     | Some d => d :: decode_ 1 r
                     | None => c :: decode_ 0 r
                     end
            | [] => [c]
            end
          else c :: decode_ 0 r
      end
  end.
Definition decode (s : str) : str := decode_ 0 s.

Definition has (c : char) (s : str) : bool := existsb (fun x => x =? c) s.
Definition c_at : char := 64.

(* (is_fstring, is_multiline) of the four string token kinds *)
Definition str_flags (k : kind) : bool * bool :=
  match k with
  | KFStr => (true, false) | KMStr => (false, true) | KMFStr => (true, true)
  | _ => (false, false)
  end.
(* the text between the quotes: Lexer.lex value[1:-1] / [2:-1] / [3:-3] / [4:-3] *)
Definition lit_body (t : token) : str :=
  let txt := ttext t in
  match tk t with
  | KStr => removelast (drop 1 txt)
  | KFStr => removelast (drop 2 txt)
  | KMStr => firstn (length txt - 6) (drop 3 txt)
  | KMFStr => firstn (length txt - 7) (drop 4 txt)
  | _ => txt
  end.

(* StringNode.value *)
Definition str_value (multi : bool) (body : str) : str := if multi then body else decode body.

(* InterpreterBase.evaluate_fstring, interpreterbase.py:435-455:
   re.sub of the pattern  @ identifier @  (identifier = [_a-zA-Z][_0-9a-zA-Z]* ) over
   node.value with the variable's string form; an unknown variable is an error (None).  [env] gives the string form of a variable. *)
Fixpoint fsubst_ (env : str -> option str) (skip : nat) (s : str) : option str :=
  match s with
  | [] => Some []
  | c :: r =>
      match skip with
      | S k => fsubst_ env k r
      | O =>
          let keep := option_map (cons c) (fsubst_ env 0 r) in
          if c =? c_at then
            match r with
            | x :: _ =>
                if is_id_start x then
                  let n := span is_id_char r in
                  match drop n r with
                  | y :: _ =>
                      if y =? c_at then
                        match env (firstn n r) with
                        | Some v => option_map (app v) (fsubst_ env (S n) r)
                        | None => None
                        end
                      else keep
                  | [] => keep
                  end
                else keep
            | [] => keep
            end
          else keep
      end
  end.
(* what a string literal evaluates to in an environment *)
Definition str_meaning (env : str -> option str) (f multi : bool) (body : str) : option str :=
  if f then fsubst_ env 0 (str_value multi body) else Some (str_value multi body).

(* ------------------------------------------------------------------ erased trees *)

Inductive tag :=
| TParen | TArray (commented : bool) | TDict | TFunc (name : str) | TMethod (name : str) | TIndex
| TNot | TNeg | TArith (op : str) | TCmp (op : str) | TAnd | TOr | TTern
| TAssign (name : str) | TPlusAssign (name : str)
| TIf | TClause | TElse | TForeach (v1 : str) (v2 : option str) | TBlock | TKw.

Inductive enode :=
| EEmpty
| EAtom (k : kind) (text : str)            (* true / false / id / number (source text) / continue / break *)
| EStr (f multi : bool) (body : str)
| ENode (t : tag) (kids : list enode).

Definition obool_eqb (a b : bool) : bool := Bool.eqb a b.
Definition ostr_eqb (a b : option str) : bool :=
  match a, b with
  | None, None => true
  | Some x, Some y => str_eqb x y
  | _, _ => false
  end.

Definition tag_eqb (a b : tag) : bool :=
  match a, b with
  | TParen, TParen | TDict, TDict | TIndex, TIndex | TNot, TNot | TNeg, TNeg
  | TAnd, TAnd | TOr, TOr | TTern, TTern | TIf, TIf | TClause, TClause | TElse, TElse
  | TBlock, TBlock | TKw, TKw => true
  | TArray x, TArray y => Bool.eqb x y
  | TFunc x, TFunc y | TMethod x, TMethod y | TArith x, TArith y | TCmp x, TCmp y
  | TAssign x, TAssign y | TPlusAssign x, TPlusAssign y => str_eqb x y
  | TForeach x1 x2, TForeach y1 y2 => str_eqb x1 y1 && ostr_eqb x2 y2
  | _, _ => false
  end.

Definition list_eqb {A} (eq : A -> A -> bool) : list A -> list A -> bool :=
  fix go (xs ys : list A) {struct xs} : bool :=
    match xs, ys with
    | [], [] => true
    | x :: xs', y :: ys' => eq x y && go xs' ys'
    | _, _ => false
    end.
Fixpoint enode_eqb (a b : enode) {struct a} : bool :=
  match a, b with
  | EEmpty, EEmpty => true
  | EAtom k x, EAtom l y => kind_beq k l && str_eqb x y
  | EStr f m x, EStr g n y => Bool.eqb f g && Bool.eqb m n && str_eqb x y
  | ENode t ks, ENode u ls => tag_eqb t u && list_eqb (fun x y => enode_eqb x y) ks ls
  | _, _ => false
  end.

(* offsets of the '[' tokens whose trivia (up to the next significant token) holds a
   comment or a backslash continuation: lbracket.whitespaces.value.strip() != '' *)
Definition loud (t : token) : bool :=
  match tk t with
  | KComment => true
  | KWs => match ttext t with c :: _ => c =? c_bs | [] => false end
  | _ => false
  end.
Fixpoint trivia_loud (ts : list token) : bool :=
  match ts with
  | t :: r => if is_trivia (tk t) then loud t || trivia_loud r else false
  | [] => false
  end.
Fixpoint commented_brackets (ts : list token) : list N :=
  match ts with
  | [] => []
  | t :: r =>
      if kind_beq (tk t) KLBracket && trivia_loud r then tstart t :: commented_brackets r
      else commented_brackets r
  end.
Fixpoint mem_N (x : N) (l : list N) : bool :=
  match l with [] => false | y :: r => (x =? y) || mem_N x r end.

(* [cm]: offsets of the commented '[' tokens; [] when the flag is not wanted *)
  Fixpoint strict (cm : list N) (n : node) {struct n} : enode :=
    match n with
    | NEmpty _ => EEmpty
    | NBool t | NId t | NNum t => EAtom (tk t) (ttext t)
    | NStr t => let '(f, m) := str_flags (tk t) in EStr f m (lit_body t)
    | NContinue kw _ | NBreak kw _ => EAtom (tk kw) []
    | NParen _ e _ => ENode TParen [strict cm e]
    | NArray lb a _ _ => ENode (TArray (mem_N (tstart lb) cm)) (strict_args cm a)
    | NDict _ a _ _ => ENode TDict (strict_args cm a)
    | NFunc name _ a _ _ => ENode (TFunc (ttext name)) (strict_args cm a)
    | NMethod obj _ name _ a _ _ => ENode (TMethod (ttext name)) (strict cm obj :: strict_args cm a)
    | NIndex obj _ idx _ => ENode TIndex [strict cm obj; strict cm idx]
    | NNot _ _ e => ENode TNot [strict cm e]
    | NUMinus _ _ e => ENode TNeg [strict cm e]
    | NArith l op r => ENode (TArith (ttext op)) [strict cm l; strict cm r]
    | NCmp l op r => ENode (TCmp (ttext op)) [strict cm l; strict cm r]
    | NNotIn l _ _ r => ENode (TCmp (s2l "not in")) [strict cm l; strict cm r]
    | NAnd l _ r => ENode TAnd [strict cm l; strict cm r]
    | NOr l _ r => ENode TOr [strict cm l; strict cm r]
    | NTernary c _ t _ f => ENode TTern [strict cm c; strict cm t; strict cm f]
    | NAssign name _ v => ENode (TAssign (ttext name)) [strict cm v]
    | NPlusAssign name _ v => ENode (TPlusAssign (ttext name)) [strict cm v]
    | NIf i _ => ENode TIf (strict_ifs cm i)
    | NIfElse i _ _ b _ => ENode TIf (strict_ifs cm i ++ [ENode TElse [ENode TBlock (strict_block cm b)]])
    | NForeach _ v1 cv2 _ items b _ =>
        ENode (TForeach (ttext v1) (match cv2 with Some (_, v2) => Some (ttext v2) | None => None end))
              [strict cm items; ENode TBlock (strict_block cm b)]
    end
  with strict_args (cm : list N) (a : args) {struct a} : list enode :=
    match a with
    | ANil => []
    | APos n r => strict cm n :: strict_args cm r
    | AKw k _ v r => ENode TKw [strict cm k; strict cm v] :: strict_args cm r
    end
  with strict_block (cm : list N) (b : block) {struct b} : list enode :=
    match b with
    | BNil => []
    | BLine n _ r => if is_empty n then strict_block cm r else strict cm n :: strict_block cm r
    end
  with strict_ifs (cm : list N) (i : ifs) {struct i} : list enode :=
    match i with
    | INil => []
    | ICons _ c _ b r => ENode TClause [strict cm c; ENode TBlock (strict_block cm b)] :: strict_ifs cm r
    end.

  Definition prog (cm : list N) (b : block) : enode := ENode TBlock (strict_block cm b).


(* ------------------------------------------------------------------ canonical rendering *)
(* length-prefixed texts, so that the rendering is unambiguous *)
Definition r_txt (s : str) : str := N_dec (N.of_nat (length s)) ++ 58 :: s.
Definition r_tag (t : tag) : str :=
  match t with
  | TParen => s2l "P" | TArray c => if c then s2l "Ac" else s2l "A" | TDict => s2l "D"
  | TFunc n => s2l "F" ++ r_txt n | TMethod n => s2l "M" ++ r_txt n | TIndex => s2l "X"
  | TNot => s2l "Not" | TNeg => s2l "Neg" | TArith o => s2l "Ar" ++ r_txt o | TCmp o => s2l "Cmp" ++ r_txt o
  | TAnd => s2l "And" | TOr => s2l "Or" | TTern => s2l "T"
  | TAssign n => s2l "As" ++ r_txt n | TPlusAssign n => s2l "PAs" ++ r_txt n
  | TIf => s2l "If" | TClause => s2l "Cl" | TElse => s2l "El"
  | TForeach a b => s2l "Fe" ++ r_txt a ++ match b with Some v => r_txt v | None => s2l "-" end
  | TBlock => s2l "B" | TKw => s2l "K"
  end.
Definition r_atom (k : kind) : str :=
  match k with
  | KTrue => s2l "t" | KFalse => s2l "f" | KId => s2l "i" | KNum => s2l "n"
  | KContinue => s2l "c" | KBreak => s2l "b" | _ => s2l "?"
  end.
Fixpoint render (n : enode) : str :=
  match n with
  | EEmpty => s2l "E"
  | EAtom k s => r_atom k ++ r_txt s
  | EStr f m s => s2l "S" ++ bool_str f ++ bool_str m ++ r_txt s
  | ENode t ks => r_tag t ++ 91 :: concat (map (fun k => render k ++ [59]) ks) ++ [93]
  end.

(* ------------------------------------------------------------------ normal form *)

Definition is_kw (n : enode) : bool := match n with ENode TKw _ => true | _ => false end.
Definition is_array (n : enode) : bool := match n with ENode (TArray _) _ => true | _ => false end.

(* the arguments of files(X) once every "sole array argument" layer is removed *)
Fixpoint unwrap (n : enode) : list enode :=
  match n with
  | ENode (TArray _) kids =>
      match kids with
      | [m] => if is_array m then unwrap m else kids
      | _ => kids
      end
  | _ => [n]
  end.
Definition peel (ks : list enode) : list enode :=
  match ks with
  | [m] => if is_array m then unwrap m else ks
  | _ => ks
  end.

(* stable insertion sort; [before y x] = y must come strictly before x *)
Fixpoint insert_by (before : enode -> enode -> bool) (x : enode) (l : list enode) : list enode :=
  match l with
  | [] => [x]
  | y :: r => if before y x then y :: insert_by before x r else x :: l
  end.
Fixpoint isort_by (before : enode -> enode -> bool) (l : list enode) : list enode :=
  match l with
  | [] => []
  | x :: r => insert_by before x (isort_by before r)
  end.
(* An injective, prefix-decodable encoding of erased trees (unary length prefixes), used only as
   the key of a canonical order: comparing argument lists of files() as multisets.  NOT the
   formatter's order. *)
Definition c_txt (s : str) : str := map (fun _ => 1) s ++ 0 :: s.
Definition kind_code (k : kind) : N :=
  match k with
  | KWs => 1 | KMFStr => 2 | KFStr => 3 | KId => 4 | KNum => 5 | KMStr => 6 | KComment => 7 | KStr => 8
  | KPlusAssign => 9 | KEqual => 10 | KNEqual => 11 | KLe => 12 | KGe => 13
  | KEol => 14 | KLParen => 15 | KRParen => 16 | KLBracket => 17 | KRBracket => 18 | KLCurl => 19 | KRCurl => 20
  | KComma => 21 | KDot => 22 | KPlus => 23 | KDash => 24 | KStar => 25 | KPercent => 26 | KFSlash => 27
  | KColon => 28 | KAssign => 29 | KLt => 30 | KGt => 31 | KQuestion => 32
  | KTrue => 33 | KFalse => 34 | KIf => 35 | KElse => 36 | KElif => 37 | KEndif => 38 | KAnd => 39 | KOr => 40
  | KNot => 41 | KForeach => 42 | KEndforeach => 43 | KIn => 44 | KContinue => 45 | KBreak => 46 | KEof => 47
  end.
Definition bcode (b : bool) : N := if b then 1 else 0.
Definition tag_code (t : tag) : str :=
  match t with
  | TParen => [1] | TArray c => [2; bcode c] | TDict => [3]
  | TFunc n => 4 :: c_txt n | TMethod n => 5 :: c_txt n | TIndex => [6]
  | TNot => [7] | TNeg => [8] | TArith o => 9 :: c_txt o | TCmp o => 10 :: c_txt o
  | TAnd => [11] | TOr => [12] | TTern => [13]
  | TAssign n => 14 :: c_txt n | TPlusAssign n => 15 :: c_txt n
  | TIf => [16] | TClause => [17] | TElse => [18]
  | TForeach a b => 19 :: c_txt a ++ match b with Some v => 1 :: c_txt v | None => [0] end
  | TBlock => [20] | TKw => [21]
  end.
Fixpoint code (n : enode) : str :=
  match n with
  | EEmpty => [2]
  | EAtom k s => 3 :: kind_code k :: c_txt s
  | EStr f m s => 4 :: bcode f :: bcode m :: c_txt s
  | ENode t ks => 5 :: tag_code t ++ concat (map (fun k => 6 :: code k) ks) ++ [7]
  end.
Definition before_code (a b : enode) : bool :=
  match str_cmp (code a) (code b) with Lt => true | _ => false end.
(* with sort_files every argument of files() may move: compare them as a multiset *)
Definition canon_args (ks : list enode) : list enode := isort_by before_code ks.

Definition files_name : str := s2l "files".
Definition is_files (t : tag) : bool := match t with TFunc n => str_eqb n files_name | _ => false end.
Definition norm_tag (t : tag) : tag := match t with TArray _ => TArray false | _ => t end.

Definition norm_str (f multi : bool) (body : str) : enode :=
  let v := str_value multi body in EStr (f && has c_at v) true v.

Fixpoint norm (sort : bool) (n : enode) : enode :=
  match n with
  | EEmpty | EAtom _ _ => n
  | EStr f m b => norm_str f m b
  | ENode t kids =>
      let kids' := map (norm sort) kids in
      if is_files t then
        let p := peel kids' in ENode t (if sort then canon_args p else p)
      else ENode (norm_tag t) kids'
  end.

(* The acceptance relation on parse trees. *)
Definition same_program (sort : bool) (a b : block) : bool :=
  enode_eqb (norm sort (prog [] a)) (norm sort (prog [] b)).

(* ------------------------------------------------------------------ the declarative meaning
   "The same program" as the property words it: the least equivalence that is a congruence
   for every construct and contains the documented rewrites.
     Same_str     : two string literals that denote the same string, and agree on being an
                    f-string whenever the value contains an '@' (otherwise the f prefix is void);
     Same_layout  : where the comment after a '[' sits is layout;
     Same_flatten : files([...]) is files(...);
     Same_sorted  : with sort_files, the arguments of files() may be permuted. *)
Inductive Same (sort : bool) : enode -> enode -> Prop :=
| Same_refl n : Same sort n n
| Same_sym a b : Same sort a b -> Same sort b a
| Same_trans a b c : Same sort a b -> Same sort b c -> Same sort a c
| Same_ctx t pre a b post :
    Same sort a b -> Same sort (ENode t (pre ++ a :: post)) (ENode t (pre ++ b :: post))
| Same_str f1 m1 b1 f2 m2 b2 :
    str_value m1 b1 = str_value m2 b2 ->
    f1 && has c_at (str_value m1 b1) = f2 && has c_at (str_value m2 b2) ->
    Same sort (EStr f1 m1 b1) (EStr f2 m2 b2)
| Same_layout c1 c2 ks : Same sort (ENode (TArray c1) ks) (ENode (TArray c2) ks)
| Same_flatten c inner :
    Same sort (ENode (TFunc files_name) [ENode (TArray c) inner]) (ENode (TFunc files_name) inner)
| Same_sorted ks1 ks2 :
    sort = true -> Permutation ks1 ks2 ->
    Same sort (ENode (TFunc files_name) ks1) (ENode (TFunc files_name) ks2).

(* text -> erased tree, with the 'commented bracket' flags the formatter model needs *)
Definition parse_strict (s : str) : res enode :=
  match parse s with
  | Ok b =>
      let '(ts, _) := lex_prefix (length s) s init_lst in
      Ok (prog (commented_brackets ts) b)
  | Err p => Err p
  | Fuel => Fuel
  end.

(* ------------------------------------------------------------------ comments *)
(* The comments of a text, in order: every 'comment' token, and the comment inside a
   backslash continuation ("\ # c" + newline is one whitespace token).  Trailing blanks are
   whitespace, not comment (the formatter strips each line). *)
Fixpoint from_hash (s : str) : str :=
  match s with
  | [] => []
  | c :: r => if c =? c_hash then s else from_hash r
  end.
Definition comment_text (t : token) : option str :=
  match tk t with
  | KComment => Some (rstrip (ttext t))
  | KWs =>
      match ttext t with
      | c :: r => if (c =? c_bs) && has c_hash r then Some (rstrip (from_hash r)) else None
      | [] => None
      end
  | _ => None
  end.
Fixpoint comments_of (ts : list token) : list str :=
  match ts with
  | [] => []
  | t :: r => match comment_text t with Some c => c :: comments_of r | None => comments_of r end
  end.
Definition comments (s : str) : option (list str) :=
  match lex s with LOk ts => Some (comments_of ts) | LErr _ _ => None end.
