(* Syntax/Parser.v — executable model of mesonbuild/mparser.py:722-1130 (class Parser),
   on the stream of significant tokens (getsym folds 'whitespace' and 'comment' tokens
   into trivia; 'eol' is both trivia and a significant token).  Recursive descent with
   explicit fuel; every ParseException site carries its (lineno, colno).
   No proofs in this file. *)
From MV Require Export Syntax.Lexer.
Open Scope N_scope.

Definition pos := (N * N)%type.

Inductive node :=
| NEmpty (p : pos)
| NBool (t : token) | NId (t : token) | NNum (t : token) | NStr (t : token)
| NContinue (kw : token) (p : pos) | NBreak (kw : token) (p : pos)
| NParen (lp : token) (e : node) (rp : token)
| NArray (lb : token) (a : args) (commas : list token) (rb : token)
| NDict (lc : token) (a : args) (commas : list token) (rc : token)
| NFunc (name : token) (lp : token) (a : args) (commas : list token) (rp : token)
| NMethod (obj : node) (dot : token) (name : token) (lp : token) (a : args) (commas : list token) (rp : token)
| NIndex (obj : node) (lb : token) (idx : node) (rb : token)
| NNot (op : token) (p : pos) (e : node)
| NUMinus (op : token) (p : pos) (e : node)
| NArith (l : node) (op : token) (r : node)
| NCmp (l : node) (op : token) (r : node)
| NNotIn (l : node) (nt : token) (it : token) (r : node)
| NAnd (l : node) (op : token) (r : node)
| NOr (l : node) (op : token) (r : node)
| NTernary (c : node) (q : token) (t : node) (colon : token) (f : node)
| NAssign (name : token) (op : token) (v : node)
| NPlusAssign (name : token) (op : token) (v : node)
| NIf (i : ifs) (endif : token)
| NIfElse (i : ifs) (els eol : token) (b : block) (endif : token)
| NForeach (fe : token) (v1 : token) (cv2 : option (token * token)) (colon : token)
           (items : node) (b : block) (endfe : token)
(* arguments in source order *)
with args :=
| ANil
| APos (n : node) (r : args)
| AKw (k : node) (colon : token) (v : node) (r : args)
(* lines of a code block; each is followed by the 'eol' that was accepted after it, if any *)
with block :=
| BNil
| BLine (n : node) (eol : option token) (r : block)
with ifs :=
| INil
| ICons (kw : token) (cond : node) (eol : token) (b : block) (r : ifs).

Inductive res (A : Type) := Ok (a : A) | Err (p : pos) | Fuel.
Arguments Ok {A} a. Arguments Err {A} p. Arguments Fuel {A}.

Definition bind {A B} (r : res A) (f : A -> res B) : res B :=
  match r with Ok a => f a | Err p => Err p | Fuel => Fuel end.
Notation "x <- r ;; k" := (bind r (fun x => k)) (at level 61, r at next level, right associativity).
Notation "' p <- r ;; k" := (bind r (fun p => k)) (at level 61, p pattern, r at next level, right associativity).

(* parser state: remaining significant tokens, the lexer error (if the lexer failed,
   raised when the parser tries to fetch the token after the last good one), the eof
   token's position, in_ternary *)
Record pst := mkP { toks : list token; lexerr : option pos; eofp : pos; tern : bool }.

Definition eof_tok (st : pst) : token := mkTok KEof [] (fst (eofp st)) (snd (eofp st)) 0.
Definition cur (st : pst) : token := match toks st with t :: _ => t | [] => eof_tok st end.
Definition tpos (t : token) : pos := (tline t, tcol t).
Definition curpos (st : pst) : pos := tpos (cur st).

(* getsym after accepting the current token *)
Definition advance (st : pst) : res pst :=
  match toks st with
  | [] => Ok st
  | [_] => match lexerr st with
           | Some p => Err p
           | None => Ok (mkP [] None (eofp st) (tern st))
           end
  | _ :: r => Ok (mkP r (lexerr st) (eofp st) (tern st))
  end.

(* accept(s): Some (accepted token, new state) | None *)
Definition accept (k : kind) (st : pst) : res (option (token * pst)) :=
  if kind_beq (tk (cur st)) k then st' <- advance st ;; Ok (Some (cur st, st'))
  else Ok None.

Definition expect (k : kind) (st : pst) : res (token * pst) :=
  o <- accept k st ;;
  match o with Some x => Ok x | None => Err (curpos st) end.

Definition set_tern (b : bool) (st : pst) : pst := mkP (toks st) (lexerr st) (eofp st) b.

(* BaseNode.lineno/colno of each node class *)
Fixpoint npos (n : node) : pos :=
  match n with
  | NEmpty p => p
  | NBool t | NId t | NNum t | NStr t => tpos t
  | NContinue _ p | NBreak _ p => p
  | NParen lp _ _ => tpos lp
  | NArray lb _ _ _ => tpos lb
  | NDict lc _ _ _ => tpos lc
  | NFunc name _ _ _ _ => tpos name
  | NMethod _ _ name _ _ _ _ => tpos name
  | NIndex obj _ _ _ => npos obj
  | NNot _ p _ | NUMinus _ p _ => p
  | NArith l _ _ | NCmp l _ _ | NNotIn l _ _ _ | NAnd l _ _ | NOr l _ _ => npos l
  | NTernary c _ _ _ _ => npos c
  | NAssign name _ _ | NPlusAssign name _ _ => tpos name
  | NIf i _ | NIfElse i _ _ _ _ =>
      match i with ICons _ c _ _ _ => npos c | INil => (0, 0) end
  | NForeach fe _ _ _ _ _ _ => tpos fe
  end.

Definition is_empty (n : node) : bool := match n with NEmpty _ => true | _ => false end.
Definition is_id (n : node) : option token := match n with NId t => Some t | _ => None end.
Definition is_num (n : node) : bool := match n with NNum _ => true | _ => false end.

Definition cmp_kind (k : kind) : bool :=
  match k with KEqual | KNEqual | KLt | KLe | KGt | KGe | KIn => true | _ => false end.
Definition addsub_kind (k : kind) : bool := match k with KPlus | KDash => true | _ => false end.
Definition muldiv_kind (k : kind) : bool := match k with KPercent | KStar | KFSlash => true | _ => false end.
Definition string_kind (k : kind) : bool := match k with KStr | KFStr | KMStr | KMFStr => true | _ => false end.

(* accept_any(tids) *)
Definition accept_any (p : kind -> bool) (st : pst) : res (option (token * pst)) :=
  if p (tk (cur st)) then st' <- advance st ;; Ok (Some (cur st, st')) else Ok None.

(* append to the end of an args list *)
Fixpoint args_snoc_pos (a : args) (n : node) : args :=
  match a with
  | ANil => APos n ANil
  | APos m r => APos m (args_snoc_pos r n)
  | AKw k c v r => AKw k c v (args_snoc_pos r n)
  end.
Fixpoint args_snoc_kw (a : args) (k : node) (c : token) (v : node) : args :=
  match a with
  | ANil => AKw k c v ANil
  | APos m r => APos m (args_snoc_kw r k c v)
  | AKw k' c' v' r => AKw k' c' v' (args_snoc_kw r k c v)
  end.
Fixpoint ifs_snoc (i : ifs) (kw : token) (c : node) (eol : token) (b : block) : ifs :=
  match i with
  | INil => ICons kw c eol b INil
  | ICons kw' c' e' b' r => ICons kw' c' e' b' (ifs_snoc r kw c eol b)
  end.
Fixpoint block_snoc (bl : block) (n : node) (eol : option token) : block :=
  match bl with
  | BNil => BLine n eol BNil
  | BLine m e r => BLine m e (block_snoc r n eol)
  end.


(* NumberNode.__init__: int(value, base=0) raises ValueError for a decimal literal of more
   than 4300 digits (Python's int/str conversion limit); e10 turns it into a ParseException. *)
Definition num_too_long (txt : str) : bool :=
  match txt with
  | c :: x :: _ =>
      if (c =? 48) && negb (is_digit x) then false   (* 0b / 0o / 0x forms: no limit *)
      else 4300 <? N.of_nat (length txt)
  | _ => false
  end.

Fixpoint hex_val (s : str) (acc : N) : N :=
  match s with
  | [] => acc
  | c :: r =>
      let d := if is_digit c then c - 48 else if (97 <=? c) then c - 87 else c - 55 in
      hex_val r (acc * 16 + d)
  end.
Definition all_hex (s : str) : bool := forallb is_hex s.

(* StringNode.escape(): ESCAPE_SEQUENCE_SINGLE_RE.sub(decode_match, raw_value).  The only
   modelled way for decode_match to raise is a \U escape above 0x10FFFF (unknown \N{name}
   escapes are outside the model).  [skip] characters belong to an escape already matched. *)
Fixpoint bad_escape (skip : nat) (s : str) : bool :=
  match s with
  | [] => false
  | c :: r =>
      match skip with
      | S k => bad_escape k r
      | O =>
          if c =? c_bs then
            match r with
            | x :: r' =>
                if (x =? 85) && Nat.eqb (length (firstn 8 r')) 8 && all_hex (firstn 8 r') then
                  if 1114111 <? hex_val (firstn 8 r') 0 then true else bad_escape 9 r
                else if (x =? 117) && Nat.eqb (length (firstn 4 r')) 4 && all_hex (firstn 4 r') then bad_escape 5 r
                else if (x =? 120) && Nat.eqb (length (firstn 2 r')) 2 && all_hex (firstn 2 r') then bad_escape 3 r
                else if is_oct x then bad_escape (Nat.min 3 (span is_oct r)) r
                else if memb x [92; 39; 97; 98; 102; 110; 114; 116; 118] then bad_escape 1 r
                else bad_escape 0 r
            | [] => false
            end
          else bad_escape 0 r
      end
  end.
Definition str_body (k : kind) (txt : str) : str :=
  match k with
  | KStr => removelast (drop 1 txt)
  | KFStr => removelast (drop 2 txt)
  | _ => []
  end.
Definition str_invalid (t : token) : bool := bad_escape 0 (str_body (tk t) (ttext t)).

Record parsers := mkParsers {
  p_e1 : pst -> res (node * pst);
  p_e2 : pst -> res (node * pst);
  p_or_loop : node -> pst -> res (node * pst);
  p_e3 : pst -> res (node * pst);
  p_and_loop : node -> pst -> res (node * pst);
  p_e4 : pst -> res (node * pst);
  p_e5 : pst -> res (node * pst);
  p_add_loop : node -> pst -> res (node * pst);
  p_e6 : pst -> res (node * pst);
  p_mul_loop : node -> pst -> res (node * pst);
  p_e7 : pst -> res (node * pst);
  p_e8 : pst -> res (node * pst);
  p_postfix_loop : node -> pst -> res (node * pst);
  p_method_call : node -> token -> pst -> res (node * pst);
  p_e9 : pst -> res (node * pst);
  p_e10 : pst -> res (node * pst);
  p_key_values : pst -> res (args * list token * pst);
  p_kv_loop : node -> args -> (list token) -> pst -> res (args * list token * pst);
  p_args_ : pst -> res (args * list token * pst);
  p_args_loop : node -> args -> (list token) -> pst -> res (args * list token * pst);
  p_line : pst -> res (node * pst);
  p_elif_loop : ifs -> pst -> res (ifs * pst);
  p_codeblock : pst -> res (block * pst);
  p_block_loop : block -> pst -> res (block * pst) }.

Definition fuel_parsers : parsers :=
  mkParsers
    (fun _ => Fuel)
    (fun _ => Fuel)
    (fun _ _ => Fuel)
    (fun _ => Fuel)
    (fun _ _ => Fuel)
    (fun _ => Fuel)
    (fun _ => Fuel)
    (fun _ _ => Fuel)
    (fun _ => Fuel)
    (fun _ _ => Fuel)
    (fun _ => Fuel)
    (fun _ => Fuel)
    (fun _ _ => Fuel)
    (fun _ _ _ => Fuel)
    (fun _ => Fuel)
    (fun _ => Fuel)
    (fun _ => Fuel)
    (fun _ _ _ _ => Fuel)
    (fun _ => Fuel)
    (fun _ _ _ _ => Fuel)
    (fun _ => Fuel)
    (fun _ _ => Fuel)
    (fun _ => Fuel)
    (fun _ _ => Fuel).

Definition step (p : parsers) : parsers :=
  mkParsers
  (* e1 *)
  (fun st =>
    '(lhs, st) <- p_e2 p st ;;
    o <- accept KPlusAssign st ;;
    match o with
    | Some (op, st) =>
        '(value, st) <- p_e1 p st ;;
        match is_id lhs with
        | Some name => Ok (NPlusAssign name op value, st)
        | None => Err (npos lhs)
        end
    | None =>
    o <- accept KAssign st ;;
    match o with
    | Some (op, st) =>
        '(value, st) <- p_e1 p st ;;
        match is_id lhs with
        | Some name => Ok (NAssign name op value, st)
        | None => Err (npos lhs)
        end
    | None =>
    o <- accept KQuestion st ;;
    match o with
    | Some (q, st) =>
        if tern st then Err (npos lhs) else
        '(tb, st) <- p_e1 p (set_tern true st) ;;
        '(colon, st) <- expect KColon st ;;
        '(fb, st) <- p_e1 p st ;;
        Ok (NTernary lhs q tb colon fb, set_tern false st)
    | None => Ok (lhs, st)
    end end end)
  (* e2 *)
  (fun st =>
    '(lhs, st) <- p_e3 p st ;; p_or_loop p lhs st)
  (* or_loop *)
  (fun lhs st =>
    o <- accept KOr st ;;
    match o with
    | Some (op, st) =>
        if is_empty lhs then Err (npos lhs) else
        '(r, st) <- p_e3 p st ;; p_or_loop p (NOr lhs op r) st
    | None => Ok (lhs, st)
    end)
  (* e3 *)
  (fun st =>
    '(lhs, st) <- p_e4 p st ;; p_and_loop p lhs st)
  (* and_loop *)
  (fun lhs st =>
    o <- accept KAnd st ;;
    match o with
    | Some (op, st) =>
        if is_empty lhs then Err (npos lhs) else
        '(r, st) <- p_e4 p st ;; p_and_loop p (NAnd lhs op r) st
    | None => Ok (lhs, st)
    end)
  (* e4 *)
  (fun st =>
    '(lhs, st) <- p_e5 p st ;;
    o <- accept_any cmp_kind st ;;
    match o with
    | Some (op, st) => '(r, st) <- p_e5 p st ;; Ok (NCmp lhs op r, st)
    | None =>
    o <- accept KNot st ;;
    match o with
    | Some (nt, st) =>
        o <- accept KIn st ;;
        match o with
        | Some (it, st) => '(r, st) <- p_e5 p st ;; Ok (NNotIn lhs nt it r, st)
        | None => Err (curpos st)   (* after the fix: a 'not' that is not followed by 'in' is rejected *)
        end
    | None => Ok (lhs, st)
    end end)
  (* e5 *)
  (fun st =>
    '(lhs, st) <- p_e6 p st ;; p_add_loop p lhs st)
  (* add_loop *)
  (fun lhs st =>
    o <- accept_any addsub_kind st ;;
    match o with
    | Some (op, st) => '(r, st) <- p_e6 p st ;; p_add_loop p (NArith lhs op r) st
    | None => Ok (lhs, st)
    end)
  (* e6 *)
  (fun st =>
    '(lhs, st) <- p_e7 p st ;; p_mul_loop p lhs st)
  (* mul_loop *)
  (fun lhs st =>
    o <- accept_any muldiv_kind st ;;
    match o with
    | Some (op, st) => '(r, st) <- p_e7 p st ;; p_mul_loop p (NArith lhs op r) st
    | None => Ok (lhs, st)
    end)
  (* e7 *)
  (fun st =>
    o <- accept KNot st ;;
    match o with
    | Some (op, st) => '(e, st') <- p_e8 p st ;; Ok (NNot op (curpos st) e, st')
    | None =>
    o <- accept KDash st ;;
    match o with
    | Some (op, st) => '(e, st') <- p_e8 p st ;; Ok (NUMinus op (curpos st) e, st')
    | None => p_e8 p st
    end end)
  (* e8 *)
  (fun st =>
    '(lhs, st) <- p_e9 p st ;;
    o <- accept KLParen st ;;
    match o with
    | Some (lp, st) =>
        '(a, cms, st) <- p_args_ p st ;;
        '(rp, st) <- expect KRParen st ;;
        match is_id lhs with
        | Some name => p_postfix_loop p (NFunc name lp a cms rp) st
        | None => Err (npos lhs)
        end
    | None => p_postfix_loop p lhs st
    end)
  (* postfix_loop *)
  (fun lhs st =>
    o <- accept KDot st ;;
    match o with
    | Some (dot, st) => '(m, st) <- p_method_call p lhs dot st ;; p_postfix_loop p m st
    | None =>
    o <- accept KLBracket st ;;
    match o with
    | Some (lb, st) =>
        '(idx, st) <- p_e1 p st ;;
        '(rb, st) <- expect KRBracket st ;;
        p_postfix_loop p (NIndex lhs lb idx rb) st
    | None => Ok (lhs, st)
    end end)
  (* method_call *)
  (fun obj dot st =>
    '(mn, st) <- p_e10 p st ;;
    match is_id mn with
    | None => if is_num obj && is_num mn then Err (npos obj) else Err (curpos st)
    | Some name =>
        '(lp, st) <- expect KLParen st ;;
        '(a, cms, st) <- p_args_ p st ;;
        '(rp, st) <- expect KRParen st ;;
        let m := NMethod obj dot name lp a cms rp in
        o <- accept KDot st ;;
        match o with
        | Some (dot', st) => p_method_call p m dot' st
        | None => Ok (m, st)
        end
    end)
  (* e9 *)
  (fun st =>
    o <- accept KLParen st ;;
    match o with
    | Some (lp, st) =>
        '(e, st) <- p_e1 p st ;;
        '(rp, st) <- expect KRParen st ;;
        Ok (NParen lp e rp, st)
    | None =>
    o <- accept KLBracket st ;;
    match o with
    | Some (lb, st) =>
        '(a, cms, st) <- p_args_ p st ;;
        '(rb, st) <- expect KRBracket st ;;
        Ok (NArray lb a cms rb, st)
    | None =>
    o <- accept KLCurl st ;;
    match o with
    | Some (lc, st) =>
        '(a, cms, st) <- p_key_values p st ;;
        '(rc, st) <- expect KRCurl st ;;
        Ok (NDict lc a cms rc, st)
    | None => p_e10 p st
    end end end)
  (* e10 *)
  (fun st =>
    let t := cur st in
    match tk t with
    | KTrue | KFalse => st' <- advance st ;; Ok (NBool t, st')
    | KId => st' <- advance st ;; Ok (NId t, st')
    | KNum => st' <- advance st ;; if num_too_long (ttext t) then Err (tpos t) else Ok (NNum t, st')
    | KStr | KFStr | KMStr | KMFStr =>
        st' <- advance st ;; if str_invalid t then Err (tpos t) else Ok (NStr t, st')
    | _ => Ok (NEmpty (curpos st), st)
    end)
  (* key_values *)
  (fun st =>
    '(s, st) <- p_e1 p st ;; p_kv_loop p s ANil [] st)
  (* kv_loop *)
  (fun s a cms st =>
    if is_empty s then Ok (a, cms, st) else
    o <- accept KColon st ;;
    match o with
    | Some (colon, st) =>
        '(v, st) <- p_e1 p st ;;
        let a := args_snoc_kw a s colon v in
        o <- accept KComma st ;;
        match o with
        | None => Ok (a, cms, st)
        | Some (cm, st) => '(s, st) <- p_e1 p st ;; p_kv_loop p s a (cms ++ [cm]) st
        end
    | None => Err (npos s)
    end)
  (* args_ *)
  (fun st =>
    '(s, st) <- p_e1 p st ;; p_args_loop p s ANil [] st)
  (* args_loop *)
  (fun s a cms st =>
    if is_empty s then Ok (a, cms, st) else
    o <- accept KComma st ;;
    match o with
    | Some (cm, st) =>
        '(s', st) <- p_e1 p st ;; p_args_loop p s' (args_snoc_pos a s) (cms ++ [cm]) st
    | None =>
    o <- accept KColon st ;;
    match o with
    | Some (colon, st) =>
        match is_id s with
        | None => Err (npos s)
        | Some _ =>
            '(v, st) <- p_e1 p st ;;
            let a := args_snoc_kw a s colon v in
            o <- accept KComma st ;;
            match o with
            | None => Ok (a, cms, st)
            | Some (cm, st) => '(s', st) <- p_e1 p st ;; p_args_loop p s' a (cms ++ [cm]) st
            end
        end
    | None => Ok (args_snoc_pos a s, cms, st)
    end end)
  (* line *)
  (fun st =>
    if kind_beq (tk (cur st)) KEol then Ok (NEmpty (curpos st), st) else
    o <- accept KIf st ;;
    match o with
    | Some (kw, st) =>
        '(cond, st) <- p_e1 p st ;;
        '(eol, st) <- expect KEol st ;;
        '(b, st) <- p_codeblock p st ;;
        '(i, st) <- p_elif_loop p (ICons kw cond eol b INil) st ;;
        o <- accept KElse st ;;
        match o with
        | Some (els, st) =>
            '(eol2, st) <- expect KEol st ;;
            '(b2, st) <- p_codeblock p st ;;
            '(endif, st) <- expect KEndif st ;;
            Ok (NIfElse i els eol2 b2 endif, st)
        | None =>
            '(endif, st) <- expect KEndif st ;;
            Ok (NIf i endif, st)
        end
    | None =>
    o <- accept KForeach st ;;
    match o with
    | Some (fe, st) =>
        '(v1, st) <- expect KId st ;;
        o <- accept KComma st ;;
        '(cv2, st) <- match o with
                      | Some (cm, st) => '(v2, st) <- expect KId st ;; Ok (Some (cm, v2), st)
                      | None => Ok (None, st)
                      end ;;
        '(colon, st) <- expect KColon st ;;
        '(items, st) <- p_e1 p st ;;
        '(b, st) <- p_codeblock p st ;;
        '(endfe, st) <- expect KEndforeach st ;;
        Ok (NForeach fe v1 cv2 colon items b endfe, st)
    | None =>
    o <- accept KContinue st ;;
    match o with
    | Some (kw, st) => Ok (NContinue kw (curpos st), st)
    | None =>
    o <- accept KBreak st ;;
    match o with
    | Some (kw, st) => Ok (NBreak kw (curpos st), st)
    | None => p_e1 p st
    end end end end)
  (* elif_loop *)
  (fun i st =>
    o <- accept KElif st ;;
    match o with
    | Some (kw, st) =>
        '(s, st) <- p_e1 p st ;;
        '(eol, st) <- expect KEol st ;;
        '(b, st) <- p_codeblock p st ;;
        p_elif_loop p (ifs_snoc i kw s eol b) st
    | None => Ok (i, st)
    end)
  (* codeblock *)
  (fun st =>
    p_block_loop p BNil st)
  (* block_loop *)
  (fun bl st =>
    '(l, st) <- p_line p st ;;
    o <- accept KEol st ;;
    match o with
    | Some (eol, st) => p_block_loop p (block_snoc bl l (Some eol)) st
    | None => Ok (block_snoc bl l None, st)
    end).

Fixpoint P (n : nat) : parsers := match n with O => fuel_parsers | S n => step (P n) end.

(* Parser.parse *)
Definition parse_tokens (fuel : nat) (st : pst) : res block :=
  '(b, st) <- p_codeblock (P fuel) st ;;
  '(_, _) <- expect KEof st ;;
  Ok b.

Definition is_trivia (k : kind) : bool := match k with KWs | KComment => true | _ => false end.
Definition significant (ts : list token) : list token := filter (fun t => negb (is_trivia (tk t))) ts.

(* position of the 'eof' token: (lineno, colno + length) of the last raw token, (0,0) if none *)
Definition eof_pos (ts : list token) : pos :=
  match rev ts with
  | [] => (0, 0)
  | t :: _ => (tline t, tcol t + N.of_nat (length (ttext t)))
  end.

Definition parser_fuel (ntoks : nat) : nat := (30 * ntoks + 60)%nat.

(* Parser(code).parse(): the lexer runs lazily, one significant token ahead *)
Definition parse (s : str) : res block :=
  match s with
  | c :: _ => if c =? c_bom then Err (0, 0) else
      let '(ts, e) := lex_prefix (length s) s init_lst in
      let sig := significant ts in
      match sig, e with
      | [], Some p => Err p      (* the very first getsym() fails *)
      | _, _ => parse_tokens (parser_fuel (length sig)) (mkP sig e (eof_pos ts) false)
      end
  | [] => parse_tokens (parser_fuel 0) (mkP [] None (0, 0) false)
  end.
