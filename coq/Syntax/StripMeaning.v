(* Syntax/StripMeaning.v — what "equal up to redundant parentheses" means: every evaluator
   that is defined by structural recursion on the tree and gives a parenthesized node the
   value of its inner node assigns equal values to trees with equal [strip_parens].
   (V can be a function type: environments, short-circuit operators and error results are
   covered.) *)
From MV Require Import Base.Strs Syntax.AstPrint.

Section Eval.
  Variables V VL VK VD : Type.
  Variables (fbool : bool -> V) (fid : str -> V) (fnum : N -> V) (fstr : bool -> bool -> str -> V)
            (farr : VL -> VK -> V) (fdict : VD -> V) (ffunc : str -> VL -> VK -> V)
            (fmeth : V -> str -> VL -> VK -> V) (fidx : V -> V -> V) (fnot fneg : V -> V)
            (far : arith -> V -> V -> V) (fcmp : cmpop -> V -> V -> V) (fand forr : V -> V -> V)
            (ftern : V -> V -> V -> V) (fnon : V)
            (lnil : VL) (lcons : V -> VL -> VL) (knil : VK) (kcons : str -> V -> VK -> VK)
            (dnil : VD) (dcons : V -> V -> VD -> VD).

  Fixpoint ev (e : expr) : V :=
    match e with
    | EBool b => fbool b
    | EId s => fid s
    | ENum n => fnum n
    | EStr f m v => fstr f m v
    | EParen x => ev x
    | EArray a k => farr (ev_l a) (ev_k k)
    | EDict d => fdict (ev_d d)
    | EFunc name a k => ffunc name (ev_l a) (ev_k k)
    | EMethod obj name a k => fmeth (ev obj) name (ev_l a) (ev_k k)
    | EIndex obj idx => fidx (ev obj) (ev idx)
    | ENot x => fnot (ev x)
    | ENeg x => fneg (ev x)
    | EArith op l r => far op (ev l) (ev r)
    | ECmp op l r => fcmp op (ev l) (ev r)
    | EAnd l r => fand (ev l) (ev r)
    | EOr l r => forr (ev l) (ev r)
    | ETern c t f => ftern (ev c) (ev t) (ev f)
    | ENonExpr => fnon
    end
  with ev_l (a : elist) : VL := match a with LNil => lnil | LCons e r => lcons (ev e) (ev_l r) end
  with ev_k (k : kwlist) : VK := match k with KNil => knil | KCons key v r => kcons key (ev v) (ev_k r) end
  with ev_d (d : dlist) : VD := match d with DNil => dnil | DCons k v r => dcons (ev k) (ev v) (ev_d r) end.

  Scheme expr_mut' := Induction for expr Sort Prop
  with elist_mut' := Induction for elist Sort Prop
  with kwlist_mut' := Induction for kwlist Sort Prop
  with dlist_mut' := Induction for dlist Sort Prop.
  Combined Scheme expr_mutind' from expr_mut', elist_mut', kwlist_mut', dlist_mut'.

  Lemma ev_strip_all :
    (forall e, ev (strip_parens e) = ev e) /\ (forall a, ev_l (strip_l a) = ev_l a) /\
    (forall k, ev_k (strip_k k) = ev_k k) /\ (forall d, ev_d (strip_d d) = ev_d d).
  Proof.
    apply expr_mutind'; intros; cbn [strip_parens strip_l strip_k strip_d ev ev_l ev_k ev_d]; congruence.
  Qed.

  Theorem strip_equal_eval e1 e2 : strip_parens e1 = strip_parens e2 -> ev e1 = ev e2.
  Proof.
    intros H. destruct ev_strip_all as [A _]. rewrite <- (A e1), <- (A e2), H. reflexivity.
  Qed.
End Eval.
