(* Syntax/Entry.v — entry points for the C02 correspondence. *)
From MV Require Import Base.Strs Syntax.Lexer Syntax.Parser Syntax.Render Syntax.Yield
  Syntax.Trivia Syntax.RawPrint Syntax.TriviaRender.
Open Scope N_scope.

Definition run (fn : str) (args : list str) : str :=
  match args with
  | [code] =>
      if str_eqb fn (s2l "lex") then r_lex (lex code)
      else if str_eqb fn (s2l "parse") then r_res (parse code)
      else if str_eqb fn (s2l "order_error") then
        match parse code with Ok b => bool_str (negb (order_ok_block b)) | _ => s2l "-" end
      (* the trivia-annotated tree (which node every whitespace/comment/eol token is attached
         to) and the text RawPrinter produces from it *)
      else if str_eqb fn (s2l "trivia") then r_tres (parse_with_trivia code)
      else s2l "?"
  | _ => s2l "?"
  end.
