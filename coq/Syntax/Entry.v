(* Syntax/Entry.v — entry points for the C02 correspondence. *)
From MV Require Import Base.Strs Syntax.Lexer Syntax.Parser Syntax.Render Syntax.Yield.
Open Scope N_scope.

Definition run (fn : str) (args : list str) : str :=
  match args with
  | [code] =>
      if str_eqb fn (s2l "lex") then r_lex (lex code)
      else if str_eqb fn (s2l "parse") then r_res (parse code)
      else if str_eqb fn (s2l "order_error") then
        match parse code with Ok b => bool_str (negb (order_ok_block b)) | _ => s2l "-" end
      else s2l "?"
  | _ => s2l "?"
  end.
