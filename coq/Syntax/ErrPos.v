(* Syntax/ErrPos.v — every ParseException carries the position of a token of the input,
   of the end of input, or of the lexer error: the parser never invents a position. *)
From MV Require Import Base.Strs Syntax.Lexer Syntax.Parser Syntax.Yield Syntax.ParserFacts.
From Coq Require Import Lia.
Open Scope N_scope.

(* the positions a parser state knows about *)
Definition PS (st : pst) (q : pos) : Prop :=
  In q (map tpos (toks st)) \/ q = eofp st \/ lexerr st = Some q.

Section Univ.
  Variable U : pos -> Prop.
  Definition inU (st : pst) : Prop := forall q, PS st q -> U q.

  Lemma curpos_U st : inU st -> U (curpos st).
  Proof.
    intro H. apply H. unfold curpos, cur, PS. destruct (toks st) as [|t r]; simpl.
    - right. left. unfold tpos, eof_tok. simpl. destruct (eofp st). reflexivity.
    - left. left. reflexivity.
  Qed.
  Lemma cur_U st : inU st -> U (tpos (cur st)).
  Proof. apply curpos_U. Qed.

  Lemma advance_U st : inU st ->
    (forall st', advance st = Ok st' -> inU st') /\ (forall p, advance st = Err p -> U p).
  Proof.
    intro H. unfold advance. destruct (toks st) as [|t [|t2 r]] eqn:T; split; try discriminate.
    - intros st' E; inversion E; subst. exact H.
    - destruct (lexerr st) as [q0|] eqn:L; [discriminate|]. intros st' E; inversion E; subst.
      intros q [Hq|[Hq|Hq]]; simpl in *; try contradiction; try discriminate.
      apply H. right. left. exact Hq.
    - destruct (lexerr st) as [q0|] eqn:L; [|discriminate]. intros p E; inversion E; subst.
      apply H. right. right. exact L.
    - intros st' E; inversion E; subst. intros q [Hq|[Hq|Hq]]; simpl in *; apply H.
      + left. rewrite T. simpl. right. exact Hq.
      + right. left. exact Hq.
      + right. right. exact Hq.
  Qed.

  Lemma accept_U k st : inU st ->
    (forall t st', accept k st = Ok (Some (t, st')) -> U (tpos t) /\ inU st') /\
    (forall p, accept k st = Err p -> U p).
  Proof.
    intro H. unfold accept. destruct (kind_beq (tk (cur st)) k); [|split; discriminate].
    destruct (advance_U st H) as [A B].
    destruct (advance st) as [st1|q|] eqn:E; cbn; split; try discriminate.
    - intros t st' X; inversion X; subst. split; [apply cur_U; exact H | apply A; reflexivity].
    - intros p X; inversion X; subst. apply B. reflexivity.
  Qed.
  Lemma accept_any_U f st : inU st ->
    (forall t st', accept_any f st = Ok (Some (t, st')) -> U (tpos t) /\ inU st') /\
    (forall p, accept_any f st = Err p -> U p).
  Proof.
    intro H. unfold accept_any. destruct (f (tk (cur st))); [|split; discriminate].
    destruct (advance_U st H) as [A B].
    destruct (advance st) as [st1|q|] eqn:E; cbn; split; try discriminate.
    - intros t st' X; inversion X; subst. split; [apply cur_U; exact H | apply A; reflexivity].
    - intros p X; inversion X; subst. apply B. reflexivity.
  Qed.
  Lemma expect_U k st : inU st ->
    (forall t st', expect k st = Ok (t, st') -> U (tpos t) /\ inU st') /\
    (forall p, expect k st = Err p -> U p).
  Proof.
    intro H. unfold expect. destruct (accept_U k st H) as [A B].
    destruct (accept k st) as [[[t1 st1]|]|q|] eqn:E; cbn; split; try discriminate.
    - intros t st' X; inversion X; subst. apply A. reflexivity.
    - intros p X; inversion X; subst. apply curpos_U. exact H.
    - intros p X; inversion X; subst. apply B. reflexivity.
  Qed.
  Lemma inU_set_tern b st : inU (set_tern b st) <-> inU st.
  Proof. unfold inU, PS, set_tern. cbn. tauto. Qed.

  (* outcome specifications *)
  Definition out1 {A} (good : A -> Prop) (r : res (A * pst)) : Prop :=
    match r with
    | Ok (a, st') => good a /\ inU st'
    | Err p => U p
    | Fuel => True
    end.
  Definition gnode (n : node) : Prop := U (npos n).
  Definition gany {A} (_ : A) : Prop := True.

  Definition q_node (f : pst -> res (node * pst)) : Prop := forall st, inU st -> out1 gnode (f st).
  Definition q_loop (f : node -> pst -> res (node * pst)) : Prop :=
    forall l st, gnode l -> inU st -> out1 gnode (f l st).
  Definition q_meth (f : node -> token -> pst -> res (node * pst)) : Prop :=
    forall o d st, gnode o -> inU st -> out1 gnode (f o d st).
  Definition q_args (f : pst -> res (args * list token * pst)) : Prop :=
    forall st, inU st -> out1 gany (f st).
  Definition q_args_loop (f : node -> args -> list token -> pst -> res (args * list token * pst)) : Prop :=
    forall s a c st, gnode s -> inU st -> out1 gany (f s a c st).
  Definition q_line (f : pst -> res (node * pst)) : Prop := forall st, inU st -> out1 gany (f st).
  Definition q_ifs (f : ifs -> pst -> res (ifs * pst)) : Prop := forall i st, inU st -> out1 gany (f i st).
  Definition q_block (f : pst -> res (block * pst)) : Prop := forall st, inU st -> out1 gany (f st).
  Definition q_block_loop (f : block -> pst -> res (block * pst)) : Prop :=
    forall b st, inU st -> out1 gany (f b st).

  Record all_q (p : parsers) : Prop := {
    q_e1 : q_node (p_e1 p); q_e2 : q_node (p_e2 p); q_or : q_loop (p_or_loop p);
    q_e3 : q_node (p_e3 p); q_and : q_loop (p_and_loop p); q_e4 : q_node (p_e4 p);
    q_e5 : q_node (p_e5 p); q_add : q_loop (p_add_loop p); q_e6 : q_node (p_e6 p);
    q_mul : q_loop (p_mul_loop p); q_e7 : q_node (p_e7 p); q_e8 : q_node (p_e8 p);
    q_post : q_loop (p_postfix_loop p); q_mc : q_meth (p_method_call p);
    q_e9 : q_node (p_e9 p); q_e10 : q_node (p_e10 p);
    q_kv : q_args (p_key_values p); q_kvl : q_args_loop (p_kv_loop p);
    q_ar : q_args (p_args_ p); q_arl : q_args_loop (p_args_loop p);
    q_ln : q_line (p_line p); q_el : q_ifs (p_elif_loop p);
    q_cb : q_block (p_codeblock p); q_bl : q_block_loop (p_block_loop p) }.

  Lemma bind_assoc {A B C} (r : res A) (f : A -> res B) (g : B -> res C) :
    bind (bind r f) g = bind r (fun x => bind (f x) g).
  Proof. destruct r; reflexivity. Qed.
  Lemma out1_weaken {A} (g : A -> Prop) (r : res (A * pst)) : out1 g r -> out1 gany r.
  Proof. unfold out1, gany. destruct r as [[a st']| |]; tauto. Qed.

  Lemma is_id_npos n t : is_id n = Some t -> npos n = tpos t.
  Proof. destruct n; simpl; try discriminate. intro H; inversion H; reflexivity. Qed.

  (* One step of symbolic execution of the monadic code: find the next call in the goal's
     scrutinee, use its specification, and continue in every outcome. *)
  Ltac use_spec p Hp :=
    match goal with
    | |- out1 _ (bind (accept ?k ?st) _) =>
        let A := fresh "A" in let B := fresh "B" in
        destruct (accept_U k st ltac:(assumption)) as [A B];
        destruct (accept k st) as [[[? ?]|]| ? |] eqn:?; cbn [bind];
        [ destruct (A _ _ eq_refl) | | exact (B _ eq_refl) | exact I ]; clear A B
    | |- out1 _ (bind (accept_any ?k ?st) _) =>
        let A := fresh "A" in let B := fresh "B" in
        destruct (accept_any_U k st ltac:(assumption)) as [A B];
        destruct (accept_any k st) as [[[? ?]|]| ? |] eqn:?; cbn [bind];
        [ destruct (A _ _ eq_refl) | | exact (B _ eq_refl) | exact I ]; clear A B
    | |- out1 _ (bind (expect ?k ?st) _) =>
        let A := fresh "A" in let B := fresh "B" in
        destruct (expect_U k st ltac:(assumption)) as [A B];
        destruct (expect k st) as [[? ?]| ? |] eqn:?; cbn [bind];
        [ destruct (A _ _ eq_refl) | exact (B _ eq_refl) | exact I ]; clear A B
    | |- out1 _ (bind (advance ?st) _) =>
        let A := fresh "A" in let B := fresh "B" in
        destruct (advance_U st ltac:(assumption)) as [A B];
        destruct (advance st) as [?| ? |] eqn:?; cbn [bind];
        [ pose proof (A _ eq_refl) | exact (B _ eq_refl) | exact I ]; clear A B
    end.

  Ltac call_spec H :=
    let X := fresh "X" in
    pose proof H as X; unfold out1 in X;
    match type of X with
    | match ?r with _ => _ end =>
        destruct r as [[? ?]| ? |] eqn:?; cbn [bind];
        [ destruct X | exact X | exact I ]
    end.
  Ltac call_spec3 H :=
    let X := fresh "X" in
    pose proof H as X; unfold out1 in X;
    match type of X with
    | match ?r with _ => _ end =>
        destruct r as [[[? ?] ?]| ? |] eqn:?; cbn [bind];
        [ destruct X | exact X | exact I ]
    end.

  Ltac step_goal p Hp :=
    rewrite ?inU_set_tern in *; rewrite ?bind_assoc;
    match goal with
    | |- out1 _ (bind (p_e1 p ?st) _) => call_spec (q_e1 p Hp st ltac:(rewrite ?inU_set_tern; assumption))
    | |- out1 _ (bind (p_e2 p ?st) _) => call_spec (q_e2 p Hp st ltac:(assumption))
    | |- out1 _ (bind (p_e3 p ?st) _) => call_spec (q_e3 p Hp st ltac:(assumption))
    | |- out1 _ (bind (p_e4 p ?st) _) => call_spec (q_e4 p Hp st ltac:(assumption))
    | |- out1 _ (bind (p_e5 p ?st) _) => call_spec (q_e5 p Hp st ltac:(assumption))
    | |- out1 _ (bind (p_e6 p ?st) _) => call_spec (q_e6 p Hp st ltac:(assumption))
    | |- out1 _ (bind (p_e7 p ?st) _) => call_spec (q_e7 p Hp st ltac:(assumption))
    | |- out1 _ (bind (p_e8 p ?st) _) => call_spec (q_e8 p Hp st ltac:(assumption))
    | |- out1 _ (bind (p_e9 p ?st) _) => call_spec (q_e9 p Hp st ltac:(assumption))
    | |- out1 _ (bind (p_e10 p ?st) _) => call_spec (q_e10 p Hp st ltac:(assumption))
    | |- out1 _ (bind (p_line p ?st) _) => call_spec (q_ln p Hp st ltac:(assumption))
    | |- out1 _ (bind (p_codeblock p ?st) _) => call_spec (q_cb p Hp st ltac:(assumption))
    | |- out1 _ (bind (p_elif_loop p ?i ?st) _) => call_spec (q_el p Hp i st ltac:(assumption))
    | |- out1 _ (bind (p_method_call p ?o ?d ?st) _) =>
        call_spec (q_mc p Hp o d st ltac:(assumption) ltac:(assumption))
    | |- out1 _ (bind (p_args_ p ?st) _) => call_spec3 (q_ar p Hp st ltac:(assumption))
    | |- out1 _ (bind (p_key_values p ?st) _) => call_spec3 (q_kv p Hp st ltac:(assumption))
    | |- out1 _ (bind (match ?o with Some _ => _ | None => _ end) _) => destruct o as [[? ?]|]
    | |- out1 _ (match ?o with Some _ => _ | None => _ end) => destruct o as [[? ?]|] eqn:?
    | |- out1 _ (if ?b then _ else _) => destruct b eqn:?
    | |- out1 _ (let '(_, _) := ?x in _) => destruct x
    | _ => use_spec p Hp
    end.

  Ltac finish p Hp :=
    rewrite ?inU_set_tern in *;
    match goal with
    | |- out1 _ (Ok _) => cbn [out1]; unfold gnode, gany in *; cbn [npos]; rewrite ?inU_set_tern;
        try (split; [ first [ assumption | exact I | apply curpos_U; assumption
                            | match goal with E : is_id ?n = Some ?t |- U (tpos ?t) => rewrite <- (is_id_npos n t E); assumption end ]
                    | assumption ])
    | |- out1 _ (Err _) => cbn [out1]; unfold gnode in *;
        first [ assumption | apply curpos_U; assumption | apply cur_U; assumption ]
    | |- out1 _ Fuel => exact I
    | |- out1 _ (p_or_loop p ?l ?st) => apply (q_or p Hp); unfold gnode; cbn [npos]; assumption
    | |- out1 _ (p_and_loop p ?l ?st) => apply (q_and p Hp); unfold gnode; cbn [npos]; assumption
    | |- out1 _ (p_add_loop p ?l ?st) => apply (q_add p Hp); unfold gnode; cbn [npos]; assumption
    | |- out1 _ (p_mul_loop p ?l ?st) => apply (q_mul p Hp); unfold gnode; cbn [npos]; assumption
    | |- out1 _ (p_postfix_loop p ?l ?st) => apply (q_post p Hp); unfold gnode in *; cbn [npos];
        first [ assumption | match goal with E : is_id ?n = Some ?t |- U (tpos ?t) => rewrite <- (is_id_npos n t E); assumption end ]
    | |- out1 _ (p_method_call p ?o ?d ?st) => apply (q_mc p Hp); unfold gnode in *; cbn [npos];
        first [ assumption | match goal with E : is_id ?n = Some ?t |- U (tpos ?t) => rewrite <- (is_id_npos n t E); assumption end ]
    | |- out1 gany (p_e1 p ?st) => apply (out1_weaken gnode); apply (q_e1 p Hp); assumption
    | |- out1 _ (p_e8 p ?st) => apply (q_e8 p Hp); assumption
    | |- out1 _ (p_e10 p ?st) => apply (q_e10 p Hp); assumption
    | |- out1 _ (p_kv_loop p ?s ?a ?c ?st) => apply (q_kvl p Hp); assumption
    | |- out1 _ (p_args_loop p ?s ?a ?c ?st) => apply (q_arl p Hp); assumption
    | |- out1 _ (p_elif_loop p ?i ?st) => apply (q_el p Hp); assumption
    | |- out1 _ (p_block_loop p ?b ?st) => apply (q_bl p Hp); assumption
    end.

  Ltac solve_q p Hp := repeat step_goal p Hp; try finish p Hp.

  Section StepQ.
    Variable p : parsers.
    Hypothesis Hp : all_q p.

    Lemma sq_e1 : q_node (p_e1 (step p)).
    Proof. intros st H. cbn [step p_e1]. solve_q p Hp. Qed.
    Lemma sq_e2 : q_node (p_e2 (step p)).
    Proof. intros st H. cbn [step p_e2]. solve_q p Hp. Qed.
    Lemma sq_e3 : q_node (p_e3 (step p)).
    Proof. intros st H. cbn [step p_e3]. solve_q p Hp. Qed.
    Lemma sq_e4 : q_node (p_e4 (step p)).
    Proof. intros st H. cbn [step p_e4]. solve_q p Hp. Qed.
    Lemma sq_e5 : q_node (p_e5 (step p)).
    Proof. intros st H. cbn [step p_e5]. solve_q p Hp. Qed.
    Lemma sq_e6 : q_node (p_e6 (step p)).
    Proof. intros st H. cbn [step p_e6]. solve_q p Hp. Qed.
    Lemma sq_e7 : q_node (p_e7 (step p)).
    Proof. intros st H. cbn [step p_e7]. solve_q p Hp. Qed.
    Lemma sq_e8 : q_node (p_e8 (step p)).
    Proof. intros st H. cbn [step p_e8]. solve_q p Hp. Qed.
    Lemma sq_e9 : q_node (p_e9 (step p)).
    Proof. intros st H. cbn [step p_e9]. solve_q p Hp. Qed.
    Lemma sq_e10 : q_node (p_e10 (step p)).
    Proof.
      intros st H. cbn [step p_e10].
      destruct (tk (cur st)); solve_q p Hp; cbn [out1]; unfold gnode; cbn [npos];
        try (split; [apply cur_U; assumption | assumption]); try (apply cur_U; assumption).
    Qed.
    Lemma sq_or_loop : q_loop (p_or_loop (step p)).
    Proof. intros l st Hl H. cbn [step p_or_loop]. solve_q p Hp. Qed.
    Lemma sq_and_loop : q_loop (p_and_loop (step p)).
    Proof. intros l st Hl H. cbn [step p_and_loop]. solve_q p Hp. Qed.
    Lemma sq_add_loop : q_loop (p_add_loop (step p)).
    Proof. intros l st Hl H. cbn [step p_add_loop]. solve_q p Hp. Qed.
    Lemma sq_mul_loop : q_loop (p_mul_loop (step p)).
    Proof. intros l st Hl H. cbn [step p_mul_loop]. solve_q p Hp. Qed.
    Lemma sq_postfix_loop : q_loop (p_postfix_loop (step p)).
    Proof. intros l st Hl H. cbn [step p_postfix_loop]. solve_q p Hp. Qed.
    Lemma sq_method_call : q_meth (p_method_call (step p)).
    Proof. intros o d st Ho H. cbn [step p_method_call]. solve_q p Hp. Qed.
    Lemma sq_key_values : q_args (p_key_values (step p)).
    Proof. intros st H. cbn [step p_key_values]. solve_q p Hp. Qed.
    Lemma sq_kv_loop : q_args_loop (p_kv_loop (step p)).
    Proof. intros s a c st Hs H. cbn [step p_kv_loop]. solve_q p Hp. Qed.
    Lemma sq_args_ : q_args (p_args_ (step p)).
    Proof. intros st H. cbn [step p_args_]. solve_q p Hp. Qed.
    Lemma sq_args_loop : q_args_loop (p_args_loop (step p)).
    Proof. intros s a c st Hs H. cbn [step p_args_loop]. solve_q p Hp. Qed.
    Lemma sq_line : q_line (p_line (step p)).
    Proof. intros st H. cbn [step p_line]. solve_q p Hp. Qed.
    Lemma sq_elif_loop : q_ifs (p_elif_loop (step p)).
    Proof. intros i st H. cbn [step p_elif_loop]. solve_q p Hp. Qed.
    Lemma sq_codeblock : q_block (p_codeblock (step p)).
    Proof. intros st H. cbn [step p_codeblock]. solve_q p Hp. Qed.
    Lemma sq_block_loop : q_block_loop (p_block_loop (step p)).
    Proof. intros b st H. cbn [step p_block_loop]. solve_q p Hp. Qed.

    Theorem step_q : all_q (step p).
    Proof.
      constructor.
      - exact sq_e1. - exact sq_e2. - exact sq_or_loop. - exact sq_e3. - exact sq_and_loop.
      - exact sq_e4. - exact sq_e5. - exact sq_add_loop. - exact sq_e6. - exact sq_mul_loop.
      - exact sq_e7. - exact sq_e8. - exact sq_postfix_loop. - exact sq_method_call.
      - exact sq_e9. - exact sq_e10. - exact sq_key_values. - exact sq_kv_loop.
      - exact sq_args_. - exact sq_args_loop. - exact sq_line. - exact sq_elif_loop.
      - exact sq_codeblock. - exact sq_block_loop.
    Qed.
  End StepQ.

  Lemma fuel_q : all_q fuel_parsers.
  Proof. constructor; repeat intro; exact I. Qed.
  Theorem P_q n : all_q (P n).
  Proof. induction n as [|n IH]; [exact fuel_q | apply step_q; exact IH]. Qed.
End Univ.

(* Every ParseException raised while parsing a token stream carries the position of one of
   its tokens, of the end of input, or of the lexer error. *)
Theorem parse_tokens_error_located fuel st p :
  parse_tokens fuel st = Err p -> PS st p.
Proof.
  unfold parse_tokens. intro H.
  pose proof (q_cb (PS st) _ (P_q (PS st) fuel) st (fun q Hq => Hq)) as C. unfold out1 in C.
  destruct (p_codeblock (P fuel) st) as [[b st1]|q|] eqn:E; cbn [bind] in H; try discriminate.
  - destruct C as [_ C].
    destruct (expect_U (PS st) KEof st1 C) as [_ B].
    destruct (expect KEof st1) as [[t st2]|q|] eqn:X; cbn [bind] in H; try discriminate.
    inversion H; subst. apply B. reflexivity.
  - inversion H; subst. exact C.
Qed.

(* ------------------------------------------------------------------ *)
(* From text: a rejected text carries a position inside the text.       *)
From MV Require Import Syntax.LexerFacts Syntax.ExtentFacts.

(* (line, col) denotes a point of s: the end of a prefix [pre], possibly moved [k] columns
   further along the text that follows (columns are line-relative offsets; k > 0 only for
   the end-of-input position, which is reported relative to the start of the last token) *)
Definition located (s : str) (p : pos) : Prop :=
  exists pre rest k, s = pre ++ rest /\ (k <= length rest)%nat /\
                     fst p = line_of pre /\ snd p = col_of pre + N.of_nat k.

Lemma positions_ok_in : forall ts pre0 t,
  positions_ok pre0 ts -> In t ts ->
  exists a b, ts = a ++ t :: b /\ tline t = line_of (pre0 ++ texts a) /\ tcol t = col_of (pre0 ++ texts a).
Proof.
  intros ts pre0 t H Hin. apply in_split in Hin. destruct Hin as (a & b & ->).
  apply positions_ok_app in H. destruct H as [_ H]. simpl in H. destruct H as (A & B & _).
  exists a, b. auto.
Qed.

Lemma In_significant t ts : In t (significant ts) -> In t ts.
Proof. unfold significant. intro H. apply filter_In in H. tauto. Qed.

Theorem parse_error_located s p :
  parse s = Err p -> located s p \/ (p = (0, 0) /\ exists r, s = c_bom :: r).
Proof.
  unfold parse. destruct s as [|c r].
  - intro H. vm_compute in H. discriminate.
  - destruct (c =? c_bom) eqn:B.
    { intro H. inversion H; subst. right. split; [reflexivity|]. apply N.eqb_eq in B. subst. eauto. }
    destruct (lex_prefix (length (c :: r)) (c :: r) init_lst) as [ts e] eqn:R.
    pose proof (lex_prefix_positions _ _ _ [] _ _ Inv_init R) as Q.
    pose proof (lex_prefix_concat _ _ _ _ _ (le_n _) R) as (rest & Hs & He).
    assert (Lexerr : forall q, e = Some q -> located (c :: r) q).
    { intros [l col] ->. pose proof (lex_prefix_error _ _ _ [] _ _ _ (le_n _) Inv_init R) as (rest' & _ & Hs' & Hl & Hc).
      simpl in Hl, Hc. exists (texts ts), rest', 0%nat. unfold texts. simpl. rewrite N.add_0_r. repeat split; try assumption; lia. }
    intro H. left.
    (* either the lexer error was returned directly, or the error comes from parse_tokens *)
    assert (Hp : (exists q, e = Some q /\ p = q) \/
                 (ts <> [] /\ PS (mkP (significant ts) e (eof_pos ts) false) p)).
    { destruct ts as [|t0 ts'].
      - left. destruct e as [q|].
        + simpl in H. inversion H; subst. eauto.
        + specialize (He eq_refl). subst rest. simpl in Hs. discriminate Hs.
      - destruct (significant (t0 :: ts')) as [|s0 sg] eqn:SG.
        + destruct e as [q|]; [left; inversion H; subst; eauto|].
          right. split; [discriminate|]. apply parse_tokens_error_located in H. exact H.
        + right. split; [discriminate|]. apply parse_tokens_error_located in H. exact H. }
    destruct Hp as [(q & Eq & ->)|[Hne Hp]]; [apply Lexerr; exact Eq|].
    unfold PS in Hp. simpl in Hp. destruct Hp as [Hp|[Hp|Hp]].
    + (* the position of a token *)
      apply in_map_iff in Hp. destruct Hp as (t & <- & Ht). apply In_significant in Ht.
      destruct (positions_ok_in _ _ _ Q Ht) as (a & b & -> & Hl & Hc). simpl in Hl, Hc.
      exists (texts a), (texts (t :: b) ++ rest), 0%nat.
      fold (texts (a ++ t :: b)) in Hs. rewrite texts_app in Hs. rewrite <- app_assoc in Hs.
      unfold tpos. simpl. rewrite N.add_0_r. repeat split; try assumption; lia.
    + (* end of input: relative to the start of the last token *)
      subst p. unfold eof_pos. destruct (rev ts) as [|t rt] eqn:RT.
      * exfalso. apply Hne. apply (f_equal (@rev token)) in RT. rewrite rev_involutive in RT. exact RT.
      * assert (Ets : ts = rev rt ++ [t]) by (apply (f_equal (@rev token)) in RT; rewrite rev_involutive in RT; exact RT).
        rewrite Ets in Q. apply positions_ok_app in Q. destruct Q as [_ Q]. simpl in Q. destruct Q as (Hl & Hc & _).
        exists (texts (rev rt)), (ttext t ++ rest), (length (ttext t)).
        fold (texts ts) in Hs. rewrite Ets, texts_app in Hs. unfold texts at 2 in Hs. simpl in Hs.
        rewrite app_nil_r, <- app_assoc in Hs. simpl.
        repeat split; try assumption; [rewrite app_length; lia | rewrite Hc; reflexivity].
    + apply Lexerr. exact Hp.
Qed.
