(* Syntax/TokenShape.v — the text of keyword and string tokens produced by the lexer model:
   a 'true' token reads "true", a string token starts and ends with its quotes.  RawPrinter
   re-assembles these texts from pieces (printer.py: visit_BooleanNode, visit_StringNode,
   visit_ContinueNode, visit_BreakNode); these facts show the pieces add up to the token text. *)
From MV Require Import Base.Strs Base.LexFacts Syntax.Lexer Syntax.LexerFacts.
From Coq Require Import Lia.
Open Scope N_scope.

Definition sq3 : str := [c_sq; c_sq; c_sq].

Definition twf (t : token) : Prop :=
  match tk t with
  | KTrue => ttext t = s2l "true"
  | KFalse => ttext t = s2l "false"
  | KContinue => ttext t = s2l "continue"
  | KBreak => ttext t = s2l "break"
  | KStr => exists b, ttext t = c_sq :: b ++ [c_sq]
  | KFStr => exists b, ttext t = c_f :: c_sq :: b ++ [c_sq]
  | KMStr => exists b, ttext t = sq3 ++ b ++ sq3
  | KMFStr => exists b, ttext t = c_f :: sq3 ++ b ++ sq3
  | _ => True
  end.

Lemma scan_str_shape : forall n s k, (length s <= n)%nat -> scan_str s = Some k ->
  exists b, firstn k s = b ++ [c_sq].
Proof.
  induction n as [|n IH]; intros s k Hl H.
  - destruct s; simpl in *; [discriminate | lia].
  - destruct s as [|c r]; cbn [scan_str] in H; [discriminate|].
    destruct (c =? c_sq) eqn:Q.
    { inversion H; subst. apply N.eqb_eq in Q. subst c. exists []. reflexivity. }
    destruct (c =? c_bs).
    + destruct r as [|d r']; [discriminate|].
      destruct (d =? c_nl); [discriminate|].
      destruct (scan_str r') as [k'|] eqn:F; [|discriminate]. inversion H; subst.
      destruct (IH r' k') as [b Hb]; [simpl in *; lia | assumption|].
      exists (c :: d :: b). cbn [firstn]. rewrite Hb. reflexivity.
    + destruct (scan_str r) as [k'|] eqn:F; [|discriminate]. inversion H; subst.
      destruct (IH r k') as [b Hb]; [simpl in *; lia | assumption|].
      exists (c :: b). cbn [firstn]. rewrite Hb. reflexivity.
Qed.

Lemma find_triple_shape s k : find_triple s = Some k -> firstn (k + 3) s = firstn k s ++ sq3.
Proof.
  revert k; induction s as [|c r IH]; intros k H; cbn [find_triple] in H; [discriminate|].
  destruct ((c =? c_sq) && prefixb [c_sq; c_sq] r) eqn:E.
  - inversion H; subst. apply andb_true_iff in E. destruct E as [E1 E2].
    apply N.eqb_eq in E1. subst c. apply prefixb_spec in E2. destruct E2 as [r' ->]. reflexivity.
  - destruct (find_triple r) as [k'|] eqn:F; [|discriminate]. inversion H; subst.
    cbn [Nat.add firstn app]. rewrite (IH k' eq_refl). reflexivity.
Qed.

Lemma firstn_app_len {A} (p s : list A) n : firstn (length p + n) (p ++ s) = p ++ firstn n s.
Proof. induction p; simpl; [reflexivity | f_equal; assumption]. Qed.

Lemma m_str_shape s n : m_str s = Some n -> exists b, firstn n s = c_sq :: b ++ [c_sq].
Proof.
  unfold m_str. destruct s as [|a r]; try discriminate.
  destruct (a =? c_sq) eqn:Q; [|discriminate]. apply N.eqb_eq in Q. subst a.
  destruct (scan_str r) as [k|] eqn:F; [|discriminate]. intro H; inversion H; subst.
  apply (scan_str_shape (length r)) in F; [|lia]. destruct F as [b Hb].
  exists b. cbn [Nat.add firstn]. rewrite Hb. reflexivity.
Qed.
Lemma m_fstr_shape s n : m_fstr s = Some n -> exists b, firstn n s = c_f :: c_sq :: b ++ [c_sq].
Proof.
  unfold m_fstr. destruct s as [|a [|b0 r]]; try discriminate.
  destruct ((a =? c_f) && (b0 =? c_sq)) eqn:Q; [|discriminate].
  apply andb_true_iff in Q. destruct Q as [Q1 Q2]. apply N.eqb_eq in Q1, Q2. subst a b0.
  destruct (scan_str r) as [k|] eqn:F; [|discriminate]. intro H; inversion H; subst.
  apply (scan_str_shape (length r)) in F; [|lia]. destruct F as [b Hb].
  exists b. cbn [Nat.add firstn]. rewrite Hb. reflexivity.
Qed.
Lemma m_mstr_shape s n : m_mstr s = Some n -> exists b, firstn n s = sq3 ++ b ++ sq3.
Proof.
  unfold m_mstr. destruct (prefixb _ s) eqn:P; [|discriminate].
  apply prefixb_spec in P. destruct P as [r ->].
  change (drop 3 ([c_sq; c_sq; c_sq] ++ r)) with r.
  destruct (find_triple r) as [k|] eqn:F; [|discriminate]. intro H; inversion H; subst.
  exists (firstn k r). apply find_triple_shape in F.
  cbn [app firstn]. rewrite F. reflexivity.
Qed.
Lemma m_mfstr_shape s n : m_mfstr s = Some n -> exists b, firstn n s = c_f :: sq3 ++ b ++ sq3.
Proof.
  unfold m_mfstr. destruct (prefixb _ s) eqn:P; [|discriminate].
  apply prefixb_spec in P. destruct P as [r ->].
  change (drop 4 ([c_f; c_sq; c_sq; c_sq] ++ r)) with r.
  destruct (find_triple r) as [k|] eqn:F; [|discriminate]. intro H; inversion H; subst.
  exists (firstn k r). apply find_triple_shape in F.
  cbn [app firstn]. rewrite F. reflexivity.
Qed.

(* which matcher produced the answer of first_match *)
Definition fm_spec (s : str) (rk : rawkind) (n : nat) : Prop :=
  match rk with
  | RK KMFStr => m_mfstr s = Some n
  | RK KFStr => m_fstr s = Some n
  | RK KMStr => m_mstr s = Some n
  | RK KStr => m_str s = Some n
  | RK KId => m_id s = Some n
  | RK KWs | RK KNum | RK KComment | RK KPlusAssign | RK KEqual | RK KNEqual | RK KLe | RK KGe | RKEolCont => True
  | RK _ => False
  end.
Lemma first_match_inv s rk n : first_match s = Some (rk, n) -> fm_spec s rk n.
Proof.
  unfold first_match.
  repeat match goal with
  | |- match ?m with Some _ => _ | None => _ end = _ -> _ =>
      let E := fresh "E" in destruct m eqn:E; [ intro H; inversion H; subst; cbn; try exact I; assumption | ]
  end.
  discriminate.
Qed.

Lemma keyword_text v k : keyword v = Some k ->
  match k with
  | KTrue => v = s2l "true" | KFalse => v = s2l "false"
  | KContinue => v = s2l "continue" | KBreak => v = s2l "break"
  | KStr | KFStr | KMStr | KMFStr => False
  | _ => True
  end.
Proof.
  unfold keyword.
  repeat match goal with
  | |- (if ?b then _ else _) = _ -> _ =>
      let E := fresh "E" in destruct b eqn:E; [ intro H; inversion H; subst; try exact I; apply str_eqb_eq; exact E | ]
  end.
  discriminate.
Qed.

Lemma tok_step_tk k txt n0 st t st' n : tok_step k txt n0 st = SOk t st' n -> tk t = k /\ ttext t = txt.
Proof.
  unfold tok_step. destruct (is_multi k && negb (count_nl txt =? 0)); intro H; inversion H; subst; cbn; auto.
Qed.

Lemma lex_step_wf s st t st' n : lex_step s st = SOk t st' n -> twf t.
Proof.
  unfold lex_step.
  destruct (first_match s) as [[rk n0]|] eqn:F.
  - apply first_match_inv in F.
    destruct rk as [k|]; [|intro H; inversion H; subst; exact I].
    destruct k; cbn [fm_spec] in F; try contradiction;
      try (intro H; apply tok_step_tk in H; destruct H as [Hk Ht]; unfold twf; rewrite Hk; cbn iota; rewrite ?Ht;
           first [ exact I | apply m_mfstr_shape; exact F | apply m_fstr_shape; exact F
                 | apply m_mstr_shape; exact F | apply m_str_shape; exact F ]).
    (* id / keyword *)
    intro H. apply tok_step_tk in H. destruct H as [Hk Ht]. unfold twf. rewrite Hk, ?Ht.
    destruct (keyword (firstn n0 s)) as [k'|] eqn:Kw; [|exact I].
    apply keyword_text in Kw. destruct k'; try exact I; try exact Kw; contradiction.
  - destruct s as [|c r]; [discriminate|].
    destruct (c =? 34); [discriminate|].
    destruct (single_char c) as [k|] eqn:SC; [|discriminate].
    assert (Hk : match k with KTrue | KFalse | KContinue | KBreak | KStr | KFStr | KMStr | KMFStr => False | _ => True end).
    { unfold single_char in SC.
      repeat match type of SC with (if ?b then _ else _) = _ => destruct b; [inversion SC; exact I|] end.
      discriminate. }
    destruct k; try contradiction; intro H1; inversion H1; subst; unfold twf; cbn; try exact I.
    destruct ((0 <? l_par st)%Z || (0 <? l_brk st)%Z || (0 <? l_curl st)%Z); exact I.
Qed.

Lemma lex_prefix_wf : forall fuel s st ts e, lex_prefix fuel s st = (ts, e) -> Forall twf ts.
Proof.
  induction fuel as [|f IH]; intros s st ts e H.
  - destruct s; simpl in H; inversion H; constructor.
  - destruct s as [|c r]; [simpl in H; inversion H; constructor|].
    cbn [lex_prefix] in H.
    destruct (lex_step (c :: r) st) as [t st' n|l col] eqn:S.
    + destruct (lex_prefix f (drop n (c :: r)) st') as [ts' e'] eqn:R. inversion H; subst.
      constructor; [eapply lex_step_wf; eassumption | eapply IH; eassumption].
    + inversion H; constructor.
Qed.

Theorem lex_wf s ts : lex s = LOk ts -> Forall twf ts.
Proof.
  unfold lex. destruct s as [|c r]; [intro H; inversion H; constructor|].
  destruct (c =? c_bom); [discriminate|].
  destruct (lex_prefix (length (c :: r)) (c :: r) init_lst) as [ts' [[l col]|]] eqn:R; [discriminate|].
  intro H; inversion H; subst. eapply lex_prefix_wf; eassumption.
Qed.

(* ------------------------------------------------------------------ 'not' is never directly followed by 'in' *)
(* (an identifier is matched greedily: "notin" is one 'id' token; so in a token list a 'not'
   token and an 'in' token that follows it are separated by at least one other token) *)
Lemma span_stop_head p r c x : drop (span p r) r = c :: x -> p c = false.
Proof.
  induction r as [|a r IH]; cbn [span]; [discriminate|].
  destruct (p a) eqn:E; cbn [drop]; [exact IH|]. intro H; inversion H; subst. exact E.
Qed.
Lemma id_start_char c : is_id_start c = true -> is_id_char c = true.
Proof.
  unfold is_id_start, is_id_char, is_alnum. intro H. apply orb_true_iff in H. destruct H as [H|H]; rewrite H; cbn; auto.
  rewrite orb_true_r. reflexivity.
Qed.

Lemma lex_step_kwid s st t st' n :
  lex_step s st = SOk t st' n -> (tk t = KNot \/ tk t = KIn) -> m_id s = Some n.
Proof.
  unfold lex_step.
  destruct (first_match s) as [[rk n0]|] eqn:F.
  - apply first_match_inv in F.
    destruct rk as [k|]; [|intro H; inversion H; subst; cbn; intros [X|X]; discriminate X].
    destruct k; cbn [fm_spec] in F; try contradiction;
      try (intro H; apply tok_step_spec in H; destruct H as (-> & _); exact (fun _ => F));
      intro H; pose proof (tok_step_tk _ _ _ _ _ _ _ H) as [Hk _]; rewrite Hk; intros [X|X]; discriminate X.
  - destruct s as [|c r]; [discriminate|].
    destruct (c =? 34); [discriminate|].
    destruct (single_char c) as [k|] eqn:SC; [|discriminate].
    assert (Hk : match k with KNot | KIn => False | _ => True end).
    { unfold single_char in SC.
      repeat match type of SC with (if ?b then _ else _) = _ => destruct b; [inversion SC; exact I|] end.
      discriminate. }
    destruct k; try contradiction; intro H1; inversion H1; subst; cbn; intros [X|X]; try discriminate X.
    all: destruct ((0 <? l_par st)%Z || (0 <? l_brk st)%Z || (0 <? l_curl st)%Z); discriminate X.
Qed.

Lemma lex_step_not_in s st t1 st1 n1 t2 st2 n2 :
  lex_step s st = SOk t1 st1 n1 -> tk t1 = KNot ->
  lex_step (drop n1 s) st1 = SOk t2 st2 n2 -> tk t2 = KIn -> False.
Proof.
  intros H1 K1 H2 K2.
  apply lex_step_kwid in H1; [|left; exact K1]. apply lex_step_kwid in H2; [|right; exact K2].
  unfold m_id in H1. destruct s as [|c r]; [discriminate|].
  destruct (is_id_start c); [|discriminate]. inversion H1; subst n1. cbn [drop] in H2.
  unfold m_id in H2. destruct (drop (span is_id_char r) r) as [|c2 x] eqn:D; [discriminate|].
  destruct (is_id_start c2) eqn:S2; [|discriminate].
  apply span_stop_head in D. apply id_start_char in S2. congruence.
Qed.

Fixpoint adj_ok (ts : list token) : Prop :=
  match ts with
  | t1 :: ((t2 :: _) as r) => ~ (tk t1 = KNot /\ tk t2 = KIn) /\ adj_ok r
  | _ => True
  end.

Lemma lex_prefix_head fuel s st t ts e :
  lex_prefix fuel s st = (t :: ts, e) -> exists st' n, lex_step s st = SOk t st' n.
Proof.
  destruct fuel as [|f]; destruct s as [|c r]; cbn [lex_prefix]; try discriminate.
  destruct (lex_step (c :: r) st) as [t0 st' n|l col]; [|discriminate].
  destruct (lex_prefix f (drop n (c :: r)) st') as [ts' e']. intro H; inversion H; subst. eauto.
Qed.

Lemma lex_prefix_adj : forall fuel s st ts e, lex_prefix fuel s st = (ts, e) -> adj_ok ts.
Proof.
  induction fuel as [|f IH]; intros s st ts e H.
  - destruct s; simpl in H; inversion H; exact I.
  - destruct s as [|c r]; [simpl in H; inversion H; exact I|].
    cbn [lex_prefix] in H.
    destruct (lex_step (c :: r) st) as [t st' n|l col] eqn:S; [|inversion H; exact I].
    destruct (lex_prefix f (drop n (c :: r)) st') as [ts' e'] eqn:R. inversion H; subst.
    pose proof (IH _ _ _ _ R) as A. destruct ts' as [|t2 ts2]; [exact I|].
    split; [|exact A]. intros [K1 K2].
    destruct (lex_prefix_head _ _ _ _ _ _ R) as (st2 & n2 & S2).
    exact (lex_step_not_in _ _ _ _ _ _ _ _ S K1 S2 K2).
Qed.

Theorem lex_adj s ts : lex s = LOk ts -> adj_ok ts.
Proof.
  unfold lex. destruct s as [|c r]; [intro H; inversion H; exact I|].
  destruct (c =? c_bom); [discriminate|].
  destruct (lex_prefix (length (c :: r)) (c :: r) init_lst) as [ts' [[l col]|]] eqn:R; [discriminate|].
  intro H; inversion H; subst. eapply lex_prefix_adj; eassumption.
Qed.
