(* Syntax/ParserDet.v — the parser model is deterministic in its fuel: an answer other than
   "out of fuel" (a tree OR a located rejection) stays the same with every larger fuel.
   Together with Syntax/FuelFacts.v (the fuel [parse] uses is enough) this turns "for all
   sufficiently large fuel" statements into statements about the fuel [parse] really uses. *)
From MV Require Import Base.Strs Syntax.Lexer Syntax.Parser Syntax.ParserMono.
From Coq Require Import Lia.
Open Scope nat_scope.

Definition d1 {A B} (f g : A -> res B) : Prop := forall a, f a <> Fuel -> g a = f a.
Definition d2 {A1 A2 B} (f g : A1 -> A2 -> res B) : Prop := forall a b, f a b <> Fuel -> g a b = f a b.
Definition d3 {A1 A2 A3 B} (f g : A1 -> A2 -> A3 -> res B) : Prop := forall a b c, f a b c <> Fuel -> g a b c = f a b c.
Definition d4 {A1 A2 A3 A4 B} (f g : A1 -> A2 -> A3 -> A4 -> res B) : Prop :=
  forall a b c d, f a b c d <> Fuel -> g a b c d = f a b c d.

Record det_p (p q : parsers) : Prop := {
  dt_e1 : d1 (p_e1 p) (p_e1 q); dt_e2 : d1 (p_e2 p) (p_e2 q); dt_or : d2 (p_or_loop p) (p_or_loop q);
  dt_e3 : d1 (p_e3 p) (p_e3 q); dt_and : d2 (p_and_loop p) (p_and_loop q); dt_e4 : d1 (p_e4 p) (p_e4 q);
  dt_e5 : d1 (p_e5 p) (p_e5 q); dt_add : d2 (p_add_loop p) (p_add_loop q); dt_e6 : d1 (p_e6 p) (p_e6 q);
  dt_mul : d2 (p_mul_loop p) (p_mul_loop q); dt_e7 : d1 (p_e7 p) (p_e7 q); dt_e8 : d1 (p_e8 p) (p_e8 q);
  dt_post : d2 (p_postfix_loop p) (p_postfix_loop q); dt_meth : d3 (p_method_call p) (p_method_call q);
  dt_e9 : d1 (p_e9 p) (p_e9 q); dt_e10 : d1 (p_e10 p) (p_e10 q);
  dt_kv : d1 (p_key_values p) (p_key_values q); dt_kvl : d4 (p_kv_loop p) (p_kv_loop q);
  dt_args : d1 (p_args_ p) (p_args_ q); dt_argsl : d4 (p_args_loop p) (p_args_loop q);
  dt_line : d1 (p_line p) (p_line q); dt_elif : d2 (p_elif_loop p) (p_elif_loop q);
  dt_cb : d1 (p_codeblock p) (p_codeblock q); dt_bl : d2 (p_block_loop p) (p_block_loop q) }.

Lemma bind_det {A B} (x x' : res A) (k k' : A -> res B) :
  (x <> Fuel -> x' = x) -> (forall a, x = Ok a -> k a <> Fuel -> k' a = k a) ->
  bind x k <> Fuel -> bind x' k' = bind x k.
Proof.
  intros H1 H2 NF. destruct x as [a|e|].
  - rewrite H1 by discriminate. cbn [bind] in *. apply H2; [reflexivity | exact NF].
  - rewrite H1 by discriminate. reflexivity.
  - exfalso. apply NF. reflexivity.
Qed.

Ltac call_det p q Hd :=
  solve [ intros _; reflexivity
        | apply (dt_e1 p q Hd) | apply (dt_e2 p q Hd) | apply (dt_or p q Hd) | apply (dt_e3 p q Hd)
        | apply (dt_and p q Hd) | apply (dt_e4 p q Hd) | apply (dt_e5 p q Hd) | apply (dt_add p q Hd)
        | apply (dt_e6 p q Hd) | apply (dt_mul p q Hd) | apply (dt_e7 p q Hd) | apply (dt_e8 p q Hd)
        | apply (dt_post p q Hd) | apply (dt_meth p q Hd) | apply (dt_e9 p q Hd) | apply (dt_e10 p q Hd)
        | apply (dt_kv p q Hd) | apply (dt_kvl p q Hd) | apply (dt_args p q Hd) | apply (dt_argsl p q Hd)
        | apply (dt_line p q Hd) | apply (dt_elif p q Hd) | apply (dt_cb p q Hd) | apply (dt_bl p q Hd) ].

(* goal:  NF : R <> Fuel |- L = R  where L is R with q for p *)
Ltac det_go p q Hd :=
  repeat match goal with
  | |- ?X = ?X => reflexivity
  | NF : bind ?x ?k <> Fuel |- bind ?x' ?k' = bind ?x ?k =>
      revert NF; apply bind_det; [ call_det p q Hd | let a := fresh "a" in let E := fresh "E" in intros a E NF; cbn beta in * ]
  | NF : (let '(_, _) := ?a in _) <> Fuel |- _ => destruct a; cbn beta iota in *
  | NF : match ?o with Some _ => _ | None => _ end <> Fuel |- _ => destruct o; cbn beta iota in *
  | NF : (if ?c then _ else _) <> Fuel |- _ => destruct c; cbn beta iota in *
  | NF : ?R <> Fuel |- ?L = ?R => first [ reflexivity | revert NF; call_det p q Hd ]
  end.

Section StepDet.
  Variables p q : parsers.
  Hypothesis Hd : det_p p q.

  Lemma sd_e1 : d1 (p_e1 (step p)) (p_e1 (step q)).
  Proof. intros st NF. cbn [step p_e1] in *. det_go p q Hd. Qed.
  Lemma sd_e2 : d1 (p_e2 (step p)) (p_e2 (step q)).
  Proof. intros st NF. cbn [step p_e2] in *. det_go p q Hd. Qed.
  Lemma sd_or : d2 (p_or_loop (step p)) (p_or_loop (step q)).
  Proof. intros l st NF. cbn [step p_or_loop] in *. det_go p q Hd. Qed.
  Lemma sd_e3 : d1 (p_e3 (step p)) (p_e3 (step q)).
  Proof. intros st NF. cbn [step p_e3] in *. det_go p q Hd. Qed.
  Lemma sd_and : d2 (p_and_loop (step p)) (p_and_loop (step q)).
  Proof. intros l st NF. cbn [step p_and_loop] in *. det_go p q Hd. Qed.
  Lemma sd_e4 : d1 (p_e4 (step p)) (p_e4 (step q)).
  Proof. intros st NF. cbn [step p_e4] in *. det_go p q Hd. Qed.
  Lemma sd_e5 : d1 (p_e5 (step p)) (p_e5 (step q)).
  Proof. intros st NF. cbn [step p_e5] in *. det_go p q Hd. Qed.
  Lemma sd_add : d2 (p_add_loop (step p)) (p_add_loop (step q)).
  Proof. intros l st NF. cbn [step p_add_loop] in *. det_go p q Hd. Qed.
  Lemma sd_e6 : d1 (p_e6 (step p)) (p_e6 (step q)).
  Proof. intros st NF. cbn [step p_e6] in *. det_go p q Hd. Qed.
  Lemma sd_mul : d2 (p_mul_loop (step p)) (p_mul_loop (step q)).
  Proof. intros l st NF. cbn [step p_mul_loop] in *. det_go p q Hd. Qed.
  Lemma sd_e7 : d1 (p_e7 (step p)) (p_e7 (step q)).
  Proof. intros st NF. cbn [step p_e7] in *. det_go p q Hd. Qed.
  Lemma sd_e8 : d1 (p_e8 (step p)) (p_e8 (step q)).
  Proof. intros st NF. cbn [step p_e8] in *. det_go p q Hd. Qed.
  Lemma sd_post : d2 (p_postfix_loop (step p)) (p_postfix_loop (step q)).
  Proof. intros l st NF. cbn [step p_postfix_loop] in *. det_go p q Hd. Qed.
  Lemma sd_meth : d3 (p_method_call (step p)) (p_method_call (step q)).
  Proof. intros o d st NF. cbn [step p_method_call] in *. det_go p q Hd. Qed.
  Lemma sd_e9 : d1 (p_e9 (step p)) (p_e9 (step q)).
  Proof. intros st NF. cbn [step p_e9] in *. det_go p q Hd. Qed.
  Lemma sd_e10 : d1 (p_e10 (step p)) (p_e10 (step q)).
  Proof. intros st NF. reflexivity. Qed.
  Lemma sd_kv : d1 (p_key_values (step p)) (p_key_values (step q)).
  Proof. intros st NF. cbn [step p_key_values] in *. det_go p q Hd. Qed.
  Lemma sd_kvl : d4 (p_kv_loop (step p)) (p_kv_loop (step q)).
  Proof. intros s a c st NF. cbn [step p_kv_loop] in *. det_go p q Hd. Qed.
  Lemma sd_args : d1 (p_args_ (step p)) (p_args_ (step q)).
  Proof. intros st NF. cbn [step p_args_] in *. det_go p q Hd. Qed.
  Lemma sd_argsl : d4 (p_args_loop (step p)) (p_args_loop (step q)).
  Proof. intros s a c st NF. cbn [step p_args_loop] in *. det_go p q Hd. Qed.
  Lemma sd_line : d1 (p_line (step p)) (p_line (step q)).
  Proof. intros st NF. cbn [step p_line] in *. det_go p q Hd. Qed.
  Lemma sd_elif : d2 (p_elif_loop (step p)) (p_elif_loop (step q)).
  Proof. intros i st NF. cbn [step p_elif_loop] in *. det_go p q Hd. Qed.
  Lemma sd_cb : d1 (p_codeblock (step p)) (p_codeblock (step q)).
  Proof. intros st NF. cbn [step p_codeblock] in *. det_go p q Hd. Qed.
  Lemma sd_bl : d2 (p_block_loop (step p)) (p_block_loop (step q)).
  Proof. intros b st NF. cbn [step p_block_loop] in *. det_go p q Hd. Qed.

  Theorem step_det : det_p (step p) (step q).
  Proof.
    constructor.
    - exact sd_e1. - exact sd_e2. - exact sd_or. - exact sd_e3. - exact sd_and. - exact sd_e4.
    - exact sd_e5. - exact sd_add. - exact sd_e6. - exact sd_mul. - exact sd_e7. - exact sd_e8.
    - exact sd_post. - exact sd_meth. - exact sd_e9. - exact sd_e10. - exact sd_kv. - exact sd_kvl.
    - exact sd_args. - exact sd_argsl. - exact sd_line. - exact sd_elif. - exact sd_cb. - exact sd_bl.
  Qed.
End StepDet.

Lemma det_p_refl p : det_p p p.
Proof. constructor; repeat intro; reflexivity. Qed.
Lemma det_p_fuel q : det_p fuel_parsers q.
Proof. constructor; repeat intro; exfalso; auto. Qed.
Lemma det_p_trans p q r : det_p p q -> det_p q r -> det_p p r.
Proof.
  intros [] []. constructor; repeat intro;
    match goal with
    | H1 : d1 (?f p) (?f q), H2 : d1 (?f q) (?f r) |- ?f r ?a = ?f p ?a =>
        rewrite <- (H1 a) by assumption; apply H2; rewrite (H1 a) by assumption; assumption
    | H1 : d2 (?f p) (?f q), H2 : d2 (?f q) (?f r) |- ?f r ?a ?b = ?f p ?a ?b =>
        rewrite <- (H1 a b) by assumption; apply H2; rewrite (H1 a b) by assumption; assumption
    | H1 : d3 (?f p) (?f q), H2 : d3 (?f q) (?f r) |- ?f r ?a ?b ?c = ?f p ?a ?b ?c =>
        rewrite <- (H1 a b c) by assumption; apply H2; rewrite (H1 a b c) by assumption; assumption
    | H1 : d4 (?f p) (?f q), H2 : d4 (?f q) (?f r) |- ?f r ?a ?b ?c ?d = ?f p ?a ?b ?c ?d =>
        rewrite <- (H1 a b c d) by assumption; apply H2; rewrite (H1 a b c d) by assumption; assumption
    end.
Qed.

Lemma P_det_S n : det_p (P n) (P (S n)).
Proof. induction n as [|n IH]; [apply det_p_fuel|]. rewrite !P_S in *. apply step_det. exact IH. Qed.
Theorem P_det n m : n <= m -> det_p (P n) (P m).
Proof. induction 1 as [|m H IH]; [apply det_p_refl|]. eapply det_p_trans; [exact IH | apply P_det_S]. Qed.

(* an answer of the parser other than "out of fuel" does not depend on the fuel *)
Theorem parse_tokens_det n m st : n <= m -> parse_tokens n st <> Fuel -> parse_tokens m st = parse_tokens n st.
Proof.
  intros L NF. unfold parse_tokens in *. revert NF. apply bind_det.
  - apply (dt_cb _ _ (P_det n m L)).
  - intros a E NF. reflexivity.
Qed.
