(* Syntax/Shipped.v — the two printer rules as SHIPPED (before the pending fixes
   C17-printer-parentheses and C17-printer-escape), and witnesses that with them the
   round trip fails: printer.py:145-159 (parentheses only in visit_ArithmeticNode, the right
   operand only for '-', '/', '%') and printer.py:48 (escape_trans maps ' to itself). *)
From MV Require Import Base.Strs Syntax.Lexer Syntax.Parser Syntax.AstPrint.
Open Scope N_scope.

Definition right_assoc_guard (op : arith) : bool :=
  match op with OSub | ODiv | OMod => true | _ => false end.

Fixpoint ptoks0 (e : expr) : list kt :=
  match e with
  | EBool b => [if b then T KTrue "true" else T KFalse "false"]
  | EId s => [(KId, s)]
  | ENum n => [(KNum, N_dec n)]
  | EStr f m v => [(str_kind f m, str_text f m v)]
  | EParen e => ptoks0 e
  | EArray a k => T KLBracket "[" :: tl (ptl0 a ++ pkl0 k) ++ [T KRBracket "]"]
  | EDict d => T KLCurl "{" :: tl (pdl0 d) ++ [T KRCurl "}"]
  | EFunc name a k => (KId, name) :: t_lp :: tl (ptl0 a ++ pkl0 k) ++ [t_rp]
  | EMethod obj name a k => ptoks0 obj ++ T KDot "." :: (KId, name) :: t_lp :: tl (ptl0 a ++ pkl0 k) ++ [t_rp]
  | EIndex obj idx => ptoks0 obj ++ T KLBracket "[" :: ptoks0 idx ++ [T KRBracket "]"]
  | ENot e => T KNot "not" :: ptoks0 e
  | ENeg e => T KDash "-" :: ptoks0 e
  | EArith op l r =>
      wrap (prec l <? prec e)%nat (ptoks0 l) ++ (arith_kind op, arith_text op) ::
      wrap ((prec r <? prec e)%nat || ((prec r =? prec e)%nat && right_assoc_guard op)) (ptoks0 r)
  | ECmp op l r => ptoks0 l ++ cmp_toks op ++ ptoks0 r
  | EAnd l r => ptoks0 l ++ T KAnd "and" :: ptoks0 r
  | EOr l r => ptoks0 l ++ T KOr "or" :: ptoks0 r
  | ETern c t f => ptoks0 c ++ T KQuestion "?" :: ptoks0 t ++ t_colon :: ptoks0 f
  | ENonExpr => []
  end
with ptl0 (a : elist) : list kt :=
  match a with LNil => [] | LCons e r => t_comma :: ptoks0 e ++ ptl0 r end
with pkl0 (k : kwlist) : list kt :=
  match k with KNil => [] | KCons key v r => t_comma :: (KId, key) :: t_colon :: ptoks0 v ++ pkl0 r end
with pdl0 (d : dlist) : list kt :=
  match d with DNil => [] | DCons k v r => t_comma :: ptoks0 k ++ t_colon :: ptoks0 v ++ pdl0 r end.

Definition mk_tokens (l : list kt) : list token := map (fun x => mkTok (fst x) (snd x) 0 0 0) l.
Definition reparse0 (e : expr) : res block := parse_tokens 60 (mkP (mk_tokens (ptoks0 e)) None (0, 0) false).

Definition ea := EId (s2l "a").  Definition eb := EId (s2l "b").  Definition ec := EId (s2l "c").
(* not (a and b)  is printed as  not a and b  =  (not a) and b *)
Definition w_not := ENot (EParen (EAnd ea eb)).
(* a * (b / c)  is printed as  a * b / c  =  (a * b) / c *)
Definition w_mul := EArith OMul ea (EParen (EArith ODiv eb ec)).
(* (a == b) == c  is printed as  a == b == c, which does not parse *)
Definition w_cmp := ECmp CEq (EParen (ECmp CEq ea eb)) ec.

Lemma shipped_not : exists nd, reparse0 w_not = Ok (BLine nd None BNil) /\ abs nd = EAnd (ENot ea) eb.
Proof. vm_compute. eexists. split; reflexivity. Qed.
Lemma shipped_mul : exists nd, reparse0 w_mul = Ok (BLine nd None BNil) /\ abs nd = EArith ODiv (EArith OMul ea eb) ec.
Proof. vm_compute. eexists. split; reflexivity. Qed.
Lemma shipped_cmp : exists p, reparse0 w_cmp = Err p.
Proof. vm_compute. eexists. reflexivity. Qed.

Theorem shipped_parentheses_refuted :
  exists e, printable e = true /\
    forall nd, reparse0 e = Ok (BLine nd None BNil) -> strip_parens (abs nd) <> strip_parens e.
Proof.
  exists w_not. split; [reflexivity|]. intros nd H.
  destruct shipped_not as (nd' & H' & A). rewrite H' in H. inversion H; subst. rewrite A. discriminate.
Qed.

(* escape_trans = {'\\': '\\\\', "'": "'"} *)
Definition escape0 (v : str) : str := flat_map (fun c => if c =? c_bs then [c_bs; c_bs] else [c]) v.
Theorem shipped_escape_refuted :
  exists v, lex (c_sq :: escape0 v ++ [c_sq]) <> LOk [mkTok KStr (c_sq :: escape0 v ++ [c_sq]) 1 0 0].
Proof. exists (s2l "it's"). vm_compute. discriminate. Qed.
