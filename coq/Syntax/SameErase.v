(* Syntax/SameErase.v — the erasure [strict] looks at nothing but the kind and the text of
   the tokens it keeps: positions, offsets, the comma tokens, the separators of statements
   and the recorded node positions can be changed at will ("whitespace, comments, redundant
   commas ... are ignored" — whitespace and comments are not in the tree at all). *)
From MV Require Import Base.Strs Syntax.Lexer Syntax.Parser Syntax.Same Syntax.SameFacts.
Open Scope N_scope.

Scheme node_mut := Induction for node Sort Prop
  with args_mut := Induction for args Sort Prop
  with block_mut := Induction for block Sort Prop
  with ifs_mut := Induction for ifs Sort Prop.
Combined Scheme tree_mutind from node_mut, args_mut, block_mut, ifs_mut.

Section Retok.
  Variable g : token -> token.          (* what happens to a token that is kept *)
  Variable h : token -> token.          (* ... to punctuation: commas, parentheses, eol, keywords *)
  Variable q : pos -> pos.              (* ... to a recorded position *)
  Variable cs : list token -> list token.   (* ... to a list of commas (e.g. drop the trailing one) *)
  Hypothesis Hk : forall t, tk (g t) = tk t.
  Hypothesis Ht : forall t, ttext (g t) = ttext t.

  Fixpoint rt (n : node) : node :=
    match n with
    | NEmpty p => NEmpty (q p)
    | NBool t => NBool (g t) | NId t => NId (g t) | NNum t => NNum (g t) | NStr t => NStr (g t)
    | NContinue kw p => NContinue (g kw) (q p)
    | NBreak kw p => NBreak (g kw) (q p)
    | NParen lp e rp => NParen (h lp) (rt e) (h rp)
    | NArray lb a cms rb => NArray (h lb) (rt_args a) (cs cms) (h rb)
    | NDict lc a cms rc => NDict (h lc) (rt_args a) (cs cms) (h rc)
    | NFunc name lp a cms rp => NFunc (g name) (h lp) (rt_args a) (cs cms) (h rp)
    | NMethod obj dot name lp a cms rp => NMethod (rt obj) (h dot) (g name) (h lp) (rt_args a) (cs cms) (h rp)
    | NIndex obj lb idx rb => NIndex (rt obj) (h lb) (rt idx) (h rb)
    | NNot op p e => NNot (h op) (q p) (rt e)
    | NUMinus op p e => NUMinus (h op) (q p) (rt e)
    | NArith l op r => NArith (rt l) (g op) (rt r)
    | NCmp l op r => NCmp (rt l) (g op) (rt r)
    | NNotIn l nt it r => NNotIn (rt l) (h nt) (h it) (rt r)
    | NAnd l op r => NAnd (rt l) (h op) (rt r)
    | NOr l op r => NOr (rt l) (h op) (rt r)
    | NTernary c qm t colon f => NTernary (rt c) (h qm) (rt t) (h colon) (rt f)
    | NAssign name op v => NAssign (g name) (h op) (rt v)
    | NPlusAssign name op v => NPlusAssign (g name) (h op) (rt v)
    | NIf i endif => NIf (rt_ifs i) (h endif)
    | NIfElse i els eol b endif => NIfElse (rt_ifs i) (h els) (h eol) (rt_block b) (h endif)
    | NForeach fe v1 cv2 colon items b endfe =>
        NForeach (h fe) (g v1) (match cv2 with Some (cm, v2) => Some (h cm, g v2) | None => None end)
                 (h colon) (rt items) (rt_block b) (h endfe)
    end
  with rt_args (a : args) : args :=
    match a with
    | ANil => ANil
    | APos n r => APos (rt n) (rt_args r)
    | AKw k colon v r => AKw (rt k) (h colon) (rt v) (rt_args r)
    end
  with rt_block (b : block) : block :=
    match b with
    | BNil => BNil
    | BLine n eol r => BLine (rt n) (option_map h eol) (rt_block r)
    end
  with rt_ifs (i : ifs) : ifs :=
    match i with
    | INil => INil
    | ICons kw c eol b r => ICons (h kw) (rt c) (h eol) (rt_block b) (rt_ifs r)
    end.

  Lemma lit_body_g t : lit_body (g t) = lit_body t.
  Proof. unfold lit_body. rewrite Hk, Ht. reflexivity. Qed.
  Lemma is_empty_rt n : is_empty (rt n) = is_empty n.
  Proof. destruct n; reflexivity. Qed.

  Lemma strict_rt_all :
    (forall n, strict [] (rt n) = strict [] n) /\
    (forall a, strict_args [] (rt_args a) = strict_args [] a) /\
    (forall b, strict_block [] (rt_block b) = strict_block [] b) /\
    (forall i, strict_ifs [] (rt_ifs i) = strict_ifs [] i).
  Proof.
    apply tree_mutind; intros; cbn [rt rt_args rt_block rt_ifs strict strict_args strict_block strict_ifs mem_N];
      rewrite ?Hk, ?Ht, ?lit_body_g, ?is_empty_rt; try congruence.
    (* foreach: the optional second variable *)
    all: try (match goal with o : option (token * token) |- _ => destruct o as [[? ?]|] end; rewrite ?Ht; congruence).
    rewrite H, H0. reflexivity.
  Qed.

  Theorem strict_ignores_positions b : prog [] (rt_block b) = prog [] b.
  Proof. unfold prog. f_equal. apply strict_rt_all. Qed.

  Corollary same_program_ignores_positions sort b : same_program sort (rt_block b) b = true.
  Proof.
    unfold same_program. rewrite strict_ignores_positions. apply enode_eqb_eq. reflexivity.
  Qed.
End Retok.
