(* Syntax/RawPrintFacts.v — the print/parse identity of the trivia-aware model:
       parse_with_trivia s = TOk tb  ->  raw_print tb = s          (byte for byte, every s)
   whenever no argument list of the tree has a positional argument after a keyword argument
   (the known finding: RawPrinter emits `arguments` before `kwargs`); the unguarded statement
   is refuted by a witness.  Ingredients: the lexer is lossless (LexerFacts), the tree lists
   exactly the significant tokens in order (ParserFacts), every tree position holds a token of
   the kind the parser accepted there (KindFacts), keyword/string token texts have the shape
   RawPrinter re-assembles (TokenShape). *)
From MV Require Import Base.Strs Syntax.Lexer Syntax.Parser Syntax.Yield Syntax.LexerFacts
  Syntax.ParserFacts Syntax.FuelFacts Syntax.KindFacts Syntax.TokenShape Syntax.Trivia Syntax.RawPrint.
From Coq Require Import Lia.
Open Scope N_scope.

(* ------------------------------------------------------------------ chunks *)
(* the text a chunk stands for: the token itself - unless it is an 'eol', whose text is part of
   what the previous getsym collected - and the trivia read after it *)
Definition own (t : token) : str := if is_eol t then [] else ttext t.
Definition ctext (C : list (token * wsl)) : str :=
  concat (map (fun c => own (fst c) ++ texts_ (snd c)) C).

Lemma ctext_nil : ctext [] = [].
Proof. reflexivity. Qed.
Lemma ctext_cons t g C : ctext ((t, g) :: C) = own t ++ texts_ g ++ ctext C.
Proof. unfold ctext. cbn. rewrite <- app_assoc. reflexivity. Qed.
Lemma ctext_app a b : ctext (a ++ b) = ctext a ++ ctext b.
Proof. unfold ctext. rewrite map_app, concat_app. reflexivity. Qed.
Lemma texts_app_ a b : texts_ (a ++ b) = texts_ a ++ texts_ b.
Proof. unfold texts_. rewrite map_app, concat_app. reflexivity. Qed.
Lemma own_neol t : neol t = true -> own t = ttext t.
Proof. unfold neol, own, is_eol. destruct (kind_beq (tk t) KEol); [discriminate | reflexivity]. Qed.
Lemma own_eol t : iseol t = true -> own t = [].
Proof. unfold iseol, own, is_eol. intros ->. reflexivity. Qed.

(* the chunks of a token list spell the token list; their tokens are the significant ones *)
Lemma chunk_spec ts :
  texts_ (fst (chunk ts)) ++ ctext (snd (chunk ts)) = texts_ ts /\
  map fst (snd (chunk ts)) = significant ts.
Proof.
  induction ts as [|t r [IH1 IH2]]; [split; reflexivity|].
  cbn [chunk]. destruct (chunk r) as [w cs]. cbn [fst snd] in *.
  unfold significant in *. cbn [filter].
  destruct (is_trivia (tk t)) eqn:T; cbn [negb fst snd].
  - split; [|exact IH2]. change (texts_ (t :: w)) with (ttext t ++ texts_ w).
    change (texts_ (t :: r)) with (ttext t ++ texts_ r). rewrite <- app_assoc, IH1. reflexivity.
  - assert (E : forall w0, texts_ w0 ++ ctext ((t, w) :: cs) = texts_ w0 ++ own t ++ texts_ r).
    { intro w0. rewrite ctext_cons, IH1. reflexivity. }
    change (texts_ (t :: r)) with (ttext t ++ texts_ r).
    destruct (is_eol t) eqn:L; cbn [fst snd map]; (split; [|rewrite IH2; reflexivity]); rewrite E; unfold own; rewrite L.
    + change (texts_ [t]) with (ttext t ++ []). rewrite app_nil_r. reflexivity.
    + reflexivity.
Qed.

Lemma mf_app (C : list (token * wsl)) a b :
  map fst C = a ++ b -> exists Ca Cb, C = Ca ++ Cb /\ map fst Ca = a /\ map fst Cb = b.
Proof.
  revert C; induction a as [|x a IH]; intros C H.
  - exists [], C. auto.
  - destruct C as [|c C]; [discriminate|]. cbn in H. inversion H; subst.
    destruct (IH C H2) as (Ca & Cb & -> & Ha & Hb). exists (c :: Ca), Cb. cbn. rewrite Ha. auto.
Qed.
Lemma mf_cons (C : list (token * wsl)) t l :
  map fst C = t :: l -> exists g Cl, C = (t, g) :: Cl /\ map fst Cl = l.
Proof. destruct C as [|[t' g] C]; [discriminate|]. cbn. intro H; inversion H; subst. eauto. Qed.
Lemma mf_nil (C : list (token * wsl)) : map fst C = [] -> C = [].
Proof. destruct C; [reflexivity | discriminate]. Qed.

(* ------------------------------------------------------------------ argument order *)
(* the source-order printing of an argument list (what the identity needs) ... *)
Fixpoint rp_src (a : titems) (cms : list sym) : str :=
  match a with
  | TANil => []
  | TAPos n r =>
      match cms with
      | c :: cs => rp n ++ p_sym c ++ rp_src r cs
      | [] => rp n ++ rp_src r []
      end
  | TAKw k colon v r =>
      match cms with
      | c :: cs => rp k ++ p_sym colon ++ rp v ++ p_sym c ++ rp_src r cs
      | [] => rp k ++ p_sym colon ++ rp v ++ rp_src r []
      end
  end.
Fixpoint same_shape (a : args) (ta : titems) : Prop :=
  match a, ta with
  | ANil, TANil => True
  | APos _ r, TAPos _ r' => same_shape r r'
  | AKw _ _ _ r, TAKw _ _ _ r' => same_shape r r'
  | _, _ => False
  end.

Lemma nopos a : forall ta cms, same_shape a ta -> pos_only a = ANil ->
  rp_pos ta cms = ([], cms) /\ rp_kw ta cms = rp_src ta cms.
Proof.
  induction a as [|n r IH|k c v r IH]; intros [|n' r'|k' c' v' r'] cms S H; try contradiction; try discriminate.
  - split; reflexivity.
  - cbn [same_shape pos_only] in *. cbn [rp_pos rp_kw rp_src].
    split; [apply IH; assumption|].
    destruct cms as [|x cs]; rewrite (proj2 (IH r' _ S H)); reflexivity.
Qed.

(* ... is what RawPrinter emits (arguments first, then kwargs) when no positional argument
   follows a keyword argument *)
Lemma raw_src a : forall ta cms, same_shape a ta -> args_order_ok a = true ->
  fst (rp_pos ta cms) ++ rp_kw ta (snd (rp_pos ta cms)) = rp_src ta cms.
Proof.
  induction a as [|n r IH|k c v r IH]; intros [|n' r'|k' c' v' r'] cms S H; try contradiction.
  - reflexivity.
  - cbn [same_shape args_order_ok] in *. cbn [rp_pos rp_kw rp_src].
    destruct cms as [|x cs].
    + specialize (IH r' [] S H). destruct (rp_pos r' []) as [s cs']. cbn [fst snd] in *.
      rewrite <- app_assoc, IH. reflexivity.
    + specialize (IH r' cs S H). destruct (rp_pos r' cs) as [s cs']. cbn [fst snd] in *.
      rewrite <- !app_assoc, IH. reflexivity.
  - cbn [same_shape args_order_ok] in *.
    destruct (pos_only r) eqn:PO; try discriminate.
    cbn [rp_pos]. destruct (nopos r r' cms S PO) as [E1 _]. rewrite E1. cbn [fst snd app rp_kw rp_src].
    destruct cms as [|x cs]; rewrite (proj2 (nopos r r' _ S PO)); reflexivity.
Qed.

(* ------------------------------------------------------------------ leaves *)
Lemma firstn_len_app {A} (b x : list A) : firstn (length b) (b ++ x) = b.
Proof. induction b; simpl; [destruct x; reflexivity | f_equal; assumption]. Qed.
Lemma cut3_app b : cut3 (b ++ sq3) = b.
Proof.
  unfold cut3. rewrite app_length. change (length sq3) with 3%nat.
  replace (length b + 3 - 3)%nat with (length b) by lia. apply firstn_len_app.
Qed.
Lemma isk_neol k t : isk k t = true -> k <> KEol -> neol t = true.
Proof.
  unfold isk, neol. intros H Hk. apply kind_beq_eq in H.
  destruct (kind_beq (tk t) KEol) eqn:E; [|reflexivity]. apply kind_beq_eq in E. congruence.
Qed.
Lemma p_bool_ok t : twf t -> isk KTrue t || isk KFalse t = true -> p_bool t = ttext t /\ neol t = true.
Proof.
  unfold twf, isk, p_bool, neol. intros W H.
  destruct (tk t) eqn:K; try discriminate; cbn; rewrite W; auto.
Qed.
Lemma p_str_ok t : twf t -> string_kind (tk t) = true -> p_str t = ttext t /\ neol t = true.
Proof.
  unfold twf, p_str, tok_value, neol. intros W H.
  destruct (tk t) eqn:K; try discriminate; destruct W as [b Hb]; rewrite Hb; cbn [is_fstring is_multiline kind_beq negb];
    (split; [|reflexivity]).
  - change (drop 4 (c_f :: sq3 ++ b ++ sq3)) with (b ++ sq3). rewrite cut3_app. reflexivity.
  - change (drop 2 (c_f :: c_sq :: b ++ [c_sq])) with (b ++ [c_sq]). rewrite removelast_last. reflexivity.
  - change (drop 3 (sq3 ++ b ++ sq3)) with (b ++ sq3). rewrite cut3_app. reflexivity.
  - change (drop 1 (c_sq :: b ++ [c_sq])) with (b ++ [c_sq]). rewrite removelast_last. reflexivity.
Qed.
Lemma p_kw_ok k t txt : isk k t = true -> k <> KEol -> (twf t -> tk t = k -> ttext t = txt) -> twf t ->
  txt = ttext t /\ neol t = true.
Proof.
  intros H Hk Hx W. split; [|eapply isk_neol; eassumption].
  symmetry. apply Hx; [exact W|]. apply kind_beq_eq. exact H.
Qed.

(* BaseNode.append_whitespaces adds to what every visit_* emits last *)
Lemma rp_add_ws n x : rp (add_ws n x) = rp n ++ texts_ x.
Proof.
  destruct n; cbn [add_ws rp]; unfold p_ws; rewrite texts_app_, <- ?app_assoc; try reflexivity.
Qed.
Lemma skipn_len_app {A} (a b : list A) : skipn (length a) (a ++ b) = b.
Proof. induction a; simpl; [reflexivity | assumption]. Qed.

(* ------------------------------------------------------------------ 'not' 'in' *)
(* between a 'not' token and an 'in' token that follows it there is some trivia (otherwise
   mparser.py:867 would read `.value` of None) *)
Fixpoint nin_ok (C : list (token * wsl)) : Prop :=
  match C with
  | (t1, g1) :: ((t2, _) :: _) as r => (isk KNot t1 = true -> isk KIn t2 = true -> g1 <> []) /\ nin_ok r
  | _ => True
  end.
Lemma nin_tail c C : nin_ok (c :: C) -> nin_ok C.
Proof. destruct c as [t g]. destruct C as [|[t2 g2] r]; cbn; tauto. Qed.
Lemma nin_app a b : nin_ok (a ++ b) -> nin_ok a /\ nin_ok b.
Proof.
  induction a as [|[t g] a IH]; [cbn; tauto|]. intro H.
  pose proof (nin_tail _ _ H) as Ht. apply IH in Ht. destruct Ht as [Ha Hb]. split; [|exact Hb].
  destruct a as [|[t2 g2] r]; [exact I|]. cbn in H |- *. tauto.
Qed.
Lemma nin_pair t1 g1 t2 g2 r : nin_ok ((t1, g1) :: (t2, g2) :: r) ->
  (isk KNot t1 = true -> isk KIn t2 = true -> g1 <> []) /\ nin_ok ((t2, g2) :: r).
Proof. cbn. tauto. Qed.

(* ------------------------------------------------------------------ the identity, by induction on the tree *)
Scheme node_mt := Induction for node Sort Prop
  with args_mt := Induction for args Sort Prop
  with block_mt := Induction for block Sort Prop
  with ifs_mt := Induction for ifs Sort Prop.
Combined Scheme tree4_ind from node_mt, args_mt, block_mt, ifs_mt.

Definition rp_opt (o : option tnode) : str := match o with Some l => rp l | None => [] end.

(* replaying a node over the chunks C0 of its own tokens, with nothing pending: the chunks are
   consumed, what is printed plus what stays pending spells the chunks; an expression leaves
   nothing pending (an if/foreach clause leaves what follows its endif/endforeach) *)
Definition Qn (n : node) : Prop := forall C0 C' bad,
  map fst C0 = yield n -> Forall twf (yield n) -> wk n = true -> nin_ok C0 ->
  exists tn pend', at_node n (mkT (C0 ++ C') [] bad) = (tn, mkT C' pend' bad) /\
    (order_ok n = true -> rp tn ++ texts_ pend' = ctext C0) /\ (is_expr n = true -> pend' = []).

Definition Qitems (a : args) : Prop := forall cms C0 C' bad,
  map fst C0 = interleave (src_items a) cms -> Forall twf (interleave (src_items a) cms) ->
  wk_args a = true -> forallb neol cms = true -> nin_ok C0 ->
  exists ti cl, at_items a cms (mkT (C0 ++ C') [] bad) = (ti, cl, mkT C' [] bad) /\
     (order_ok_args a = true -> rp_src ti cl = ctext C0) /\ same_shape a ti /\ (cms = [] -> cl = []).
Definition Qargs (a : args) : Prop := forall cms C0 C' bad,
  map fst C0 = interleave (src_items a) cms -> Forall twf (interleave (src_items a) cms) ->
  wk_args a = true -> forallb neol cms = true -> nin_ok C0 ->
  exists ta, at_args a cms (mkT (C0 ++ C') [] bad) = (ta, mkT C' [] bad) /\
    (order_ok_args a = true -> args_order_ok a = true -> rp_args ta = ctext C0).

Definition Qlines (b : block) : Prop := forall last pre pend C0 C' bad,
  map fst C0 = yield_block b -> Forall twf (yield_block b) -> wk_block b = true -> nin_ok C0 ->
  exists pre' ls, at_lines b last pre (mkT (C0 ++ C') pend bad) = (pre', ls, mkT C' [] bad) /\
    (order_ok_block b = true -> p_ws pre' ++ rp_lines ls = p_ws pre ++ rp_opt last ++ texts_ pend ++ ctext C0) /\
    (last <> None -> pre' = pre).

Definition Qifs (i : ifs) : Prop := forall C0 C' bad,
  map fst C0 = yield_ifs i -> Forall twf (yield_ifs i) -> wk_ifs i = true -> nin_ok C0 ->
  exists ti, at_ifs i (mkT (C0 ++ C') [] bad) = (ti, mkT C' [] bad) /\ (order_ok_ifs i = true -> rp_ifs ti = ctext C0).
Definition Pi (i : ifs) : Prop :=
  Qifs i /\ match i with INil => True | ICons _ c _ b r => Qn c /\ Qlines b /\ Qifs r end.

Ltac splits :=
  repeat match goal with
  | H : _ && _ = true |- _ => apply andb_prop in H; destruct H
  | H : Forall _ (_ ++ _) |- _ => apply Forall_app in H; destruct H
  | H : Forall _ (_ :: _) |- _ => apply Forall_cons_iff in H; destruct H
  | H : map fst _ = _ ++ _ |- _ => apply mf_app in H; destruct H as (? & ? & -> & ? & ?)
  | H : map fst _ = _ :: _ |- _ => apply mf_cons in H; destruct H as (? & ? & -> & ?)
  | H : map fst _ = [] |- _ => apply mf_nil in H; subst
  | H : nin_ok (_ ++ _) |- _ => apply nin_app in H; destruct H
  | H : nin_ok (_ :: _ :: _) |- _ => apply nin_pair in H; destruct H
  | H : nin_ok [_] |- _ => clear H
  | H : nin_ok [] |- _ => clear H
  | H : nin_ok (_ :: _) |- _ => apply nin_tail in H
  end.

Ltac red_st0 := cbn [mk_sym mk_idn mk_sym_cur t_accept t_flush t_chunks t_pend t_bad app fst snd].
Ltac red_st := repeat progress (red_st0; rewrite <- ?app_assoc); red_st0.

Ltac call_node :=
  match goal with
  | IH : Qn ?n |- context [at_node ?n (mkT (?Ca ++ ?Cb) [] ?b)] =>
      let tn := fresh "tn" in let pd := fresh "pd" in
      let E := fresh "E" in let R := fresh "R" in let Z := fresh "Z" in
      destruct (IH Ca Cb b ltac:(assumption) ltac:(assumption) ltac:(assumption) ltac:(assumption)) as (tn & pd & E & R & Z);
      rewrite E; clear E;
      try (specialize (Z ltac:(assumption)); subst pd);
      red_st
  end.
Ltac call_args :=
  match goal with
  | IH : Qargs ?a |- context [at_args ?a ?cms (mkT (?Ca ++ ?Cb) [] ?b)] =>
      let ta := fresh "ta" in let E := fresh "E" in let R := fresh "R" in
      destruct (IH cms Ca Cb b ltac:(assumption) ltac:(assumption) ltac:(assumption) ltac:(assumption)
                   ltac:(assumption)) as (ta & E & R);
      rewrite E; clear E; red_st
  end.
Ltac call_items :=
  match goal with
  | IH : Qitems ?a |- context [at_items ?a ?cms (mkT (?Ca ++ ?Cb) [] ?b)] =>
      let ti := fresh "ti" in let cl := fresh "cl" in
      let E := fresh "E" in let R := fresh "R" in let S := fresh "S" in let M := fresh "M" in
      destruct (IH cms Ca Cb b ltac:(assumption) ltac:(assumption) ltac:(assumption) ltac:(assumption)
                   ltac:(assumption)) as (ti & cl & E & R & S & M);
      rewrite E; clear E; try (specialize (M eq_refl); subst cl); red_st
  end.
Ltac call_ifs :=
  match goal with
  | IH : Qifs ?i |- context [at_ifs ?i (mkT (?Ca ++ ?Cb) [] ?b)] =>
      let ti := fresh "ti" in let E := fresh "E" in let R := fresh "R" in
      destruct (IH Ca Cb b ltac:(assumption) ltac:(assumption) ltac:(assumption) ltac:(assumption)) as (ti & E & R);
      rewrite E; clear E; red_st
  end.
(* mk_block (at_lines b) over the chunks of b, with [pend] pending *)
Lemma block_call b : Qlines b -> forall pend C0 C' bad,
  map fst C0 = yield_block b -> Forall twf (yield_block b) -> wk_block b = true -> nin_ok C0 ->
  exists tb, mk_block (at_lines b) (mkT (C0 ++ C') pend bad) = (tb, mkT C' [] bad) /\
    (order_ok_block b = true -> rp_block tb = texts_ pend ++ ctext C0).
Proof.
  intros Q pend C0 C' bad Hm Hf Hk Hn. unfold mk_block. red_st.
  destruct (Q None pend [] C0 C' bad Hm Hf Hk Hn) as (pre' & ls & E & R & _).
  rewrite E. exists (TBlock pre' ls). split; [reflexivity|]. intro Ho.
  cbn [rp_block]. rewrite (R Ho). reflexivity.
Qed.
Ltac call_block :=
  match goal with
  | IH : Qlines ?b |- context [mk_block (at_lines ?b) (mkT (?Ca ++ ?Cb) ?pend ?bd)] =>
      let tb := fresh "tb" in let E := fresh "E" in let R := fresh "R" in
      destruct (block_call b IH pend Ca Cb bd ltac:(assumption) ltac:(assumption) ltac:(assumption) ltac:(assumption))
        as (tb & E & R);
      rewrite E; clear E; red_st
  end.

Ltac norm_txt :=
  cbn [rp rp_args rp_block rp_lines rp_ifs rp_src]; unfold p_sym, p_idn, p_ws; cbn [sy_val sy_ws sy_tok id_tok id_ws];
  repeat first [rewrite ctext_app | rewrite ctext_cons | rewrite ctext_nil | rewrite texts_app_];
  repeat match goal with
         | H : neol ?t = true |- context [own ?t] => rewrite (own_neol t H)
         | H : iseol ?t = true |- context [own ?t] => rewrite (own_eol t H)
         end;
  repeat match goal with
         | R : rp _ = _ |- _ => rewrite R; clear R
         | R : rp_args _ = _ |- _ => rewrite R; clear R
         | R : rp_block _ = _ |- _ => rewrite R; clear R
         | R : rp_ifs _ = _ |- _ => rewrite R; clear R
         | R : rp_src _ _ = _ |- _ => rewrite R; clear R
         end;
  change (texts_ []) with (@nil char);
  rewrite <- ?app_assoc; rewrite ?app_nil_r; cbn [app].
(* the order hypothesis of the print equation: split it and feed the sub-results *)
Ltac use_order :=
  cbn [order_ok order_ok_args order_ok_block order_ok_ifs] in *; splits;
  repeat match goal with
         | R : _ = true -> _ |- _ => specialize (R ltac:(assumption)); rewrite ?app_nil_r in R
         end.
Ltac fin := eexists; eexists; split; [reflexivity|]; split; [let Ho := fresh "Ho" in intro Ho; use_order; norm_txt; try reflexivity | first [ intros _; reflexivity | let X := fresh in intro X; discriminate X | idtac ] ].

Ltac start :=
  let C0 := fresh "C0" in let C' := fresh "C'" in let bad := fresh "bad" in
  intros C0 C' bad Hm Hf Hk Hn;
  cbn [yield yield_block yield_ifs src_items opt_tok wk wk_args wk_block wk_ifs
       order_ok order_ok_args order_ok_block order_ok_ifs is_expr] in *; splits;
  cbn [at_node at_args at_items at_lines at_ifs]; red_st.

Section Cases.
  Lemma q_empty p : Qn (NEmpty p).
  Proof. start. fin. Qed.
  Lemma q_bool t : Qn (NBool t).
  Proof. start. destruct (p_bool_ok t) as [P N]; try assumption. fin. rewrite P. reflexivity. Qed.
  Lemma q_id t : Qn (NId t).
  Proof. start. fin. Qed.
  Lemma q_num t : Qn (NNum t).
  Proof. start. fin. Qed.
  Lemma q_str t : Qn (NStr t).
  Proof. start. destruct (p_str_ok t) as [P N]; try assumption. fin. rewrite P. reflexivity. Qed.
  Lemma kw_text k t txt : twf t -> isk k t = true -> k <> KEol ->
    (match k with KContinue | KBreak => True | _ => False end) ->
    txt = (match k with KContinue => s2l "continue" | _ => s2l "break" end) -> txt = ttext t /\ neol t = true.
  Proof.
    intros W H Hk Hc ->. split; [|eapply isk_neol; eassumption].
    unfold isk in H. apply kind_beq_eq in H. unfold twf in W. rewrite H in W.
    destruct k; try contradiction; symmetry; exact W.
  Qed.
  Lemma q_continue kw p : Qn (NContinue kw p).
  Proof.
    start. destruct (kw_text KContinue kw (s2l "continue")) as [P N]; try assumption; try exact I; try discriminate; try reflexivity.
    fin. rewrite P. reflexivity.
  Qed.
  Lemma q_break kw p : Qn (NBreak kw p).
  Proof.
    start. destruct (kw_text KBreak kw (s2l "break")) as [P N]; try assumption; try exact I; try discriminate; try reflexivity.
    fin. rewrite P. reflexivity.
  Qed.
  Lemma q_paren lp e rpar : Qn e -> Qn (NParen lp e rpar).
  Proof. intro IHe. start. call_node. fin. Qed.
  Lemma q_array lb a cms rb : Qargs a -> Qn (NArray lb a cms rb).
  Proof. intro IHa. start. call_args. fin. Qed.
  Lemma q_dict lb a cms rb : Qargs a -> Qn (NDict lb a cms rb).
  Proof. intro IHa. start. call_args. fin. Qed.
  Lemma q_func name lp a cms rpar : Qargs a -> Qn (NFunc name lp a cms rpar).
  Proof. intro IHa. start. call_args. fin. Qed.
  Lemma q_method obj dot name lp a cms rpar : Qn obj -> Qargs a -> Qn (NMethod obj dot name lp a cms rpar).
  Proof. intros IHo IHa. start. call_node. call_args. fin. Qed.
  Lemma q_index obj lb idx rb : Qn obj -> Qn idx -> Qn (NIndex obj lb idx rb).
  Proof. intros IHo IHi. start. call_node. call_node. fin. Qed.
  Lemma q_not op p e : Qn e -> Qn (NNot op p e).
  Proof. intro IHe. start. call_node. fin. Qed.
  Lemma q_uminus op p e : Qn e -> Qn (NUMinus op p e).
  Proof. intro IHe. start. call_node. fin. Qed.
  Lemma q_arith l op r : Qn l -> Qn r -> Qn (NArith l op r).
  Proof. intros IHl IHr. start. call_node. call_node. fin. Qed.
  Lemma q_cmp l op r : Qn l -> Qn r -> Qn (NCmp l op r).
  Proof. intros IHl IHr. start. call_node. call_node. fin. Qed.
  Lemma q_and l op r : Qn l -> Qn r -> Qn (NAnd l op r).
  Proof. intros IHl IHr. start. call_node. call_node. fin. Qed.
  Lemma q_or l op r : Qn l -> Qn r -> Qn (NOr l op r).
  Proof. intros IHl IHr. start. call_node. call_node. fin. Qed.
  Lemma q_ternary c q t colon f : Qn c -> Qn t -> Qn f -> Qn (NTernary c q t colon f).
  Proof. intros IHc IHt IHf. start. call_node. call_node. call_node. fin. Qed.
  Lemma q_assign name op v : Qn v -> Qn (NAssign name op v).
  Proof. intro IHv. start. call_node. fin. Qed.
  Lemma q_plusassign name op v : Qn v -> Qn (NPlusAssign name op v).
  Proof. intro IHv. start. call_node. fin. Qed.
  Lemma q_notin l nt it r : Qn l -> Qn r -> Qn (NNotIn l nt it r).
  Proof.
    intros IHl IHr. start. call_node.
    rewrite skipn_len_app.
    match goal with Hg : isk KNot nt = true -> isk KIn it = true -> ?g <> [] |- _ =>
      specialize (Hg ltac:(assumption) ltac:(assumption)); destruct g as [|w0 g0]; [contradiction|] end.
    rewrite orb_false_r. red_st. call_node.
    assert (neol nt = true) by (eapply isk_neol; [eassumption | discriminate]).
    assert (neol it = true) by (eapply isk_neol; [eassumption | discriminate]).
    fin.
  Qed.
  Lemma q_if i endif : Pi i -> Qn (NIf i endif).
  Proof.
    intros [Qi Hc]. destruct i as [|kw c eol b r].
    - start. fin.
    - destruct Hc as (Qc & Qb & Qr). start. call_node. call_block. call_ifs. fin.
  Qed.
  Lemma q_ifelse i els eol2 b2 endif : Pi i -> Qlines b2 -> Qn (NIfElse i els eol2 b2 endif).
  Proof.
    intros [Qi Hc] Qb2. destruct i as [|kw c eol b r].
    - start. call_block. fin.
    - destruct Hc as (Qc & Qb & Qr). start. call_node. call_block. call_ifs. call_block. fin.
  Qed.
  Lemma q_foreach fe v1 cv2 colon items b endfe : Qn items -> Qlines b -> Qn (NForeach fe v1 cv2 colon items b endfe).
  Proof.
    intros Qi Qb. destruct cv2 as [[cm v2]|]; start; call_node; call_block; fin.
  Qed.
End Cases.

(* ------------------------------------------------------------------ argument lists *)
Lemma rp_args_src a ti cl w : same_shape a ti -> args_order_ok a = true ->
  rp_args (TArgs ti cl w) = rp_src ti cl ++ p_ws w.
Proof.
  intros S H. cbn [rp_args]. pose proof (raw_src a ti cl S H) as E.
  destruct (rp_pos ti cl) as [s cs']. cbn [fst snd] in E. rewrite app_assoc, E. reflexivity.
Qed.

Ltac start_args :=
  let cms := fresh "cms" in let C0 := fresh "C0" in let C' := fresh "C'" in let bad := fresh "bad" in
  intros cms C0 C' bad Hm Hf Hk Hc Hn;
  destruct cms; cbn [src_items interleave wk_args order_ok_args forallb] in *; splits;
  cbn [at_node at_args at_items at_lines at_ifs]; red_st.
Ltac fin_items :=
  eexists; eexists; split; [reflexivity|]; split; [let Ho := fresh "Ho" in intro Ho; use_order; norm_txt; try reflexivity | split; [cbn [same_shape]; try assumption; try exact I | first [ intros _; reflexivity | let X := fresh in intro X; discriminate X ] ] ].

Lemma qi_nil : Qitems ANil.
Proof. start_args; fin_items. Qed.
Lemma qi_pos n r : Qn n -> Qitems r -> Qitems (APos n r).
Proof. intros Q1 Q2. start_args; call_node; call_items; fin_items. Qed.
Lemma qi_kw k colon v r : Qn k -> Qn v -> Qitems r -> Qitems (AKw k colon v r).
Proof. intros Q1 Q2 Q3. start_args; call_node; call_node; call_items; fin_items. Qed.

Ltac start_args2 :=
  let cms := fresh "cms" in let C0 := fresh "C0" in let C' := fresh "C'" in let bad := fresh "bad" in
  intros cms C0 C' bad Hm Hf Hk Hc Hn;
  destruct cms; cbn [src_items interleave wk_args order_ok_args forallb] in *; splits;
  cbn [at_node at_args at_items at_lines at_ifs]; red_st.
Ltac fin_args a :=
  eexists; split; [reflexivity|];
  let Ho := fresh "Ho" in let Hao := fresh "Hao" in intros Ho Hao;
  rewrite (rp_args_src a); [ use_order; norm_txt; try reflexivity | cbn [same_shape]; try assumption; try exact I | assumption ].

Lemma qa_nil : Qargs ANil.
Proof. start_args2; fin_args ANil. Qed.
Lemma qa_pos n r : Qn n -> Qitems r -> Qargs (APos n r).
Proof. intros Q1 Q2. start_args2; call_node; call_items; fin_args (APos n r). Qed.
Lemma qa_kw k colon v r : Qn k -> Qn v -> Qitems r -> Qargs (AKw k colon v r).
Proof. intros Q1 Q2 Q3. start_args2; call_node; call_node; call_items; fin_args (AKw k colon v r). Qed.

(* ------------------------------------------------------------------ code blocks *)
Lemma blk_flush_spec last pre C pend bad :
  exists last1 pre1, blk_flush last pre (mkT C pend bad) = (last1, pre1, mkT C [] bad) /\
    p_ws pre1 ++ rp_opt last1 = p_ws pre ++ rp_opt last ++ texts_ pend /\
    (last <> None -> pre1 = pre /\ last1 <> None) /\ (last = None -> last1 = None).
Proof.
  unfold blk_flush. cbn [t_flush t_pend t_chunks t_bad]. destruct last as [l|].
  - exists (Some (add_ws l pend)), pre. repeat split; try discriminate.
    cbn [rp_opt]. rewrite rp_add_ws. reflexivity.
  - exists None, (pre ++ pend). repeat split; try congruence.
    cbn [rp_opt]. unfold p_ws. rewrite texts_app_, !app_nil_r. reflexivity.
Qed.
Lemma rp_lines_opt last ls : rp_lines (opt_line last ls) = rp_opt last ++ rp_lines ls.
Proof. destruct last; reflexivity. Qed.

Lemma ql_nil : Qlines BNil.
Proof.
  intros last pre pend C0 C' bad Hm Hf Hk Hn. cbn [yield_block] in Hm. apply mf_nil in Hm. subst C0.
  cbn [at_lines app].
  destruct (blk_flush_spec last pre C' pend bad) as (l1 & p1 & E & R & Z1 & Z2). rewrite E.
  exists p1, (opt_line l1 TLNil). split; [reflexivity|]. split.
  - intros _. rewrite rp_lines_opt. cbn [rp_lines]. rewrite ctext_nil, !app_nil_r. exact R.
  - intro Hx. apply Z1 in Hx. tauto.
Qed.

Lemma ql_line n eol r : Qn n -> Qlines r -> Qlines (BLine n eol r).
Proof.
  intros Q1 Q2 last pre pend C0 C' bad Hm Hf Hk Hn.
  cbn [yield_block wk_block] in *.
  destruct (is_empty n) eqn:Em.
  - (* an empty line: nothing is appended to block.lines *)
    destruct n; try discriminate Em.
    destruct eol as [e|]; cbn [yield opt_tok app] in *; splits; cbn [at_lines at_node is_empty app].
    + destruct (blk_flush_spec last pre ((e, x) :: x0 ++ C') pend bad) as (l1 & p1 & E & R & Z1 & Z2). rewrite E. red_st.
      destruct (Q2 l1 p1 x x0 C' bad) as (pre' & ls & E2 & R2 & ZZ); try assumption. rewrite E2.
      exists pre', ls. split; [reflexivity|]. split.
      * intro Ho. cbn [order_ok_block order_ok] in Ho. rewrite (R2 Ho), ctext_cons, (own_eol e) by assumption.
        rewrite app_assoc, R, <- !app_assoc. reflexivity.
      * intro Hx. apply Z1 in Hx. destruct Hx as [-> Hx]. apply ZZ. exact Hx.
    + destruct (blk_flush_spec last pre (C0 ++ C') pend bad) as (l1 & p1 & E & R & Z1 & Z2). rewrite E. red_st.
      destruct (Q2 l1 p1 [] C0 C' bad) as (pre' & ls & E2 & R2 & ZZ); try assumption. rewrite E2.
      exists pre', ls. split; [reflexivity|]. split.
      * intro Ho. cbn [order_ok_block order_ok] in Ho. rewrite (R2 Ho). change (texts_ []) with (@nil char). cbn [app].
        rewrite app_assoc, R, <- !app_assoc. reflexivity.
      * intro Hx. apply Z1 in Hx. destruct Hx as [-> Hx]. apply ZZ. exact Hx.
  - destruct eol as [e|]; cbn [opt_tok app] in *; splits; cbn [at_lines]; rewrite Em; rewrite <- ?app_assoc; cbn [app].
    + destruct (blk_flush_spec last pre (x ++ (e, x1) :: x2 ++ C') pend bad) as (l1 & p1 & E & R & Z1 & Z2). rewrite E.
      call_node.
      destruct (Q2 (Some tn) p1 (pd ++ x1) x2 C' bad) as (pre' & ls & E2 & R2 & ZZ); try assumption. rewrite E2.
      assert (pre' = p1) by (apply ZZ; discriminate). subst pre'.
      exists p1, (opt_line l1 ls). split; [reflexivity|]. split.
      * intro Ho. cbn [order_ok_block] in Ho. apply andb_prop in Ho. destruct Ho as [Ho1 Ho2].
        specialize (R0 Ho1). specialize (R2 Ho2).
        rewrite rp_lines_opt. apply app_inv_head in R2. rewrite R2. cbn [rp_opt].
        rewrite app_assoc, R, ctext_app, ctext_cons, (own_eol e), <- R0, texts_app_ by assumption.
        rewrite <- !app_assoc. reflexivity.
      * intro Hx. apply Z1 in Hx. tauto.
    + destruct (blk_flush_spec last pre (x ++ x0 ++ C') pend bad) as (l1 & p1 & E & R & Z1 & Z2). rewrite E.
      call_node.
      destruct (Q2 (Some tn) p1 pd x0 C' bad) as (pre' & ls & E2 & R2 & ZZ); try assumption. rewrite E2.
      assert (pre' = p1) by (apply ZZ; discriminate). subst pre'.
      exists p1, (opt_line l1 ls). split; [reflexivity|]. split.
      * intro Ho. cbn [order_ok_block] in Ho. apply andb_prop in Ho. destruct Ho as [Ho1 Ho2].
        specialize (R0 Ho1). specialize (R2 Ho2).
        rewrite rp_lines_opt. apply app_inv_head in R2. rewrite R2. cbn [rp_opt].
        rewrite app_assoc, R, ctext_app, <- R0.
        rewrite <- !app_assoc. reflexivity.
      * intro Hx. apply Z1 in Hx. tauto.
Qed.

(* ------------------------------------------------------------------ elif clauses *)
Lemma qf_nil : Pi INil.
Proof.
  split; [|exact I]. intros C0 C' bad Hm Hf Hk Hn. cbn [yield_ifs] in Hm. apply mf_nil in Hm. subst C0.
  exists TINil. split; [reflexivity|]. intros _. reflexivity.
Qed.
Lemma qf_cons kw c eol b r : Qn c -> Qlines b -> Pi r -> Pi (ICons kw c eol b r).
Proof.
  intros Q1 Q2 [Q3 _]. split; [|auto].
  intros C0 C' bad Hm Hf Hk Hn.
  cbn [yield_ifs wk_ifs] in *; splits. cbn [at_ifs]; red_st.
  call_node. call_block. call_ifs.
  eexists; split; [reflexivity|]. intro Ho. use_order. norm_txt. reflexivity.
Qed.

Theorem identity_all :
  (forall n, Qn n) /\ (forall a, Qitems a /\ Qargs a) /\ (forall b, Qlines b) /\ (forall i, Pi i).
Proof.
  apply tree4_ind; intros;
    repeat match goal with H : _ /\ _ |- _ => destruct H end;
    first [ apply q_empty | apply q_bool | apply q_id | apply q_num | apply q_str | apply q_continue | apply q_break
          | apply q_paren | apply q_array | apply q_dict | apply q_func | apply q_method | apply q_index
          | apply q_not | apply q_uminus | apply q_arith | apply q_cmp | apply q_notin | apply q_and | apply q_or
          | apply q_ternary | apply q_assign | apply q_plusassign | apply q_if | apply q_ifelse | apply q_foreach
          | (split; [apply qi_nil | apply qa_nil]) | (split; [apply qi_pos | apply qa_pos])
          | (split; [apply qi_kw | apply qa_kw]) | apply ql_nil | apply ql_line | apply qf_nil | apply qf_cons ];
    assumption.
Qed.

(* ------------------------------------------------------------------ the theorems *)
Lemma adj_tail t r : adj_ok (t :: r) -> adj_ok r.
Proof. destruct r; cbn; tauto. Qed.
Lemma chunk_head r t2 g2 cs' : chunk r = ([], (t2, g2) :: cs') -> exists r', r = t2 :: r'.
Proof.
  destruct r as [|t r0]; cbn [chunk]; [discriminate|].
  destruct (chunk r0) as [w cs]. destruct (is_trivia (tk t)); [discriminate|].
  destruct (is_eol t); [discriminate|]. intro H; inversion H; subst. eauto.
Qed.
Lemma chunk_nin ts : adj_ok ts -> nin_ok (snd (chunk ts)).
Proof.
  induction ts as [|t r IH]; [intros _; exact I|]. intro A.
  specialize (IH (adj_tail _ _ A)). cbn [chunk].
  destruct (chunk r) as [w cs] eqn:Ck. cbn [snd] in IH.
  destruct (is_trivia (tk t)); [exact IH|].
  assert (G : nin_ok ((t, w) :: cs)).
  { destruct cs as [|[t2 g2] cs']; [exact I|]. split; [|exact IH].
    intros K1 K2 Hw. subst w. apply chunk_head in Ck. destruct Ck as [r' ->].
    destruct A as [A _]. apply A. unfold isk in *. split; apply kind_beq_eq; assumption. }
  destruct (is_eol t); exact G.
Qed.

(* Every accepted text has a trivia-annotated tree: the whitespace bookkeeping of the parser never
   fails (in particular the AttributeError of the 'not in' case is unreachable); and when the
   argument lists are in RawPrinter's order, printing that tree gives back the text. *)
Theorem trivia_total s b :
  parse s = Ok b ->
  exists tb, parse_with_trivia s = TOk tb /\ (order_ok_block b = true -> raw_print tb = s).
Proof.
  intros Hp.
  destruct (parse_lossless s b Hp) as (ts & Hl & Hc & _ & Hs).
  pose proof (lex_wf s ts Hl) as Hw. pose proof (parse_kinds s b Hp) as Hk.
  pose proof (chunk_nin ts (lex_adj s ts Hl)) as Hn.
  unfold parse_with_trivia. rewrite Hp.
  assert (L : exists e, lex_prefix (length s) s init_lst = (ts, e)).
  { unfold lex in Hl. destruct s as [|c r]; [inversion Hl; subst; exists None; reflexivity|].
    destruct (c =? c_bom); [discriminate|].
    destruct (lex_prefix (length (c :: r)) (c :: r) init_lst) as [ts' [[l col]|]]; [discriminate|].
    inversion Hl; subst. eauto. }
  destruct L as [e L]. rewrite L.
  pose proof (chunk_spec ts) as [Hc1 Hc2]. destruct (chunk ts) as [w0 cs]. cbn [fst snd] in *.
  destruct identity_all as (_ & _ & Hb & _).
  unfold at_block.
  destruct (block_call b (Hb b) w0 cs [] false) as (tb' & E & R).
  - rewrite Hc2. exact Hs.
  - rewrite <- Hs. apply Forall_filter. exact Hw.
  - exact Hk.
  - exact Hn.
  - rewrite app_nil_r in E. rewrite E. cbn [t_bad]. exists tb'. split; [reflexivity|].
    intro Ho. unfold raw_print. rewrite (R Ho), Hc1. exact Hc.
Qed.

Theorem print_parse_identity s b tb :
  parse s = Ok b -> order_ok_block b = true -> parse_with_trivia s = TOk tb -> raw_print tb = s.
Proof.
  intros Hp Ho Ht. destruct (trivia_total s b Hp) as (tb' & E & R).
  rewrite E in Ht. inversion Ht; subst tb'. exact (R Ho).
Qed.

(* the trivia-aware parse fails exactly when the parse fails, with the same position; it never
   answers TPyErr or TFuel *)
Theorem parse_with_trivia_outcomes s :
  (exists p, parse s = Err p /\ parse_with_trivia s = TErr p) \/
  (exists b tb, parse s = Ok b /\ parse_with_trivia s = TOk tb).
Proof.
  destruct (parse s) as [b|p|] eqn:E.
  - right. destruct (trivia_total s b E) as (tb & Et & _). eauto.
  - left. exists p. split; [reflexivity|]. unfold parse_with_trivia. rewrite E. reflexivity.
  - exfalso. exact (FuelFacts.parse_never_fuel s E).
Qed.

(* Without the guard the identity fails (known finding: a keyword argument before a positional
   one is accepted by the parser and printed after it). *)
Theorem print_parse_identity_refuted :
  exists s tb, parse_with_trivia s = TOk tb /\ raw_print tb <> s.
Proof.
  exists (s2l "f(a: 1, b)").
  destruct (parse_with_trivia (s2l "f(a: 1, b)")) as [tb| | |] eqn:E; try (vm_compute in E; discriminate E).
  exists tb. split; [reflexivity|].
  vm_compute in E. inversion E; subst. vm_compute. discriminate.
Qed.
