(* Syntax/ParserFacts.v — token conservation: the parser never drops, duplicates or
   reorders a significant token. *)
From MV Require Import Base.Strs Syntax.Lexer Syntax.Parser Syntax.Yield.
From Coq Require Import Lia.
Open Scope N_scope.

Lemma kind_beq_eq a b : kind_beq a b = true -> a = b.
Proof. apply internal_kind_dec_bl. Qed.

Lemma advance_spec st st' :
  advance st = Ok st' ->
  (toks st = [] /\ st' = st) \/ (exists t, toks st = t :: toks st' /\ cur st = t).
Proof.
  unfold advance, cur. destruct (toks st) as [|t [|t2 r]] eqn:T.
  - intro H; inversion H; subst. left. auto.
  - destruct (lexerr st); [discriminate|]. intro H; inversion H; subst. right. exists t. auto.
  - intro H; inversion H; subst. right. exists t. auto.
Qed.

Lemma cur_nil_eof st : toks st = [] -> tk (cur st) = KEof.
Proof. unfold cur. intros ->. reflexivity. Qed.

(* accepting a token of a kind other than eof removes exactly that token *)
Lemma accept_some k st t st' :
  k <> KEof -> accept k st = Ok (Some (t, st')) -> toks st = t :: toks st'.
Proof.
  unfold accept. intros Hk. destruct (kind_beq (tk (cur st)) k) eqn:E; [|discriminate].
  destruct (advance st) as [st1| |] eqn:A; cbn; try discriminate. intro H; inversion H; subst.
  apply advance_spec in A. destruct A as [[Hn _]|[t [Ht Hc]]].
  - apply cur_nil_eof in Hn. apply kind_beq_eq in E. congruence.
  - congruence.
Qed.
Lemma accept_none k st : accept k st = Ok None -> True.
Proof. trivial. Qed.
Lemma accept_any_some p st t st' :
  p KEof = false -> accept_any p st = Ok (Some (t, st')) -> toks st = t :: toks st'.
Proof.
  unfold accept_any. intros Hk. destruct (p (tk (cur st))) eqn:E; [|discriminate].
  destruct (advance st) as [st1| |] eqn:A; cbn; try discriminate. intro H; inversion H; subst.
  apply advance_spec in A. destruct A as [[Hn _]|[t [Ht Hc]]].
  - apply cur_nil_eof in Hn. congruence.
  - congruence.
Qed.
Lemma expect_ok k st t st' :
  k <> KEof -> expect k st = Ok (t, st') -> toks st = t :: toks st'.
Proof.
  unfold expect. intros Hk. destruct (accept k st) as [[[t1 st1]|]| |] eqn:A; cbn; try discriminate.
  intro H; inversion H; subst. eapply accept_some; eassumption.
Qed.
Lemma toks_set_tern b st : toks (set_tern b st) = toks st.
Proof. reflexivity. Qed.

(* yield of snoc-ed structures *)
Lemma src_items_snoc_pos a n : src_items (args_snoc_pos a n) = src_items a ++ [yield n].
Proof. induction a; simpl; congruence. Qed.
Lemma src_items_snoc_kw a k c v : src_items (args_snoc_kw a k c v) = src_items a ++ [yield k ++ c :: yield v].
Proof. induction a; simpl; congruence. Qed.
Lemma yield_block_snoc b n e : yield_block (block_snoc b n e) = yield_block b ++ yield n ++ opt_tok e.
Proof. induction b as [|m e' r IH]; simpl; [rewrite ?app_nil_r; reflexivity|]. rewrite IH, <- !app_assoc. reflexivity. Qed.
Lemma yield_ifs_snoc i kw c e b :
  yield_ifs (ifs_snoc i kw c e b) = yield_ifs i ++ kw :: yield c ++ e :: yield_block b.
Proof.
  induction i as [|kw' c' e' b' r IH]; simpl; [rewrite ?app_nil_r; reflexivity|].
  rewrite IH, <- !app_assoc. simpl. rewrite <- !app_assoc. reflexivity.
Qed.
Lemma interleave_snoc items cms it cm :
  length cms = length items ->
  interleave (items ++ [it]) (cms ++ [cm]) = interleave items cms ++ it ++ [cm].
Proof.
  revert cms; induction items as [|x r IH]; intros [|c cs] H; simpl in *; try discriminate.
  - reflexivity.
  - rewrite <- app_assoc. simpl. f_equal. f_equal. apply IH. lia.
Qed.
Lemma interleave_snoc_last items cms it :
  length cms = length items ->
  interleave (items ++ [it]) cms = interleave items cms ++ it.
Proof.
  revert cms; induction items as [|x r IH]; intros [|c cs] H; simpl in *; try discriminate.
  - rewrite app_nil_r. reflexivity.
  - rewrite <- app_assoc. simpl. f_equal. f_equal. apply IH. lia.
Qed.
Lemma is_empty_yield n : is_empty n = true -> yield n = [].
Proof. destruct n; simpl; try discriminate. reflexivity. Qed.
Lemma is_id_yield n t : is_id n = Some t -> n = NId t.
Proof. destruct n; simpl; try discriminate. intro H; inversion H; reflexivity. Qed.

(* ------------------------------------------------------------------ *)
(* What each parsing function guarantees (on success).                  *)

Definition sp_node (f : pst -> res (node * pst)) : Prop :=
  forall st a st', f st = Ok (a, st') -> toks st = yield a ++ toks st'.
Definition sp_loop (f : node -> pst -> res (node * pst)) : Prop :=
  forall l st a st', f l st = Ok (a, st') -> yield l ++ toks st = yield a ++ toks st'.
Definition sp_method (f : node -> token -> pst -> res (node * pst)) : Prop :=
  forall o d st a st', f o d st = Ok (a, st') -> yield o ++ d :: toks st = yield a ++ toks st'.
Definition sp_args (f : pst -> res (args * list token * pst)) : Prop :=
  forall st a cms st', f st = Ok (a, cms, st') ->
    toks st = interleave (src_items a) cms ++ toks st'.
Definition sp_args_loop (f : node -> args -> list token -> pst -> res (args * list token * pst)) : Prop :=
  forall s a cms st a' cms' st', f s a cms st = Ok (a', cms', st') ->
    length cms = length (src_items a) ->
    interleave (src_items a) cms ++ yield s ++ toks st = interleave (src_items a') cms' ++ toks st'.
Definition sp_ifs (f : ifs -> pst -> res (ifs * pst)) : Prop :=
  forall i st i' st', f i st = Ok (i', st') -> yield_ifs i ++ toks st = yield_ifs i' ++ toks st'.
Definition sp_block (f : pst -> res (block * pst)) : Prop :=
  forall st b st', f st = Ok (b, st') -> toks st = yield_block b ++ toks st'.
Definition sp_block_loop (f : block -> pst -> res (block * pst)) : Prop :=
  forall bl st b st', f bl st = Ok (b, st') -> yield_block bl ++ toks st = yield_block b ++ toks st'.

Record all_ok (p : parsers) : Prop := {
  ok_e1 : sp_node (p_e1 p); ok_e2 : sp_node (p_e2 p); ok_or : sp_loop (p_or_loop p);
  ok_e3 : sp_node (p_e3 p); ok_and : sp_loop (p_and_loop p); ok_e4 : sp_node (p_e4 p);
  ok_e5 : sp_node (p_e5 p); ok_add : sp_loop (p_add_loop p); ok_e6 : sp_node (p_e6 p);
  ok_mul : sp_loop (p_mul_loop p); ok_e7 : sp_node (p_e7 p); ok_e8 : sp_node (p_e8 p);
  ok_post : sp_loop (p_postfix_loop p); ok_meth : sp_method (p_method_call p);
  ok_e9 : sp_node (p_e9 p); ok_e10 : sp_node (p_e10 p);
  ok_kv : sp_args (p_key_values p); ok_kvl : sp_args_loop (p_kv_loop p);
  ok_args : sp_args (p_args_ p); ok_argsl : sp_args_loop (p_args_loop p);
  ok_line : sp_node (p_line p); ok_elif : sp_ifs (p_elif_loop p);
  ok_cb : sp_block (p_codeblock p); ok_bl : sp_block_loop (p_block_loop p) }.

(* ------------------------------------------------------------------ *)
(* Inversion of the monadic code.                                       *)

Ltac kne := let X := fresh in intro X; discriminate X.

Ltac inv_step p Hp :=
  match goal with
  | H : Ok _ = Ok _ |- _ => inversion H; subst; clear H
  | H : Err _ = Ok _ |- _ => discriminate H
  | H : Fuel = Ok _ |- _ => discriminate H
  | H : bind ?r _ = Ok _ |- _ =>
      let E := fresh "E" in destruct r eqn:E; cbn [bind] in H; [ | discriminate H | discriminate H ]
  | H : (let '(_, _) := ?x in _) = Ok _ |- _ => destruct x
  | H : match ?o with Some _ => _ | None => _ end = Ok _ |- _ =>
      let E := fresh "E" in destruct o eqn:E
  | H : (if ?b then _ else _) = Ok _ |- _ => let E := fresh "E" in destruct b eqn:E
  end.

(* turn the recorded equations into facts about the token lists *)
Ltac use_facts p Hp :=
  repeat match goal with
  | E : accept ?k ?st = Ok (Some (?t, ?st')) |- _ =>
      apply (accept_some k st t st') in E; [ | kne ]
  | E : accept_any ?q ?st = Ok (Some (?t, ?st')) |- _ =>
      apply (accept_any_some q st t st') in E; [ | reflexivity ]
  | E : expect ?k ?st = Ok (?t, ?st') |- _ =>
      apply (expect_ok k st t st') in E; [ | kne ]
  | E : accept _ _ = Ok None |- _ => clear E
  | E : accept_any _ _ = Ok None |- _ => clear E
  | E : p_e1 p _ = Ok _ |- _ => apply (ok_e1 p Hp) in E
  | E : p_e2 p _ = Ok _ |- _ => apply (ok_e2 p Hp) in E
  | E : p_e3 p _ = Ok _ |- _ => apply (ok_e3 p Hp) in E
  | E : p_e4 p _ = Ok _ |- _ => apply (ok_e4 p Hp) in E
  | E : p_e5 p _ = Ok _ |- _ => apply (ok_e5 p Hp) in E
  | E : p_e6 p _ = Ok _ |- _ => apply (ok_e6 p Hp) in E
  | E : p_e7 p _ = Ok _ |- _ => apply (ok_e7 p Hp) in E
  | E : p_e8 p _ = Ok _ |- _ => apply (ok_e8 p Hp) in E
  | E : p_e9 p _ = Ok _ |- _ => apply (ok_e9 p Hp) in E
  | E : p_e10 p _ = Ok _ |- _ => apply (ok_e10 p Hp) in E
  | E : p_line p _ = Ok _ |- _ => apply (ok_line p Hp) in E
  | E : p_or_loop p _ _ = Ok _ |- _ => apply (ok_or p Hp) in E
  | E : p_and_loop p _ _ = Ok _ |- _ => apply (ok_and p Hp) in E
  | E : p_add_loop p _ _ = Ok _ |- _ => apply (ok_add p Hp) in E
  | E : p_mul_loop p _ _ = Ok _ |- _ => apply (ok_mul p Hp) in E
  | E : p_postfix_loop p _ _ = Ok _ |- _ => apply (ok_post p Hp) in E
  | E : p_method_call p _ _ _ = Ok _ |- _ => apply (ok_meth p Hp) in E
  | E : p_key_values p _ = Ok _ |- _ => apply (ok_kv p Hp) in E
  | E : p_args_ p _ = Ok _ |- _ => apply (ok_args p Hp) in E
  | E : p_elif_loop p _ _ = Ok _ |- _ => apply (ok_elif p Hp) in E
  | E : p_codeblock p _ = Ok _ |- _ => apply (ok_cb p Hp) in E
  | E : p_block_loop p _ _ = Ok _ |- _ => apply (ok_bl p Hp) in E
  end.

Ltac norm_lists :=
  repeat (rewrite <- ?app_assoc in *; cbn [yield yield_block yield_ifs src_items opt_tok app] in *).

Ltac chain :=
  norm_lists;
  repeat first
  [ match goal with
    | E : toks ?s = _ |- context [toks ?s] => rewrite E; clear E; norm_lists
    end
  | match goal with
    | E : ?L = _ |- ?L = _ => rewrite E; clear E; norm_lists
    end ];
  first [ reflexivity | assumption | (symmetry; assumption) | idtac ].

Ltac invert_all p Hp := repeat inv_step p Hp; use_facts p Hp;
  repeat match goal with
  | E : is_id ?n = Some ?t |- _ => apply is_id_yield in E; subst n
  | E : is_empty ?n = true |- _ => apply is_empty_yield in E
  end; rewrite ?toks_set_tern in *.

Section Step.
  Variable p : parsers.
  Hypothesis Hp : all_ok p.

  Lemma st_e1 : sp_node (p_e1 (step p)).
  Proof. intros st a st' H. cbn [step p_e1] in H. invert_all p Hp; chain. Qed.
  Lemma st_e2 : sp_node (p_e2 (step p)).
  Proof. intros st a st' H. cbn [step p_e2] in H. invert_all p Hp; chain. Qed.
  Lemma st_e3 : sp_node (p_e3 (step p)).
  Proof. intros st a st' H. cbn [step p_e3] in H. invert_all p Hp; chain. Qed.
  Lemma st_e4 : sp_node (p_e4 (step p)).
  Proof. intros st a st' H. cbn [step p_e4] in H. invert_all p Hp; chain. Qed.
  Lemma st_e5 : sp_node (p_e5 (step p)).
  Proof. intros st a st' H. cbn [step p_e5] in H. invert_all p Hp; chain. Qed.
  Lemma st_e6 : sp_node (p_e6 (step p)).
  Proof. intros st a st' H. cbn [step p_e6] in H. invert_all p Hp; chain. Qed.
  Lemma st_e7 : sp_node (p_e7 (step p)).
  Proof. intros st a st' H. cbn [step p_e7] in H. invert_all p Hp; chain. Qed.
  Lemma st_e8 : sp_node (p_e8 (step p)).
  Proof. intros st a st' H. cbn [step p_e8] in H. invert_all p Hp; chain. Qed.
  Lemma st_e9 : sp_node (p_e9 (step p)).
  Proof. intros st a st' H. cbn [step p_e9] in H. invert_all p Hp; chain. Qed.
  Lemma st_e10 : sp_node (p_e10 (step p)).
  Proof.
    intros st a st' H. cbn [step p_e10] in H.
    destruct (tk (cur st)) eqn:K; invert_all p Hp; try reflexivity;
      match goal with E : advance _ = Ok _ |- _ => apply advance_spec in E; destruct E as [[Hn _]|[t [Ht Hc]]] end;
      try (apply cur_nil_eof in Hn; congruence);
      rewrite Ht, Hc; reflexivity.
  Qed.
  Lemma st_line : sp_node (p_line (step p)).
  Proof. intros st a st' H. cbn [step p_line] in H. invert_all p Hp; chain. Qed.
  Lemma st_or_loop : sp_loop (p_or_loop (step p)).
  Proof. intros l st a st' H. cbn [step p_or_loop] in H. invert_all p Hp; chain. Qed.
  Lemma st_and_loop : sp_loop (p_and_loop (step p)).
  Proof. intros l st a st' H. cbn [step p_and_loop] in H. invert_all p Hp; chain. Qed.
  Lemma st_add_loop : sp_loop (p_add_loop (step p)).
  Proof. intros l st a st' H. cbn [step p_add_loop] in H. invert_all p Hp; chain. Qed.
  Lemma st_mul_loop : sp_loop (p_mul_loop (step p)).
  Proof. intros l st a st' H. cbn [step p_mul_loop] in H. invert_all p Hp; chain. Qed.
  Lemma st_postfix_loop : sp_loop (p_postfix_loop (step p)).
  Proof. intros l st a st' H. cbn [step p_postfix_loop] in H. invert_all p Hp; chain. Qed.
  Lemma st_method_call : sp_method (p_method_call (step p)).
  Proof. intros o d st a st' H. cbn [step p_method_call] in H. invert_all p Hp; chain. Qed.
  Lemma st_elif_loop : sp_ifs (p_elif_loop (step p)).
  Proof. intros i st i' st' H. cbn [step p_elif_loop] in H. invert_all p Hp; rewrite ?yield_ifs_snoc in *; chain. Qed.
  Lemma st_codeblock : sp_block (p_codeblock (step p)).
  Proof. intros st b st' H. cbn [step p_codeblock] in H. invert_all p Hp; chain. Qed.
  Lemma st_block_loop : sp_block_loop (p_block_loop (step p)).
  Proof. intros bl st b st' H. cbn [step p_block_loop] in H. invert_all p Hp; rewrite ?yield_block_snoc in *; chain. Qed.
  Lemma st_key_values : sp_args (p_key_values (step p)).
  Proof.
    intros st a cms st' H. cbn [step p_key_values] in H. invert_all p Hp.
    pose proof (ok_kvl p Hp _ _ _ _ _ _ _ H eq_refl) as H2. clear H. chain.
  Qed.
  Lemma st_args_ : sp_args (p_args_ (step p)).
  Proof.
    intros st a cms st' H. cbn [step p_args_] in H. invert_all p Hp.
    pose proof (ok_argsl p Hp _ _ _ _ _ _ _ H eq_refl) as H2. clear H. chain.
  Qed.

  Ltac loop_rec lem :=
    match goal with
    | H : _ = Ok (_, _, _) |- _ =>
        let H2 := fresh "H2" in
        pose proof (lem _ _ _ _ _ _ _ H) as H2; clear H;
        rewrite ?src_items_snoc_pos, ?src_items_snoc_kw, ?app_length in H2; cbn [length] in H2;
        specialize (H2 ltac:(lia));
        rewrite interleave_snoc in H2 by assumption
    end.

  Lemma st_args_loop : sp_args_loop (p_args_loop (step p)).
  Proof.
    intros s a cms st a' cms' st' H L. cbn [step p_args_loop] in H.
    invert_all p Hp;
      try loop_rec (ok_argsl p Hp);
      rewrite ?src_items_snoc_pos, ?src_items_snoc_kw;
      rewrite ?interleave_snoc_last by assumption;
      try (rewrite E; reflexivity);
      chain.
  Qed.
  Lemma st_kv_loop : sp_args_loop (p_kv_loop (step p)).
  Proof.
    intros s a cms st a' cms' st' H L. cbn [step p_kv_loop] in H.
    invert_all p Hp;
      try loop_rec (ok_kvl p Hp);
      rewrite ?src_items_snoc_pos, ?src_items_snoc_kw;
      rewrite ?interleave_snoc_last by assumption;
      try (rewrite E; reflexivity);
      chain.
  Qed.

  Theorem step_ok : all_ok (step p).
  Proof.
    constructor.
    - exact st_e1. - exact st_e2. - exact st_or_loop. - exact st_e3. - exact st_and_loop.
    - exact st_e4. - exact st_e5. - exact st_add_loop. - exact st_e6. - exact st_mul_loop.
    - exact st_e7. - exact st_e8. - exact st_postfix_loop. - exact st_method_call.
    - exact st_e9. - exact st_e10. - exact st_key_values. - exact st_kv_loop.
    - exact st_args_. - exact st_args_loop. - exact st_line. - exact st_elif_loop.
    - exact st_codeblock. - exact st_block_loop.
  Qed.
End Step.

Lemma fuel_ok : all_ok fuel_parsers.
Proof. constructor; repeat intro; discriminate. Qed.

Theorem P_ok n : all_ok (P n).
Proof. induction n as [|n IH]; [exact fuel_ok | apply step_ok; exact IH]. Qed.

(* Token conservation: an accepted token stream is exactly the in-order token listing
   of the tree that was built (source order) — nothing dropped, duplicated or moved.
   (A token of kind eof never occurs in the stream: see lexer_no_eof.) *)
Theorem parse_tokens_conserves fuel st b :
  Forall (fun t => tk t <> KEof) (toks st) ->
  parse_tokens fuel st = Ok b -> toks st = yield_block b.
Proof.
  unfold parse_tokens. intros Hne H.
  destruct (p_codeblock (P fuel) st) as [[b0 st1]| |] eqn:E; cbn [bind] in H; try discriminate.
  apply (ok_cb _ (P_ok fuel)) in E.
  unfold expect in H.
  destruct (accept KEof st1) as [[[t st2]|]| |] eqn:A; cbn [bind] in H; try discriminate.
  inversion H; subst.
  unfold accept in A. destruct (kind_beq (tk (cur st1)) KEof) eqn:K; [|discriminate].
  apply kind_beq_eq in K.
  assert (T : toks st1 = []).
  { unfold cur in K. destruct (toks st1) as [|t1 r] eqn:T; [reflexivity|]. exfalso.
    rewrite E in Hne. apply Forall_app in Hne. destruct Hne as [_ Hne].
    inversion Hne; subst. contradiction. }
  rewrite E, T, app_nil_r. reflexivity.
Qed.

(* ------------------------------------------------------------------ *)
(* If the lexer failed, the parser cannot succeed: it would have to fetch the token
   that follows the last good one.                                      *)

Definition keeps (st st' : pst) : Prop :=
  lexerr st' = lexerr st /\ (lexerr st <> None -> toks st <> [] -> toks st' <> []).

Lemma keeps_refl st : keeps st st.
Proof. split; auto. Qed.
Lemma keeps_trans a b c : keeps a b -> keeps b c -> keeps a c.
Proof. intros [A1 A2] [B1 B2]. split; [congruence|]. intros H1 H2. apply B2; [congruence | auto]. Qed.
Lemma advance_keeps st st' : advance st = Ok st' -> keeps st st'.
Proof.
  unfold advance, keeps. destruct (toks st) as [|t [|t2 r]] eqn:T.
  - intro H; inversion H; subst. rewrite T. auto.
  - destruct (lexerr st) eqn:L; [discriminate|]. intro H; inversion H; subst. cbn. split; [auto|]. congruence.
  - intro H; inversion H; subst. cbn. split; [reflexivity|]. intros _ _. discriminate.
Qed.
Lemma accept_keeps k st t st' : accept k st = Ok (Some (t, st')) -> keeps st st'.
Proof.
  unfold accept. destruct (kind_beq (tk (cur st)) k); [|discriminate].
  destruct (advance st) as [st1| |] eqn:A; cbn; try discriminate. intro H; inversion H; subst.
  apply advance_keeps. exact A.
Qed.
Lemma accept_any_keeps q st t st' : accept_any q st = Ok (Some (t, st')) -> keeps st st'.
Proof.
  unfold accept_any. destruct (q (tk (cur st))); [|discriminate].
  destruct (advance st) as [st1| |] eqn:A; cbn; try discriminate. intro H; inversion H; subst.
  apply advance_keeps. exact A.
Qed.
Lemma expect_keeps k st t st' : expect k st = Ok (t, st') -> keeps st st'.
Proof.
  unfold expect. destruct (accept k st) as [[[t1 st1]|]| |] eqn:A; cbn; try discriminate.
  intro H; inversion H; subst. eapply accept_keeps; eassumption.
Qed.
Lemma keeps_set_tern_l b st x : keeps (set_tern b st) x <-> keeps st x.
Proof. unfold keeps, set_tern. cbn. tauto. Qed.
Lemma keeps_set_tern_r b st x : keeps x (set_tern b st) <-> keeps x st.
Proof. unfold keeps, set_tern. cbn. tauto. Qed.

Definition k1 {A} (f : pst -> res (A * pst)) : Prop :=
  forall st a st', f st = Ok (a, st') -> keeps st st'.
Definition k2 {A B} (f : B -> pst -> res (A * pst)) : Prop :=
  forall x st a st', f x st = Ok (a, st') -> keeps st st'.
Definition k3 {A B C} (f : B -> C -> pst -> res (A * pst)) : Prop :=
  forall x y st a st', f x y st = Ok (a, st') -> keeps st st'.
Definition k4 {A B C D} (f : B -> C -> D -> pst -> res (A * pst)) : Prop :=
  forall x y z st a st', f x y z st = Ok (a, st') -> keeps st st'.

Record all_keep (p : parsers) : Prop := {
  kp_e1 : k1 (p_e1 p); kp_e2 : k1 (p_e2 p); kp_or : k2 (p_or_loop p);
  kp_e3 : k1 (p_e3 p); kp_and : k2 (p_and_loop p); kp_e4 : k1 (p_e4 p);
  kp_e5 : k1 (p_e5 p); kp_add : k2 (p_add_loop p); kp_e6 : k1 (p_e6 p);
  kp_mul : k2 (p_mul_loop p); kp_e7 : k1 (p_e7 p); kp_e8 : k1 (p_e8 p);
  kp_post : k2 (p_postfix_loop p); kp_meth : k3 (p_method_call p);
  kp_e9 : k1 (p_e9 p); kp_e10 : k1 (p_e10 p);
  kp_kv : k1 (p_key_values p); kp_kvl : k4 (p_kv_loop p);
  kp_args : k1 (p_args_ p); kp_argsl : k4 (p_args_loop p);
  kp_line : k1 (p_line p); kp_elif : k2 (p_elif_loop p);
  kp_cb : k1 (p_codeblock p); kp_bl : k2 (p_block_loop p) }.

Ltac keep_facts p Hp :=
  repeat match goal with
  | E : accept _ _ = Ok (Some _) |- _ => apply accept_keeps in E
  | E : accept_any _ _ = Ok (Some _) |- _ => apply accept_any_keeps in E
  | E : expect _ _ = Ok _ |- _ => apply expect_keeps in E
  | E : advance _ = Ok _ |- _ => apply advance_keeps in E
  | E : accept _ _ = Ok None |- _ => clear E
  | E : accept_any _ _ = Ok None |- _ => clear E
  | E : p_e1 p _ = Ok _ |- _ => apply (kp_e1 p Hp) in E
  | E : p_e2 p _ = Ok _ |- _ => apply (kp_e2 p Hp) in E
  | E : p_e3 p _ = Ok _ |- _ => apply (kp_e3 p Hp) in E
  | E : p_e4 p _ = Ok _ |- _ => apply (kp_e4 p Hp) in E
  | E : p_e5 p _ = Ok _ |- _ => apply (kp_e5 p Hp) in E
  | E : p_e6 p _ = Ok _ |- _ => apply (kp_e6 p Hp) in E
  | E : p_e7 p _ = Ok _ |- _ => apply (kp_e7 p Hp) in E
  | E : p_e8 p _ = Ok _ |- _ => apply (kp_e8 p Hp) in E
  | E : p_e9 p _ = Ok _ |- _ => apply (kp_e9 p Hp) in E
  | E : p_e10 p _ = Ok _ |- _ => apply (kp_e10 p Hp) in E
  | E : p_line p _ = Ok _ |- _ => apply (kp_line p Hp) in E
  | E : p_or_loop p _ _ = Ok _ |- _ => apply (kp_or p Hp) in E
  | E : p_and_loop p _ _ = Ok _ |- _ => apply (kp_and p Hp) in E
  | E : p_add_loop p _ _ = Ok _ |- _ => apply (kp_add p Hp) in E
  | E : p_mul_loop p _ _ = Ok _ |- _ => apply (kp_mul p Hp) in E
  | E : p_postfix_loop p _ _ = Ok _ |- _ => apply (kp_post p Hp) in E
  | E : p_method_call p _ _ _ = Ok _ |- _ => apply (kp_meth p Hp) in E
  | E : p_key_values p _ = Ok _ |- _ => apply (kp_kv p Hp) in E
  | E : p_args_ p _ = Ok _ |- _ => apply (kp_args p Hp) in E
  | E : p_kv_loop p _ _ _ _ = Ok _ |- _ => apply (kp_kvl p Hp) in E
  | E : p_args_loop p _ _ _ _ = Ok _ |- _ => apply (kp_argsl p Hp) in E
  | E : p_elif_loop p _ _ = Ok _ |- _ => apply (kp_elif p Hp) in E
  | E : p_codeblock p _ = Ok _ |- _ => apply (kp_cb p Hp) in E
  | E : p_block_loop p _ _ = Ok _ |- _ => apply (kp_bl p Hp) in E
  end.

Ltac keep_chain :=
  rewrite ?keeps_set_tern_l, ?keeps_set_tern_r in *;
  repeat match goal with
  | |- keeps ?a ?a => apply keeps_refl
  | E : keeps ?a ?b |- keeps ?a ?c => first [ exact E | apply (keeps_trans a b c E); clear E ]
  end;
  try apply keeps_refl.

Ltac keep_solve p Hp H := repeat inv_step p Hp; keep_facts p Hp; keep_chain.

Section StepKeep.
  Variable p : parsers.
  Hypothesis Hp : all_keep p.

  Theorem step_keep : all_keep (step p).
  Proof.
    constructor.
    - intros st a st' H. cbn [step p_e1] in H. keep_solve p Hp H.
    - intros st a st' H. cbn [step p_e2] in H. keep_solve p Hp H.
    - intros x st a st' H. cbn [step p_or_loop] in H. keep_solve p Hp H.
    - intros st a st' H. cbn [step p_e3] in H. keep_solve p Hp H.
    - intros x st a st' H. cbn [step p_and_loop] in H. keep_solve p Hp H.
    - intros st a st' H. cbn [step p_e4] in H. keep_solve p Hp H.
    - intros st a st' H. cbn [step p_e5] in H. keep_solve p Hp H.
    - intros x st a st' H. cbn [step p_add_loop] in H. keep_solve p Hp H.
    - intros st a st' H. cbn [step p_e6] in H. keep_solve p Hp H.
    - intros x st a st' H. cbn [step p_mul_loop] in H. keep_solve p Hp H.
    - intros st a st' H. cbn [step p_e7] in H. keep_solve p Hp H.
    - intros st a st' H. cbn [step p_e8] in H. keep_solve p Hp H.
    - intros x st a st' H. cbn [step p_postfix_loop] in H. keep_solve p Hp H.
    - intros x y st a st' H. cbn [step p_method_call] in H. keep_solve p Hp H.
    - intros st a st' H. cbn [step p_e9] in H. keep_solve p Hp H.
    - intros st a st' H. cbn [step p_e10] in H.
      destruct (tk (cur st)); keep_solve p Hp H.
    - intros st a st' H. cbn [step p_key_values] in H. keep_solve p Hp H.
    - intros x y z st a st' H. cbn [step p_kv_loop] in H. keep_solve p Hp H.
    - intros st a st' H. cbn [step p_args_] in H. keep_solve p Hp H.
    - intros x y z st a st' H. cbn [step p_args_loop] in H. keep_solve p Hp H.
    - intros st a st' H. cbn [step p_line] in H. keep_solve p Hp H.
    - intros x st a st' H. cbn [step p_elif_loop] in H. keep_solve p Hp H.
    - intros st a st' H. cbn [step p_codeblock] in H. keep_solve p Hp H.
    - intros x st a st' H. cbn [step p_block_loop] in H. keep_solve p Hp H.
  Qed.
End StepKeep.

Lemma fuel_keep : all_keep fuel_parsers.
Proof. constructor; repeat intro; discriminate. Qed.
Theorem P_keep n : all_keep (P n).
Proof. induction n as [|n IH]; [exact fuel_keep | apply step_keep; exact IH]. Qed.

Theorem parse_tokens_needs_whole_lex fuel st b :
  Forall (fun t => tk t <> KEof) (toks st) ->
  toks st <> [] -> parse_tokens fuel st = Ok b -> lexerr st = None.
Proof.
  unfold parse_tokens. intros Hall Hne H.
  destruct (p_codeblock (P fuel) st) as [[b0 st1]| |] eqn:E; cbn [bind] in H; try discriminate.
  pose proof (ok_cb _ (P_ok fuel) _ _ _ E) as C.
  apply (kp_cb _ (P_keep fuel)) in E. destruct E as [E1 E2].
  unfold expect in H.
  destruct (accept KEof st1) as [[[t st2]|]| |] eqn:A; cbn [bind] in H; try discriminate.
  unfold accept in A. destruct (kind_beq (tk (cur st1)) KEof) eqn:K; [|discriminate].
  destruct (lexerr st) eqn:L; [|reflexivity]. exfalso.
  assert (T : toks st1 <> []) by (apply E2; [discriminate | exact Hne]).
  unfold cur in K. destruct (toks st1) as [|t1 r] eqn:T1; [congruence|].
  apply kind_beq_eq in K.
  rewrite C in Hall. apply Forall_app in Hall. destruct Hall as [_ Hall].
  inversion Hall; subst. contradiction.
Qed.

(* ------------------------------------------------------------------ *)
(* From text to tree.                                                   *)
From MV Require Import Syntax.LexerFacts.

Lemma keyword_not_eof v k : keyword v = Some k -> k <> KEof.
Proof.
  unfold keyword.
  repeat match goal with |- (if ?b then _ else _) = _ -> _ => destruct b; [intro H; inversion H; discriminate|] end.
  discriminate.
Qed.

Lemma lex_step_not_eof s st t st' n : lex_step s st = SOk t st' n -> tk t <> KEof.
Proof.
  unfold lex_step.
  destruct (first_match s) as [[rk n0]|] eqn:F.
  - unfold first_match in F.
    assert (Hk : match rk with RK k => k <> KEof | RKEolCont => True end).
    { revert F.
      repeat match goal with
      | |- match ?m with Some _ => _ | None => _ end = _ -> _ =>
          destruct m; [intro X; inversion X; subst; try exact I; discriminate | ]
      end. discriminate. }
    destruct rk as [k|]; [|intro H; inversion H; subst; cbn; discriminate].
    intro H.
    assert (E : exists k', k' <> KEof /\ tok_step k' (firstn n0 s) n0 st = SOk t st' n).
    { destruct k; try (eexists; split; [exact Hk | exact H]).
      destruct (keyword (firstn n0 s)) as [k'|] eqn:Kw.
      - exists k'. split; [eapply keyword_not_eof; eassumption | exact H].
      - exists KId. split; [discriminate | exact H]. }
    destruct E as (k' & Hk' & E). unfold tok_step in E.
    destruct (is_multi k' && negb (count_nl (firstn n0 s) =? 0)); inversion E; subst; exact Hk'.
  - destruct s as [|c r]; [discriminate|].
    destruct (c =? 34); [discriminate|].
    destruct (single_char c) as [k|] eqn:SC; [|discriminate].
    assert (k <> KEof).
    { unfold single_char in SC.
      repeat match type of SC with (if ?b then _ else _) = _ => destruct b; [inversion SC; discriminate|] end.
      discriminate. }
    destruct k; intro H1; inversion H1; subst; cbn; try discriminate; try congruence.
    destruct ((0 <? l_par st)%Z || (0 <? l_brk st)%Z || (0 <? l_curl st)%Z); discriminate.
Qed.

Lemma lex_prefix_no_eof : forall fuel s st ts e,
  lex_prefix fuel s st = (ts, e) -> Forall (fun t => tk t <> KEof) ts.
Proof.
  induction fuel as [|f IH]; intros s st ts e H.
  - destruct s; simpl in H; inversion H; constructor.
  - destruct s as [|c r]; [simpl in H; inversion H; constructor|].
    cbn [lex_prefix] in H.
    destruct (lex_step (c :: r) st) as [t st' n|l col] eqn:S.
    + destruct (lex_prefix f (drop n (c :: r)) st') as [ts' e'] eqn:R. inversion H; subst.
      constructor; [eapply lex_step_not_eof; eassumption | eapply IH; eassumption].
    + inversion H; constructor.
Qed.

Lemma Forall_filter {A} (P : A -> Prop) f l : Forall P l -> Forall P (filter f l).
Proof. induction 1; simpl; [constructor|]. destruct (f x); [constructor|]; assumption. Qed.

(* An accepted text was lexed completely; the token texts concatenate to the text; every
   token carries its true line/column/offset; and the tree lists exactly the significant
   tokens, in order. *)
Theorem parse_lossless s b :
  parse s = Ok b ->
  exists ts, lex s = LOk ts /\ concat (map ttext ts) = s /\ positions_ok [] ts /\
             significant ts = yield_block b.
Proof.
  unfold parse. destruct s as [|c r].
  - intro H. exists []. repeat split; try reflexivity.
    apply parse_tokens_conserves in H; [exact H | constructor].
  - destruct (c =? c_bom) eqn:B; [discriminate|].
    destruct (lex_prefix (length (c :: r)) (c :: r) init_lst) as [ts e] eqn:R.
    pose proof (lex_prefix_no_eof _ _ _ _ _ R) as Hne.
    assert (Hsig : Forall (fun t => tk t <> KEof) (significant ts)) by (apply Forall_filter; exact Hne).
    intro H.
    assert (He : e = None /\ parse_tokens (parser_fuel (length (significant ts)))
                               (mkP (significant ts) e (eof_pos ts) false) = Ok b).
    { destruct (significant ts) as [|t0 sg] eqn:SG.
      - destruct e as [p0|]; [discriminate|]. split; [reflexivity | exact H].
      - split; [|exact H].
        eapply (parse_tokens_needs_whole_lex _ (mkP (t0 :: sg) e (eof_pos ts) false) b Hsig);
          [discriminate | exact H]. }
    destruct He as [-> H'].
    exists ts. split.
    { unfold lex. rewrite B, R. reflexivity. }
    assert (L : lex (c :: r) = LOk ts) by (unfold lex; rewrite B, R; reflexivity).
    split; [apply lex_lossless; exact L|]. split; [apply (lex_positions _ _ L)|].
    apply parse_tokens_conserves in H'; [exact H' | exact Hsig].
Qed.

(* When no argument list has a positional argument after a keyword argument, RawPrinter's
   emission order (positional arguments first, then keyword arguments) is the source order. *)
Lemma args_app_nil a : args_app a ANil = a.
Proof. induction a; simpl; congruence. Qed.
Theorem raw_order_id a : args_order_ok a = true -> raw_order a = a.
Proof.
  unfold raw_order. induction a as [|n r IH|k c v r IH]; simpl; intro H; [reflexivity| |].
  - f_equal. apply IH. exact H.
  - destruct (pos_only r) eqn:E; [|discriminate|discriminate]. simpl.
    f_equal. specialize (IH H). simpl in IH. exact IH.
Qed.

(* The shipped parser accepts a call whose keyword argument precedes a positional one
   (it only records order_error); RawPrinter then emits the arguments in another order. *)
Example order_error_accepted :
  exists b, parse (s2l "f(a: 1, b)") = Ok b /\ order_ok_block b = false.
Proof. eexists. split; [vm_compute; reflexivity | vm_compute; reflexivity]. Qed.

(* non-vacuity: a program with every construct is accepted, in order, with all tokens *)
Example parse_example :
  exists b, parse (s2l "if a and not b
  x = f(1, [2, 3], k : {'a' : 1})[0].m() # c
elif c ? d : e
  foreach i, j : r
    continue
  endforeach
else
  y += -z * (w - 1) / 2 % 3
endif
") = Ok b /\ order_ok_block b = true.
Proof. eexists. split; vm_compute; reflexivity. Qed.
