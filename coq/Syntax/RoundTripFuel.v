(* Syntax/RoundTripFuel.v — the print/parse round trip at the fuel [parse] really uses
   (parser_fuel = 30 * tokens + 60): Syntax/RoundTrip.v (for all sufficiently large fuel),
   Syntax/FuelFacts.v (that fuel never runs out) and Syntax/ParserDet.v (an answer other than
   "out of fuel" does not depend on the fuel). *)
From MV Require Import Base.Strs Syntax.Lexer Syntax.Parser Syntax.ParserMono Syntax.ParserDet
  Syntax.FuelFacts Syntax.AstPrint Syntax.RoundTrip.
From Coq Require Import Lia.
Open Scope nat_scope.

Theorem print_parse_statement_fuel ep e ts :
  printable e = true -> map tkt ts = ptoks e ->
  exists nd, strip_parens (abs nd) = strip_parens e /\
    forall n, n >= parser_fuel (length ts) -> parse_tokens n (mkP ts None ep false) = Ok (BLine nd None BNil).
Proof.
  intros Hp Hts. destruct (print_parse_statement ep e ts Hp Hts) as (nd & I & [n0 H]).
  exists nd. split; [exact I|]. intros n Hn. unfold parser_fuel in Hn.
  assert (NF : parse_tokens n (St ep ts false) <> Fuel) by (apply parse_tokens_enough_fuel; cbn [toks St]; lia).
  change (mkP ts None ep false) with (St ep ts false).
  rewrite <- (parse_tokens_det n (Nat.max n n0) _ (Nat.le_max_l _ _) NF).
  apply H. apply Nat.le_max_r.
Qed.
