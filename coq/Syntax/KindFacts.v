(* Syntax/KindFacts.v — the kind of every token of an accepted tree: the parser puts a token
   into a tree position only after accept(tid) / expect(tid) / accept_any(tids) of the matching
   kind(s).  In particular: the 'eol' positions hold 'eol' tokens and no other position does
   (an 'eol' token has no SymbolNode: its text is printed as whitespace); a BooleanNode holds a
   'true'/'false' token, a StringNode one of the four string kinds, Continue/BreakNode their
   keyword, and the two tokens of a 'not in' are 'not' and 'in'. *)
From MV Require Import Base.Strs Syntax.Lexer Syntax.Parser Syntax.Yield Syntax.ParserFacts.
From Coq Require Import Lia.
Open Scope N_scope.

Definition iseol (t : token) : bool := kind_beq (tk t) KEol.
Definition neol (t : token) : bool := negb (kind_beq (tk t) KEol).
Definition isk (k : kind) (t : token) : bool := kind_beq (tk t) k.

(* if / foreach clauses are statements: only Parser.line builds them, and only the lines of a
   code block hold them.  Every other child position holds an expression node. *)
Definition is_expr (n : node) : bool :=
  match n with
  | NIf _ _ | NIfElse _ _ _ _ _ | NForeach _ _ _ _ _ _ _ => false
  | _ => true
  end.

Fixpoint wk (n : node) : bool :=
  match n with
  | NEmpty _ => true
  | NBool t => isk KTrue t || isk KFalse t
  | NId t | NNum t => neol t
  | NStr t => string_kind (tk t)
  | NContinue kw _ => isk KContinue kw
  | NBreak kw _ => isk KBreak kw
  | NParen lp e rp => neol lp && (is_expr e && wk e) && neol rp
  | NArray lb a cms rb | NDict lb a cms rb => neol lb && wk_args a && forallb neol cms && neol rb
  | NFunc name lp a cms rp => neol name && neol lp && wk_args a && forallb neol cms && neol rp
  | NMethod obj dot name lp a cms rp =>
      (is_expr obj && wk obj) && neol dot && neol name && neol lp && wk_args a && forallb neol cms && neol rp
  | NIndex obj lb idx rb => (is_expr obj && wk obj) && neol lb && (is_expr idx && wk idx) && neol rb
  | NNot op _ e | NUMinus op _ e => neol op && (is_expr e && wk e)
  | NArith l op r | NCmp l op r | NAnd l op r | NOr l op r =>
      (is_expr l && wk l) && neol op && (is_expr r && wk r)
  | NNotIn l nt it r => (is_expr l && wk l) && isk KNot nt && isk KIn it && (is_expr r && wk r)
  | NTernary c q t colon f =>
      (is_expr c && wk c) && neol q && (is_expr t && wk t) && neol colon && (is_expr f && wk f)
  | NAssign name op v | NPlusAssign name op v => neol name && neol op && (is_expr v && wk v)
  | NIf i endif => wk_ifs i && neol endif
  | NIfElse i els eol b endif => wk_ifs i && neol els && iseol eol && wk_block b && neol endif
  | NForeach fe v1 cv2 colon items b endfe =>
      neol fe && neol v1 && match cv2 with Some (cm, v2) => neol cm && neol v2 | None => true end &&
      neol colon && (is_expr items && wk items) && wk_block b && neol endfe
  end
with wk_args (a : args) : bool :=
  match a with
  | ANil => true
  | APos n r => (is_expr n && wk n) && wk_args r
  | AKw k colon v r => (is_expr k && wk k) && neol colon && (is_expr v && wk v) && wk_args r
  end
with wk_block (b : block) : bool :=
  match b with
  | BNil => true
  | BLine n eol r => wk n && match eol with Some e => iseol e | None => true end && wk_block r
  end
with wk_ifs (i : ifs) : bool :=
  match i with
  | INil => true
  | ICons kw c eol b r => neol kw && (is_expr c && wk c) && iseol eol && wk_block b && wk_ifs r
  end.
(* an expression node with well-kinded tokens *)
Definition wx (n : node) : bool := is_expr n && wk n.

(* ------------------------------------------------------------------ accept / expect *)
Lemma accept_kind k st t st' : accept k st = Ok (Some (t, st')) -> tk t = k.
Proof.
  unfold accept. destruct (kind_beq (tk (cur st)) k) eqn:E; [|discriminate].
  destruct (advance st); cbn; try discriminate. intro H; inversion H; subst.
  apply kind_beq_eq; exact E.
Qed.
Lemma accept_any_kind q st t st' : accept_any q st = Ok (Some (t, st')) -> q (tk t) = true.
Proof.
  unfold accept_any. destruct (q (tk (cur st))) eqn:E; [|discriminate].
  destruct (advance st); cbn; try discriminate. intro H; inversion H; subst. exact E.
Qed.
Lemma expect_kind k st t st' : expect k st = Ok (t, st') -> tk t = k.
Proof.
  unfold expect. destruct (accept k st) as [[[t1 st1]|]| |] eqn:A; cbn; try discriminate.
  intro H; inversion H; subst. eapply accept_kind; eassumption.
Qed.
Lemma pred_neol (q : kind -> bool) t : q KEol = false -> q (tk t) = true -> neol t = true.
Proof.
  intros H0 H1. unfold neol. destruct (kind_beq (tk t) KEol) eqn:E; [|reflexivity].
  apply kind_beq_eq in E. rewrite E in H1. congruence.
Qed.

(* snoc-ed structures *)
Lemma wk_args_snoc_pos a n : wk_args (args_snoc_pos a n) = wk_args a && (is_expr n && wk n).
Proof.
  induction a as [|m r IH|k c v r IH]; cbn [args_snoc_pos wk_args].
  - rewrite andb_true_r. reflexivity.
  - rewrite IH, andb_assoc. reflexivity.
  - rewrite IH, !andb_assoc. reflexivity.
Qed.
Lemma wk_args_snoc_kw a k c v : wk_args (args_snoc_kw a k c v) = wk_args a && ((is_expr k && wk k) && neol c && (is_expr v && wk v)).
Proof.
  induction a as [|m r IH|k' c' v' r IH]; cbn [args_snoc_kw wk_args].
  - rewrite andb_true_r. reflexivity.
  - rewrite IH, andb_assoc. reflexivity.
  - rewrite IH, !andb_assoc. reflexivity.
Qed.
Lemma wk_block_snoc b n e :
  wk_block (block_snoc b n e) = wk_block b && (wk n && match e with Some x => iseol x | None => true end).
Proof.
  induction b as [|m e' r IH]; cbn [block_snoc wk_block].
  - rewrite andb_true_r. reflexivity.
  - rewrite IH, !andb_assoc. reflexivity.
Qed.
Lemma wk_ifs_snoc i kw c e b :
  wk_ifs (ifs_snoc i kw c e b) = wk_ifs i && (neol kw && (is_expr c && wk c) && iseol e && wk_block b).
Proof.
  induction i as [|kw' c' e' b' r IH]; cbn [ifs_snoc wk_ifs].
  - rewrite andb_true_r. reflexivity.
  - rewrite IH, !andb_assoc. reflexivity.
Qed.
Lemma forallb_snoc {A} (f : A -> bool) l x : forallb f (l ++ [x]) = forallb f l && f x.
Proof. rewrite forallb_app. cbn. rewrite andb_true_r. reflexivity. Qed.

(* ------------------------------------------------------------------ what each function guarantees *)
Definition kn_node (f : pst -> res (node * pst)) : Prop :=
  forall st a st', f st = Ok (a, st') -> wk a = true.
Definition kx_node (f : pst -> res (node * pst)) : Prop :=
  forall st a st', f st = Ok (a, st') -> is_expr a && wk a = true.
Definition kn_loop (f : node -> pst -> res (node * pst)) : Prop :=
  forall l st a st', f l st = Ok (a, st') -> is_expr l && wk l = true -> is_expr a && wk a = true.
Definition kn_method (f : node -> token -> pst -> res (node * pst)) : Prop :=
  forall o d st a st', f o d st = Ok (a, st') -> is_expr o && wk o = true -> neol d = true -> is_expr a && wk a = true.
Definition kn_args (f : pst -> res (args * list token * pst)) : Prop :=
  forall st a cms st', f st = Ok (a, cms, st') -> wk_args a && forallb neol cms = true.
Definition kn_args_loop (f : node -> args -> list token -> pst -> res (args * list token * pst)) : Prop :=
  forall s a cms st a' cms' st', f s a cms st = Ok (a', cms', st') ->
    is_expr s && wk s = true -> wk_args a && forallb neol cms = true -> wk_args a' && forallb neol cms' = true.
Definition kn_ifs (f : ifs -> pst -> res (ifs * pst)) : Prop :=
  forall i st i' st', f i st = Ok (i', st') -> wk_ifs i = true -> wk_ifs i' = true.
Definition kn_block (f : pst -> res (block * pst)) : Prop :=
  forall st b st', f st = Ok (b, st') -> wk_block b = true.
Definition kn_block_loop (f : block -> pst -> res (block * pst)) : Prop :=
  forall bl st b st', f bl st = Ok (b, st') -> wk_block bl = true -> wk_block b = true.

Record all_kn (p : parsers) : Prop := {
  kn_e1 : kx_node (p_e1 p); kn_e2 : kx_node (p_e2 p); kn_or : kn_loop (p_or_loop p);
  kn_e3 : kx_node (p_e3 p); kn_and : kn_loop (p_and_loop p); kn_e4 : kx_node (p_e4 p);
  kn_e5 : kx_node (p_e5 p); kn_add : kn_loop (p_add_loop p); kn_e6 : kx_node (p_e6 p);
  kn_mul : kn_loop (p_mul_loop p); kn_e7 : kx_node (p_e7 p); kn_e8 : kx_node (p_e8 p);
  kn_post : kn_loop (p_postfix_loop p); kn_meth : kn_method (p_method_call p);
  kn_e9 : kx_node (p_e9 p); kn_e10 : kx_node (p_e10 p);
  kn_kv : kn_args (p_key_values p); kn_kvl : kn_args_loop (p_kv_loop p);
  kn_args_ : kn_args (p_args_ p); kn_argsl : kn_args_loop (p_args_loop p);
  kn_line : kn_node (p_line p); kn_elif : kn_ifs (p_elif_loop p);
  kn_cb : kn_block (p_codeblock p); kn_bl : kn_block_loop (p_block_loop p) }.

(* the facts about tokens and sub-results that need no side condition *)
Ltac kfacts p Hp :=
  repeat match goal with
  | E : accept ?k ?st = Ok (Some (?t, ?st')) |- _ => apply (accept_kind k st t st') in E
  | E : accept_any ?q ?st = Ok (Some (?t, ?st')) |- _ =>
      apply (accept_any_kind q st t st') in E; apply (pred_neol q t eq_refl) in E
  | E : expect ?k ?st = Ok (?t, ?st') |- _ => apply (expect_kind k st t st') in E
  | E : accept _ _ = Ok None |- _ => clear E
  | E : accept_any _ _ = Ok None |- _ => clear E
  | E : p_e1 p _ = Ok _ |- _ => apply (kn_e1 p Hp) in E
  | E : p_e2 p _ = Ok _ |- _ => apply (kn_e2 p Hp) in E
  | E : p_e3 p _ = Ok _ |- _ => apply (kn_e3 p Hp) in E
  | E : p_e4 p _ = Ok _ |- _ => apply (kn_e4 p Hp) in E
  | E : p_e5 p _ = Ok _ |- _ => apply (kn_e5 p Hp) in E
  | E : p_e6 p _ = Ok _ |- _ => apply (kn_e6 p Hp) in E
  | E : p_e7 p _ = Ok _ |- _ => apply (kn_e7 p Hp) in E
  | E : p_e8 p _ = Ok _ |- _ => apply (kn_e8 p Hp) in E
  | E : p_e9 p _ = Ok _ |- _ => apply (kn_e9 p Hp) in E
  | E : p_e10 p _ = Ok _ |- _ => apply (kn_e10 p Hp) in E
  | E : p_line p _ = Ok _ |- _ => apply (kn_line p Hp) in E
  | E : p_key_values p _ = Ok _ |- _ => apply (kn_kv p Hp) in E
  | E : p_args_ p _ = Ok _ |- _ => apply (kn_args_ p Hp) in E
  | E : p_codeblock p _ = Ok _ |- _ => apply (kn_cb p Hp) in E
  | E : is_id ?n = Some ?t |- _ => apply is_id_yield in E; subst n
  end.

(* a goal that is a conjunction of facts at hand *)
Ltac kleaf :=
  first [ assumption | reflexivity
        | match goal with H : tk ?t = _ |- _ => progress (unfold neol, iseol, isk; rewrite H); reflexivity end
        | match goal with H : wk (NId ?t) = true |- neol ?t = true => exact H end ].
Ltac ksplit :=
  cbn [wk wk_args wk_block wk_ifs forallb is_expr];
  rewrite ?wk_args_snoc_pos, ?wk_args_snoc_kw, ?wk_block_snoc, ?wk_ifs_snoc, ?forallb_snoc;
  cbn [wk wk_args wk_block wk_ifs forallb is_expr];
  repeat match goal with
  | H : _ && _ = true |- _ => apply andb_prop in H; destruct H
  end;
  repeat (apply andb_true_intro; split); try kleaf.

(* the loops and continuation-style functions: their side conditions are conjunctions of facts at hand *)
Ltac kloops p Hp :=
  repeat match goal with
  | E : p_or_loop p _ _ = Ok _ |- _ => apply (kn_or p Hp) in E; specialize (E ltac:(solve [ksplit]))
  | E : p_and_loop p _ _ = Ok _ |- _ => apply (kn_and p Hp) in E; specialize (E ltac:(solve [ksplit]))
  | E : p_add_loop p _ _ = Ok _ |- _ => apply (kn_add p Hp) in E; specialize (E ltac:(solve [ksplit]))
  | E : p_mul_loop p _ _ = Ok _ |- _ => apply (kn_mul p Hp) in E; specialize (E ltac:(solve [ksplit]))
  | E : p_postfix_loop p _ _ = Ok _ |- _ => apply (kn_post p Hp) in E; specialize (E ltac:(solve [ksplit]))
  | E : p_method_call p _ _ _ = Ok _ |- _ => apply (kn_meth p Hp) in E; specialize (E ltac:(solve [ksplit])); specialize (E ltac:(solve [ksplit]))
  | E : p_kv_loop p _ _ _ _ = Ok _ |- _ => apply (kn_kvl p Hp) in E; specialize (E ltac:(solve [ksplit])); specialize (E ltac:(solve [ksplit]))
  | E : p_args_loop p _ _ _ _ = Ok _ |- _ => apply (kn_argsl p Hp) in E; specialize (E ltac:(solve [ksplit])); specialize (E ltac:(solve [ksplit]))
  | E : p_elif_loop p _ _ = Ok _ |- _ => apply (kn_elif p Hp) in E; specialize (E ltac:(solve [ksplit]))
  | E : p_block_loop p _ _ = Ok _ |- _ => apply (kn_bl p Hp) in E; specialize (E ltac:(solve [ksplit]))
  end.

Ltac ksolve p Hp := repeat inv_step p Hp; kfacts p Hp; kloops p Hp; try solve [ksplit].

Section StepKind.
  Variable p : parsers.
  Hypothesis Hp : all_kn p.

  Lemma sk_e1 : kx_node (p_e1 (step p)).
  Proof. intros st a st' H. cbn [step p_e1] in H. ksolve p Hp. Qed.
  Lemma sk_e2 : kx_node (p_e2 (step p)).
  Proof. intros st a st' H. cbn [step p_e2] in H. ksolve p Hp. Qed.
  Lemma sk_or : kn_loop (p_or_loop (step p)).
  Proof. intros l st a st' H Hl. cbn [step p_or_loop] in H. ksolve p Hp. Qed.
  Lemma sk_e3 : kx_node (p_e3 (step p)).
  Proof. intros st a st' H. cbn [step p_e3] in H. ksolve p Hp. Qed.
  Lemma sk_and : kn_loop (p_and_loop (step p)).
  Proof. intros l st a st' H Hl. cbn [step p_and_loop] in H. ksolve p Hp. Qed.
  Lemma sk_e4 : kx_node (p_e4 (step p)).
  Proof. intros st a st' H. cbn [step p_e4] in H. ksolve p Hp. Qed.
  Lemma sk_e5 : kx_node (p_e5 (step p)).
  Proof. intros st a st' H. cbn [step p_e5] in H. ksolve p Hp. Qed.
  Lemma sk_add : kn_loop (p_add_loop (step p)).
  Proof. intros l st a st' H Hl. cbn [step p_add_loop] in H. ksolve p Hp. Qed.
  Lemma sk_e6 : kx_node (p_e6 (step p)).
  Proof. intros st a st' H. cbn [step p_e6] in H. ksolve p Hp. Qed.
  Lemma sk_mul : kn_loop (p_mul_loop (step p)).
  Proof. intros l st a st' H Hl. cbn [step p_mul_loop] in H. ksolve p Hp. Qed.
  Lemma sk_e7 : kx_node (p_e7 (step p)).
  Proof. intros st a st' H. cbn [step p_e7] in H. ksolve p Hp. Qed.
  Lemma sk_e8 : kx_node (p_e8 (step p)).
  Proof. intros st a st' H. cbn [step p_e8] in H. ksolve p Hp. Qed.
  Lemma sk_post : kn_loop (p_postfix_loop (step p)).
  Proof. intros l st a st' H Hl. cbn [step p_postfix_loop] in H. ksolve p Hp. Qed.
  Lemma sk_meth : kn_method (p_method_call (step p)).
  Proof. intros o d st a st' H Ho Hd. cbn [step p_method_call] in H. ksolve p Hp. Qed.
  Lemma sk_e9 : kx_node (p_e9 (step p)).
  Proof. intros st a st' H. cbn [step p_e9] in H. ksolve p Hp. Qed.
  Lemma sk_e10 : kx_node (p_e10 (step p)).
  Proof.
    intros st a st' H. cbn [step p_e10] in H.
    destruct (tk (cur st)) eqn:K; repeat inv_step p Hp; cbn [wk is_expr andb]; unfold neol, isk; rewrite ?K; reflexivity.
  Qed.
  Lemma sk_kv : kn_args (p_key_values (step p)).
  Proof. intros st a cms st' H. cbn [step p_key_values] in H. ksolve p Hp. Qed.
  Lemma sk_kvl : kn_args_loop (p_kv_loop (step p)).
  Proof. intros s a cms st a' cms' st' H Hs Ha. cbn [step p_kv_loop] in H. ksolve p Hp. Qed.
  Lemma sk_args : kn_args (p_args_ (step p)).
  Proof. intros st a cms st' H. cbn [step p_args_] in H. ksolve p Hp. Qed.
  Lemma sk_argsl : kn_args_loop (p_args_loop (step p)).
  Proof. intros s a cms st a' cms' st' H Hs Ha. cbn [step p_args_loop] in H. ksolve p Hp. Qed.
  Lemma sk_line : kn_node (p_line (step p)).
  Proof. intros st a st' H. cbn [step p_line] in H. ksolve p Hp. Qed.
  Lemma sk_elif : kn_ifs (p_elif_loop (step p)).
  Proof. intros i st i' st' H Hi. cbn [step p_elif_loop] in H. ksolve p Hp. Qed.
  Lemma sk_cb : kn_block (p_codeblock (step p)).
  Proof. intros st b st' H. cbn [step p_codeblock] in H. ksolve p Hp. Qed.
  Lemma sk_bl : kn_block_loop (p_block_loop (step p)).
  Proof. intros bl st b st' H Hb. cbn [step p_block_loop] in H. ksolve p Hp. Qed.

  Theorem step_kn : all_kn (step p).
  Proof.
    constructor.
    - exact sk_e1. - exact sk_e2. - exact sk_or. - exact sk_e3. - exact sk_and. - exact sk_e4.
    - exact sk_e5. - exact sk_add. - exact sk_e6. - exact sk_mul. - exact sk_e7. - exact sk_e8.
    - exact sk_post. - exact sk_meth. - exact sk_e9. - exact sk_e10. - exact sk_kv. - exact sk_kvl.
    - exact sk_args. - exact sk_argsl. - exact sk_line. - exact sk_elif. - exact sk_cb. - exact sk_bl.
  Qed.
End StepKind.

Lemma fuel_kn : all_kn fuel_parsers.
Proof. constructor; repeat intro; discriminate. Qed.
Theorem P_kn n : all_kn (P n).
Proof. induction n as [|n IH]; [exact fuel_kn | apply step_kn; exact IH]. Qed.

Theorem parse_tokens_kinds fuel st b : parse_tokens fuel st = Ok b -> wk_block b = true.
Proof.
  unfold parse_tokens. intro H.
  destruct (p_codeblock (P fuel) st) as [[b0 st1]| |] eqn:E; cbn [bind] in H; try discriminate.
  apply (kn_cb _ (P_kn fuel)) in E.
  destruct (expect KEof st1) as [[t st2]| |]; cbn [bind] in H; try discriminate.
  inversion H; subst. exact E.
Qed.

Theorem parse_kinds s b : parse s = Ok b -> wk_block b = true.
Proof.
  unfold parse. destruct s as [|c r]; [apply parse_tokens_kinds|].
  destruct (c =? c_bom); [discriminate|].
  destruct (lex_prefix (length (c :: r)) (c :: r) init_lst) as [ts e].
  destruct (significant ts); [destruct e; [discriminate|]|]; apply parse_tokens_kinds.
Qed.
