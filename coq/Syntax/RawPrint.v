(* Syntax/RawPrint.v — executable model of mesonbuild/ast/printer.py:276-319 (class RawPrinter)
   on top of mesonbuild/ast/visitor.py:155-331 (class FullAstVisitor): the order in which the
   children, the symbols and the `whitespaces` of every node class are emitted.
       FullAstVisitor.exit_node (visitor.py:161-163): if node.whitespaces: node.whitespaces.accept(self)
       RawPrinter.visit_default_func (printer.py:281-285): enter_node; result += node.value; exit_node
   (used for SymbolNode, IdNode and WhitespaceNode).  No proofs in this file. *)
From MV Require Import Base.Strs Syntax.Lexer Syntax.Parser Syntax.Trivia.
Open Scope N_scope.

(* visit_WhitespaceNode -> visit_default_func: the value, i.e. the appended token texts *)
Definition p_ws (w : wsl) : str := texts_ w.
(* visit_SymbolNode -> visit_default_func *)
Definition p_sym (s : sym) : str := sy_val s ++ p_ws (sy_ws s).
(* visit_IdNode -> visit_default_func *)
Definition p_idn (i : idn) : str := ttext (id_tok i) ++ p_ws (id_ws i).

(* 'fstring' in token.tid / 'multiline' in token.tid (StringNode.__init__, mparser.py:329-330) *)
Definition is_fstring (k : kind) : bool := match k with KFStr | KMFStr => true | _ => false end.
Definition is_multiline (k : kind) : bool := match k with KMStr | KMFStr => true | _ => false end.
Definition cut3 (s : str) : str := firstn (length s - 3) s.
(* the token value of a string: Lexer.lex cuts the quotes off,
   value[2 if fstring else 1:-1] (mparser.py:222), value[4 if multiline_fstring else 3:-3] (224) *)
Definition tok_value (t : token) : str :=
  match tk t with
  | KStr => removelast (drop 1 (ttext t))
  | KFStr => removelast (drop 2 (ttext t))
  | KMStr => cut3 (drop 3 (ttext t))
  | KMFStr => cut3 (drop 4 (ttext t))
  | _ => ttext t
  end.
(* RawPrinter.visit_StringNode, printer.py:301-309 (node.value of a multi-line string and
   node.raw_value of a single-line one are both the token value) *)
Definition p_str (t : token) : str :=
  (if is_fstring (tk t) then [c_f] else []) ++
  (if is_multiline (tk t) then [c_sq; c_sq; c_sq] ++ tok_value t ++ [c_sq; c_sq; c_sq]
   else [c_sq] ++ tok_value t ++ [c_sq]).
(* RawPrinter.visit_BooleanNode, printer.py:291-294; e10 sets t.value = True / False by the keyword *)
Definition p_bool (t : token) : str := if kind_beq (tk t) KTrue then s2l "true" else s2l "false".

Fixpoint rp (n : tnode) : str :=
  match n with
  (* RawPrinter.visit_EmptyNode: enter_node; exit_node *)
  | TEmpty _ w => p_ws w
  | TBool t w => p_bool t ++ p_ws w
  | TId t w => ttext t ++ p_ws w                      (* visit_default_func *)
  | TNum t w => ttext t ++ p_ws w                     (* visit_NumberNode: node.raw_value *)
  | TStr t w => p_str t ++ p_ws w
  | TContinue _ _ w => s2l "continue" ++ p_ws w       (* printer.py:311-314 *)
  | TBreak _ _ w => s2l "break" ++ p_ws w             (* printer.py:316-319 *)
  (* visit_ParenthesizedNode, visitor.py:326-331 *)
  | TParen lp e rp' w => p_sym lp ++ rp e ++ p_sym rp' ++ p_ws w
  (* visit_ArrayNode 182-187, visit_DictNode 189-194 *)
  | TArray lb a rb w => p_sym lb ++ rp_args a ++ p_sym rb ++ p_ws w
  | TDict lc a rc w => p_sym lc ++ rp_args a ++ p_sym rc ++ p_ws w
  (* visit_FunctionNode 237-243 *)
  | TFunc name lp a rp' w => p_idn name ++ p_sym lp ++ rp_args a ++ p_sym rp' ++ p_ws w
  (* visit_MethodNode 227-235 *)
  | TMethod obj dot name lp a rp' w =>
      rp obj ++ p_sym dot ++ p_idn name ++ p_sym lp ++ rp_args a ++ p_sym rp' ++ p_ws w
  (* visit_IndexNode 219-225 *)
  | TIndex obj lb idx rb w => rp obj ++ p_sym lb ++ rp idx ++ p_sym rb ++ p_ws w
  (* visit_UnaryOperatorNode 169-173 *)
  | TNot op _ e w | TUMinus op _ e w => p_sym op ++ rp e ++ p_ws w
  (* visit_BinaryOperatorNode 175-180 *)
  | TArith l op r w | TCmp l op r w | TAnd l op r w | TOr l op r w => rp l ++ p_sym op ++ rp r ++ p_ws w
  (* visit_TernaryNode 292-299 *)
  | TTernary c q t colon f w => rp c ++ p_sym q ++ rp t ++ p_sym colon ++ rp f ++ p_ws w
  (* visit_AssignmentNode 245-250 (PlusAssignment: the same) *)
  | TAssign name op v w | TPlusAssign name op v w => p_idn name ++ p_sym op ++ rp v ++ p_ws w
  (* visit_IfClauseNode 268-274: the ifs, elseblock.accept, endif, exit_node;
     visit_ElseNode 286-290: else_, block, exit_node (an ElseNode never has whitespaces);
     the EmptyNode elseblock prints nothing *)
  | TIf i els endif w =>
      rp_ifs i ++
      match els with Some (e, b) => p_sym e ++ rp_block b | None => [] end ++
      p_sym endif ++ p_ws w
  (* visit_ForeachClauseNode 255-266: foreach_, zip_longest(varnames, commas), colon, items, block, endforeach *)
  | TForeach fe v1 cv2 colon items b endfe w =>
      p_sym fe ++ p_idn v1 ++
      match cv2 with Some (cm, v2) => p_sym cm ++ p_idn v2 | None => [] end ++
      p_sym colon ++ rp items ++ rp_block b ++ p_sym endfe ++ p_ws w
  end
(* visit_ArgumentNode 301-324: node.arguments first, then node.kwargs (with the colons), each
   followed by the next comma of ONE iterator over node.commas while there is one *)
with rp_args (a : targs) : str :=
  match a with
  | TArgs items cms w =>
      let '(s, cms') := rp_pos items cms in
      s ++ rp_kw items cms' ++ p_ws w
  end
(* for arg in node.arguments *)
with rp_pos (a : titems) (cms : list sym) : str * list sym :=
  match a with
  | TANil => ([], cms)
  | TAPos n r =>
      match cms with
      | c :: cs => let '(s, cs') := rp_pos r cs in (rp n ++ p_sym c ++ s, cs')
      | [] => let '(s, cs') := rp_pos r [] in (rp n ++ s, cs')
      end
  | TAKw _ _ _ r => rp_pos r cms
  end
(* for (key, val), colon in zip(node.kwargs.items(), node.colons) *)
with rp_kw (a : titems) (cms : list sym) : str :=
  match a with
  | TANil => []
  | TAPos _ r => rp_kw r cms
  | TAKw k colon v r =>
      match cms with
      | c :: cs => rp k ++ p_sym colon ++ rp v ++ p_sym c ++ rp_kw r cs
      | [] => rp k ++ p_sym colon ++ rp v ++ rp_kw r []
      end
  end
(* visit_CodeBlockNode 211-217: pre_whitespaces, the lines, exit_node (whitespaces never set) *)
with rp_block (b : tblock) : str :=
  match b with
  | TBlock pre ls => p_ws pre ++ rp_lines ls
  end
with rp_lines (l : tlines) : str :=
  match l with
  | TLNil => []
  | TLCons n r => rp n ++ rp_lines r
  end
(* visit_IfNode 279-284: if_, condition, block, exit_node *)
with rp_ifs (i : tifs) : str :=
  match i with
  | TINil => []
  | TICons kw cond b w r => p_sym kw ++ rp cond ++ rp_block b ++ p_ws w ++ rp_ifs r
  end.

(* printer = RawPrinter(); block.accept(printer); printer.result *)
Definition raw_print (b : tblock) : str := rp_block b.
